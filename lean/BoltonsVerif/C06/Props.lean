import BoltonsVerif.C06.Scalar
import BoltonsVerif.C06.Sharing
/-
C06 — property theorems for the URL quoting / parsing / rendering model.

`env : Env` bundles the external functions (Unicode NFC, inet_pton for both families, the idna
codec both ways); every theorem holds for ALL of them unless a hypothesis says otherwise.
Texts are lists of code points; `isScalar` = "is a Unicode scalar value" (Python can encode it).
-/
namespace C06
open C06.Gen

/-! ## the tables regenerated from the source (re-checked by kernel evaluation after every change) -/

/-- every row of the four quote maps is either the byte itself (ASCII, raw-legal at that position per
    RFC 3986, not `%`) or `%` + two upper-case hex digits that denote the byte (and that the decoder, by `hex_table_exact`, sends back to it),
    and contains no character that the parser treats as a delimiter at that position -/
theorem quote_tables_ok (c : Comp) : mapOK c = true := mapOK_all c

/-- `_HEX_CHAR_MAP` is exactly "two hexadecimal digits, either case -> their value" -/
theorem hex_table_exact (a b : Nat) : hexPair? a b = hexSpec a b := hexPair_eq_spec a b

/-- every delimiter of the parser at a position (`_URL_RE` classes, `@`, `:`, `/`, `&`, `;`, `=`, `+`) is in
    the set that minimal quoting escapes there, and those sets are ASCII with escape rows -/
theorem delimiter_tables_ok (c : Comp) :
    (stopSet c).all (fun x => c.delims.contains x) = true ∧ delimsOK c = true :=
  ⟨stop_sub_delims c, delimsOK_all c⟩

/-- the character classes of `_URL_RE` relate to the separators as the scanner lemmas need -/
theorem url_re_classes_ok :
    notIn schemeStop 58 = false ∧
    notIn authStop 47 = false ∧ notIn authStop 63 = false ∧ notIn authStop 35 = false ∧
    notIn pathStop 63 = false ∧ notIn pathStop 35 = false ∧ notIn pathStop 47 = true ∧
    notIn queryStop 35 = false ∧ notIn queryStop 38 = true ∧ notIn queryStop 61 = true := stops_ok

/-! ## quoting: legality and inverse -/

/-- `unquote(quote_X_part(s, full_quote=True)) == NFC(s)` for the four quote functions, every
    text `s` and every normaliser -/
theorem unquote_quote (c : Comp) (nfc : Text → Text) (s : Text)
    (hs : ∀ x ∈ nfc s, isScalar x = true) :
    unquote (quotePart c nfc true s) = nfc s := by
  simpa [quotePart] using unquote_quoteFull c nfc s hs

example : unquote (quotePart .query id true [97, 59, 38, 61, 43, 37, 32, 233, 0x1F600]) =
    [97, 59, 38, 61, 43, 37, 32, 233, 0x1F600] := by decide +kernel

/-- the fully quoted text is `*( raw-legal / "%" HEXDIG HEXDIG )` for its position (RFC 3986) -/
theorem quote_legal (c : Comp) (nfc : Text → Text) (s : Text)
    (hs : ∀ x ∈ nfc s, isScalar x = true) :
    wellQuoted c (quotePart c nfc true s) = true := by
  simpa [quotePart] using wellQuoted_quoteFull c nfc s hs

/-- … it is pure ASCII … -/
theorem quote_ascii (c : Comp) (nfc : Text → Text) (s : Text)
    (hs : ∀ x ∈ nfc s, isScalar x = true) :
    ∀ ch ∈ quotePart c nfc true s, ch < 128 := by
  simpa [quotePart, quoteFull] using quoteBytes_ascii c _ (utf8_lt (nfc s) hs)

/-- … and contains no character that the parser treats as a delimiter at that position
    (nothing can leak into a neighbouring component) -/
theorem quote_no_delimiter (c : Comp) (nfc : Text → Text) (s : Text)
    (hs : ∀ x ∈ nfc s, isScalar x = true) :
    ∀ ch ∈ quotePart c nfc true s, ch ∉ stopSet c := by
  intro ch hch
  have := quoteBytes_stop c _ (utf8_lt (nfc s) hs) ch (by simpa [quotePart, quoteFull] using hch)
  simpa using this

/- `a;b` as a query part: `;` (a separator for parse_qsl) does not survive raw, and the text comes back.
   (Stated without the exact rendering: a table that escapes more than it has to is just as good.) -/
example : (quotePart .query id true [97, 59, 98]).contains 59 = false ∧
    wellQuoted .query (quotePart .query id true [97, 59, 98]) = true ∧
    unquote (quotePart .query id true [97, 59, 98]) = [97, 59, 98] := by decide +kernel
example : (stopSet .query).contains 59 = true := by decide

/-! ## minimal quoting (`full_quote=False`) -/

/-- minimal quoting leaves no character raw that the parser treats as a delimiter at that position … -/
theorem quote_min_no_delimiter (c : Comp) (nfc : Text → Text) (s : Text) :
    ∀ ch ∈ quotePart c nfc false s, ch ∉ stopSet c := by
  intro ch hch
  have := quoteMin_stop c s ch (by simpa [quotePart] using hch)
  simpa using this

/-- … and is undone by `unquote` for every text without `%` (non-ASCII characters stay raw; `min_needs_no_pct`
    shows that the exclusion is necessary) -/
theorem unquote_quote_min (c : Comp) (nfc : Text → Text) (s : Text) (hs : 37 ∉ s) :
    unquote (quotePart c nfc false s) = s := by
  simpa [quotePart] using unquote_quoteMin c s hs

example : unquote (quotePart .path id false [97, 47, 63, 35, 233, 32, 0x1F600]) = [97, 47, 63, 35, 233, 32, 0x1F600] ∧
    (quotePart .path id false [97, 47, 63, 35, 233, 32]).contains 47 = false := by decide +kernel

/-! ## unquote decodes exactly the well-formed escapes -/

/-- `unquote_to_bytes` is the reference decoder: `%` + two hex digits (either case) is the byte
    they denote, everything else (a stray `%` included) stays -/
theorem unquote_to_bytes_wellformed (s : Text) : unqBytes s = unqSpec s := unqBytes_eq_spec s

/-- on ASCII text `unquote` is: percent-decode, then read as UTF-8 (invalid sequences replaced) -/
theorem unquote_wellformed (s : Text) (hs : ∀ c ∈ s, c < 128) : unquote s = decodeR (unqSpec s) := by
  rw [unquote_ascii s hs, unqBytes_eq_spec]

/-- a non-ASCII character is left alone and separates what is decoded on either side (together with
    `unquote_wellformed` this describes `unquote` on every text) -/
theorem unquote_nonascii (a b : Text) (c : Nat) (hc : 128 ≤ c) :
    unquote (a ++ c :: b) = unquote a ++ c :: unquote b := unquote_split a b c hc

/-- text without `%` is left alone -/
theorem unquote_identity (s : Text) (hp : 37 ∉ s) : unquote s = s := unquote_no_pct s hp

example : unquote [37, 67, 51, 37, 65, 57, 37, 122, 122, 37, 52, 233, 37] = [233, 37, 122, 122, 37, 52, 233, 37] := by
  decide +kernel

/-! ## render -> parse round trip of a whole URL -/

/-- Any texts placed in username, password, path segments, query keys / values and fragment of a
    URL with a valid scheme, host and port (`WF`) are recovered exactly, up to NFC, after
    `to_text(full_quote=True)` and re-parsing; scheme, host, family and port come back unchanged - except a
    port that `to_text` never renders (zero / the scheme's default), which comes back as no port
    (`normal` changes nothing else; see `no_leak`): nothing leaks into a neighbouring component.
    Holds for every normaliser with `nfc "" = ""`, every inet_pton, every idna codec that maps
    this host to itself. -/
theorem roundtrip_full (env : Env) (u : URL) (hW : WF env u) (hnil : env.nfc [] = []) :
    ∃ t, toText env true u = .ok t ∧ URL.ofText env t = .ok (normal env u) :=
  ⟨fullText env u, toText_urlText env true env.nfc u (hW.toWFq hnil),
   ofText_urlText env true env.nfc u (hW.toWFq hnil) hnil⟩

/-- the same, component by component.  The port comes back unless it is one that is never rendered (zero, or
    the default port of the scheme: `portBack`); a positive non-default port (`PortOK`) comes back as it is -/
theorem no_leak (env : Env) (u : URL) (hW : WF env u) (hnil : env.nfc [] = []) :
    ∃ t v, toText env true u = .ok t ∧ URL.ofText env t = .ok v ∧
      v.scheme = u.scheme ∧ v.host = u.host ∧ v.port = portBack u ∧ (PortOK u → v.port = u.port) ∧
      v.family = u.family ∧
      v.username = env.nfc u.username ∧ v.password = env.nfc u.password ∧
      v.pathParts = u.pathParts.map env.nfc ∧
      v.query = u.query.map (fun kv => (env.nfc kv.1, kv.2.map env.nfc)) ∧
      v.fragment = env.nfc u.fragment :=
  ⟨fullText env u, normal env u, toText_urlText env true env.nfc u (hW.toWFq hnil),
   ofText_urlText env true env.nfc u (hW.toWFq hnil) hnil,
   rfl, rfl, rfl, fun h => portBack_of_ok h, rfl, rfl, rfl, rfl, rfl, rfl⟩

/-- the parser cuts the fully quoted rendering exactly at the component boundaries (no character
    of a rendered component is a delimiter for the position it stands in) -/
theorem render_boundaries (env : Env) (u : URL) (hW : WF env u) (hnil : env.nfc [] = []) :
    Scanned (fullText env u) u.scheme (uiText env u ++ hostinfo u)
      (pathText env true u.pathParts) (queryText env true u.query)
      (quotePart .fragment env.nfc true u.fragment) :=
  urlText_scanned env true env.nfc u (hW.toWFq hnil)

/-- FULL STATEMENT (not proved in this generality): for every text `t` that is a well-formed RFC 3986
    URI or relative reference, `URL.ofText env t = .ok u → toText env true u = .ok t₁ →
    URL.ofText env t₁ = .ok u₁ → toText env true u₁ = .ok t₁`.
    PROVED PART: render → parse → render is the identity on the text for every URL that satisfies
    `WF` (a scheme or none; host a registered name / IPv4 literal or a bracketed IPv6 literal; no port or any
    natural-number port, zero and the scheme's default included; absolute path) — in particular for every parsed URL of that shape; relative references,
    scheme-only / host-less URLs and IDN hosts are covered by the correspondence and the oracle only. -/
theorem render_fixed_full_partial (env : Env) (hl : NfcLaws env.nfc) (u : URL) (hW : WF env u) :
    ∃ t u₁, toText env true u = .ok t ∧ URL.ofText env t = .ok u₁ ∧ toText env true u₁ = .ok t :=
  have h := render_fixed env true env.nfc hl
    (fun c s => by simp [quotePart, quoteFull_idem _ hl.idem]) hl.idem hl.nil u (hW.toWFq hl.nil)
  ⟨fullText env u, normal env u, h.1, h.2.1, h.2.2⟩

/-- minimal quoting: the URL comes back as it is (userinfo, which is always fully quoted,
    NFC-normalised) whenever no path segment, query key / value or fragment contains a `%`; the host may be an
    internationalised (non-ASCII) name: it is written raw and read back unchanged (`wfmin_iri`) -/
theorem roundtrip_min (env : Env) (u : URL) (hW : WFmin env u) (hnil : env.nfc [] = []) :
    ∃ t, toText env false u = .ok t ∧ URL.ofText env t = .ok (normalMin env u) :=
  ⟨minText env u, toText_urlText env false id u hW.toWFq, ofText_urlText env false id u hW.toWFq hnil⟩

/-- FULL STATEMENT (not proved in this generality): as above with `toText env false`, for every
    well-formed `t` whose decoded components contain no `%`.
    PROVED PART: every URL satisfying `WFmin` (same shape as `WF`; no `%` in path segments, query
    keys / values, fragment — username, password and host may contain `%`). -/
theorem render_fixed_min_partial (env : Env) (hl : NfcLaws env.nfc) (u : URL) (hW : WFmin env u) :
    ∃ t u₁, toText env false u = .ok t ∧ URL.ofText env t = .ok u₁ ∧ toText env false u₁ = .ok t :=
  have h := render_fixed env false id hl (fun _ _ => rfl) (fun _ => rfl) rfl u hW.toWFq
  ⟨minText env u, normalMin env u, h.1, h.2.1, h.2.2⟩

/-- witnesses for `min_needs_no_pct`: `h://h/%41` with the segment `%41`, and what it comes back as -/
def envMin : Env := ⟨id, fun _ => false, fun _ => false, some, some⟩
def uMin (seg : Text) : URL :=
  { scheme := [104], netlocSep := true, username := [], password := [], family := .none, host := [104],
    port := none, pathParts := [[], seg], query := [], fragment := [] }

theorem min_witness : pathDelims.contains 37 = false →
    toText envMin false (uMin [37, 52, 49]) = .ok [104, 58, 47, 47, 104, 47, 37, 52, 49] ∧
    URL.ofText envMin [104, 58, 47, 47, 104, 47, 37, 52, 49] = .ok (uMin [65]) := by
  decide +kernel

/-- the `%` exclusion of the minimal-mode theorems is necessary as long as minimal quoting leaves `%` alone (`%` is
    not in `_PATH_DELIMS` - true of the regenerated `Gen.pathDelims` at /repo HEAD; were it added, this theorem
    would hold vacuously instead of failing): a path segment `%41` renders minimally as `%41` and comes back as `A` -/
theorem min_needs_no_pct (h : pathDelims.contains 37 = false) :
    ∃ (env : Env) (u v : URL) (t : Text), toText env false u = .ok t ∧ URL.ofText env t = .ok v ∧
      u.pathParts = [[], [37, 52, 49]] ∧ v.pathParts = [[], [65]] :=
  ⟨envMin, uMin [37, 52, 49], uMin [65], [104, 58, 47, 47, 104, 47, 37, 52, 49],
   (min_witness h).1, (min_witness h).2, rfl, rfl⟩

/-! non-vacuity: a concrete environment and URL satisfying `WF` / `WFmin`, with hostile texts -/

/-- identity normaliser, no IP hosts, identity idna -/
def env0 : Env := ⟨id, fun _ => false, fun _ => false, some, some⟩

/-- the URL that renders as `http://a;b:p%40w@h:8042/x%2Fy/%3F?k%26=v%3D%3B&e=#f%23%0A` -/
def u0 : URL :=
  { scheme := [104, 116, 116, 112], netlocSep := false, username := [97, 59, 98], password := [112, 64, 119],
    family := .none, host := [104], port := some 8042,
    pathParts := [[], [120, 47, 121], [63]], query := [([107, 38], some [118, 61, 59]), ([101], some [])],
    fragment := [102, 35, 10] }

theorem wf_u0 : WF env0 u0 where
  scheme_ok := by decide
  host_ne := by decide
  host_form := .name (by decide) (by decide) (fun _ => rfl)
  idna_dec := fun _ => rfl
  port_ok := Or.inr ⟨8042, rfl⟩
  path_abs := ⟨_, rfl⟩
  query_ok := by decide
  scalars := ⟨by decide, by decide, by decide, by decide, by
    intro kv hkv
    simp only [u0, List.mem_cons, List.mem_nil_iff, or_false] at hkv
    rcases hkv with rfl | rfl
    · exact ⟨by decide, by intro v hv; cases hv; decide⟩
    · exact ⟨by decide, by intro v hv; cases hv; decide⟩⟩

/- port 80 of an `http` URL and port 0 are not rendered and therefore come back as "no port"; 8042 comes back -/
example : portBack { u0 with port := some 80 } = none ∧ portBack { u0 with port := some 0 } = none ∧
    portBack u0 = some 8042 := by decide +kernel

/-- the same URL with the default port of its scheme (never rendered) is still inside the fixed-point theorems -/
theorem wf_u0_default_port : WF env0 { u0 with port := some 80 } := wf_u0.withPort (some 80)

example : ((toText env0 true { u0 with port := some 80 }).toOption.bind fun t => (URL.ofText env0 t).toOption) =
    some (normal env0 { u0 with port := none }) := by decide +kernel

theorem wfmin_u0 : WFmin env0 u0 where
  scheme_ok := by decide
  host_ne := by decide
  host_form := .name (by decide) (by decide) (fun h => by cases h)
  idna_dec := fun _ => rfl
  port_ok := Or.inr ⟨8042, rfl⟩
  path_abs := ⟨_, rfl⟩
  query_ok := by decide
  user_scalar := by decide
  pw_scalar := by decide
  no_pct_parts := by decide
  no_pct_query := by
    intro kv hkv
    simp only [u0, List.mem_cons, List.mem_nil_iff, or_false] at hkv
    rcases hkv with rfl | rfl
    · exact ⟨by decide, by intro v hv; cases hv; decide⟩
    · exact ⟨by decide, by intro v hv; cases hv; decide⟩
  no_pct_frag := by decide

/-- an IRI with an internationalised host: `http://bücher.de/ä?ö#ü`.  With minimal quoting every non-ASCII character
    - in the host too - is written raw and read back as it is (no idna codec involved), so it is inside `WFmin` -/
def uIri : URL :=
  { scheme := [104, 116, 116, 112], netlocSep := false, username := [], password := [], family := .none,
    host := [98, 252, 99, 104, 101, 114, 46, 100, 101], port := none, pathParts := [[], [228]],
    query := [([246], none)], fragment := [252] }

theorem wfmin_iri : WFmin env0 uIri where
  scheme_ok := by decide
  host_ne := by decide
  host_form := .name (by decide) (by decide) (fun h => by cases h)
  idna_dec := fun h => by revert h; decide
  port_ok := Or.inl rfl
  path_abs := ⟨_, rfl⟩
  query_ok := by decide
  user_scalar := by decide
  pw_scalar := by decide
  no_pct_parts := by decide
  no_pct_query := by
    intro kv hkv
    simp only [uIri, List.mem_cons, List.mem_nil_iff, or_false] at hkv
    subst hkv
    exact ⟨by decide, by intro v hv; cases hv⟩
  no_pct_frag := by decide

example : ((toText env0 false uIri).toOption.bind fun t => (URL.ofText env0 t).toOption) =
    some { uIri with netlocSep := true } := by decide +kernel

/-- an IPv6 host: `ws://[::1]:81/%5B?%5D` (with an `inet_pton` that accepts `::1`) -/
def env6 : Env := ⟨id, fun _ => false, fun h => h == [58, 58, 49], some, some⟩

def u6 : URL :=
  { scheme := [119, 115], netlocSep := false, username := [], password := [], family := .inet6,
    host := [58, 58, 49], port := some 81, pathParts := [[], [91]], query := [([93], none)], fragment := [] }

theorem wf_u6 : WF env6 u6 where
  scheme_ok := by decide
  host_ne := by decide
  host_form := .v6 rfl (by decide) (by decide) (by decide)
  idna_dec := fun _ => rfl
  port_ok := Or.inr ⟨81, rfl⟩
  path_abs := ⟨_, rfl⟩
  query_ok := by decide
  scalars := ⟨by decide, by decide, by decide, by decide, by
    intro kv hkv
    simp only [u6, List.mem_cons, List.mem_nil_iff, or_false] at hkv
    subst hkv
    exact ⟨by decide, by intro v hv; cases hv⟩⟩

/- non-vacuity of the conclusions, evaluated: the rendering parses back to the same URL.  (The exact text is
   not pinned down: which characters beyond the delimiters a table escapes is the code's choice.) -/
example : ((toText env6 true u6).toOption.bind fun t => (URL.ofText env6 t).toOption) = some (normal env6 u6) := by
  decide +kernel

example : NfcLaws env0.nfc := ⟨rfl, fun _ => rfl, fun _ h => h⟩

example : ((toText env0 true u0).toOption.bind fun t => (URL.ofText env0 t).toOption) = some (normal env0 u0) ∧
    (normal env0 u0).username = [97, 59, 98] ∧ (normal env0 u0).fragment = [102, 35, 10] := by
  decide +kernel

/- … and none of the hostile characters stands raw where the parser would cut: no `@` `/` `?` `#` beyond the
   structural ones, no raw line feed -/
example : ((toText env0 true u0).toOption.map fun t =>
    (t.count 64, t.count 63, t.count 35, t.count 10, (t.filter (· == 47)).length)) = some (1, 1, 1, 0, 4) := by
  decide +kernel

/-! ## URLs and references without an authority (`mailto:…`, `urn:…`, `file:///…`, relative references) -/

/-- FULL STATEMENT: see `render_fixed_full_partial`.  PROVED PART (second family of shapes): render → parse →
    render is the identity on the text for every URL WITHOUT authority (`WFna`: no host, no userinfo; a scheme -
    whether or not it uses a netloc - or none, i.e. a relative reference; at least one path segment; arbitrary
    texts in path segments, query and fragment - a `:` in the first segment of a relative reference included:
    `to_text` escapes it, `colon_escape_invisible`).  Covers `scheme:rootless/path`, `scheme:/abs`, `scheme:///abs` (the `//` written for a netloc scheme
    with an empty authority, and for a path that begins with `//`), `/abs`, `rel/path`, `?q`, `#f`, the empty
    reference.  What comes back (`normalN`): the components NFC-normalised, `//` remembered, no port. -/
theorem render_fixed_full_noauth_partial (env : Env) (hl : NfcLaws env.nfc) (u : URL) (hW : WFna env u) :
    ∃ t u₁, toText env true u = .ok t ∧ URL.ofText env t = .ok u₁ ∧ toText env true u₁ = .ok t ∧
      u₁.scheme = u.scheme ∧ u₁.host = [] ∧ u₁.pathParts = u.pathParts.map env.nfc ∧
      u₁.query = u.query.map (fun kv => (env.nfc kv.1, kv.2.map env.nfc)) ∧ u₁.fragment = env.nfc u.fragment :=
  have h := render_fixedN env true env.nfc
    (fun c s => by simp [quotePart, quoteFull_idem _ hl.idem]) hl.idem u hW.toWFnq
  ⟨urlTextN env true u, normalN env true env.nfc u, h.1, h.2.1, h.2.2, rfl, rfl, rfl, rfl, rfl⟩

/-- the same in minimal mode, when no path segment, query key / value or fragment contains `%` (`WFnaMin`) -/
theorem render_fixed_min_noauth_partial (env : Env) (u : URL) (hW : WFnaMin env u) :
    ∃ t u₁, toText env false u = .ok t ∧ URL.ofText env t = .ok u₁ ∧ toText env false u₁ = .ok t ∧
      u₁.scheme = u.scheme ∧ u₁.host = [] ∧ u₁.pathParts = u.pathParts ∧ u₁.query = u.query ∧
      u₁.fragment = u.fragment :=
  have h := render_fixedN env false id (fun _ _ => rfl) (fun _ => rfl) u hW.toWFnq
  ⟨urlTextN env false u, normalN env false id u, h.1, h.2.1, h.2.2, rfl, rfl, by simp [normalN], by
    simp only [normalN, decPair]
    conv => rhs; rw [← List.map_id u.query]
    apply List.map_congr_left
    intro kv _
    obtain ⟨k, v⟩ := kv
    cases v <;> rfl, rfl⟩

/-- the colon escape that `to_text` applies to the first path segment of a relative reference
    (`first.replace(':', '%3A')`) is invisible to `unquote`, and leaves no raw `:` behind (nothing the parser could
    read as the end of a scheme) -/
theorem colon_escape_invisible (q : Text) : unquote (escColon q) = unquote q ∧ 58 ∉ escColon q :=
  ⟨unquote_escColon q, escColon_no_colon q⟩

/-- the `//` that `to_text` writes without an authority is remembered by the parser and written again, and a
    URL parsed without `//` does not get one (whatever the scheme tables say) -/
theorem netloc_slashes_stable (scheme : Text) (parsedWithSlashes : Bool) (path : Text) :
    slashesS scheme (slashesS scheme parsedWithSlashes path) path = slashesS scheme parsedWithSlashes path :=
  slashesS_idem scheme parsedWithSlashes path

/-! non-vacuity: `mailto:a b@x?s=%`, `file:///e t/c` (a netloc scheme, empty authority), the relative references
    `/a?b` … `x/../y#z`, and `//`-initial paths -/

/-- `mailto:` + one rootless segment `a b@x`, query `s` = `%` -/
def uMail : URL :=
  { scheme := [109, 97, 105, 108, 116, 111], netlocSep := false, username := [], password := [], family := .none,
    host := [], port := none, pathParts := [[97, 32, 98, 64, 120]], query := [([115], some [37])], fragment := [] }

/-- path segments + fragment `#?` under a scheme (or none) -/
def uPath (scheme : Text) (parts : List Text) : URL :=
  { scheme := scheme, netlocSep := false, username := [], password := [], family := .none, host := [], port := none,
    pathParts := parts, query := [], fragment := [35, 63] }

theorem wfna_mail : WFna env0 uMail where
  scheme_ok := by decide
  host_nil := rfl
  user_nil := rfl
  pw_nil := rfl
  parts_ne := by decide
  query_ok := by decide
  scalars := ⟨by decide, by decide, by decide, by decide, by
    intro kv hkv
    simp only [uMail, List.mem_cons, List.mem_nil_iff, or_false] at hkv
    subst hkv
    exact ⟨by decide, by intro v hv; cases hv; decide⟩⟩

/-- `file:///e t/c#%23%3F`: a scheme that uses a netloc, an empty authority -/
theorem wfna_file : WFna env0 (uPath [102, 105, 108, 101] [[], [101, 32, 116], [99]]) where
  scheme_ok := by decide
  host_nil := rfl
  user_nil := rfl
  pw_nil := rfl
  parts_ne := by decide
  query_ok := by decide
  scalars := ⟨by decide, by decide, by decide, by decide, by intro kv hkv; cases hkv⟩

/-- the relative reference `/e t/c#…` -/
theorem wfna_rel : WFna env0 (uPath [] [[], [101, 32, 116], [99]]) where
  scheme_ok := by decide
  host_nil := rfl
  user_nil := rfl
  pw_nil := rfl
  parts_ne := by decide
  query_ok := by decide
  scalars := ⟨by decide, by decide, by decide, by decide, by intro kv hkv; cases hkv⟩

/-- a relative path that begins with `//` (segments `''`, `''`, `c`): `to_text` writes an empty authority before it -/
theorem wfna_slashes : WFna env0 (uPath [] [[], [], [99]]) where
  scheme_ok := by decide
  host_nil := rfl
  user_nil := rfl
  pw_nil := rfl
  parts_ne := by decide
  query_ok := by decide
  scalars := ⟨by decide, by decide, by decide, by decide, by intro kv hkv; cases hkv⟩

theorem wfnamin_rel : WFnaMin env0 (uPath [] [[], [101, 32, 116], [99]]) where
  scheme_ok := by decide
  host_nil := rfl
  user_nil := rfl
  pw_nil := rfl
  parts_ne := by decide
  query_ok := by decide
  no_pct_parts := by decide
  no_pct_query := by intro kv hkv; cases hkv
  no_pct_frag := by decide

/-- the relative reference with the segments `a:b` and `c:d`: renders as `a%3Ab/c:d`-like text without a raw colon
    before the first `/` -/
theorem wfna_rel_colon : WFna env0 (uPath [] [[97, 58, 98], [99, 58, 100]]) where
  scheme_ok := by decide
  host_nil := rfl
  user_nil := rfl
  pw_nil := rfl
  parts_ne := by decide
  query_ok := by decide
  scalars := ⟨by decide, by decide, by decide, by decide, by intro kv hkv; cases hkv⟩

example : ((toText env0 true (uPath [] [[97, 58, 98], [99, 58, 100]])).toOption.map fun t =>
    ((t.takeWhile (· != 47)).contains 58, (URL.ofText env0 t).toOption.map (·.pathParts))) =
    some (false, some [[97, 58, 98], [99, 58, 100]]) := by decide +kernel

/- `mailto:` has no `//`, `file:` gets one with an empty authority, and so does the relative path `//c`: the
   slashes in the renderings are 0 / 4 (`file:` + `//` + `/e%20t/c`) / 4 (`//` + `//c`) -/
example : ((toText env0 true uMail).toOption.map fun t => t.count 47) = some 0 ∧
    ((toText env0 true (uPath [102, 105, 108, 101] [[], [101, 32, 116], [99]])).toOption.map fun t => t.count 47) = some 4 ∧
    ((toText env0 true (uPath [] [[], [], [99]])).toOption.map fun t => t.count 47) = some 4 := by decide +kernel

example : ((toText env0 true (uPath [102, 105, 108, 101] [[], [101, 32, 116], [99]])).toOption.bind fun t =>
    (URL.ofText env0 t).toOption) = some { uPath [102, 105, 108, 101] [[], [101, 32, 116], [99]] with netlocSep := true } := by
  decide +kernel

/-! ## the fixed points, stated about TEXTS

The theorems above are about URL objects of a given shape.  Every URL that the parser returns has that shape
(`parsed_WF`, `parsed_WFna`, …: its scheme consists of scheme characters, it has at least one path segment - an
absolute path when there is a host -, `parse_qsl` never produces an (empty key, no value) pair), so the fixed-point
clause can be stated the way the property reads: parse a text, render, parse, render - the two renderings are equal. -/

/-- what the theorems below assume of the normaliser besides `NfcLaws`: encodable text (Unicode scalar values
    only, i.e. a Python `str` without lone surrogates) stays encodable - true of NFC -/
def NfcScalar (nfc : Text → Text) : Prop :=
  ∀ s, (∀ x ∈ s, isScalar x = true) → ∀ x ∈ nfc s, isScalar x = true

/-- `unquote` of encodable text is encodable text: CPython's UTF-8 decoder with errors='replace' never produces a
    lone surrogate or a value beyond U+10FFFF, whatever escapes the text contains … -/
theorem unquote_scalar (s : Text) (hs : ∀ x ∈ s, isScalar x = true) : ∀ x ∈ unquote s, isScalar x = true :=
  unquote_scalar_of s hs

/-- … hence every component text of a URL parsed from encodable text is encodable (and can be rendered again) -/
theorem parsed_components_scalar (env : Env) (hnfc : NfcScalar env.nfc) (t : Text) (u : URL)
    (h : URL.ofText env t = .ok u) (ht : ∀ x ∈ t, isScalar x = true) : Scalars env u :=
  parsed_scalars hnfc h ht

/- `%ED%A0%80` (the UTF-8 form of the surrogate U+D800) and `%F4%90%80%80` (beyond U+10FFFF) decode to
   replacement characters, not to the forbidden values -/
example : unquote [37, 69, 68, 37, 65, 48, 37, 56, 48] = [0xFFFD, 0xFFFD, 0xFFFD] ∧
    unquote [37, 70, 52, 37, 57, 48, 37, 56, 48, 37, 56, 48] = [0xFFFD, 0xFFFD, 0xFFFD, 0xFFFD] := by decide +kernel

/-- FULL STATEMENT (fixed-point clause, full quoting): for every well-formed URL / reference `t`,
    `render(parse(render(parse t))) = render(parse t)`.
    PROVED PART: for EVERY encodable text `t` - well-formed or not - that parses to a URL with a host (a registered
    name or IPv4 literal that the idna codec leaves alone, or an IPv6 literal; with or without scheme, userinfo,
    port - any natural number -, path, query, fragment).
    Not covered: IDN hosts, userinfo with an empty host, negative ports (which are not well-formed anyway). -/
theorem parsed_fixed_full_partial (env : Env) (hl : NfcLaws env.nfc) (hnfc : NfcScalar env.nfc) (t : Text) (u : URL)
    (ht : ∀ x ∈ t, isScalar x = true)
    (h : URL.ofText env t = .ok u) (hne : u.host ≠ []) (hhost : HostOK env true u)
    (hidna : isAsciiText u.host = true → env.idnaDec u.host = some u.host) (hport : PortNat u) :
    ∃ t₁ u₁, toText env true u = .ok t₁ ∧ URL.ofText env t₁ = .ok u₁ ∧ toText env true u₁ = .ok t₁ :=
  render_fixed_full_partial env hl u (parsed_WF hl h hne hhost hidna hport (parsed_scalars hnfc h ht))

/-- the same for every encodable text that parses to a URL or reference WITHOUT authority (no host, no userinfo):
    no further condition - in particular every well-formed `scheme:path?q#f`, `scheme:///path`, relative reference -/
theorem parsed_fixed_full_noauth_partial (env : Env) (hl : NfcLaws env.nfc) (hnfc : NfcScalar env.nfc) (t : Text) (u : URL)
    (ht : ∀ x ∈ t, isScalar x = true)
    (h : URL.ofText env t = .ok u) (hh : u.host = []) (hu : u.username = []) (hp : u.password = []) :
    ∃ t₁ u₁, toText env true u = .ok t₁ ∧ URL.ofText env t₁ = .ok u₁ ∧ toText env true u₁ = .ok t₁ :=
  have ⟨t₁, u₁, h1, h2, h3, _⟩ := render_fixed_full_noauth_partial env hl u
    (parsed_WFna hl h hh hu hp (parsed_scalars hnfc h ht))
  ⟨t₁, u₁, h1, h2, h3⟩

/-- minimal quoting, when no decoded path segment, query key / value or fragment contains `%` -/
theorem parsed_fixed_min_partial (env : Env) (hl : NfcLaws env.nfc) (hnfc : NfcScalar env.nfc) (t : Text) (u : URL)
    (ht : ∀ x ∈ t, isScalar x = true)
    (h : URL.ofText env t = .ok u) (hne : u.host ≠ []) (hhost : HostOK env false u)
    (hidna : isAsciiText u.host = true → env.idnaDec u.host = some u.host) (hport : PortNat u)
    (h1 : ∀ s ∈ u.pathParts, 37 ∉ s) (h2 : ∀ kv ∈ u.query, 37 ∉ kv.1 ∧ ∀ v, kv.2 = some v → 37 ∉ v)
    (h3 : 37 ∉ u.fragment) :
    ∃ t₁ u₁, toText env false u = .ok t₁ ∧ URL.ofText env t₁ = .ok u₁ ∧ toText env false u₁ = .ok t₁ :=
  have hs := parsed_scalars hnfc h ht
  render_fixed_min_partial env hl u (parsed_WFmin h hne hhost hidna hport hs.username hs.password h1 h2 h3)

theorem parsed_fixed_min_noauth_partial (env : Env) (t : Text) (u : URL)
    (h : URL.ofText env t = .ok u) (hh : u.host = []) (hu : u.username = []) (hp : u.password = [])
    (h1 : ∀ s ∈ u.pathParts, 37 ∉ s) (h2 : ∀ kv ∈ u.query, 37 ∉ kv.1 ∧ ∀ v, kv.2 = some v → 37 ∉ v)
    (h3 : 37 ∉ u.fragment) :
    ∃ t₁ u₁, toText env false u = .ok t₁ ∧ URL.ofText env t₁ = .ok u₁ ∧ toText env false u₁ = .ok t₁ :=
  have ⟨t₁, u₁, h1', h2', h3', _⟩ := render_fixed_min_noauth_partial env u (parsed_WFnaMin h hh hu hp h1 h2 h3)
  ⟨t₁, u₁, h1', h2', h3'⟩

example : NfcScalar env0.nfc := fun _ h => h

/-- the component clause for what the PARSER put into the components: for every encodable text that parses to a URL
    of the first family, the full rendering parses back to the same component texts (NFC-normalised), scheme, host
    and family, and the port unless it is one that is never written (`normal`) -/
theorem parsed_roundtrip_full (env : Env) (hl : NfcLaws env.nfc) (hnfc : NfcScalar env.nfc) (t : Text) (u : URL)
    (ht : ∀ x ∈ t, isScalar x = true)
    (h : URL.ofText env t = .ok u) (hne : u.host ≠ []) (hhost : HostOK env true u)
    (hidna : isAsciiText u.host = true → env.idnaDec u.host = some u.host) (hport : PortNat u) :
    ∃ t₁, toText env true u = .ok t₁ ∧ URL.ofText env t₁ = .ok (normal env u) :=
  roundtrip_full env u (parsed_WF hl h hne hhost hidna hport (parsed_scalars hnfc h ht)) hl.nil

/-- the same with the conditions on the host DERIVED from the parser: for every encodable text that parses to a URL
    whose host is ASCII, not an IPv6 literal and without `[` (a registered name or IPv4 literal), that the idna
    encoder leaves alone, with a natural-number port or none.  `IdnaAsciiId`: a law of the idna decoder (an ASCII
    result is the name that went in). -/
theorem parsed_fixed_full_name_partial (env : Env) (hl : NfcLaws env.nfc) (hnfc : NfcScalar env.nfc) (hid : IdnaAsciiId env)
    (t : Text) (u : URL) (ht : ∀ x ∈ t, isScalar x = true) (h : URL.ofText env t = .ok u)
    (hne : u.host ≠ []) (hasc : isAsciiText u.host = true) (h6 : u.family ≠ .inet6) (h91 : 91 ∉ u.host)
    (henc : env.idnaEnc u.host = some u.host) (hport : PortNat u) :
    ∃ t₁ u₁, toText env true u = .ok t₁ ∧ URL.ofText env t₁ = .ok u₁ ∧ toText env true u₁ = .ok t₁ :=
  have ⟨hc, hf, hd⟩ := parsed_host_name hid h hne hasc h6 h91
  parsed_fixed_full_partial env hl hnfc t u ht h hne (.name hc hf (fun _ => henc)) (fun _ => hd) hport

theorem parsed_fixed_min_name_partial (env : Env) (hl : NfcLaws env.nfc) (hnfc : NfcScalar env.nfc) (hid : IdnaAsciiId env)
    (t : Text) (u : URL) (ht : ∀ x ∈ t, isScalar x = true) (h : URL.ofText env t = .ok u)
    (hne : u.host ≠ []) (hasc : isAsciiText u.host = true) (h6 : u.family ≠ .inet6) (h91 : 91 ∉ u.host)
    (hport : PortNat u)
    (h1 : ∀ s ∈ u.pathParts, 37 ∉ s) (h2 : ∀ kv ∈ u.query, 37 ∉ kv.1 ∧ ∀ v, kv.2 = some v → 37 ∉ v)
    (h3 : 37 ∉ u.fragment) :
    ∃ t₁ u₁, toText env false u = .ok t₁ ∧ URL.ofText env t₁ = .ok u₁ ∧ toText env false u₁ = .ok t₁ :=
  have ⟨hc, hf, hd⟩ := parsed_host_name hid h hne hasc h6 h91
  parsed_fixed_min_partial env hl hnfc t u ht h hne (.name hc hf (fun hh => by cases hh)) (fun _ => hd) hport h1 h2 h3

example : IdnaAsciiId env0 := fun s h hs _ => by
  simp only [env0, Option.some.injEq] at hs
  exact hs.symm

/-- what the parser never returns: an empty list of path segments, an (empty key, no value) query parameter, a
    scheme with a character of `:/?#`; and with a host the path is absolute or empty -/
theorem parsed_shape (env : Env) (t : Text) (u : URL) (h : URL.ofText env t = .ok u) :
    u.pathParts ≠ [] ∧ (∀ kv ∈ u.query, ¬ (kv.1 = [] ∧ kv.2 = none)) ∧
    (∀ c ∈ u.scheme, notIn schemeStop c = true) ∧ (u.host ≠ [] → ∃ rest, u.pathParts = [] :: rest) := by
  refine ⟨?_, ?_, ?_, ofText_path_abs h⟩
  · obtain ⟨p, hp⟩ := (ofText_fields h).parts
    rw [hp]; simp only [ne_eq, List.map_eq_nil_iff]; exact List.splitOn_ne_nil 47 p
  · obtain ⟨q, hq⟩ := (ofText_fields h).query
    rw [hq]; exact parseQsl_ok q
  · rw [(ofText_fields h).scheme]; exact schemeOf_chars t

/- non-vacuity, evaluated: the text `HTTP://u:p@h:0080/a%2Fb/?k=%26&&e#` (not normalised: upper-case scheme, leading
   zeros and a default port, an escaped `/`, an empty parameter, an empty fragment) parses; its rendering differs
   from it and is a fixed point.  And the scheme-less `//h/p` (a network-path reference), which the old `WF` excluded. -/
def tMessy : Text := [72, 84, 84, 80, 58, 47, 47, 117, 58, 112, 64, 104, 58, 48, 48, 56, 48, 47, 97, 37, 50, 70, 98, 47, 63,
  107, 61, 37, 50, 54, 38, 38, 101, 35]

example : ((URL.ofText env0 tMessy).toOption.bind fun u => (toText env0 true u).toOption.bind fun t₁ =>
    (URL.ofText env0 t₁).toOption.bind fun u₁ => (toText env0 true u₁).toOption.map fun t₂ =>
      (t₁ == t₂, t₁ == tMessy, u.host, u.port)) = some (true, false, [104], some 80) := by decide +kernel

example : ((URL.ofText env0 [47, 47, 104, 47, 112]).toOption.bind fun u => (toText env0 true u).toOption.map fun t₁ =>
    (t₁, u.scheme, u.host)) = some ([47, 47, 104, 47, 112], [], [104]) := by decide +kernel

/-! ## totality -/

/-- `URL(text)` on any text either returns a URL or raises URLParseError (for every behaviour of
    the external functions, including an idna codec that refuses the host) -/
theorem url_total (env : Env) (t : Text) :
    (∃ u, URL.ofText env t = .ok u) ∨ URL.ofText env t = .error .urlParseError := by
  cases h : URL.ofText env t with
  | ok u => exact Or.inl ⟨u, rfl⟩
  | error e => rw [ofText_err h]; exact Or.inr rfl

/-- `to_text` never raises in minimal mode; in full mode the only exception is the `UnicodeError` of the idna
    encoder refusing a (non-IPv6) host -/
theorem to_text_total (env : Env) (full : Bool) (u : URL) :
    (∃ t, toText env full u = .ok t) ∨
    (toText env full u = .error .unicodeError ∧ full = true ∧ u.host ≠ [] ∧ u.family ≠ .inet6 ∧
      env.idnaEnc u.host = none) := by
  unfold toText authority
  by_cases hh : u.host = []
  · left; simp [hh]
  · by_cases h6 : u.family = .inet6
    · left; simp [hh, h6]
    · cases full with
      | false => left; simp [hh, h6]
      | true =>
        cases he : env.idnaEnc u.host with
        | some h => left; simp [hh, h6, he]
        | none => right; simp [hh, h6, he]

example : toText ⟨id, fun _ => false, fun _ => false, some, fun _ => none⟩ true u0 = .error .unicodeError := by
  decide +kernel

/-- the port text goes through the port reader of `parse_url` (the builtin `int()` in the code as it stands; its
    parameters - accepted digit runs, stripped white space, sign, underscores - are regenerated by probing
    `parse_url`): whatever the text is - digits of any script, superscript or circled digits (`str.isdigit` but not
    decimal), fractions, letters, white space of any kind - and whatever the parameters are, the outcome is a
    port, no port (empty text), or URLParseError; no other exception -/
theorem port_total (s : Text) :
    (∃ p, parsePort s = .ok p) ∨ parsePort s = .error .urlParseError := by
  cases h : parsePort s with
  | ok p => exact Or.inl ⟨p, rfl⟩
  | error e => rw [parsePort_err h]; exact Or.inr rfl

/- whatever the regenerated parameters of the port reader are: `80` is port 80, the empty text is no port;
   SUPERSCRIPT TWO, CIRCLED DIGIT ONE, VULGAR FRACTION ONE HALF, U+001C 1, MINUS SIGN 1, `0x10`: URLParseError -/
example : (parsePort [56, 48]).toOption = some (some 80) ∧ (parsePort []).toOption = some none := by decide +kernel
example : (parsePort [0xB2]).toOption = none ∧ (parsePort [0x2460]).toOption = none ∧
    (parsePort [0xBD]).toOption = none ∧ (parsePort [0x1C, 49]).toOption = none ∧
    (parsePort [0x2212, 49]).toOption = none ∧ (parsePort [48, 120, 49, 48]).toOption = none := by decide +kernel
/- with the parameters of the builtin `int()` (what the probing finds while parse_url calls it unguarded):
   ARABIC-INDIC THREE ONE = 31; NO-BREAK SPACE 8 IDEOGRAPHIC SPACE = 8; 1_0 = 10; -1 = -1 -/
example : portZeros.contains 0x660 = true → (parsePort [0x663, 0x661]).toOption = some (some 31) := by decide +kernel
example : portSpaces.contains 0xA0 = true → portSpaces.contains 0x3000 = true →
    (parsePort [0xA0, 56, 0x3000]).toOption = some (some 8) := by decide +kernel
example : portUnderscore = true → (parsePort [49, 95, 48]).toOption = some (some 10) := by decide +kernel
example : portMinus = true → (parsePort [45, 49]).toOption = some (some (-1)) := by decide +kernel
/- and with a reader that accepts nothing but ASCII digits (RFC 3986 `port = *DIGIT`) the same texts are rejected -/
example : portUnderscore = false → (parsePort [49, 95, 48]).toOption = none := by decide +kernel

/-- the loop of `find_all_links` never raises, whatever the regular expression matched -/
theorem find_all_links_total (env : Env) (o : LinkOpts) (ms : List (Text × Text)) (tail : Text) :
    ∃ r, findAllLinks env o ms tail = .ok r := findAllLinks_ok env o ms tail

/-! ## several URL objects alive at once: every derivation copies, edits stay local

The theorems above treat URL objects as independent values.  `Sharing.lean` models what the interpreter really
has - objects that REFER to mutable query dictionaries - and these theorems say why the value view is sound: every way
the code makes a URL object out of another one (`URL(url)`, `URL.from_parts(query_params=other.query_params)`,
`url.navigate(ref)`) puts the parameters into a dictionary of its own.  That is a fact about the current source: the
three flags are regenerated on every run by exercising it (make the derived object, edit either side, look at the
other). -/

/-- `URL(url)`, `URL.from_parts(query_params=<another URL's query_params>)` and `url.navigate(ref)` all copy the
    query parameters (flags regenerated from the source) -/
theorem derivation_edges_copy : ∀ e : Edge, e.copies = true := edges_all_copy

/-- after ANY history of constructions, derivations and in-place edits no two live URL objects refer to the same
    query dictionary -/
theorem objects_unshared (ops : List Op) : (Store.run ops).Unshared := run_unshared ops

/-- ... hence text placed in the query of one URL object never shows in another one: an in-place edit of object `i`
    leaves what every other object `j` reads (and renders) unchanged -/
theorem edit_stays_local (ops : List Op) (i j : Nat) (kv : Param) (hij : i ≠ j) :
    ((Store.run ops).qadd i kv).query j = (Store.run ops).query j :=
  Store.qadd_local _ i j kv (run_unshared ops) hij

/-- ... while the edited object itself reads the new pair at the end of its parameters -/
theorem edit_takes_effect (ops : List Op) (i q : Nat) (kv : Param) (hq : (Store.run ops).objs[i]? = some q) :
    ((Store.run ops).qadd i kv).query i = (Store.run ops).query i ++ [kv] :=
  Store.qadd_self _ i kv q hq

/-- the derived object starts with the parameters of the object it was made from, whichever way the edge works -/
theorem derived_takes_over (copies : Bool) (s : Store) (j : Nat) (hj : j < s.objs.length) :
    (s.derive copies j).query s.objs.length = s.query j := Store.derive_takes_over copies s j hj

/-- why the copy is needed: an edge that installed the SAME dictionary would let an edit of the derived object show
    in the base (this is what the flags exclude) -/
theorem shared_dictionary_leaks (kv : Param) :
    ((((Store.empty.fresh []).derive false 0).qadd 1 kv).query 0) = [kv] := Store.shared_leaks kv

/- base `?k=v`; a URL navigated from it, one made by from_parts from its query_params, one copied with URL(url); each
   derived object gets a parameter of its own: the base still reads `k=v`, every object reads what was put into it -/
example :
    let s := Store.run [.fresh [([107], some [118])], .derive .navigate 0, .derive .fromParts 0, .derive .urlCopy 1,
                        .qadd 1 ([110], none), .qadd 2 ([112], some []), .qadd 3 ([99], some [49])]
    s.query 0 = [([107], some [118])] ∧ s.query 1 = [([107], some [118]), ([110], none)] ∧
    s.query 2 = [([107], some [118]), ([112], some [])] ∧ s.query 3 = [([107], some [118]), ([99], some [49])] := by
  decide +kernel

end C06
