import BoltonsVerif.C06.Proofs
/-
C06 — property theorems for the URL quoting / parsing / rendering model.

`env : Env` bundles the external functions (Unicode NFC, inet_pton for both families, the idna
codec both ways); every theorem holds for ALL of them unless a hypothesis says otherwise.
Texts are lists of code points; `isScalar` = "is a Unicode scalar value" (Python can encode it).
-/
namespace C06
open C06.Gen

/-! ## quoting: legality and inverse -/

/-- `unquote(quote_X_part(s, full_quote=True)) == NFC(s)` for the four quote functions, every
    text `s` and every normaliser -/
theorem unquote_quote (c : Comp) (nfc : Text → Text) (s : Text)
    (hs : ∀ x ∈ nfc s, isScalar x = true) :
    unquote (quotePart c nfc true s) = nfc s := by
  simpa [quotePart] using unquote_quoteFull c nfc s hs

example : unquote (quotePart .query id true [97, 59, 38, 61, 43, 37, 32, 233, 0x1F600]) =
    [97, 59, 38, 61, 43, 37, 32, 233, 0x1F600] := by decide +kernel

/-- the fully quoted text is `*( raw-legal / "%" HEXDIG HEXDIG )` for its position (RFC 3986) -/
theorem quote_legal (c : Comp) (nfc : Text → Text) (s : Text)
    (hs : ∀ x ∈ nfc s, isScalar x = true) :
    wellQuoted c (quotePart c nfc true s) = true := by
  simpa [quotePart] using wellQuoted_quoteFull c nfc s hs

/-- … it is pure ASCII … -/
theorem quote_ascii (c : Comp) (nfc : Text → Text) (s : Text)
    (hs : ∀ x ∈ nfc s, isScalar x = true) :
    ∀ ch ∈ quotePart c nfc true s, ch < 128 := by
  simpa [quotePart, quoteFull] using quoteBytes_ascii c _ (utf8_lt (nfc s) hs)

/-- … and contains no character that the parser treats as a delimiter at that position
    (nothing can leak into a neighbouring component) -/
theorem quote_no_delimiter (c : Comp) (nfc : Text → Text) (s : Text)
    (hs : ∀ x ∈ nfc s, isScalar x = true) :
    ∀ ch ∈ quotePart c nfc true s, ch ∉ stopSet c := by
  intro ch hch
  have := quoteBytes_stop c _ (utf8_lt (nfc s) hs) ch (by simpa [quotePart, quoteFull] using hch)
  simpa using this

example : quotePart .query id true [97, 59, 98] = [97, 37, 51, 66, 98] := by decide +kernel
example : (stopSet .query).contains 59 = true := by decide

/-! ## unquote decodes exactly the well-formed escapes -/

/-- `unquote_to_bytes` is the reference decoder: `%` + two hex digits (either case) is the byte
    they denote, everything else (a stray `%` included) stays -/
theorem unquote_to_bytes_wellformed (s : Text) : unqBytes s = unqSpec s := unqBytes_eq_spec s

/-- on ASCII text `unquote` is: percent-decode, then read as UTF-8 (invalid sequences replaced) -/
theorem unquote_wellformed (s : Text) (hs : ∀ c ∈ s, c < 128) : unquote s = decodeR (unqSpec s) := by
  rw [unquote_ascii s hs, unqBytes_eq_spec]

/-- text without `%` is left alone -/
theorem unquote_identity (s : Text) (hp : 37 ∉ s) : unquote s = s := unquote_no_pct s hp

example : unquote [37, 67, 51, 37, 65, 57, 37, 122, 122, 37, 52, 233, 37] = [233, 37, 122, 122, 37, 52, 233, 37] := by
  decide +kernel

/-! ## render -> parse round trip of a whole URL -/

/-- Any texts placed in username, password, path segments, query keys / values and fragment of a
    URL with a valid scheme, host and port (`WF`) are recovered exactly, up to NFC, after
    `to_text(full_quote=True)` and re-parsing; scheme, host, family and port come back unchanged
    (`normal` changes nothing else): nothing leaks into a neighbouring component.
    Holds for every normaliser with `nfc "" = ""`, every inet_pton, every idna codec that maps
    this host to itself. -/
theorem roundtrip_full (env : Env) (u : URL) (hW : WF env u) (hnil : env.nfc [] = []) :
    ∃ t, toText env true u = .ok t ∧ URL.ofText env t = .ok (normal env u) :=
  ⟨fullText env u, toText_full env u hW hnil, ofText_fullText env u hW hnil⟩

/-- the same, component by component -/
theorem no_leak (env : Env) (u : URL) (hW : WF env u) (hnil : env.nfc [] = []) :
    ∃ t v, toText env true u = .ok t ∧ URL.ofText env t = .ok v ∧
      v.scheme = u.scheme ∧ v.host = u.host ∧ v.port = u.port ∧ v.family = u.family ∧
      v.username = env.nfc u.username ∧ v.password = env.nfc u.password ∧
      v.pathParts = u.pathParts.map env.nfc ∧
      v.query = u.query.map (fun kv => (env.nfc kv.1, kv.2.map env.nfc)) ∧
      v.fragment = env.nfc u.fragment :=
  ⟨fullText env u, normal env u, toText_full env u hW hnil, ofText_fullText env u hW hnil,
   rfl, rfl, rfl, rfl, rfl, rfl, rfl, rfl, rfl⟩

/-- the fully quoted rendering of such a URL consists of the scheme, `://`, and characters none of
    which is a delimiter for the component it stands in (the `Scanned` facts: the parser cuts the
    text exactly at the component boundaries) -/
theorem render_boundaries (env : Env) (u : URL) (hW : WF env u) (hnil : env.nfc [] = []) :
    Scanned (fullText env u) u.scheme (uiText env u ++ (u.host ++ portText u))
      (pathText env true u.pathParts) (queryText env true u.query)
      (quotePart .fragment env.nfc true u.fragment) := fullText_scanned env u hW hnil

/-- FULL STATEMENT (not proved): for every text `t` that is a well-formed RFC 3986 URI or relative
    reference, `URL.ofText env t = .ok u → toText env true u = .ok t₁ → URL.ofText env t₁ = .ok u₁ →
    toText env true u₁ = .ok t₁`.
    PROVED PART: the fixed point for every URL that satisfies `WF` (absolute URL with scheme, non-empty
    non-IPv6 host, absolute path), in particular for every parsed URL of that shape; relative
    references, scheme-only / host-less URLs and IPv6 literals are covered by the correspondence and
    the oracle only. -/
theorem render_fixed_full_partial (env : Env) (hl : NfcLaws env.nfc) (u : URL) (hW : WF env u) :
    ∃ t u₁, toText env true u = .ok t ∧ URL.ofText env t = .ok u₁ ∧ toText env true u₁ = .ok t := by
  refine ⟨fullText env u, normal env u, toText_full env u hW hl.nil, ofText_fullText env u hW hl.nil, ?_⟩
  rw [toText_full env (normal env u) (normal_WF env hl u hW) hl.nil, normal_fullText env hl u]

/-- … and from then on parsing and rendering change nothing any more -/
theorem parse_render_idempotent_partial (env : Env) (hl : NfcLaws env.nfc) (u : URL) (hW : WF env u) :
    URL.ofText env (fullText env u) = .ok (normal env u) ∧
    URL.ofText env (fullText env (normal env u)) = .ok (normal env u) := by
  refine ⟨ofText_fullText env u hW hl.nil, ?_⟩
  rw [normal_fullText env hl u]
  exact ofText_fullText env u hW hl.nil

/-! non-vacuity: a concrete environment and URL satisfying `WF`, with hostile component texts -/

/-- identity normaliser, no IP hosts, identity idna -/
def env0 : Env := ⟨id, fun _ => false, fun _ => false, some, some⟩

/-- the URL that renders as `http://a;b:p%40w@h:8042/x%2Fy/%3F?k%26=v%3D%3B&e=#f%23%0A` -/
def u0 : URL :=
  { scheme := [104, 116, 116, 112], netlocSep := false, username := [97, 59, 98], password := [112, 64, 119],
    family := .none, host := [104], port := some 8042,
    pathParts := [[], [120, 47, 121], [63]], query := [([107, 38], some [118, 61, 59]), ([101], some [])],
    fragment := [102, 35, 10] }

theorem wf_u0 : WF env0 u0 where
  scheme_ne := by decide
  scheme_ok := by decide
  host_ne := by decide
  host_ok := by decide
  family_ok := by decide
  idna_enc := rfl
  idna_dec := rfl
  port_ok := Or.inr ⟨8042, rfl, by decide, by decide⟩
  path_abs := ⟨_, rfl⟩
  query_ok := by decide
  scalars := ⟨by decide, by decide, by decide, by decide, by
    intro kv hkv
    simp only [u0, List.mem_cons, List.mem_nil_iff, or_false] at hkv
    rcases hkv with rfl | rfl
    · exact ⟨by decide, by intro v hv; cases hv; decide⟩
    · exact ⟨by decide, by intro v hv; cases hv; decide⟩⟩

example : NfcLaws env0.nfc := ⟨rfl, fun _ => rfl, fun _ h => h⟩

example : (toText env0 true u0).toOption = some
    [104, 116, 116, 112, 58, 47, 47, 97, 59, 98, 58, 112, 37, 52, 48, 119, 64, 104, 58, 56, 48, 52, 50,
     47, 120, 37, 50, 70, 121, 47, 37, 51, 70, 63, 107, 37, 50, 54, 61, 118, 37, 51, 68, 37, 51, 66, 38, 101, 61,
     35, 102, 37, 50, 51, 37, 48, 65] := by decide +kernel

/-! ## totality -/

/-- `URL(text)` on any text either returns a URL or raises URLParseError (for every behaviour of
    the external functions, including an idna codec that refuses the host) -/
theorem url_total (env : Env) (t : Text) :
    (∃ u, URL.ofText env t = .ok u) ∨ URL.ofText env t = .error .urlParseError := by
  cases h : URL.ofText env t with
  | ok u => exact Or.inl ⟨u, rfl⟩
  | error e => rw [ofText_err h]; exact Or.inr rfl

/-- the loop of `find_all_links` never raises, whatever the regular expression matched -/
theorem find_all_links_total (env : Env) (o : LinkOpts) (ms : List (Text × Text)) (tail : Text) :
    ∃ r, findAllLinks env o ms tail = .ok r := findAllLinks_ok env o ms tail

end C06
