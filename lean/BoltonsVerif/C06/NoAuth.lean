import BoltonsVerif.C06.Colon
/-
C06 — URLs and references WITHOUT an authority: `scheme:path?query#fragment` (mailto:, urn:, …),
`scheme:///path` (a scheme that uses a netloc, with an empty one: `file:///etc/passwd`), and relative
references (`/a/b?q#f`, `a/b`, `?q`, `#f`, the empty reference, `//`-less or with an empty authority).

Rendering them goes through the other half of `to_text`: the `//` that is written although there is no
authority, the first-segment colon escape of a relative path.  Parsing goes through the optional groups
of `_URL_RE` that do NOT match.  The result: render -> parse -> render is the identity on the text, in both
quoting modes.
-/
namespace C06
open C06.Gen

/-- `//` or nothing -/
def slpart (sl : Bool) : Text := if sl then [47, 47] else []

/-! ### the scanner on a text without authority -/

theorem noScheme {t : Text} (h : (t.dropWhile (notIn schemeStop)).head? ≠ some 58) :
    schemeOf t = none ∧ afterScheme t = t := by
  unfold schemeOf afterScheme
  cases hd : t.dropWhile (notIn schemeStop) with
  | nil => exact ⟨rfl, rfl⟩
  | cons x xs =>
    rw [hd] at h
    have hx : x ≠ 58 := by intro e; subst e; exact h rfl
    constructor
    · split
      · rename_i heq; cases heq; exact absurd rfl hx
      · rfl
    · split
      · rename_i heq; cases heq; exact absurd rfl hx
      · rfl

theorem noAuth {r : Text} (h : r.take 2 ≠ [47, 47]) : authorityOf r = none ∧ afterAuthority r = r := by
  unfold authorityOf afterAuthority
  constructor
  · split
    · exact absurd rfl h
    · rfl
  · split
    · exact absurd rfl h
    · rfl

theorem mem_takeWhile_true {p : Nat → Bool} {x : Nat} {l : List Nat} (h : x ∈ l.takeWhile p) : p x = true := by
  induction l with
  | nil => simp at h
  | cons a l ih =>
    by_cases ha : p a = true
    · simp only [List.takeWhile, ha, List.mem_cons] at h
      rcases h with rfl | h
      · exact ha
      · exact ih h
    · simp [List.takeWhile, ha] at h

theorem dropWhile_head_false {p : Nat → Bool} {x : Nat} {xs l : List Nat} (h : l.dropWhile p = x :: xs) : p x = false := by
  induction l with
  | nil => simp at h
  | cons a l ih =>
    by_cases ha : p a = true
    · simp only [List.dropWhile, ha] at h; exact ih h
    · simp only [List.dropWhile, ha] at h
      cases h
      simpa using ha

/-- head of the "tail" of a URL text (`?query` / `#fragment` / nothing) -/
theorem tail_head (qs frag : Text) :
    (qpart qs ++ fpart frag).head? = none ∨ (qpart qs ++ fpart frag).head? = some 63 ∨
    (qpart qs ++ fpart frag).head? = some 35 := by
  unfold qpart fpart
  by_cases hq : qs = [] <;> by_cases hf : frag = [] <;> simp [hq, hf]

/-- in a path whose first segment has no raw `:` the scheme scan runs into `/`, `?`, `#` or the end -/
theorem path_no_scheme (path qs frag : Text) (hp : ∀ c ∈ path, notIn pathStop c = true)
    (h58 : 58 ∉ before 47 path) :
    ((path ++ (qpart qs ++ fpart frag)).dropWhile (notIn schemeStop)).head? ≠ some 58 := by
  obtain ⟨s47, s63, s35, sall⟩ := stops_ok2
  obtain ⟨_, _, _, _, p63, p35, _, _, _, _⟩ := stops_ok
  have hsplit : path = before 47 path ++ path.dropWhile (neq 47) := by
    unfold before; exact (List.takeWhile_append_dropWhile).symm
  have hA : ∀ c ∈ before 47 path, notIn schemeStop c = true := by
    intro c hc
    have hcp : c ∈ path := by
      unfold before at hc; exact (List.takeWhile_sublist _).subset hc
    have h47 : c ≠ 47 := by
      unfold before at hc
      have := mem_takeWhile_true hc
      simpa [neq] using this
    have hc58 : c ≠ 58 := fun e => h58 (e ▸ hc)
    have hps := hp c hcp
    have h63 : c ≠ 63 := by intro e; subst e; rw [p63] at hps; cases hps
    have h35 : c ≠ 35 := by intro e; subst e; rw [p35] at hps; cases hps
    simp only [notIn, Bool.not_eq_true', List.contains_eq_mem, decide_eq_false_iff_not]
    intro hm
    rw [List.all_eq_true] at sall
    have := sall c hm
    simp only [Bool.or_eq_true, beq_iff_eq] at this
    rcases this with ((h | h) | h) | h
    · exact hc58 h
    · exact h47 h
    · exact h63 h
    · exact h35 h
  rw [hsplit, List.append_assoc]
  cases hB : path.dropWhile (neq 47) with
  | nil =>
    simp only [List.nil_append]
    have hst : StopHead (notIn schemeStop) (qpart qs ++ fpart frag) := stopHead_tail2 s63 s35 qs frag
    rw [dropWhile_append_stop hA hst]
    rcases tail_head qs frag with h | h | h <;> rw [h] <;> simp
  | cons x xs =>
    have hx : x = 47 := by
      have := dropWhile_head_false hB
      simpa [neq] using this
    subst hx
    rw [List.cons_append, dropWhile_append_stop hA (stopHead_cons _ s47)]
    simp

/-- the text of a URL without authority, as the scanner sees it -/
structure ScannedN (t scheme : Text) (sl : Bool) (path qs frag : Text) : Prop where
  scheme : (schemeOf t).getD [] = scheme
  auth : authorityOf (afterScheme t) = if sl then some [] else none
  path : pathOf (afterAuthority (afterScheme t)) = path
  query : (queryOf (afterPath (afterAuthority (afterScheme t)))).getD [] = qs
  frag : (fragmentOf (afterQuery (afterPath (afterAuthority (afterScheme t))))).getD [] = frag

/-- path, query and fragment of `path?query#fragment` -/
theorem scan_rest (path qs frag : Text)
    (hp : ∀ c ∈ path, notIn pathStop c = true)
    (hq : ∀ c ∈ qs, notIn queryStop c = true)
    (hf : ∀ c ∈ frag, notIn fragStop c = true) :
    pathOf (path ++ (qpart qs ++ fpart frag)) = path ∧
    (queryOf (afterPath (path ++ (qpart qs ++ fpart frag)))).getD [] = qs ∧
    (fragmentOf (afterQuery (afterPath (path ++ (qpart qs ++ fpart frag))))).getD [] = frag := by
  obtain ⟨_, _, _, _, p63, p35, _, q35, _, _⟩ := stops_ok
  have t2 := stopHead_tail2 p63 p35 qs frag
  have hP : pathOf (path ++ (qpart qs ++ fpart frag)) = path := by
    unfold pathOf; exact takeWhile_append_stop hp t2
  have hPa : afterPath (path ++ (qpart qs ++ fpart frag)) = qpart qs ++ fpart frag := by
    unfold afterPath; exact dropWhile_append_stop hp t2
  have t3 : StopHead (notIn queryStop) (fpart frag) := by
    unfold fpart; split
    · exact stopHead_cons _ q35
    · exact stopHead_nil _
  have hfr : (fragmentOf (fpart frag)).getD [] = frag := by
    unfold fpart
    split
    · simp only [fragmentOf]
      have := takeWhile_append_stop (p := notIn fragStop) (a := frag) hf (stopHead_nil _)
      simp at this; simp [this]
    · rename_i h; simp at h; simp [fragmentOf, h]
  refine ⟨hP, ?_⟩
  rw [hPa]
  by_cases hqe : qs = []
  · subst hqe
    have hq0 : qpart [] = [] := by simp [qpart]
    rw [hq0]; simp only [List.nil_append]
    have : queryOf (fpart frag) = none ∧ afterQuery (fpart frag) = fpart frag := by
      unfold fpart; split <;> simp [queryOf, afterQuery]
    rw [this.1, this.2]; exact ⟨rfl, hfr⟩
  · have hq1 : qpart qs = 63 :: qs := by simp [qpart, hqe]
    rw [hq1]
    simp only [List.cons_append, queryOf, afterQuery]
    rw [takeWhile_append_stop hq t3, dropWhile_append_stop hq t3]
    exact ⟨rfl, hfr⟩

theorem scan_noauth (scheme path qs frag : Text) (sl : Bool)
    (hs : ∀ c ∈ scheme, notIn schemeStop c = true)
    (hp : ∀ c ∈ path, notIn pathStop c = true)
    (hq : ∀ c ∈ qs, notIn queryStop c = true)
    (hf : ∀ c ∈ frag, notIn fragStop c = true)
    (hrel : scheme = [] → sl = false → 58 ∉ before 47 path)
    (hsl1 : sl = true → path = [] ∨ path.head? = some 47)
    (hsl0 : sl = false → path.take 2 ≠ [47, 47]) :
    ScannedN (spart scheme ++ (slpart sl ++ (path ++ (qpart qs ++ fpart frag)))) scheme sl path qs frag := by
  obtain ⟨s58, a47, a63, a35, p63, p35, p47, q35, q38, q61⟩ := stops_ok
  obtain ⟨s47, s63, s35, sall⟩ := stops_ok2
  -- the scheme
  have hS : (schemeOf (spart scheme ++ (slpart sl ++ (path ++ (qpart qs ++ fpart frag))))).getD [] = scheme ∧
      afterScheme (spart scheme ++ (slpart sl ++ (path ++ (qpart qs ++ fpart frag))))
        = slpart sl ++ (path ++ (qpart qs ++ fpart frag)) := by
    by_cases hne : scheme = []
    · subst hne
      have hsp : spart [] = [] := by simp [spart]
      rw [hsp, List.nil_append]
      have hh : ((slpart sl ++ (path ++ (qpart qs ++ fpart frag))).dropWhile (notIn schemeStop)).head? ≠ some 58 := by
        cases sl with
        | true => simp [slpart, List.dropWhile, s47]
        | false =>
          simp only [slpart, Bool.false_eq_true, if_false, List.nil_append]
          exact path_no_scheme path qs frag hp (hrel rfl rfl)
      have := noScheme hh
      rw [this.1, this.2]; exact ⟨rfl, rfl⟩
    · have hsp : spart scheme = scheme ++ [58] := by simp [spart, hne]
      rw [hsp]
      have e0 : scheme ++ [58] ++ (slpart sl ++ (path ++ (qpart qs ++ fpart frag)))
          = scheme ++ 58 :: (slpart sl ++ (path ++ (qpart qs ++ fpart frag))) := by simp
      rw [e0]
      have e1 : (scheme ++ 58 :: (slpart sl ++ (path ++ (qpart qs ++ fpart frag)))).takeWhile (notIn schemeStop) = scheme :=
        takeWhile_append_stop hs (stopHead_cons _ s58)
      have e2 : (scheme ++ 58 :: (slpart sl ++ (path ++ (qpart qs ++ fpart frag)))).dropWhile (notIn schemeStop)
          = 58 :: (slpart sl ++ (path ++ (qpart qs ++ fpart frag))) :=
        dropWhile_append_stop hs (stopHead_cons _ s58)
      constructor
      · unfold schemeOf; rw [e2]; simp only [e1]; simp [hne]
      · unfold afterScheme; rw [e2]; simp only [e1]; simp [hne]
  -- the authority
  have hA : authorityOf (slpart sl ++ (path ++ (qpart qs ++ fpart frag))) = (if sl then some [] else none) ∧
      afterAuthority (slpart sl ++ (path ++ (qpart qs ++ fpart frag))) = path ++ (qpart qs ++ fpart frag) := by
    cases sl with
    | true =>
      have t1 := stopHead_tail1 a47 a63 a35 path qs frag (hsl1 rfl)
      have e1 := takeWhile_append_stop (p := notIn authStop) (a := []) (tail := path ++ (qpart qs ++ fpart frag))
        (by simp) t1
      have e2 := dropWhile_append_stop (p := notIn authStop) (a := []) (tail := path ++ (qpart qs ++ fpart frag))
        (by simp) t1
      simp only [List.nil_append] at e1 e2
      simp only [slpart, if_true, List.cons_append, List.nil_append, authorityOf, afterAuthority, e1, e2]
      simp
    | false =>
      simp only [slpart, Bool.false_eq_true, if_false, List.nil_append]
      have hne : (path ++ (qpart qs ++ fpart frag)).take 2 ≠ [47, 47] := by
        have h0 := hsl0 rfl
        cases path with
        | nil =>
          simp only [List.nil_append]
          intro h
          have hh : (qpart qs ++ fpart frag).head? = some 47 := by
            cases hl : qpart qs ++ fpart frag with
            | nil => rw [hl] at h; simp at h
            | cons a r => rw [hl] at h; simp at h; simp [h.1]
          rcases tail_head qs frag with h' | h' | h' <;> rw [h'] at hh <;> simp at hh
        | cons a r =>
          cases r with
          | nil =>
            simp only [List.cons_append, List.nil_append]
            intro h
            have hh : (qpart qs ++ fpart frag).head? = some 47 := by
              cases hl : qpart qs ++ fpart frag with
              | nil => rw [hl] at h; simp at h
              | cons b r' => rw [hl] at h; simp at h; simp [h.2]
            rcases tail_head qs frag with h' | h' | h' <;> rw [h'] at hh <;> simp at hh
          | cons b r' =>
            intro h
            apply h0
            simpa using h
      exact noAuth hne
  have hR := scan_rest path qs frag hp hq hf
  exact ⟨hS.1, by rw [hS.2]; exact hA.1, by rw [hS.2, hA.2]; exact hR.1, by rw [hS.2, hA.2]; exact hR.2.1,
         by rw [hS.2, hA.2]; exact hR.2.2⟩

/-! ### rendering and parsing a URL without authority -/

/-- `uses_netloc` depends on the scheme and on whether the URL was parsed with `//` -/
def usesNetlocS (scheme : Text) (ns : Bool) : Bool :=
  if (lookupPort scheme).isSome then true
  else if noNetlocSchemes.contains scheme then false
  else if (lookupPort (lastPiece scheme)).isSome then true
  else ns

theorem usesNetloc_eq (u : URL) : usesNetloc u = usesNetlocS u.scheme u.netlocSep := rfl

theorem usesNetlocS_cases (s : Text) :
    (∀ b, usesNetlocS s b = true) ∨ (∀ b, usesNetlocS s b = false) ∨ (∀ b, usesNetlocS s b = b) := by
  unfold usesNetlocS
  by_cases h1 : (lookupPort s).isSome = true
  · left; intro b; rw [if_pos h1]
  · by_cases h2 : noNetlocSchemes.contains s = true
    · right; left; intro b; rw [if_neg h1, if_pos h2]
    · by_cases h3 : (lookupPort (lastPiece s)).isSome = true
      · left; intro b; rw [if_neg h1, if_neg h2, if_pos h3]
      · right; right; intro b; rw [if_neg h1, if_neg h2, if_neg h3]

/-- `to_text` writes `//` although the authority is empty: the path starts with `//`, or the scheme uses a
    netloc and the path is empty or absolute -/
def slashesS (scheme : Text) (ns : Bool) (P : Text) : Bool :=
  decide (P.take 2 = [47, 47] ∨ (scheme ≠ [] ∧ (P = [] ∨ P.head? = some 47) ∧ usesNetlocS scheme ns = true))

/-- … and a URL parsed from such a text (which remembers the `//`) writes it again; one parsed from a
    text without does not -/
theorem slashesS_idem (scheme : Text) (ns : Bool) (P : Text) :
    slashesS scheme (slashesS scheme ns P) P = slashesS scheme ns P := by
  rcases usesNetlocS_cases scheme with h | h | h
  · simp [slashesS, h]
  · simp [slashesS, h]
  · unfold slashesS
    simp only [h, decide_eq_true_eq]
    apply decide_eq_decide.mpr
    constructor
    · rintro (hx | ⟨h1, h2, hx | ⟨_, _, h5⟩⟩)
      · exact Or.inl hx
      · exact Or.inl hx
      · exact Or.inr ⟨h1, h2, h5⟩
    · rintro (hx | ⟨h1, h2, h3⟩)
      · exact Or.inl hx
      · exact Or.inr ⟨h1, h2, Or.inr ⟨h1, h2, h3⟩⟩

theorem slashesS_true {scheme : Text} {ns : Bool} {P : Text} (h : slashesS scheme ns P = true) :
    P = [] ∨ P.head? = some 47 := by
  simp only [slashesS, decide_eq_true_eq] at h
  rcases h with h | ⟨_, h, _⟩
  · right
    cases P with
    | nil => simp at h
    | cons a r => cases r <;> simp at h <;> simp [h.1]
  · exact h

theorem slashesS_false {scheme : Text} {ns : Bool} {P : Text} (h : slashesS scheme ns P = false) :
    P.take 2 ≠ [47, 47] := by
  simp only [slashesS, decide_eq_false_iff_not, not_or] at h
  exact h.1

theorem escColonFirst_eq (p : Text) : escColonFirst p = escColon (before 47 p) ++ p.dropWhile (neq 47) := rfl

theorem dropWhile_none {c : Nat} {a : Text} (ha : ∀ x ∈ a, x ≠ c) : a.dropWhile (neq c) = [] := by
  have := dropWhile_append_stop (p := neq c) (a := a) (fun x hx => by simp [neq, ha x hx]) (stopHead_nil _)
  simpa using this

/-- the colon escape touches the first segment only -/
theorem escColonFirst_intercalate (q₁ : Text) (qs : List Text) (h : ∀ x ∈ q₁, x ≠ 47) :
    escColonFirst ([47].intercalate (q₁ :: qs)) = [47].intercalate (escColon q₁ :: qs) := by
  cases qs with
  | nil =>
    rw [List.intercalate_singleton, List.intercalate_singleton, escColonFirst_eq, before_none h, dropWhile_none h]
    simp
  | cons b r =>
    rw [List.intercalate_cons_cons, List.intercalate_cons_cons, escColonFirst_eq]
    have e : q₁ ++ [47] ++ [47].intercalate (b :: r) = q₁ ++ 47 :: [47].intercalate (b :: r) := by simp
    rw [e, before_append h]
    have hd : (q₁ ++ 47 :: [47].intercalate (b :: r)).dropWhile (neq 47) = 47 :: [47].intercalate (b :: r) :=
      dropWhile_append_stop (fun x hx => by simp [neq, h x hx]) (stopHead_cons _ (by simp [neq]))
    rw [hd]
    simp

theorem path_stop_pct3A : (stopSet .path).contains 37 = false ∧ (stopSet .path).contains 51 = false ∧
    (stopSet .path).contains 65 = false := by decide

/-- the colon escape of a faithfully quoted segment is a faithful quoting of the same text, without raw `:` -/
theorem Quoted.escColon {q d : Text} (h : Quoted .path q d) : Quoted .path (escColon q) d where
  stop := by
    intro ch hch
    rcases escColon_mem hch with h' | h' | h' | h'
    · exact h.stop ch h'
    · subst h'; exact path_stop_pct3A.1
    · subst h'; exact path_stop_pct3A.2.1
    · subst h'; exact path_stop_pct3A.2.2
  unq := by rw [unquote_escColon]; exact h.unq

/-- path segments as (quoted text, what it decodes to) pairs: split and decode -/
theorem segs_parts (l : List (Text × Text)) (hne : l ≠ []) (hq : ∀ p ∈ l, Quoted .path p.1 p.2) :
    (([47].intercalate (l.map (·.1))).splitOn 47).map maybeUnquote = l.map (·.2) := by
  rw [List.splitOn_intercalate]
  · rw [List.map_map]
    apply List.map_congr_left
    intro p hp
    exact (hq p hp).munq
  · intro x hx
    rw [List.mem_map] at hx
    obtain ⟨p, hp, rfl⟩ := hx
    intro h47
    exact (stop_path ((hq p hp).stop 47 h47)).2 rfl
  · simpa using hne

theorem segs_chars (l : List (Text × Text)) (hq : ∀ p ∈ l, Quoted .path p.1 p.2) :
    ∀ ch ∈ [47].intercalate (l.map (·.1)), notIn pathStop ch = true := by
  intro ch hch
  rcases mem_intercalate hch with h | ⟨x, hx, hm⟩
  · subst h; exact stops_ok.2.2.2.2.2.2.1
  · rw [List.mem_map] at hx
    obtain ⟨p, hp, rfl⟩ := hx
    exact (stop_path ((hq p hp).stop ch hm)).1

theorem authority_nil (env : Env) (full : Bool) (u : URL) (hh : u.host = []) (hu : u.username = [])
    (hp : u.password = []) : authority env full u = .ok [] := by
  unfold authority
  simp [hh, hu, hp]

theorem parseAuthority_nil (env : Env) : parseAuthority env [] = .ok ⟨[], [], .none, [], none⟩ := by
  simp [parseAuthority, rafter, rbefore, parseHost]

theorem maybeUnquote_nil : maybeUnquote [] = [] := by simp [maybeUnquote]

section noauth
variable (env : Env) (full : Bool) (D : Text → Text)

/-- no authority (no host, no userinfo); a scheme or none; any path, query, fragment, every component
    faithfully quoted in the mode at hand -/
structure WFnq (u : URL) : Prop where
  scheme_ok : ∀ c ∈ u.scheme, notIn schemeStop c = true
  host_nil : u.host = []
  user_nil : u.username = []
  pw_nil : u.password = []
  parts_ne : u.pathParts ≠ []
  query_ok : ∀ kv ∈ u.query, ¬ (D kv.1 = [] ∧ kv.2 = none)
  q_parts : ∀ s ∈ u.pathParts, Quoted .path (quotePart .path env.nfc full s) (D s)
  q_query : ∀ kv ∈ u.query, PairQ env full D kv
  q_frag : Quoted .fragment (quotePart .fragment env.nfc full u.fragment) (D u.fragment)

/-- the path as `to_text` writes it when there is no authority: in a relative reference (no scheme) every `:`
    of the first segment is escaped, so that it cannot be read as the end of a scheme -/
def pathR (u : URL) : Text :=
  if u.scheme = [] then escColonFirst (pathText env full u.pathParts) else pathText env full u.pathParts

/-- `pathR` is the `/`-join of faithfully quoted segments that decode to the segments of the URL, and in a relative
    reference its first segment has no raw `:` -/
theorem pathR_segs (u : URL) (hne : u.pathParts ≠ [])
    (hq : ∀ s ∈ u.pathParts, Quoted .path (quotePart .path env.nfc full s) (D s)) :
    ∃ l : List (Text × Text), l ≠ [] ∧ (∀ p ∈ l, Quoted .path p.1 p.2) ∧ l.map (·.2) = u.pathParts.map D ∧
      pathR env full u = [47].intercalate (l.map (·.1)) ∧
      (u.scheme = [] → 58 ∉ before 47 (pathR env full u)) := by
  by_cases hs : u.scheme = []
  · cases hp : u.pathParts with
    | nil => exact absurd hp hne
    | cons s₁ rest =>
      rw [hp] at hq
      have hq1 := hq s₁ (by simp)
      have h47 : ∀ x ∈ quotePart .path env.nfc full s₁, x ≠ 47 := fun x hx => (stop_path (hq1.stop x hx)).2
      have hE : pathR env full u = [47].intercalate (escColon (quotePart .path env.nfc full s₁) ::
          rest.map (quotePart .path env.nfc full)) := by
        simp only [pathR, hs, if_true, pathText, hp, List.map_cons]
        exact escColonFirst_intercalate _ _ h47
      refine ⟨(escColon (quotePart .path env.nfc full s₁), D s₁) ::
          rest.map (fun s => (quotePart .path env.nfc full s, D s)), by simp, ?_, by simp, ?_, ?_⟩
      · intro p hp'
        simp only [List.mem_cons, List.mem_map] at hp'
        rcases hp' with rfl | ⟨s, hs', rfl⟩
        · exact hq1.escColon
        · exact hq s (by simp [hs'])
      · rw [hE]; simp [List.map_map, Function.comp_def]
      · intro _
        rw [hE]
        have h47' : ∀ x ∈ escColon (quotePart .path env.nfc full s₁), x ≠ 47 :=
          fun x hx => (stop_path (hq1.escColon.stop x hx)).2
        cases hr : rest.map (quotePart .path env.nfc full) with
        | nil => rw [List.intercalate_singleton, before_none h47']; exact escColon_no_colon _
        | cons b r =>
          rw [List.intercalate_cons_cons]
          have e : escColon (quotePart .path env.nfc full s₁) ++ [47] ++ [47].intercalate (b :: r)
              = escColon (quotePart .path env.nfc full s₁) ++ 47 :: [47].intercalate (b :: r) := by simp
          rw [e, before_append h47']; exact escColon_no_colon _
  · refine ⟨u.pathParts.map (fun s => (quotePart .path env.nfc full s, D s)), by simpa using hne, ?_,
      by simp [List.map_map, Function.comp_def], by simp [pathR, hs, pathText, List.map_map, Function.comp_def],
      fun h => absurd h hs⟩
    intro p hp
    rw [List.mem_map] at hp
    obtain ⟨s, hs', rfl⟩ := hp
    exact hq s hs'

/-- does `to_text` write `//` for this URL -/
def slashes (u : URL) : Bool := slashesS u.scheme u.netlocSep (pathR env full u)

/-- what comes back: the texts decoded, whether there was a `//` remembered, no port -/
def normalN (u : URL) : URL :=
  { scheme := u.scheme
    netlocSep := slashes env full u
    username := []
    password := []
    family := .none
    host := []
    port := none
    pathParts := u.pathParts.map D
    query := u.query.map (decPair D)
    fragment := D u.fragment }

/-- the rendered text, spelled out -/
def urlTextN (u : URL) : Text :=
  spart u.scheme ++ (slpart (slashes env full u) ++ (pathR env full u ++
    (qpart (queryText env full u.query) ++ fpart (quotePart .fragment env.nfc full u.fragment))))

theorem toText_urlTextN (u : URL) (hW : WFnq env full D u) : toText env full u = .ok (urlTextN env full u) := by
  unfold toText
  rw [authority_nil env full u hW.host_nil hW.user_nil hW.pw_nil]
  simp only []
  congr 1
  have hpath : (if u.scheme = [] ∧ True then escColonFirst (pathText env full u.pathParts)
      else pathText env full u.pathParts) = pathR env full u := by
    simp [pathR]
  rw [hpath]
  unfold assemble urlTextN spart slpart qpart fpart slashes slashesS
  simp only [usesNetloc_eq, ne_eq, not_true_eq_false, if_false, false_and, and_false]
  by_cases hP : pathR env full u = []
  · simp [hP, List.append_assoc]
  · simp [hP, List.append_assoc]

theorem urlTextN_scanned (u : URL) (hW : WFnq env full D u) :
    ScannedN (urlTextN env full u) u.scheme (slashes env full u)
      (pathR env full u) (queryText env full u.query)
      (quotePart .fragment env.nfc full u.fragment) := by
  obtain ⟨l, _, hlq, _, hE, h58⟩ := pathR_segs env full D u hW.parts_ne hW.q_parts
  exact scan_noauth _ _ _ _ _ hW.scheme_ok
    (by rw [hE]; exact segs_chars l hlq)
    (queryText_chars env full D u.query hW.q_query)
    (fun c hc => stop_fragment (hW.q_frag.stop c hc))
    (fun hs _ => h58 hs)
    (fun h => slashesS_true h)
    (fun h => slashesS_false h)

/-- parsing the rendering gives the URL back, decoded -/
theorem ofText_urlTextN (u : URL) (hW : WFnq env full D u) :
    URL.ofText env (urlTextN env full u) = .ok (normalN env full D u) := by
  have hS := urlTextN_scanned env full D u hW
  unfold URL.ofText
  simp only [hS.auth, hS.path, hS.query, hS.frag, hS.scheme, Option.getD_some]
  have hau : (if slashes env full u = true then some ([] : Text) else none).getD [] = [] := by
    split <;> rfl
  have his : (if slashes env full u = true then some ([] : Text) else none).isSome = slashes env full u := by
    cases slashes env full u <;> rfl
  rw [hau, his, parseAuthority_nil env]
  simp only [if_true, maybeUnquote_nil]
  have hparts : ((pathR env full u).splitOn 47).map maybeUnquote = u.pathParts.map D := by
    obtain ⟨l, hlne, hlq, hl2, hE, _⟩ := pathR_segs env full D u hW.parts_ne hW.q_parts
    rw [hE, segs_parts l hlne hlq, hl2]
  rw [hparts]
  rw [parseQsl_queryText env full D u.query hW.q_query hW.query_ok]
  rw [hW.q_frag.munq]
  rfl

end noauth

section fixedN
variable (env : Env) (full : Bool) (D : Text → Text)
  (hD : ∀ (c : Comp) (s : Text), quotePart c env.nfc full (D s) = quotePart c env.nfc full s)
  (hDD : ∀ s, D (D s) = D s)

include hD in
theorem normalN_pathText (u : URL) :
    pathText env full (normalN env full D u).pathParts = pathText env full u.pathParts := by
  simp only [pathText, normalN, List.map_map]
  congr 1
  apply List.map_congr_left
  intro s _
  simp [hD]

include hD in
theorem normalN_pathR (u : URL) : pathR env full (normalN env full D u) = pathR env full u := by
  unfold pathR
  rw [normalN_pathText env full D hD u]
  rfl

include hD in
theorem normalN_slashes (u : URL) : slashes env full (normalN env full D u) = slashes env full u := by
  unfold slashes
  rw [normalN_pathR env full D hD u]
  exact slashesS_idem u.scheme u.netlocSep _

include hD in
theorem normalN_urlTextN (u : URL) : urlTextN env full (normalN env full D u) = urlTextN env full u := by
  unfold urlTextN
  rw [normalN_slashes env full D hD u, normalN_pathR env full D hD u]
  have hq : queryText env full (normalN env full D u).query = queryText env full u.query := by
    simp only [queryText, normalN, List.map_map]
    congr 1
    apply List.map_congr_left
    intro kv _
    exact normalG_pairText env full D hD kv
  have hf : quotePart .fragment env.nfc full (normalN env full D u).fragment
      = quotePart .fragment env.nfc full u.fragment := by
    simp [normalN, hD]
  rw [hq, hf]
  rfl

include hD hDD in
theorem normalN_WFnq (u : URL) (hW : WFnq env full D u) : WFnq env full D (normalN env full D u) where
  scheme_ok := hW.scheme_ok
  host_nil := rfl
  user_nil := rfl
  pw_nil := rfl
  parts_ne := by
    have := hW.parts_ne
    simp only [normalN, ne_eq, List.map_eq_nil_iff]
    exact this
  query_ok := by
    intro kv hkv
    simp only [normalN, List.mem_map] at hkv
    obtain ⟨kv0, h0, rfl⟩ := hkv
    intro h
    apply hW.query_ok kv0 h0
    simp only [decPair, hDD] at h
    refine ⟨h.1, ?_⟩
    cases hv : kv0.2 with
    | none => rfl
    | some v => rw [hv] at h; simp at h
  q_parts := by
    intro s hs
    simp only [normalN, List.mem_map] at hs
    obtain ⟨s0, h0, rfl⟩ := hs
    rw [hD, hDD]; exact hW.q_parts s0 h0
  q_query := by
    intro kv hkv
    simp only [normalN, List.mem_map] at hkv
    obtain ⟨kv0, h0, rfl⟩ := hkv
    have := hW.q_query kv0 h0
    refine ⟨by simpa [decPair, hD, hDD] using this.1, ?_⟩
    intro v hv
    simp only [decPair] at hv
    cases hv0 : kv0.2 with
    | none => rw [hv0] at hv; simp at hv
    | some v0 =>
      rw [hv0] at hv
      simp only [Option.map_some, Option.some.injEq] at hv
      subst hv
      rw [hD, hDD]
      exact this.2 v0 hv0
  q_frag := by
    simp only [normalN]
    rw [hD, hDD]; exact hW.q_frag

include hD hDD in
/-- render, parse, render again: the same text -/
theorem render_fixedN (u : URL) (hW : WFnq env full D u) :
    toText env full u = .ok (urlTextN env full u) ∧
    URL.ofText env (urlTextN env full u) = .ok (normalN env full D u) ∧
    toText env full (normalN env full D u) = .ok (urlTextN env full u) := by
  refine ⟨toText_urlTextN env full D u hW, ofText_urlTextN env full D u hW, ?_⟩
  rw [toText_urlTextN env full D _ (normalN_WFnq env full D hD hDD u hW),
      normalN_urlTextN env full D hD u]

end fixedN

/-! ### the two quoting modes -/

/-- FULL quoting, no authority: a scheme (any text without `:/?#`) or none, no host, no userinfo, at least one
    path segment, arbitrary component texts -/
structure WFna (env : Env) (u : URL) : Prop where
  scheme_ok : ∀ c ∈ u.scheme, notIn schemeStop c = true
  host_nil : u.host = []
  user_nil : u.username = []
  pw_nil : u.password = []
  parts_ne : u.pathParts ≠ []
  query_ok : ∀ kv ∈ u.query, ¬ (env.nfc kv.1 = [] ∧ kv.2 = none)
  scalars : Scalars env u

theorem WFna.toWFnq {env : Env} {u : URL} (hW : WFna env u) : WFnq env true env.nfc u where
  scheme_ok := hW.scheme_ok
  host_nil := hW.host_nil
  user_nil := hW.user_nil
  pw_nil := hW.pw_nil
  parts_ne := hW.parts_ne
  query_ok := hW.query_ok
  q_parts := fun s hs => quoted_full .path env.nfc s (hW.scalars.parts s hs)
  q_query := fun kv hkv =>
    ⟨quoted_full .query env.nfc kv.1 (hW.scalars.query kv hkv).1,
     fun v hv => quoted_full .query env.nfc v ((hW.scalars.query kv hkv).2 v hv)⟩
  q_frag := quoted_full .fragment env.nfc u.fragment hW.scalars.fragment

/-- MINIMAL quoting, no authority: the same shape, and no `%` in a path segment, query key / value or fragment -/
structure WFnaMin (env : Env) (u : URL) : Prop where
  scheme_ok : ∀ c ∈ u.scheme, notIn schemeStop c = true
  host_nil : u.host = []
  user_nil : u.username = []
  pw_nil : u.password = []
  parts_ne : u.pathParts ≠ []
  query_ok : ∀ kv ∈ u.query, ¬ (kv.1 = [] ∧ kv.2 = none)
  no_pct_parts : ∀ s ∈ u.pathParts, 37 ∉ s
  no_pct_query : ∀ kv ∈ u.query, 37 ∉ kv.1 ∧ ∀ v, kv.2 = some v → 37 ∉ v
  no_pct_frag : 37 ∉ u.fragment

theorem WFnaMin.toWFnq {env : Env} {u : URL} (hW : WFnaMin env u) : WFnq env false id u where
  scheme_ok := hW.scheme_ok
  host_nil := hW.host_nil
  user_nil := hW.user_nil
  pw_nil := hW.pw_nil
  parts_ne := hW.parts_ne
  query_ok := hW.query_ok
  q_parts := fun s hs => quoted_min .path env.nfc s (hW.no_pct_parts s hs)
  q_query := fun kv hkv =>
    ⟨quoted_min .query env.nfc kv.1 (hW.no_pct_query kv hkv).1,
     fun v hv => quoted_min .query env.nfc v ((hW.no_pct_query kv hkv).2 v hv)⟩
  q_frag := quoted_min .fragment env.nfc u.fragment hW.no_pct_frag

end C06
