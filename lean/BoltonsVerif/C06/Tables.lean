import BoltonsVerif.C06.Spec
/-
C06 — facts about the generated tables, re-checked by kernel evaluation (`decide +kernel`) whenever
the translator output changes.  Kept in a file of their own because they take ~30 s to check.
-/
namespace C06
open C06.Gen

/-! ### the generated tables (re-checked by kernel evaluation on every regeneration) -/

/-- the hex map is exactly "two hexadecimal digits (either case) -> their value" -/
def hexSpec (a b : Nat) : Option Nat :=
  if isHexDigit a && isHexDigit b then some (16 * hexVal a + hexVal b) else none

/-- one row of a quote map is right: either the byte itself (ASCII, raw-legal at that position,
    not `%`), or `%` + two upper-case hex digits that denote the byte (`hexSpec`; the decoder's own table is
    proved equal to `hexSpec` below, `hexPair_eq_spec`); and no character of the row is a delimiter for the parser
    at that position -/
def entryOK (c : Comp) (b : Nat) (e : List Nat) : Bool :=
  ((e == [b] && b != 37 && b < 128 && legalRaw c b) ||
   (match e with
    | [p, h, l] => p == 37 && isUpperHex h && isUpperHex l && hexSpec h l == some b
    | _ => false)) &&
  e.all (fun ch => !(stopSet c).contains ch)

def mapOK (c : Comp) : Bool := (List.range 256).all fun b => entryOK c b (mapGet c.map b)

theorem mapOK_all (c : Comp) : mapOK c = true := by
  cases c <;> decide +kernel

theorem entryOK_of_lt (c : Comp) (b : Nat) (hb : b < 256) : entryOK c b (mapGet c.map b) = true := by
  have h := mapOK_all c
  unfold mapOK at h
  rw [List.all_eq_true] at h
  exact h b (List.mem_range.mpr hb)

/-- the delimiter sets used by minimal quoting are ASCII and their rows are escapes -/
def delimsOK (c : Comp) : Bool :=
  c.delims.all fun t => t < 128 && (mapGet c.map t).length == 3

theorem delimsOK_all (c : Comp) : delimsOK c = true := by
  cases c <;> decide +kernel

def hexDigits : List Nat :=
  [48, 49, 50, 51, 52, 53, 54, 55, 56, 57, 65, 66, 67, 68, 69, 70, 97, 98, 99, 100, 101, 102]

theorem isHexDigit_mem (a : Nat) (h : isHexDigit a = true) : a ∈ hexDigits := by
  simp only [isHexDigit, Bool.or_eq_true, Bool.and_eq_true, decide_eq_true_eq] at h
  have h1 : a = 48 ∨ a = 49 ∨ a = 50 ∨ a = 51 ∨ a = 52 ∨ a = 53 ∨ a = 54 ∨ a = 55 ∨ a = 56 ∨ a = 57 ∨
      a = 65 ∨ a = 66 ∨ a = 67 ∨ a = 68 ∨ a = 69 ∨ a = 70 ∨ a = 97 ∨ a = 98 ∨ a = 99 ∨ a = 100 ∨
      a = 101 ∨ a = 102 := by omega
  simp only [hexDigits, List.mem_cons, List.mem_nil_iff, or_false]
  exact h1

/-- every entry of the hex map is a pair of hex digits with its value … -/
theorem hexMap_sound : hexMap.all (fun e => hexSpec e.1 e.2.1 == some e.2.2) = true := by
  decide +kernel

/-- … and the keys of the table are exactly the 22 x 22 pairs of hex digits (in the order the translator emits
    them: one linear comparison instead of 484 searches) -/
def hexKeys : List (Nat × Nat) := hexDigits.flatMap fun a => hexDigits.map fun b => (a, b)

theorem hexMap_keys : hexMap.map (fun e => (e.1, e.2.1)) = hexKeys := by
  decide +kernel

/-- hence every pair of hex digits is found, with that value -/
theorem hexMap_complete_of_hex {a b : Nat} (ha : isHexDigit a = true) (hb : isHexDigit b = true) :
    hexPair? a b = hexSpec a b := by
  have hk : (a, b) ∈ hexKeys := by
    simp only [hexKeys, List.mem_flatMap, List.mem_map]
    exact ⟨a, isHexDigit_mem a ha, b, isHexDigit_mem b hb, rfl⟩
  rw [← hexMap_keys, List.mem_map] at hk
  obtain ⟨e0, he0, hkey⟩ := hk
  unfold hexPair?
  cases hf : hexMap.find? (fun e => e.1 == a && e.2.1 == b) with
  | none =>
    exfalso
    rw [List.find?_eq_none] at hf
    have := hf e0 he0
    simp only [Prod.mk.injEq] at hkey
    simp [hkey.1, hkey.2] at this
  | some e =>
    have hm := List.mem_of_find?_eq_some hf
    have hpred := List.find?_some hf
    simp only [Bool.and_eq_true, beq_iff_eq] at hpred
    have hsnd := hexMap_sound
    rw [List.all_eq_true] at hsnd
    have := eq_of_beq (hsnd e hm)
    rw [hpred.1, hpred.2] at this
    simp [this]

theorem hexPair_eq_spec (a b : Nat) : hexPair? a b = hexSpec a b := by
  by_cases h : isHexDigit a = true ∧ isHexDigit b = true
  · exact hexMap_complete_of_hex h.1 h.2
  · have hs : hexSpec a b = none := by
      unfold hexSpec
      simp only [Bool.and_eq_true]
      rw [if_neg h]
    rw [hs]
    cases hp : hexPair? a b with
    | none => rfl
    | some v =>
      exfalso
      unfold hexPair? at hp
      cases hf : hexMap.find? (fun e => e.1 == a && e.2.1 == b) with
      | none => simp [hf] at hp
      | some e =>
        have hm := List.mem_of_find?_eq_some hf
        have hpred := List.find?_some hf
        simp only [Bool.and_eq_true, beq_iff_eq] at hpred
        have hsnd := hexMap_sound
        rw [List.all_eq_true] at hsnd
        have := eq_of_beq (hsnd e hm)
        rw [hpred.1, hpred.2, hs] at this
        cases this

end C06
