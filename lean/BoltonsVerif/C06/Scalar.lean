import BoltonsVerif.C06.Parsed
/-
C06 — `unquote` (CPython's UTF-8 decoder with errors='replace' included) produces Unicode scalar values only:
no lone surrogate, nothing beyond U+10FFFF.  So whatever `URL(text)` stores in its components can be encoded
and rendered again.
-/
namespace C06
open C06.Gen

theorem runF_all {P : Nat → Prop} {step : Nat → List Nat → Nat × Nat} (hstep : ∀ c rest, P (step c rest).1) :
    ∀ (f : Nat) (l : List Nat), ∀ x ∈ runF step f l, P x := by
  intro f
  induction f with
  | zero => intro l x hx; simp [runF] at hx
  | succ f ih =>
    intro l x hx
    cases l with
    | nil => simp [runF] at hx
    | cons a rest =>
      simp only [runF, List.mem_cons] at hx
      rcases hx with rfl | hx
      · exact hstep a rest
      · exact ih _ x hx

theorem run_all {P : Nat → Prop} {step : Nat → List Nat → Nat × Nat} (hstep : ∀ c rest, P (step c rest).1)
    (l : List Nat) : ∀ x ∈ run step l, P x := runF_all hstep _ l

theorem isScalar_repl : isScalar repl = true := by decide

theorem isScalar_iff (c : Nat) : isScalar c = true ↔ (c < 0xD800 ∨ (0xE000 ≤ c ∧ c < 0x110000)) := by
  simp [isScalar]

theorem isCont_spec {b : Nat} (h : isCont b = true) : 0x80 ≤ b ∧ b < 0xC0 := by
  simpa [isCont] using h

/-- one step of the decoder yields a scalar value -/
theorem decodeStep_scalar (b0 : Nat) (rest : Bytes) : isScalar (decodeStep b0 rest).1 = true := by
  unfold decodeStep
  by_cases h1 : b0 < 0x80
  · rw [if_pos h1, isScalar_iff]; simp only; omega
  rw [if_neg h1]
  by_cases h2 : b0 < 0xC2
  · rw [if_pos h2]; exact isScalar_repl
  rw [if_neg h2]
  by_cases h3 : b0 < 0xE0
  · rw [if_pos h3]
    cases rest with
    | nil => exact isScalar_repl
    | cons b1 r1 =>
      simp only
      by_cases hc : isCont b1 = true
      · rw [if_pos hc, isScalar_iff]
        have := isCont_spec hc
        simp only; omega
      · rw [if_neg hc]; exact isScalar_repl
  rw [if_neg h3]
  by_cases h4 : b0 < 0xF0
  · rw [if_pos h4]
    cases rest with
    | nil => exact isScalar_repl
    | cons b1 r1 =>
      simp only
      by_cases hx : (!isCont b1 || (if b1 < 0xA0 then b0 == 0xE0 else b0 == 0xED)) = true
      · rw [if_pos hx]; exact isScalar_repl
      · rw [if_neg hx]
        cases r1 with
        | nil => exact isScalar_repl
        | cons b2 r2 =>
          simp only
          by_cases hc2 : isCont b2 = true
          · rw [if_pos hc2, isScalar_iff]
            have hb2 := isCont_spec hc2
            simp only [Bool.or_eq_true, Bool.not_eq_true', not_or, Bool.not_eq_false] at hx
            have hb1 := isCont_spec hx.1
            have hx2 := hx.2
            simp only
            by_cases hlt : b1 < 0xA0
            · rw [if_pos hlt] at hx2; simp only [beq_iff_eq] at hx2; omega
            · rw [if_neg hlt] at hx2; simp only [beq_iff_eq] at hx2; omega
          · rw [if_neg hc2]; exact isScalar_repl
  rw [if_neg h4]
  by_cases h5 : b0 < 0xF5
  · rw [if_pos h5]
    cases rest with
    | nil => exact isScalar_repl
    | cons b1 r1 =>
      simp only
      by_cases hx : (!isCont b1 || (if b1 < 0x90 then b0 == 0xF0 else b0 == 0xF4)) = true
      · rw [if_pos hx]; exact isScalar_repl
      · rw [if_neg hx]
        cases r1 with
        | nil => exact isScalar_repl
        | cons b2 r2 =>
          simp only
          by_cases hn2 : (!isCont b2) = true
          · rw [if_pos hn2]; exact isScalar_repl
          · rw [if_neg hn2]
            cases r2 with
            | nil => exact isScalar_repl
            | cons b3 r3 =>
              simp only
              by_cases hc3 : isCont b3 = true
              · rw [if_pos hc3, isScalar_iff]
                have hb3 := isCont_spec hc3
                have hb2 := isCont_spec (by simpa using hn2)
                simp only [Bool.or_eq_true, Bool.not_eq_true', not_or, Bool.not_eq_false] at hx
                have hb1 := isCont_spec hx.1
                have hx2 := hx.2
                simp only
                by_cases hlt : b1 < 0x90
                · rw [if_pos hlt] at hx2; simp only [beq_iff_eq] at hx2; omega
                · rw [if_neg hlt] at hx2; simp only [beq_iff_eq] at hx2; omega
              · rw [if_neg hc3]; exact isScalar_repl
  · rw [if_neg h5]; exact isScalar_repl

theorem decodeR_scalar (bs : Bytes) : ∀ x ∈ decodeR bs, isScalar x = true :=
  run_all (P := fun x => isScalar x = true) decodeStep_scalar bs

theorem unqGo_scalar : ∀ (s acc : Text), (∀ x ∈ s, isScalar x = true) → ∀ x ∈ unqGo s acc, isScalar x = true := by
  intro s
  induction s with
  | nil => intro acc _ x hx; simp only [unqGo] at hx; exact decodeR_scalar _ x hx
  | cons c rest ih =>
    intro acc hs x hx
    unfold unqGo at hx
    split at hx
    · exact ih _ (fun y hy => hs y (by simp [hy])) x hx
    · simp only [List.mem_append, List.mem_cons] at hx
      rcases hx with hx | rfl | hx
      · exact decodeR_scalar _ x hx
      · exact hs x (by simp)
      · exact ih _ (fun y hy => hs y (by simp [hy])) x hx

/-- `unquote` of encodable text is encodable text: the decoder never produces a lone surrogate or a value
    beyond U+10FFFF, whatever escapes the text contains -/
theorem unquote_scalar_of (s : Text) (hs : ∀ x ∈ s, isScalar x = true) : ∀ x ∈ unquote s, isScalar x = true :=
  unqGo_scalar s [] hs

/-! ### every component text of a parsed URL is encodable when the URL text is -/

/-- all elements satisfy `P` -/
def AllP (P : Nat → Prop) (s : Text) : Prop := ∀ x ∈ s, P x

theorem AllP.sub {P : Nat → Prop} {a b : Text} (hb : AllP P b) (h : a.Sublist b) : AllP P a :=
  fun x hx => hb x (h.subset hx)

theorem AllP.nil {P : Nat → Prop} : AllP P [] := fun x hx => by simp at hx

theorem after_sub (c : Nat) (s : Text) : (after c s).Sublist s :=
  (List.tail_sublist _).trans (List.dropWhile_sublist _)
theorem rbefore_sub (c : Nat) (s : Text) : (rbefore c s).Sublist s := by
  unfold rbefore
  have h1 : ((s.reverse.dropWhile (neq c)).tail).Sublist s.reverse :=
    (List.tail_sublist _).trans (List.dropWhile_sublist _)
  have := h1.reverse
  simpa using this
theorem rafter_sub (c : Nat) (s : Text) : (rafter c s).Sublist s := by
  unfold rafter
  have h1 : (s.reverse.takeWhile (neq c)).Sublist s.reverse := List.takeWhile_sublist _
  have := h1.reverse
  simpa using this

theorem afterScheme_sub (t : Text) : (afterScheme t).Sublist t := by
  unfold afterScheme
  split
  · rename_i r heq
    split
    · exact List.Sublist.refl _
    · have h1 : (58 :: r).Sublist t := by rw [← heq]; exact List.dropWhile_sublist _
      exact (List.sublist_cons_self 58 r).trans h1
  · exact List.Sublist.refl _

theorem authorityOf_sub (r : Text) : ((authorityOf r).getD []).Sublist r := by
  unfold authorityOf
  split
  · rename_i r'
    simp only [Option.getD_some]
    exact (List.takeWhile_sublist _).trans ((List.sublist_cons_self 47 r').trans (List.sublist_cons_self 47 _))
  · simp

theorem afterAuthority_sub (r : Text) : (afterAuthority r).Sublist r := by
  unfold afterAuthority
  split
  · rename_i r'
    exact (List.dropWhile_sublist _).trans ((List.sublist_cons_self 47 r').trans (List.sublist_cons_self 47 _))
  · exact List.Sublist.refl _

theorem pathOf_sub (r : Text) : (pathOf r).Sublist r := List.takeWhile_sublist _
theorem afterPath_sub (r : Text) : (afterPath r).Sublist r := List.dropWhile_sublist _

theorem queryOf_sub (r : Text) : ((queryOf r).getD []).Sublist r := by
  unfold queryOf
  split
  · rename_i r'
    simp only [Option.getD_some]
    exact (List.takeWhile_sublist _).trans (List.sublist_cons_self 63 r')
  · simp

theorem afterQuery_sub (r : Text) : (afterQuery r).Sublist r := by
  unfold afterQuery
  split
  · rename_i r'
    exact (List.dropWhile_sublist _).trans (List.sublist_cons_self 63 r')
  · exact List.Sublist.refl _

theorem fragmentOf_sub (r : Text) : ((fragmentOf r).getD []).Sublist r := by
  unfold fragmentOf
  split
  · rename_i r'
    simp only [Option.getD_some]
    exact (List.takeWhile_sublist _).trans (List.sublist_cons_self 35 r')
  · simp

theorem mem_intercalate_of_mem {sep x : Nat} {l : Text} {ls : List Text} (hl : l ∈ ls) (hx : x ∈ l) :
    x ∈ [sep].intercalate ls := by
  induction ls with
  | nil => simp at hl
  | cons a rest ih =>
    cases rest with
    | nil =>
      simp only [List.mem_singleton] at hl
      subst hl
      rw [List.intercalate_singleton]; exact hx
    | cons b r =>
      rw [List.intercalate_cons_cons]
      simp only [List.mem_cons] at hl
      rcases hl with rfl | hl
      · simp [hx]
      · have := ih (by simpa using hl)
        simp [this]

/-- the pieces of a split consist of elements of the text -/
theorem splitOn_piece {P : Nat → Prop} {sep : Nat} {s p : Text} (hs : AllP P s) (hp : p ∈ s.splitOn sep) : AllP P p := by
  intro x hx
  have := mem_intercalate_of_mem (sep := sep) hp hx
  rw [List.intercalate_splitOn] at this
  exact hs x this

abbrev Sc (s : Text) : Prop := AllP (fun x => isScalar x = true) s

theorem unquote_Sc {s : Text} (h : Sc s) : Sc (unquote s) := unquote_scalar_of s h

theorem maybeUnquote_Sc {s : Text} (h : Sc s) : Sc (maybeUnquote s) := by
  unfold maybeUnquote
  split
  · exact unquote_Sc h
  · exact h

theorem plusToSpace_Sc {s : Text} (h : Sc s) : Sc (plusToSpace s) := by
  intro x hx
  unfold plusToSpace at hx
  rw [List.mem_map] at hx
  obtain ⟨c, hc, rfl⟩ := hx
  split
  · decide
  · exact h c hc

theorem parsePair_Sc {p : Text} (h : Sc p) :
    Sc (parsePair p).1 ∧ ∀ v, (parsePair p).2 = some v → Sc v := by
  unfold parsePair
  refine ⟨unquote_Sc (plusToSpace_Sc (h.sub (before_sub 61 p))), ?_⟩
  intro v hv
  simp only at hv
  split at hv
  · simp only [Option.some.injEq] at hv
    subst hv
    split
    · exact AllP.nil
    · exact unquote_Sc (plusToSpace_Sc (h.sub (after_sub 61 p)))
  · cases hv

theorem parseQsl_Sc {qs : Text} (h : Sc qs) :
    ∀ kv ∈ parseQsl qs, Sc kv.1 ∧ ∀ v, kv.2 = some v → Sc v := by
  intro kv hkv
  unfold parseQsl at hkv
  rw [List.mem_map] at hkv
  obtain ⟨p, hp, rfl⟩ := hkv
  rw [List.mem_filter, List.mem_flatMap] at hp
  obtain ⟨⟨a, ha, hpa⟩, _⟩ := hp
  exact parsePair_Sc (splitOn_piece (splitOn_piece h ha) hpa)

/-- what `parse_url` calls username and password are pieces of the authority text -/
theorem parseAuthority_Sc {env : Env} {au : Text} {a : Auth} (h : parseAuthority env au = .ok a) (hau : Sc au) :
    Sc a.username ∧ Sc a.password := by
  unfold parseAuthority at h
  simp only at h
  split at h
  · cases h
  · split at h
    · cases h
    · cases h
      constructor
      · simp only; split
        · exact (hau.sub (rbefore_sub 64 au)).sub (before_sub 58 _)
        · exact AllP.nil
      · simp only; split
        · exact (hau.sub (rbefore_sub 64 au)).sub (after_sub 58 _)
        · exact AllP.nil

/-- a URL parsed from encodable text has encodable component texts (for a normaliser that, like NFC, maps
    encodable text to encodable text) -/
theorem parsed_scalars {env : Env} (hnfc : ∀ s, Sc s → Sc (env.nfc s)) {t : Text} {u : URL}
    (h : URL.ofText env t = .ok u) (ht : Sc t) : Scalars env u := by
  unfold URL.ofText at h
  simp only at h
  have h1 : Sc (afterScheme t) := ht.sub (afterScheme_sub t)
  have h2 : Sc (afterAuthority (afterScheme t)) := h1.sub (afterAuthority_sub _)
  have h3 : Sc (afterPath (afterAuthority (afterScheme t))) := h2.sub (afterPath_sub _)
  have h4 : Sc (afterQuery (afterPath (afterAuthority (afterScheme t)))) := h3.sub (afterQuery_sub _)
  split at h
  · cases h
  · rename_i a ha
    have hA := parseAuthority_Sc ha (h1.sub (authorityOf_sub _))
    split at h
    · cases h
    · cases h
      refine ⟨hnfc _ (maybeUnquote_Sc hA.1), hnfc _ (maybeUnquote_Sc hA.2),
        hnfc _ (maybeUnquote_Sc (h4.sub (fragmentOf_sub _))), ?_, ?_⟩
      · intro s hs
        simp only [List.mem_map] at hs
        obtain ⟨p, hp, rfl⟩ := hs
        exact hnfc _ (maybeUnquote_Sc (splitOn_piece (h2.sub (pathOf_sub _)) hp))
      · intro kv hkv
        have := parseQsl_Sc (h3.sub (queryOf_sub _)) kv hkv
        exact ⟨hnfc _ this.1, fun v hv => hnfc _ (this.2 v hv)⟩

end C06
