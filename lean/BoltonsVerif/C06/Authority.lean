import BoltonsVerif.C06.Proofs
/-
C06 — the authority: `get_authority` rendering and what `parse_url` / `parse_host` read back,
for registered names / IPv4 literals and for bracketed IPv6 literals.
-/
namespace C06
open C06.Gen

/-- a host character that cannot be mistaken for a delimiter of the authority (ASCII or not: with minimal quoting a
    non-ASCII host is written and read back as it is) -/
def hostChar (c : Nat) : Bool := notIn authStop c && c != 64 && c != 58 && c != 91

/-- characters of an IPv6 literal: hexadecimal digits, `:` and `.` -/
def v6Char (c : Nat) : Bool := isHexDigit c || c == 58 || c == 46

theorem hostChar_spec {c : Nat} (h : hostChar c = true) :
    notIn authStop c = true ∧ c ≠ 64 ∧ c ≠ 58 ∧ c ≠ 91 := by
  simp only [hostChar, Bool.and_eq_true, bne_iff_ne, ne_eq] at h
  exact ⟨h.1.1.1, h.1.1.2, h.1.2, h.2⟩

theorem auth_stops_ok : notIn authStop 58 = true ∧ notIn authStop 64 = true ∧
    notIn authStop 91 = true ∧ notIn authStop 93 = true ∧ notIn authStop 46 = true ∧
    authStop.all (fun c => !isHexDigit c) = true := by decide

theorem hex_notIn_authStop {c : Nat} (h : isHexDigit c = true) : notIn authStop c = true := by
  have := auth_stops_ok.2.2.2.2.2
  rw [List.all_eq_true] at this
  simp only [notIn, Bool.not_eq_true', List.contains_eq_mem, decide_eq_false_iff_not]
  intro hm
  have := this c hm
  simp [h] at this

theorem isDigit_hex {c : Nat} (h : isDigit c = true) : isHexDigit c = true := by
  simp only [isDigit, isHexDigit, Bool.or_eq_true, Bool.and_eq_true, decide_eq_true_eq] at *
  omega

theorem digit_notIn_authStop {c : Nat} (h : isDigit c = true) : notIn authStop c = true :=
  hex_notIn_authStop (isDigit_hex h)

theorem v6Char_spec {c : Nat} (h : v6Char c = true) :
    c < 128 ∧ notIn authStop c = true ∧ c ≠ 64 ∧ c ≠ 93 ∧ c ≠ 91 := by
  simp only [v6Char, Bool.or_eq_true, beq_iff_eq] at h
  rcases h with (h | h) | h
  · refine ⟨?_, hex_notIn_authStop h, ?_, ?_, ?_⟩ <;>
      (simp only [isHexDigit, Bool.or_eq_true, Bool.and_eq_true, decide_eq_true_eq] at h; omega)
  · subst h; exact ⟨by decide, auth_stops_ok.1, by decide, by decide, by decide⟩
  · subst h; exact ⟨by decide, auth_stops_ok.2.2.2.2.1, by decide, by decide, by decide⟩

def uiText (env : Env) (u : URL) : Text :=
  if u.username ≠ [] ∨ u.password ≠ [] then
    quoteFull userinfoMap env.nfc u.username ++
      (if u.password ≠ [] then 58 :: quoteFull userinfoMap env.nfc u.password else []) ++ [64]
  else []

def portText (u : URL) : Text :=
  match u.port with
  | some p => if p ≠ 0 ∧ some p ≠ (defaultPort u.scheme).map Int.ofNat then 58 :: showInt p else []
  | none => []

/-- the host as it stands in the authority: IPv6 literals in brackets -/
def hostText (u : URL) : Text := if u.family = .inet6 then 91 :: u.host ++ [93] else u.host

def hostinfo (u : URL) : Text := hostText u ++ portText u

/-- the port is absent, or a positive number different from the scheme's default: it is rendered, and comes back -/
def PortOK (u : URL) : Prop :=
  u.port = none ∨ ∃ p : Nat, u.port = some (Int.ofNat p) ∧ 0 < p ∧ some p ≠ defaultPort u.scheme

/-- the port is absent or any natural number (`port = *DIGIT`): zero and the scheme's default port included,
    which `get_authority` does not render -/
def PortNat (u : URL) : Prop := u.port = none ∨ ∃ p : Nat, u.port = some (Int.ofNat p)

/-- the port that comes back after rendering and parsing: a zero / default port is not rendered, so it is gone -/
def portBack (u : URL) : Option Int :=
  match u.port with
  | some p => if p ≠ 0 ∧ some p ≠ (defaultPort u.scheme).map Int.ofNat then some p else none
  | none => none

theorem PortOK.nat {u : URL} (h : PortOK u) : PortNat u := by
  rcases h with h | ⟨p, hp, _, _⟩
  · exact Or.inl h
  · exact Or.inr ⟨p, hp⟩

theorem portBack_of_ok {u : URL} (h : PortOK u) : portBack u = u.port := by
  rcases h with h | ⟨p, hp, hpos, hd⟩
  · simp [portBack, h]
  · unfold portBack
    rw [hp]
    have h0 : (Int.ofNat p) ≠ 0 := by
      intro h; have : p = 0 := by exact Int.ofNat_eq_zero.mp h
      omega
    have h1 : some (Int.ofNat p) ≠ (defaultPort u.scheme).map Int.ofNat := by
      intro h
      cases hdp : defaultPort u.scheme with
      | none => rw [hdp] at h; simp at h
      | some d =>
        rw [hdp] at h hd
        simp only [Option.map_some, Option.some.injEq] at h
        have : p = d := Int.ofNat.inj h
        exact hd (by rw [this])
    simp only []
    rw [if_pos ⟨h0, h1⟩]

/-- the host is a registered name / IPv4 literal that the idna codec leaves alone, or an IPv6
    literal that `inet_pton` accepts -/
inductive HostOK (env : Env) (full : Bool) (u : URL) : Prop where
  | name (hh : ∀ c ∈ u.host, hostChar c = true)
      (hfam : u.family = if env.fam4 u.host then .inet else .none)
      (henc : full = true → env.idnaEnc u.host = some u.host)
  | v6 (hfam : u.family = .inet6) (hh : ∀ c ∈ u.host, v6Char c = true) (h58 : 58 ∈ u.host)
      (h6 : env.fam6 u.host = true)

theorem portText_cases (u : URL) (h : PortNat u) :
    (portBack u = none ∧ portText u = []) ∨
    (∃ p : Nat, portBack u = some (Int.ofNat p) ∧ portText u = 58 :: showNat p) := by
  rcases h with h | ⟨p, hp⟩
  · left; simp [portText, portBack, h]
  · unfold portText portBack
    rw [hp]
    simp only []
    split
    · right; exact ⟨p, rfl, rfl⟩
    · left; exact ⟨rfl, rfl⟩

theorem authority_any (env : Env) (full : Bool) (u : URL) (hne : u.host ≠ []) (h : HostOK env full u) :
    authority env full u = .ok (uiText env u ++ hostinfo u) := by
  unfold authority uiText hostinfo hostText portText
  cases h with
  | name hh hfam henc =>
    have h6 : u.family ≠ .inet6 := by rw [hfam]; split <;> simp
    cases full with
    | true =>
      simp only [hne, if_false, h6, if_true, henc rfl]
      simp [List.append_assoc] <;> rfl
    | false =>
      simp only [hne, if_false, h6]
      simp [List.append_assoc] <;> rfl
  | v6 hfam hh h58 h6 =>
    simp only [hne, if_false, hfam, if_true]
    simp [List.append_assoc] <;> rfl

/-! what the parser needs to know about the rendered host and port -/

structure HostFacts (env : Env) (u : URL) : Prop where
  ne : hostinfo u ≠ []
  chars : ∀ x ∈ hostinfo u, x ≠ 64 ∧ notIn authStop x = true
  split : splitHostPort (hostinfo u) = .ok (hostText u, portBack u)
  host : parseHost env (hostText u) = .ok (u.family, u.host)

theorem portText_chars {u : URL} (hp : PortNat u) : ∀ x ∈ portText u, x ≠ 64 ∧ notIn authStop x = true := by
  intro x hx
  rcases portText_cases u hp with ⟨_, ht⟩ | ⟨p, _, ht⟩
  · rw [ht] at hx; simp at hx
  · rw [ht] at hx
    simp only [List.mem_cons] at hx
    rcases hx with rfl | hx
    · exact ⟨by decide, auth_stops_ok.1⟩
    · have hd := showNat_digits p x hx
      refine ⟨?_, digit_notIn_authStop hd⟩
      simp [isDigit] at hd; omega

theorem parsePort_portText_tail {u : URL} (hp : PortNat u) :
    parsePort (match portText u with
               | 58 :: r => r
               | r => r) = .ok (portBack u) := by
  rcases portText_cases u hp with ⟨hn, ht⟩ | ⟨p, hpp, ht⟩
  · rw [ht, hn]; simp [parsePort, pyInt?, pyNat?]
  · rw [ht, hpp]; simp [parsePort, pyInt_showNat]

theorem hostFacts_name (env : Env) (u : URL) (hne : u.host ≠ []) (hp : PortNat u)
    (hh : ∀ c ∈ u.host, hostChar c = true)
    (hfam : u.family = if env.fam4 u.host then .inet else .none) : HostFacts env u := by
  have h6 : u.family ≠ .inet6 := by rw [hfam]; split <;> simp
  have hht : hostText u = u.host := by simp [hostText, h6]
  have h58 : ∀ x ∈ u.host, x ≠ 58 := fun x hx => (hostChar_spec (hh x hx)).2.2.1
  refine ⟨by simp [hostinfo, hht, hne], ?_, ?_, ?_⟩
  · intro x hx
    rw [hostinfo, hht, List.mem_append] at hx
    rcases hx with hx | hx
    · have := hostChar_spec (hh x hx); exact ⟨this.2.1, this.1⟩
    · exact portText_chars hp x hx
  · rw [hostinfo, hht]
    rcases portText_cases u hp with ⟨hn, ht⟩ | ⟨p, hpp, ht⟩
    · rw [ht, hn]
      unfold splitHostPort
      have : u.host.contains 58 = false := by
        simp only [List.contains_eq_mem, decide_eq_false_iff_not]
        intro h; exact h58 58 h rfl
      simp only [List.append_nil, this]
      rfl
    · rw [ht, hpp]
      unfold splitHostPort
      have hc : (u.host ++ 58 :: showNat p).contains 58 = true := by simp
      have hb : before 58 (u.host ++ 58 :: showNat p) = u.host := before_append h58
      have ha : after 58 (u.host ++ 58 :: showNat p) = showNat p := after_append h58
      have hhead : ((before 58 (u.host ++ 58 :: showNat p)).head? = some 91 &&
          (after 58 (u.host ++ 58 :: showNat p)).contains 93) = false := by
        rw [hb]
        cases hhost : u.host with
        | nil => exact absurd hhost hne
        | cons x xs =>
          have : x ≠ 91 := (hostChar_spec (hh x (by rw [hhost]; simp))).2.2.2
          simp [this]
      simp only [hc, Bool.not_true, Bool.false_eq_true, if_false, hhead]
      rw [ha, hb]
      simp [parsePort, pyInt_showNat]
  · rw [hht]
    unfold parseHost
    have hm : 58 ∉ u.host := fun h => h58 58 h rfl
    simp [hne, hm, hfam]

/-! first-occurrence splitting of a text that contains the separator -/

theorem before_after_eq {c : Nat} {s : Text} (h : c ∈ s) : before c s ++ c :: after c s = s := by
  induction s with
  | nil => simp at h
  | cons x s ih =>
    by_cases hx : x = c
    · subst hx; simp [before, after, neq, List.takeWhile, List.dropWhile]
    · have hm : c ∈ s := by
        simp only [List.mem_cons] at h
        rcases h with h | h
        · exact absurd h.symm hx
        · exact h
      have hn : neq c x = true := by simp [neq, hx]
      have := ih hm
      simp only [before, after, List.takeWhile, List.dropWhile, hn] at this ⊢
      simp [this]

theorem before_append_mem {c : Nat} {s r : Text} (h : c ∈ s) : before c (s ++ r) = before c s := by
  induction s with
  | nil => simp at h
  | cons x s ih =>
    by_cases hx : x = c
    · subst hx; simp [before, neq, List.takeWhile]
    · have hm : c ∈ s := by
        simp only [List.mem_cons] at h
        rcases h with h | h
        · exact absurd h.symm hx
        · exact h
      have hn : neq c x = true := by simp [neq, hx]
      have := ih hm
      simp only [before, List.cons_append, List.takeWhile, hn] at this ⊢
      rw [this]

theorem after_append_mem {c : Nat} {s r : Text} (h : c ∈ s) : after c (s ++ r) = after c s ++ r := by
  induction s with
  | nil => simp at h
  | cons x s ih =>
    by_cases hx : x = c
    · subst hx; simp [after, neq, List.dropWhile]
    · have hm : c ∈ s := by
        simp only [List.mem_cons] at h
        rcases h with h | h
        · exact absurd h.symm hx
        · exact h
      have hn : neq c x = true := by simp [neq, hx]
      have := ih hm
      simp only [after, List.cons_append, List.dropWhile, hn] at this ⊢
      rw [this]

theorem mem_after {c x : Nat} {s : Text} (h : x ∈ after c s) : x ∈ s := by
  unfold after at h
  exact (List.dropWhile_sublist _).subset (List.mem_of_mem_tail h)

theorem hostFacts_v6 (env : Env) (u : URL) (hp : PortNat u)
    (hfam : u.family = .inet6) (hh : ∀ c ∈ u.host, v6Char c = true) (h58 : 58 ∈ u.host)
    (h6 : env.fam6 u.host = true) : HostFacts env u := by
  have hht : hostText u = 91 :: u.host ++ [93] := by simp [hostText, hfam]
  have hi : hostinfo u = (91 :: u.host) ++ (93 :: portText u) := by simp [hostinfo, hht]
  have hm : 58 ∈ 91 :: u.host := by simp [h58]
  have hb : before 58 (hostinfo u) = 91 :: before 58 u.host := by
    rw [hi, before_append_mem hm]; simp [before, neq, List.takeWhile]
  have ha : after 58 (hostinfo u) = after 58 u.host ++ 93 :: portText u := by
    rw [hi, after_append_mem hm]; simp [after, neq, List.dropWhile]
  have h93 : ∀ x ∈ after 58 u.host, x ≠ 93 := fun x hx => (v6Char_spec (hh x (mem_after hx))).2.2.2.1
  refine ⟨by simp [hi], ?_, ?_, ?_⟩
  · intro x hx
    rw [hi] at hx
    simp only [List.mem_append, List.mem_cons] at hx
    rcases hx with (rfl | hx) | rfl | hx
    · exact ⟨by decide, auth_stops_ok.2.2.1⟩
    · have := v6Char_spec (hh x hx); exact ⟨this.2.2.1, this.2.1⟩
    · exact ⟨by decide, auth_stops_ok.2.2.2.1⟩
    · exact portText_chars hp x hx
  · unfold splitHostPort
    have hc : (hostinfo u).contains 58 = true := by rw [hi]; simp [h58]
    have hc93 : (after 58 (hostinfo u)).contains 93 = true := by rw [ha]; simp
    have hba := before_after_eq h58
    simp only [hc, Bool.not_true, Bool.false_eq_true, if_false, hb, List.head?_cons, hc93, Bool.and_true,
      beq_self_eq_true, if_true]
    rw [ha, before_append h93, after_append h93, hht]
    rcases portText_cases u hp with ⟨hn, ht⟩ | ⟨p, hpp, ht⟩
    · rw [ht, hn]
      simp [parsePort, pyInt?, pyNat?, hba]
    · rw [ht, hpp]
      simp [parsePort, pyInt_showNat, hba]
  · rw [hht]
    unfold parseHost
    have hl : (91 :: (u.host ++ [93])).getLast? = some 93 := by
      rw [List.getLast?_cons]; simp [List.getLast?_append]
    simp [h58, hl, hfam, h6]

theorem hostFacts_of_ok (env : Env) (full : Bool) (u : URL) (hne : u.host ≠ []) (hp : PortNat u)
    (h : HostOK env full u) : HostFacts env u := by
  cases h with
  | name hh hfam _ => exact hostFacts_name env u hne hp hh hfam
  | v6 hfam hh h58 h6 => exact hostFacts_v6 env u hp hfam hh h58 h6

/-- what `parse_url` finds in the rendered authority: the quoted user and password, the host,
    its family, the port -/
theorem parseAuthority_render (env : Env) (u : URL) (hf : HostFacts env u)
    (hsu : ∀ x ∈ env.nfc u.username, isScalar x = true)
    (hsp : ∀ x ∈ env.nfc u.password, isScalar x = true) :
    parseAuthority env (uiText env u ++ hostinfo u) =
      .ok ⟨if u.username ≠ [] ∨ u.password ≠ [] then quoteFull userinfoMap env.nfc u.username else [],
           if u.password ≠ [] then quoteFull userinfoMap env.nfc u.password else [],
           u.family, u.host, portBack u⟩ := by
  have hi64 : ∀ x ∈ hostinfo u, x ≠ 64 := fun x hx => (hf.chars x hx).1
  have hne' := hf.ne
  have hqu := quoteFull_stop .userinfo env.nfc u.username hsu
  have hqp := quoteFull_stop .userinfo env.nfc u.password hsp
  have hhost := hf.host
  unfold parseAuthority
  by_cases hui : u.username ≠ [] ∨ u.password ≠ []
  · have hu58 : ∀ x ∈ quoteFull Comp.userinfo.map env.nfc u.username, x ≠ 58 :=
      fun x hx => (stop_userinfo (hqu x hx)).2.2
    by_cases hpw : u.password ≠ []
    · have e : uiText env u ++ hostinfo u =
          (quoteFull Comp.userinfo.map env.nfc u.username ++ 58 :: quoteFull Comp.userinfo.map env.nfc u.password)
            ++ 64 :: hostinfo u := by
        simp [uiText, hui, hpw, Comp.map]
      rw [e]
      simp only [rafter_append hi64, rbefore_append hi64]
      have hc : ((quoteFull Comp.userinfo.map env.nfc u.username ++ 58 :: quoteFull Comp.userinfo.map env.nfc u.password)
            ++ 64 :: hostinfo u).contains 64 = true := by simp
      simp only [hc, if_true, hne', if_false, before_append hu58, after_append hu58]
      rw [hf.split]
      simp only [hhost]
      simp [hui, hpw, Comp.map]
    · have hpw' : u.password = [] := by simpa using hpw
      have hun : u.username ≠ [] := by
        rcases hui with h | h
        · exact h
        · exact absurd hpw' h
      have e : uiText env u ++ hostinfo u =
          quoteFull Comp.userinfo.map env.nfc u.username ++ 64 :: hostinfo u := by
        simp [uiText, hun, hpw', Comp.map]
      rw [e]
      simp only [rafter_append hi64, rbefore_append hi64]
      have hc : (quoteFull Comp.userinfo.map env.nfc u.username ++ 64 :: hostinfo u).contains 64 = true := by
        simp
      simp only [hc, if_true, hne', if_false, before_none hu58, after_none hu58]
      rw [hf.split]
      simp only [hhost]
      simp [hun, hpw', Comp.map]
  · have e : uiText env u ++ hostinfo u = hostinfo u := by
      simp [uiText, hui]
    rw [e]
    have hc : (hostinfo u).contains 64 = false := by
      simp only [List.contains_eq_mem, decide_eq_false_iff_not]
      intro h; exact hi64 64 h rfl
    simp only [rafter_none hi64, hc, Bool.false_eq_true, if_false, hne']
    rw [hf.split]
    simp only [hhost]
    have hpw' : u.password = [] := by
      simp only [not_or, ne_eq, Classical.not_not] at hui; exact hui.2
    have hun' : u.username = [] := by
      simp only [not_or, ne_eq, Classical.not_not] at hui; exact hui.1
    simp [hun', hpw']

theorem authText_chars (env : Env) (u : URL) (hf : HostFacts env u)
    (hsu : ∀ x ∈ env.nfc u.username, isScalar x = true)
    (hsp : ∀ x ∈ env.nfc u.password, isScalar x = true) :
    ∀ ch ∈ uiText env u ++ hostinfo u, notIn authStop ch = true := by
  intro ch hch
  rw [List.mem_append] at hch
  rcases hch with hch | hch
  · unfold uiText at hch
    split at hch
    · simp only [List.mem_append, List.mem_singleton] at hch
      rcases hch with (h | h) | h
      · exact (stop_userinfo (quoteFull_stop .userinfo env.nfc u.username hsu ch h)).1
      · split at h
        · simp only [List.mem_cons] at h
          rcases h with rfl | h
          · exact auth_stops_ok.1
          · exact (stop_userinfo (quoteFull_stop .userinfo env.nfc u.password hsp ch h)).1
        · simp at h
      · subst h; exact auth_stops_ok.2.1
    · simp at hch
  · exact (hf.chars ch hch).2

end C06
