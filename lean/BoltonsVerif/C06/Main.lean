import BoltonsVerif.C06.Driver
def main : IO Unit := BV.mainLoop C06.Driver.handle
