import BoltonsVerif.Common
import BoltonsVerif.C06.Model
/-
C06 line protocol.  One line = one case.  Texts travel as code points: decimals joined by `.`,
`-` = empty text.  Lists of texts: joined by `,`, `~` = empty list.  Query lists: `k=v` / `k`
(no `=`: value None) joined by `,`.  NFC table (the external function, supplied by the harness for
the strings that are not NFC-stable): `a>b` joined by `,`, `~` = empty.

  Q <u|p|q|f> <nfc> <text>            quote_*_part, both modes      -> `<full> <min>`
  U <text>                            unquote                       -> `<text>`
  P <nfc> <text>                      URL(text) and the render/re-parse chain
  B <nfc> <netlocSep> <v6> <scheme> <user> <pw> <host> <port|-> <parts> <query> <fragment>
                                      a URL built from components, same chain (`v6`: 1 = AF_INET6, 4 = AF_INET - the
                                      family a parsed IPv4 literal has -, 0 = no family)
  S <B-arguments> ; <B-arguments> ... several URL objects alive at once (independent in the model): their chains
                                      joined by ` || `
  L <nfc> <withText> <defaultScheme> <schemes> <tail> <pre> <match> <pre> <match> ...
                                      the loop of find_all_links over the given regex matches
Chain = `descr(u) | descr(URL(to_text(True))) | descr(URL(to_text(False)))`, where
descr = attributes + `M<min text>` + `X<full text>`; an exception is `!<Name>`; `?idna` marks a full
rendering that needs the real IDNA encoder (non-ASCII host) and is not compared.
-/
namespace C06.Driver
open BV C06

def text? (s : String) : Option Text :=
  if s = "-" then some [] else
  (splitOnChar s '.').foldr (fun w acc =>
    match acc, w.toNat? with
    | some l, some n => some (n :: l)
    | _, _ => none) (some [])

def showText (t : Text) : String :=
  if t.isEmpty then "-" else ".".intercalate (t.map toString)

def texts? (s : String) : Option (List Text) :=
  if s = "~" then some [] else
  (splitOnChar s ',').foldr (fun w acc =>
    match acc, text? w with
    | some l, some t => some (t :: l)
    | _, _ => none) (some [])

def showTexts (l : List Text) : String :=
  if l.isEmpty then "~" else ",".intercalate (l.map showText)

def pair? (s : String) : Option (Text × Option Text) :=
  match splitOnChar s '=' with
  | [k] => (text? k).map fun k => (k, none)
  | [k, v] => match text? k, text? v with
    | some k, some v => some (k, some v)
    | _, _ => none
  | _ => none

def query? (s : String) : Option (List (Text × Option Text)) :=
  if s = "~" then some [] else
  (splitOnChar s ',').foldr (fun w acc =>
    match acc, pair? w with
    | some l, some t => some (t :: l)
    | _, _ => none) (some [])

def showQuery (q : List (Text × Option Text)) : String :=
  if q.isEmpty then "~" else ",".intercalate (q.map fun kv =>
    match kv.2 with
    | none => showText kv.1
    | some v => showText kv.1 ++ "=" ++ showText v)

def nfcTable? (s : String) : Option (List (Text × Text)) :=
  if s = "~" then some [] else
  (splitOnChar s ',').foldr (fun w acc =>
    match acc, splitOnChar w '>' with
    | some l, [a, b] => match text? a, text? b with
      | some a, some b => some ((a, b) :: l)
      | _, _ => none
    | _, _ => none) (some [])

/-- CPython's idna encoder on an ASCII name (fast path): only the label lengths are checked -/
def idnaEncAscii (h : Text) : Option Text :=
  let labels := h.splitOn 46
  if labels.dropLast.all (fun l => 0 < l.length && l.length < 64) && (labels.getLast?.getD []).length < 64
  then some h else none

def mkEnv (tbl : List (Text × Text)) : Env where
  nfc := fun s => match tbl.find? (fun e => e.1 == s) with
    | some e => e.2
    | none => s
  fam4 := inet4
  fam6 := inet6
  idnaDec := some
  idnaEnc := idnaEncAscii

def errName : Err → String
  | .urlParseError => "URLParseError"
  | .unicodeError => "UnicodeError"
  | .valueError => "ValueError"

def showRes : Except Err Text → String
  | .ok t => showText t
  | .error e => "!" ++ errName e

def fullText (env : Env) (u : URL) : Option (Except Err Text) :=
  if isAsciiText u.host then some (toText env true u) else none

def descr (env : Env) (u : URL) : String :=
  " ".intercalate [
    "S" ++ showText u.scheme,
    "N" ++ (if usesNetloc u then "1" else "0"),
    "U" ++ showText u.username,
    "W" ++ showText u.password,
    "F" ++ (match u.family with | .none => "0" | .inet => "4" | .inet6 => "6"),
    "H" ++ showText u.host,
    "P" ++ (match u.port with | some p => toString p | none => "-"),
    "D" ++ (match defaultPort u.scheme with | some p => toString p | none => "-"),
    "A" ++ showTexts u.pathParts,
    "Q" ++ showQuery u.query,
    "G" ++ showText u.fragment,
    "M" ++ showRes (toText env false u),
    "X" ++ (match fullText env u with | some r => showRes r | none => "?idna")]

def descrOfText (env : Env) (t : Option (Except Err Text)) : String :=
  match t with
  | some (.ok t) =>
    match URL.ofText env t with
    | .ok u => descr env u
    | .error e => "!" ++ errName e
  | _ => "-"

def chain (env : Env) (u : URL) : String :=
  descr env u ++ " | " ++ descrOfText env (fullText env u) ++ " | " ++ descrOfText env (some (toText env false u))

def comp? : String → Option Comp
  | "u" => some .userinfo
  | "p" => some .path
  | "q" => some .query
  | "f" => some .fragment
  | _ => none

def showItem (env : Env) : Item → String
  | .text t => "T" ++ showText t
  | .url u => "R" ++ showRes (toText env false u)

def pairs? : List String → Option (List (Text × Text))
  | [] => some []
  | [_] => none
  | a :: b :: rest =>
    match text? a, text? b, pairs? rest with
    | some a, some b, some l => some ((a, b) :: l)
    | _, _, _ => none

/-- a URL built from components: the chain of its renderings and re-parses -/
def handleB : List String → String
  | [tbl, ns, v6, scheme, user, pw, host, port, parts, query, frag] =>
    match nfcTable? tbl, text? scheme, text? user, text? pw, text? host, texts? parts, query? query, text? frag with
    | some tbl, some scheme, some user, some pw, some host, some parts, some query, some frag =>
      match (if port = "-" then some none else port.toInt?.map some) with
      | some port =>
        chain (mkEnv tbl)
          { scheme := scheme, netlocSep := ns = "1", username := user, password := pw,
            family := if v6 = "1" then .inet6 else if v6 = "4" then .inet else .none, host := host, port := port,
            pathParts := if parts.isEmpty then [[]] else parts, query := query, fragment := frag }
      | none => "bad-op"
    | _, _, _, _, _, _, _, _ => "bad-op"
  | _ => "bad-op"

/-- split a word list at every occurrence of the separator word -/
def splitAt (ws : List String) (sep : String) : List (List String) :=
  ws.foldr (fun w acc =>
    match acc with
    | cur :: rest => if w = sep then [] :: cur :: rest else (w :: cur) :: rest
    | [] => [[w]]) [[]]

def handle (line : String) : String :=
  match words line with
  | ["Q", c, tbl, t] =>
    match comp? c, nfcTable? tbl, text? t with
    | some c, some tbl, some t =>
      showText (quotePart c (mkEnv tbl).nfc true t) ++ " " ++ showText (quotePart c (mkEnv tbl).nfc false t)
    | _, _, _ => "bad-op"
  | ["U", t] =>
    match text? t with
    | some t => showText (unquote t)
    | none => "bad-op"
  | ["P", tbl, t] =>
    match nfcTable? tbl, text? t with
    | some tbl, some t =>
      match URL.ofText (mkEnv tbl) t with
      | .ok u => chain (mkEnv tbl) u
      | .error e => "!" ++ errName e
    | _, _ => "bad-op"
  | "B" :: args => handleB args
  | "S" :: args =>
    let outs := (splitAt args ";").map handleB
    if outs.contains "bad-op" then "bad-op" else " || ".intercalate outs
  | "L" :: tbl :: wt :: ds :: schemes :: tail :: ms =>
    match nfcTable? tbl, text? ds, texts? schemes, text? tail, pairs? ms with
    | some tbl, some ds, some schemes, some tail, some ms =>
      let env := mkEnv tbl
      match findAllLinks env ⟨wt = "1", ds, schemes⟩ ms tail with
      | .ok items => if items.isEmpty then "~" else " ".intercalate (items.map (showItem env))
      | .error e => "!" ++ errName e
    | _, _, _, _, _ => "bad-op"
  | _ => "bad-op"

end C06.Driver
