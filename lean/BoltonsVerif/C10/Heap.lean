import BoltonsVerif.C10.Backends
/-
C10 — helper lemmas, part 5: `heapq` (the model's `heappush` / `heappop` with their sift loops)
satisfies the min-queue laws, so HeapPriorityQueue needs no trusted stand-in.

The model (`Model.lean`) runs the loops as `heapq.py` writes them (travelling item in a local,
parents / children copied into the hole).  Here they are first shown equal to a formulation that
swaps at every step (`siftDownLoop_eq`, `siftLeafLoop_eq`, `heappush_eq`, `heappop_eq`); the
invariants below are stated on the swapping formulation.

`HeapInv h`  : every item is not smaller than its parent (`h[(j-1)/2] ≤ h[j]`).
`AlmostUp h pos`   : the heap invariant except possibly between `pos` and its parent, and the parent
                     of `pos` is `≤` the children of `pos`  (invariant of `_siftdown`'s loop).
`AlmostDown h pos` : the heap invariant except between `pos` and its parent and between `pos` and
                     its children; the parent of `pos` is `≤` the children of `pos`
                     (invariant of `_siftup`'s first loop).
-/
namespace C10

section Heap
variable {α : Type}

/-! ### the swapping formulation of the sift loops (proof device; the model runs the loops as written) -/

/-- exchange positions `i` and `j` (both in range) -/
def swapL (l : List α) (i j : Nat) : List α :=
  match l[i]?, l[j]? with
  | some a, some b => (l.set i b).set j a
  | _, _ => l

/-- `_siftdown(heap, 0, pos)`: while the item at `pos` is smaller than its parent, move it up -/
def siftDown (lt : α → α → Bool) : Nat → List α → Nat → List α
  | 0, h, _ => h
  | fuel + 1, h, pos =>
    if pos = 0 then h else
    match h[pos]?, h[(pos - 1) / 2]? with
    | some x, some p => if lt x p then siftDown lt fuel (swapL h pos ((pos - 1) / 2)) ((pos - 1) / 2) else h
    | _, _ => h

/-- first loop of `_siftup`: move the item at `pos` down to a leaf, always towards the smaller child -/
def siftLeaf (lt : α → α → Bool) : Nat → List α → Nat → List α × Nat
  | 0, h, pos => (h, pos)
  | fuel + 1, h, pos =>
    if 2 * pos + 1 < h.length then
      siftLeaf lt fuel (swapL h pos (smallerChild lt h pos)) (smallerChild lt h pos)
    else (h, pos)

def siftUp (lt : α → α → Bool) (h : List α) : List α :=
  siftDown lt ((siftLeaf lt h.length h 0).2 + 1) (siftLeaf lt h.length h 0).1 (siftLeaf lt h.length h 0).2

def heappushS (lt : α → α → Bool) (x : α) (h : List α) : List α :=
  siftDown lt (h.length + 1) (h ++ [x]) h.length

def heappopS (lt : α → α → Bool) (h : List α) : Option (α × List α) :=
  match h.getLast? with
  | none => none
  | some last =>
    match h.dropLast with
    | [] => some (last, [])
    | first :: rest => some (first, siftUp lt (last :: rest))

theorem swapL_length (l : List α) (i j : Nat) : (swapL l i j).length = l.length := by
  unfold swapL
  split <;> simp

theorem swapL_perm (l : List α) (i j : Nat) : (swapL l i j).Perm l := by
  unfold swapL
  split
  · rename_i a b ha hb
    obtain ⟨hi, rfl⟩ := List.getElem?_eq_some_iff.mp ha
    obtain ⟨hj, rfl⟩ := List.getElem?_eq_some_iff.mp hb
    exact List.set_set_perm hi hj
  · exact List.Perm.refl _

theorem swapL_get (l : List α) (i j k : Nat) (hi : i < l.length) (hj : j < l.length) :
    (swapL l i j)[k]? = if k = j then l[i]? else if k = i then l[j]? else l[k]? := by
  unfold swapL
  rw [List.getElem?_eq_getElem hi, List.getElem?_eq_getElem hj]
  simp only [List.getElem?_set, List.length_set]
  by_cases hkj : k = j
  · subst hkj
    simp [hj]
  · by_cases hki : k = i
    · subst hki
      have : ¬ j = k := fun h => hkj h.symm
      simp [this, hi, hkj]
    · have h1 : ¬ j = k := fun h => hkj h.symm
      have h2 : ¬ i = k := fun h => hki h.symm
      simp [h1, h2, hkj, hki]

/-- `h[i] ≤ h[j]` (vacuous when a position is out of range) -/
def LeAt (lt : α → α → Bool) (h : List α) (i j : Nat) : Prop :=
  ∀ a b, h[i]? = some a → h[j]? = some b → lt b a = false

def HeapInv (lt : α → α → Bool) (h : List α) : Prop := ∀ j, 0 < j → LeAt lt h ((j - 1) / 2) j

def AlmostUp (lt : α → α → Bool) (h : List α) (pos : Nat) : Prop :=
  (∀ j, 0 < j → j ≠ pos → LeAt lt h ((j - 1) / 2) j) ∧
  (0 < pos → ∀ c, 0 < c → (c - 1) / 2 = pos → LeAt lt h ((pos - 1) / 2) c)

def AlmostDown (lt : α → α → Bool) (h : List α) (pos : Nat) : Prop :=
  (∀ j, 0 < j → j ≠ pos → (j - 1) / 2 ≠ pos → LeAt lt h ((j - 1) / 2) j) ∧
  (0 < pos → ∀ c, 0 < c → (c - 1) / 2 = pos → LeAt lt h ((pos - 1) / 2) c)

/-- what the proofs need from the comparison: `¬ (b < a)` is a total preorder `a ≤ b` -/
structure HeapOrder (lt : α → α → Bool) : Prop where
  asymm : ∀ a b, lt a b = true → lt b a = false
  trans : ∀ a b c, lt b a = false → lt c b = false → lt c a = false

variable {lt : α → α → Bool}

theorem LeAt.trans_of (ho : HeapOrder lt) {h : List α} {i j k : Nat} (hj : j < h.length)
    (h1 : LeAt lt h i j) (h2 : LeAt lt h j k) : LeAt lt h i k := by
  intro a c ha hc
  exact ho.trans a h[j] c (h1 a h[j] ha (List.getElem?_eq_getElem hj)) (h2 h[j] c (List.getElem?_eq_getElem hj) hc)

/-- one round of `_siftdown`'s loop keeps its invariant -/
theorem almostUp_step (ho : HeapOrder lt) (h : List α) (pos : Nat) (x p : α) (hpos : 0 < pos)
    (hx : h[pos]? = some x) (hp : h[(pos - 1) / 2]? = some p) (hlt : lt x p = true)
    (hI : AlmostUp lt h pos) : AlmostUp lt (swapL h pos ((pos - 1) / 2)) ((pos - 1) / 2) := by
  obtain ⟨hposlt, _⟩ := List.getElem?_eq_some_iff.mp hx
  have hq : (pos - 1) / 2 < pos := by omega
  have hqlt : (pos - 1) / 2 < h.length := by omega
  have hget := fun k => swapL_get h pos ((pos - 1) / 2) k hposlt hqlt
  -- facts about the old list
  have hxp : lt p x = false := ho.asymm x p hlt
  constructor
  · intro j hj0 hjq a b ha hb
    rw [hget] at ha hb
    by_cases hjpos : j = pos
    · -- the pair (new parent x, old parent p now at pos)
      subst hjpos
      have h1 : ¬ j = (j - 1) / 2 := by omega
      simp only [h1, ↓reduceIte, hp] at hb
      simp only [↓reduceIte, hx] at ha
      cases ha; cases hb
      exact hxp
    · simp only [hjq, ↓reduceIte, hjpos] at hb
      by_cases hpj : (j - 1) / 2 = pos
      · -- j is a child of pos: its new parent is p
        rw [hpj] at ha
        have h1 : ¬ pos = (pos - 1) / 2 := by omega
        simp only [h1, ↓reduceIte, hp] at ha
        cases ha
        exact hI.2 hpos j hj0 hpj p b hp hb
      · by_cases hpq : (j - 1) / 2 = (pos - 1) / 2
        · -- j is the sibling of pos: its new parent is x
          simp only [hpq, ↓reduceIte, hx] at ha
          have hax : x = a := Option.some.inj ha
          subst hax
          have h1 : lt b p = false := hI.1 j hj0 hjpos p b (by rw [hpq]; exact hp) hb
          exact ho.trans x p b hxp h1
        · simp only [hpq, ↓reduceIte, hpj] at ha
          exact hI.1 j hj0 hjpos a b ha hb
  · intro hq0 c hc0 hcq a b ha hb
    rw [hget] at ha hb
    have hgq : ((pos - 1) / 2 - 1) / 2 < (pos - 1) / 2 := by omega
    have h1 : ¬ ((pos - 1) / 2 - 1) / 2 = (pos - 1) / 2 := by omega
    have h2 : ¬ ((pos - 1) / 2 - 1) / 2 = pos := by omega
    simp only [h1, ↓reduceIte, h2] at ha
    have hc1 : ¬ c = (pos - 1) / 2 := by omega
    simp only [hc1, ↓reduceIte] at hb
    -- h[gq] ≤ p
    have hgp : lt p a = false := hI.1 ((pos - 1) / 2) hq0 (by omega) a p ha hp
    by_cases hcpos : c = pos
    · simp only [hcpos, ↓reduceIte, hp] at hb
      cases hb
      exact hgp
    · simp only [hcpos, ↓reduceIte] at hb
      have hpb : lt b p = false := hI.1 c hc0 hcpos p b (by rw [hcq]; exact hp) hb
      exact ho.trans a p b hgp hpb

theorem almostUp_done (h : List α) (pos : Nat) (hI : AlmostUp lt h pos)
    (hle : pos = 0 ∨ LeAt lt h ((pos - 1) / 2) pos) : HeapInv lt h := by
  intro j hj0
  by_cases hj : j = pos
  · subst hj
    rcases hle with h0 | hle
    · omega
    · exact hle
  · exact hI.1 j hj0 hj

/-- `_siftdown` turns an almost-heap into a heap (and the fuel `pos + 1` suffices) -/
theorem siftDown_heap (ho : HeapOrder lt) (fuel : Nat) (h : List α) (pos : Nat) (hf : pos < fuel)
    (hI : AlmostUp lt h pos) : HeapInv lt (siftDown lt fuel h pos) := by
  induction fuel generalizing h pos with
  | zero => omega
  | succ n ih =>
    unfold siftDown
    by_cases hpos : pos = 0
    · simp only [hpos, ↓reduceIte]
      exact almostUp_done h pos hI (Or.inl hpos)
    · simp only [hpos, ↓reduceIte]
      cases hx : h[pos]? with
      | none =>
        simp only
        refine almostUp_done h pos hI (Or.inr ?_)
        intro a b _ hb; rw [hx] at hb; cases hb
      | some x =>
        cases hp : h[(pos - 1) / 2]? with
        | none =>
          simp only
          refine almostUp_done h pos hI (Or.inr ?_)
          intro a b ha _; rw [hp] at ha; cases ha
        | some p =>
          simp only
          by_cases hlt : lt x p = true
          · simp only [hlt, ↓reduceIte]
            apply ih
            · omega
            · exact almostUp_step ho h pos x p (by omega) hx hp hlt hI
          · simp only [hlt, Bool.false_eq_true, ↓reduceIte]
            refine almostUp_done h pos hI (Or.inr ?_)
            intro a b ha hb
            rw [hp] at ha; rw [hx] at hb
            cases ha; cases hb
            simpa using hlt

theorem siftDown_perm (fuel : Nat) (h : List α) (pos : Nat) : (siftDown lt fuel h pos).Perm h := by
  induction fuel generalizing h pos with
  | zero => exact List.Perm.refl _
  | succ n ih =>
    unfold siftDown
    split
    · exact List.Perm.refl _
    · split
      · split
        · exact (ih _ _).trans (swapL_perm _ _ _)
        · exact List.Perm.refl _
      · exact List.Perm.refl _

/-! #### `_siftup` -/

theorem smallerChild_spec (ho : HeapOrder lt) (h : List α) (pos : Nat) (hl : 2 * pos + 1 < h.length) :
    (smallerChild lt h pos = 2 * pos + 1 ∨ smallerChild lt h pos = 2 * pos + 2) ∧
    smallerChild lt h pos < h.length ∧
    (∀ c, 0 < c → (c - 1) / 2 = pos → LeAt lt h (smallerChild lt h pos) c) := by
  unfold smallerChild
  rw [List.getElem?_eq_getElem hl]
  have hchild : ∀ c, 0 < c → (c - 1) / 2 = pos → c = 2 * pos + 1 ∨ c = 2 * pos + 2 := by
    intro c hc hcp; omega
  have hrefl : ∀ a : α, lt a a = false := by
    intro a
    cases hh : lt a a with
    | false => rfl
    | true => have := ho.asymm a a hh; rw [hh] at this; cases this
  cases hr : h[2 * pos + 2]? with
  | none =>
    simp only
    refine ⟨by simp, hl, ?_⟩
    intro c hc hcp a b ha hb
    rcases hchild c hc hcp with rfl | rfl
    · rw [ha] at hb; cases hb; exact hrefl a
    · rw [hr] at hb; cases hb
  | some r =>
    simp only
    obtain ⟨hrlt, hreq⟩ := List.getElem?_eq_some_iff.mp hr
    by_cases hlr : lt h[2 * pos + 1] r = true
    · simp only [hlr, ↓reduceIte]
      refine ⟨by simp, hl, ?_⟩
      intro c hc hcp a b ha hb
      rw [List.getElem?_eq_getElem hl] at ha
      cases ha
      rcases hchild c hc hcp with rfl | rfl
      · rw [List.getElem?_eq_getElem hl] at hb; cases hb; exact hrefl _
      · rw [hr] at hb; cases hb; exact ho.asymm _ _ hlr
    · simp only [hlr, Bool.false_eq_true, ↓reduceIte]
      refine ⟨by simp, hrlt, ?_⟩
      intro c hc hcp a b ha hb
      rw [hr] at ha
      cases ha
      rcases hchild c hc hcp with rfl | rfl
      · rw [List.getElem?_eq_getElem hl] at hb; cases hb; simpa using hlr
      · rw [hr] at hb; cases hb; exact hrefl _

/-- one round of `_siftup`'s first loop keeps its invariant -/
theorem almostDown_step (h : List α) (pos c : Nat) (hposlt : pos < h.length) (hclt : c < h.length)
    (hc0 : 0 < c) (hcp : (c - 1) / 2 = pos)
    (hmin : ∀ d, 0 < d → (d - 1) / 2 = pos → LeAt lt h c d)
    (hI : AlmostDown lt h pos) : AlmostDown lt (swapL h pos c) c := by
  have hget := fun k => swapL_get h pos c k hposlt hclt
  have hpc : pos < c := by omega
  constructor
  · intro j hj0 hjc hpjc a b ha hb
    rw [hget] at ha hb
    simp only [hjc, ↓reduceIte, hpjc] at ha hb
    by_cases hjpos : j = pos
    · -- the pair (parent of pos, pos): pos now holds the old h[c]
      subst hjpos
      simp only [↓reduceIte] at hb
      have h1 : ¬ (j - 1) / 2 = j := by omega
      simp only [h1, ↓reduceIte] at ha
      exact hI.2 hj0 c hc0 hcp a b ha hb
    · simp only [hjpos, ↓reduceIte] at hb
      by_cases hpj : (j - 1) / 2 = pos
      · -- the other child of pos
        simp only [hpj, ↓reduceIte] at ha
        exact hmin j hj0 hpj a b ha hb
      · simp only [hpj, ↓reduceIte] at ha
        exact hI.1 j hj0 hjpos hpj a b ha hb
  · intro _ d hd0 hdc a b ha hb
    rw [hget] at ha hb
    have h1 : ¬ (c - 1) / 2 = c := by omega
    have h2 : ¬ d = c := by omega
    have h3 : ¬ d = pos := by omega
    rw [hcp] at h1 ha
    simp only [h1, ↓reduceIte] at ha
    simp only [h2, ↓reduceIte, h3] at hb
    exact hI.1 d hd0 h3 (by omega) a b (by rw [hdc]; exact ha) hb

/-- the first loop of `_siftup` ends on a leaf (the fuel `len(heap)` suffices), keeps the length
    and the contents, and leaves an `AlmostUp` state for the final `_siftdown` -/
theorem siftLeaf_spec (ho : HeapOrder lt) (fuel : Nat) (h : List α) (pos : Nat) (hposlt : pos < h.length)
    (hf : h.length - pos ≤ fuel) (hI : AlmostDown lt h pos) :
    AlmostUp lt (siftLeaf lt fuel h pos).1 (siftLeaf lt fuel h pos).2 ∧
    (siftLeaf lt fuel h pos).1.Perm h ∧ (siftLeaf lt fuel h pos).2 < h.length := by
  induction fuel generalizing h pos with
  | zero => omega
  | succ n ih =>
    unfold siftLeaf
    by_cases hl : 2 * pos + 1 < h.length
    · simp only [hl, ↓reduceIte]
      obtain ⟨hc12, hclt, hmin⟩ := smallerChild_spec ho h pos hl
      generalize smallerChild lt h pos = c at hc12 hclt hmin
      have hc0 : 0 < c := by omega
      have hcp : (c - 1) / 2 = pos := by omega
      have hstep := almostDown_step h pos c hposlt hclt hc0 hcp hmin hI
      have hlen := swapL_length h pos c
      obtain ⟨i1, i2, i3⟩ := ih (swapL h pos c) c (by rw [hlen]; exact hclt) (by rw [hlen]; omega) hstep
      exact ⟨i1, i2.trans (swapL_perm _ _ _), by rw [hlen] at i3; exact i3⟩
    · simp only [hl, ↓reduceIte]
      refine ⟨⟨?_, hI.2⟩, List.Perm.refl _, hposlt⟩
      intro j hj0 hjpos
      by_cases hpj : (j - 1) / 2 = pos
      · intro a b _ hb
        have : h.length ≤ j := by omega
        rw [List.getElem?_eq_none this] at hb
        cases hb
      · exact hI.1 j hj0 hjpos hpj

/-- replacing the root of a heap leaves an `AlmostDown` state at the root -/
theorem almostDown_root (h : List α) (x : α) (hI : HeapInv lt h) : AlmostDown lt (h.set 0 x) 0 := by
  constructor
  · intro j hj0 _ hpj a b ha hb
    rw [List.getElem?_set_ne (by omega)] at ha hb
    exact hI j hj0 a b ha hb
  · intro h0; omega

theorem siftUp_spec (ho : HeapOrder lt) (h : List α) (hne : h ≠ []) (hI : AlmostDown lt h 0) :
    HeapInv lt (siftUp lt h) ∧ (siftUp lt h).Perm h := by
  have hpos : 0 < h.length := List.length_pos_iff.mpr hne
  obtain ⟨h1, h2, _⟩ := siftLeaf_spec ho h.length h 0 hpos (by omega) hI
  unfold siftUp
  exact ⟨siftDown_heap ho _ _ _ (by omega) h1, (siftDown_perm _ _ _).trans h2⟩

/-! #### `heappush` / `heappop` -/

theorem heappushS_spec (ho : HeapOrder lt) (x : α) (h : List α) (hI : HeapInv lt h) :
    HeapInv lt (heappushS lt x h) ∧ (heappushS lt x h).Perm (x :: h) := by
  unfold heappushS
  refine ⟨siftDown_heap ho _ _ _ (by omega) ⟨?_, ?_⟩, (siftDown_perm _ _ _).trans ?_⟩
  · intro j hj0 hjn a b ha hb
    have hjlt : j < h.length := by
      have := (List.getElem?_eq_some_iff.mp hb).1
      simp at this
      omega
    rw [List.getElem?_append_left (by omega)] at ha
    rw [List.getElem?_append_left hjlt] at hb
    exact hI j hj0 a b ha hb
  · intro _ c hc0 hcp a b _ hb
    have := (List.getElem?_eq_some_iff.mp hb).1
    simp at this
    omega
  · exact List.perm_append_singleton x h |>.trans (List.Perm.refl _)

theorem heapInv_nil : HeapInv lt ([] : List α) := by
  intro j _ a b ha _
  simp at ha

/-- the root of a heap is a least item -/
theorem heap_root_min (ho : HeapOrder lt) (h : List α) (hI : HeapInv lt h) (r : α) (hr : h[0]? = some r) :
    ∀ x ∈ h, lt x r = false := by
  have hrefl : lt r r = false := by
    cases hh : lt r r with
    | false => rfl
    | true => have := ho.asymm r r hh; rw [hh] at this; cases this
  have key : ∀ (n j : Nat), j ≤ n → ∀ x, h[j]? = some x → lt x r = false := by
    intro n
    induction n with
    | zero =>
      intro j hj x hx
      have : j = 0 := by omega
      subst this
      rw [hr] at hx; cases hx; exact hrefl
    | succ n ih =>
      intro j hj x hx
      by_cases hj0 : j = 0
      · subst hj0; rw [hr] at hx; cases hx; exact hrefl
      · have hjlt := (List.getElem?_eq_some_iff.mp hx).1
        have hplt : (j - 1) / 2 < h.length := by omega
        have h1 := ih ((j - 1) / 2) (by omega) h[(j - 1) / 2] (List.getElem?_eq_getElem hplt)
        have h2 := hI j (by omega) h[(j - 1) / 2] x (List.getElem?_eq_getElem hplt) hx
        exact ho.trans r _ x h1 h2
  intro x hx
  obtain ⟨j, hjlt, hjx⟩ := List.getElem_of_mem hx
  exact key j j (Nat.le_refl _) x (by rw [List.getElem?_eq_getElem hjlt, hjx])

theorem heapInv_prefix (h t : List α) (hI : HeapInv lt (h ++ t)) : HeapInv lt h := by
  intro j hj0 a b ha hb
  have hjlt := (List.getElem?_eq_some_iff.mp hb).1
  have hplt := (List.getElem?_eq_some_iff.mp ha).1
  exact hI j hj0 a b (by rw [List.getElem?_append_left hplt]; exact ha)
    (by rw [List.getElem?_append_left hjlt]; exact hb)

theorem heappopS_spec [DecidableEq α] (ho : HeapOrder lt) (h : List α) (hI : HeapInv lt h) (hne : h ≠ []) :
    ∃ e h', heappopS lt h = some (e, h') ∧ h[0]? = some e ∧ HeapInv lt h' ∧ h'.Perm (h.erase e) := by
  unfold heappopS
  obtain ⟨init, last, rfl⟩ : ∃ init last, h = init ++ [last] :=
    ⟨h.dropLast, h.getLast hne, (List.dropLast_concat_getLast hne).symm⟩
  simp only [List.getLast?_append, List.getLast?_singleton, Option.some_or, List.dropLast_concat]
  cases init with
  | nil =>
    refine ⟨last, [], rfl, by simp, heapInv_nil, ?_⟩
    simp
  | cons first rest =>
    have hIp : HeapInv lt (first :: rest) := heapInv_prefix _ _ hI
    have hroot : AlmostDown lt (last :: rest) 0 := by
      have := almostDown_root (first :: rest) last hIp
      simpa using this
    obtain ⟨s1, s2⟩ := siftUp_spec ho (last :: rest) (by simp) hroot
    refine ⟨first, siftUp lt (last :: rest), rfl, by simp, s1, s2.trans ?_⟩
    simp only [List.cons_append, List.erase_cons_head]
    exact (List.perm_append_singleton last rest).symm

/-! #### the loops as written compute the same lists as the swapping formulation -/

theorem siftDownLoop_eq (fuel : Nat) (h : List α) (x : α) (pos : Nat) (hpos : pos < h.length) :
    siftDownLoop lt fuel h x pos = siftDown lt fuel (h.set pos x) pos := by
  induction fuel generalizing h pos with
  | zero => rfl
  | succ n ih =>
    unfold siftDownLoop siftDown
    by_cases h0 : pos = 0
    · simp [h0]
    · simp only [h0, ↓reduceIte]
      have hq : (pos - 1) / 2 < pos := by omega
      have hqlt : (pos - 1) / 2 < h.length := by omega
      have hx : (h.set pos x)[pos]? = some x := by simp [hpos]
      have hp : (h.set pos x)[(pos - 1) / 2]? = h[(pos - 1) / 2]? := by
        rw [List.getElem?_set_ne (by omega)]
      rw [hx, hp, List.getElem?_eq_getElem hqlt]
      simp only
      by_cases hlt : lt x h[(pos - 1) / 2] = true
      · simp only [hlt, ↓reduceIte]
        rw [ih (h.set pos h[(pos - 1) / 2]) ((pos - 1) / 2) (by simp; omega)]
        congr 1
        unfold swapL
        rw [hx, hp, List.getElem?_eq_getElem hqlt]
        simp
      · simp [hlt]

theorem smallerChild_set (h : List α) (pos : Nat) (x : α) :
    smallerChild lt (h.set pos x) pos = smallerChild lt h pos := by
  unfold smallerChild
  rw [List.getElem?_set_ne (by omega), List.getElem?_set_ne (by omega)]

theorem siftLeafLoop_eq (fuel : Nat) (h : List α) (x : α) (pos : Nat) (hpos : pos < h.length) :
    ((siftLeafLoop lt fuel h pos).1.set (siftLeafLoop lt fuel h pos).2 x, (siftLeafLoop lt fuel h pos).2)
      = siftLeaf lt fuel (h.set pos x) pos ∧ (siftLeafLoop lt fuel h pos).2 < h.length ∧
    (siftLeafLoop lt fuel h pos).1.length = h.length := by
  induction fuel generalizing h pos with
  | zero => exact ⟨rfl, hpos, rfl⟩
  | succ n ih =>
    unfold siftLeafLoop siftLeaf
    simp only [List.length_set]
    by_cases hl : 2 * pos + 1 < h.length
    · simp only [hl, ↓reduceIte, smallerChild_set]
      have hc : smallerChild lt h pos = 2 * pos + 1 ∨ smallerChild lt h pos = 2 * pos + 2 := by
        unfold smallerChild
        split
        · split <;> simp
        · simp
      have hclt : smallerChild lt h pos < h.length := by
        rcases hc with hc | hc
        · omega
        · unfold smallerChild at hc ⊢
          split at hc
          · rename_i l r hl' hr'
            have := (List.getElem?_eq_some_iff.mp hr').1
            split <;> omega
          · omega
      generalize smallerChild lt h pos = c at hc hclt
      rw [List.getElem?_eq_getElem hclt]
      simp only
      obtain ⟨i1, i2, i3⟩ := ih (h.set pos h[c]) c (by simp; exact hclt)
      have hsw : swapL (h.set pos x) pos c = (h.set pos h[c]).set c x := by
        unfold swapL
        have h1 : (h.set pos x)[pos]? = some x := by simp [hpos]
        have h2 : (h.set pos x)[c]? = some h[c] := by
          rw [List.getElem?_set_ne (by omega), List.getElem?_eq_getElem hclt]
        rw [h1, h2]
        simp
      rw [hsw]
      refine ⟨i1, ?_, ?_⟩
      · simpa using i2
      · simpa using i3
    · simp only [hl, ↓reduceIte]
      exact ⟨trivial, hpos, trivial⟩

theorem pySiftUp_eq (h : List α) (hne : h ≠ []) : pySiftUp lt h = siftUp lt h := by
  have hpos : 0 < h.length := List.length_pos_iff.mpr hne
  unfold pySiftUp siftUp
  rw [List.getElem?_eq_getElem hpos]
  simp only
  obtain ⟨e1, e2, e3⟩ := siftLeafLoop_eq (lt := lt) h.length h h[0] 0 hpos
  rw [List.set_getElem_self] at e1
  rw [siftDownLoop_eq _ _ _ _ (by rw [e3]; exact e2)]
  rw [← e1]

theorem heappush_eq (x : α) (h : List α) : heappush lt x h = heappushS lt x h := by
  unfold heappush heappushS
  rw [siftDownLoop_eq _ _ _ _ (by simp)]
  congr 1
  simp

theorem heappop_eq (h : List α) : heappop lt h = heappopS lt h := by
  unfold heappop heappopS
  cases h.getLast? with
  | none => rfl
  | some last =>
    simp only
    cases h.dropLast with
    | nil => rfl
    | cons first rest => simp only; rw [pySiftUp_eq _ (by simp)]

theorem heappush_spec (ho : HeapOrder lt) (x : α) (h : List α) (hI : HeapInv lt h) :
    HeapInv lt (heappush lt x h) ∧ (heappush lt x h).Perm (x :: h) := by
  rw [heappush_eq]; exact heappushS_spec ho x h hI

theorem heappop_spec [DecidableEq α] (ho : HeapOrder lt) (h : List α) (hI : HeapInv lt h) (hne : h ≠ []) :
    ∃ e h', heappop lt h = some (e, h') ∧ h[0]? = some e ∧ HeapInv lt h' ∧ h'.Perm (h.erase e) := by
  rw [heappop_eq]; exact heappopS_spec ho h hI hne

end Heap

/-! ### HeapPriorityQueue's backend -/
section Backend
variable {T : Type} [DecidableEq T]

theorem Entry.heapOrder : HeapOrder (Entry.lt (T := T)) where
  asymm := Entry.lt_asymm
  trans := fun a b c h1 h2 => Entry.bisectOrder.ge_of_ge_of_ge c b a h2 h1

theorem heapInv_map_mark (c : Nat) (h : List (Entry T)) (hI : HeapInv Entry.lt h) :
    HeapInv Entry.lt (h.map (markEntry c)) := by
  intro j hj0 a b ha hb
  rw [List.getElem?_map] at ha hb
  cases h1 : h[(j - 1) / 2]? with
  | none => rw [h1] at ha; cases ha
  | some a' =>
    cases h2 : h[j]? with
    | none => rw [h2] at hb; cases hb
    | some b' =>
      rw [h1] at ha; rw [h2] at hb
      cases ha; cases hb
      rw [markEntry_lt]
      exact hI j hj0 a' b' h1 h2

/-- `heapq` on a list satisfies the min-queue laws (wf = the heap invariant, content = the list) -/
theorem binHeap_lawful : Lawful (binHeap (T := T)) (HeapInv Entry.lt) id where
  wf_empty := heapInv_nil
  content_empty := rfl
  size_eq := fun _ _ => rfl
  front_min := by
    intro b hwf hne
    show ∃ e, b[0]? = some e ∧ _
    cases b with
    | nil => exact absurd rfl hne
    | cons r rest =>
      exact ⟨r, rfl, by simp, heap_root_min Entry.heapOrder _ hwf r rfl⟩
  pop_front := by
    intro b hwf hne
    obtain ⟨e, h', h1, h2, h3, h4⟩ := heappop_spec Entry.heapOrder b hwf hne
    exact ⟨e, h', h1, h2, h3, h4⟩
  push := fun e b hwf => heappush_spec Entry.heapOrder e b hwf
  mark := fun c b hwf => ⟨heapInv_map_mark c b hwf, List.Perm.refl _⟩

end Backend

end C10
