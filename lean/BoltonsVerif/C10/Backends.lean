import BoltonsVerif.C10.Proofs
import BoltonsVerif.C10.Queue
/-
C10 — helper lemmas, part 3: the two concrete backends satisfy the min-queue laws.
  * `sortedBackend limit` (BarrelList + insort + pop(0)), for EVERY size-limit function;
  * `listHeap` (the driver's stand-in for heapq).
-/
namespace C10
variable {T : Type} [DecidableEq T]

theorem Entry.lt_irrefl (a : Entry T) : a.lt a = false := by
  simp [Entry.lt]

theorem Entry.lt_asymm (a b : Entry T) (h : a.lt b = true) : b.lt a = false := by
  unfold Entry.lt at *
  simp only [Bool.or_eq_true, Bool.and_eq_true, decide_eq_true_eq, Bool.or_eq_false_iff,
    Bool.and_eq_false_iff, decide_eq_false_iff_not] at *
  omega

theorem Entry.bisectOrder : BisectOrder (Entry.lt (T := T)) where
  lt_of_lt_of_ge := by
    intro x m j h1 h2
    unfold Entry.lt at *
    simp only [Bool.or_eq_true, Bool.and_eq_true, decide_eq_true_eq, Bool.or_eq_false_iff,
      Bool.and_eq_false_iff, decide_eq_false_iff_not] at *
    omega
  ge_of_ge_of_ge := by
    intro x m j h1 h2
    unfold Entry.lt at *
    simp only [Bool.or_eq_true, Bool.and_eq_true, decide_eq_true_eq, Bool.or_eq_false_iff,
      Bool.and_eq_false_iff, decide_eq_false_iff_not] at *
    omega

theorem markEntry_lt (c : Nat) (a b : Entry T) : (markEntry c a).lt (markEntry c b) = a.lt b := by
  unfold markEntry Entry.lt
  split <;> split <;> rfl

/-! ### SortedPriorityQueue's backend -/

/-- representation invariant of the sorted backend: ascending by `(priority, count)` -/
def sortedWf (b : BL (Entry T)) : Prop := b.ok ∧ Asc Entry.lt b.toList

theorem sorted_lawful (limit : Nat → Nat) :
    Lawful (sortedBackend (T := T) limit) sortedWf BL.toList where
  wf_empty := ⟨BL.empty_ok, by show Asc Entry.lt (BL.empty : BL (Entry T)).toList; rw [BL.empty_toList]; exact List.Pairwise.nil⟩
  content_empty := BL.empty_toList
  size_eq := fun b _ => BL.len_eq b
  front_min := by
    intro b hwf hne
    show ∃ e, b.get? 0 = some e ∧ _
    rw [BL.get?_eq b hwf.1]
    cases hl : b.toList with
    | nil => exact absurd hl hne
    | cons h tl =>
      refine ⟨h, by simp, by simp, ?_⟩
      intro x hx
      have hs := hwf.2
      rw [hl] at hs
      rcases List.mem_cons.mp hx with rfl | hx
      · exact Entry.lt_irrefl _
      · exact (List.pairwise_cons.mp hs).1 x hx
  pop_front := by
    intro b hwf hne
    show ∃ e b', b.pop? limit 0 = some (e, b') ∧ b.get? 0 = some e ∧ _
    cases hp : b.pop? limit 0 with
    | none =>
      have := (BL.pop?_none limit b hwf.1 0).mp hp
      have h0 : b.toList.length = 0 := by omega
      exact absurd (List.length_eq_zero_iff.mp h0) hne
    | some r =>
      obtain ⟨e, b'⟩ := r
      obtain ⟨h1, h2, h3⟩ := BL.pop?_some limit b hwf.1 0 e b' hp
      refine ⟨e, b', rfl, by rw [BL.get?_eq b hwf.1]; exact h1, ?_, ?_⟩
      · refine ⟨h3, ?_⟩
        rw [h2]
        exact List.Pairwise.sublist (List.eraseIdx_sublist _ _) hwf.2
      · rw [h2]
        cases hl : b.toList with
        | nil => exact absurd hl hne
        | cons h tl =>
          rw [hl] at h1
          simp at h1
          subst h1
          simp
  push := by
    intro e b hwf
    refine ⟨⟨insort_ok limit _ e b hwf.1, ?_⟩, ?_⟩
    · exact insort_asc limit _ Entry.bisectOrder Entry.lt_asymm e b hwf.1 hwf.2
    · show (insort limit Entry.lt e b).toList.Perm _
      rw [insort_toList limit _ e b hwf.1]
      exact pyInsert_perm _ _ _
  mark := by
    intro c b hwf
    have hflat : (⟨b.lists.map (fun l => l.map (markEntry c))⟩ : BL (Entry T)).toList
        = b.toList.map (markEntry c) := by
      simp [BL.toList, List.map_flatten]
    refine ⟨⟨?_, ?_⟩, ?_⟩
    · show b.lists.map _ ≠ []
      intro h
      exact hwf.1 (List.map_eq_nil_iff.mp h)
    · show Asc Entry.lt (BL.toList ⟨_⟩)
      rw [hflat]
      unfold Asc
      rw [List.pairwise_map]
      exact hwf.2.imp (fun {a b} h => by rw [markEntry_lt]; exact h)
    · show (BL.toList ⟨_⟩).Perm _
      rw [hflat]

/-! ### the executable stand-in for heapq -/

theorem minEntry_none (l : List (Entry T)) : minEntry l = none ↔ l = [] := by
  cases l with
  | nil => simp [minEntry]
  | cons e es =>
    unfold minEntry
    cases minEntry es with
    | none => simp
    | some m => by_cases h : m.lt e = true <;> simp [h]

theorem minEntry_spec (l : List (Entry T)) (m : Entry T) (h : minEntry l = some m) :
    m ∈ l ∧ ∀ x ∈ l, x.lt m = false := by
  induction l generalizing m with
  | nil => simp [minEntry] at h
  | cons e es ih =>
    unfold minEntry at h
    cases hm : minEntry es with
    | none =>
      simp only [hm, Option.some.injEq] at h
      subst h
      have : es = [] := (minEntry_none es).mp hm
      subst this
      simp [Entry.lt_irrefl]
    | some m' =>
      simp only [hm] at h
      obtain ⟨hin, hmin⟩ := ih m' hm
      by_cases hlt : m'.lt e = true
      · simp only [hlt, ↓reduceIte, Option.some.injEq] at h
        subst h
        refine ⟨List.mem_cons_of_mem _ hin, ?_⟩
        intro x hx
        rcases List.mem_cons.mp hx with rfl | hx
        · exact Entry.lt_asymm _ _ hlt
        · exact hmin x hx
      · simp only [hlt, Bool.false_eq_true, ↓reduceIte, Option.some.injEq] at h
        subst h
        refine ⟨by simp, ?_⟩
        intro x hx
        rcases List.mem_cons.mp hx with rfl | hx
        · exact Entry.lt_irrefl _
        · exact Entry.bisectOrder.ge_of_ge_of_ge x m' _ (hmin x hx) (by simpa using hlt)

theorem listHeap_lawful : Lawful (listHeap (T := T)) (fun _ => True) id where
  wf_empty := trivial
  content_empty := rfl
  size_eq := fun _ _ => rfl
  front_min := by
    intro b _ hne
    show ∃ e, minEntry b = some e ∧ _
    cases hm : minEntry b with
    | none => exact absurd ((minEntry_none b).mp hm) hne
    | some m => exact ⟨m, rfl, minEntry_spec b m hm⟩
  pop_front := by
    intro b _ hne
    show ∃ e b', (match minEntry b with | none => none | some m => some (m, b.erase m)) = some (e, b') ∧
      minEntry b = some e ∧ _
    cases hm : minEntry b with
    | none => exact absurd ((minEntry_none b).mp hm) hne
    | some m => exact ⟨m, b.erase m, rfl, rfl, trivial, List.Perm.refl _⟩
  push := fun e b _ => ⟨trivial, List.Perm.refl _⟩
  mark := fun c b _ => ⟨trivial, List.Perm.refl _⟩

end C10
