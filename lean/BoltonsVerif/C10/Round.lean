import BoltonsVerif.C10.Model
/-
C10 — CPython's `int -> float` conversion (`roundNat53`: 53 significant bits, round half to even) is
MONOTONE.  Hence the default key `float(priority or 0)` never inverts the order of two int priorities,
however large: beyond 2**53 distinct ints may become EQUAL floats (then first-in first-out decides), but a
larger int is never turned into a smaller float.
-/
namespace C10

/-- the shift `roundNat53` uses for `n ≥ 2^53` -/
def rshift (n : Nat) : Nat := n.log2 + 1 - 53

theorem roundNat53_small (n : Nat) (h : n < 2 ^ 53) : roundNat53 n = n := by
  unfold roundNat53; rw [if_pos h]

/-- for `n ≥ 2^53` the result is `c * 2^rshift n` with `c` the quotient or the quotient plus one -/
theorem roundNat53_big (n : Nat) (h : 2 ^ 53 ≤ n) :
    ∃ c, roundNat53 n = c * 2 ^ rshift n ∧ n / 2 ^ rshift n ≤ c ∧ c ≤ n / 2 ^ rshift n + 1 ∧
      (c = n / 2 ^ rshift n + 1 ↔
        (2 ^ (rshift n - 1) < n % 2 ^ rshift n ∨
          (n % 2 ^ rshift n = 2 ^ (rshift n - 1) ∧ (n / 2 ^ rshift n) % 2 = 1))) := by
  unfold roundNat53 rshift
  rw [if_neg (by omega)]
  by_cases hc : 2 ^ (n.log2 + 1 - 53 - 1) < n % 2 ^ (n.log2 + 1 - 53) ∨
        (n % 2 ^ (n.log2 + 1 - 53) = 2 ^ (n.log2 + 1 - 53 - 1) ∧ (n / 2 ^ (n.log2 + 1 - 53)) % 2 = 1)
  · rw [if_pos hc]
    exact ⟨_, rfl, by omega, by omega, ⟨fun _ => hc, fun _ => rfl⟩⟩
  · rw [if_neg hc]
    exact ⟨_, rfl, by omega, by omega, ⟨fun h => absurd h (by omega), fun h => absurd h hc⟩⟩

theorem log2_ge_53 (n : Nat) (h : 2 ^ 53 ≤ n) : 53 ≤ n.log2 :=
  (Nat.le_log2 (by omega)).mpr h

/-- `2^log2 n = 2^52 * 2^rshift n` -/
theorem pow_log2_split (n : Nat) (h : 2 ^ 53 ≤ n) : 2 ^ n.log2 = 2 ^ 52 * 2 ^ rshift n := by
  have hL := log2_ge_53 n h
  rw [← Nat.pow_add]
  congr 1
  unfold rshift; omega

theorem quot_bounds (n : Nat) (h : 2 ^ 53 ≤ n) :
    2 ^ 52 ≤ n / 2 ^ rshift n ∧ n / 2 ^ rshift n < 2 ^ 53 := by
  have hP : 0 < 2 ^ rshift n := Nat.pow_pos (by omega)
  have h1 : 2 ^ n.log2 ≤ n := Nat.log2_self_le (by omega)
  have h2 : n < 2 ^ (n.log2 + 1) := Nat.lt_log2_self
  rw [pow_log2_split n h] at h1
  rw [Nat.pow_succ, pow_log2_split n h] at h2
  constructor
  · exact (Nat.le_div_iff_mul_le hP).mpr h1
  · rw [Nat.div_lt_iff_lt_mul hP]
    calc n < 2 ^ 52 * 2 ^ rshift n * 2 := h2
      _ = 2 ^ 53 * 2 ^ rshift n := by
        rw [Nat.mul_right_comm]

/-- the rounded value stays inside the binade of `n` -/
theorem roundNat53_binade (n : Nat) (h : 2 ^ 53 ≤ n) :
    2 ^ n.log2 ≤ roundNat53 n ∧ roundNat53 n ≤ 2 ^ (n.log2 + 1) := by
  obtain ⟨c, hc, hlo, hhi, _⟩ := roundNat53_big n h
  obtain ⟨q1, q2⟩ := quot_bounds n h
  rw [hc, Nat.pow_succ, pow_log2_split n h]
  constructor
  · exact Nat.mul_le_mul_right _ (by omega)
  · calc c * 2 ^ rshift n ≤ 2 ^ 53 * 2 ^ rshift n := Nat.mul_le_mul_right _ (by omega)
      _ = 2 ^ 52 * 2 ^ rshift n * 2 := by
        rw [Nat.mul_right_comm]

theorem log2_mono (n m : Nat) (hn : n ≠ 0) (h : n ≤ m) : n.log2 ≤ m.log2 := by
  have : 2 ^ n.log2 ≤ m := Nat.le_trans (Nat.log2_self_le hn) h
  exact (Nat.le_log2 (by omega)).mpr this

/-- CPython's int -> double conversion is monotone on naturals -/
theorem roundNat53_mono (n m : Nat) (h : n ≤ m) : roundNat53 n ≤ roundNat53 m := by
  by_cases hn : n < 2 ^ 53
  · rw [roundNat53_small n hn]
    by_cases hm : m < 2 ^ 53
    · rw [roundNat53_small m hm]; exact h
    · have hm' : 2 ^ 53 ≤ m := by omega
      have hb := (roundNat53_binade m hm').1
      have : 2 ^ 53 ≤ 2 ^ m.log2 := Nat.pow_le_pow_right (by omega) (log2_ge_53 m hm')
      omega
  · have hn' : 2 ^ 53 ≤ n := by omega
    have hm' : 2 ^ 53 ≤ m := by omega
    have hL := log2_mono n m (by omega) h
    by_cases hlt : n.log2 < m.log2
    · have h1 := (roundNat53_binade n hn').2
      have h2 := (roundNat53_binade m hm').1
      have : 2 ^ (n.log2 + 1) ≤ 2 ^ m.log2 := Nat.pow_le_pow_right (by omega) (by omega)
      omega
    · have heq : n.log2 = m.log2 := by omega
      have hsh : rshift n = rshift m := by unfold rshift; rw [heq]
      obtain ⟨c, hc, hlo, hhi, hup⟩ := roundNat53_big n hn'
      obtain ⟨d, hd, hlo', hhi', hup'⟩ := roundNat53_big m hm'
      rw [hc, hd, hsh]
      apply Nat.mul_le_mul_right
      rw [hsh] at hlo hhi hup
      have hP : 0 < 2 ^ rshift m := Nat.pow_pos (by omega)
      have hq : n / 2 ^ rshift m ≤ m / 2 ^ rshift m := Nat.div_le_div_right h
      by_cases hqlt : n / 2 ^ rshift m < m / 2 ^ rshift m
      · omega
      · have hqe : n / 2 ^ rshift m = m / 2 ^ rshift m := by omega
        have e1 := Nat.div_add_mod n (2 ^ rshift m)
        have e2 := Nat.div_add_mod m (2 ^ rshift m)
        rw [hqe] at e1
        have hr : n % 2 ^ rshift m ≤ m % 2 ^ rshift m := by omega
        by_cases hcu : c = n / 2 ^ rshift m + 1
        · have := hup.mp hcu
          have hd' : d = m / 2 ^ rshift m + 1 := by
            apply hup'.mpr
            rw [hqe] at this
            rcases this with h1 | ⟨h1, h2⟩
            · exact Or.inl (by omega)
            · by_cases h3 : m % 2 ^ rshift m = 2 ^ (rshift m - 1)
              · exact Or.inr ⟨h3, h2⟩
              · exact Or.inl (by omega)
          omega
        · omega

/-- ... and on all ints -/
theorem roundInt53_mono (a b : Int) (h : a ≤ b) : roundInt53 a ≤ roundInt53 b := by
  unfold roundInt53
  by_cases ha : a < 0
  · rw [if_pos ha]
    by_cases hb : b < 0
    · rw [if_pos hb]
      have := roundNat53_mono b.natAbs a.natAbs (by omega)
      omega
    · rw [if_neg hb]
      omega
  · rw [if_neg ha, if_neg (by omega)]
    have := roundNat53_mono a.natAbs b.natAbs (by omega)
    omega

/-- the conversion keeps ints below 2^1024 (the ones `float()` accepts) within `[-2^1024, 2^1024]` -/
theorem roundNat53_le_pow1024 (n : Nat) (h : n < 2 ^ 1024) : roundNat53 n ≤ 2 ^ 1024 := by
  by_cases hn : n < 2 ^ 53
  · rw [roundNat53_small n hn]; omega
  · have hn' : 2 ^ 53 ≤ n := by omega
    have hb := (roundNat53_binade n hn').2
    have hl : n.log2 < 1024 := (Nat.log2_lt (by omega)).mpr h
    have : 2 ^ (n.log2 + 1) ≤ 2 ^ 1024 := Nat.pow_le_pow_right (by omega) (by omega)
    omega

theorem roundInt53_abs_le (n : Int) (h : n.natAbs < 2 ^ 1024) :
    -(2 ^ 1024 : Int) ≤ roundInt53 n ∧ roundInt53 n ≤ 2 ^ 1024 := by
  have hb := roundNat53_le_pow1024 n.natAbs h
  have hc : ((roundNat53 n.natAbs : Nat) : Int) ≤ 2 ^ 1024 := by exact_mod_cast hb
  unfold roundInt53
  by_cases hn : n < 0
  · rw [if_pos hn]; omega
  · rw [if_neg hn]; omega

end C10
