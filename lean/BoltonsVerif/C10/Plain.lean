import BoltonsVerif.C10.Backends
/-
C10 — the sorted queue over a BarrelList IS the sorted queue over a plain Python list.

`queueutils` falls back to `BList = list` when `listutils` cannot be imported; more importantly the
statement must not depend on how the BarrelList happens to be cut into sub-lists (`_size_factor`,
`_cur_size_limit`).  `plainBackend` is `SortedPriorityQueue` over the builtin list (`insort` = bisect +
`list.insert`, `pop(0)`); `BackendSim` is a lock-step simulation between two backends; `sorted_sim_plain`
shows that for EVERY size-limit function the BarrelList backend simulates the plain one through
`BL.toList`.  Consequences (Props.lean): return values AND the whole backend content (tombstones
included) of `SortedPriorityQueue` are independent of the size-limit function.
-/
namespace C10
variable {T : Type} [DecidableEq T]

/-! ### a lock-step simulation between two backends carries over to the queues -/

/-- `R` relates backend states of `B` and `B'` so that every backend operation the queue performs gives
    the same answer and related successor states -/
structure BackendSim {β β' : Type} (B : Backend T β) (B' : Backend T β') (R : β → β' → Prop) : Prop where
  empty : R B.empty B'.empty
  size : ∀ b b', R b b' → B.size b = B'.size b'
  front : ∀ b b', R b b' → B.front b = B'.front b'
  push : ∀ e b b', R b b' → R (B.push e b) (B'.push e b')
  pop_none : ∀ b b', R b b' → (B.popFront b = none ↔ B'.popFront b' = none)
  pop_some : ∀ b b' e c, R b b' → B.popFront b = some (e, c) →
    ∃ c', B'.popFront b' = some (e, c') ∧ R c c'
  mark : ∀ n b b', R b b' → R (B.mark n b) (B'.mark n b')

/-- the queue states are related: related backends, identical `_entry_map` and counter -/
def PQRel {β β' : Type} (R : β → β' → Prop) (s : PQ T β) (s' : PQ T β') : Prop :=
  R s.pq s'.pq ∧ s.emap = s'.emap ∧ s.counter = s'.counter

/-- close `PQRel R _ _ ∧ out = out'` goals from whatever hypotheses are around -/
macro "close_rel" : tactic =>
  `(tactic| (
    refine ⟨⟨?_, ?_, ?_⟩, ?_⟩ <;>
      first
      | assumption
      | rfl
      | trivial
      | (simp only []; first | assumption | rfl | trivial)
      | (simp only [*]; done)))

section Sim
variable {β β' : Type} {B : Backend T β} {B' : Backend T β'} {R : β → β' → Prop}

theorem cull_rel (S : BackendSim B B' R) : ∀ (fuel : Nat) (b : β) (b' : β'), R b b' →
    R (cull B fuel b) (cull B' fuel b') := by
  intro fuel
  induction fuel with
  | zero => intro b b' h; exact h
  | succ n ih =>
    intro b b' h
    simp only [cull]
    rw [S.size b b' h, S.front b b' h]
    by_cases hs : B'.size b' = 0
    · simp only [hs, ↓reduceIte]; exact h
    · simp only [hs, ↓reduceIte]
      cases hf : B'.front b' with
      | none => exact h
      | some e =>
        cases ht : e.task with
        | some t => simp only [ht]; exact h
        | none =>
          simp only [ht]
          cases hp : B.popFront b with
          | none =>
            rw [(S.pop_none b b' h).mp hp]
            simp only []
            exact h
          | some r =>
            obtain ⟨e1, c⟩ := r
            obtain ⟨c', hp', hc⟩ := S.pop_some b b' e1 c h hp
            rw [hp']
            simp only []
            exact ih c c' hc

theorem remove_rel (S : BackendSim B B' R) (s : PQ T β) (s' : PQ T β') (h : PQRel R s s') (t : T) :
    (s.remove B t = none ∧ s'.remove B' t = none) ∨
    ∃ r r', s.remove B t = some r ∧ s'.remove B' t = some r' ∧ PQRel R r r' := by
  obtain ⟨h1, h2, h3⟩ := h
  unfold PQ.remove
  rw [← h2]
  cases emLookup t s.emap with
  | none => exact Or.inl ⟨rfl, rfl⟩
  | some v => exact Or.inr ⟨_, _, rfl, rfl, S.mark v.2 _ _ h1, by rw [h2], h3⟩

theorem dropOld_rel (S : BackendSim B B' R) (s : PQ T β) (s' : PQ T β') (h : PQRel R s s') (t : T) :
    PQRel R (s.dropOld B t) (s'.dropOld B' t) := by
  have hr := remove_rel S s s' h t
  have h2 := h.2.1
  unfold PQ.dropOld
  rw [← h2]
  cases emLookup t s.emap with
  | none => exact h
  | some v =>
    simp only []
    rcases hr with ⟨e1, e2⟩ | ⟨r, r', e1, e2, hrr⟩
    · rw [e1, e2]; exact h
    · rw [e1, e2]; exact hrr

theorem add_rel (S : BackendSim B B' R) (s : PQ T β) (s' : PQ T β') (h : PQRel R s s') (t : T) (p : Int) :
    PQRel R (s.add B t p) (s'.add B' t p) := by
  obtain ⟨h1, h2, h3⟩ := dropOld_rel S s s' h t
  unfold PQ.add PQ.pushNew
  refine ⟨?_, ?_, ?_⟩
  · show R (B.push _ _) (B'.push _ _)
    rw [h3]; exact S.push _ _ _ h1
  · show emSet _ _ _ = emSet _ _ _
    rw [h2, h3]
  · show _ + 1 = _ + 1
    rw [h3]

theorem peek_rel (S : BackendSim B B' R) (s : PQ T β) (s' : PQ T β') (h : PQRel R s s') (d : Option Nat) :
    PQRel R (s.peek B d).1 (s'.peek B' d).1 ∧ (s.peek B d).2 = (s'.peek B' d).2 := by
  obtain ⟨h1, h2, h3⟩ := h
  have hc := cull_rel S (B.size s.pq) s.pq s'.pq h1
  unfold PQ.peek PQ.peekAt
  rw [← S.size s.pq s'.pq h1]
  rw [← S.size _ _ hc, ← S.front _ _ hc]
  by_cases hs : B.size (cull B (B.size s.pq) s.pq) = 0
  · simp only [hs, ↓reduceIte]; close_rel
  · simp only [hs, ↓reduceIte]
    cases B.front (cull B (B.size s.pq) s.pq) with
    | none => close_rel
    | some e => close_rel

theorem pop_rel (S : BackendSim B B' R) (s : PQ T β) (s' : PQ T β') (h : PQRel R s s') (d : Option Nat) :
    PQRel R (s.pop B d).1 (s'.pop B' d).1 ∧ (s.pop B d).2 = (s'.pop B' d).2 := by
  obtain ⟨h1, h2, h3⟩ := h
  have hc := cull_rel S (B.size s.pq) s.pq s'.pq h1
  unfold PQ.pop PQ.popAt
  rw [← S.size s.pq s'.pq h1]
  rw [← S.size _ _ hc]
  by_cases hs : B.size (cull B (B.size s.pq) s.pq) = 0
  · simp only [hs, ↓reduceIte]; close_rel
  · simp only [hs, ↓reduceIte]
    cases hp : B.popFront (cull B (B.size s.pq) s.pq) with
    | none =>
      rw [(S.pop_none _ _ hc).mp hp]
      close_rel
    | some r =>
      obtain ⟨e, c⟩ := r
      obtain ⟨c', hp', hcc⟩ := S.pop_some _ _ e c hc hp
      rw [hp']
      simp only []
      cases e.task with
      | none => close_rel
      | some t =>
        simp only []
        rw [← h2]
        cases emLookup t s.emap with
        | none => close_rel
        | some v => close_rel

theorem step_rel (S : BackendSim B B' R) (s : PQ T β) (s' : PQ T β') (h : PQRel R s s') (op : Op T) :
    PQRel R (s.step B op).1 (s'.step B' op).1 ∧ (s.step B op).2 = (s'.step B' op).2 := by
  cases op with
  | add t p => exact ⟨add_rel S s s' h t p, rfl⟩
  | remove t =>
    simp only [PQ.step]
    rcases remove_rel S s s' h t with ⟨e1, e2⟩ | ⟨r, r', e1, e2, hrr⟩
    · rw [e1, e2]; exact ⟨h, rfl⟩
    · rw [e1, e2]; exact ⟨hrr, rfl⟩
  | pop d => exact pop_rel S s s' h d
  | peek d => exact peek_rel S s s' h d
  | len => exact ⟨h, by simp only [PQ.step]; rw [h.2.1]⟩

theorem runFrom_rel (S : BackendSim B B' R) : ∀ (ops : List (Op T)) (s : PQ T β) (s' : PQ T β'),
    PQRel R s s' →
    PQRel R (PQ.runFrom B s ops).1 (PQ.runFrom B' s' ops).1 ∧
      (PQ.runFrom B s ops).2 = (PQ.runFrom B' s' ops).2 := by
  intro ops
  induction ops with
  | nil => intro s s' h; exact ⟨h, rfl⟩
  | cons op ops ih =>
    intro s s' h
    obtain ⟨hs, ho⟩ := step_rel S s s' h op
    obtain ⟨hs', ho'⟩ := ih _ _ hs
    simp only [PQ.runFrom]
    exact ⟨hs', by rw [ho, ho']⟩

theorem run_rel (S : BackendSim B B' R) (ops : List (Op T)) :
    PQRel R (PQ.run B ops).1 (PQ.run B' ops).1 ∧ (PQ.run B ops).2 = (PQ.run B' ops).2 :=
  runFrom_rel S ops _ _ ⟨S.empty, rfl, rfl⟩

end Sim

/-! ### SortedPriorityQueue over the builtin list -/

/-- `bisect.bisect_right(l, x)` on a plain list (the same loop, `l[mid]` a plain lookup) -/
def bisectList {α : Type} (lt : α → α → Bool) (x : α) (l : List α) : Nat := bisectRight lt x ⟨[l]⟩

/-- `SortedPriorityQueue` with `BList = list`: `insort` = bisect + `list.insert`, `pop(0)` -/
def plainBackend : Backend T (List (Entry T)) where
  empty := []
  size := List.length
  front := fun l => l[0]?
  push := fun e l => pyInsert (bisectList Entry.lt e l) e l
  popFront := fun l => match l with
    | [] => none
    | e :: r => some (e, r)
  mark := fun c l => l.map (markEntry c)

/-- the bisect loop only looks at `len` and `a[mid]`: two BarrelLists with the same items give the same
    insertion point, however they are cut into sub-lists -/
theorem bisectLoop_congr {α : Type} (lt : α → α → Bool) (x : α) (b b' : BL α)
    (hg : ∀ i, b.get? i = b'.get? i) : ∀ (fuel lo hi : Nat),
    bisectLoop lt x b fuel lo hi = bisectLoop lt x b' fuel lo hi := by
  intro fuel
  induction fuel with
  | zero => intro lo hi; rfl
  | succ n ih =>
    intro lo hi
    simp only [bisectLoop]
    rw [hg, ih, ih]

theorem bisectRight_congr {α : Type} (lt : α → α → Bool) (x : α) (b b' : BL α) (hb : b.ok) (hb' : b'.ok)
    (h : b.toList = b'.toList) : bisectRight lt x b = bisectRight lt x b' := by
  unfold bisectRight
  have hl : b.len = b'.len := by rw [BL.len_eq, BL.len_eq, h]
  rw [hl]
  exact bisectLoop_congr lt x b b' (fun i => by rw [BL.get?_eq b hb, BL.get?_eq b' hb', h]) _ _ _

/-- for EVERY size-limit function the BarrelList backend simulates the plain-list backend through
    `BL.toList` -/
theorem sorted_sim_plain (limit : Nat → Nat) :
    BackendSim (sortedBackend (T := T) limit) plainBackend (fun b l => b.ok ∧ b.toList = l) where
  empty := ⟨BL.empty_ok, BL.empty_toList⟩
  size := by
    intro b l h
    show b.len = l.length
    rw [BL.len_eq, h.2]
  front := by
    intro b l h
    show b.get? 0 = l[0]?
    rw [BL.get?_eq b h.1, h.2]
  push := by
    intro e b l h
    refine ⟨insort_ok limit _ e b h.1, ?_⟩
    show (insort limit Entry.lt e b).toList = pyInsert (bisectList Entry.lt e l) e l
    rw [insort_toList limit _ e b h.1, h.2]
    unfold bisectList
    rw [bisectRight_congr Entry.lt e b ⟨[l]⟩ h.1 (by simp [BL.ok]) (by rw [h.2]; simp [BL.toList])]
  pop_none := by
    intro b l h
    show b.pop? limit 0 = none ↔ _
    rw [BL.pop?_none limit b h.1 0, h.2]
    cases l with
    | nil => simp [plainBackend]
    | cons e r => simp [plainBackend]
  pop_some := by
    intro b l e c h hp
    obtain ⟨h1, h2, h3⟩ := BL.pop?_some limit b h.1 0 e c hp
    rw [h.2] at h1 h2
    cases l with
    | nil => simp at h1
    | cons e' r =>
      simp only [List.length_cons, Nat.zero_lt_succ, getElem?_pos, List.getElem_cons_zero,
        Option.some.injEq] at h1
      subst h1
      exact ⟨r, rfl, h3, by simpa using h2⟩
  mark := by
    intro n b l h
    refine ⟨?_, ?_⟩
    · show b.lists.map _ ≠ []
      intro hc
      exact h.1 (List.map_eq_nil_iff.mp hc)
    · show (BL.toList ⟨b.lists.map (fun l => l.map (markEntry n))⟩) = l.map (markEntry n)
      rw [← h.2]
      simp [BL.toList, List.map_flatten]

end C10
