import BoltonsVerif.C10.Driver
def main : IO Unit := BV.mainLoop C10.Driver.handle
