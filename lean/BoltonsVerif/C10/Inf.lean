import BoltonsVerif.C10.Prio
/-
C10 — infinite priorities.  `float('inf')` / `float('-inf')` are legal priorities (they compare with every
number).  The exact-dyadic model has no infinities; the harness sends `+-2^1100` instead.  `EPrio` is the
extended priority (a finite dyadic value or an infinity) with its TRUE order; `standin_lt_iff` shows that
the stand-in orders legal priorities exactly like the true order, which is all a queue can see
(`priorities_matter_only_by_order`, used in `Props.lean`: `infinite_priorities_sound`).
-/
namespace C10

/-- an effective priority: a finite value `m / 2^e`, `+inf` or `-inf` -/
inductive EPrio where
  | fin (d : Dy)
  | posInf
  | negInf
deriving Repr, DecidableEq

/-- what the harness tells the driver -/
def EPrio.standin : EPrio → Dy
  | .fin d => d
  | .posInf => ⟨2 ^ 1100, 0⟩
  | .negInf => ⟨-(2 ^ 1100), 0⟩

/-- the order of the extended reals (`inf < inf` and `-inf < -inf` are false, like `float`'s `<`) -/
def EPrio.lt : EPrio → EPrio → Prop
  | .fin a, .fin b => Dy.lt a b
  | .fin _, .posInf => True
  | .negInf, .fin _ => True
  | .negInf, .posInf => True
  | _, _ => False

/-- finite priorities that can occur: `|m / 2^e| < 2^1100` (doubles and the ints `float()` accepts stay below
    `2^1024`, see `inf_standin_dominates`) -/
def EPrio.legal : EPrio → Prop
  | .fin d => -(2 ^ 1100) * 2 ^ d.e < d.m ∧ d.m < 2 ^ 1100 * 2 ^ d.e
  | _ => True

instance (a : EPrio) : Decidable a.legal := by
  cases a <;> (unfold EPrio.legal; exact inferInstance)

instance (a b : EPrio) : Decidable (EPrio.lt a b) := by
  cases a <;> cases b <;> (unfold EPrio.lt; exact inferInstance)

theorem standin_lt_iff (a b : EPrio) (ha : a.legal) (hb : b.legal) :
    Dy.lt a.standin b.standin ↔ EPrio.lt a b := by
  cases a with
  | fin x =>
    cases b with
    | fin y => exact Iff.rfl
    | posInf =>
      simp only [EPrio.standin, EPrio.lt, Dy.lt, iff_true]
      have := ha.2
      omega
    | negInf =>
      simp only [EPrio.standin, EPrio.lt, Dy.lt, iff_false]
      have := ha.1
      omega
  | posInf =>
    cases b with
    | fin y =>
      simp only [EPrio.standin, EPrio.lt, Dy.lt, iff_false]
      have := hb.2
      omega
    | posInf => simp [EPrio.standin, EPrio.lt, Dy.lt]
    | negInf => simp only [EPrio.standin, EPrio.lt, iff_false]; decide +kernel
  | negInf =>
    cases b with
    | fin y =>
      simp only [EPrio.standin, EPrio.lt, Dy.lt, iff_true]
      have := hb.1
      omega
    | posInf => simp only [EPrio.standin, EPrio.lt, iff_true]; decide +kernel
    | negInf => simp [EPrio.standin, EPrio.lt, Dy.lt]

end C10
