import BoltonsVerif.Common
import BoltonsVerif.C10.Model
/-
C10 line protocol.  One line = one whole history.

  B <size_factor> <op> ...      BarrelList level (values are naturals)
      i<idx>,<val>   insert(idx, val)      -> `-`
      a<val>         append(val)           -> `-`
      p<idx>         pop(idx)              -> value | `E` (IndexError)
      g<idx>         bl[idx]               -> value | `E`
      n              len(bl)               -> number
      t              list(bl)              -> values joined by `.` (`~` = empty)
  H <op> ...                    heapq level: the functions HeapPriorityQueue calls, on a list of naturals
      u<val>         heappush(h, val)      -> the list afterwards (values joined by `.`, `~` = empty)
      o              heappop(h)            -> `<value>|<list afterwards>` | `E` (IndexError)
  Q <size_factor> <op> ...      queue level, run on SortedPriorityQueue and HeapPriorityQueue
      a<task>:<prio> add(task, priority)   -> `-`      prio = the argument as passed:
                     `N` None (or left out) | `T` / `F` bool | `I<int>` int | `D<m>/<e>` the float m/2^e
                     (the model evaluates `float(priority or 0)` itself) | `X<m>/<e>` a queue built with a
                     custom priority_key: key(priority) = m/2^e, stored as is (effective priority -m/2^e)
      r<task>        remove(task)          -> `-` | `KeyError`
      p / P<i>       pop() / pop(default #i)  -> `t<task>` | `IndexError` | `d<i>`
      k / K<i>       peek() / peek(default #i)   (i names which object was given as default)
                     i >= 1000000: the object given as default IS (or equals) the task object i - 1000000
                     (pop(None) on a queue holding the task None, ...); when that default comes back it is
                     printed as what it is, `t<i - 1000000>`
      n              len(q)                -> `n<number>`
Output: B: the results joined by `,`;  Q: `S=<results> H=<results>`.
-/
namespace C10.Driver
open BV C10

def showVals (l : List Nat) : String :=
  if l.isEmpty then "~" else ".".intercalate (l.map toString)

def blStep (limit : Nat → Nat) (b : BL Nat) (tok : String) : Option (BL Nat × String) :=
  let rest := (tok.drop 1).toString
  match tok.front with
  | 'i' => match splitOnChar rest ',' with
    | [a, v] => match a.toNat?, v.toNat? with
      | some i, some x => some (b.insert limit i x, "-")
      | _, _ => none
    | _ => none
  | 'a' => rest.toNat?.map fun x => (b.append x, "-")
  | 'p' => rest.toNat?.map fun i => match b.pop? limit i with
    | some (x, b') => (b', toString x)
    | none => (b, "E")
  | 'g' => rest.toNat?.map fun i => match b.get? i with
    | some x => (b, toString x)
    | none => (b, "E")
  | 'n' => if rest = "" then some (b, toString b.len) else none
  | 't' => if rest = "" then some (b, showVals b.toList) else none
  | _ => none

def natLt (a b : Nat) : Bool := decide (a < b)

def heapStep (h : List Nat) (tok : String) : Option (List Nat × String) :=
  let rest := (tok.drop 1).toString
  match tok.front with
  | 'u' => rest.toNat?.map fun x => (heappush natLt x h, showVals (heappush natLt x h))
  | 'o' => if rest = "" then
      match heappop natLt h with
      | some (x, h') => some (h', toString x ++ "|" ++ showVals h')
      | none => some (h, "E")
    else none
  | _ => none

def parseDy (s : String) : Option Dy :=
  match splitOnChar s '/' with
  | [m, e] => match m.toInt?, e.toNat? with
    | some m, some e => some ⟨m, e⟩
    | _, _ => none
  | _ => none

/-- the effective priority (`float(priority or 0)`, or `-key(priority)` for a custom key) of a token -/
def parsePrio (tok : String) : Option Dy :=
  let rest := (tok.drop 1).toString
  match tok.front with
  | 'N' => if rest = "" then some PyPrio.none.eff else none
  | 'T' => if rest = "" then some (PyPrio.bool true).eff else none
  | 'F' => if rest = "" then some (PyPrio.bool false).eff else none
  | 'I' => rest.toInt?.map fun n => (PyPrio.int n).eff
  | 'D' => (parseDy rest).map fun d => (PyPrio.float d.m d.e).eff
  | 'X' => (parseDy rest).map Dy.neg
  | _ => none

def parseOp (tok : String) : Option (ROp Nat Dy) :=
  let rest := (tok.drop 1).toString
  match tok.front with
  | 'a' => match splitOnChar rest ':' with
    | [t, p] => match t.toNat?, parsePrio p with
      | some t, some p => some (.add t p)
      | _, _ => none
    | _ => none
  | 'r' => rest.toNat?.map .remove
  | 'p' => if rest = "" then some (.pop none) else none
  | 'P' => rest.toNat?.map fun i => .pop (some i)
  | 'k' => if rest = "" then some (.peek none) else none
  | 'K' => rest.toNat?.map fun i => .peek (some i)
  | 'n' => if rest = "" then some .len else none
  | _ => none

/-- defaults numbered from `taskDefaultBase` on are task objects used as `default` -/
def taskDefaultBase : Nat := 1000000

def showOut : Out Nat → String
  | .none => "-"
  | .task t => s!"t{t}"
  | .dflt i => if i < taskDefaultBase then s!"d{i}" else s!"t{i - taskDefaultBase}"
  | .len n => s!"n{n}"
  | .keyError => "KeyError"
  | .indexError => "IndexError"
  | .sentinel => "REMOVED"

/-- same as `PQ.runFrom` (outputs only), written as a loop so that long histories do not
    use the native stack -/
def runOuts {β : Type} (B : Backend Nat β) (ops : List (Op Nat)) : List (Out Nat) :=
  let rec go (s : PQ Nat β) (ops : List (Op Nat)) (acc : List (Out Nat)) : List (Out Nat) :=
    match ops with
    | [] => acc.reverse
    | op :: ops => go (s.step B op).1 ops ((s.step B op).2 :: acc)
  go (PQ.init B) ops []

def handle (line : String) : String :=
  match words line with
  | "B" :: sf :: toks =>
    match sf.toNat? with
    | none => "bad-op"
    | some sf =>
      let limit := curSizeLimit sf
      let rec go (b : BL Nat) (toks : List String) (acc : List String) : Option (List String) :=
        match toks with
        | [] => some acc.reverse
        | t :: ts => match blStep limit b t with
          | some (b', out) => go b' ts (out :: acc)
          | none => none
      match go BL.empty toks [] with
      | some outs => ",".intercalate outs
      | none => "bad-op"
  | "H" :: toks =>
    let rec goH (h : List Nat) (toks : List String) (acc : List String) : Option (List String) :=
      match toks with
      | [] => some acc.reverse
      | t :: ts => match heapStep h t with
        | some (h', out) => goH h' ts (out :: acc)
        | none => none
    match goH [] toks [] with
    | some outs => ",".intercalate outs
    | none => "bad-op"
  | "Q" :: sf :: toks =>
    match sf.toNat?, toks.mapM parseOp with
    | some sf, some rops =>
      let ops := normalize rops
      let s := runOuts (sortedBackend (curSizeLimit sf)) ops
      let h := runOuts binHeap ops
      "S=" ++ ",".intercalate (s.map showOut) ++ " H=" ++ ",".intercalate (h.map showOut)
    | _, _ => "bad-op"
  | _ => "bad-op"

end C10.Driver
