import BoltonsVerif.Common
import BoltonsVerif.C10.Model
/-
C10 line protocol.  One line = one whole history.

  B <size_factor> <op> ...      BarrelList level (values are naturals)
      i<idx>,<val>   insert(idx, val)      -> `-`
      a<val>         append(val)           -> `-`
      p<idx>         pop(idx)              -> value | `E` (IndexError)
      g<idx>         bl[idx]               -> value | `E`
      n              len(bl)               -> number
      t              list(bl)              -> values joined by `.` (`~` = empty)
  Q <size_factor> <op> ...      queue level, run on SortedPriorityQueue and HeapPriorityQueue
      a<task>:<prio> add(task, priority)   -> `-`      (prio: integer, = 2 * float(priority or 0))
      r<task>        remove(task)          -> `-` | `KeyError`
      p / P<i>       pop() / pop(default #i)  -> `t<task>` | `IndexError` | `d<i>`
      k / K<i>       peek() / peek(default #i)   (i names which object was given as default)
      n              len(q)                -> `n<number>`
Output: B: the results joined by `,`;  Q: `S=<results> H=<results>`.
-/
namespace C10.Driver
open BV C10

def showVals (l : List Nat) : String :=
  if l.isEmpty then "~" else ".".intercalate (l.map toString)

def blStep (limit : Nat → Nat) (b : BL Nat) (tok : String) : Option (BL Nat × String) :=
  let rest := (tok.drop 1).toString
  match tok.front with
  | 'i' => match splitOnChar rest ',' with
    | [a, v] => match a.toNat?, v.toNat? with
      | some i, some x => some (b.insert limit i x, "-")
      | _, _ => none
    | _ => none
  | 'a' => rest.toNat?.map fun x => (b.append x, "-")
  | 'p' => rest.toNat?.map fun i => match b.pop? limit i with
    | some (x, b') => (b', toString x)
    | none => (b, "E")
  | 'g' => rest.toNat?.map fun i => match b.get? i with
    | some x => (b, toString x)
    | none => (b, "E")
  | 'n' => if rest = "" then some (b, toString b.len) else none
  | 't' => if rest = "" then some (b, showVals b.toList) else none
  | _ => none

def parseOp (tok : String) : Option (Op Nat) :=
  let rest := (tok.drop 1).toString
  match tok.front with
  | 'a' => match splitOnChar rest ':' with
    | [t, p] => match t.toNat?, p.toInt? with
      | some t, some p => some (.add t p)
      | _, _ => none
    | _ => none
  | 'r' => rest.toNat?.map .remove
  | 'p' => if rest = "" then some (.pop none) else none
  | 'P' => rest.toNat?.map fun i => .pop (some i)
  | 'k' => if rest = "" then some (.peek none) else none
  | 'K' => rest.toNat?.map fun i => .peek (some i)
  | 'n' => if rest = "" then some .len else none
  | _ => none

def showOut : Out Nat → String
  | .none => "-"
  | .task t => s!"t{t}"
  | .dflt i => s!"d{i}"
  | .len n => s!"n{n}"
  | .keyError => "KeyError"
  | .indexError => "IndexError"
  | .sentinel => "REMOVED"

/-- same as `PQ.runFrom` (outputs only), written as a loop so that long histories do not
    use the native stack -/
def runOuts {β : Type} (B : Backend Nat β) (ops : List (Op Nat)) : List (Out Nat) :=
  let rec go (s : PQ Nat β) (ops : List (Op Nat)) (acc : List (Out Nat)) : List (Out Nat) :=
    match ops with
    | [] => acc.reverse
    | op :: ops => go (s.step B op).1 ops ((s.step B op).2 :: acc)
  go (PQ.init B) ops []

def handle (line : String) : String :=
  match words line with
  | "B" :: sf :: toks =>
    match sf.toNat? with
    | none => "bad-op"
    | some sf =>
      let limit := curSizeLimit sf
      let rec go (b : BL Nat) (toks : List String) (acc : List String) : Option (List String) :=
        match toks with
        | [] => some acc.reverse
        | t :: ts => match blStep limit b t with
          | some (b', out) => go b' ts (out :: acc)
          | none => none
      match go BL.empty toks [] with
      | some outs => ",".intercalate outs
      | none => "bad-op"
  | "Q" :: sf :: toks =>
    match sf.toNat?, toks.mapM parseOp with
    | some sf, some ops =>
      let s := runOuts (sortedBackend (curSizeLimit sf)) ops
      let h := runOuts listHeap ops
      "S=" ++ ",".intercalate (s.map showOut) ++ " H=" ++ ",".intercalate (h.map showOut)
    | _, _ => "bad-op"
  | _ => "bad-op"

end C10.Driver
