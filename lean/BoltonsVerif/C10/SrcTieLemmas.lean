/-
C10 — lemmas for the SOURCE TIE that do not mention the generated code.

`Src.listutils.translate_index` (regenerated from the text of `BarrelList._translate_index` on every
run) walks the sub-lists with a CPS loop function over a state record whose field names / order depend on
the order in which the Python locals are first bound.  To keep the tie proof independent of that
naming, the loop is characterised ABSTRACTLY here: any function `loop k kbreak xs s` that

  * on `[]` calls the `else:` continuation `k`,
  * on `x :: xs` tests `rel s < len(lists s [x])` (any decidable proposition equivalent to it), and either
    leaves through `kbreak` or goes on with a state in which `rel` has been decreased by that length and
    `lists` is unchanged,

computes the model's `translate` (`ScanShape` / `scan_loop`; `EnumShape` / `scan_enum` for a loop over
`enumerate(lists)`, `ListShape` / `scan_list` for a loop over the sub-lists with a hand-kept counter).  In `SrcTie.lean` the projections `rel`,
`lsts` and the two state transformers are found by UNIFICATION against the generated definition
(`fun _ _ _ _ _ => rfl`), so renumbered locals, extra locals, reordered assignments and fast paths in front
of the loop do not disturb the proof.
-/
import BoltonsVerif.PyRtLemmas
import BoltonsVerif.C10.Model

namespace C10

variable {α : Type}

/-- `index += len(self)` for a negative index, as the source does it -/
def pyNorm (index len : Int) : Int := if index < 0 then index + len else index

/-- "`loop` is a scan over the sub-lists": see the file header.  `test x s` is the loop's exit test,
    `exit kb x s` what the loop body does when the test holds (`kb s'` for a `break` in state `s'`, the
    returned value for an early `return`), `nxt x s` the state the next iteration starts in. -/
structure ScanShape {S R : Type} (loop : (S → R) → (S → R) → List Int → S → R)
    (rel : S → Int) (lsts : S → List (List α)) (test : Int → S → Prop)
    (dec : ∀ x s, Decidable (test x s)) (exit : (S → R) → Int → S → R) (nxt : Int → S → S) : Prop where
  nil : ∀ k kb s, loop k kb [] s = k s
  cons : ∀ k kb x xs s, loop k kb (x :: xs) s =
      @ite R (test x s) (dec x s) (exit kb x s) (loop k kb xs (nxt x s))
  test_iff : ∀ x s, test x s ↔ rel s < PyRt.len (PyRt.index (lsts s) x)
  nxt_rel : ∀ x s, rel (nxt x s) = rel s - PyRt.len (PyRt.index (lsts s) x)
  nxt_lsts : ∀ x s, lsts (nxt x s) = lsts s

/-- the same loop written with the branches the other way round
    (`if rel_idx >= len_list: rel_idx -= len_list; continue` … `break`) -/
theorem ScanShape.of_swapped {S R : Type} {loop : (S → R) → (S → R) → List Int → S → R}
    {rel : S → Int} {lsts : S → List (List α)} {ntest : Int → S → Prop}
    {dec : ∀ x s, Decidable (ntest x s)} {exit : (S → R) → Int → S → R} {nxt : Int → S → S}
    (nil : ∀ k kb s, loop k kb [] s = k s)
    (cons : ∀ k kb x xs s, loop k kb (x :: xs) s =
      @ite R (ntest x s) (dec x s) (loop k kb xs (nxt x s)) (exit kb x s))
    (ntest_iff : ∀ x s, ntest x s ↔ ¬ rel s < PyRt.len (PyRt.index (lsts s) x))
    (nxt_rel : ∀ x s, rel (nxt x s) = rel s - PyRt.len (PyRt.index (lsts s) x))
    (nxt_lsts : ∀ x s, lsts (nxt x s) = lsts s) :
    ScanShape loop rel lsts (fun x s => ¬ ntest x s) (fun x s => @instDecidableNot _ (dec x s)) exit nxt where
  nil := nil
  cons := by
    intro k kb x xs s
    rw [cons]
    by_cases h : ntest x s
    · rw [if_pos h, if_neg (fun h' => h' h)]
    · rw [if_neg h, if_pos h]
  test_iff := by
    intro x s
    rw [ntest_iff]
    exact Classical.not_not
  nxt_rel := nxt_rel
  nxt_lsts := nxt_lsts

/-- a scan loop started at sub-list number `len pre` with `rel = r ≥ 0` ends at sub-list
    `len pre + (translate suf r).1` in a state whose `rel` is `(translate suf r).2`: either through the
    `break`, or - only at the LAST sub-list - through the `else:` clause -/
theorem scan_loop {S R : Type} {loop : (S → R) → (S → R) → List Int → S → R}
    {rel : S → Int} {lsts : S → List (List α)} {test : Int → S → Prop}
    {dec : ∀ x s, Decidable (test x s)} {exit : (S → R) → Int → S → R} {nxt : Int → S → S}
    (H : ScanShape loop rel lsts test dec exit nxt) (k kb : S → R) :
    ∀ (suf pre : List (List α)) (r : Nat) (s : S), lsts s = pre ++ suf → rel s = r → suf ≠ [] →
      ∃ s', lsts s' = pre ++ suf ∧ rel s' = ((translate suf r).2 : Int) ∧
        (∀ (f : S → List (List α)), (∀ x s, f (nxt x s) = f s) → f s' = f s) ∧
        (loop k kb (PyRt.range (PyRt.len pre) (PyRt.len (pre ++ suf)) 1) s
            = exit kb (PyRt.len pre + ((translate suf r).1 : Int)) s' ∨
         (loop k kb (PyRt.range (PyRt.len pre) (PyRt.len (pre ++ suf)) 1) s
            = k (nxt (PyRt.len pre + ((translate suf r).1 : Int)) s') ∧
          PyRt.len pre + ((translate suf r).1 : Int) + 1 = PyRt.len (pre ++ suf))) := by
  intro suf
  induction suf with
  | nil => intro pre r s _ _ h; exact absurd rfl h
  | cons l rest ih =>
    intro pre r s h1 h2 _
    have hl0 := PyRt.len_nonneg l
    rw [PyRt.range_from, if_pos (by rw [PyRt.len_append, PyRt.len_cons]; have := PyRt.len_nonneg rest; omega)]
    rw [H.cons]
    have ht := H.test_iff (PyRt.len pre) s
    have hn2 := H.nxt_rel (PyRt.len pre) s
    have hn4 := H.nxt_lsts (PyRt.len pre) s
    rw [h1, PyRt.index_append_length, h2] at ht
    rw [h1, PyRt.index_append_length] at hn2
    cases rest with
    | nil =>
      have hend : PyRt.range (PyRt.len pre + 1) (PyRt.len (pre ++ [l])) 1 = [] := by
        rw [PyRt.range_from, if_neg (by rw [PyRt.len_append, PyRt.len_cons, PyRt.len_nil]; omega)]
      simp only [translate]
      by_cases hlt : (r : Int) < PyRt.len l
      · rw [if_pos (ht.2 hlt)]
        exact ⟨s, h1, h2, fun _ _ => rfl, Or.inl (by simp)⟩
      · rw [if_neg (fun h => hlt (ht.1 h)), hend, H.nil]
        exact ⟨s, h1, h2, fun _ _ => rfl, Or.inr ⟨by simp, by rw [PyRt.len_append, PyRt.len_cons, PyRt.len_nil]; simp⟩⟩
    | cons l' ls =>
      by_cases hlt : (r : Int) < PyRt.len l
      · have hlt' : r < l.length := by unfold PyRt.len at hlt; omega
        rw [if_pos (ht.2 hlt)]
        exact ⟨s, h1, by rw [h2]; simp [translate, hlt'], fun _ _ => rfl, Or.inl (by simp [translate, hlt'])⟩
      · have hlt' : ¬ r < l.length := by unfold PyRt.len at hlt; omega
        rw [if_neg (fun h => hlt (ht.1 h))]
        have hpre : (PyRt.len pre + 1 : Int) = PyRt.len (pre ++ [l]) := by
          rw [PyRt.len_append, PyRt.len_cons, PyRt.len_nil]; omega
        have happ : pre ++ l :: l' :: ls = (pre ++ [l]) ++ (l' :: ls) := by simp
        obtain ⟨s', hs0, hs1, hsf, hs2⟩ := ih (pre ++ [l]) (r - l.length) (nxt (PyRt.len pre) s)
          (by rw [hn4, h1, happ]) (by rw [hn2, h2]; simp only [PyRt.len]; omega) (by simp)
        rw [← happ, ← hpre] at hs2
        have hidx : PyRt.len pre + 1 + ((translate (l' :: ls) (r - l.length)).1 : Int)
            = PyRt.len pre + ((translate (l :: l' :: ls) r).1 : Int) := by
          simp only [translate, if_neg hlt']; push_cast; omega
        rw [hidx] at hs2
        refine ⟨s', by rw [hs0, happ], ?_, fun f hf => by rw [hsf f hf, hf], hs2⟩
        rw [hs1]; simp only [translate, if_neg hlt']

/-- `scan_loop` from sub-list 0, as a rule for goals `loop k kb (range(0, len(lists))) s = v`: the goal's
    continuations and state are found by unification; what is left is to evaluate the two continuations
    in a state described only through `lsts` and `rel` -/
theorem scan_loop_eq {S R : Type} {loop : (S → R) → (S → R) → List Int → S → R}
    {rel : S → Int} {lsts : S → List (List α)} {test : Int → S → Prop}
    {dec : ∀ x s, Decidable (test x s)} {exit : (S → R) → Int → S → R} {nxt : Int → S → S}
    (H : ScanShape loop rel lsts test dec exit nxt)
    (k kb : S → R) (s : S) (lists : List (List α)) (r : Nat) (v : R)
    (h1 : lsts s = lists) (h2 : rel s = r) (hne : lists ≠ [])
    (hb : ∀ s', lsts s' = lists → rel s' = ((translate lists r).2 : Int) →
      (∀ (f : S → List (List α)), (∀ x s, f (nxt x s) = f s) → f s' = f s) →
      exit kb ((translate lists r).1 : Int) s' = v)
    (hk : ∀ s', lsts s' = lists → rel s' = ((translate lists r).2 : Int) →
      (∀ (f : S → List (List α)), (∀ x s, f (nxt x s) = f s) → f s' = f s) →
      ((translate lists r).1 : Int) + 1 = PyRt.len lists →
      k (nxt ((translate lists r).1 : Int) s') = v) :
    loop k kb (PyRt.range 0 (PyRt.len lists) 1) s = v := by
  obtain ⟨s', e1, e2, ef, e3⟩ := scan_loop H k kb lists [] r s (by simpa using h1) h2 hne
  simp only [List.nil_append, PyRt.len_nil, Int.zero_add] at e1 e2 e3
  rcases e3 with e3 | ⟨e3, e4⟩
  · rw [e3]; exact hb s' e1 e2 ef
  · rw [e3]; exact hk s' e1 e2 ef e4

/-- with a NEGATIVE `rel` the scan leaves through the `break` at sub-list 0 at once -/
theorem scan_loop_neg {S R : Type} {loop : (S → R) → (S → R) → List Int → S → R}
    {rel : S → Int} {lsts : S → List (List α)} {test : Int → S → Prop}
    {dec : ∀ x s, Decidable (test x s)} {exit : (S → R) → Int → S → R} {nxt : Int → S → S}
    (H : ScanShape loop rel lsts test dec exit nxt)
    (k kb : S → R) (s : S) (lists : List (List α)) (v : R)
    (h1 : lsts s = lists) (h2 : rel s < 0) (hne : lists ≠ [])
    (hb : exit kb 0 s = v) :
    loop k kb (PyRt.range 0 (PyRt.len lists) 1) s = v := by
  obtain ⟨l, rest, rfl⟩ := List.exists_cons_of_ne_nil hne
  have hl0 := PyRt.len_nonneg l
  have hr0 := PyRt.len_nonneg rest
  rw [PyRt.range_from, if_pos (by rw [PyRt.len_cons]; omega), H.cons]
  have ht := H.test_iff 0 s
  rw [h1, PyRt.index_zero] at ht
  rw [if_pos (ht.2 (by omega))]
  exact hb

/-! ## the same scan written over `enumerate(self.lists)` -/

/-- `list(enumerate(l, start))` (the translator's `PyRt.enumerate`, restated here so that this file does
    not depend on the translator's version of the runtime library) -/
def pyEnumerate {β : Type} : List β → Int → List (Int × β)
  | [], _ => []
  | x :: xs, i => (i, x) :: pyEnumerate xs (i + 1)

/-- "`loop` is a scan over `enumerate(lists)`": the sub-list comes with the loop item instead of being
    looked up in the state -/
structure EnumShape {S R : Type} (loop : (S → R) → (S → R) → List (Int × List α) → S → R)
    (rel : S → Int) (test : Int → List α → S → Prop)
    (dec : ∀ x l s, Decidable (test x l s)) (exit : (S → R) → Int → List α → S → R)
    (nxt : Int → List α → S → S) : Prop where
  nil : ∀ k kb s, loop k kb [] s = k s
  cons : ∀ k kb x l xs s, loop k kb ((x, l) :: xs) s =
      @ite R (test x l s) (dec x l s) (exit kb x l s) (loop k kb xs (nxt x l s))
  test_iff : ∀ x l s, test x l s ↔ rel s < PyRt.len l
  nxt_rel : ∀ x l s, rel (nxt x l s) = rel s - PyRt.len l

theorem EnumShape.of_swapped {S R : Type} {loop : (S → R) → (S → R) → List (Int × List α) → S → R}
    {rel : S → Int} {ntest : Int → List α → S → Prop}
    {dec : ∀ x l s, Decidable (ntest x l s)} {exit : (S → R) → Int → List α → S → R}
    {nxt : Int → List α → S → S}
    (nil : ∀ k kb s, loop k kb [] s = k s)
    (cons : ∀ k kb x l xs s, loop k kb ((x, l) :: xs) s =
      @ite R (ntest x l s) (dec x l s) (loop k kb xs (nxt x l s)) (exit kb x l s))
    (ntest_iff : ∀ x l s, ntest x l s ↔ ¬ rel s < PyRt.len l)
    (nxt_rel : ∀ x l s, rel (nxt x l s) = rel s - PyRt.len l) :
    EnumShape loop rel (fun x l s => ¬ ntest x l s) (fun x l s => @instDecidableNot _ (dec x l s))
      exit nxt where
  nil := nil
  cons := by
    intro k kb x l xs s
    rw [cons]
    by_cases h : ntest x l s
    · rw [if_pos h, if_neg (fun h' => h' h)]
    · rw [if_neg h, if_pos h]
  test_iff := by
    intro x l s
    rw [ntest_iff]
    exact Classical.not_not
  nxt_rel := nxt_rel

theorem scan_enum {S R : Type} {loop : (S → R) → (S → R) → List (Int × List α) → S → R}
    {rel : S → Int} {test : Int → List α → S → Prop}
    {dec : ∀ x l s, Decidable (test x l s)} {exit : (S → R) → Int → List α → S → R}
    {nxt : Int → List α → S → S}
    (H : EnumShape loop rel test dec exit nxt) (k kb : S → R) :
    ∀ (suf pre : List (List α)) (r : Nat) (s : S), rel s = r → suf ≠ [] →
      ∃ s', rel s' = ((translate suf r).2 : Int) ∧
        (∀ (f : S → List (List α)), (∀ x l s, f (nxt x l s) = f s) → f s' = f s) ∧
        (loop k kb (pyEnumerate suf (PyRt.len pre)) s
            = exit kb (PyRt.len pre + ((translate suf r).1 : Int))
                (PyRt.index (pre ++ suf) (PyRt.len pre + ((translate suf r).1 : Int))) s' ∨
         (loop k kb (pyEnumerate suf (PyRt.len pre)) s
            = k (nxt (PyRt.len pre + ((translate suf r).1 : Int))
                (PyRt.index (pre ++ suf) (PyRt.len pre + ((translate suf r).1 : Int))) s') ∧
          PyRt.len pre + ((translate suf r).1 : Int) + 1 = PyRt.len (pre ++ suf))) := by
  intro suf
  induction suf with
  | nil => intro pre r s _ h; exact absurd rfl h
  | cons l rest ih =>
    intro pre r s h2 _
    have hl0 := PyRt.len_nonneg l
    simp only [pyEnumerate]
    rw [H.cons]
    have ht := H.test_iff (PyRt.len pre) l s
    have hn2 := H.nxt_rel (PyRt.len pre) l s
    rw [h2] at ht
    cases rest with
    | nil =>
      simp only [translate, pyEnumerate]
      by_cases hlt : (r : Int) < PyRt.len l
      · rw [if_pos (ht.2 hlt)]
        exact ⟨s, h2, fun _ _ => rfl, Or.inl (by simp [PyRt.index_append_length])⟩
      · rw [if_neg (fun h => hlt (ht.1 h)), H.nil]
        exact ⟨s, h2, fun _ _ => rfl, Or.inr ⟨by simp [PyRt.index_append_length],
          by rw [PyRt.len_append, PyRt.len_cons, PyRt.len_nil]; simp⟩⟩
    | cons l' ls =>
      by_cases hlt : (r : Int) < PyRt.len l
      · have hlt' : r < l.length := by unfold PyRt.len at hlt; omega
        rw [if_pos (ht.2 hlt)]
        exact ⟨s, by rw [h2]; simp [translate, hlt'], fun _ _ => rfl,
          Or.inl (by simp [translate, hlt', PyRt.index_append_length])⟩
      · have hlt' : ¬ r < l.length := by unfold PyRt.len at hlt; omega
        rw [if_neg (fun h => hlt (ht.1 h))]
        have hpre : (PyRt.len pre + 1 : Int) = PyRt.len (pre ++ [l]) := by
          rw [PyRt.len_append, PyRt.len_cons, PyRt.len_nil]; omega
        have happ : pre ++ l :: l' :: ls = (pre ++ [l]) ++ (l' :: ls) := by simp
        obtain ⟨s', hs1, hsf, hs2⟩ := ih (pre ++ [l]) (r - l.length) (nxt (PyRt.len pre) l s)
          (by rw [hn2, h2]; simp only [PyRt.len]; omega) (by simp)
        rw [← happ, ← hpre] at hs2
        have hidx : PyRt.len pre + 1 + ((translate (l' :: ls) (r - l.length)).1 : Int)
            = PyRt.len pre + ((translate (l :: l' :: ls) r).1 : Int) := by
          simp only [translate, if_neg hlt']; push_cast; omega
        rw [hidx] at hs2
        refine ⟨s', ?_, fun f hf => by rw [hsf f hf, hf], hs2⟩
        rw [hs1]; simp only [translate, if_neg hlt']

/-- `scan_enum` from sub-list 0 as a rule for goals `loop k kb (enumerate(lists, 0)) s = v`; `hinv` says
    that whatever the loop body leaves alone (e.g. the parameter field `self_lists`) is unchanged -/
theorem scan_enum_eq {S R : Type} {loop : (S → R) → (S → R) → List (Int × List α) → S → R}
    {rel : S → Int} {test : Int → List α → S → Prop}
    {dec : ∀ x l s, Decidable (test x l s)} {exit : (S → R) → Int → List α → S → R}
    {nxt : Int → List α → S → S}
    (H : EnumShape loop rel test dec exit nxt)
    (k kb : S → R) (s : S) (lists : List (List α)) (r : Nat) (v : R)
    (h2 : rel s = r) (hne : lists ≠ [])
    (hb : ∀ s', rel s' = ((translate lists r).2 : Int) →
      (∀ (f : S → List (List α)), (∀ x l s, f (nxt x l s) = f s) → f s' = f s) →
      exit kb ((translate lists r).1 : Int) (PyRt.index lists ((translate lists r).1 : Int)) s' = v)
    (hk : ∀ s', rel s' = ((translate lists r).2 : Int) →
      (∀ (f : S → List (List α)), (∀ x l s, f (nxt x l s) = f s) → f s' = f s) →
      ((translate lists r).1 : Int) + 1 = PyRt.len lists →
      k (nxt ((translate lists r).1 : Int) (PyRt.index lists ((translate lists r).1 : Int)) s') = v) :
    loop k kb (pyEnumerate lists 0) s = v := by
  obtain ⟨s', e2, ef, e3⟩ := scan_enum H k kb lists [] r s h2 hne
  simp only [List.nil_append, PyRt.len_nil, Int.zero_add] at e2 e3
  rcases e3 with e3 | ⟨e3, e4⟩
  · rw [e3]; exact hb s' e2 ef
  · rw [e3]; exact hk s' e2 ef e4

/-- with a NEGATIVE `rel` the scan over `enumerate(lists)` leaves at sub-list 0 at once -/
theorem scan_enum_neg {S R : Type} {loop : (S → R) → (S → R) → List (Int × List α) → S → R}
    {rel : S → Int} {test : Int → List α → S → Prop}
    {dec : ∀ x l s, Decidable (test x l s)} {exit : (S → R) → Int → List α → S → R}
    {nxt : Int → List α → S → S}
    (H : EnumShape loop rel test dec exit nxt)
    (k kb : S → R) (s : S) (lists : List (List α)) (v : R)
    (h2 : rel s < 0) (hne : lists ≠ [])
    (hb : exit kb 0 (PyRt.index lists 0) s = v) :
    loop k kb (pyEnumerate lists 0) s = v := by
  obtain ⟨l, rest, rfl⟩ := List.exists_cons_of_ne_nil hne
  have hl0 := PyRt.len_nonneg l
  simp only [pyEnumerate]
  rw [H.cons, if_pos ((H.test_iff 0 l s).2 (by omega))]
  rw [PyRt.index_zero] at hb
  exact hb

/-! ## the same scan written over the sub-lists themselves (`for cur in lists:` with a hand-kept counter) -/

structure ListShape {S R : Type} (loop : (S → R) → (S → R) → List (List α) → S → R)
    (rel : S → Int) (test : List α → S → Prop)
    (dec : ∀ l s, Decidable (test l s)) (exit : (S → R) → List α → S → R)
    (nxt : List α → S → S) : Prop where
  nil : ∀ k kb s, loop k kb [] s = k s
  cons : ∀ k kb l xs s, loop k kb (l :: xs) s =
      @ite R (test l s) (dec l s) (exit kb l s) (loop k kb xs (nxt l s))
  test_iff : ∀ l s, test l s ↔ rel s < PyRt.len l
  nxt_rel : ∀ l s, rel (nxt l s) = rel s - PyRt.len l

theorem ListShape.of_swapped {S R : Type} {loop : (S → R) → (S → R) → List (List α) → S → R}
    {rel : S → Int} {ntest : List α → S → Prop}
    {dec : ∀ l s, Decidable (ntest l s)} {exit : (S → R) → List α → S → R}
    {nxt : List α → S → S}
    (nil : ∀ k kb s, loop k kb [] s = k s)
    (cons : ∀ k kb l xs s, loop k kb (l :: xs) s =
      @ite R (ntest l s) (dec l s) (loop k kb xs (nxt l s)) (exit kb l s))
    (ntest_iff : ∀ l s, ntest l s ↔ ¬ rel s < PyRt.len l)
    (nxt_rel : ∀ l s, rel (nxt l s) = rel s - PyRt.len l) :
    ListShape loop rel (fun l s => ¬ ntest l s) (fun l s => @instDecidableNot _ (dec l s)) exit nxt where
  nil := nil
  cons := by
    intro k kb l xs s
    rw [cons]
    by_cases h : ntest l s
    · rw [if_pos h, if_neg (fun h' => h' h)]
    · rw [if_neg h, if_pos h]
  test_iff := by
    intro l s
    rw [ntest_iff]
    exact Classical.not_not
  nxt_rel := nxt_rel

/-- counters (`f (nxt s) = f s + 1`) have advanced by the number of sub-lists skipped, fields the loop
    body leaves alone are unchanged -/
theorem scan_list {S R : Type} {loop : (S → R) → (S → R) → List (List α) → S → R}
    {rel : S → Int} {test : List α → S → Prop}
    {dec : ∀ l s, Decidable (test l s)} {exit : (S → R) → List α → S → R}
    {nxt : List α → S → S}
    (H : ListShape loop rel test dec exit nxt) (k kb : S → R) :
    ∀ (suf pre : List (List α)) (r : Nat) (s : S), rel s = r → suf ≠ [] →
      ∃ s', rel s' = ((translate suf r).2 : Int) ∧
        (∀ (f : S → Int), (∀ l s, f (nxt l s) = f s + 1) → f s' = f s + ((translate suf r).1 : Int)) ∧
        (∀ (f : S → List (List α)), (∀ l s, f (nxt l s) = f s) → f s' = f s) ∧
        (loop k kb suf s
            = exit kb (PyRt.index (pre ++ suf) (PyRt.len pre + ((translate suf r).1 : Int))) s' ∨
         (loop k kb suf s
            = k (nxt (PyRt.index (pre ++ suf) (PyRt.len pre + ((translate suf r).1 : Int))) s') ∧
          PyRt.len pre + ((translate suf r).1 : Int) + 1 = PyRt.len (pre ++ suf))) := by
  intro suf
  induction suf with
  | nil => intro pre r s _ h; exact absurd rfl h
  | cons l rest ih =>
    intro pre r s h2 _
    have hl0 := PyRt.len_nonneg l
    rw [H.cons]
    have ht := H.test_iff l s
    have hn2 := H.nxt_rel l s
    rw [h2] at ht
    cases rest with
    | nil =>
      simp only [translate]
      by_cases hlt : (r : Int) < PyRt.len l
      · rw [if_pos (ht.2 hlt)]
        exact ⟨s, h2, fun _ _ => by simp, fun _ _ => rfl, Or.inl (by simp [PyRt.index_append_length])⟩
      · rw [if_neg (fun h => hlt (ht.1 h)), H.nil]
        exact ⟨s, h2, fun _ _ => by simp, fun _ _ => rfl, Or.inr ⟨by simp [PyRt.index_append_length],
          by rw [PyRt.len_append, PyRt.len_cons, PyRt.len_nil]; simp⟩⟩
    | cons l' ls =>
      by_cases hlt : (r : Int) < PyRt.len l
      · have hlt' : r < l.length := by unfold PyRt.len at hlt; omega
        rw [if_pos (ht.2 hlt)]
        exact ⟨s, by rw [h2]; simp [translate, hlt'], fun _ _ => by simp [translate, hlt'], fun _ _ => rfl,
          Or.inl (by simp [translate, hlt', PyRt.index_append_length])⟩
      · have hlt' : ¬ r < l.length := by unfold PyRt.len at hlt; omega
        rw [if_neg (fun h => hlt (ht.1 h))]
        have hpre : (PyRt.len pre + 1 : Int) = PyRt.len (pre ++ [l]) := by
          rw [PyRt.len_append, PyRt.len_cons, PyRt.len_nil]; omega
        have happ : pre ++ l :: l' :: ls = (pre ++ [l]) ++ (l' :: ls) := by simp
        obtain ⟨s', hs1, hsc, hsf, hs2⟩ := ih (pre ++ [l]) (r - l.length) (nxt l s)
          (by rw [hn2, h2]; simp only [PyRt.len]; omega) (by simp)
        rw [← happ, ← hpre] at hs2
        have hidx : PyRt.len pre + 1 + ((translate (l' :: ls) (r - l.length)).1 : Int)
            = PyRt.len pre + ((translate (l :: l' :: ls) r).1 : Int) := by
          simp only [translate, if_neg hlt']; push_cast; omega
        rw [hidx] at hs2
        refine ⟨s', ?_, ?_, fun f hf => by rw [hsf f hf, hf], hs2⟩
        · rw [hs1]; simp only [translate, if_neg hlt']
        · intro f hf
          rw [hsc f hf, hf]
          simp only [translate, if_neg hlt']; push_cast; omega

theorem scan_list_eq {S R : Type} {loop : (S → R) → (S → R) → List (List α) → S → R}
    {rel : S → Int} {test : List α → S → Prop}
    {dec : ∀ l s, Decidable (test l s)} {exit : (S → R) → List α → S → R}
    {nxt : List α → S → S}
    (H : ListShape loop rel test dec exit nxt)
    (k kb : S → R) (s : S) (lists : List (List α)) (r : Nat) (v : R)
    (h2 : rel s = r) (hne : lists ≠ [])
    (hb : ∀ s', rel s' = ((translate lists r).2 : Int) →
      (∀ (f : S → Int), (∀ l s, f (nxt l s) = f s + 1) → f s' = f s + ((translate lists r).1 : Int)) →
      (∀ (f : S → List (List α)), (∀ l s, f (nxt l s) = f s) → f s' = f s) →
      exit kb (PyRt.index lists ((translate lists r).1 : Int)) s' = v)
    (hk : ∀ s', rel s' = ((translate lists r).2 : Int) →
      (∀ (f : S → Int), (∀ l s, f (nxt l s) = f s + 1) → f s' = f s + ((translate lists r).1 : Int)) →
      (∀ (f : S → List (List α)), (∀ l s, f (nxt l s) = f s) → f s' = f s) →
      ((translate lists r).1 : Int) + 1 = PyRt.len lists →
      k (nxt (PyRt.index lists ((translate lists r).1 : Int)) s') = v) :
    loop k kb lists s = v := by
  obtain ⟨s', e2, ec, ef, e3⟩ := scan_list H k kb lists [] r s h2 hne
  simp only [List.nil_append, PyRt.len_nil, Int.zero_add] at e2 e3
  rcases e3 with e3 | ⟨e3, e4⟩
  · rw [e3]; exact hb s' e2 ec ef
  · rw [e3]; exact hk s' e2 ec ef e4

theorem scan_list_neg {S R : Type} {loop : (S → R) → (S → R) → List (List α) → S → R}
    {rel : S → Int} {test : List α → S → Prop}
    {dec : ∀ l s, Decidable (test l s)} {exit : (S → R) → List α → S → R}
    {nxt : List α → S → S}
    (H : ListShape loop rel test dec exit nxt)
    (k kb : S → R) (s : S) (lists : List (List α)) (v : R)
    (h2 : rel s < 0) (hne : lists ≠ [])
    (hb : exit kb (PyRt.index lists 0) s = v) :
    loop k kb lists s = v := by
  obtain ⟨l, rest, rfl⟩ := List.exists_cons_of_ne_nil hne
  have hl0 := PyRt.len_nonneg l
  rw [H.cons, if_pos ((H.test_iff l s).2 (by omega))]
  rw [PyRt.index_zero] at hb
  exact hb

/-- normal forms for exit tests written as a difference (`rel_idx - len_list < 0`, `len_list - rel_idx > 0`) -/
theorem sub_neg_iff (a b : Int) : a - b < 0 ↔ a < b := by omega
theorem sub_pos_iff (a b : Int) : 0 < a - b ↔ b < a := by omega
theorem sub_nonneg_iff (a b : Int) : 0 ≤ a - b ↔ b ≤ a := by omega
theorem sub_nonpos_iff (a b : Int) : a - b ≤ 0 ↔ a ≤ b := by omega

/-- an index inside the first sub-list stays there (what a "head access" fast path returns) -/
theorem translate_head (l : List α) (rest : List (List α)) (k : Nat) (h : k < l.length) :
    translate (l :: rest) k = (0, k) := by
  cases rest <;> simp [translate, h]

/-- `lists[-1]` is the sub-list whose number is `len(lists) - 1` -/
theorem index_neg_one_eq {β : Type} [Inhabited β] (l : List β) (i : Int) (h : i + 1 = PyRt.len l) :
    PyRt.index l (-1) = PyRt.index l i := by
  unfold PyRt.len at h
  by_cases hnil : l.length = 0
  · have : i = -1 := by omega
    rw [this]
  have hpos : 0 < l.length := by omega
  have e1 : PyRt.normIdx l (-1) = i := by
    unfold PyRt.normIdx; rw [if_pos (by omega)]; omega
  have e2 : PyRt.normIdx l i = i := by
    unfold PyRt.normIdx; rw [if_neg (by omega)]
  unfold PyRt.index
  rw [e1, e2]

/-- with a single sub-list every index is relative to it -/
theorem translate_single (l : List α) (k : Nat) : translate [l] k = (0, k) := rfl

end C10
