/-
C10 — model of `boltons.queueutils` (BasePriorityQueue / HeapPriorityQueue /
SortedPriorityQueue) and of the part of `boltons.listutils.BarrelList` the sorted
queue runs on (`__len__`, `__getitem__`, `_translate_index`, `_balance_list`,
`insert`, `pop`, `append`, `__iter__`), after the `fix:` commit that makes
`_translate_index` stay relative to the last sub-list when the index is past the end.

Transliteration rules
  * `BarrelList.lists` is a `List (List α)`; indices are naturals (the queue only
    ever uses `0`, `mid < len` and `0 ≤ lo ≤ len`);
  * `_cur_size_limit` is a parameter `limit : Nat → Nat` of the current length
    (the float formula lives in `curSizeLimit`, used by the driver only);
  * the `while` loops (`_balance_list`, `bisect`, `_cull`) take a fuel argument;
    `Proofs.lean` shows the fuel given by the callers suffices;
  * an entry `[priority, count, task]` is `Entry`; `task = none` is the `_REMOVED`
    tombstone; the in-place mutation `entry[-1] = _REMOVED` of the object shared by
    `_entry_map` and the backend is `mark count` (the counter is the identity of the
    shared object: `itertools.count` never repeats);
  * `_entry_map` (insertion-ordered dict) is an association list with unique keys
    in dict order, value = the shared entry's `(priority, count)`;
  * a backend is a record of operations (`Backend`); the theorems hold for every backend
    satisfying the min-queue laws (`Lawful`).  `binHeap` is `heapq` itself (heappush / heappop
    with their sift loops, on a list), `listHeap` a trivially correct "bag with extract-min";
    the driver runs both.
Core Lean only.
-/
namespace C10

/-! ## BarrelList -/

section Barrel
variable {α : Type}

/-- Python `l.insert(i, x)` for `i ≥ 0` (clamps past the end) -/
def pyInsert (i : Nat) (x : α) (l : List α) : List α := l.take i ++ x :: l.drop i

/-- `sum(len(l) for l in lists)` -/
def lenOf (ls : List (List α)) : Nat := (ls.map List.length).sum

/-- `_translate_index(index)` for `index ≥ 0`: `(list_idx, rel_idx)`.
    For the last sub-list both exits of the `for` give `rel_idx` unchanged
    (`break`: `rel_idx < len_list`; `else`: `rel_idx - len_list + len_list`). -/
def translate : List (List α) → Nat → Nat × Nat
  | [], i => (0, i)
  | [_], i => (0, i)
  | l :: l' :: ls, i =>
    if i < l.length then (0, i)
    else ((translate (l' :: ls) (i - l.length)).1 + 1, (translate (l' :: ls) (i - l.length)).2)

/-- the `while len(cur_list) > half_limit` loop of `_balance_list`: returns the shortened
    `cur_list` followed by the chunks inserted after it, in their final order.
    `cur_list[-half:]` is the whole list when `half = 0`. -/
def splitLoop (half : Nat) : Nat → List α → List (List α) → List (List α)
  | 0, cur, acc => cur :: acc
  | fuel + 1, cur, acc =>
    if cur.length > half then
      splitLoop half fuel (cur.take (if half = 0 then 0 else cur.length - half))
        (cur.drop (if half = 0 then 0 else cur.length - half) :: acc)
    else cur :: acc

/-- `_balance_list(list_idx)` -/
def balance (limit : Nat → Nat) (ls : List (List α)) (li : Nat) : List (List α) :=
  match ls[li]? with
  | none => ls
  | some cur =>
    if cur.length > limit (lenOf ls) then
      ls.take li ++ splitLoop (limit (lenOf ls) / 2) cur.length cur [] ++ ls.drop (li + 1)
    else ls

structure BL (α : Type) where
  lists : List (List α)
deriving Repr

/-- `BarrelList()` -/
def BL.empty : BL α := ⟨[[]]⟩

/-- `len(bl)` -/
def BL.len (b : BL α) : Nat := lenOf b.lists

/-- `list(bl)` -/
def BL.toList (b : BL α) : List α := b.lists.flatten

/-- `bl[i]`, `none` = IndexError -/
def BL.get? (b : BL α) (i : Nat) : Option α :=
  match b.lists[(translate b.lists i).1]? with
  | none => none
  | some l => l[(translate b.lists i).2]?

/-- `bl.insert(i, x)` -/
def BL.insert (limit : Nat → Nat) (b : BL α) (i : Nat) (x : α) : BL α :=
  if b.lists.length = 1 then
    ⟨balance limit (b.lists.modify 0 (pyInsert i x)) 0⟩
  else
    ⟨balance limit (b.lists.modify (translate b.lists i).1 (pyInsert (translate b.lists i).2 x))
      (translate b.lists i).1⟩

/-- `bl.pop(i)`, `none` = IndexError (state unchanged) -/
def BL.pop? (limit : Nat → Nat) (b : BL α) (i : Nat) : Option (α × BL α) :=
  match b.lists[(translate b.lists i).1]? with
  | none => none
  | some l =>
    match l[(translate b.lists i).2]? with
    | none => none
    | some x =>
      some (x, ⟨balance limit (b.lists.modify (translate b.lists i).1
                  (fun l => l.eraseIdx (translate b.lists i).2)) (translate b.lists i).1⟩)

/-- `bl.append(x)`: `self.lists[-1].append(x)` (no balancing) -/
def BL.append (b : BL α) (x : α) : BL α :=
  ⟨b.lists.modify (b.lists.length - 1) (fun l => l ++ [x])⟩

/-- the loop of `bisect.bisect_right(a, x)` over `len(a)` / `a[mid]`; `lt x y` is `x < y` -/
def bisectLoop (lt : α → α → Bool) (x : α) (b : BL α) : Nat → Nat → Nat → Nat
  | 0, lo, _ => lo
  | fuel + 1, lo, hi =>
    if lo < hi then
      match b.get? ((lo + hi) / 2) with
      | none => lo
      | some y =>
        if lt x y then bisectLoop lt x b fuel lo ((lo + hi) / 2)
        else bisectLoop lt x b fuel ((lo + hi) / 2 + 1) hi
    else lo

def bisectRight (lt : α → α → Bool) (x : α) (b : BL α) : Nat :=
  bisectLoop lt x b (b.len + 1) 0 b.len

/-- `bisect.insort(a, x)` -/
def insort (limit : Nat → Nat) (lt : α → α → Bool) (x : α) (b : BL α) : BL α :=
  b.insert limit (bisectRight lt x b) x

end Barrel

/-- Python's `round(x)` on floats: half to even -/
def pyRound (x : Float) : Float :=
  if (x - x.round).abs == 0.5 then 2.0 * (x / 2.0).round else x.round

/-- `_cur_size_limit = int(round(size_factor * math.log(len + 2, 2)))`; `math.log(x, 2)` is `log x / log 2` -/
def curSizeLimit (sf : Nat) (n : Nat) : Nat :=
  (pyRound (sf.toFloat * (Float.log (n + 2).toFloat / Float.log 2.0))).toUInt64.toNat

/-! ## priority queues -/

/-- `[priority, count, task]`; `priority` is the stored (already negated) number -/
structure Entry (T : Type) where
  prio : Int
  count : Nat
  task : Option T
deriving Repr, DecidableEq

variable {T : Type}

/-- Python list comparison `x < y` of two entries; entries of one queue never share
    a `count`, so the comparison never reaches the task -/
def Entry.lt (a b : Entry T) : Bool :=
  decide (a.prio < b.prio) || (decide (a.prio = b.prio) && decide (a.count < b.count))

/-- `entry[-1] = _REMOVED` on the entry object whose counter is `c` -/
def markEntry (c : Nat) (e : Entry T) : Entry T :=
  if e.count = c then { e with task := none } else e

/-- what BasePriorityQueue needs from `self._pq` -/
structure Backend (T : Type) (β : Type) where
  empty : β
  size : β → Nat                          -- `len(self._pq)` (also its truthiness)
  front : β → Option (Entry T)            -- `self._pq[0]`
  push : Entry T → β → β                  -- `_push_entry`
  popFront : β → Option (Entry T × β)     -- `_pop_entry`
  mark : Nat → β → β                      -- effect of `entry[-1] = _REMOVED` on the shared entry

/-- SortedPriorityQueue: `BList` + `insort` + `pop(0)` -/
def sortedBackend (limit : Nat → Nat) : Backend T (BL (Entry T)) where
  empty := BL.empty
  size := BL.len
  front := fun b => b.get? 0
  push := fun e b => insort limit Entry.lt e b
  popFront := fun b => b.pop? limit 0
  mark := fun c b => ⟨b.lists.map (fun l => l.map (markEntry c))⟩

/-- least entry of a list (first one among equals) -/
def minEntry : List (Entry T) → Option (Entry T)
  | [] => none
  | e :: es =>
    match minEntry es with
    | none => some e
    | some m => if m.lt e then some m else some e

/-- executable stand-in for `heapq` on a list: a bag with extract-min -/
def listHeap [DecidableEq T] : Backend T (List (Entry T)) where
  empty := []
  size := List.length
  front := minEntry
  push := fun e h => e :: h
  popFront := fun h => match minEntry h with
    | none => none
    | some m => some (m, h.erase m)
  mark := fun c h => h.map (markEntry c)

/-! ## heapq: the binary heap HeapPriorityQueue runs on

Transliteration of `heapq.heappush` / `heapq.heappop` with `_siftdown` / `_siftup` on a Python list,
as written: the travelling item is kept in a local (`newitem`), parents / children are copied into
the hole and `newitem` is written back once at the end.  `startpos` is always `0` for the two entry
points.  (`Heap.lean` proves these loops equal to a swapping formulation, on which the invariants
are stated.) -/
section Heap
variable {α : Type}

/-- the loop of `_siftdown(heap, 0, pos)` and the final `heap[pos] = newitem`; `x` is `newitem` -/
def siftDownLoop (lt : α → α → Bool) : Nat → List α → α → Nat → List α
  | 0, h, x, pos => h.set pos x
  | fuel + 1, h, x, pos =>
    if pos = 0 then h.set pos x else
    match h[(pos - 1) / 2]? with
    | some p => if lt x p then siftDownLoop lt fuel (h.set pos p) x ((pos - 1) / 2) else h.set pos x
    | none => h.set pos x

/-- the child `_siftup` follows: the right one if it exists and the left one is not smaller -/
def smallerChild (lt : α → α → Bool) (h : List α) (pos : Nat) : Nat :=
  match h[2 * pos + 1]?, h[2 * pos + 2]? with
  | some l, some r => if lt l r then 2 * pos + 1 else 2 * pos + 2
  | _, _ => 2 * pos + 1

/-- the first loop of `_siftup(heap, pos)`: `heap[pos] = heap[childpos]; pos = childpos` down to a
    leaf; returns the list (with a stale item in the hole) and the leaf position -/
def siftLeafLoop (lt : α → α → Bool) : Nat → List α → Nat → List α × Nat
  | 0, h, pos => (h, pos)
  | fuel + 1, h, pos =>
    if 2 * pos + 1 < h.length then
      match h[smallerChild lt h pos]? with
      | some y => siftLeafLoop lt fuel (h.set pos y) (smallerChild lt h pos)
      | none => (h, pos)
    else (h, pos)

/-- `_siftup(heap, 0)`: `newitem = heap[0]`, down to a leaf, `heap[pos] = newitem`, `_siftdown(heap, 0, pos)` -/
def pySiftUp (lt : α → α → Bool) (h : List α) : List α :=
  match h[0]? with
  | none => h
  | some x =>
    siftDownLoop lt ((siftLeafLoop lt h.length h 0).2 + 1) (siftLeafLoop lt h.length h 0).1 x
      (siftLeafLoop lt h.length h 0).2

/-- `heappush(heap, item)`: `heap.append(item); _siftdown(heap, 0, len(heap) - 1)` -/
def heappush (lt : α → α → Bool) (x : α) (h : List α) : List α :=
  siftDownLoop lt (h.length + 1) (h ++ [x]) x h.length

/-- `heappop(heap)`; `none` = IndexError (empty heap) -/
def heappop (lt : α → α → Bool) (h : List α) : Option (α × List α) :=
  match h.getLast? with
  | none => none
  | some last =>
    match h.dropLast with
    | [] => some (last, [])
    | first :: rest => some (first, pySiftUp lt (last :: rest))

end Heap

/-- HeapPriorityQueue: a Python list + `heappush` / `heappop` -/
def binHeap : Backend T (List (Entry T)) where
  empty := []
  size := List.length
  front := fun h => h[0]?
  push := heappush Entry.lt
  popFront := heappop Entry.lt
  mark := fun c h => h.map (markEntry c)

/-- `_entry_map` values: `(priority, count)` of the shared entry -/
abbrev EMap (T : Type) := List (T × Int × Nat)

def keyNe [DecidableEq T] (t : T) (x : T × Int × Nat) : Bool := !decide (x.1 = t)

/-- `dict.get(t)` -/
def emLookup [DecidableEq T] (t : T) : EMap T → Option (Int × Nat)
  | [] => none
  | x :: xs => if x.1 = t then some x.2 else emLookup t xs

/-- `del d[t]` / `d.pop(t)` on a dict (unique keys) -/
def emErase [DecidableEq T] (t : T) (m : EMap T) : EMap T := m.filter (keyNe t)

/-- `d[t] = v`: in place when present, else appended -/
def emSet [DecidableEq T] (t : T) (v : Int × Nat) : EMap T → EMap T
  | [] => [(t, v)]
  | x :: xs => if x.1 = t then (t, v) :: xs else x :: emSet t v xs

structure PQ (T β : Type) where
  pq : β
  emap : EMap T
  counter : Nat

inductive Op (T : Type) where
  | add (t : T) (p : Int)      -- `add(task, priority)`; `p` = the number `float(priority or 0)`
  | remove (t : T)
  | pop (dflt : Option Nat)    -- `pop()` = none / `pop(default)` = some i, i naming WHICH object was given
  | peek (dflt : Option Nat)
  | len
deriving Repr

inductive Out (T : Type) where
  | none                       -- returned None
  | task (t : T)
  | dflt (i : Nat)             -- returned the given default (object #i)
  | len (n : Nat)
  | keyError
  | indexError
  | sentinel                   -- returned `_REMOVED` itself (never happens; keeps the model total)
deriving Repr, DecidableEq

section Queue
variable {β : Type} [DecidableEq T] (B : Backend T β)

def PQ.init : PQ T β := ⟨B.empty, [], 0⟩

/-- `remove(task)`; `none` = KeyError -/
def PQ.remove (s : PQ T β) (t : T) : Option (PQ T β) :=
  match emLookup t s.emap with
  | none => none
  | some v => some ⟨B.mark v.2 s.pq, emErase t s.emap, s.counter⟩

/-- `if task in self._entry_map: self.remove(task)` -/
def PQ.dropOld (s : PQ T β) (t : T) : PQ T β :=
  match emLookup t s.emap with
  | none => s
  | some _ => (s.remove B t).getD s

/-- the rest of `add`: `count = next(counter); entry = [priority, count, task]; …` -/
def PQ.pushNew (s : PQ T β) (t : T) (p : Int) : PQ T β :=
  ⟨B.push ⟨-p, s.counter, some t⟩ s.pq, emSet t (-p, s.counter) s.emap, s.counter + 1⟩

/-- `add(task, priority)` with the default `priority_key` (`-float(p or 0)`) -/
def PQ.add (s : PQ T β) (t : T) (p : Int) : PQ T β := PQ.pushNew B (s.dropOld B t) t p

/-- the `while self._pq:` loop of `_cull` -/
def cull : Nat → β → β
  | 0, b => b
  | fuel + 1, b =>
    if B.size b = 0 then b else
    match B.front b with
    | none => b
    | some e =>
      match e.task with
      | some _ => b
      | none =>
        match B.popFront b with
        | none => b
        | some (_, b') => cull fuel b'

/-- `if default is not _REMOVED: return default` / `raise IndexError`: ANY given object is returned -/
def emptyOut (dflt : Option Nat) : Out T :=
  match dflt with
  | some i => .dflt i
  | none => .indexError

/-- `peek(default)` after `_cull()` left the backend `b` -/
def PQ.peekAt (s : PQ T β) (b : β) (dflt : Option Nat) : PQ T β × Out T :=
  if B.size b = 0 then (⟨b, s.emap, s.counter⟩, emptyOut dflt)
  else match B.front b with
    | none => (⟨b, s.emap, s.counter⟩, emptyOut dflt)
    | some e => (⟨b, s.emap, s.counter⟩, match e.task with | some t => .task t | none => .sentinel)

def PQ.peek (s : PQ T β) (dflt : Option Nat) : PQ T β × Out T :=
  s.peekAt B (cull B (B.size s.pq) s.pq) dflt

/-- `pop(default)` after `_cull()` left the backend `b` -/
def PQ.popAt (s : PQ T β) (b : β) (dflt : Option Nat) : PQ T β × Out T :=
  if B.size b = 0 then (⟨b, s.emap, s.counter⟩, emptyOut dflt)
  else match B.popFront b with
    | none => (⟨b, s.emap, s.counter⟩, emptyOut dflt)
    | some (e, b') =>
      match e.task with
      | none => (⟨b', s.emap, s.counter⟩, .keyError)
      | some t =>
        match emLookup t s.emap with
        | none => (⟨b', s.emap, s.counter⟩, .keyError)
        | some _ => (⟨b', emErase t s.emap, s.counter⟩, .task t)

def PQ.pop (s : PQ T β) (dflt : Option Nat) : PQ T β × Out T :=
  s.popAt B (cull B (B.size s.pq) s.pq) dflt

def PQ.step (s : PQ T β) : Op T → PQ T β × Out T
  | .add t p => (s.add B t p, .none)
  | .remove t => match s.remove B t with
    | none => (s, .keyError)
    | some s' => (s', .none)
  | .pop d => s.pop B d
  | .peek d => s.peek B d
  | .len => (s, .len s.emap.length)

/-- run a history, collecting every return value / exception -/
def PQ.runFrom (s : PQ T β) : List (Op T) → PQ T β × List (Out T)
  | [] => (s, [])
  | op :: ops =>
    ((PQ.runFrom (s.step B op).1 ops).1, (s.step B op).2 :: (PQ.runFrom (s.step B op).1 ops).2)

def PQ.run (ops : List (Op T)) : PQ T β × List (Out T) := PQ.runFrom B (PQ.init B) ops

end Queue

/-! ## priority arguments: the default `priority_key` (`-float(priority or 0)`), evaluated exactly

Every finite double is a dyadic rational `m / 2^e` (`float.as_integer_ratio`), so the key can be
computed without floating point: the harness hands the driver the priority AS PASSED to `add`
(`None`, a bool, an int, or the exact dyadic value of a float) and the model evaluates
`float(priority or 0)` itself.  A history's priorities are then scaled by a common power of two,
which turns them into the integers `Op.add` carries. -/

/-- a priority as `add` receives it -/
inductive PyPrio where
  | none                        -- `None` (also: argument left out)
  | bool (b : Bool)
  | int (n : Int)
  | float (m : Int) (e : Nat)   -- the finite float `m / 2^e`
deriving Repr, DecidableEq

/-- Python truthiness (`priority or 0` keeps a truthy value, replaces a falsy one by `0`) -/
def PyPrio.truthy : PyPrio → Bool
  | .none => false
  | .bool b => b
  | .int n => decide (n ≠ 0)
  | .float m _ => decide (m ≠ 0)

/-- `priority or 0` -/
def PyPrio.or0 (p : PyPrio) : PyPrio := if p.truthy then p else .int 0

/-- CPython's `int → float` for `n < 2^1024`: 53 significant bits, round half to even -/
def roundNat53 (n : Nat) : Nat :=
  if n < 2 ^ 53 then n else
    (if 2 ^ (n.log2 + 1 - 53 - 1) < n % 2 ^ (n.log2 + 1 - 53) ∨
        (n % 2 ^ (n.log2 + 1 - 53) = 2 ^ (n.log2 + 1 - 53 - 1) ∧ (n / 2 ^ (n.log2 + 1 - 53)) % 2 = 1)
      then n / 2 ^ (n.log2 + 1 - 53) + 1 else n / 2 ^ (n.log2 + 1 - 53)) * 2 ^ (n.log2 + 1 - 53)

def roundInt53 (n : Int) : Int :=
  if n < 0 then -((roundNat53 n.natAbs : Nat) : Int) else ((roundNat53 n.natAbs : Nat) : Int)

/-- the dyadic rational `m / 2^e` -/
structure Dy where
  m : Int
  e : Nat
deriving Repr, DecidableEq

/-- `float(x)` for `x` a bool / int / float (`float(None)` is a TypeError; never reached after `or 0`) -/
def PyPrio.toFloat : PyPrio → Dy
  | .none => ⟨0, 0⟩
  | .bool b => ⟨if b then 1 else 0, 0⟩
  | .int n => ⟨roundInt53 n, 0⟩
  | .float m e => ⟨m, e⟩

/-- the effective priority `float(priority or 0)` (the stored key is its negation) -/
def PyPrio.eff (p : PyPrio) : Dy := p.or0.toFloat

def Dy.neg (d : Dy) : Dy := ⟨-d.m, d.e⟩

/-- `d * 2^K` as an integer (exact when `d.e ≤ K`) -/
def Dy.scale (K : Nat) (d : Dy) : Int := d.m * 2 ^ (K - d.e)

/-- exact order of two dyadic rationals: `m₁/2^e₁ < m₂/2^e₂` -/
def Dy.lt (a b : Dy) : Prop := a.m * 2 ^ b.e < b.m * 2 ^ a.e

instance (a b : Dy) : Decidable (Dy.lt a b) := by unfold Dy.lt; exact inferInstance

/-- a history whose `add`s carry priorities of an arbitrary type `P` -/
inductive ROp (T P : Type) where
  | add (t : T) (p : P)
  | remove (t : T)
  | pop (dflt : Option Nat)
  | peek (dflt : Option Nat)
  | len
deriving Repr

/-- interpret the priorities by `f` -/
def ROp.toOp {T P : Type} (f : P → Int) : ROp T P → Op T
  | .add t p => .add t (f p)
  | .remove t => .remove t
  | .pop d => .pop d
  | .peek d => .peek d
  | .len => .len

/-- the priorities occurring in a history -/
def ROp.prios {T P : Type} : List (ROp T P) → List P
  | [] => []
  | .add _ p :: ops => p :: ROp.prios ops
  | _ :: ops => ROp.prios ops

/-- the largest exponent among a history's dyadic priorities -/
def maxExp {T : Type} (ops : List (ROp T Dy)) : Nat := ((ROp.prios ops).map Dy.e).foldr max 0

/-- what the driver runs: the history with every priority scaled by `2^maxExp` -/
def normalize {T : Type} (ops : List (ROp T Dy)) : List (Op T) := ops.map (ROp.toOp (Dy.scale (maxExp ops)))

/-! ## specification: live tasks with their priority, in order of (re-)insertion -/

abbrev Spec (T : Type) := List (T × Int)

section Spec
variable [DecidableEq T]

def taskNe (t : T) (x : T × Int) : Bool := !decide (x.1 = t)

/-- first element with the greatest priority -/
def best : Spec T → Option (T × Int)
  | [] => none
  | x :: xs =>
    match best xs with
    | none => some x
    | some y => if x.2 < y.2 then some y else some x

def Spec.has (s : Spec T) (t : T) : Bool := s.any (fun x => decide (x.1 = t))

def Spec.step (s : Spec T) : Op T → Spec T × Out T
  | .add t p => (s.filter (taskNe t) ++ [(t, p)], .none)
  | .remove t => if s.has t then (s.filter (taskNe t), .none) else (s, .keyError)
  | .pop d => match best s with
    | none => (s, emptyOut d)
    | some x => (s.filter (taskNe x.1), .task x.1)
  | .peek d => match best s with
    | none => (s, emptyOut d)
    | some x => (s, .task x.1)
  | .len => (s, .len s.length)

def Spec.runFrom (s : Spec T) : List (Op T) → Spec T × List (Out T)
  | [] => (s, [])
  | op :: ops =>
    ((Spec.runFrom (s.step op).1 ops).1, (s.step op).2 :: (Spec.runFrom (s.step op).1 ops).2)

def Spec.run (ops : List (Op T)) : Spec T × List (Out T) := Spec.runFrom [] ops

end Spec

end C10
