import BoltonsVerif.C10.Driver
/-
C10 — the driver's stack-safe loop computes exactly the outputs of `PQ.run`, the function the
theorems are about.
-/
namespace C10

theorem runOuts_go_eq {β : Type} (B : Backend Nat β) (s : PQ Nat β) (ops : List (Op Nat))
    (acc : List (Out Nat)) :
    Driver.runOuts.go B s ops acc = acc.reverse ++ (PQ.runFrom B s ops).2 := by
  induction ops generalizing s acc with
  | nil => simp [Driver.runOuts.go, PQ.runFrom]
  | cons op ops ih =>
    simp only [Driver.runOuts.go, PQ.runFrom]
    rw [ih]
    simp

theorem runOuts_eq {β : Type} (B : Backend Nat β) (ops : List (Op Nat)) :
    Driver.runOuts B ops = (PQ.run B ops).2 := by
  unfold Driver.runOuts PQ.run
  rw [runOuts_go_eq]
  simp

end C10
