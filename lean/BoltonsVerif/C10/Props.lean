import BoltonsVerif.C10.Proofs
/-
C10 — property theorems (statements + short derivations from `Proofs.lean`) and non-vacuity examples.
-/
namespace C10

/-- `list(bl.insert(i, x)) == list(bl)[:i] + [x] + list(bl)[i:]` for EVERY `i ≥ 0`, any number of
    sub-lists, any size-limit function — in particular `i = len(bl)` (the end-of-list case that was
    broken before the fix) -/
theorem barrel_flatten_insert {α : Type} (limit : Nat → Nat) (b : BL α) (h : b.ok) (i : Nat) (x : α) :
    (b.insert limit i x).toList = b.toList.take i ++ x :: b.toList.drop i :=
  BL.insert_toList limit b h i x

end C10
