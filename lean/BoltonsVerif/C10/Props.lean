import BoltonsVerif.C10.Backends
import BoltonsVerif.C10.Prio
import BoltonsVerif.C10.Heap
import BoltonsVerif.C10.DriverCorrect
import BoltonsVerif.C10.Plain
import BoltonsVerif.C10.Round
import BoltonsVerif.C10.Pure
import BoltonsVerif.C10.Inf
import BoltonsVerif.C10.Compact
/-
C10 — property theorems (statements + short derivations from Proofs/Queue/Backends.lean)
and non-vacuity examples.

Reading guide.  `Spec T = List (T × Int)` is the list of LIVE tasks with their priority in
order of (re-)insertion; `Spec.step` is the property statement read literally:
  add t p   : drop t if present, append (t, p)          ("replaces priority and arrival position")
  remove t  : KeyError if absent, else drop t
  pop/peek  : `best` = the FIRST task among those of GREATEST priority; empty -> IndexError/default
  len       : number of live tasks
Section A: BarrelList (`BL`) behaves like a plain list whatever the sub-list structure and
whatever the size-limit function.  Section B: the queue model over ANY backend satisfying the
min-queue laws (`Lawful`) — in particular over the BarrelList/insort backend and over the
heap stand-in — returns, for EVERY history, exactly what `Spec` returns.  Section C: the
clauses of the statement, spelled out for every history.
-/
namespace C10

/-! ## A. BarrelList index translation -/
section A
variable {α : Type}

/-- `list(bl.insert(i, x)) == list(bl)[:i] + [x] + list(bl)[i:]` for EVERY `i ≥ 0`, any number of
    sub-lists, any size-limit function — in particular `i = len(bl)` (broken before the fix) -/
theorem barrel_flatten_insert (limit : Nat → Nat) (b : BL α) (h : b.ok) (i : Nat) (x : α) :
    (b.insert limit i x).toList = b.toList.take i ++ x :: b.toList.drop i :=
  BL.insert_toList limit b h i x

/-- the same with core's `insertIdx`, for `0 ≤ i ≤ len` -/
theorem barrel_flatten_insertIdx (limit : Nat → Nat) (b : BL α) (h : b.ok) (i : Nat) (x : α)
    (hi : i ≤ b.len) : (b.insert limit i x).toList = b.toList.insertIdx i x := by
  rw [barrel_flatten_insert limit b h i x]
  rw [BL.len_eq] at hi
  generalize b.toList = l at hi
  induction l generalizing i with
  | nil => simp at hi; subst hi; simp
  | cons a as ih =>
    cases i with
    | zero => simp
    | succ k => simp [List.insertIdx_succ_cons, ih k (by simpa using hi)]

/-- the end-of-list case: `bl.insert(len(bl), x)` appends -/
theorem barrel_insert_at_end (limit : Nat → Nat) (b : BL α) (h : b.ok) (x : α) :
    (b.insert limit b.len x).toList = b.toList ++ [x] := by
  rw [barrel_flatten_insert limit b h, BL.len_eq]
  simp

/-- `insert` keeps the representation invariant (`lists` non-empty) -/
theorem barrel_insert_ok (limit : Nat → Nat) (b : BL α) (h : b.ok) (i : Nat) (x : α) :
    (b.insert limit i x).ok := BL.insert_ok limit b h i x

/-- `len(bl) == len(list(bl))` -/
theorem barrel_len (b : BL α) : b.len = b.toList.length := BL.len_eq b

/-- `bl[i] == list(bl)[i]`, IndexError exactly when `i ≥ len` -/
theorem barrel_getitem (b : BL α) (h : b.ok) (i : Nat) : b.get? i = b.toList[i]? := BL.get?_eq b h i

/-- `bl.pop(i)` raises IndexError exactly when `i ≥ len` … -/
theorem barrel_pop_error (limit : Nat → Nat) (b : BL α) (h : b.ok) (i : Nat) :
    b.pop? limit i = none ↔ b.len ≤ i := by
  rw [BL.len_eq]; exact BL.pop?_none limit b h i

/-- … and otherwise returns `list(bl)[i]` and leaves `list(bl)` without that position -/
theorem barrel_pop (limit : Nat → Nat) (b : BL α) (h : b.ok) (i : Nat) (x : α) (b' : BL α)
    (hp : b.pop? limit i = some (x, b')) :
    b.toList[i]? = some x ∧ b'.toList = b.toList.eraseIdx i ∧ b'.ok :=
  BL.pop?_some limit b h i x b' hp

/-- `_balance_list` never changes the contents, whatever the limit -/
theorem barrel_balance_contents (limit : Nat → Nat) (ls : List (List α)) (li : Nat) :
    (balance limit ls li).flatten = ls.flatten := balance_flatten limit ls li

/-- the `while` loop of `_balance_list` terminates within `len(cur_list)` rounds with the
    remaining `cur_list` no longer than `half_limit` (the model's fuel suffices) -/
theorem barrel_split_terminates (half : Nat) (cur : List α) :
    ∃ c rest, splitLoop half cur.length cur [] = c :: rest ∧ c.length ≤ half :=
  splitLoop_head_le half cur.length cur [] (Nat.le_refl _)

/-- `bisect_right` over `len`/`__getitem__` of an ascending BarrelList returns the position after
    the last element `≤ x` (and the model's fuel suffices) -/
theorem barrel_bisect_right (lt : α → α → Bool) (ho : BisectOrder lt) (x : α) (b : BL α) (hb : b.ok)
    (hs : Asc lt b.toList) :
    bisectRight lt x b ≤ b.toList.length ∧
    (∀ y ∈ b.toList.take (bisectRight lt x b), lt x y = false) ∧
    (∀ y ∈ b.toList.drop (bisectRight lt x b), lt x y = true) :=
  bisectRight_spec lt ho x b hb hs

/-- `insort` keeps an ascending BarrelList ascending (and only adds `x`) -/
theorem sorted_preserved (limit : Nat → Nat) (lt : α → α → Bool) (ho : BisectOrder lt)
    (hirr : ∀ a b, lt a b = true → lt b a = false) (x : α) (b : BL α) (hb : b.ok)
    (hs : Asc lt b.toList) :
    Asc lt (insort limit lt x b).toList ∧ (insort limit lt x b).toList.Perm (x :: b.toList) := by
  refine ⟨insort_asc limit lt ho hirr x b hb hs, ?_⟩
  rw [insort_toList limit lt x b hb]
  exact pyInsert_perm _ _ _

/-- record of the repaired defect: with the unfixed index translation, inserting at the very end of
    a BarrelList with two sub-lists put the item at the FRONT of the last sub-list -/
theorem unfixed_insert_at_end_misplaces :
    (insertUnfixed [[1, 2], [3, 4]] 4 5).flatten = [1, 2, 5, 3, 4] ∧
    (BL.insert (fun _ => 100) ⟨[[1, 2], [3, 4]]⟩ 4 5).toList = [1, 2, 3, 4, 5] := by decide

end A

/-! ## A'. heapq on a list -/
section Aheap
variable {α : Type}

/-- `heappush` keeps the heap invariant and adds exactly the pushed item, for any comparison that is
    a total preorder (Python's `<` on entries is one: `comparisons_never_reach_task`) -/
theorem heapq_heappush (lt : α → α → Bool) (ho : HeapOrder lt) (x : α) (h : List α)
    (hI : HeapInv lt h) :
    HeapInv lt (heappush lt x h) ∧ (heappush lt x h).Perm (x :: h) := heappush_spec ho x h hI

/-- `heappop` raises IndexError exactly on the empty list; otherwise it returns the root, which is a
    least item, removes exactly that item and keeps the heap invariant (the fuel given to the two
    sift loops suffices) -/
theorem heapq_heappop [DecidableEq α] (lt : α → α → Bool) (ho : HeapOrder lt) (h : List α)
    (hI : HeapInv lt h) :
    (h = [] → heappop lt h = none) ∧
    (h ≠ [] → ∃ e h', heappop lt h = some (e, h') ∧ h[0]? = some e ∧ (∀ x ∈ h, lt x e = false) ∧
      HeapInv lt h' ∧ h'.Perm (h.erase e)) := by
  constructor
  · intro hnil; subst hnil; rfl
  · intro hne
    obtain ⟨e, h', h1, h2, h3, h4⟩ := heappop_spec ho h hI hne
    exact ⟨e, h', h1, h2, heap_root_min ho h hI e h2, h3, h4⟩

end Aheap

/-! ## B. refinement -/
section B
variable {T : Type} [DecidableEq T]

/-- the BarrelList/insort/pop(0) backend satisfies the min-queue laws for every size-limit function -/
theorem sorted_backend_lawful (limit : Nat → Nat) :
    Lawful (sortedBackend (T := T) limit) sortedWf BL.toList := sorted_lawful limit

/-- so does the driver's stand-in for heapq -/
theorem heap_standin_lawful : Lawful (listHeap (T := T)) (fun _ => True) id := listHeap_lawful

/-- MAIN: over any lawful backend, every history of add / re-add / remove / pop / peek / len
    yields exactly the specification's return values and exceptions, and the reached state
    stands for the specification's state -/
theorem lawful_backend_refines_spec {β : Type} (B : Backend T β) (wf : β → Prop)
    (content : β → List (Entry T)) (L : Lawful B wf content) (ops : List (Op T)) :
    (PQ.run B ops).2 = (Spec.run ops).2 ∧ absSpec (PQ.run B ops).1 = (Spec.run ops).1 :=
  ⟨(run_sim L ops).2.2, (run_sim L ops).2.1⟩

/-- SortedPriorityQueue (any number of sub-lists, any size limits) -/
theorem sorted_refines_spec (limit : Nat → Nat) (ops : List (Op T)) :
    (PQ.run (sortedBackend limit) ops).2 = (Spec.run ops).2 :=
  (run_sim (sorted_lawful limit) ops).2.2

/-- HeapPriorityQueue (heapq abstracted to the min-queue laws) -/
theorem heap_refines_spec (ops : List (Op T)) :
    (PQ.run listHeap ops).2 = (Spec.run ops).2 :=
  (run_sim listHeap_lawful ops).2.2

/-- `heapq` itself - `heappush` / `heappop` with their `_siftdown` / `_siftup` loops on a Python
    list - satisfies the min-queue laws (wf = the heap invariant, content = the list) -/
theorem heapq_lawful : Lawful (binHeap (T := T)) (HeapInv Entry.lt) id := binHeap_lawful

/-- HeapPriorityQueue over the modelled `heapq`: every history returns what the specification returns -/
theorem heapq_refines_spec (ops : List (Op T)) :
    (PQ.run binHeap ops).2 = (Spec.run ops).2 :=
  (run_sim binHeap_lawful ops).2.2

/-- SortedPriorityQueue (BarrelList + insort) and HeapPriorityQueue (list + heapq) are observationally
    identical, at any queue size, for any size-limit function - no trusted stand-in involved -/
theorem heapq_sorted_observationally_equal (limit : Nat → Nat) (ops : List (Op T)) :
    (PQ.run (sortedBackend limit) ops).2 = (PQ.run binHeap ops).2 := by
  rw [sorted_refines_spec, heapq_refines_spec]

/-- the heap backend of every reachable state satisfies the heap invariant -/
theorem heapq_backend_always_heap (ops : List (Op T)) :
    HeapInv Entry.lt (PQ.run binHeap ops).1.pq :=
  (run_sim binHeap_lawful ops).1.wf

/-- the two implementations are observationally identical, at any queue size -/
theorem heap_sorted_observationally_equal (limit : Nat → Nat) (ops : List (Op T)) :
    (PQ.run (sortedBackend limit) ops).2 = (PQ.run listHeap ops).2 := by
  rw [sorted_refines_spec, heap_refines_spec]

/-- … and so are any two lawful backends -/
theorem lawful_backends_observationally_equal {β β' : Type} (B : Backend T β) (B' : Backend T β')
    (wf : β → Prop) (content : β → List (Entry T)) (wf' : β' → Prop) (content' : β' → List (Entry T))
    (L : Lawful B wf content) (L' : Lawful B' wf' content') (ops : List (Op T)) :
    (PQ.run B ops).2 = (PQ.run B' ops).2 := by
  rw [(run_sim L ops).2.2, (run_sim L' ops).2.2]

/-- the sorted backend of every reachable state is ascending by `(priority, count)` -/
theorem sorted_backend_always_sorted (limit : Nat → Nat) (ops : List (Op T)) :
    Asc Entry.lt (PQ.run (sortedBackend limit) ops).1.pq.toList :=
  (run_sim (sorted_lawful limit) ops).1.wf.2

/-- `SortedPriorityQueue` over the BarrelList IS `SortedPriorityQueue` over a plain Python list (what
    `queueutils` uses when `BList` cannot be imported): for every history and EVERY size-limit function
    the return values are the same, and after the history the items of the BarrelList - tombstones
    included, in order - are exactly the plain list; `_entry_map` and the counter agree too -/
theorem barrel_queue_is_plain_list_queue (limit : Nat → Nat) (ops : List (Op T)) :
    (PQ.run (sortedBackend limit) ops).2 = (PQ.run plainBackend ops).2 ∧
    (PQ.run (sortedBackend limit) ops).1.pq.toList = (PQ.run plainBackend ops).1.pq ∧
    (PQ.run (sortedBackend limit) ops).1.emap = (PQ.run plainBackend ops).1.emap ∧
    (PQ.run (sortedBackend limit) ops).1.counter = (PQ.run plainBackend ops).1.counter :=
  ⟨(run_rel (sorted_sim_plain limit) ops).2, (run_rel (sorted_sim_plain limit) ops).1.1.2,
    (run_rel (sorted_sim_plain limit) ops).1.2.1, (run_rel (sorted_sim_plain limit) ops).1.2.2⟩

/-- the queue does not depend on `BarrelList._size_factor` / `_cur_size_limit`: any two size-limit
    functions give the same return values for every history AND the same backend content (as a flat
    list, tombstones included) - only the cut into sub-lists differs -/
theorem sorted_queue_independent_of_size_limit (limit limit' : Nat → Nat) (ops : List (Op T)) :
    (PQ.run (sortedBackend limit) ops).2 = (PQ.run (sortedBackend limit') ops).2 ∧
    (PQ.run (sortedBackend limit) ops).1.pq.toList = (PQ.run (sortedBackend limit') ops).1.pq.toList ∧
    (PQ.run (sortedBackend limit) ops).1.emap = (PQ.run (sortedBackend limit') ops).1.emap := by
  have h := barrel_queue_is_plain_list_queue limit ops
  have h' := barrel_queue_is_plain_list_queue limit' ops
  exact ⟨h.1.trans h'.1.symm, h.2.1.trans h'.2.1.symm, h.2.2.1.trans h'.2.2.1.symm⟩

/-- the sub-list structure never matters to `insort`: `bisect_right` finds the same insertion point in
    any two BarrelLists holding the same items -/
theorem barrel_bisect_independent_of_structure {α : Type} (lt : α → α → Bool) (x : α) (b b' : BL α)
    (hb : b.ok) (hb' : b'.ok) (h : b.toList = b'.toList) :
    bisectRight lt x b = bisectRight lt x b' :=
  bisectRight_congr lt x b b' hb hb' h

/-- the compiled driver used by the correspondence check evaluates exactly `PQ.run` (the function
    all theorems here are about), and therefore prints the specification's outputs -/
theorem driver_runs_the_model (sf : Nat) (ops : List (Op Nat)) :
    Driver.runOuts (sortedBackend (curSizeLimit sf)) ops = (Spec.run ops).2 ∧
    Driver.runOuts listHeap ops = (Spec.run ops).2 ∧
    Driver.runOuts binHeap ops = (Spec.run ops).2 := by
  rw [runOuts_eq, runOuts_eq, runOuts_eq]
  exact ⟨(run_sim (sorted_lawful _) ops).2.2, (run_sim listHeap_lawful ops).2.2,
    (run_sim binHeap_lawful ops).2.2⟩

end B

/-! ## C. the clauses of the statement, for every history -/
section C
variable {T : Type} [DecidableEq T]

/-- a task is live at most once (so `len` counts tasks) -/
theorem live_tasks_nodup (ops : List (Op T)) : ((live ops).map Prod.fst).Nodup := by
  obtain ⟨hI, habs, _⟩ := run_sim (listHeap_lawful (T := T)) ops
  have := hI.knodup
  unfold live
  rw [← habs]
  unfold absSpec
  rw [List.map_map]
  exact this

/-- pop/peek return exactly the task of HIGHEST priority, the EARLIEST (re-)inserted among equals:
    every live task inserted before it has strictly lower priority, none inserted after it has higher -/
theorem pop_returns_max_priority_fifo {β : Type} {B : Backend T β} {wf : β → Prop}
    {content : β → List (Entry T)} (L : Lawful B wf content) (ops : List (Op T)) (d : Option Nat) (t : T)
    (h : nextOut B ops (.pop d) = .task t ∨ nextOut B ops (.peek d) = .task t) :
    ∃ p pre post, live ops = pre ++ (t, p) :: post ∧
      (∀ y ∈ pre, y.2 < p) ∧ (∀ y ∈ post, y.2 ≤ p) := by
  rw [nextOut_eq_spec L, nextOut_eq_spec L] at h
  simp only [Spec.step] at h
  cases hb : best (live ops) with
  | none => cases d <;> simp [hb, emptyOut] at h
  | some x =>
    simp only [hb, Out.task.injEq, or_self] at h
    obtain ⟨pre, post, h1, h2, h3⟩ := best_decomp (live ops) x hb
    refine ⟨x.2, pre, post, ?_, h2, h3⟩
    rw [h1, ← h]

/-- pop/peek on an empty queue raise IndexError when no default was given and return THE GIVEN
    default - whichever object `i` that is - when one was given; on a non-empty queue they return a task -/
theorem empty_pop_default {β : Type} {B : Backend T β} {wf : β → Prop}
    {content : β → List (Entry T)} (L : Lawful B wf content) (ops : List (Op T)) :
    (live ops = [] →
      nextOut B ops (.pop none) = .indexError ∧ nextOut B ops (.peek none) = .indexError ∧
      ∀ i, nextOut B ops (.pop (some i)) = .dflt i ∧ nextOut B ops (.peek (some i)) = .dflt i) ∧
    (live ops ≠ [] → ∀ d,
      (∃ t, nextOut B ops (.pop d) = .task t) ∧ (∃ t, nextOut B ops (.peek d) = .task t)) := by
  constructor
  · intro h
    refine ⟨?_, ?_, fun i => ⟨?_, ?_⟩⟩ <;>
      (rw [nextOut_eq_spec L]; simp [Spec.step, h, best, emptyOut])
  · intro h d
    rw [nextOut_eq_spec L, nextOut_eq_spec L]
    simp only [Spec.step]
    cases hb : best (live ops) with
    | none => exact absurd ((best_eq_none _).mp hb) h
    | some x => exact ⟨⟨x.1, rfl⟩, ⟨x.1, rfl⟩⟩

/-- `peek` announces exactly what the next `pop` returns (task, default or IndexError) -/
theorem peek_agrees_with_pop {β : Type} {B : Backend T β} {wf : β → Prop}
    {content : β → List (Entry T)} (L : Lawful B wf content) (ops : List (Op T)) (d : Option Nat) :
    nextOut B ops (.peek d) = nextOut B ops (.pop d) := by
  rw [nextOut_eq_spec L, nextOut_eq_spec L]
  simp only [Spec.step]
  cases best (live ops) <;> rfl

/-- the `default` argument plays no role unless the queue is empty - whichever object it is, in particular
    when it IS (or equals) the head task itself (`pop(None)` on a queue holding the task `None`): `pop(d)`
    returns what `pop()` returns and leaves exactly the live tasks `pop()` leaves, so the head task is
    gone afterwards; on an empty queue both leave it empty -/
theorem pop_removes_head_whatever_the_default {β : Type} {B : Backend T β} {wf : β → Prop}
    {content : β → List (Entry T)} (L : Lawful B wf content) (ops : List (Op T)) (d : Option Nat) :
    live (ops ++ [.pop d]) = live (ops ++ [.pop none]) ∧
    (live ops ≠ [] → nextOut B ops (.pop d) = nextOut B ops (.pop none) ∧
      (live (ops ++ [.pop d])).length + 1 = (live ops).length ∧
      ∀ t, nextOut B ops (.pop d) = .task t → t ∉ (live (ops ++ [.pop d])).map Prod.fst) := by
  have happ : ∀ op : Op T, live (ops ++ [op]) = ((live ops).step op).1 := by
    intro op
    show (Spec.runFrom [] (ops ++ [op])).1 = _
    rw [runFrom_append]
    simp only [Spec.runFrom]
    rfl
  refine ⟨?_, fun hne => ?_⟩
  · rw [happ, happ]
    simp only [Spec.step]
    cases best (live ops) <;> rfl
  · rw [nextOut_eq_spec L, nextOut_eq_spec L, happ]
    simp only [Spec.step]
    cases hb : best (live ops) with
    | none => exact absurd ((best_eq_none _).mp hb) hne
    | some x =>
      obtain ⟨pre, post, h1, _, _⟩ := best_decomp (live ops) x hb
      have hnd := live_tasks_nodup ops
      refine ⟨rfl, ?_, ?_⟩
      · simp only []
        rw [h1] at hnd ⊢
        have hpre : ∀ y ∈ pre, y.1 ≠ x.1 := by
          intro y hy he
          rw [List.map_append, List.map_cons] at hnd
          have := (List.nodup_append.mp hnd).2.2 y.1 (List.mem_map_of_mem hy) x.1 (by simp)
          exact this he
        have hpost : ∀ y ∈ post, y.1 ≠ x.1 := by
          intro y hy he
          rw [List.map_append, List.map_cons] at hnd
          have h2 := (List.nodup_cons.mp (List.nodup_append.mp hnd).2.1).1
          exact h2 (he ▸ List.mem_map_of_mem hy)
        have e1 : pre.filter (taskNe x.1) = pre :=
          List.filter_eq_self.mpr (fun y hy => by simp [taskNe, hpre y hy])
        have e2 : post.filter (taskNe x.1) = post :=
          List.filter_eq_self.mpr (fun y hy => by simp [taskNe, hpost y hy])
        simp [List.filter_append, e1, e2, taskNe]
        omega
      · intro t ht
        simp only [Out.task.injEq] at ht
        subst ht
        simp [List.mem_filter, taskNe]

/-- superseded entries (tombstones) are unobservable: two queue states - even over two DIFFERENT lawful
    backends - that satisfy the invariant and stand for the same live tasks return the same values for
    every continuation, however many entries marked `_REMOVED` each of them still carries -/
theorem backend_layout_is_unobservable {β β' : Type} {B : Backend T β} {wf : β → Prop}
    {content : β → List (Entry T)} {B' : Backend T β'} {wf' : β' → Prop} {content' : β' → List (Entry T)}
    (L : Lawful B wf content) (L' : Lawful B' wf' content') (s : PQ T β) (s' : PQ T β')
    (hI : Inv wf content s) (hI' : Inv wf' content' s') (h : absSpec s' = absSpec s) (ops : List (Op T)) :
    (PQ.runFrom B' s' ops).2 = (PQ.runFrom B s ops).2 :=
  (layout_unobservable L L' s s' hI hI' h ops).1

/-- after ANY history `ops1` (e.g. thousands of re-prioritisations of a bounded task set), replacing the
    backend by one rebuilt from its live entries - taken in any order `es` - through the backend's own
    `push` (`heappush` / `insort`) changes no return value of any continuation `ops2`, and the rebuilt
    backend holds exactly the live entries.  (A clean-up is safe as long as it re-establishes the backend's
    representation invariant; installing the filtered heap array as it is does not.) -/
theorem compaction_is_unobservable {β : Type} {B : Backend T β} {wf : β → Prop}
    {content : β → List (Entry T)} (L : Lawful B wf content) (ops1 ops2 : List (Op T)) (es : List (Entry T))
    (hes : es.Perm (liveEntries (content (PQ.run B ops1).1.pq))) :
    (PQ.runFrom B ((PQ.run B ops1).1.compact B es) ops2).2 = (PQ.runFrom B (PQ.run B ops1).1 ops2).2 ∧
    (content ((PQ.run B ops1).1.compact B es).pq).Perm (liveEntries (content (PQ.run B ops1).1.pq)) ∧
    (content ((PQ.run B ops1).1.compact B es).pq).length = (live ops1).length := by
  obtain ⟨hI, habs, _⟩ := run_sim L ops1
  obtain ⟨hI', _⟩ := compact_inv L _ hI es hes
  refine ⟨compact_unobservable L _ hI es hes ops2, (rebuild_spec L es).2.trans hes, ?_⟩
  -- the rebuilt backend has one entry per live task
  have hlen : (content ((PQ.run B ops1).1.compact B es).pq).length = ((PQ.run B ops1).1.compact B es).emap.length := by
    have hnd : (content ((PQ.run B ops1).1.compact B es).pq).Nodup := content_nodup _ hI'
    have hall : ∀ e ∈ content ((PQ.run B ops1).1.compact B es).pq, e.task.isSome = true := by
      intro e he
      have := ((rebuild_spec L es).2.trans hes).mem_iff.mp he
      exact ((mem_liveEntries _ e).mp this).2
    -- entries <-> map items, both duplicate-free
    let f : T × Int × Nat → Entry T := fun x => ⟨x.2.1, x.2.2, some x.1⟩
    have hk : (((PQ.run B ops1).1.compact B es).emap).Pairwise (fun a b => a.1 ≠ b.1) := by
      have := hI'.knodup
      unfold List.Nodup at this
      exact List.pairwise_map.mp this
    have hfnd : ((((PQ.run B ops1).1.compact B es).emap).map f).Nodup := by
      unfold List.Nodup
      refine List.pairwise_map.mpr (hk.imp ?_)
      intro a b h hab
      simp only [f, Entry.mk.injEq, Option.some.injEq] at hab
      exact h hab.2.2
    have hperm : (content ((PQ.run B ops1).1.compact B es).pq).Perm ((((PQ.run B ops1).1.compact B es).emap).map f) := by
      rw [List.perm_ext_iff_of_nodup hnd hfnd]
      intro e
      constructor
      · intro he
        obtain ⟨t, ht⟩ := Option.isSome_iff_exists.mp (hall e he)
        have : (⟨e.prio, e.count, some t⟩ : Entry T) ∈ content ((PQ.run B ops1).1.compact B es).pq := by
          have : (⟨e.prio, e.count, some t⟩ : Entry T) = e := by cases e; simp_all
          rw [this]; exact he
        have hm := (hI'.live t e.prio e.count).mpr this
        refine List.mem_map.mpr ⟨(t, e.prio, e.count), hm, ?_⟩
        cases e; simp_all [f]
      · intro he
        obtain ⟨x, hx, rfl⟩ := List.mem_map.mp he
        exact (hI'.live x.1 x.2.1 x.2.2).mp hx
    rw [hperm.length_eq, List.length_map]
  rw [hlen]
  have hl : live ops1 = absSpec (PQ.run B ops1).1 := habs.symm
  rw [hl]
  simp [absSpec, PQ.compact]

/-- ... whereas installing the heap array with the tombstones merely FILTERED OUT (no re-heapify; the
    seeded change C10-15) can be observed: kernel-checked record of a history after which the queue pops
    task 3 (priority -5) although task 5 (priority -4) is live.  The heap `[1, 2†, 5, 10, 4, 20]`
    (priorities negated, † = removed) becomes `[1, 5, 10, 4, 20]`, where 4 sits below 5 -/
theorem unheapified_compaction_is_observable :
    ∃ ops1 ops2 : List (Op Nat),
      (PQ.runFrom binHeap (⟨liveEntries (PQ.run binHeap ops1).1.pq, (PQ.run binHeap ops1).1.emap,
          (PQ.run binHeap ops1).1.counter⟩ : PQ Nat (List (Entry Nat))) ops2).2 = [.task 1, .task 3] ∧
      (PQ.runFrom binHeap (PQ.run binHeap ops1).1 ops2).2 = [.task 1, .task 5] ∧
      (PQ.runFrom binHeap ((PQ.run binHeap ops1).1.compact binHeap
          (liveEntries (PQ.run binHeap ops1).1.pq)) ops2).2 = [.task 1, .task 5] :=
  ⟨[.add 1 (-1), .add 2 (-2), .add 3 (-5), .add 4 (-10), .add 5 (-4), .add 6 (-20), .remove 2],
   [.pop none, .pop none], by decide⟩

/-- `peek` and `len` are pure observations although `peek` culls tombstones from the backend: deleting
    every `peek` / `len` call from a history changes neither the live tasks nor the return value of any
    remaining call (`add`, `remove`, `pop`) -/
theorem peek_and_len_are_unobservable {β : Type} {B : Backend T β} {wf : β → Prop}
    {content : β → List (Entry T)} (L : Lawful B wf content) (ops : List (Op T)) :
    (PQ.run B (ops.filter isUpdate)).2 = ((ops.zip (PQ.run B ops).2).filter updOut).map Prod.snd ∧
    live (ops.filter isUpdate) = live ops := by
  rw [(run_sim L _).2.2, (run_sim L _).2.2]
  exact ⟨(spec_strip ops []).2, (spec_strip ops []).1⟩

/-- `len` is the number of live tasks -/
theorem len_eq_live {β : Type} {B : Backend T β} {wf : β → Prop}
    {content : β → List (Entry T)} (L : Lawful B wf content) (ops : List (Op T)) :
    nextOut B ops .len = .len (live ops).length := by
  rw [nextOut_eq_spec L]; rfl

/-- `sortDesc` (used below) really is "by descending priority, earlier (re-)insertion first among
    equals": a permutation, descending, and stable -/
theorem sortDesc_is_stable_descending_sort (s : Spec T) :
    (sortDesc s).Perm s ∧ (sortDesc s).Pairwise (fun a b => b.2 ≤ a.2) ∧
    ∀ p, (sortDesc s).filter (hasPrio p) = s.filter (hasPrio p) := by
  refine ⟨sortDesc_perm s, sortDesc_sorted s, ?_⟩
  intro p
  rw [← sortDesc_filter]
  apply sortDesc_of_same_prio p
  intro x hx
  simpa [hasPrio] using (List.mem_filter.mp hx).2

/-- draining: after ANY history, popping `len` times returns all live tasks ordered by descending
    priority, earliest (re-)insertion first among equals, and leaves the queue empty -/
theorem drain_returns_sorted {β : Type} {B : Backend T β} {wf : β → Prop}
    {content : β → List (Entry T)} (L : Lawful B wf content) (ops : List (Op T)) (d : Option Nat) :
    ((PQ.run B (ops ++ List.replicate (live ops).length (.pop d))).2).drop ops.length
      = (sortDesc (live ops)).map (fun x => Out.task x.1) ∧
    live (ops ++ List.replicate (live ops).length (.pop d)) = [] := by
  rw [(run_sim L _).2.2]
  unfold live Spec.run
  rw [runFrom_append]
  have hlen : ∀ (s : Spec T) (os : List (Op T)), (Spec.runFrom s os).2.length = os.length := by
    intro s os
    induction os generalizing s with
    | nil => rfl
    | cons o os ih => simp [Spec.runFrom, ih]
  obtain ⟨h1, h2⟩ := spec_drain d _ (Spec.runFrom ([] : Spec T) ops).1 (live_tasks_nodup ops) rfl
  simp only
  refine ⟨?_, h2⟩
  rw [List.drop_append_of_le_length (by rw [hlen]; exact Nat.le_refl _), ← hlen ([] : Spec T) ops,
    List.drop_length, List.nil_append]
  exact h1

/-- a returned task is live -/
theorem returned_task_is_live {β : Type} {B : Backend T β} {wf : β → Prop}
    {content : β → List (Entry T)} (L : Lawful B wf content) (ops : List (Op T)) (d : Option Nat) (t : T)
    (h : nextOut B ops (.pop d) = .task t ∨ nextOut B ops (.peek d) = .task t) :
    t ∈ (live ops).map Prod.fst := by
  obtain ⟨p, pre, post, hs, _, _⟩ := pop_returns_max_priority_fifo L ops d t h
  rw [hs]; simp

/-- `add` returns None; `remove` raises KeyError exactly when the task is not live -/
theorem add_remove_results {β : Type} {B : Backend T β} {wf : β → Prop}
    {content : β → List (Entry T)} (L : Lawful B wf content) (ops : List (Op T)) (t : T) (p : Int) :
    nextOut B ops (.add t p) = .none ∧
    (t ∈ (live ops).map Prod.fst → nextOut B ops (.remove t) = .none) ∧
    (t ∉ (live ops).map Prod.fst → nextOut B ops (.remove t) = .keyError) := by
  rw [nextOut_eq_spec L, nextOut_eq_spec L]
  refine ⟨rfl, ?_, ?_⟩
  · intro h
    obtain ⟨x, hx, hxt⟩ := List.mem_map.mp h
    have : (live ops).has t = true := by
      unfold Spec.has; rw [List.any_eq_true]; exact ⟨x, hx, by simp [hxt]⟩
    simp [Spec.step, this]
  · intro h
    have : (live ops).has t = false := by
      cases hh : (live ops).has t with
      | false => rfl
      | true =>
        unfold Spec.has at hh
        rw [List.any_eq_true] at hh
        obtain ⟨x, hx, hxt⟩ := hh
        exact absurd (List.mem_map.mpr ⟨x, hx, by simpa using hxt⟩) h
    simp [Spec.step, this]

/-- re-adding a task replaces its priority and moves it to the back of the arrival order;
    adding a new task appends it -/
theorem readd_moves_to_back (ops : List (Op T)) (t : T) (p : Int) :
    live (ops ++ [.add t p]) = (live ops).filter (taskNe t) ++ [(t, p)] := by
  unfold live Spec.run
  rw [runFrom_append]
  simp [Spec.runFrom, Spec.step]

/-- a removed task is never returned again (until it is re-added): after `remove t`, no later
    pop/peek of a history without `add t` returns `t` -/
theorem removed_never_returned {β : Type} {B : Backend T β} {wf : β → Prop}
    {content : β → List (Entry T)} (L : Lawful B wf content) (ops1 ops2 : List (Op T)) (t : T)
    (hops : ∀ op ∈ ops2, isAddOf t op = false) :
    Out.task t ∉ ((PQ.run B (ops1 ++ .remove t :: ops2)).2).drop (ops1.length + 1) := by
  rw [(run_sim L _).2.2]
  unfold Spec.run
  have happ : ops1 ++ Op.remove t :: ops2 = (ops1 ++ [Op.remove t]) ++ ops2 := by simp
  rw [happ, runFrom_append]
  have hlen : ∀ (s : Spec T) (ops : List (Op T)), (Spec.runFrom s ops).2.length = ops.length := by
    intro s ops
    induction ops generalizing s with
    | nil => rfl
    | cons o os ih => simp [Spec.runFrom, ih]
  have hl : (Spec.runFrom ([] : Spec T) (ops1 ++ [Op.remove t])).2.length = ops1.length + 1 := by
    rw [hlen]; simp
  simp only
  rw [List.drop_append_of_le_length (by omega), ← hl, List.drop_length, List.nil_append]
  apply (not_live_stays _ t _ ops2 hops).1
  rw [runFrom_append]
  simp only [Spec.runFrom, Spec.step]
  split
  · intro hin
    obtain ⟨x, hx, hxt⟩ := List.mem_map.mp hin
    have := (List.mem_filter.mp hx).2
    simp [taskNe, hxt] at this
  · rename_i hhas
    intro hin
    obtain ⟨x, hx, hxt⟩ := List.mem_map.mp hin
    apply hhas
    unfold Spec.has
    rw [List.any_eq_true]
    exact ⟨x, hx, by simp [hxt]⟩

/-- an already popped task is never returned again (until it is re-added) -/
theorem popped_never_returned {β : Type} {B : Backend T β} {wf : β → Prop}
    {content : β → List (Entry T)} (L : Lawful B wf content) (ops1 ops2 : List (Op T)) (d : Option Nat) (t : T)
    (hpop : nextOut B ops1 (.pop d) = .task t)
    (hops : ∀ op ∈ ops2, isAddOf t op = false) :
    Out.task t ∉ ((PQ.run B (ops1 ++ .pop d :: ops2)).2).drop (ops1.length + 1) := by
  rw [nextOut_eq_spec L] at hpop
  rw [(run_sim L _).2.2]
  unfold Spec.run
  have happ : ops1 ++ Op.pop d :: ops2 = (ops1 ++ [Op.pop d]) ++ ops2 := by simp
  rw [happ, runFrom_append]
  have hlen : ∀ (s : Spec T) (ops : List (Op T)), (Spec.runFrom s ops).2.length = ops.length := by
    intro s ops
    induction ops generalizing s with
    | nil => rfl
    | cons o os ih => simp [Spec.runFrom, ih]
  have hl : (Spec.runFrom ([] : Spec T) (ops1 ++ [Op.pop d])).2.length = ops1.length + 1 := by
    rw [hlen]; simp
  simp only
  rw [List.drop_append_of_le_length (by omega), ← hl, List.drop_length, List.nil_append]
  apply (not_live_stays _ t _ ops2 hops).1
  rw [runFrom_append]
  simp only [Spec.runFrom]
  unfold live Spec.run at hpop
  simp only [Spec.step] at hpop ⊢
  cases hb : best (Spec.runFrom ([] : Spec T) ops1).1 with
  | none => rw [hb] at hpop; cases d <;> simp [emptyOut] at hpop
  | some x =>
    rw [hb] at hpop
    simp only [Out.task.injEq] at hpop
    simp only
    intro hin
    obtain ⟨y, hy, hyt⟩ := List.mem_map.mp hin
    have := (List.mem_filter.mp hy).2
    simp [taskNe, hyt, hpop] at this

end C

/-! ## D. priorities: the default key inside the model, and why only their order matters -/
section D
variable {T : Type} [DecidableEq T]

/-- the return values of a history depend on its priorities only through their ORDER: two
    interpretations `f g` of the priorities that order the history's priorities alike give the same
    outputs, over any lawful backend.  (Sound basis of scaling, of ranks, and of any custom
    `priority_key` that orders the priorities the same way.) -/
theorem priorities_matter_only_by_order {P β : Type} {B : Backend T β} {wf : β → Prop}
    {content : β → List (Entry T)} (L : Lawful B wf content) (f g : P → Int) (ops : List (ROp T P))
    (h : ∀ a ∈ ROp.prios ops, ∀ b ∈ ROp.prios ops, (f a < f b ↔ g a < g b)) :
    (PQ.run B (ops.map (ROp.toOp f))).2 = (PQ.run B (ops.map (ROp.toOp g))).2 := by
  rw [(run_sim L _).2.2, (run_sim L _).2.2]
  exact run_order_invariant f g ops h

/-- scaling by a common power of two compares dyadic rationals (finite floats) EXACTLY -/
theorem scale_exact (K : Nat) (a b : Dy) (ha : a.e ≤ K) (hb : b.e ≤ K) :
    a.scale K < b.scale K ↔ Dy.lt a b := scale_lt_iff K a b ha hb

/-- what the driver runs (`normalize`: every priority scaled by `2^maxExp`) orders the history's
    priorities exactly as their real values do … -/
theorem normalize_orders_exactly (ops : List (ROp T Dy)) :
    ∀ a ∈ ROp.prios ops, ∀ b ∈ ROp.prios ops,
      (a.scale (maxExp ops) < b.scale (maxExp ops) ↔ Dy.lt a b) :=
  fun a ha b hb => scale_lt_iff _ a b (exp_le_maxExp ops a ha) (exp_le_maxExp ops b hb)

/-- … hence ANY interpretation `g` that respects the real order (ranks, another scaling, a custom
    key) yields the same return values as the driver's normalised history, on both backends -/
theorem normalize_sound (limit : Nat → Nat) (g : Dy → Int) (ops : List (ROp T Dy))
    (hg : ∀ a ∈ ROp.prios ops, ∀ b ∈ ROp.prios ops, (g a < g b ↔ Dy.lt a b)) :
    (PQ.run (sortedBackend limit) (normalize ops)).2 = (Spec.run (ops.map (ROp.toOp g))).2 ∧
    (PQ.run listHeap (normalize ops)).2 = (Spec.run (ops.map (ROp.toOp g))).2 := by
  have key : (Spec.run (normalize ops)).2 = (Spec.run (ops.map (ROp.toOp g))).2 := by
    unfold normalize
    apply run_order_invariant
    intro a ha b hb
    rw [normalize_orders_exactly ops a ha b hb, hg a ha b hb]
  exact ⟨by rw [(run_sim (sorted_lawful limit) _).2.2, key], by rw [(run_sim listHeap_lawful _).2.2, key]⟩

/-- CPython's `int -> float` conversion (53 significant bits, round half to even), as the default key
    applies it to int priorities of ANY size, is monotone: a larger int never becomes a smaller float.
    Beyond 2^53 distinct ints may collapse into one float (then first-in first-out decides among them),
    but the order of two int priorities is never inverted -/
theorem default_key_monotone_on_ints (a b : Int) (h : a ≤ b) :
    ¬ Dy.lt (PyPrio.int b).eff (PyPrio.int a).eff := by
  have key : ∀ z : Int, (PyPrio.int z).eff = ⟨roundInt53 z, 0⟩ := by
    intro z
    by_cases hz : z = 0
    · subst hz; decide
    · simp [PyPrio.eff, PyPrio.or0, PyPrio.truthy, PyPrio.toFloat, hz]
  rw [key a, key b]
  have := roundInt53_mono a b h
  simp only [Dy.lt, Nat.pow_zero, Int.mul_one]
  omega

/-- the harness sends `float('inf')` / `float('-inf')` priorities to the driver as `+-2^1100`.  That value
    lies strictly beyond the effective priority of EVERY other legal argument - `None`, bools, ints that
    `float()` accepts (`|n| < 2^1024`), finite doubles (`|m / 2^e| < 2^1024`) - so it orders a history's
    priorities exactly as the infinities do, and by `priorities_matter_only_by_order` the return values are
    those of the real infinities -/
theorem inf_standin_dominates :
    (∀ n : Int, n.natAbs < 2 ^ 1024 →
      Dy.lt (PyPrio.int n).eff ⟨2 ^ 1100, 0⟩ ∧ Dy.lt ⟨-(2 ^ 1100), 0⟩ (PyPrio.int n).eff) ∧
    (∀ (m : Int) (e : Nat), m.natAbs < 2 ^ 1024 * 2 ^ e →
      Dy.lt (PyPrio.float m e).eff ⟨2 ^ 1100, 0⟩ ∧ Dy.lt ⟨-(2 ^ 1100), 0⟩ (PyPrio.float m e).eff) ∧
    (∀ p : PyPrio, p = .none ∨ (∃ b, p = .bool b) →
      Dy.lt p.eff ⟨2 ^ 1100, 0⟩ ∧ Dy.lt ⟨-(2 ^ 1100), 0⟩ p.eff) := by
  refine ⟨?_, ?_, ?_⟩
  · intro n hn
    have key : (PyPrio.int n).eff = ⟨roundInt53 n, 0⟩ := by
      by_cases hz : n = 0
      · subst hz; decide
      · simp [PyPrio.eff, PyPrio.or0, PyPrio.truthy, PyPrio.toFloat, hz]
    obtain ⟨h1, h2⟩ := roundInt53_abs_le n hn
    rw [key]
    simp only [Dy.lt, Nat.pow_zero, Int.mul_one]
    constructor <;> omega
  · intro m e hm
    have key : (PyPrio.float m e).eff = ⟨m, e⟩ ∨ ((PyPrio.float m e).eff = ⟨0, 0⟩ ∧ m = 0) := by
      by_cases hz : m = 0
      · have r0 : roundInt53 0 = 0 := by decide +kernel
        right; subst hz; simp [PyPrio.eff, PyPrio.or0, PyPrio.truthy, PyPrio.toFloat, r0]
      · left; simp [PyPrio.eff, PyPrio.or0, PyPrio.truthy, PyPrio.toFloat, hz]
    have hpos : (0 : Int) < 2 ^ e := Int.pow_pos (by omega)
    have hlt : (2 : Int) ^ 1024 * 2 ^ e < 2 ^ 1100 * 2 ^ e :=
      Int.mul_lt_mul_of_pos_right (by decide +kernel) hpos
    have hm' : ((m.natAbs : Nat) : Int) < 2 ^ 1024 * 2 ^ e := by exact_mod_cast hm
    rcases key with key | ⟨key, _⟩
    · rw [key]
      simp only [Dy.lt, Nat.pow_zero, Int.mul_one]
      constructor <;> omega
    · rw [key]; decide +kernel
  · intro p hp
    rcases hp with rfl | ⟨b, rfl⟩
    · decide +kernel
    · cases b <;> decide +kernel

/-- histories with INFINITE priorities: running the queue on the stand-ins (`+-2^1100`, scaled by any
    common power of two `2^K` that clears the denominators - the driver uses `2^maxExp`) returns exactly what
    it returns under ANY interpretation `h` that orders the priorities like the extended reals do
    (`EPrio.lt`: `-inf` below, `+inf` above every finite value, equal infinities tie) -/
theorem infinite_priorities_sound {β : Type} {B : Backend T β} {wf : β → Prop}
    {content : β → List (Entry T)} (L : Lawful B wf content) (ops : List (ROp T EPrio)) (K : Nat)
    (hl : ∀ a ∈ ROp.prios ops, a.legal) (hK : ∀ a ∈ ROp.prios ops, a.standin.e ≤ K)
    (h : EPrio → Int)
    (hh : ∀ a ∈ ROp.prios ops, ∀ b ∈ ROp.prios ops, (h a < h b ↔ EPrio.lt a b)) :
    (PQ.run B (ops.map (ROp.toOp (fun a => a.standin.scale K)))).2
      = (PQ.run B (ops.map (ROp.toOp h))).2 := by
  apply priorities_matter_only_by_order L
  intro a ha b hb
  rw [scale_exact K _ _ (hK a ha) (hK b hb), standin_lt_iff a b (hl a ha) (hl b hb), hh a ha b hb]

/-- the conversion itself, on naturals and on ints -/
theorem int_to_float_rounding_monotone :
    (∀ n m : Nat, n ≤ m → roundNat53 n ≤ roundNat53 m) ∧
    (∀ a b : Int, a ≤ b → roundInt53 a ≤ roundInt53 b) :=
  ⟨roundNat53_mono, roundInt53_mono⟩

/-- the default key `float(priority or 0)`: `None`, `False`, `0`, `0.0`/`-0.0` are one priority, and
    `True`, `1`, `1.0` are one priority; ints up to 2^53 convert exactly -/
theorem default_key_aliases :
    PyPrio.none.eff = (PyPrio.int 0).eff ∧ (PyPrio.bool false).eff = (PyPrio.int 0).eff ∧
    (∀ e, (PyPrio.float 0 e).eff = (PyPrio.int 0).eff) ∧
    (PyPrio.bool true).eff = (PyPrio.int 1).eff ∧ (PyPrio.float 1 0).eff = (PyPrio.int 1).eff ∧
    (∀ n : Nat, n < 2 ^ 53 → (PyPrio.int n).eff = ⟨n, 0⟩ ∧ (PyPrio.int (-(n : Int))).eff = ⟨-(n : Int), 0⟩) := by
  refine ⟨by decide, by decide, fun e => by simp [PyPrio.eff, PyPrio.or0, PyPrio.truthy], by decide, by decide, ?_⟩
  intro n hn
  have h0 : roundNat53 n = n := by simp [roundNat53, hn]
  have hor : ∀ z : Int, z ≠ 0 → (PyPrio.int z).or0 = PyPrio.int z := by
    intro z hz; simp [PyPrio.or0, PyPrio.truthy, hz]
  constructor
  · by_cases hz : n = 0
    · subst hz; decide
    · have hne : (n : Int) ≠ 0 := by omega
      have hneg : ¬ (n : Int) < 0 := by omega
      show (PyPrio.int n).or0.toFloat = _
      rw [hor _ hne]
      simp [PyPrio.toFloat, roundInt53, hneg, h0]
  · by_cases hz : n = 0
    · subst hz; decide
    · have hne : -(n : Int) ≠ 0 := by omega
      have hneg : -(n : Int) < 0 := by omega
      show (PyPrio.int (-(n : Int))).or0.toFloat = _
      rw [hor _ hne]
      simp [PyPrio.toFloat, roundInt53, h0]
      intro h; exact absurd h hz

/-- entries of a reachable queue state have pairwise distinct counters, all below the next counter
    value, whatever the backend … -/
theorem entry_counts_unique {β : Type} {B : Backend T β} {wf : β → Prop}
    {content : β → List (Entry T)} (L : Lawful B wf content) (ops : List (Op T)) :
    ((content (PQ.run B ops).1.pq).map Entry.count).Nodup ∧
    ∀ e ∈ content (PQ.run B ops).1.pq, e.count < (PQ.run B ops).1.counter :=
  ⟨(run_sim L ops).1.cnodup, (run_sim L ops).1.clt⟩

/-- … so Python's comparison of `[priority, count, task]` lists is always decided by priority or
    count and never reaches the task (no TypeError for unorderable tasks or the `_REMOVED` sentinel):
    between two stored entries, and between the entry the next `add` creates and a stored one.
    `Entry.lt`, which the model uses, is therefore exactly Python's `<` on reachable states. -/
theorem comparisons_never_reach_task {β : Type} {B : Backend T β} {wf : β → Prop}
    {content : β → List (Entry T)} (L : Lawful B wf content) (ops : List (Op T)) :
    (∀ a ∈ content (PQ.run B ops).1.pq, ∀ b ∈ content (PQ.run B ops).1.pq, a ≠ b →
      a.pyLt b = some (a.lt b)) ∧
    (∀ (t : T) (p : Int), ∀ b ∈ content (PQ.run B ops).1.pq,
      (⟨p, (PQ.run B ops).1.counter, some t⟩ : Entry T).pyLt b
        = some ((⟨p, (PQ.run B ops).1.counter, some t⟩ : Entry T).lt b) ∧
      b.pyLt ⟨p, (PQ.run B ops).1.counter, some t⟩ = some (b.lt ⟨p, (PQ.run B ops).1.counter, some t⟩)) := by
  obtain ⟨hn, hlt⟩ := entry_counts_unique L ops
  refine ⟨fun a ha b hb hab => pyLt_of_count_ne a b (count_ne_of_ne _ hn a b ha hb hab), ?_⟩
  intro t p b hb
  have := hlt b hb
  exact ⟨pyLt_of_count_ne _ _ (by simp only; omega), pyLt_of_count_ne _ _ (by simp only; omega)⟩

end D

/-! ## non-vacuity: concrete histories (size limit 2 forces several sub-lists at once) -/
section Examples

/-- the content function of the heap backend (`heapq_lawful` is stated with `id`) -/
abbrev content_id (l : List (Entry Nat)) : List (Entry Nat) := l

def exOps : List (Op Nat) :=
  [.add 1 5, .add 2 5, .add 3 7, .add 4 1, .add 5 5, .add 1 5, .remove 4, .len,
   .peek none, .pop none, .pop none, .pop none, .pop none, .pop none, .pop (some 7), .remove 9]

/-- ties by earliest (re-)insertion: 1 was re-added after 2 and 5, so it comes last among the 5s -/
example : (PQ.run (sortedBackend (fun _ => 2)) exOps).2 =
    [.none, .none, .none, .none, .none, .none, .none, .len 4,
     .task 3, .task 3, .task 2, .task 5, .task 1, .indexError, .dflt 7, .keyError] := by decide

example : (PQ.run listHeap exOps).2 = (PQ.run (sortedBackend (fun _ => 2)) exOps).2 := by decide

/-- two size limits: different sub-list structure, same items, same answers (and the plain list) -/
example : (PQ.run (sortedBackend (fun _ => 2)) (exOps.take 6)).1.pq.lists
      ≠ (PQ.run (sortedBackend (fun _ => 100)) (exOps.take 6)).1.pq.lists ∧
    (PQ.run (sortedBackend (fun _ => 2)) (exOps.take 6)).1.pq.toList
      = (PQ.run plainBackend (exOps.take 6)).1.pq ∧
    (PQ.run plainBackend exOps).2 = (PQ.run (sortedBackend (fun _ => 2)) exOps).2 := by decide

/-- the history without its `len` / `peek` calls: same answers from the other calls -/
example : exOps.length = 16 ∧ (exOps.filter isUpdate).length = 14 ∧
    (PQ.run (sortedBackend (fun _ => 2)) (exOps.filter isUpdate)).2 =
      [.none, .none, .none, .none, .none, .none, .none,
       .task 3, .task 2, .task 5, .task 1, .indexError, .dflt 7, .keyError] := by decide

/-- the backend really is split into several sub-lists in that history -/
example : (PQ.run (sortedBackend (fun _ => 2)) (exOps.take 6)).1.pq.lists.length = 5 := by decide

/-- a BarrelList with three sub-lists satisfying the hypotheses of section A; inserting at the very end -/
example : (BL.insert (fun _ => 2) ⟨[[1, 2], [3], [4, 5]]⟩ 5 6).toList = [1, 2, 3, 4, 5, 6] := by decide
example : (⟨[[1, 2], [3], [4, 5]]⟩ : BL Nat).ok := by simp [BL.ok]
example : Asc (fun a b : Nat => decide (a < b)) (⟨[[1, 2], [3], [4, 5]]⟩ : BL Nat).toList := by
  simp [Asc, BL.toList]
example : bisectRight (fun a b : Nat => decide (a < b)) 3 ⟨[[1, 2], [3], [4, 5]]⟩ = 3 := by decide

example : sortDesc [(1, 5), (2, 5), (3, 7), (4, 1), (5, 5)] = [((3 : Nat), (7 : Int)), (1, 5), (2, 5), (5, 5), (4, 1)] := by decide

/-- hypotheses of `removed_never_returned` / `popped_never_returned` are satisfiable -/
example : ∀ op ∈ ([.pop none, .add 7 1, .peek (some 1)] : List (Op Nat)), isAddOf 3 op = false := by decide
example : nextOut (sortedBackend (fun _ => 2)) (exOps.take 8) (.pop none) = .task 3 := by decide

/-- raw priorities: `add(1, None)`, `add(2, 0.5)`, `add(3, True)`, `add(4, 1)`, `add(5, 2**53 + 1)`,
    `add(6, 2**53)`: the driver's normalised history (exponent 1) pops 5 before 6 (both are 2^53 as
    floats, FIFO), then 3 before 4 (True = 1), then 2, then 1 -/
def exRaw : List (ROp Nat Dy) :=
  [.add 1 PyPrio.none.eff, .add 2 (PyPrio.float 1 1).eff, .add 3 (PyPrio.bool true).eff,
   .add 4 (PyPrio.int 1).eff, .add 5 (PyPrio.int (2 ^ 53 + 1)).eff, .add 6 (PyPrio.int (2 ^ 53)).eff,
   .pop none, .pop none, .pop none, .pop none, .pop none, .pop none]

example : maxExp exRaw = 1 := by decide
example : (PQ.run (sortedBackend (fun _ => 2)) (normalize exRaw)).2.drop 6 =
    [.task 5, .task 6, .task 3, .task 4, .task 2, .task 1] := by decide +kernel
/-- a history with both infinities, the largest double and `None`: hypotheses of `infinite_priorities_sound`
    (with `K = 0`, `h` = ranks `0 < 1 < 2 < 3`) and its conclusion evaluated -/
def exInf : List (ROp Nat EPrio) :=
  [.add 1 (.fin ⟨(2 ^ 53 - 1) * 2 ^ 971, 0⟩), .add 2 .posInf, .add 3 .negInf, .add 4 (.fin ⟨0, 0⟩), .add 5 .posInf,
   .pop none, .pop none, .pop none, .pop none, .pop none]

example : (∀ a ∈ ROp.prios exInf, a.legal) ∧ (∀ a ∈ ROp.prios exInf, a.standin.e ≤ 0) := by
  simp only [exInf, ROp.prios, List.mem_cons, List.not_mem_nil, or_false, forall_eq_or_imp, forall_eq]
  decide +kernel

/-- ranks `-inf -> 0`, `0 -> 1`, the largest double `-> 2`, `+inf -> 3` order `exInf`'s priorities like `EPrio.lt` -/
def exRank : EPrio → Int
  | .negInf => 0
  | .fin d => if d.m = 0 then 1 else 2
  | .posInf => 3

example : ∀ a ∈ ROp.prios exInf, ∀ b ∈ ROp.prios exInf, (exRank a < exRank b ↔ EPrio.lt a b) := by
  simp only [exInf, ROp.prios, List.mem_cons, List.not_mem_nil, or_false, forall_eq_or_imp, forall_eq]
  decide +kernel

example : (PQ.run (sortedBackend (fun _ => 2)) (exInf.map (ROp.toOp (fun a => a.standin.scale 0)))).2.drop 5
    = [.task 2, .task 5, .task 1, .task 4, .task 3] := by decide +kernel

/-- the largest finite double (2^53 - 1) * 2^971 meets the hypothesis of `inf_standin_dominates` -/
example : (((2 ^ 53 - 1) * 2 ^ 971 : Int)).natAbs < 2 ^ 1024 * 2 ^ 0 ∧
    Dy.lt (PyPrio.float ((2 ^ 53 - 1) * 2 ^ 971) 0).eff ⟨2 ^ 1100, 0⟩ := by decide +kernel

/-- three consecutive ints beyond 2^53: the first two collapse, the order is kept -/
example : (PyPrio.int (2 ^ 53 + 1)).eff = (PyPrio.int (2 ^ 53)).eff ∧
    Dy.lt (PyPrio.int (2 ^ 53 + 1)).eff (PyPrio.int (2 ^ 53 + 2)).eff := by decide +kernel

/-- int → float rounds half to even at 53 bits -/
example : roundInt53 (2 ^ 53 + 1) = 2 ^ 53 ∧ roundInt53 (2 ^ 53 + 3) = 2 ^ 53 + 4 ∧
    roundInt53 (-(2 ^ 54 + 2)) = -(2 ^ 54) ∧ roundInt53 (2 ^ 54 + 6) = 2 ^ 54 + 8 ∧
    roundInt53 (2 ^ 53 + 2) = 2 ^ 53 + 2 := by decide +kernel
/-- hypotheses of `scale_exact` / `normalize_sound`: 1e-9-like small dyadics against an integer -/
example : Dy.lt ⟨0, 0⟩ ⟨1, 30⟩ ∧ (⟨0, 0⟩ : Dy).scale 30 < (⟨1, 30⟩ : Dy).scale 30 := by decide
/-- two distinct stored entries and the next entry, compared as Python does -/
example : (⟨-5, 0, some 1⟩ : Entry Nat).pyLt ⟨-5, 1, some 2⟩ = some true ∧
    (⟨-5, 0, some 1⟩ : Entry Nat).pyLt ⟨-5, 0, none⟩ = none := by decide

/-- heapq: pushing 5 3 8 1 9 2 and popping twice; the hypotheses of `heapq_heappush` / `heapq_heappop` -/
example : heappush (fun a b : Nat => decide (a < b)) 1 [3, 5, 8] = [1, 3, 8, 5] := by decide
example : heappop (fun a b : Nat => decide (a < b)) [1, 3, 2, 5, 9, 8] = some (1, [2, 3, 8, 5, 9]) := by decide
example : heappop (fun a b : Nat => decide (a < b)) ([] : List Nat) = none := by decide
example : HeapOrder (fun a b : Nat => decide (a < b)) :=
  ⟨fun a b h => by simp at h ⊢; omega, fun a b c h1 h2 => by simp at h1 h2 ⊢; omega⟩
example : (PQ.run binHeap exOps).2 = (PQ.run (sortedBackend (fun _ => 2)) exOps).2 := by decide
example : (PQ.run binHeap (exOps.take 6)).1.pq.length = 6 := by decide

/-- `pop_removes_head_whatever_the_default`: task 7 heads the queue and default #1000007 (the driver's name
    for "the task object 7 itself") is given: 7 is returned and gone, the next pop reaches task 8; on the
    emptied queue that default comes back and is shown as the task object it is -/
example : nextOut binHeap [.add 7 1, .add 8 0] (.pop (some (Driver.taskDefaultBase + 7))) = .task 7 ∧
    live ([.add 7 1, .add 8 0] ++ [.pop (some (Driver.taskDefaultBase + 7))]) = [((8 : Nat), (0 : Int))] ∧
    (PQ.run binHeap [.add 7 1, .add 8 0, .pop (some 1000007), .pop (some 1000007), .pop (some 1000007)]).2.map
      Driver.showOut = ["-", "-", "t7", "t8", "t7"] := by decide

/-- `compaction_is_unobservable`: after the first 7 calls of `exOps` (two superseded entries inside the heap:
    the old entry of task 1 and the removed task 4) the heap holds 6 entries, 4 of them live; rebuilt from
    the live ones in reverse order it holds 4, and the rest of the history returns the same values -/
example : (content_id (PQ.run binHeap (exOps.take 7)).1.pq).length = 6 ∧
    (liveEntries (content_id (PQ.run binHeap (exOps.take 7)).1.pq)).length = 4 ∧
    (((PQ.run binHeap (exOps.take 7)).1.compact binHeap
        (liveEntries (content_id (PQ.run binHeap (exOps.take 7)).1.pq)).reverse).pq).length = 4 ∧
    (PQ.runFrom binHeap ((PQ.run binHeap (exOps.take 7)).1.compact binHeap
        (liveEntries (content_id (PQ.run binHeap (exOps.take 7)).1.pq)).reverse) (exOps.drop 7)).2 =
      (PQ.runFrom binHeap (PQ.run binHeap (exOps.take 7)).1 (exOps.drop 7)).2 ∧
    (PQ.runFrom binHeap (PQ.run binHeap (exOps.take 7)).1 (exOps.drop 7)).2.take 4 =
      [.len 4, .task 3, .task 3, .task 2] := by decide

end Examples

end C10
