import BoltonsVerif.C10.Queue
/-
C10 — helper lemmas, part 4: priorities.
  * a history's return values depend on its priorities only through their ORDER
    (`run_order_invariant`): any two interpretations `f g : P → Int` of the priorities that order the
    history's priorities alike give the same outputs.  This is what makes "scale by a common power
    of two" (the driver) and "replace by ranks" (any harness) sound;
  * scaling dyadic rationals by a common power of two is exact and order-faithful (`scale_lt_iff`);
  * the default key `float(priority or 0)` identifies `None`, `False`, `0`, `0.0`, and `True`, `1`, `1.0`.
-/
namespace C10

section Order
variable {T P : Type} [DecidableEq T]

abbrev RSpec (T P : Type) := List (T × P)

/-- the specification state seen through an interpretation `f` of the priorities -/
def img (f : P → Int) (s : RSpec T P) : Spec T := s.map (fun x => (x.1, f x.2))

/-- `best` on raw priorities interpreted by `f` -/
def rbest (f : P → Int) : RSpec T P → Option (T × P)
  | [] => none
  | x :: xs =>
    match rbest f xs with
    | none => some x
    | some y => if f x.2 < f y.2 then some y else some x

omit [DecidableEq T] in
theorem best_img (f : P → Int) (s : RSpec T P) :
    best (img f s) = (rbest f s).map (fun x => (x.1, f x.2)) := by
  induction s with
  | nil => rfl
  | cons x xs ih =>
    show best ((x.1, f x.2) :: img f xs) = _
    unfold best rbest
    rw [ih]
    cases rbest f xs with
    | none => rfl
    | some y =>
      simp only [Option.map_some]
      by_cases h : f x.2 < f y.2 <;> simp [h]

omit [DecidableEq T] in
theorem rbest_mem (f : P → Int) (s : RSpec T P) (x : T × P) (h : rbest f s = some x) : x ∈ s := by
  induction s generalizing x with
  | nil => simp [rbest] at h
  | cons a as ih =>
    unfold rbest at h
    cases hb : rbest f as with
    | none => simp [hb] at h; simp [h]
    | some y =>
      simp only [hb] at h
      by_cases hlt : f a.2 < f y.2
      · simp only [hlt, ↓reduceIte, Option.some.injEq] at h
        subst h
        exact List.mem_cons_of_mem _ (ih y hb)
      · simp only [hlt, ↓reduceIte, Option.some.injEq] at h
        subst h
        simp

omit [DecidableEq T] in
theorem rbest_congr (f g : P → Int) (s : RSpec T P)
    (h : ∀ a ∈ s.map Prod.snd, ∀ b ∈ s.map Prod.snd, (f a < f b ↔ g a < g b)) :
    rbest f s = rbest g s := by
  induction s with
  | nil => rfl
  | cons x xs ih =>
    have ih := ih (fun a ha b hb => h a (by simp at ha ⊢; exact Or.inr ha) b (by simp at hb ⊢; exact Or.inr hb))
    unfold rbest
    rw [← ih]
    cases hb : rbest f xs with
    | none => rfl
    | some y =>
      have hy : y ∈ xs := rbest_mem f xs y hb
      have := h x.2 (by simp) y.2 (by simp; exact Or.inr ⟨y.1, hy⟩)
      simp only
      by_cases hlt : f x.2 < f y.2
      · simp [hlt, this.mp hlt]
      · have hg : ¬ g x.2 < g y.2 := fun hg => hlt (this.mpr hg)
        simp [hlt, hg]

/-- one step on the raw state -/
def rstep (f : P → Int) (s : RSpec T P) : ROp T P → RSpec T P × Out T
  | .add t p => (s.filter (fun x => !decide (x.1 = t)) ++ [(t, p)], .none)
  | .remove t => if s.any (fun x => decide (x.1 = t)) then (s.filter (fun x => !decide (x.1 = t)), .none)
                 else (s, .keyError)
  | .pop d => match rbest f s with
    | none => (s, emptyOut d)
    | some x => (s.filter (fun y => !decide (y.1 = x.1)), .task x.1)
  | .peek d => match rbest f s with
    | none => (s, emptyOut d)
    | some x => (s, .task x.1)
  | .len => (s, .len s.length)

theorem img_filter (f : P → Int) (s : RSpec T P) (t : T) :
    (img f s).filter (taskNe t) = img f (s.filter (fun x => !decide (x.1 = t))) := by
  unfold img
  rw [List.filter_map]
  rfl

theorem step_img (f : P → Int) (s : RSpec T P) (op : ROp T P) :
    Spec.step (img f s) (op.toOp f) = (img f (rstep f s op).1, (rstep f s op).2) := by
  cases op with
  | add t p =>
    simp only [ROp.toOp, Spec.step, rstep, img_filter]
    simp [img]
  | remove t =>
    simp only [ROp.toOp, Spec.step, rstep]
    have hh : (img f s).has t = s.any (fun x => decide (x.1 = t)) := by
      simp [Spec.has, img, List.any_map, Function.comp_def]
    rw [hh]
    split <;> simp [img_filter]
  | pop d =>
    simp only [ROp.toOp, Spec.step, rstep, best_img]
    cases rbest f s with
    | none => rfl
    | some x => simp [img_filter]
  | peek d =>
    simp only [ROp.toOp, Spec.step, rstep, best_img]
    cases rbest f s <;> rfl
  | len => simp [ROp.toOp, Spec.step, rstep, img]

def rrunFrom (f : P → Int) (s : RSpec T P) : List (ROp T P) → RSpec T P × List (Out T)
  | [] => (s, [])
  | op :: ops => ((rrunFrom f (rstep f s op).1 ops).1, (rstep f s op).2 :: (rrunFrom f (rstep f s op).1 ops).2)

theorem runFrom_img (f : P → Int) (s : RSpec T P) (ops : List (ROp T P)) :
    Spec.runFrom (img f s) (ops.map (ROp.toOp f)) = (img f (rrunFrom f s ops).1, (rrunFrom f s ops).2) := by
  induction ops generalizing s with
  | nil => rfl
  | cons op ops ih =>
    simp only [List.map_cons, Spec.runFrom, rrunFrom, step_img, ih]

theorem rstep_prios (f : P → Int) (s : RSpec T P) (op : ROp T P) :
    ∀ a ∈ (rstep f s op).1.map Prod.snd, a ∈ s.map Prod.snd ++ ROp.prios [op] := by
  intro a ha
  have hsub : ∀ (q : T × P → Bool), a ∈ (s.filter q).map Prod.snd → a ∈ s.map Prod.snd := by
    intro q h
    obtain ⟨x, hx, rfl⟩ := List.mem_map.mp h
    exact List.mem_map.mpr ⟨x, (List.mem_filter.mp hx).1, rfl⟩
  cases op with
  | add t p =>
    simp only [rstep, List.map_append, List.mem_append, ROp.prios] at ha ⊢
    rcases ha with ha | ha
    · exact Or.inl (hsub _ ha)
    · exact Or.inr (by simpa using ha)
  | remove t =>
    simp only [rstep] at ha
    split at ha
    · exact List.mem_append_left _ (hsub _ ha)
    · exact List.mem_append_left _ ha
  | pop d =>
    simp only [rstep] at ha
    split at ha
    · exact List.mem_append_left _ ha
    · exact List.mem_append_left _ (hsub _ ha)
  | peek d =>
    simp only [rstep] at ha
    split at ha <;> exact List.mem_append_left _ ha
  | len => exact List.mem_append_left _ ha

omit [DecidableEq T] in
theorem prios_cons (op : ROp T P) (ops : List (ROp T P)) :
    ROp.prios (op :: ops) = ROp.prios [op] ++ ROp.prios ops := by
  cases op <;> simp [ROp.prios]

theorem rstep_congr (f g : P → Int) (s : RSpec T P) (op : ROp T P)
    (h : ∀ a ∈ s.map Prod.snd, ∀ b ∈ s.map Prod.snd, (f a < f b ↔ g a < g b)) :
    rstep f s op = rstep g s op := by
  cases op with
  | pop d => simp only [rstep, rbest_congr f g s h]
  | peek d => simp only [rstep, rbest_congr f g s h]
  | _ => rfl

theorem rrunFrom_congr (f g : P → Int) (ops : List (ROp T P)) (s : RSpec T P)
    (h : ∀ a ∈ s.map Prod.snd ++ ROp.prios ops, ∀ b ∈ s.map Prod.snd ++ ROp.prios ops,
      (f a < f b ↔ g a < g b)) :
    rrunFrom f s ops = rrunFrom g s ops := by
  induction ops generalizing s with
  | nil => rfl
  | cons op ops ih =>
    have hs : ∀ a ∈ s.map Prod.snd, ∀ b ∈ s.map Prod.snd, (f a < f b ↔ g a < g b) :=
      fun a ha b hb => h a (List.mem_append_left _ ha) b (List.mem_append_left _ hb)
    have hstep := rstep_congr f g s op hs
    have hin : ∀ a ∈ (rstep f s op).1.map Prod.snd ++ ROp.prios ops,
        a ∈ s.map Prod.snd ++ ROp.prios (op :: ops) := by
      intro a ha
      rw [prios_cons]
      rcases List.mem_append.mp ha with ha | ha
      · have := rstep_prios f s op a ha
        rcases List.mem_append.mp this with h1 | h1
        · exact List.mem_append_left _ h1
        · exact List.mem_append_right _ (List.mem_append_left _ h1)
      · exact List.mem_append_right _ (List.mem_append_right _ ha)
    have ih := ih (rstep f s op).1 (fun a ha b hb => h a (hin a ha) b (hin b hb))
    simp only [rrunFrom]
    rw [← hstep, ih]

/-- the outputs of a history depend on its priorities only through their order -/
theorem run_order_invariant (f g : P → Int) (ops : List (ROp T P))
    (h : ∀ a ∈ ROp.prios ops, ∀ b ∈ ROp.prios ops, (f a < f b ↔ g a < g b)) :
    (Spec.run (ops.map (ROp.toOp f))).2 = (Spec.run (ops.map (ROp.toOp g))).2 := by
  have hf := runFrom_img f ([] : RSpec T P) ops
  have hg := runFrom_img g ([] : RSpec T P) ops
  have h0f : img f ([] : RSpec T P) = ([] : Spec T) := rfl
  have h0g : img g ([] : RSpec T P) = ([] : Spec T) := rfl
  rw [h0f] at hf
  rw [h0g] at hg
  unfold Spec.run
  rw [hf, hg, rrunFrom_congr f g ops [] (by simpa using h)]

end Order

/-! ### Python's comparison of entries never reaches the task -/
section Cmp
variable {T : Type} [DecidableEq T]

/-- Python's `<` on two `[priority, count, task]` lists, decided at the first position where they
    differ; `none` = the comparison reaches the tasks (a TypeError for unorderable tasks or for the
    `_REMOVED` sentinel, an arbitrary task order otherwise).  Used only to state
    `comparisons_never_reach_task`: the model compares with `Entry.lt`. -/
def Entry.pyLt (a b : Entry T) : Option Bool :=
  if a.prio ≠ b.prio then some (decide (a.prio < b.prio))
  else if a.count ≠ b.count then some (decide (a.count < b.count))
  else none

omit [DecidableEq T] in
theorem pyLt_of_count_ne (a b : Entry T) (h : a.count ≠ b.count) : a.pyLt b = some (a.lt b) := by
  unfold Entry.pyLt Entry.lt
  by_cases hp : a.prio = b.prio
  · have : ¬ a.prio < b.prio := by omega
    simp [hp, h]
  · simp [hp]

omit [DecidableEq T] in
theorem count_ne_of_ne (l : List (Entry T)) (hn : (l.map Entry.count).Nodup) (a b : Entry T)
    (ha : a ∈ l) (hb : b ∈ l) (hab : a ≠ b) : a.count ≠ b.count := by
  induction l with
  | nil => simp at ha
  | cons x xs ih =>
    rw [List.map_cons, List.nodup_cons] at hn
    rcases List.mem_cons.mp ha with rfl | ha' <;> rcases List.mem_cons.mp hb with rfl | hb'
    · exact absurd rfl hab
    · intro hc; exact hn.1 (List.mem_map.mpr ⟨b, hb', hc.symm⟩)
    · intro hc; exact hn.1 (List.mem_map.mpr ⟨a, ha', hc⟩)
    · exact ih hn.2 ha' hb'

end Cmp

/-! ### dyadic rationals -/

theorem two_pow_pos (k : Nat) : (0 : Int) < 2 ^ k := Int.pow_pos (by decide)

/-- scaling by a common power of two is exact: it orders dyadic rationals as their values do -/
theorem scale_lt_iff (K : Nat) (a b : Dy) (ha : a.e ≤ K) (hb : b.e ≤ K) :
    a.scale K < b.scale K ↔ Dy.lt a b := by
  unfold Dy.scale Dy.lt
  have h1 : a.m * 2 ^ (K - a.e) * 2 ^ (a.e + b.e) = (a.m * 2 ^ b.e) * 2 ^ K := by
    rw [Int.mul_assoc, Int.mul_assoc, ← Int.pow_add, ← Int.pow_add]
    congr 2
    omega
  have h2 : b.m * 2 ^ (K - b.e) * 2 ^ (a.e + b.e) = (b.m * 2 ^ a.e) * 2 ^ K := by
    rw [Int.mul_assoc, Int.mul_assoc, ← Int.pow_add, ← Int.pow_add]
    congr 2
    omega
  constructor
  · intro h
    have := Int.mul_lt_mul_of_pos_right h (two_pow_pos (a.e + b.e))
    rw [h1, h2] at this
    exact Int.lt_of_mul_lt_mul_right this (Int.le_of_lt (two_pow_pos K))
  · intro h
    have := Int.mul_lt_mul_of_pos_right h (two_pow_pos K)
    rw [← h1, ← h2] at this
    exact Int.lt_of_mul_lt_mul_right this (Int.le_of_lt (two_pow_pos (a.e + b.e)))

theorem le_foldr_max (l : List Nat) (x : Nat) (h : x ∈ l) : x ≤ l.foldr max 0 := by
  induction l with
  | nil => simp at h
  | cons a as ih =>
    simp only [List.foldr_cons]
    rcases List.mem_cons.mp h with rfl | h
    · exact Nat.le_max_left _ _
    · exact Nat.le_trans (ih h) (Nat.le_max_right _ _)

theorem exp_le_maxExp {T : Type} (ops : List (ROp T Dy)) (d : Dy) (h : d ∈ ROp.prios ops) :
    d.e ≤ maxExp ops :=
  le_foldr_max _ _ (List.mem_map_of_mem h)

end C10
