import BoltonsVerif.C10.Queue
/-
C10 — `peek` and `len` are pure OBSERVATIONS.  In the code `peek` calls `_cull()`, which pops tombstones
off the backend: a real mutation.  `spec_strip` shows on the specification that deleting every `peek` /
`len` call from a history changes neither the live tasks nor any other call's return value; through the
refinement theorem (`run_sim`) the same holds for the queue over any lawful backend (Props.lean).
-/
namespace C10
variable {T : Type} [DecidableEq T]

/-- `peek` and `len` -/
def isQuery : Op T → Bool
  | .peek _ => true
  | .len => true
  | _ => false

/-- `add`, `remove`, `pop` -/
def isUpdate (op : Op T) : Bool := !isQuery op

/-- a call paired with its return value is kept when the call is an update -/
def updOut (x : Op T × Out T) : Bool := isUpdate x.1

theorem spec_query_state (s : Spec T) (op : Op T) (h : isQuery op = true) : (s.step op).1 = s := by
  cases op with
  | add t p => simp [isQuery] at h
  | remove t => simp [isQuery] at h
  | pop d => simp [isQuery] at h
  | peek d =>
    simp only [Spec.step]
    cases best s <;> rfl
  | len => rfl

theorem spec_strip (ops : List (Op T)) : ∀ (s : Spec T),
    (Spec.runFrom s (ops.filter isUpdate)).1 = (Spec.runFrom s ops).1 ∧
    (Spec.runFrom s (ops.filter isUpdate)).2
      = ((ops.zip (Spec.runFrom s ops).2).filter updOut).map Prod.snd := by
  induction ops with
  | nil => intro s; exact ⟨rfl, rfl⟩
  | cons op ops ih =>
    intro s
    by_cases hq : isQuery op = true
    · have hu : isUpdate op = false := by simp [isUpdate, hq]
      have hs := spec_query_state s op hq
      obtain ⟨i1, i2⟩ := ih s
      simp only [List.filter_cons, hu, Bool.false_eq_true, ↓reduceIte, Spec.runFrom, List.zip_cons_cons,
        updOut, hs]
      exact ⟨i1, i2⟩
    · have hu : isUpdate op = true := by simp [isUpdate, hq]
      obtain ⟨i1, i2⟩ := ih (s.step op).1
      simp only [List.filter_cons, hu, ↓reduceIte, Spec.runFrom, List.zip_cons_cons, updOut,
        List.map_cons]
      exact ⟨i1, by rw [i2]⟩

end C10
