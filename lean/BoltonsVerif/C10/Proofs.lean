import BoltonsVerif.C10.Model
/-
C10 — helper lemmas.
Part 1: BarrelList operations act on `flatten` like the plain-list operations.
-/
namespace C10

section Barrel
variable {α : Type}

theorem lenOf_eq (ls : List (List α)) : lenOf ls = ls.flatten.length := by
  induction ls with
  | nil => rfl
  | cons l ls ih => simp [lenOf] at ih ⊢; try omega

theorem splitLoop_flatten (h fuel : Nat) (cur : List α) (acc : List (List α)) :
    (splitLoop h fuel cur acc).flatten = cur ++ acc.flatten := by
  induction fuel generalizing cur acc with
  | zero => simp [splitLoop]
  | succ n ih =>
    unfold splitLoop
    split
    · rw [ih]; simp [← List.append_assoc, List.take_append_drop]
    · simp

theorem splitLoop_ne_nil (h fuel : Nat) (cur : List α) (acc : List (List α)) :
    splitLoop h fuel cur acc ≠ [] := by
  induction fuel generalizing cur acc with
  | zero => simp [splitLoop]
  | succ n ih =>
    unfold splitLoop
    split
    · exact ih _ _
    · simp

/-- the fuel `len(cur_list)` given by `balance` suffices: the loop ends because its
    condition is false, i.e. the remaining `cur_list` is no longer than `half` -/
theorem splitLoop_head_le (h fuel : Nat) (cur : List α) (acc : List (List α))
    (hf : cur.length ≤ fuel) :
    ∃ c rest, splitLoop h fuel cur acc = c :: rest ∧ c.length ≤ h := by
  induction fuel generalizing cur acc with
  | zero =>
    refine ⟨cur, acc, by simp [splitLoop], ?_⟩
    omega
  | succ n ih =>
    unfold splitLoop
    split
    · apply ih
      simp only [List.length_take]
      split <;> omega
    · exact ⟨cur, acc, rfl, by omega⟩

theorem balance_flatten (limit : Nat → Nat) (ls : List (List α)) (li : Nat) :
    (balance limit ls li).flatten = ls.flatten := by
  unfold balance
  cases hget : ls[li]? with
  | none => rfl
  | some cur =>
    simp only
    split
    · have hli : li < ls.length := by
        rcases Nat.lt_or_ge li ls.length with h | h
        · exact h
        · simp [List.getElem?_eq_none h] at hget
      have hcur : ls[li] = cur := by
        rw [List.getElem?_eq_getElem hli] at hget; exact Option.some.inj hget
      simp only [List.flatten_append, splitLoop_flatten, List.flatten_nil, List.append_nil]
      conv => rhs; rw [← List.take_append_drop li ls, List.drop_eq_getElem_cons hli, hcur]
      simp
    · rfl

theorem balance_ne_nil (limit : Nat → Nat) (ls : List (List α)) (li : Nat) (h : ls ≠ []) :
    balance limit ls li ≠ [] := by
  unfold balance
  cases hget : ls[li]? with
  | none => exact h
  | some cur =>
    simp only
    split
    · intro hc
      have := splitLoop_ne_nil (limit (lenOf ls) / 2) cur.length cur []
      simp at hc
      exact this hc.2.1
    · exact h

theorem pyInsert_append_left (i : Nat) (x : α) (l r : List α) (h : i < l.length) :
    pyInsert i x (l ++ r) = pyInsert i x l ++ r := by
  simp [pyInsert, List.take_append_of_le_length (Nat.le_of_lt h),
    List.drop_append_of_le_length (Nat.le_of_lt h)]

theorem pyInsert_append_right (i : Nat) (x : α) (l r : List α) (h : l.length ≤ i) :
    pyInsert i x (l ++ r) = l ++ pyInsert (i - l.length) x r := by
  simp [pyInsert, List.take_append, List.drop_append, List.take_of_length_le h,
    List.drop_of_length_le h]

theorem modify_pyInsert_flatten (ls : List (List α)) (i : Nat) (x : α) (h : ls ≠ []) :
    (ls.modify (translate ls i).1 (pyInsert (translate ls i).2 x)).flatten
      = pyInsert i x ls.flatten := by
  fun_induction translate ls i with
  | case1 i => exact absurd rfl h
  | case2 l i => simp
  | case3 l l' ls i hlt =>
    simp [pyInsert_append_left i x l _ hlt]
  | case4 l l' ls i hge ih =>
    have ih := ih (by simp)
    simp only [List.modify_succ_cons, List.flatten_cons] at ih ⊢
    rw [ih, pyInsert_append_right i x l _ (by omega)]

theorem translate_get (ls : List (List α)) (i : Nat) (h : ls ≠ []) :
    (match ls[(translate ls i).1]? with
     | none => none
     | some l => l[(translate ls i).2]?) = ls.flatten[i]? := by
  fun_induction translate ls i with
  | case1 i => exact absurd rfl h
  | case2 l i => simp
  | case3 l l' ls i hlt =>
    simp [List.getElem?_append_left hlt]
  | case4 l l' ls i hge ih =>
    have ih := ih (by simp)
    simp only [List.getElem?_cons_succ]
    rw [ih]
    conv => rhs; rw [List.flatten_cons, List.getElem?_append_right (Nat.le_of_not_lt hge)]

theorem eraseIdx_append_left (i : Nat) (l r : List α) (h : i < l.length) :
    (l ++ r).eraseIdx i = l.eraseIdx i ++ r := by
  rw [List.eraseIdx_append_of_lt_length h]

theorem eraseIdx_append_right (i : Nat) (l r : List α) (h : l.length ≤ i) :
    (l ++ r).eraseIdx i = l ++ r.eraseIdx (i - l.length) := by
  rw [List.eraseIdx_append_of_length_le h]

theorem modify_eraseIdx_flatten (ls : List (List α)) (i : Nat) (h : ls ≠ []) :
    (ls.modify (translate ls i).1 (fun l => l.eraseIdx (translate ls i).2)).flatten
      = ls.flatten.eraseIdx i := by
  fun_induction translate ls i with
  | case1 i => exact absurd rfl h
  | case2 l i => simp
  | case3 l l' ls i hlt =>
    simp [eraseIdx_append_left i l _ hlt]
  | case4 l l' ls i hge ih =>
    have ih := ih (by simp)
    simp only [List.modify_succ_cons, List.flatten_cons] at ih ⊢
    rw [ih, eraseIdx_append_right i l _ (by omega)]

/-! ### the BarrelList operations seen through `toList` -/

/-- representation invariant: `lists` is never empty -/
def BL.ok (b : BL α) : Prop := b.lists ≠ []

theorem BL.empty_ok : (BL.empty : BL α).ok := by simp [BL.ok, BL.empty]
theorem BL.empty_toList : (BL.empty : BL α).toList = [] := by simp [BL.toList, BL.empty]

theorem BL.len_eq (b : BL α) : b.len = b.toList.length := lenOf_eq b.lists

theorem BL.get?_eq (b : BL α) (h : b.ok) (i : Nat) : b.get? i = b.toList[i]? :=
  translate_get b.lists i h

theorem modify_ne_nil (ls : List (List α)) (i : Nat) (f : List α → List α) (h : ls ≠ []) :
    ls.modify i f ≠ [] := by
  intro hc
  have := congrArg List.length hc
  simp at this
  exact h this

theorem BL.insert_ok (limit : Nat → Nat) (b : BL α) (h : b.ok) (i : Nat) (x : α) :
    (b.insert limit i x).ok := by
  unfold BL.insert BL.ok
  split <;> exact balance_ne_nil _ _ _ (modify_ne_nil _ _ _ h)

theorem BL.insert_toList (limit : Nat → Nat) (b : BL α) (h : b.ok) (i : Nat) (x : α) :
    (b.insert limit i x).toList = pyInsert i x b.toList := by
  unfold BL.insert BL.toList
  split
  · rename_i h1
    simp only [balance_flatten]
    match hb : b.lists, h1 with
    | [l], _ => simp
  · simp only [balance_flatten]
    exact modify_pyInsert_flatten b.lists i x h

theorem BL.pop?_none (limit : Nat → Nat) (b : BL α) (h : b.ok) (i : Nat) :
    b.pop? limit i = none ↔ b.toList.length ≤ i := by
  have hg := translate_get b.lists i h
  unfold BL.pop? BL.toList
  cases h1 : b.lists[(translate b.lists i).1]? with
  | none =>
    simp only [h1] at hg
    have : b.lists.flatten.length ≤ i := List.getElem?_eq_none_iff.mp hg.symm
    simp only [true_iff]; exact this
  | some l =>
    simp only [h1] at hg
    cases h2 : l[(translate b.lists i).2]? with
    | none =>
      rw [h2] at hg
      have : b.lists.flatten.length ≤ i := List.getElem?_eq_none_iff.mp hg.symm
      simp only [h2, true_iff]; exact this
    | some x =>
      rw [h2] at hg
      have : i < b.lists.flatten.length := (List.getElem?_eq_some_iff.mp hg.symm).1
      simp only [h2, reduceCtorEq, false_iff, Nat.not_le]; exact this

theorem BL.pop?_some (limit : Nat → Nat) (b : BL α) (h : b.ok) (i : Nat) (x : α) (b' : BL α)
    (hp : b.pop? limit i = some (x, b')) :
    b.toList[i]? = some x ∧ b'.toList = b.toList.eraseIdx i ∧ b'.ok := by
  have hg := translate_get b.lists i h
  unfold BL.pop? at hp
  cases h1 : b.lists[(translate b.lists i).1]? with
  | none => simp [h1] at hp
  | some l =>
    simp only [h1] at hg hp
    cases h2 : l[(translate b.lists i).2]? with
    | none => simp [h2] at hp
    | some y =>
      simp only [h2] at hg hp
      injection hp with hp
      injection hp with hx hb
      subst hx hb
      refine ⟨hg.symm, ?_, ?_⟩
      · simp only [BL.toList, balance_flatten]
        exact modify_eraseIdx_flatten b.lists i h
      · exact balance_ne_nil _ _ _ (modify_ne_nil _ _ _ h)

theorem modify_last_append (ls : List (List α)) (x : α) (h : ls ≠ []) :
    (ls.modify (ls.length - 1) (fun l => l ++ [x])).flatten = ls.flatten ++ [x] := by
  induction ls with
  | nil => exact absurd rfl h
  | cons l ls ih =>
    cases ls with
    | nil => simp
    | cons l' ls =>
      have := ih (by simp)
      simp only [List.length_cons, Nat.add_sub_cancel, List.modify_succ_cons, List.flatten_cons] at this ⊢
      rw [this]; simp

theorem BL.append_toList (b : BL α) (h : b.ok) (x : α) : (b.append x).toList = b.toList ++ [x] :=
  modify_last_append b.lists x h

theorem BL.append_ok (b : BL α) (h : b.ok) (x : α) : (b.append x).ok :=
  modify_ne_nil _ _ _ h

/-! ### bisect_right / insort -/

/-- `l` is ascending for the comparison `lt` (`¬ later < earlier`) -/
def Asc (lt : α → α → Bool) (l : List α) : Prop := l.Pairwise (fun a b => lt b a = false)

/-- the two order facts `bisect` needs from `<` (they hold for every strict weak order) -/
structure BisectOrder (lt : α → α → Bool) : Prop where
  lt_of_lt_of_ge : ∀ x m j, lt x m = true → lt j m = false → lt x j = true
  ge_of_ge_of_ge : ∀ x m j, lt x m = false → lt m j = false → lt x j = false

theorem bisectLoop_spec (lt : α → α → Bool) (ho : BisectOrder lt) (x : α) (b : BL α) (hb : b.ok)
    (hs : Asc lt b.toList) (fuel lo hi : Nat) (hfuel : hi - lo ≤ fuel) (hlohi : lo ≤ hi)
    (hhi : hi ≤ b.toList.length)
    (hlo : ∀ j y, b.toList[j]? = some y → j < lo → lt x y = false)
    (hup : ∀ j y, b.toList[j]? = some y → hi ≤ j → lt x y = true) :
    bisectLoop lt x b fuel lo hi ≤ b.toList.length ∧
    (∀ j y, b.toList[j]? = some y → j < bisectLoop lt x b fuel lo hi → lt x y = false) ∧
    (∀ j y, b.toList[j]? = some y → bisectLoop lt x b fuel lo hi ≤ j → lt x y = true) := by
  induction fuel generalizing lo hi with
  | zero =>
    have : lo = hi := by omega
    subst this
    simp only [bisectLoop]
    exact ⟨hhi, hlo, hup⟩
  | succ n ih =>
    unfold bisectLoop
    split
    · rename_i hlt
      have hmid : (lo + hi) / 2 < b.toList.length := by omega
      rw [BL.get?_eq b hb, List.getElem?_eq_getElem hmid]
      simp only
      have hsort := List.pairwise_iff_getElem.mp hs
      split
      · rename_i hx
        apply ih lo ((lo + hi) / 2) (by omega) (by omega) (by omega) hlo
        intro j y hj hge
        obtain ⟨hjl, rfl⟩ := List.getElem?_eq_some_iff.mp hj
        rcases Nat.eq_or_lt_of_le hge with heq | hgt
        · subst heq; exact hx
        · exact ho.lt_of_lt_of_ge x _ _ hx (hsort _ _ hmid hjl hgt)
      · rename_i hx
        have hx : lt x (b.toList[(lo + hi) / 2]) = false := by simpa using hx
        apply ih ((lo + hi) / 2 + 1) hi (by omega) (by omega) hhi _ hup
        intro j y hj hlt'
        obtain ⟨hjl, rfl⟩ := List.getElem?_eq_some_iff.mp hj
        rcases Nat.eq_or_lt_of_le (Nat.le_of_lt_succ hlt') with heq | hlt''
        · subst heq; exact hx
        · exact ho.ge_of_ge_of_ge x _ _ hx (hsort _ _ hjl hmid hlt'')
    · have : lo = hi := by omega
      subst this
      exact ⟨hhi, hlo, hup⟩

/-- `bisect_right`: everything before the returned index is `≤ x`, everything from it on is `> x`
    (in particular the fuel `len + 1` suffices) -/
theorem bisectRight_spec (lt : α → α → Bool) (ho : BisectOrder lt) (x : α) (b : BL α) (hb : b.ok)
    (hs : Asc lt b.toList) :
    bisectRight lt x b ≤ b.toList.length ∧
    (∀ y ∈ b.toList.take (bisectRight lt x b), lt x y = false) ∧
    (∀ y ∈ b.toList.drop (bisectRight lt x b), lt x y = true) := by
  have h := bisectLoop_spec lt ho x b hb hs (b.len + 1) 0 b.len (by omega) (by omega)
    (by rw [BL.len_eq]; exact Nat.le_refl _)
    (by intro j y _ h; omega)
    (by
      intro j y hj hge
      rw [BL.len_eq] at hge
      have := (List.getElem?_eq_some_iff.mp hj).1
      omega)
  refine ⟨h.1, ?_, ?_⟩
  · intro y hy
    obtain ⟨j, hj, rfl⟩ := List.mem_take_iff_getElem.mp hy
    exact h.2.1 j _ (List.getElem?_eq_getElem (by omega)) (by unfold bisectRight at hj; omega)
  · intro y hy
    obtain ⟨j, hj, rfl⟩ := List.mem_drop_iff_getElem.mp hy
    exact h.2.2 _ _ (List.getElem?_eq_getElem (by omega)) (by unfold bisectRight; omega)

theorem pyInsert_perm (i : Nat) (x : α) (l : List α) : (pyInsert i x l).Perm (x :: l) := by
  unfold pyInsert
  have := @List.perm_middle _ x (l.take i) (l.drop i)
  rwa [List.take_append_drop] at this

theorem mem_pyInsert (i : Nat) (x y : α) (l : List α) : y ∈ pyInsert i x l ↔ y = x ∨ y ∈ l := by
  rw [(pyInsert_perm i x l).mem_iff]; simp

/-- inserting at the bisect position keeps the list ascending -/
theorem pyInsert_asc (lt : α → α → Bool) (hirr : ∀ a b, lt a b = true → lt b a = false)
    (x : α) (l : List α) (r : Nat) (hs : Asc lt l)
    (h1 : ∀ y ∈ l.take r, lt x y = false) (h2 : ∀ y ∈ l.drop r, lt x y = true) :
    Asc lt (pyInsert r x l) := by
  unfold Asc pyInsert at *
  rw [← List.take_append_drop r l] at hs
  rw [List.pairwise_append] at hs ⊢
  refine ⟨hs.1, ?_, ?_⟩
  · rw [List.pairwise_cons]
    exact ⟨fun y hy => hirr _ _ (h2 y hy), hs.2.1⟩
  · intro a ha c hc
    rcases List.mem_cons.mp hc with rfl | hc
    · exact h1 a ha
    · exact hs.2.2 a ha c hc

theorem insort_ok (limit : Nat → Nat) (lt : α → α → Bool) (x : α) (b : BL α) (hb : b.ok) :
    (insort limit lt x b).ok := BL.insert_ok limit b hb _ x

theorem insort_toList (limit : Nat → Nat) (lt : α → α → Bool) (x : α) (b : BL α) (hb : b.ok) :
    (insort limit lt x b).toList = pyInsert (bisectRight lt x b) x b.toList :=
  BL.insert_toList limit b hb _ x

theorem insort_asc (limit : Nat → Nat) (lt : α → α → Bool) (ho : BisectOrder lt)
    (hirr : ∀ a b, lt a b = true → lt b a = false) (x : α) (b : BL α) (hb : b.ok)
    (hs : Asc lt b.toList) : Asc lt (insort limit lt x b).toList := by
  rw [insort_toList limit lt x b hb]
  have h := bisectRight_spec lt ho x b hb hs
  exact pyInsert_asc lt hirr x _ _ hs h.2.1 h.2.2

/-! ### the defect that was fixed (kept as a kernel-checked record; not part of the model) -/

/-- `_translate_index` BEFORE the fix: without the `for … else` branch an index past the end came
    back as offset `index - len(self)` of the last sub-list -/
def translateUnfixed : List (List α) → Nat → Nat × Nat
  | [], i => (0, i)
  | [l], i => (0, if i < l.length then i else i - l.length)
  | l :: l' :: ls, i =>
    if i < l.length then (0, i)
    else ((translateUnfixed (l' :: ls) (i - l.length)).1 + 1, (translateUnfixed (l' :: ls) (i - l.length)).2)

/-- `insert` (several sub-lists) on top of the unfixed translation -/
def insertUnfixed (ls : List (List α)) (i : Nat) (x : α) : List (List α) :=
  ls.modify (translateUnfixed ls i).1 (pyInsert (translateUnfixed ls i).2 x)

end Barrel
end C10
