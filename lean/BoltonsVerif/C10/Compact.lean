import BoltonsVerif.C10.Queue
/-
C10 — superseded entries (tombstones) are unobservable, and so is a clean-up that drops them.

Re-prioritising a bounded set of tasks over and over leaves the backend full of entries marked
`_REMOVED`; `_cull` only reclaims those that reach the head.  `layout_unobservable`: two queue states -
over possibly DIFFERENT lawful backends - that satisfy the invariant and stand for the same live tasks
return the same values for every continuation, whatever tombstones each of them still carries.
`compact`: the backend rebuilt from the live entries (in any order) THROUGH THE BACKEND'S OWN `push`
(`heappush` / `insort`) satisfies the invariant again, so such a compaction can never be observed.  What a
compaction must not do is install a container that violates the backend's representation invariant `wf`
(a filtered heap array is not a heap): that is exactly what the churn histories of the harness look for.
-/
namespace C10
variable {T : Type} [DecidableEq T]

section Compact
variable {β : Type} {B : Backend T β} {wf : β → Prop} {content : β → List (Entry T)}

/-- two states (of any two lawful backends) standing for the same live tasks are indistinguishable -/
theorem layout_unobservable {β' : Type} {B' : Backend T β'} {wf' : β' → Prop} {content' : β' → List (Entry T)}
    (L : Lawful B wf content) (L' : Lawful B' wf' content') (s : PQ T β) (s' : PQ T β')
    (hI : Inv wf content s) (hI' : Inv wf' content' s') (h : absSpec s' = absSpec s) (ops : List (Op T)) :
    (PQ.runFrom B' s' ops).2 = (PQ.runFrom B s ops).2 ∧
    absSpec (PQ.runFrom B' s' ops).1 = absSpec (PQ.runFrom B s ops).1 := by
  obtain ⟨_, a1, o1⟩ := runFrom_sim L ops s hI
  obtain ⟨_, a2, o2⟩ := runFrom_sim L' ops s' hI'
  rw [o1, o2, a1, a2, h]
  exact ⟨rfl, rfl⟩

/-- the entries that are not tombstones -/
def liveEntries (l : List (Entry T)) : List (Entry T) := l.filter (fun e => e.task.isSome)

/-- a fresh backend filled with `es` through the backend's own `push` -/
def rebuild (B : Backend T β) (es : List (Entry T)) : β := es.foldr (fun e b => B.push e b) B.empty

/-- compaction: the backend is replaced by one rebuilt from the entries `es` -/
def PQ.compact (B : Backend T β) (s : PQ T β) (es : List (Entry T)) : PQ T β :=
  ⟨rebuild B es, s.emap, s.counter⟩

theorem rebuild_spec (L : Lawful B wf content) (es : List (Entry T)) :
    wf (rebuild B es) ∧ (content (rebuild B es)).Perm es := by
  induction es with
  | nil => exact ⟨L.wf_empty, by rw [show rebuild B ([] : List (Entry T)) = B.empty from rfl, L.content_empty]⟩
  | cons e es ih =>
    have h := L.push e (rebuild B es) ih.1
    exact ⟨h.1, h.2.trans (List.Perm.cons e ih.2)⟩

omit [DecidableEq T] in
theorem mem_liveEntries (l : List (Entry T)) (e : Entry T) :
    e ∈ liveEntries l ↔ e ∈ l ∧ e.task.isSome = true := by
  simp [liveEntries, List.mem_filter]

/-- rebuilding the backend from its live entries, taken in ANY order, keeps the invariant and the
    live tasks -/
theorem compact_inv (L : Lawful B wf content) (s : PQ T β) (hI : Inv wf content s) (es : List (Entry T))
    (hes : es.Perm (liveEntries (content s.pq))) :
    Inv wf content (s.compact B es) ∧ absSpec (s.compact B es) = absSpec s := by
  obtain ⟨hw, hc⟩ := rebuild_spec L es
  have hperm : (content (rebuild B es)).Perm (liveEntries (content s.pq)) := hc.trans hes
  have hmem : ∀ e, e ∈ content (rebuild B es) ↔ e ∈ content s.pq ∧ e.task.isSome = true := by
    intro e
    rw [hperm.mem_iff, mem_liveEntries]
  refine ⟨⟨hw, ?_, ?_, hI.knodup, hI.cinc, ?_⟩, rfl⟩
  · have hsub : (liveEntries (content s.pq)).Sublist (content s.pq) := List.filter_sublist
    have hnd : ((liveEntries (content s.pq)).map Entry.count).Nodup := (hsub.map _).nodup hI.cnodup
    exact ((hperm.map Entry.count).nodup_iff).mpr hnd
  · intro e he
    exact hI.clt e ((hmem e).mp he).1
  · intro t p c
    show (t, p, c) ∈ s.emap ↔ (⟨p, c, some t⟩ : Entry T) ∈ content (rebuild B es)
    rw [hI.live t p c, hmem]
    simp

/-- a compaction that rebuilds the backend from the live entries (in any order) through the backend's own
    `push` is unobservable: every continuation returns the same values -/
theorem compact_unobservable (L : Lawful B wf content) (s : PQ T β) (hI : Inv wf content s)
    (es : List (Entry T)) (hes : es.Perm (liveEntries (content s.pq))) (ops : List (Op T)) :
    (PQ.runFrom B (s.compact B es) ops).2 = (PQ.runFrom B s ops).2 := by
  obtain ⟨hI', ha⟩ := compact_inv L s hI es hes
  exact (layout_unobservable L L s (s.compact B es) hI hI' ha ops).1

end Compact
end C10
