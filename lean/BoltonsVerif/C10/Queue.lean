import BoltonsVerif.C10.Model
/-
C10 — helper lemmas, part 2: the queue model over ANY backend satisfying the min-queue laws
(`Lawful`) refines the specification `Spec` (live tasks in order of (re-)insertion; pop = first
task of greatest priority).
-/
namespace C10
variable {T : Type} [DecidableEq T]

/-! ### `_entry_map` as an association list -/

theorem emLookup_none (t : T) (m : EMap T) : emLookup t m = none ↔ ∀ x ∈ m, x.1 ≠ t := by
  induction m with
  | nil => simp [emLookup]
  | cons x xs ih =>
    unfold emLookup
    by_cases h : x.1 = t <;> simp [h, ih]

theorem emLookup_mem (t : T) (m : EMap T) (v : Int × Nat) (h : emLookup t m = some v) : (t, v) ∈ m := by
  induction m with
  | nil => simp [emLookup] at h
  | cons x xs ih =>
    unfold emLookup at h
    by_cases hx : x.1 = t
    · simp only [hx, ↓reduceIte, Option.some.injEq] at h
      have : x = (t, v) := by rw [← hx, ← h]
      simp [this]
    · simp only [hx, ↓reduceIte] at h
      exact List.mem_cons_of_mem _ (ih h)

theorem keys_unique (m : EMap T) (hn : (m.map Prod.fst).Nodup) (t : T) (v v' : Int × Nat)
    (h : (t, v) ∈ m) (h' : (t, v') ∈ m) : v = v' := by
  induction m with
  | nil => simp at h
  | cons x xs ih =>
    rw [List.map_cons, List.nodup_cons] at hn
    rcases List.mem_cons.mp h with h1 | h1
    · rcases List.mem_cons.mp h' with h2 | h2
      · exact (Prod.mk.inj (h1.trans h2.symm)).2
      · exact absurd (List.mem_map.mpr ⟨(t, v'), h2, by rw [← h1]⟩) hn.1
    · rcases List.mem_cons.mp h' with h2 | h2
      · exact absurd (List.mem_map.mpr ⟨(t, v), h1, by rw [← h2]⟩) hn.1
      · exact ih hn.2 h1 h2

theorem emSet_fresh (t : T) (v : Int × Nat) (m : EMap T) (h : ∀ x ∈ m, x.1 ≠ t) :
    emSet t v m = m ++ [(t, v)] := by
  induction m with
  | nil => rfl
  | cons x xs ih =>
    unfold emSet
    have hx : x.1 ≠ t := h x (by simp)
    simp only [hx, ↓reduceIte, List.cons_append]
    rw [ih (fun y hy => h y (List.mem_cons_of_mem _ hy))]

theorem mem_emErase (t : T) (m : EMap T) (x : T × Int × Nat) : x ∈ emErase t m ↔ x ∈ m ∧ x.1 ≠ t := by
  simp [emErase, List.mem_filter, keyNe]

theorem emErase_self (t : T) (m : EMap T) (h : ∀ x ∈ m, x.1 ≠ t) : emErase t m = m := by
  unfold emErase
  rw [List.filter_eq_self]
  intro a ha
  simp [keyNe, h a ha]

/-! ### the specification's `best` -/

theorem best_eq_none (s : Spec T) : best s = none ↔ s = [] := by
  cases s with
  | nil => simp [best]
  | cons x xs =>
    unfold best
    cases best xs with
    | none => simp
    | some y => by_cases h : x.2 < y.2 <;> simp [h]

/-- `best` returns an element before which every priority is strictly lower and after which
    none is greater: the FIRST task among those of GREATEST priority -/
theorem best_decomp (s : Spec T) (x : T × Int) (h : best s = some x) :
    ∃ pre post, s = pre ++ x :: post ∧ (∀ y ∈ pre, y.2 < x.2) ∧ (∀ y ∈ post, y.2 ≤ x.2) := by
  induction s generalizing x with
  | nil => simp [best] at h
  | cons a as ih =>
    unfold best at h
    cases hb : best as with
    | none =>
      simp only [hb, Option.some.injEq] at h
      subst h
      have : as = [] := (best_eq_none as).mp hb
      subst this
      exact ⟨[], [], rfl, by simp, by simp⟩
    | some y =>
      simp only [hb] at h
      obtain ⟨pre, post, hs, hpre, hpost⟩ := ih y hb
      by_cases hlt : a.2 < y.2
      · simp only [hlt, ↓reduceIte, Option.some.injEq] at h
        subst h
        refine ⟨a :: pre, post, by simp [hs], ?_, hpost⟩
        intro z hz
        rcases List.mem_cons.mp hz with rfl | hz
        · exact hlt
        · exact hpre z hz
      · simp only [hlt, ↓reduceIte, Option.some.injEq] at h
        subst h
        refine ⟨[], as, rfl, by simp, ?_⟩
        intro z hz
        rw [hs] at hz
        rcases List.mem_append.mp hz with hz | hz
        · have := hpre z hz; omega
        · rcases List.mem_cons.mp hz with rfl | hz
          · omega
          · have := hpost z hz; omega

theorem best_of_decomp (pre post : Spec T) (x : T × Int)
    (hpre : ∀ y ∈ pre, y.2 < x.2) (hpost : ∀ y ∈ post, y.2 ≤ x.2) :
    best (pre ++ x :: post) = some x := by
  have hx : best (x :: post) = some x := by
    unfold best
    cases hb : best post with
    | none => rfl
    | some y =>
      obtain ⟨p1, p2, hs, _, _⟩ := best_decomp post y hb
      have : y ∈ post := by rw [hs]; simp
      have := hpost y this
      have hn : ¬ x.2 < y.2 := by omega
      simp [hn]
  induction pre with
  | nil => simpa using hx
  | cons a as ih =>
    have ih := ih (fun y hy => hpre y (List.mem_cons_of_mem _ hy))
    have ha := hpre a (by simp)
    simp only [List.cons_append]
    unfold best
    rw [ih]
    simp [ha]

/-! ### the min-queue laws a backend must satisfy -/

/-- `content b` is the bag of entries stored in `b` (as a list up to permutation), `wf` the
    backend's own representation invariant.  Real `heapq` on a list is trusted to satisfy these
    (content = the list, wf = the heap invariant). -/
structure Lawful {β : Type} (B : Backend T β) (wf : β → Prop) (content : β → List (Entry T)) : Prop where
  wf_empty : wf B.empty
  content_empty : content B.empty = []
  size_eq : ∀ b, wf b → B.size b = (content b).length
  front_min : ∀ b, wf b → content b ≠ [] →
    ∃ e, B.front b = some e ∧ e ∈ content b ∧ ∀ x ∈ content b, x.lt e = false
  pop_front : ∀ b, wf b → content b ≠ [] →
    ∃ e b', B.popFront b = some (e, b') ∧ B.front b = some e ∧ wf b' ∧
      (content b').Perm ((content b).erase e)
  push : ∀ e b, wf b → wf (B.push e b) ∧ (content (B.push e b)).Perm (e :: content b)
  mark : ∀ c b, wf b → wf (B.mark c b) ∧ (content (B.mark c b)).Perm ((content b).map (markEntry c))

section Sim
variable {β : Type} {B : Backend T β} {wf : β → Prop} {content : β → List (Entry T)}

/-- invariant of every reachable queue state -/
structure Inv (wf : β → Prop) (content : β → List (Entry T)) (s : PQ T β) : Prop where
  wf : wf s.pq
  cnodup : ((content s.pq).map Entry.count).Nodup
  clt : ∀ e ∈ content s.pq, e.count < s.counter
  knodup : (s.emap.map Prod.fst).Nodup
  cinc : s.emap.Pairwise (fun a b => a.2.2 < b.2.2)
  live : ∀ t p c, (t, p, c) ∈ s.emap ↔ (⟨p, c, some t⟩ : Entry T) ∈ content s.pq

/-- the specification state a queue state stands for -/
def absSpec (s : PQ T β) : Spec T := s.emap.map (fun x => (x.1, -x.2.1))

theorem content_nodup (s : PQ T β) (hI : Inv wf content s) : (content s.pq).Nodup := by
  have := hI.cnodup
  exact (List.pairwise_map.mp this).imp (fun {a b} h hab => h (by rw [hab]))

theorem markEntry_count (c : Nat) (e : Entry T) : (markEntry c e).count = e.count := by
  unfold markEntry; split <;> rfl

theorem init_inv (L : Lawful B wf content) : Inv wf content (PQ.init B) := by
  refine ⟨L.wf_empty, ?_, ?_, ?_, ?_, ?_⟩ <;> simp [PQ.init, L.content_empty]

/-- `remove` of a live task -/
theorem remove_inv (L : Lawful B wf content) (s : PQ T β) (hI : Inv wf content s) (t : T) (p : Int) (c : Nat)
    (hl : emLookup t s.emap = some (p, c)) :
    s.remove B t = some ⟨B.mark c s.pq, emErase t s.emap, s.counter⟩ ∧
    Inv wf content ⟨B.mark c s.pq, emErase t s.emap, s.counter⟩ := by
  refine ⟨by simp [PQ.remove, hl], ?_⟩
  have hmem : (t, p, c) ∈ s.emap := emLookup_mem t s.emap (p, c) hl
  obtain ⟨hwf, hperm⟩ := L.mark c s.pq hI.wf
  have hcounts : ((content (B.mark c s.pq)).map Entry.count).Perm ((content s.pq).map Entry.count) := by
    have := hperm.map Entry.count
    rw [List.map_map] at this
    have heq : (Entry.count ∘ markEntry c : Entry T → Nat) = Entry.count := by
      funext e; exact markEntry_count c e
    rwa [heq] at this
  refine ⟨hwf, hcounts.nodup_iff.mpr hI.cnodup, ?_, ?_, ?_, ?_⟩
  · intro e he
    have : e.count ∈ (content (B.mark c s.pq)).map Entry.count := List.mem_map_of_mem he
    rw [hcounts.mem_iff] at this
    obtain ⟨e', he', hc⟩ := List.mem_map.mp this
    have := hI.clt e' he'
    show e.count < s.counter
    omega
  · exact List.Nodup.sublist (List.Sublist.map _ List.filter_sublist) hI.knodup
  · exact List.Pairwise.filter _ hI.cinc
  · intro t' p' c'
    show (t', p', c') ∈ emErase t s.emap ↔ _ ∈ content (B.mark c s.pq)
    rw [mem_emErase, hperm.mem_iff, List.mem_map]
    constructor
    · rintro ⟨hm, hne⟩
      refine ⟨⟨p', c', some t'⟩, (hI.live t' p' c').mp hm, ?_⟩
      have hcc : c' ≠ c := by
        intro hcc
        subst hcc
        -- two emap entries with the same counter are the same entry
        have hpw := hI.cinc
        rcases List.mem_iff_append.mp hm with ⟨l1, l2, hsplit⟩
        rw [hsplit] at hmem hpw
        rw [List.pairwise_append, List.pairwise_cons] at hpw
        rcases List.mem_append.mp hmem with h1 | h1
        · have := hpw.2.2 _ h1 (t', p', c') (by simp); simp at this
        · rcases List.mem_cons.mp h1 with h1 | h1
          · exact hne (Prod.mk.inj h1).1.symm
          · have := hpw.2.1.1 _ h1; simp at this
      simp [markEntry, hcc]
    · rintro ⟨e, he, hmk⟩
      unfold markEntry at hmk
      split at hmk
      · cases hmk
      · subst hmk
        rename_i hcc
        have hm := (hI.live t' p' c').mpr he
        refine ⟨hm, ?_⟩
        intro htt
        subst htt
        have := keys_unique s.emap hI.knodup t' (p', c') (p, c) hm hmem
        exact hcc (Prod.mk.inj this).2

/-- `if task in self._entry_map: self.remove(task)` -/
theorem dropOld_inv (L : Lawful B wf content) (s : PQ T β) (hI : Inv wf content s) (t : T) :
    Inv wf content (s.dropOld B t) ∧ (s.dropOld B t).emap = emErase t s.emap ∧
    (s.dropOld B t).counter = s.counter := by
  unfold PQ.dropOld
  cases hl : emLookup t s.emap with
  | none =>
    exact ⟨hI, (emErase_self t s.emap ((emLookup_none t s.emap).mp hl)).symm, rfl⟩
  | some v =>
    obtain ⟨hr, hI'⟩ := remove_inv L s hI t v.1 v.2 hl
    rw [hr]
    exact ⟨hI', rfl, rfl⟩

theorem emap_count_lt (s : PQ T β) (hI : Inv wf content s) (x : T × Int × Nat) (hx : x ∈ s.emap) :
    x.2.2 < s.counter := by
  obtain ⟨t, p, c⟩ := x
  exact hI.clt _ ((hI.live t p c).mp hx)

/-- pushing the fresh entry of a task that is not in the map -/
theorem pushNew_inv (L : Lawful B wf content) (s : PQ T β) (hI : Inv wf content s) (t : T) (p : Int)
    (hfresh : ∀ x ∈ s.emap, x.1 ≠ t) :
    Inv wf content (s.pushNew B t p) ∧ (s.pushNew B t p).emap = s.emap ++ [(t, -p, s.counter)] := by
  obtain ⟨hwf, hperm⟩ := L.push ⟨-p, s.counter, some t⟩ s.pq hI.wf
  have hem : (s.pushNew B t p).emap = s.emap ++ [(t, -p, s.counter)] := emSet_fresh t _ s.emap hfresh
  refine ⟨⟨hwf, ?_, ?_, ?_, ?_, ?_⟩, hem⟩
  · show ((content (B.push _ s.pq)).map Entry.count).Nodup
    rw [(hperm.map Entry.count).nodup_iff, List.map_cons, List.nodup_cons]
    refine ⟨?_, hI.cnodup⟩
    intro hin
    obtain ⟨e, he, hc⟩ := List.mem_map.mp hin
    have := hI.clt e he
    simp at hc
    omega
  · intro e he
    show e.count < s.counter + 1
    have he : e ∈ content (B.push ⟨-p, s.counter, some t⟩ s.pq) := he
    rw [hperm.mem_iff] at he
    rcases List.mem_cons.mp he with rfl | he
    · simp
    · have := hI.clt e he; omega
  · rw [hem, List.map_append, List.nodup_append]
    refine ⟨hI.knodup, by simp, ?_⟩
    intro a ha b hb
    obtain ⟨x, hx, rfl⟩ := List.mem_map.mp ha
    simp at hb
    subst hb
    exact hfresh x hx
  · rw [hem, List.pairwise_append]
    refine ⟨hI.cinc, by simp, ?_⟩
    intro a ha b hb
    simp at hb
    subst hb
    exact emap_count_lt s hI a ha
  · intro t' p' c'
    show (t', p', c') ∈ (s.pushNew B t p).emap ↔ _ ∈ content (B.push ⟨-p, s.counter, some t⟩ s.pq)
    rw [hem, hperm.mem_iff]
    constructor
    · intro h
      rcases List.mem_append.mp h with h | h
      · exact List.mem_cons_of_mem _ ((hI.live t' p' c').mp h)
      · simp at h
        obtain ⟨rfl, rfl, rfl⟩ := h
        exact List.mem_cons_self
    · intro h
      rcases List.mem_cons.mp h with h | h
      · injection h with h1 h2 h3
        injection h3 with h3
        subst h1 h2 h3
        simp
      · exact List.mem_append_left _ ((hI.live t' p' c').mpr h)

theorem absSpec_erase (t : T) (m : EMap T) :
    (emErase t m).map (fun x => (x.1, -x.2.1)) = (m.map (fun x => (x.1, -x.2.1))).filter (taskNe t) := by
  rw [List.filter_map]
  rfl

theorem add_sim (L : Lawful B wf content) (s : PQ T β) (hI : Inv wf content s) (t : T) (p : Int) :
    Inv wf content (s.add B t p) ∧
    absSpec (s.add B t p) = (absSpec s).filter (taskNe t) ++ [(t, p)] := by
  obtain ⟨hI1, hem1, hc1⟩ := dropOld_inv L s hI t
  have hfresh : ∀ x ∈ (s.dropOld B t).emap, x.1 ≠ t := by
    intro x hx
    rw [hem1, mem_emErase] at hx
    exact hx.2
  obtain ⟨hI2, hem2⟩ := pushNew_inv L (s.dropOld B t) hI1 t p hfresh
  refine ⟨hI2, ?_⟩
  unfold absSpec PQ.add
  rw [hem2, hem1, List.map_append, absSpec_erase]
  simp

/-- dropping a tombstoned entry from the backend keeps the invariant -/
theorem erase_dead_inv (m : EMap T) (n : Nat) (b b' : β) (hI : Inv wf content ⟨b, m, n⟩) (e : Entry T)
    (hdead : e.task = none) (hwf : wf b') (hperm : (content b').Perm ((content b).erase e)) :
    Inv wf content ⟨b', m, n⟩ := by
  refine ⟨hwf, ?_, ?_, hI.knodup, hI.cinc, ?_⟩
  · show ((content b').map Entry.count).Nodup
    rw [(hperm.map Entry.count).nodup_iff]
    exact List.Nodup.sublist (List.Sublist.map _ List.erase_sublist) hI.cnodup
  · intro x hx
    have hx : x ∈ content b' := hx
    rw [hperm.mem_iff] at hx
    exact hI.clt x (List.mem_of_mem_erase hx)
  · intro t p c
    show (t, p, c) ∈ m ↔ _ ∈ content b'
    rw [hperm.mem_iff, List.mem_erase_of_ne (by intro h; rw [← h] at hdead; cases hdead)]
    exact hI.live t p c

/-- popping a live entry and deleting its task from the map keeps the invariant -/
theorem erase_live_inv (m : EMap T) (n : Nat) (b b' : β) (hI : Inv wf content ⟨b, m, n⟩) (e : Entry T)
    (t : T) (hlive : e.task = some t) (he : e ∈ content b) (hwf : wf b')
    (hperm : (content b').Perm ((content b).erase e)) :
    Inv wf content ⟨b', emErase t m, n⟩ := by
  have hnd : (content b).Nodup := content_nodup _ hI
  have hem : (t, e.prio, e.count) ∈ m := by
    apply (hI.live t e.prio e.count).mpr
    have : (⟨e.prio, e.count, some t⟩ : Entry T) = e := by cases e; simp_all
    rw [this]; exact he
  refine ⟨hwf, ?_, ?_, ?_, ?_, ?_⟩
  · show ((content b').map Entry.count).Nodup
    rw [(hperm.map Entry.count).nodup_iff]
    exact List.Nodup.sublist (List.Sublist.map _ List.erase_sublist) hI.cnodup
  · intro x hx
    have hx : x ∈ content b' := hx
    rw [hperm.mem_iff] at hx
    exact hI.clt x (List.mem_of_mem_erase hx)
  · exact List.Nodup.sublist (List.Sublist.map _ List.filter_sublist) hI.knodup
  · exact List.Pairwise.filter _ hI.cinc
  · intro t' p' c'
    show (t', p', c') ∈ emErase t m ↔ _ ∈ content b'
    rw [mem_emErase, hperm.mem_iff, hnd.mem_erase_iff]
    constructor
    · rintro ⟨hm, hne⟩
      refine ⟨?_, (hI.live t' p' c').mp hm⟩
      intro h
      rw [← h] at hlive
      injection hlive with hlive
      exact hne hlive
    · rintro ⟨hne, hc⟩
      have hm := (hI.live t' p' c').mpr hc
      refine ⟨hm, ?_⟩
      intro htt
      subst htt
      have := keys_unique m hI.knodup t' (p', c') (e.prio, e.count) hm hem
      injection this with h1 h2
      apply hne
      cases e
      simp_all

/-- `_cull`: keeps the invariant and — the fuel `len(self._pq)` sufficing — ends either on an
    empty backend or with a live entry of least key in front -/
theorem cull_spec (L : Lawful B wf content) (m : EMap T) (n : Nat) (fuel : Nat) (b : β)
    (hI : Inv wf content ⟨b, m, n⟩) :
    Inv wf content ⟨cull B fuel b, m, n⟩ ∧
    ((content b).length ≤ fuel →
      content (cull B fuel b) = [] ∨
      ∃ e t, B.front (cull B fuel b) = some e ∧ e.task = some t ∧ e ∈ content (cull B fuel b) ∧
        ∀ x ∈ content (cull B fuel b), x.lt e = false) := by
  induction fuel generalizing b with
  | zero =>
    refine ⟨hI, fun h => Or.inl ?_⟩
    exact List.length_eq_zero_iff.mp (by simp only [cull]; omega)
  | succ k ih =>
    unfold cull
    have hsz := L.size_eq b hI.wf
    by_cases h0 : B.size b = 0
    · simp only [h0, ↓reduceIte]
      exact ⟨hI, fun _ => Or.inl (List.length_eq_zero_iff.mp (by omega))⟩
    · simp only [h0, ↓reduceIte]
      have hne : content b ≠ [] := by
        intro h; rw [h] at hsz; simp at hsz; exact h0 hsz
      obtain ⟨e, hfront, hein, hmin⟩ := L.front_min b hI.wf hne
      rw [hfront]
      simp only
      cases htask : e.task with
      | some t =>
        simp only
        exact ⟨hI, fun _ => Or.inr ⟨e, t, hfront, htask, hein, hmin⟩⟩
      | none =>
        simp only
        obtain ⟨e', b', hpop, hfront', hwf', hperm⟩ := L.pop_front b hI.wf hne
        have hee : e' = e := by rw [hfront] at hfront'; exact (Option.some.inj hfront').symm
        subst hee
        rw [hpop]
        simp only
        have hI' := erase_dead_inv m n b b' hI e' htask hwf' hperm
        obtain ⟨h1, h2⟩ := ih b' hI'
        refine ⟨h1, fun hlen => h2 ?_⟩
        have := hperm.length_eq
        rw [List.length_erase_of_mem hein] at this
        have hpos : 0 < (content b).length := List.length_pos_iff.mpr hne
        omega

theorem entry_lt_false (a b : Entry T) (h : a.lt b = false) :
    b.prio ≤ a.prio ∧ (a.prio = b.prio → b.count ≤ a.count) := by
  unfold Entry.lt at h
  simp only [Bool.or_eq_false_iff, Bool.and_eq_false_iff, decide_eq_false_iff_not] at h
  omega

/-- the live entry of least key is the specification's choice -/
theorem best_of_min (s : PQ T β) (hI : Inv wf content s) (e : Entry T) (t : T)
    (he : e ∈ content s.pq) (hlive : e.task = some t) (hmin : ∀ x ∈ content s.pq, x.lt e = false) :
    best (absSpec s) = some (t, -e.prio) := by
  have hem : (t, e.prio, e.count) ∈ s.emap := by
    apply (hI.live t e.prio e.count).mpr
    have : (⟨e.prio, e.count, some t⟩ : Entry T) = e := by cases e; simp_all
    rw [this]; exact he
  obtain ⟨l1, l2, hsplit⟩ := List.append_of_mem hem
  have hpw := hI.cinc
  have hall : ∀ x ∈ s.emap, e.prio ≤ x.2.1 ∧ (x.2.1 = e.prio → e.count ≤ x.2.2) := by
    intro x hx
    obtain ⟨t', p', c'⟩ := x
    exact entry_lt_false _ e (hmin _ ((hI.live t' p' c').mp hx))
  unfold absSpec
  rw [hsplit] at hpw hall ⊢
  rw [List.pairwise_append, List.pairwise_cons] at hpw
  rw [List.map_append, List.map_cons]
  apply best_of_decomp
  · intro y hy
    obtain ⟨x, hx, rfl⟩ := List.mem_map.mp hy
    have h1 := hpw.2.2 x hx (t, e.prio, e.count) (by simp)
    have h2 := hall x (by simp [hx])
    simp only at h1 h2 ⊢
    omega
  · intro y hy
    obtain ⟨x, hx, rfl⟩ := List.mem_map.mp hy
    have h2 := hall x (by simp [hx])
    simp only at h2 ⊢
    omega

theorem emap_nil_of_content_nil (s : PQ T β) (hI : Inv wf content s) (h : content s.pq = []) :
    s.emap = [] := by
  cases hm : s.emap with
  | nil => rfl
  | cons x xs =>
    obtain ⟨t, p, c⟩ := x
    have := (hI.live t p c).mp (by rw [hm]; simp)
    rw [h] at this
    simp at this

theorem peek_sim (L : Lawful B wf content) (s : PQ T β) (hI : Inv wf content s) (d : Option Nat) :
    Inv wf content (s.peek B d).1 ∧ absSpec (s.peek B d).1 = absSpec s ∧
    (s.peek B d).2 = (Spec.step (absSpec s) (.peek d)).2 := by
  obtain ⟨hIc, hdone⟩ := cull_spec L s.emap s.counter (B.size s.pq) s.pq hI
  have hdone := hdone (by rw [L.size_eq s.pq hI.wf]; exact Nat.le_refl _)
  unfold PQ.peek PQ.peekAt
  generalize cull B (B.size s.pq) s.pq = b at hIc hdone
  have hsz := L.size_eq b hIc.wf
  by_cases h0 : B.size b = 0
  · simp only [h0, ↓reduceIte]
    refine ⟨hIc, rfl, ?_⟩
    have hnil : content b = [] := List.length_eq_zero_iff.mp (by omega)
    have hem : s.emap = [] := emap_nil_of_content_nil ⟨b, s.emap, s.counter⟩ hIc hnil
    simp [Spec.step, absSpec, hem, best]
  · simp only [h0, ↓reduceIte]
    rcases hdone with hnil | ⟨e, t, hfront, hlive, hein, hmin⟩
    · rw [hnil] at hsz; simp at hsz; exact absurd hsz h0
    · rw [hfront]
      simp only [hlive]
      refine ⟨hIc, rfl, ?_⟩
      have hb := best_of_min ⟨b, s.emap, s.counter⟩ hIc e t hein hlive hmin
      have habs : absSpec (⟨b, s.emap, s.counter⟩ : PQ T β) = absSpec s := rfl
      rw [habs] at hb
      simp [Spec.step, hb]

theorem pop_sim (L : Lawful B wf content) (s : PQ T β) (hI : Inv wf content s) (d : Option Nat) :
    Inv wf content (s.pop B d).1 ∧ absSpec (s.pop B d).1 = (Spec.step (absSpec s) (.pop d)).1 ∧
    (s.pop B d).2 = (Spec.step (absSpec s) (.pop d)).2 := by
  obtain ⟨hIc, hdone⟩ := cull_spec L s.emap s.counter (B.size s.pq) s.pq hI
  have hdone := hdone (by rw [L.size_eq s.pq hI.wf]; exact Nat.le_refl _)
  unfold PQ.pop PQ.popAt
  generalize cull B (B.size s.pq) s.pq = b at hIc hdone
  have hsz := L.size_eq b hIc.wf
  by_cases h0 : B.size b = 0
  · simp only [h0, ↓reduceIte]
    have hnil : content b = [] := List.length_eq_zero_iff.mp (by omega)
    have hem : s.emap = [] := emap_nil_of_content_nil ⟨b, s.emap, s.counter⟩ hIc hnil
    refine ⟨hIc, ?_, ?_⟩ <;> simp [Spec.step, absSpec, hem, best]
  · simp only [h0, ↓reduceIte]
    rcases hdone with hnil | ⟨e, t, hfront, hlive, hein, hmin⟩
    · rw [hnil] at hsz; simp at hsz; exact absurd hsz h0
    · have hne : content b ≠ [] := by intro h; rw [h] at hein; simp at hein
      obtain ⟨e', b', hpop, hfront', hwf', hperm⟩ := L.pop_front b hIc.wf hne
      have hee : e' = e := by rw [hfront] at hfront'; exact (Option.some.inj hfront').symm
      subst hee
      rw [hpop]
      simp only [hlive]
      have hem : (t, e'.prio, e'.count) ∈ s.emap := by
        apply (hIc.live t e'.prio e'.count).mpr
        have : (⟨e'.prio, e'.count, some t⟩ : Entry T) = e' := by cases e'; simp_all
        rw [this]; exact hein
      cases hl : emLookup t s.emap with
      | none => exact absurd rfl ((emLookup_none t s.emap).mp hl _ hem)
      | some v =>
        simp only
        have hb := best_of_min ⟨b, s.emap, s.counter⟩ hIc e' t hein hlive hmin
        have habs : absSpec (⟨b, s.emap, s.counter⟩ : PQ T β) = absSpec s := rfl
        rw [habs] at hb
        refine ⟨erase_live_inv s.emap s.counter b b' hIc e' t hlive hein hwf' hperm, ?_, ?_⟩
        · simp only [Spec.step, hb]
          exact absSpec_erase t s.emap
        · simp [Spec.step, hb]

theorem has_iff_lookup (s : PQ T β) (t : T) :
    (absSpec s).has t = true ↔ emLookup t s.emap ≠ none := by
  rw [Ne, emLookup_none]
  unfold Spec.has absSpec
  simp only [List.any_map, List.any_eq_true, Function.comp, decide_eq_true_eq]
  constructor
  · rintro ⟨x, hx, rfl⟩ h
    exact h x hx rfl
  · intro h
    apply Classical.byContradiction
    intro hc
    apply h
    intro x hx hxt
    exact hc ⟨x, hx, hxt⟩

/-- one step of the queue model is one step of the specification -/
theorem step_sim (L : Lawful B wf content) (s : PQ T β) (hI : Inv wf content s) (op : Op T) :
    Inv wf content (s.step B op).1 ∧ absSpec (s.step B op).1 = (Spec.step (absSpec s) op).1 ∧
    (s.step B op).2 = (Spec.step (absSpec s) op).2 := by
  cases op with
  | add t p =>
    obtain ⟨h1, h2⟩ := add_sim L s hI t p
    exact ⟨h1, h2, rfl⟩
  | remove t =>
    simp only [PQ.step, Spec.step]
    cases hl : emLookup t s.emap with
    | none =>
      have hr : s.remove B t = none := by simp [PQ.remove, hl]
      have hh : (absSpec s).has t = false := by
        cases hb : (absSpec s).has t with
        | false => rfl
        | true => exact absurd hl ((has_iff_lookup s t).mp hb)
      simp only [hr, hh]
      exact ⟨hI, rfl, rfl⟩
    | some v =>
      obtain ⟨hr, hI'⟩ := remove_inv L s hI t v.1 v.2 hl
      have hh : (absSpec s).has t = true := (has_iff_lookup s t).mpr (by rw [hl]; simp)
      simp only [hr, hh, ↓reduceIte]
      exact ⟨hI', absSpec_erase t s.emap, trivial⟩
  | pop d => exact pop_sim L s hI d
  | peek d =>
    obtain ⟨h1, h2, h3⟩ := peek_sim L s hI d
    refine ⟨h1, ?_, h3⟩
    show absSpec (s.peek B d).1 = _
    rw [h2]
    simp only [Spec.step]
    cases best (absSpec s) <;> rfl
  | len =>
    refine ⟨hI, rfl, ?_⟩
    simp [PQ.step, Spec.step, absSpec]

theorem runFrom_sim (L : Lawful B wf content) (ops : List (Op T)) (s : PQ T β) (hI : Inv wf content s) :
    Inv wf content (PQ.runFrom B s ops).1 ∧
    absSpec (PQ.runFrom B s ops).1 = (Spec.runFrom (absSpec s) ops).1 ∧
    (PQ.runFrom B s ops).2 = (Spec.runFrom (absSpec s) ops).2 := by
  induction ops generalizing s with
  | nil => exact ⟨hI, rfl, rfl⟩
  | cons op ops ih =>
    obtain ⟨h1, h2, h3⟩ := step_sim L s hI op
    obtain ⟨i1, i2, i3⟩ := ih (s.step B op).1 h1
    simp only [PQ.runFrom, Spec.runFrom]
    rw [← h2, ← h3]
    exact ⟨i1, i2, by rw [i3]⟩

/-- every history: same return values / exceptions as the specification, and the reached state
    stands for the specification's state -/
theorem run_sim (L : Lawful B wf content) (ops : List (Op T)) :
    Inv wf content (PQ.run B ops).1 ∧
    absSpec (PQ.run B ops).1 = (Spec.run ops).1 ∧
    (PQ.run B ops).2 = (Spec.run ops).2 := by
  have h := runFrom_sim L ops (PQ.init B) (init_inv L)
  have h0 : absSpec (PQ.init B) = ([] : Spec T) := rfl
  rw [h0] at h
  exact h

end Sim

/-! ### vocabulary and helpers for the clause theorems in `Props.lean` -/
section Clauses
variable {T : Type} [DecidableEq T]

/-- the live tasks after a history -/
abbrev live (ops : List (Op T)) : Spec T := (Spec.run ops).1

/-- the return value of one more operation after the history `ops` -/
abbrev nextOut {β : Type} (B : Backend T β) (ops : List (Op T)) (op : Op T) : Out T :=
  ((PQ.run B ops).1.step B op).2

theorem nextOut_eq_spec {β : Type} {B : Backend T β} {wf : β → Prop} {content : β → List (Entry T)}
    (L : Lawful B wf content) (ops : List (Op T)) (op : Op T) :
    nextOut B ops op = ((live ops).step op).2 := by
  obtain ⟨hI, habs, _⟩ := run_sim L ops
  have := (step_sim L (PQ.run B ops).1 hI op).2.2
  rw [habs] at this
  exact this

theorem runFrom_append (s : Spec T) (ops1 ops2 : List (Op T)) :
    Spec.runFrom s (ops1 ++ ops2) =
      ((Spec.runFrom (Spec.runFrom s ops1).1 ops2).1,
       (Spec.runFrom s ops1).2 ++ (Spec.runFrom (Spec.runFrom s ops1).1 ops2).2) := by
  induction ops1 generalizing s with
  | nil => simp [Spec.runFrom]
  | cons op ops ih => simp [Spec.runFrom, ih]

def isAddOf (t : T) : Op T → Bool
  | .add t' _ => decide (t' = t)
  | _ => false

theorem not_live_stays (s : Spec T) (t : T) (hs : t ∉ s.map Prod.fst) (ops : List (Op T))
    (hops : ∀ op ∈ ops, isAddOf t op = false) :
    Out.task t ∉ (Spec.runFrom s ops).2 ∧ t ∉ (Spec.runFrom s ops).1.map Prod.fst := by
  induction ops generalizing s with
  | nil => simp [Spec.runFrom, hs]
  | cons op ops ih =>
    have hop := hops op (by simp)
    have hrest : ∀ o ∈ ops, isAddOf t o = false := fun o ho => hops o (List.mem_cons_of_mem _ ho)
    have hfilter : ∀ u, t ∉ (s.filter (taskNe u)).map Prod.fst := by
      intro u hin
      obtain ⟨x, hx, hxt⟩ := List.mem_map.mp hin
      exact hs (List.mem_map.mpr ⟨x, (List.mem_filter.mp hx).1, hxt⟩)
    have hbest : ∀ x, best s = some x → x.1 ≠ t := by
      intro x hb hxt
      obtain ⟨pre, post, h1, _, _⟩ := best_decomp s x hb
      apply hs
      rw [h1]
      simp [← hxt]
    have key : t ∉ (s.step op).1.map Prod.fst ∧ (s.step op).2 ≠ .task t := by
      cases op with
      | add u p =>
        simp only [isAddOf, decide_eq_false_iff_not] at hop
        simp only [Spec.step]
        refine ⟨?_, by simp⟩
        rw [List.map_append, List.mem_append]
        rintro (h | h)
        · exact hfilter u h
        · simp at h; exact hop h.symm
      | remove u =>
        simp only [Spec.step]
        split
        · exact ⟨hfilter u, by simp⟩
        · exact ⟨hs, by simp⟩
      | pop d =>
        simp only [Spec.step]
        cases hb : best s with
        | none => exact ⟨hs, by cases d <;> simp [emptyOut]⟩
        | some x =>
          refine ⟨hfilter x.1, ?_⟩
          intro h
          injection h with h
          exact hbest x hb h
      | peek d =>
        simp only [Spec.step]
        cases hb : best s with
        | none => exact ⟨hs, by cases d <;> simp [emptyOut]⟩
        | some x =>
          refine ⟨hs, ?_⟩
          intro h
          injection h with h
          exact hbest x hb h
      | len => exact ⟨hs, by simp [Spec.step]⟩
    obtain ⟨i1, i2⟩ := ih (s.step op).1 key.1 hrest
    simp only [Spec.runFrom, List.mem_cons, not_or]
    exact ⟨⟨fun h => key.2 h.symm, i1⟩, i2⟩

end Clauses


/-! ### draining order -/
section Drain
variable {T : Type} [DecidableEq T]

/-- stable insertion into a list sorted by descending priority: `x` (earlier than everything in
    the list) goes before the first element whose priority is not greater -/
def insDesc (x : T × Int) : Spec T → Spec T
  | [] => [x]
  | y :: ys => if y.2 ≤ x.2 then x :: y :: ys else y :: insDesc x ys

/-- the live tasks ordered by descending priority, earlier (re-)insertion first among equals
    (stable insertion sort) -/
def sortDesc (s : Spec T) : Spec T := s.foldr insDesc []

def SortedDesc (l : Spec T) : Prop := l.Pairwise (fun a b => b.2 ≤ a.2)

theorem insDesc_perm (x : T × Int) (l : Spec T) : (insDesc x l).Perm (x :: l) := by
  induction l with
  | nil => exact List.Perm.refl _
  | cons y ys ih =>
    unfold insDesc
    split
    · exact List.Perm.refl _
    · exact (List.Perm.cons y ih).trans (List.Perm.swap x y ys)

theorem sortDesc_perm (s : Spec T) : (sortDesc s).Perm s := by
  induction s with
  | nil => exact List.Perm.refl _
  | cons a as ih => exact (insDesc_perm a _).trans (List.Perm.cons a ih)

theorem insDesc_sorted (x : T × Int) (l : Spec T) (h : SortedDesc l) : SortedDesc (insDesc x l) := by
  induction l with
  | nil => simp [insDesc, SortedDesc]
  | cons y ys ih =>
    unfold insDesc
    unfold SortedDesc at h ih ⊢
    rw [List.pairwise_cons] at h
    split
    · rename_i hle
      rw [List.pairwise_cons]
      refine ⟨?_, List.pairwise_cons.mpr h⟩
      intro z hz
      rcases List.mem_cons.mp hz with rfl | hz
      · exact hle
      · have := h.1 z hz; omega
    · rename_i hnle
      rw [List.pairwise_cons]
      refine ⟨?_, ih h.2⟩
      intro z hz
      rw [(insDesc_perm x ys).mem_iff] at hz
      rcases List.mem_cons.mp hz with rfl | hz
      · omega
      · exact h.1 z hz

theorem sortDesc_sorted (s : Spec T) : SortedDesc (sortDesc s) := by
  induction s with
  | nil => exact List.Pairwise.nil
  | cons a as ih => exact insDesc_sorted a _ ih

theorem best_sortDesc (s : Spec T) : best s = (sortDesc s).head? := by
  induction s with
  | nil => rfl
  | cons a as ih =>
    unfold best
    show _ = (insDesc a (sortDesc as)).head?
    rw [ih]
    cases hsd : sortDesc as with
    | nil => rfl
    | cons y ys =>
      simp only [List.head?_cons, insDesc]
      by_cases h : a.2 < y.2
      · have : ¬ y.2 ≤ a.2 := by omega
        simp [h, this]
      · have : y.2 ≤ a.2 := by omega
        simp [h, this]

theorem insDesc_of_all_le (a : T × Int) (m : Spec T) (h : ∀ z ∈ m, z.2 ≤ a.2) : insDesc a m = a :: m := by
  cases m with
  | nil => rfl
  | cons z zs => simp [insDesc, h z (by simp)]

theorem insDesc_filter (p : T × Int → Bool) (a : T × Int) (l : Spec T) (hs : SortedDesc l) :
    (insDesc a l).filter p = if p a then insDesc a (l.filter p) else l.filter p := by
  induction l with
  | nil => simp [insDesc]; split <;> simp_all
  | cons y ys ih =>
    unfold SortedDesc at hs ih
    rw [List.pairwise_cons] at hs
    have ih := ih hs.2
    by_cases hle : y.2 ≤ a.2
    · have h1 : insDesc a (y :: ys) = a :: y :: ys := by simp [insDesc, hle]
      rw [h1]
      have hall : ∀ z ∈ (y :: ys).filter p, z.2 ≤ a.2 := by
        intro z hz
        have hz := (List.mem_filter.mp hz).1
        rcases List.mem_cons.mp hz with rfl | hz
        · exact hle
        · have := hs.1 z hz; omega
      rw [insDesc_of_all_le a _ hall]
      by_cases hpa : p a = true <;> simp [List.filter_cons, hpa]
    · have h1 : insDesc a (y :: ys) = y :: insDesc a ys := by simp [insDesc, hle]
      rw [h1]
      by_cases hpy : p y = true
      · simp only [List.filter_cons, hpy, ↓reduceIte, ih]
        by_cases hpa : p a = true
        · simp [hpa, insDesc, hle]
        · simp [hpa]
      · simp only [List.filter_cons, hpy, ih]
        simp

theorem sortDesc_filter (p : T × Int → Bool) (s : Spec T) :
    sortDesc (s.filter p) = (sortDesc s).filter p := by
  induction s with
  | nil => rfl
  | cons a as ih =>
    show _ = (insDesc a (sortDesc as)).filter p
    rw [insDesc_filter p a _ (sortDesc_sorted as)]
    by_cases hpa : p a = true
    · simp only [List.filter_cons, hpa, ↓reduceIte]
      show insDesc a (sortDesc (as.filter p)) = _
      rw [ih]
    · simp only [List.filter_cons, hpa, ↓reduceIte]
      exact ih

/-- popping until empty returns the live tasks in `sortDesc` order -/
theorem spec_drain (d : Option Nat) (n : Nat) (s : Spec T) (hn : (s.map Prod.fst).Nodup) (hlen : s.length = n) :
    (Spec.runFrom s (List.replicate n (.pop d))).2 = (sortDesc s).map (fun x => Out.task x.1) ∧
    (Spec.runFrom s (List.replicate n (.pop d))).1 = [] := by
  induction n generalizing s with
  | zero =>
    have : s = [] := List.length_eq_zero_iff.mp hlen
    subst this
    exact ⟨rfl, rfl⟩
  | succ k ih =>
    have hperm := sortDesc_perm s
    cases hsd : sortDesc s with
    | nil =>
      have := hperm.length_eq
      rw [hsd] at this
      simp at this
      omega
    | cons x tl =>
      have hb : best s = some x := by rw [best_sortDesc, hsd]; rfl
      have hnd : ((x :: tl).map Prod.fst).Nodup := by
        rw [← hsd]; exact ((hperm.map Prod.fst).nodup_iff).mpr hn
      have hfil : (x :: tl).filter (taskNe x.1) = tl := by
        rw [List.map_cons, List.nodup_cons] at hnd
        have hx : taskNe x.1 x = false := by simp [taskNe]
        rw [List.filter_cons]
        simp only [hx, Bool.false_eq_true, ↓reduceIte]
        rw [List.filter_eq_self]
        intro z hz
        simp only [taskNe, Bool.not_eq_eq_eq_not, Bool.not_true, decide_eq_false_iff_not]
        intro hzx
        exact hnd.1 (List.mem_map.mpr ⟨z, hz, hzx⟩)
      have hsd' : sortDesc (s.filter (taskNe x.1)) = tl := by
        rw [sortDesc_filter, hsd, hfil]
      have hlen' : (s.filter (taskNe x.1)).length = k := by
        have h1 := (sortDesc_perm (s.filter (taskNe x.1))).length_eq
        rw [hsd'] at h1
        have h2 := hperm.length_eq
        rw [hsd] at h2
        simp at h2
        omega
      have hn' : ((s.filter (taskNe x.1)).map Prod.fst).Nodup :=
        List.Nodup.sublist (List.Sublist.map _ List.filter_sublist) hn
      obtain ⟨i1, i2⟩ := ih (s.filter (taskNe x.1)) hn' hlen'
      simp only [List.replicate_succ, Spec.runFrom, Spec.step, hb]
      rw [i1, i2, hsd']
      simp


def hasPrio (p : Int) (x : T × Int) : Bool := decide (x.2 = p)

theorem sortDesc_of_same_prio (p : Int) (l : Spec T) (h : ∀ x ∈ l, x.2 = p) : sortDesc l = l := by
  induction l with
  | nil => rfl
  | cons a as ih =>
    show insDesc a (sortDesc as) = _
    rw [ih (fun x hx => h x (List.mem_cons_of_mem _ hx))]
    apply insDesc_of_all_le
    intro z hz
    have h1 := h z (List.mem_cons_of_mem _ hz)
    have h2 := h a (by simp)
    omega

end Drain

end C10
