import BoltonsVerif.C01.LL
/-
C01 — the pointer level of the linked list: the heap of cells `[PREV, NEXT, KEY, VALUE]` as the
code manipulates it.

  Python                                      model
  object identity of a cell / of `root`       a natural number; `root` is 0
  `cell[NEXT]`, `cell[PREV]`                   the two pointer fields of the heap, `nxt`, `prv`
                                               (identity ↦ identity; dicts = association lists)
  `cell[KEY]`, `cell[VALUE]`                   the payload field `pay` (never written after creation)
  `_map : key -> [cells]`                      `map : key -> [identities]`
  a new list object                            the next unused identity `fresh`
  `root[:] = [root, root, None]`               `nxt[0] = prv[0] = 0`
  `last = root[PREV]; cell = [last, root, k, v]; last[NEXT] = root[PREV] = cell`
                                               `PL.insert`
  `cell[PREV][NEXT], cell[NEXT][PREV] = cell[NEXT], cell[PREV]`
                                               `unlinkP`
  `curr = root[NEXT]; while curr is not root: …; curr = curr[NEXT]`
                                               `walk` (with fuel `fresh`: a list of distinct
                                               identities below `fresh` cannot be longer)
Cells that have been unlinked stay in the heap as garbage (nothing points to them from `root`).
`PL.abs` reads the heap back as the list of identified cells of `LL.lean`; `PtrProofs.lean` shows
that the four helpers commute with it.  Core Lean only.
-/
namespace C01

/-- one pointer field of the heap -/
abbrev Ptrs := List (Nat × Nat)

/-- dereference (`0` = `root`; a field that was never written reads as `root`, which is how the
    empty list `root[:] = [root, root, None]` looks) -/
def look (m : Ptrs) (a : Nat) : Nat := (dget a m).getD 0

/-- follow `NEXT` from `cur` until `root` -/
def walk (nxt : Ptrs) : Nat → Nat → List Nat
  | 0, _ => []
  | fuel + 1, cur => if cur = 0 then [] else cur :: walk nxt fuel (look nxt cur)

structure PL (K V : Type) where
  nxt : Ptrs
  prv : Ptrs
  pay : List (Nat × (K × V))
  map : List (K × List Nat)
  fresh : Nat
deriving Repr

/-- the cell object with identity `i` -/
def cellAt {K V : Type} (pay : List (Nat × (K × V))) (i : Nat) : Option (Cell K V) :=
  (dget i pay).map fun kv => ⟨i, kv.1, kv.2⟩

/-- `cell[PREV][NEXT], cell[NEXT][PREV] = cell[NEXT], cell[PREV]` -/
def unlinkP (c : Nat) (np : Ptrs × Ptrs) : Ptrs × Ptrs :=
  (dset (look np.2 c) (look np.1 c) np.1, dset (look np.1 c) (look np.2 c) np.2)

namespace PL
variable {K V : Type} [DecidableEq K]

/-- `__new__`: `_map = {}`, `root = []`, `root[:] = [root, root, None]` -/
def empty : PL K V := ⟨[], [], [], [], 1⟩

/-- `_clear_ll` on an existing object: `_map.clear()`, `root[:] = [root, root, None]` -/
def clear (l : PL K V) : PL K V := ⟨dset 0 0 l.nxt, dset 0 0 l.prv, l.pay, [], l.fresh⟩

/-- `_insert(k, v)` -/
def insert (l : PL K V) (k : K) (v : V) : PL K V :=
  ⟨dset (look l.prv 0) l.fresh (dset l.fresh 0 l.nxt),
   dset 0 l.fresh (dset l.fresh (look l.prv 0) l.prv),
   dset l.fresh (k, v) l.pay,
   dset k ((dget k l.map).getD [] ++ [l.fresh]) l.map, l.fresh + 1⟩

/-- `_remove(k)` -/
def remove (l : PL K V) (k : K) : Except Err (PL K V) :=
  match dget k l.map with
  | none => .error .keyError
  | some ids => match ids.getLast? with
    | none => .error .indexError
    | some c =>
      let np := unlinkP c (l.nxt, l.prv)
      .ok ⟨np.1, np.2, l.pay, if ids.dropLast.isEmpty then ddel k l.map else dset k ids.dropLast l.map, l.fresh⟩

/-- `_remove_all(k)` -/
def removeAll (l : PL K V) (k : K) : Except Err (PL K V) :=
  match dget k l.map with
  | none => .error .keyError
  | some ids =>
    let np := ids.reverse.foldl (fun np c => unlinkP c np) (l.nxt, l.prv)
    .ok ⟨np.1, np.2, l.pay, ddel k l.map, l.fresh⟩

/-- the identities met by the walk `root[NEXT] … ` until `root` -/
def ids (l : PL K V) : List Nat := walk l.nxt l.fresh (look l.nxt 0)

/-- … and the cells -/
def cells (l : PL K V) : List (Cell K V) := l.ids.filterMap (cellAt l.pay)

/-- the heap read back as the list of identified cells -/
def abs (l : PL K V) : LL K V := ⟨l.cells, l.map, l.fresh⟩

/-- `iteritems(multi=True)` -/
def flat (l : PL K V) : List (K × V) := l.abs.flat

/-- `root[PREV][KEY]` (`None` for `root` itself) -/
def lastKey (l : PL K V) : Option K := (dget (look l.prv 0) l.pay).map (·.1)

/-- `__reversed__` walks `PREV` from `root`: the identities in reverse link order -/
def idsBack (l : PL K V) : List Nat := walk l.prv l.fresh (look l.prv 0)

/-- … and the pairs it meets -/
def flatBack (l : PL K V) : List (K × V) := (l.idsBack.filterMap (cellAt l.pay)).map fun c => (c.key, c.val)

end PL
end C01
