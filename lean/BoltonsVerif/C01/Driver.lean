import BoltonsVerif.Common
import BoltonsVerif.C01.Model
import BoltonsVerif.C01.Concrete
import BoltonsVerif.C01.Own
/-
C01 line protocol.  One line = one whole history on the two registers `s`, `t`:
    <nk> <op> <op> ...
keys and values are small naturals (classes of `==`-equal Python objects); `nk` = number of key
ids probed by the per-key readers.  Fields of an op are separated by `:`.
  pairs  = `k.v,k.v,...`  (`-` = empty)        values = `v,v,...` (`-` = empty)
  E      = `s` (self) | `t` (register t) | `o<pairs>` (fresh OMD) | `m<pairs>` (mapping)
           | `p<pairs>` (iterable of pairs) | `n` (no argument; constructor only)
           | `S` (list snapshot of the receiver's own pairs) | `D` (the receiver's own todict())
  addlistx:k:values  updx:pairs  extx:pairs  newx   the argument iterable raised (`XBoom`) after these items had been
           taken over (as many as the implementation was SEEN to take: the statement leaves the number open; the code
           as it is takes none for addlist, which materialises first, and everything yielded for update / update_extend)
  updmx:pairs   a mapping argument of `update` that raises after delivering these items (`XBoom`)
  nop           the caller creates, advances or drains iterators (`N`): nothing changes
  rej           a call that raises on its first look at its argument (`XReject`): nothing changes
  fk:keys:v     `s = cls.fromkeys(keys, v)`
  new:E:F  add:k:v  addlist:k:values  set:k:v  del:k  upd:E:F  ext:E:F  sd:k:v
  pop:k:d  popall:k:d  poplast:k|-:d  (d = 0|1: default given)  popitem  clear
  cpt (t = copy of s)  cps (s = copy of s)  swap
  eq:E  (E may also be `x`: an object that is not a mapping)         -> `B<eq><ne><eq><ne>` (the second pair is the
           reflected comparison `other == s` / `other != s`: `type(s)` is a subclass of dict that overrides
           `__eq__` / `__ne__`, so Python asks `s` first - the same two calls)
  sorted:fn:rev  (fn = n|k|v|c)   sv:fn:rev  (fn = n|m|g|c)           -> `O<pairs>`
`todict()` / `todict(multi=True)` are dicts: printed sorted by key id on both sides.
Output: one `;`-separated record per op: `<ret> <dump of every reader of s> T<pairs of t>`.
The history runs on the concrete layer (`Concrete.lean`: dict + pointer-level linked list + `_map`,
`hstep3`); the readers walk its abstraction (`HState3.abs`), as `iteritems(multi=True)` walks the
linked list; `__reversed__` (`R`) walks the `PREV` pointers of the heap.
The ownership layer (`Own.lean`) runs next to it for register `s`: which list OBJECT the dict stores under each key,
which objects the caller holds.  After every op the caller does what the harness does - it appends the junk value 9 to
the list it handed to `addlist` (token `addlistL`: the argument was a list object) and reverses it, to the list `popall`
returned, and to one `getlist(k)` result per probed key - and `OW` prints the storage read through the heap afterwards
(compound operations - update, constructors, copies, swap - rebuild the storage with new list objects throughout).
-/
namespace C01.Driver
open BV C01

abbrev D := OMD Nat Nat

def showPairs (l : List (Nat × Nat)) : String :=
  if l.isEmpty then "-" else ",".intercalate (l.map fun p => s!"{p.1}.{p.2}")

def showErr : Err → String
  | .keyError => "!KeyError"
  | .indexError => "!IndexError"

def showE {α : Type} (f : α → String) : Except Err α → String
  | .ok a => f a
  | .error e => showErr e

def showVals (l : List Nat) : String := if l.isEmpty then "-" else "/".intercalate (l.map toString)

def showOut : Out Nat Nat → String
  | .unit => "N"
  | .dflt => "D"
  | .val v => s!"V{v}"
  | .vals l => s!"L{showVals l}"
  | .pair k v => s!"KV{k}.{v}"
  | .err e => "X" ++ (showErr e).drop 1
  | .abort => "XBoom"

def dump (nk : Nat) (st3 : HState3 Nat Nat) : String :=
  let st := st3.abs
  let s := st.s
  let ks := List.range nk
  let inv := s.inverted
  " ".intercalate [
    s!"IM{showPairs s.itemsM}", s!"I{showE showPairs s.items}",
    s!"KM{showNats s.keysM}", s!"K{showNats s.keys}",
    s!"VM{showNats s.valuesM}", s!"V{showE (showNats ·) s.values}",
    s!"L{s.len}", s!"BO{if s.bool then 1 else 0}", s!"IT{showNats s.iter}", s!"R{showE (showNats ·) st3.s.reversed}",
    s!"TD{showE (fun l => showPairs (sortBy (fun a b => decide (a.1 ≤ b.1)) l)) s.todict}",
    s!"TM{",".intercalate ((sortBy (fun a b => decide (a.1 ≤ b.1)) s.todictM).map fun kv => s!"{kv.1}={showVals kv.2}")}",
    s!"G{",".intercalate (ks.map fun k => showE (fun o => match o with | some v => toString v | none => "D") (s.get k))}",
    s!"GL{",".intercalate (ks.map fun k => showVals (s.getlist k))}",
    s!"GI{",".intercalate (ks.map fun k => showE toString (s.getitem k))}",
    s!"C{",".intercalate (ks.map fun k => if s.contains k then "1" else "0")}",
    s!"CN{showE showPairs s.counts}",
    s!"IV{showPairs inv.itemsM}", s!"IK{showNats inv.keys}", s!"IL{inv.len}",
    s!"VK{showNats s.viewKeysIter}", s!"VL{s.viewLen}", s!"VV{showE (showNats ·) s.viewValuesIter}",
    s!"VI{showE showPairs s.viewItemsIter}",
    s!"VC{"".intercalate (ks.map fun k => if s.viewKeysContains k then "1" else "0")}",
    s!"VIC{"".intercalate (ks.map fun k => "".intercalate ((List.range 5).map fun v =>
        showE (fun b => if b then "1" else "0") (s.viewItemsContains k v)))}",
    s!"VVC{"".intercalate ((List.range 5).map fun v => showE (fun b => if b then "1" else "0") (s.viewValuesContains v))}",
    s!"RP{s.reprText "C" toString toString}",
    s!"T{showPairs st.t.itemsM}"]

def parsePairs? (s : String) : Option (List (Nat × Nat)) :=
  if s = "-" ∨ s = "" then some [] else
  (splitOnChar s ',').foldr (fun w acc =>
    match acc, splitOnChar w '.' with
    | some l, [a, b] => match a.toNat?, b.toNat? with
      | some x, some y => some ((x, y) :: l)
      | _, _ => none
    | _, _ => none) (some [])

/-- `S` = a list snapshot of the receiver's own pairs, `D` = the receiver's own `todict()`: plain
    values computed from the current state by the caller before the call -/
def parseArg? (st : HState Nat Nat) (s : String) : Option (HArg Nat Nat) :=
  let rest := (s.drop 1).toString
  match s.front with
  | 'S' => if rest = "" then some (.pairs st.s.itemsM) else none
  | 'D' => if rest = "" then (match st.s.todict with | .ok l => some (.mapping l) | .error _ => none) else none
  | 's' => if rest = "" then some .self else none
  | 't' => if rest = "" then some .regT else none
  | 'o' => (parsePairs? rest).map .fresh
  | 'm' => (parsePairs? rest).map .mapping
  | 'p' => (parsePairs? rest).map .pairs
  | _ => none

def parseBool? (s : String) : Option Bool :=
  if s = "1" then some true else if s = "0" then some false else none

def pairLe (fn : String) : Option (Nat × Nat → Nat × Nat → Bool) :=
  if fn = "n" then some fun a b => decide (a.1 < b.1 ∨ (a.1 = b.1 ∧ a.2 ≤ b.2))
  else if fn = "k" then some fun a b => decide (a.1 ≤ b.1)
  else if fn = "v" then some fun a b => decide (a.2 ≤ b.2)
  else if fn = "c" then some fun _ _ => true
  else none

def valLe (fn : String) : Option (Nat → Nat → Bool) :=
  if fn = "n" then some fun a b => decide (a ≤ b)
  else if fn = "m" then some fun a b => decide (a % 2 ≤ b % 2)
  else if fn = "g" then some fun a b => decide (b ≤ a)
  else if fn = "c" then some fun _ _ => true
  else none

def showOMD (o : D) : String := s!"O{showPairs o.itemsM}|{showNats o.keys}|{o.len}"

/-- a state-changing op -/
def parseOp? (st : HState Nat Nat) (tok : String) : Option (HOp Nat Nat) :=
  match splitOnChar tok ':' with
  | ["new", e, f] => do
      let F ← parsePairs? f
      if e = "n" then pure (.new none F) else
      let E ← parseArg? st e
      pure (.new (some E) F)
  | ["addlistx", k, vs] => do
      -- the values listed are the ones that were TAKEN OVER before the argument raised (the statement does not say how
      -- many that must be; the code as it is materialises the argument first and takes none: `addlistAbort`)
      let vs ← natList? vs
      if vs.isEmpty then pure (.addlistAbort (← k.toNat?) []) else pure (.addlist (← k.toNat?) vs)
  | ["updx", l] => do pure (.updateAbort (← parsePairs? l))
  | ["extx", l] => do pure (.updateExtendAbort (← parsePairs? l))
  | ["updmx", l] => do pure (.updateMapAbort (← parsePairs? l))
  | ["rej"] => some .rejected
  | ["fk", ks, v] => do
      let ks ← natList? ks
      let v ← v.toNat?
      pure (.new (some (.pairs (OMD.fromkeys ks v : OMD Nat Nat).itemsM)) [])
  | ["add", k, v] => do pure (.add (← k.toNat?) (← v.toNat?))
  | ["addlist", k, vs] => do pure (.addlist (← k.toNat?) (← natList? vs))
  | ["set", k, v] => do pure (.setitem (← k.toNat?) (← v.toNat?))
  | ["del", k] => do pure (.delitem (← k.toNat?))
  | ["upd", e, f] => do pure (.update (← parseArg? st e) (← parsePairs? f))
  | ["ext", e, f] => do pure (.updateExtend (← parseArg? st e) (← parsePairs? f))
  | ["sd", k, v] => do pure (.setdefault (← k.toNat?) (← v.toNat?))
  | ["pop", k, d] => do pure (.pop (← k.toNat?) (← parseBool? d))
  | ["popall", k, d] => do pure (.popall (← k.toNat?) (← parseBool? d))
  | ["poplast", k, d] => do
      let d ← parseBool? d
      if k = "-" then pure (.poplast none d) else pure (.poplast (some (← k.toNat?)) d)
  | ["popitem"] => some .popitem
  | ["clear"] => some .clear
  | ["cpt"] => some .copyToT
  | ["cps"] => some .copyToS
  | ["swap"] => some .swap
  | _ => none

def showB (b : Bool) : String := if b then "B1010" else "B0101"

/-- `==` and `!=`, each computed by its own model function -/
def showEN (e n : Except Err Bool) : String :=
  match e, n with
  | .ok e, .ok n => s!"B{if e then 1 else 0}{if n then 1 else 0}{if e then 1 else 0}{if n then 1 else 0}"
  | .error x, _ => showErr x
  | _, .error x => showErr x

/-- a query: no state change -/
def query? (st : HState Nat Nat) (tok : String) : Option String :=
  match splitOnChar tok ':' with
  | ["eq", e] =>
    if e = "x" then some (showB false) else
    match parseArg? st e with
    | some .self => some (showB true)                       -- `self is other`
    | some .regT => some (showEN (.ok (st.s.eqOMD st.t)) (.ok (st.s.neOMD st.t)))
    | some (.fresh l) => some (showEN (.ok (st.s.eqOMD (OMD.fromPairs l))) (.ok (st.s.neOMD (OMD.fromPairs l))))
    | some (.mapping m) => some (showEN (st.s.eqMapping m) (st.s.neMapping m))
    | _ => none
  | ["nop"] => some "N"             -- the caller makes / advances / drains iterators: reads only
  | ["newx"] => some "XBoom"        -- the constructor raised: no new object, `s` is still the old one
  | ["sorted", fn, rev] => do
      let le ← pairLe fn
      let r ← parseBool? rev
      pure (showOMD (st.s.sorted le r))
  | ["sv", fn, rev] => do
      let le ← valLe fn
      let r ← parseBool? rev
      match st.s.sortedvalues le r with
      | (o, .unit) => pure (showOMD o)
      | (_, out) => pure (showOut out)
  | _ => none


/-! ### the ownership layer next to the history -/

def junk : Nat := 9

/-- a compound operation rebuilt the storage: every key holds a new list object of its own -/
def ownRebuild (vals : List (Nat × List Nat)) (o : Own Nat Nat) : Own Nat Nat :=
  vals.foldl (fun acc kv => ⟨acc.d ++ [(kv.1, acc.next)], dset acc.next kv.2 acc.heap, acc.next + 1, acc.caller⟩)
    ⟨[], o.heap, o.next, o.caller⟩

/-- the storage part of one op on the ownership layer (`st` = the state BEFORE the op, `st'` after) -/
def ownTok (st st' : HState Nat Nat) (o : Own Nat Nat) (tok : String) : Own Nat Nat :=
  let lastKey : Option Nat := if st.s.vals.isEmpty then none else st.s.cells.getLast?.map (·.1)
  let r : Option (Own Nat Nat) :=
    match splitOnChar tok ':' with
    | ["add", k, v] => do pure (o.add (← k.toNat?) (← v.toNat?))
    | ["addlistL", k, vs] => do
        let k ← k.toNat?
        let vs ← natList? vs
        let (o1, a) := o.callerNew vs                 -- the caller's list object
        let o2 := o1.addlistFrom k a
        pure (o2.callerWrite a (junk :: (o2.look a).reverse))     -- `arg.append(JUNK); arg.reverse()`
    | ["addlist", k, vs] => do pure (o.addlistVals (← k.toNat?) (← natList? vs))
    | ["set", k, v] => do pure (o.setitem (← k.toNat?) (← v.toNat?))
    | ["del", k] => do pure (o.delKey (← k.toNat?))
    | ["sd", k, v] => do
        let k ← k.toNat?
        let v ← v.toNat?
        pure (if (dget k o.d).isSome then o else o.setitem k v)
    | ["popall", k, _] => do
        let (o1, r) := o.popall (← k.toNat?)
        pure (match r with
          | some i => o1.callerWrite i (o1.look i ++ [junk])       -- `r.append(JUNK)`
          | none => o1)
    | ["pop", k, _] => do pure (o.popall (← k.toNat?)).1
    | ["poplast", k, _] =>
        if k = "-" then (match lastKey with | some k => some (o.poplast k) | none => some o)
        else do pure (o.poplast (← k.toNat?))
    | ["popitem"] => (match lastKey with | some k => some (o.popall k).1 | none => some o)
    | ["clear"] => some o.clear
    | ["eq", _] => some o
    | ["sorted", _, _] => some o
    | ["sv", _, _] => some o
    | ["newx"] => some o
    | ["rej"] => some o
    | ["nop"] => some o
    | ["addlistx", k, vs] => do pure (o.addlistVals (← k.toNat?) (← natList? vs))
    | _ => none
  match r with
  | some o' => o'
  | none => ownRebuild st'.s.vals o

/-- what the harness does in every dump: one `getlist(k)` per probed key, junk appended to the result -/
def ownDumpScribbles (nk : Nat) (o : Own Nat Nat) : Own Nat Nat :=
  (List.range nk).foldl (fun acc k =>
    let (o1, i) := acc.getlist k
    o1.callerWrite i (o1.look i ++ [junk])) o

def showOwn (o : Own Nat Nat) : String :=
  ",".intercalate ((sortBy (fun a b => decide (a.1 ≤ b.1)) o.vals).map fun kv => s!"{kv.1}={showVals kv.2}")

def stepTok (nk : Nat) (st : HState3 Nat Nat) (o : Own Nat Nat) (tok : String) :
    Option (HState3 Nat Nat × Own Nat Nat × String) :=
  let tokM := if tok.startsWith "addlistL:" then "addlist:" ++ (tok.drop 9).toString else tok
  match parseOp? st.abs tokM with
  | some op =>
    let r := hstep3 st op
    let o' := ownDumpScribbles nk (ownTok st.abs r.1.abs o tok)
    some (r.1, o', s!"{if tok = "rej" then "XReject" else if tok.startsWith "addlistx:" then "XBoom" else showOut r.2} {dump nk r.1} OW{showOwn o'}")
  | none => match query? st.abs tokM with
    | some out =>
      let o' := ownDumpScribbles nk (ownTok st.abs st.abs o tok)
      some (st, o', s!"{out} {dump nk st} OW{showOwn o'}")
    | none => none

def handle (line : String) : String :=
  match words line with
  | nk :: toks =>
    match nk.toNat? with
    | some nk =>
      let rec go (st : HState3 Nat Nat) (o : Own Nat Nat) (toks : List String) (acc : List String) : Option (List String) :=
        match toks with
        | [] => some acc.reverse
        | t :: ts => match stepTok nk st o t with
          | some (st', o', out) => go st' o' ts (out :: acc)
          | none => none
      match go HState3.init Own.empty toks [] with
      | some outs => ";".intercalate outs
      | none => "bad-op"
    | none => "bad-op"
  | _ => "bad-op"

end C01.Driver
