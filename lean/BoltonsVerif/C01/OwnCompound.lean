import BoltonsVerif.C01.OwnProofs
/-
C01 — the compound mutators on the ownership layer: `update` / `|=` / `update_extend` / the constructor /
`setdefault` / `pop` / `popitem` touch the dict storage only through the statements modelled as `OwnOp`
primitives (`add` → setdefault + append, `[]=` → a new one-element list, `del` → the key leaves, `popall` → the
stored object goes to the caller).  `compile*` lists those primitive steps for each compound mutator of
`Model.lean`; the theorems say that running them changes the dereferenced storage exactly as the model's `vals`.
Together with `ownRun_sep`: no public mutator can make the dictionary share a list object with its caller.
-/
namespace C01
variable {K V : Type} [DecidableEq K]

/-- the storage effect of a primitive that does not read a list of the caller's -/
def valsPure (vals : List (K × List V)) : OwnOp K V → List (K × List V)
  | .add k v => dset k ((dget k vals).getD [] ++ [v]) vals
  | .addlistVals k vs => if vs.isEmpty then vals else dset k ((dget k vals).getD [] ++ vs) vals
  | .setitem k v => dset k [v] vals
  | .delKey k => ddel k vals
  | .popall k => ddel k vals
  | .poplast k => match dget k vals with
    | none => vals
    | some vs => if vs.dropLast.isEmpty then ddel k vals else dset k vs.dropLast vals
  | .clear => []
  | _ => vals

/-- the primitives whose storage effect does not depend on the heap -/
def OwnOp.pure : OwnOp K V → Bool
  | .addlistFrom _ _ => false
  | _ => true

theorem valsStep_pure (o : Own K V) (vals : List (K × List V)) (op : OwnOp K V) (h : op.pure = true) :
    valsStep o vals op = valsPure vals op := by
  cases op <;> first | rfl | (simp [OwnOp.pure] at h)

/-- a run of heap-independent primitives: `Sep` is kept and the storage is the fold of the pure effects -/
theorem ownRun_pure (ops : List (OwnOp K V)) : ∀ (o : Own K V), Sep o → (∀ op ∈ ops, op.pure = true) →
    Sep (ownRun o ops) ∧ (ownRun o ops).vals = ops.foldl valsPure o.vals := by
  induction ops with
  | nil => intro o h _; exact ⟨h, rfl⟩
  | cons op r ih =>
    intro o h hp
    obtain ⟨s1, v1⟩ := ownStep_spec h op
    have := ih (ownStep o op) s1 (fun x hx => hp x (List.mem_cons_of_mem _ hx))
    simp only [ownRun, List.foldl_cons] at this ⊢
    rw [v1, valsStep_pure o o.vals op (hp op (by simp))] at this
    exact this

/-! the compound mutators as lists of primitives -/

def compileAddAll (l : List (K × V)) : List (OwnOp K V) := l.map fun p => .add p.1 p.2
def compileSetAll (l : List (K × V)) : List (OwnOp K V) := l.map fun p => .setitem p.1 p.2
def compileDelKeys (ks : List K) : List (OwnOp K V) := ks.map fun k => .delKey k

/-- the `seen` loop of `update`: `del self[k]` at the first occurrence of a key, then `add` -/
def compileUpdPairs (seen : List K) : List (K × V) → List (OwnOp K V)
  | [] => []
  | p :: r => if p.1 ∈ seen then .add p.1 p.2 :: compileUpdPairs seen r
              else .delKey p.1 :: .add p.1 p.2 :: compileUpdPairs (p.1 :: seen) r

theorem all_pure_map {α : Type} (f : α → OwnOp K V) (hf : ∀ a, (f a).pure = true) (l : List α) :
    ∀ op ∈ l.map f, op.pure = true := by
  intro op hop
  obtain ⟨a, _, rfl⟩ := List.mem_map.mp hop
  exact hf a

theorem ddel_eq_of_not_has (k : K) (vals : List (K × List V)) (h : dhas k vals = false) : ddel k vals = vals := by
  apply ddel_absent
  simp only [dhas] at h
  cases hk : dget k vals with
  | none => rfl
  | some x => simp [hk] at h

theorem delIfHas_vals (s : OMD K V) (k : K) : (s.delIfHas k).vals = ddel k s.vals := by
  unfold OMD.delIfHas
  split
  · rfl
  · rename_i h; exact (ddel_eq_of_not_has k s.vals (by simpa using h)).symm

theorem addAll_vals (l : List (K × V)) : ∀ (s : OMD K V),
    (s.addAll l).vals = (compileAddAll l).foldl valsPure s.vals := by
  induction l with
  | nil => intro s; rfl
  | cons p r ih =>
    intro s
    simp only [OMD.addAll, compileAddAll, List.foldl_cons, List.map_cons] at ih ⊢
    exact ih (s.add p.1 p.2)

theorem setAll_vals (l : List (K × V)) : ∀ (s : OMD K V),
    (s.setAll l).vals = (compileSetAll l).foldl valsPure s.vals := by
  induction l with
  | nil => intro s; rfl
  | cons p r ih =>
    intro s
    simp only [OMD.setAll, compileSetAll, List.foldl_cons, List.map_cons] at ih ⊢
    exact ih (s.setitem p.1 p.2)

theorem delKeys_vals (ks : List K) : ∀ (s : OMD K V),
    (ks.foldl OMD.delIfHas s).vals = (compileDelKeys ks).foldl valsPure s.vals := by
  induction ks with
  | nil => intro s; rfl
  | cons k r ih =>
    intro s
    simp only [compileDelKeys, List.foldl_cons, List.map_cons] at ih ⊢
    rw [ih (s.delIfHas k), delIfHas_vals]
    rfl

theorem updPairs_vals (l : List (K × V)) : ∀ (s : OMD K V) (seen : List K),
    (s.updPairs seen l).vals = (compileUpdPairs seen l).foldl valsPure s.vals := by
  induction l with
  | nil => intro s seen; rfl
  | cons p r ih =>
    intro s seen
    simp only [OMD.updPairs, compileUpdPairs]
    split
    · simp only [List.foldl_cons]
      exact ih (s.add p.1 p.2) seen
    · simp only [List.foldl_cons]
      rw [ih ((s.delIfHas p.1).add p.1 p.2) (p.1 :: seen)]
      congr 1
      show dset p.1 ((dget p.1 (s.delIfHas p.1).vals).getD [] ++ [p.2]) (s.delIfHas p.1).vals = _
      rw [delIfHas_vals]
      rfl

/-- `update(E, **F)` as a list of primitive storage steps -/
def compileUpdate (s : OMD K V) (E : Arg K V) (F : List (K × V)) : List (OwnOp K V) :=
  (match E with
    | .self => []
    | .omd t => compileDelKeys t.keys ++ compileAddAll t.cells
    | .mapping m => compileSetAll m
    | .pairs l => compileUpdPairs [] l) ++ compileSetAll F

theorem update_vals (s : OMD K V) (E : Arg K V) (F : List (K × V)) :
    (s.update E F).vals = (compileUpdate s E F).foldl valsPure s.vals := by
  unfold OMD.update compileUpdate
  cases E with
  | self => simp only [List.nil_append]; exact setAll_vals F s
  | omd t =>
    simp only [List.foldl_append]
    rw [setAll_vals, addAll_vals, delKeys_vals]
  | mapping m =>
    simp only [List.foldl_append]
    rw [setAll_vals, setAll_vals]
  | pairs l =>
    simp only [List.foldl_append]
    rw [setAll_vals, updPairs_vals]

theorem compileUpdPairs_pure (l : List (K × V)) : ∀ seen, ∀ op ∈ compileUpdPairs (V := V) seen l, op.pure = true := by
  induction l with
  | nil => intro seen op h; simp [compileUpdPairs] at h
  | cons p r ih =>
    intro seen op h
    simp only [compileUpdPairs] at h
    split at h
    · simp only [List.mem_cons] at h
      rcases h with rfl | h
      · rfl
      · exact ih seen op h
    · simp only [List.mem_cons] at h
      rcases h with rfl | rfl | h
      · rfl
      · rfl
      · exact ih _ op h

theorem compileUpdate_pure (s : OMD K V) (E : Arg K V) (F : List (K × V)) :
    ∀ op ∈ compileUpdate s E F, op.pure = true := by
  intro op h
  simp only [compileUpdate, List.mem_append] at h
  rcases h with h | h
  · cases E with
    | self => simp at h
    | omd t =>
      simp only [List.mem_append] at h
      rcases h with h | h
      · exact all_pure_map _ (fun _ => rfl) _ op h
      · exact all_pure_map _ (fun _ => rfl) _ op h
    | mapping m => exact all_pure_map _ (fun _ => rfl) _ op h
    | pairs l => exact compileUpdPairs_pure l [] op h
  · exact all_pure_map _ (fun _ => rfl) _ op h

/-- `update_extend(E, **F)`: `add` for every pair the argument delivers, then for every keyword argument -/
def compileUpdateExtend (s : OMD K V) (E : Arg K V) (F : List (K × V)) : List (OwnOp K V) :=
  match E with
  | .self => (match s.items with | .ok l => compileAddAll l ++ compileAddAll F | .error _ => [])
  | .omd t => compileAddAll t.cells ++ compileAddAll F
  | .mapping m => compileAddAll m ++ compileAddAll F
  | .pairs l => compileAddAll l ++ compileAddAll F

theorem updateExtend_vals (s : OMD K V) (E : Arg K V) (F : List (K × V)) :
    (s.updateExtend E F).1.vals = (compileUpdateExtend s E F).foldl valsPure s.vals := by
  unfold OMD.updateExtend compileUpdateExtend
  cases E with
  | self =>
    cases s.items with
    | error e => rfl
    | ok l => simp only [List.foldl_append]; rw [addAll_vals, addAll_vals]
  | omd t => simp only [List.foldl_append]; rw [addAll_vals, addAll_vals]
  | mapping m => simp only [List.foldl_append]; rw [addAll_vals, addAll_vals]
  | pairs l => simp only [List.foldl_append]; rw [addAll_vals, addAll_vals]

theorem compileUpdateExtend_pure (s : OMD K V) (E : Arg K V) (F : List (K × V)) :
    ∀ op ∈ compileUpdateExtend s E F, op.pure = true := by
  intro op h
  unfold compileUpdateExtend at h
  cases E with
  | self =>
    cases hi : s.items with
    | error e => simp [hi] at h
    | ok l =>
      simp only [hi, List.mem_append] at h
      rcases h with h | h <;> exact all_pure_map _ (fun _ => rfl) _ op h
  | omd t => simp only [List.mem_append] at h; rcases h with h | h <;> exact all_pure_map _ (fun _ => rfl) _ op h
  | mapping m => simp only [List.mem_append] at h; rcases h with h | h <;> exact all_pure_map _ (fun _ => rfl) _ op h
  | pairs l => simp only [List.mem_append] at h; rcases h with h | h <;> exact all_pure_map _ (fun _ => rfl) _ op h

/-- `setdefault(k, v)`: `self[k] = v` only when the key is absent; `pop(k)` / `popitem()`: `popall` of the key -/
def compileSetdefault (s : OMD K V) (k : K) (v : V) : List (OwnOp K V) :=
  if dhas k s.vals then [] else [.setitem k v]

theorem setdefault_vals (s : OMD K V) (k : K) (v : V) :
    (s.setdefault k v).1.vals = (compileSetdefault s k v).foldl valsPure s.vals := by
  unfold OMD.setdefault compileSetdefault
  split <;> rfl

theorem pop_vals (s : OMD K V) (k : K) (d : Bool) :
    (s.pop k d).1.vals = ([OwnOp.popall k] : List (OwnOp K V)).foldl valsPure s.vals := by
  unfold OMD.pop
  cases hk : dget k s.vals with
  | none => exact (ddel_absent k s.vals hk).symm
  | some vs => rfl

end C01
