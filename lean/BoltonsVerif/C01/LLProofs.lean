import BoltonsVerif.C01.Proofs
import BoltonsVerif.C01.LL
/-
C01 — the concrete layer (`LL.lean`: cells with identities + the per-key cell index `_map`)
refines the two-structure model `OMD`: the invariant `LLInv` ("`_map[k]` is exactly the list of
the cells of key `k`, in link order, and there is no entry without cells"), what the helpers
`_insert` / `_remove` / `_remove_all` do to the walk of the list, and the simulation of every
public mutator.
-/
namespace C01
open Spec

section ll
variable {K V : Type} [DecidableEq K]

/-- the identities of the cells of key `k`, in link order -/
def idsOf (k : K) (cells : List (Cell K V)) : List Nat := (cells.filter (keyIs k)).map (·.id)

/-- the walk over a list of cells -/
def flatC (cells : List (Cell K V)) : List (K × V) := cells.map fun c => (c.key, c.val)

theorem flat_eq (l : LL K V) : l.flat = flatC l.cells := rfl

structure LLInv (l : LL K V) : Prop where
  ids_nodup : (l.cells.map (·.id)).Nodup
  ids_lt : ∀ c ∈ l.cells, c.id < l.fresh
  map_nodup : (dkeys l.map).Nodup
  map_agree : ∀ k, dget k l.map = ne? (idsOf k l.cells)

@[simp] theorem idsOf_nil (k : K) : idsOf k ([] : List (Cell K V)) = [] := rfl

theorem idsOf_cons (k : K) (x : Cell K V) (xs : List (Cell K V)) :
    idsOf k (x :: xs) = if x.key = k then x.id :: idsOf k xs else idsOf k xs := by
  by_cases h : x.key = k <;> simp [idsOf, keyIs, h]

theorem idsOf_append (k : K) (a b : List (Cell K V)) : idsOf k (a ++ b) = idsOf k a ++ idsOf k b := by
  simp [idsOf]

theorem idsOf_subset (k : K) (cells : List (Cell K V)) : ∀ c ∈ idsOf k cells, c ∈ cells.map (·.id) := by
  intro c hc
  obtain ⟨x, hx, rfl⟩ := List.mem_map.mp hc
  exact List.mem_map_of_mem (List.mem_filter.mp hx).1

theorem flatC_cons (x : Cell K V) (xs : List (Cell K V)) : flatC (x :: xs) = (x.key, x.val) :: flatC xs := rfl

theorem idsOf_eq_nil_iff (k : K) (cells : List (Cell K V)) : idsOf k cells = [] ↔ valsOf k (flatC cells) = [] := by
  induction cells with
  | nil => simp [flatC]
  | cons x xs ih => simp only [idsOf_cons, flatC_cons, valsOf_cons]; split <;> simp_all

theorem idsOf_length (k : K) (cells : List (Cell K V)) : (idsOf k cells).length = (valsOf k (flatC cells)).length := by
  induction cells with
  | nil => simp [flatC]
  | cons x xs ih => simp only [idsOf_cons, flatC_cons, valsOf_cons]; split <;> simp_all

theorem llinv_empty : LLInv (LL.empty : LL K V) :=
  ⟨by simp [LL.empty], by simp [LL.empty], by simp [LL.empty, dkeys], by simp [LL.empty, dget]⟩

theorem llinv_clear (l : LL K V) : LLInv l.clear :=
  ⟨by simp [LL.clear], by simp [LL.clear], by simp [LL.clear, dkeys], by simp [LL.clear, dget]⟩

/-! `_insert` -/

theorem flat_insert (l : LL K V) (k : K) (v : V) : (l.insert k v).flat = l.flat ++ [(k, v)] := by
  simp [LL.insert, LL.flat]

theorem llinv_insert {l : LL K V} (h : LLInv l) (k : K) (v : V) : LLInv (l.insert k v) := by
  refine ⟨?_, ?_, nodup_dset _ _ _ h.map_nodup, fun k' => ?_⟩
  · simp only [LL.insert, List.map_append, List.map_cons, List.map_nil]
    rw [List.nodup_append]
    refine ⟨h.ids_nodup, by simp, ?_⟩
    intro a ha b hb
    simp at hb; subst hb
    obtain ⟨c, hc, rfl⟩ := List.mem_map.mp ha
    exact Nat.ne_of_lt (h.ids_lt c hc)
  · intro c hc
    simp only [LL.insert, List.mem_append, List.mem_singleton] at hc ⊢
    rcases hc with hc | rfl
    · exact Nat.lt_succ_of_lt (h.ids_lt c hc)
    · exact Nat.lt_succ_self _
  · simp only [LL.insert, dget_dset, idsOf_append, idsOf_cons, idsOf_nil, h.map_agree, ne?_getD]
    by_cases e : k' = k
    · subst e; simp [ne?]
    · have : ¬ k = k' := fun e' => e e'.symm
      simp [e, this]

theorem insertAll_spec {l : LL K V} (h : LLInv l) (k : K) (vs : List V) :
    LLInv (vs.foldl (fun l v => l.insert k v) l) ∧
    (vs.foldl (fun l v => l.insert k v) l).flat = l.flat ++ vs.map (fun v => (k, v)) := by
  induction vs generalizing l with
  | nil => simp [h]
  | cons v r ih =>
    have := ih (llinv_insert h k v)
    simp only [List.foldl_cons]
    refine ⟨this.1, ?_⟩
    rw [this.2, flat_insert]; simp

/-! `_remove`: the cell that is unlinked is the LAST cell of the key -/

theorem unlink_not_mem (c : Nat) (cells : List (Cell K V)) (h : c ∉ cells.map (·.id)) :
    LL.unlink c cells = cells := by
  unfold LL.unlink
  rw [List.filter_eq_self]
  intro x hx
  simp only [notId, Bool.not_eq_eq_eq_not, Bool.not_true, decide_eq_false_iff_not]
  intro e
  exact h (e ▸ List.mem_map_of_mem hx)

theorem unlink_sublist (c : Nat) (cells : List (Cell K V)) : (LL.unlink c cells).Sublist cells :=
  List.filter_sublist

theorem unlink_last (k : K) : ∀ (cells : List (Cell K V)), (cells.map (·.id)).Nodup →
    ∀ c, (idsOf k cells).getLast? = some c →
    flatC (LL.unlink c cells) = rmLast k (flatC cells) ∧
    ∀ k', idsOf k' (LL.unlink c cells) = if k' = k then (idsOf k cells).dropLast else idsOf k' cells := by
  intro cells
  induction cells with
  | nil => intro _ c hc; simp at hc
  | cons x xs ih =>
    intro hnd c hc
    simp only [List.map_cons, List.nodup_cons] at hnd
    by_cases hxs : idsOf k xs = []
    · -- `x` is the only (hence the last) cell of the key
      have hk : x.key = k := by
        by_cases e : x.key = k
        · exact e
        · simp [idsOf_cons, e, hxs] at hc
      have hcx : c = x.id := by simp [idsOf_cons, hk, hxs] at hc; exact hc.symm
      subst hcx
      have hun : LL.unlink x.id (x :: xs) = xs := by
        simp only [LL.unlink, List.filter_cons, notId, decide_true, Bool.not_true, Bool.false_eq_true, ↓reduceIte]
        exact unlink_not_mem x.id xs hnd.1
      have hany : ¬ (flatC xs).any (isK k) = true := by
        rw [any_isK_iff]; simp [(idsOf_eq_nil_iff k xs).mp hxs]
      refine ⟨by rw [hun, flatC_cons]; simp [rmLast, hany, hk], fun k' => ?_⟩
      rw [hun, idsOf_cons]
      by_cases e : k' = k
      · subst e; simp [hk, hxs]
      · have : ¬ x.key = k' := by rw [hk]; exact fun e' => e e'.symm
        simp [e, this, idsOf_cons]
    · -- the last cell of the key is further down
      have hlast : (idsOf k (x :: xs)).getLast? = (idsOf k xs).getLast? := by
        rw [idsOf_cons]; split
        · exact List.getLast?_cons_of_ne_nil hxs
        · rfl
      rw [hlast] at hc
      have hmem : c ∈ xs.map (·.id) := idsOf_subset k xs c (List.mem_of_getLast? hc)
      have hne : ¬ x.id = c := fun e => hnd.1 (e ▸ hmem)
      have hun : LL.unlink c (x :: xs) = x :: LL.unlink c xs := by
        simp [LL.unlink, List.filter_cons, notId, hne]
      obtain ⟨ih1, ih2⟩ := ih hnd.2 c hc
      have hany : (flatC xs).any (isK k) = true := by
        rw [any_isK_iff]; exact fun e => hxs ((idsOf_eq_nil_iff k xs).mpr e)
      refine ⟨by rw [hun, flatC_cons, ih1, flatC_cons]; simp [rmLast, hany], fun k' => ?_⟩
      rw [hun, idsOf_cons, ih2 k', idsOf_cons]
      by_cases e : k' = k
      · subst e
        by_cases e2 : x.key = k'
        · simp [e2, List.dropLast_cons_of_ne_nil hxs]
        · simp [e2]
      · simp [e, idsOf_cons]

theorem llinv_unlink_aux {l : LL K V} (h : LLInv l) (c : Nat) :
    ((LL.unlink c l.cells).map (·.id)).Nodup ∧ ∀ x ∈ LL.unlink c l.cells, x.id < l.fresh :=
  ⟨h.ids_nodup.sublist ((unlink_sublist c l.cells).map _),
   fun x hx => h.ids_lt x ((unlink_sublist c l.cells).subset hx)⟩

/-- `_remove(k)` under the invariant: KeyError exactly when the key has no cell, otherwise the last
    cell of the key is gone from the walk and the index stays exact (never IndexError) -/
theorem remove_spec {l : LL K V} (h : LLInv l) (k : K) :
    if l.flat.any (isK k) = true then
      ∃ l', l.remove k = .ok l' ∧ LLInv l' ∧ l'.flat = rmLast k l.flat
    else l.remove k = .error .keyError := by
  rw [flat_eq]
  by_cases hv : valsOf k (flatC l.cells) = []
  · have hany : ¬ (flatC l.cells).any (isK k) = true := by rw [any_isK_iff]; simp [hv]
    simp only [hany, Bool.false_eq_true, ↓reduceIte, LL.remove, h.map_agree,
      (idsOf_eq_nil_iff k l.cells).mpr hv, ne?_nil]
  · have hany : (flatC l.cells).any (isK k) = true := by rw [any_isK_iff]; exact hv
    have hids : idsOf k l.cells ≠ [] := fun e => hv ((idsOf_eq_nil_iff k l.cells).mp e)
    obtain ⟨c, hc⟩ := getLast?_of_ne hids
    obtain ⟨u1, u2⟩ := unlink_last k l.cells h.ids_nodup c hc
    obtain ⟨a1, a2⟩ := llinv_unlink_aux h c
    simp only [hany, ↓reduceIte, LL.remove, h.map_agree, ne?_of_ne hids, hc]
    refine ⟨_, rfl, ⟨a1, a2, ?_, fun k' => ?_⟩, by simp only [LL.flat]; exact u1⟩
    · show (dkeys (if (idsOf k l.cells).dropLast.isEmpty = true then ddel k l.map
        else dset k (idsOf k l.cells).dropLast l.map)).Nodup
      split
      · exact nodup_ddel _ _ h.map_nodup
      · exact nodup_dset _ _ _ h.map_nodup
    · show dget k' (if (idsOf k l.cells).dropLast.isEmpty = true then ddel k l.map
        else dset k (idsOf k l.cells).dropLast l.map) = ne? (idsOf k' (LL.unlink c l.cells))
      rw [u2 k']
      split
      · rename_i he
        rw [dget_ddel]
        split
        · rename_i e; subst e; simp at he; simp [he]
        · exact h.map_agree k'
      · rename_i he
        rw [dget_dset]
        split
        · rename_i e; subst e
          simp only [List.isEmpty_iff] at he
          exact (ne?_of_ne he).symm
        · exact h.map_agree k'

/-! `_remove_all` -/

theorem foldl_unlink (ids : List Nat) (cells : List (Cell K V)) :
    ids.foldl (fun cs c => LL.unlink c cs) cells = cells.filter (fun x => !decide (x.id ∈ ids)) := by
  induction ids generalizing cells with
  | nil => simp; exact (List.filter_eq_self.mpr (fun _ _ => rfl)).symm
  | cons c r ih =>
    simp only [List.foldl_cons]
    rw [ih]
    simp only [LL.unlink, List.filter_filter]
    apply List.filter_congr
    intro x _
    by_cases e : x.id = c <;> simp [notId, e]

theorem unlinkAll_eq (ids : List Nat) (cells : List (Cell K V)) :
    LL.unlinkAll ids cells = cells.filter (fun x => !decide (x.id ∈ ids)) := by
  unfold LL.unlinkAll
  rw [foldl_unlink]
  apply List.filter_congr
  intro x _
  simp

theorem mem_idsOf_iff (k : K) : ∀ (cells : List (Cell K V)), (cells.map (·.id)).Nodup →
    ∀ x ∈ cells, (x.id ∈ idsOf k cells ↔ x.key = k) := by
  intro cells
  induction cells with
  | nil => intro _ x hx; simp at hx
  | cons y ys ih =>
    intro hnd x hx
    simp only [List.map_cons, List.nodup_cons] at hnd
    have hsub : ∀ c ∈ idsOf k ys, c ∈ ys.map (·.id) := idsOf_subset k ys
    rcases List.mem_cons.mp hx with rfl | hx'
    · rw [idsOf_cons]
      by_cases e : x.key = k
      · simp [e]
      · simp only [e, ↓reduceIte, iff_false]
        exact fun hh => hnd.1 (hsub _ hh)
    · have hne : x.id ≠ y.id := fun e => hnd.1 (e ▸ List.mem_map_of_mem hx')
      rw [idsOf_cons]
      split
      · simp only [List.mem_cons, hne, false_or]; exact ih hnd.2 x hx'
      · exact ih hnd.2 x hx'

theorem unlinkAll_key (k : K) (cells : List (Cell K V)) (hnd : (cells.map (·.id)).Nodup) :
    LL.unlinkAll (idsOf k cells) cells = cells.filter (fun x => !keyIs k x) := by
  rw [unlinkAll_eq]
  apply List.filter_congr
  intro x hx
  have := mem_idsOf_iff k cells hnd x hx
  by_cases e : x.key = k
  · simp [keyIs, e, this.mpr e]
  · have : x.id ∉ idsOf k cells := fun hh => e (this.mp hh)
    simp [keyIs, e, this]

theorem flatC_filter_key (k : K) (cells : List (Cell K V)) :
    flatC (cells.filter (fun x => !keyIs k x)) = (flatC cells).filter (notK k) := by
  induction cells with
  | nil => rfl
  | cons x xs ih =>
    simp only [List.filter_cons, flatC_cons]
    by_cases e : x.key = k
    · have h1 : keyIs k x = true := by simp [keyIs, e]
      have h2 : notK k (x.key, x.val) = false := by simp [notK, e]
      simp only [h1, h2, Bool.not_true, Bool.false_eq_true, ↓reduceIte, ih]
    · have h1 : keyIs k x = false := by simp [keyIs, e]
      have h2 : notK k (x.key, x.val) = true := by simp [notK, e]
      simp only [h1, h2, Bool.not_false, ↓reduceIte, ih, flatC_cons]

theorem idsOf_filter_key (k k' : K) (cells : List (Cell K V)) :
    idsOf k' (cells.filter (fun x => !keyIs k x)) = if k' = k then [] else idsOf k' cells := by
  induction cells with
  | nil => simp
  | cons x xs ih =>
    simp only [List.filter_cons]
    by_cases e : x.key = k
    · have h1 : keyIs k x = true := by simp [keyIs, e]
      simp only [h1, Bool.not_true, Bool.false_eq_true, ↓reduceIte, ih, idsOf_cons]
      by_cases e2 : k' = k
      · simp [e2]
      · have : ¬ x.key = k' := by rw [e]; exact fun e' => e2 e'.symm
        simp [e2, this]
    · have h1 : keyIs k x = false := by simp [keyIs, e]
      simp only [h1, Bool.not_false, ↓reduceIte, idsOf_cons, ih]
      by_cases e2 : k' = k
      · subst e2; simp [e]
      · simp [e2]

/-- `_remove_all(k)` under the invariant: KeyError exactly when the key has no cell, otherwise
    every cell of the key is gone from the walk, the entry is gone from the index -/
theorem removeAll_spec {l : LL K V} (h : LLInv l) (k : K) :
    if l.flat.any (isK k) = true then
      ∃ l', l.removeAll k = .ok l' ∧ LLInv l' ∧ l'.flat = l.flat.filter (notK k)
    else l.removeAll k = .error .keyError := by
  rw [flat_eq]
  by_cases hv : valsOf k (flatC l.cells) = []
  · have hany : ¬ (flatC l.cells).any (isK k) = true := by rw [any_isK_iff]; simp [hv]
    simp only [hany, Bool.false_eq_true, ↓reduceIte, LL.removeAll, h.map_agree,
      (idsOf_eq_nil_iff k l.cells).mpr hv, ne?_nil]
  · have hany : (flatC l.cells).any (isK k) = true := by rw [any_isK_iff]; exact hv
    have hids : idsOf k l.cells ≠ [] := fun e => hv ((idsOf_eq_nil_iff k l.cells).mp e)
    simp only [hany, ↓reduceIte, LL.removeAll, h.map_agree, ne?_of_ne hids]
    have hu := unlinkAll_key k l.cells h.ids_nodup
    refine ⟨_, rfl, ⟨?_, ?_, nodup_ddel _ _ h.map_nodup, fun k' => ?_⟩, ?_⟩
    · show ((LL.unlinkAll (idsOf k l.cells) l.cells).map (·.id)).Nodup
      rw [hu]; exact h.ids_nodup.sublist (List.filter_sublist.map _)
    · intro x hx
      have hx' : x ∈ LL.unlinkAll (idsOf k l.cells) l.cells := hx
      rw [hu] at hx'
      exact h.ids_lt x (List.mem_filter.mp hx').1
    · show dget k' (ddel k l.map) = ne? (idsOf k' (LL.unlinkAll (idsOf k l.cells) l.cells))
      rw [hu, idsOf_filter_key, dget_ddel]
      split
      · rfl
      · exact h.map_agree k'
    · show flatC (LL.unlinkAll (idsOf k l.cells) l.cells) = _
      rw [hu, flatC_filter_key]

theorem lastKey_eq (l : LL K V) : l.lastKey = l.flat.getLast?.map (·.1) := by
  simp [LL.lastKey, LL.flat, List.getLast?_map]
  cases l.cells.getLast? <;> rfl

end ll

/-! ### every public mutator of the concrete layer commutes with the abstraction -/
section sim
variable {K V : Type} [DecidableEq K]

/-- close a leftover `x = x` / `True` side goal -/
local macro "fin" : tactic => `(tactic| first | rfl | trivial | simp only [*] | simp [*])

/-- the three structures are consistent: `_map` indexes the cells exactly, and the dict holds for
    every key the values of its cells -/
structure Inv3 (s : OMD3 K V) : Prop where
  ll : LLInv s.ll
  inv : Inv s.abs

theorem inv3_of {s' : OMD3 K V} {t : OMD K V} (hl : LLInv s'.ll) (he : s'.abs = t) (hi : Inv t) : Inv3 s' :=
  ⟨hl, he ▸ hi⟩

theorem Inv3.dhas_eq {s : OMD3 K V} (h : Inv3 s) (k : K) : dhas k s.vals = s.ll.flat.any (isK k) :=
  h.inv.dhas_eq k

theorem inv3_empty : Inv3 (OMD3.empty : OMD3 K V) := ⟨llinv_empty, inv_empty⟩

theorem add3_spec {s : OMD3 K V} (h : Inv3 s) (k : K) (v : V) :
    Inv3 (s.add k v) ∧ (s.add k v).abs = s.abs.add k v := by
  have he : (s.add k v).abs = s.abs.add k v := by
    simp only [OMD3.abs, OMD3.add, OMD.add, flat_insert]
  exact ⟨inv3_of (llinv_insert h.ll k v) he (inv_add h.inv k v), he⟩

theorem addlist3_spec {s : OMD3 K V} (h : Inv3 s) (k : K) (vs : List V) :
    Inv3 (s.addlist k vs) ∧ (s.addlist k vs).abs = s.abs.addlist k vs := by
  have he : (s.addlist k vs).abs = s.abs.addlist k vs := by
    unfold OMD3.addlist OMD.addlist
    split
    · rfl
    · simp only [OMD3.abs, (insertAll_spec h.ll k vs).2]
  refine ⟨inv3_of ?_ he (inv_addlist h.inv k vs), he⟩
  unfold OMD3.addlist
  split
  · exact h.ll
  · exact (insertAll_spec h.ll k vs).1

theorem setitem3_spec {s : OMD3 K V} (h : Inv3 s) (k : K) (v : V) :
    ∃ s', s.setitem k v = (s', .unit) ∧ Inv3 s' ∧ s'.abs = s.abs.setitem k v := by
  have hr := removeAll_spec h.ll k
  rw [← h.dhas_eq] at hr
  unfold OMD3.setitem
  by_cases hh : dhas k s.vals = true
  · simp only [hh, ↓reduceIte] at hr ⊢
    obtain ⟨l', e1, i1, f1⟩ := hr
    rw [e1]
    have he : (⟨dset k [v] s.vals, l'.insert k v⟩ : OMD3 K V).abs = s.abs.setitem k v := by
      simp only [OMD3.abs, OMD.setitem, flat_insert, f1, hh, ↓reduceIte]
    exact ⟨_, rfl, inv3_of (llinv_insert i1 k v) he (inv_setitem h.inv k v), he⟩
  · simp only [hh, Bool.false_eq_true, ↓reduceIte]
    have he : (⟨dset k [v] s.vals, s.ll.insert k v⟩ : OMD3 K V).abs = s.abs.setitem k v := by
      simp only [OMD3.abs, OMD.setitem, flat_insert, hh, Bool.false_eq_true, ↓reduceIte]
    exact ⟨_, rfl, inv3_of (llinv_insert h.ll k v) he (inv_setitem h.inv k v), he⟩

theorem delitem3_spec {s : OMD3 K V} (h : Inv3 s) (k : K) :
    Inv3 (s.delitem k).1 ∧ (s.delitem k).1.abs = (s.abs.delitem k).1 ∧ (s.delitem k).2 = (s.abs.delitem k).2 := by
  have hr := removeAll_spec h.ll k
  rw [← h.dhas_eq] at hr
  unfold OMD3.delitem OMD.delitem
  by_cases hh : dhas k s.vals = true
  · have hh' : dhas k s.abs.vals = true := hh
    simp only [hh, hh', ↓reduceIte] at hr ⊢
    obtain ⟨l', e1, i1, f1⟩ := hr
    rw [e1]
    have he : (⟨ddel k s.vals, l'⟩ : OMD3 K V).abs = s.abs.delKey k := by
      simp only [OMD3.abs, OMD.delKey, f1]
    exact ⟨inv3_of i1 he (inv_delKey h.inv k), he, rfl⟩
  · have hh' : ¬ dhas k s.abs.vals = true := hh
    simp only [hh, hh', Bool.false_eq_true, ↓reduceIte, and_self, and_true]
    exact h

theorem delIfHas3_spec {s : OMD3 K V} (h : Inv3 s) (k : K) :
    ∃ s', s.delIfHas k = (s', .unit) ∧ Inv3 s' ∧ s'.abs = s.abs.delIfHas k := by
  have hd := delitem3_spec h k
  unfold OMD3.delIfHas OMD.delIfHas
  by_cases hh : dhas k s.vals = true
  · have hh' : dhas k s.abs.vals = true := hh
    simp only [hh, hh', ↓reduceIte]
    have h2 : (s.abs.delitem k) = (s.abs.delKey k, .unit) := by simp [OMD.delitem, hh']
    rw [h2] at hd
    exact ⟨(s.delitem k).1, Prod.ext rfl hd.2.2, hd.1, hd.2.1⟩
  · have hh' : ¬ dhas k s.abs.vals = true := hh
    simp only [hh, hh', Bool.false_eq_true, ↓reduceIte]
    exact ⟨s, rfl, h, rfl⟩

theorem addAll3_spec {s : OMD3 K V} (h : Inv3 s) (l : List (K × V)) :
    Inv3 (s.addAll l) ∧ (s.addAll l).abs = s.abs.addAll l := by
  induction l generalizing s with
  | nil => exact ⟨h, rfl⟩
  | cons p r ih =>
    obtain ⟨i1, e1⟩ := add3_spec h p.1 p.2
    have := ih i1
    simp only [OMD3.addAll, OMD.addAll, List.foldl_cons] at this ⊢
    rw [← e1]
    exact this

theorem setAll3_spec {s : OMD3 K V} (h : Inv3 s) (l : List (K × V)) :
    ∃ s', s.setAll l = (s', .unit) ∧ Inv3 s' ∧ s'.abs = s.abs.setAll l := by
  induction l generalizing s with
  | nil => exact ⟨s, rfl, h, rfl⟩
  | cons p r ih =>
    obtain ⟨s1, e1, i1, a1⟩ := setitem3_spec h p.1 p.2
    obtain ⟨s2, e2, i2, a2⟩ := ih i1
    refine ⟨s2, by simp only [OMD3.setAll, e1, e2], i2, ?_⟩
    simp only [OMD.setAll, List.foldl_cons] at a2 ⊢
    rw [a2, a1]

theorem delKeys3_spec {s : OMD3 K V} (h : Inv3 s) (ks : List K) :
    ∃ s', s.delKeys ks = (s', .unit) ∧ Inv3 s' ∧ s'.abs = ks.foldl OMD.delIfHas s.abs := by
  induction ks generalizing s with
  | nil => exact ⟨s, rfl, h, rfl⟩
  | cons k r ih =>
    obtain ⟨s1, e1, i1, a1⟩ := delIfHas3_spec h k
    obtain ⟨s2, e2, i2, a2⟩ := ih i1
    refine ⟨s2, by simp only [OMD3.delKeys, e1, e2], i2, ?_⟩
    simp only [List.foldl_cons]
    rw [a2, a1]

theorem updPairs3_spec {s : OMD3 K V} (h : Inv3 s) (seen : List K) (l : List (K × V)) :
    ∃ s', s.updPairs seen l = (s', .unit) ∧ Inv3 s' ∧ s'.abs = s.abs.updPairs seen l := by
  induction l generalizing s seen with
  | nil => exact ⟨s, rfl, h, rfl⟩
  | cons p r ih =>
    by_cases hs : p.1 ∈ seen
    · obtain ⟨i1, a1⟩ := add3_spec h p.1 p.2
      obtain ⟨s2, e2, i2, a2⟩ := ih i1 seen
      refine ⟨s2, by simp only [OMD3.updPairs, hs, ↓reduceIte, e2], i2, ?_⟩
      simp only [OMD.updPairs, hs, ↓reduceIte]
      rw [a2, a1]
    · obtain ⟨s1, e1, i1, a1⟩ := delIfHas3_spec h p.1
      obtain ⟨i1', a1'⟩ := add3_spec i1 p.1 p.2
      obtain ⟨s2, e2, i2, a2⟩ := ih i1' (p.1 :: seen)
      refine ⟨s2, by simp only [OMD3.updPairs, hs, ↓reduceIte, e1, e2], i2, ?_⟩
      simp only [OMD.updPairs, hs, ↓reduceIte]
      rw [a2, a1', a1]

theorem update3_spec {s : OMD3 K V} (h : Inv3 s) (E : Arg K V) (hE : ArgInv E) (F : List (K × V)) :
    ∃ s', s.update E F = (s', .unit) ∧ Inv3 s' ∧ s'.abs = s.abs.update E F := by
  have h1 : ∃ s1, s.updateE E = (s1, .unit) ∧ Inv3 s1 ∧
      s1.abs = (match E with
        | .self => s.abs
        | .omd t => (t.keys.foldl OMD.delIfHas s.abs).addAll t.cells
        | .mapping m => s.abs.setAll m
        | .pairs l => s.abs.updPairs [] l) := by
    cases E with
    | self => exact ⟨s, rfl, h, rfl⟩
    | omd t =>
      obtain ⟨s1, e1, i1, a1⟩ := delKeys3_spec h t.keys
      obtain ⟨i2, a2⟩ := addAll3_spec i1 t.cells
      exact ⟨_, by simp only [OMD3.updateE, e1], i2, by rw [a2, a1]⟩
    | mapping m => exact setAll3_spec h m
    | pairs l => exact updPairs3_spec h [] l
  obtain ⟨s1, e1, i1, a1⟩ := h1
  obtain ⟨s2, e2, i2, a2⟩ := setAll3_spec i1 F
  refine ⟨s2, by simp only [OMD3.update, e1, e2], i2, ?_⟩
  rw [a2, a1]
  cases E <;> rfl

theorem updateExtend3_spec {s : OMD3 K V} (h : Inv3 s) (E : Arg K V) (F : List (K × V)) :
    Inv3 (s.updateExtend E F).1 ∧ (s.updateExtend E F).1.abs = (s.abs.updateExtend E F).1 ∧
      (s.updateExtend E F).2 = (s.abs.updateExtend E F).2 := by
  unfold OMD3.updateExtend OMD.updateExtend
  cases E with
  | self =>
    simp only
    cases hi : s.abs.items with
    | error e => exact ⟨h, rfl, rfl⟩
    | ok l =>
      obtain ⟨i1, a1⟩ := addAll3_spec h l
      obtain ⟨i2, a2⟩ := addAll3_spec i1 F
      exact ⟨i2, by simp only; rw [a2, a1], rfl⟩
  | omd t =>
    obtain ⟨i1, a1⟩ := addAll3_spec h t.cells
    obtain ⟨i2, a2⟩ := addAll3_spec i1 F
    exact ⟨i2, by simp only; rw [a2, a1], rfl⟩
  | mapping m =>
    obtain ⟨i1, a1⟩ := addAll3_spec h m
    obtain ⟨i2, a2⟩ := addAll3_spec i1 F
    exact ⟨i2, by simp only; rw [a2, a1], rfl⟩
  | pairs l =>
    obtain ⟨i1, a1⟩ := addAll3_spec h l
    obtain ⟨i2, a2⟩ := addAll3_spec i1 F
    exact ⟨i2, by simp only; rw [a2, a1], rfl⟩

theorem fromPairs3_spec (l : List (K × V)) :
    Inv3 (OMD3.fromPairs l) ∧ (OMD3.fromPairs l : OMD3 K V).abs = OMD.fromPairs l :=
  addAll3_spec inv3_empty l

theorem copy3_spec (s : OMD3 K V) : Inv3 s.copy ∧ s.copy.abs = s.abs.copy := fromPairs3_spec _

theorem clear3_spec (s : OMD3 K V) : Inv3 s.clear ∧ s.clear.abs = OMD.empty :=
  ⟨⟨llinv_clear _, inv_empty⟩, rfl⟩

theorem new3_spec (E : Option (Arg K V)) (F : List (K × V)) :
    Inv3 (OMD3.new E F).1 ∧ (OMD3.new E F).1.abs = (OMD.new E F).1 ∧ (OMD3.new E F).2 = (OMD.new E F).2 := by
  cases E with
  | none =>
    obtain ⟨s', e, i, a⟩ := setAll3_spec (inv3_empty (K := K) (V := V)) F
    simp only [OMD3.new, OMD.new, e]
    exact ⟨i, a, by fin⟩
  | some E =>
    have hu := updateExtend3_spec (inv3_empty (K := K) (V := V)) E []
    have he : (OMD3.empty : OMD3 K V).abs = OMD.empty := rfl
    rw [he] at hu
    simp only [OMD3.new, OMD.new]
    generalize (OMD3.empty : OMD3 K V).updateExtend E [] = q3 at hu ⊢
    generalize (OMD.empty : OMD K V).updateExtend E [] = q at hu ⊢
    obtain ⟨q31, q32⟩ := q3
    obtain ⟨q1, q2⟩ := q
    simp only at hu
    obtain ⟨i, a, o⟩ := hu
    subst o
    cases q32 with
    | unit =>
      obtain ⟨s', e, i', a'⟩ := setAll3_spec i F
      simp only [e]
      exact ⟨i', by rw [a', a], by fin⟩
    | _ => exact ⟨i, a, by fin⟩

theorem setdefault3_spec {s : OMD3 K V} (h : Inv3 s) (k : K) (v : V) :
    Inv3 (s.setdefault k v).1 ∧ (s.setdefault k v).1.abs = (s.abs.setdefault k v).1 ∧
      (s.setdefault k v).2 = (s.abs.setdefault k v).2 := by
  unfold OMD3.setdefault OMD.setdefault
  by_cases hh : dhas k s.vals = true
  · have hh' : dhas k s.abs.vals = true := hh
    simp only [hh, hh', ↓reduceIte]
    exact ⟨h, by fin, by fin⟩
  · have hh' : ¬ dhas k s.abs.vals = true := hh
    obtain ⟨s', e, i, a⟩ := setitem3_spec h k v
    simp only [hh, hh', Bool.false_eq_true, ↓reduceIte, e]
    exact ⟨i, a, by rw [a]; cases (s.abs.setitem k v).getitem k <;> rfl⟩

theorem dget_some_any {s : OMD3 K V} (h : Inv3 s) {k : K} {vs : List V} (hd : dget k s.vals = some vs) :
    s.ll.flat.any (isK k) = true := by
  rw [← h.dhas_eq]; simp [dhas, hd]

theorem popall3_spec {s : OMD3 K V} (h : Inv3 s) (k : K) (d : Bool) :
    Inv3 (s.popall k d).1 ∧ (s.popall k d).1.abs = (s.abs.popall k d).1 ∧
      (s.popall k d).2 = (s.abs.popall k d).2 := by
  unfold OMD3.popall OMD.popall
  have hv : s.abs.vals = s.vals := rfl
  rw [hv]
  cases hd : dget k s.vals with
  | none => exact ⟨h, rfl, rfl⟩
  | some vs =>
    have hr := removeAll_spec h.ll k
    simp only [dget_some_any h hd, ↓reduceIte] at hr
    obtain ⟨l', e1, i1, f1⟩ := hr
    simp only [e1]
    have he : (⟨ddel k s.vals, l'⟩ : OMD3 K V).abs = s.abs.delKey k := by
      simp only [OMD3.abs, OMD.delKey, f1]
    exact ⟨inv3_of i1 he (inv_delKey h.inv k), he, by fin⟩

theorem pop3_spec {s : OMD3 K V} (h : Inv3 s) (k : K) (d : Bool) :
    Inv3 (s.pop k d).1 ∧ (s.pop k d).1.abs = (s.abs.pop k d).1 ∧ (s.pop k d).2 = (s.abs.pop k d).2 := by
  have hp := popall3_spec h k false
  unfold OMD3.pop OMD.pop
  unfold OMD.popall at hp
  have hv : s.abs.vals = s.vals := rfl
  rw [hv] at hp ⊢
  cases hd : dget k s.vals with
  | none =>
    simp only [hd] at hp
    generalize s.popall k false = q at hp ⊢
    obtain ⟨q1, q2⟩ := q
    obtain ⟨i, a, o⟩ := hp
    simp only at i a o
    subst o
    exact ⟨i, a, rfl⟩
  | some vs =>
    simp only [hd] at hp
    generalize s.popall k false = q at hp ⊢
    obtain ⟨q1, q2⟩ := q
    obtain ⟨i, a, o⟩ := hp
    simp only at i a o
    subst o
    exact ⟨i, a, rfl⟩

theorem poplastKey3_spec {s : OMD3 K V} (h : Inv3 s) (k : K) (d : Bool) :
    Inv3 (s.poplastKey k d).1 ∧ (s.poplastKey k d).1.abs = (s.abs.poplastKey k d).1 ∧
      (s.poplastKey k d).2 = (s.abs.poplastKey k d).2 := by
  have hr := remove_spec h.ll k
  have hp := poplastKey_spec h.inv k d
  unfold OMD3.poplastKey
  unfold OMD.poplastKey at hp ⊢
  have hc : s.abs.cells = s.ll.flat := rfl
  have hv : s.abs.vals = s.vals := rfl
  rw [hc, hv] at hp ⊢
  by_cases ha : s.ll.flat.any (isK k) = true
  · simp only [ha, ↓reduceIte] at hr hp ⊢
    obtain ⟨l', e1, i1, f1⟩ := hr
    simp only [e1]
    cases hd : dget k s.vals with
    | none =>
      simp only [hd] at hp ⊢
      exact ⟨⟨i1, by simpa [OMD3.abs, f1] using hp.1⟩, by simp [OMD3.abs, f1], by fin⟩
    | some vs =>
      cases hl : vs.getLast? with
      | none =>
        simp only [hd, hl] at hp ⊢
        exact ⟨⟨i1, by simpa [OMD3.abs, f1] using hp.1⟩, by simp [OMD3.abs, f1], by fin⟩
      | some x =>
        simp only [hd, hl] at hp ⊢
        exact ⟨⟨i1, by simpa [OMD3.abs, f1] using hp.1⟩, by simp [OMD3.abs, f1], by fin⟩
  · simp only [ha, Bool.false_eq_true, ↓reduceIte] at hr ⊢
    simp only [hr]
    exact ⟨h, by fin, by fin⟩

theorem poplast3_spec {s : OMD3 K V} (h : Inv3 s) (k : Option K) (d : Bool) :
    Inv3 (s.poplast k d).1 ∧ (s.poplast k d).1.abs = (s.abs.poplast k d).1 ∧
      (s.poplast k d).2 = (s.abs.poplast k d).2 := by
  cases k with
  | some k => exact poplastKey3_spec h k d
  | none =>
    unfold OMD3.poplast OMD.poplast
    have hc : s.abs.cells = s.ll.flat := rfl
    have hv : s.abs.vals = s.vals := rfl
    simp only [hc, hv, lastKey_eq]
    split
    · exact ⟨h, rfl, rfl⟩
    · cases hl : s.ll.flat.getLast? with
      | none => exact ⟨h, rfl, rfl⟩
      | some p => exact poplastKey3_spec h p.1 d

theorem popitem3_spec {s : OMD3 K V} (h : Inv3 s) :
    Inv3 s.popitem.1 ∧ s.popitem.1.abs = s.abs.popitem.1 ∧ s.popitem.2 = s.abs.popitem.2 := by
  unfold OMD3.popitem OMD.popitem
  have hc : s.abs.cells = s.ll.flat := rfl
  have hv : s.abs.vals = s.vals := rfl
  simp only [hc, hv, lastKey_eq]
  split
  · exact ⟨h, rfl, rfl⟩
  · cases hl : s.ll.flat.getLast? with
    | none => exact ⟨h, rfl, rfl⟩
    | some p =>
      have hp := pop3_spec h p.1 false
      simp only [Option.map_some]
      generalize s.pop p.1 false = q3 at hp ⊢
      generalize s.abs.pop p.1 false = q at hp ⊢
      obtain ⟨q31, q32⟩ := q3
      obtain ⟨q1, q2⟩ := q
      obtain ⟨i, a, o⟩ := hp
      simp only at i a o
      subst o
      cases q32 <;> exact ⟨i, a, rfl⟩

/-! ### histories -/

structure HInv3 (st : HState3 K V) : Prop where
  s : Inv3 st.s
  t : Inv3 st.t

theorem HInv3.abs {st : HState3 K V} (hi : HInv3 st) : HInv st.abs := ⟨hi.s.inv, hi.t.inv⟩

theorem hinv3_init : HInv3 (HState3.init : HState3 K V) := ⟨inv3_empty, inv3_empty⟩

theorem withS3_spec (st : HState3 K V) (hi : HInv3 st) (r3 : OMD3 K V × Out K V) (r : OMD K V × Out K V)
    (h : Inv3 r3.1 ∧ r3.1.abs = r.1 ∧ r3.2 = r.2) :
    HInv3 (st.withS r3).1 ∧ (st.withS r3).1.abs = (st.abs.withS r).1 ∧ (st.withS r3).2 = (st.abs.withS r).2 := by
  obtain ⟨h1, h2, h3⟩ := h
  exact ⟨⟨h1, hi.t⟩, by simp [HState3.withS, HState.withS, HState3.abs, h2], h3⟩

/-- one step on the concrete layer is the step of the two-structure model on the abstraction -/
theorem hstep3_spec (st : HState3 K V) (hi : HInv3 st) (op : HOp K V) :
    HInv3 (hstep3 st op).1 ∧ (hstep3 st op).1.abs = (hstep st.abs op).1 ∧
      (hstep3 st op).2 = (hstep st.abs op).2 := by
  cases op with
  | new E F => exact withS3_spec st hi _ _ (new3_spec _ F)
  | add k v =>
    obtain ⟨i, a⟩ := add3_spec hi.s k v
    exact ⟨⟨i, hi.t⟩, by simp [hstep3, hstep, HState3.abs, a], rfl⟩
  | addlist k vs =>
    obtain ⟨i, a⟩ := addlist3_spec hi.s k vs
    exact ⟨⟨i, hi.t⟩, by simp [hstep3, hstep, HState3.abs, a], rfl⟩
  | setitem k v =>
    obtain ⟨s', e, i, a⟩ := setitem3_spec hi.s k v
    simp only [hstep3, hstep, e, HState3.withS]
    exact ⟨⟨i, hi.t⟩, by simp [HState3.abs, a], by fin⟩
  | delitem k => exact withS3_spec st hi _ _ (delitem3_spec hi.s k)
  | update E F =>
    obtain ⟨a1, _⟩ := resolve_spec st.abs hi.abs E
    obtain ⟨s', e, i, a⟩ := update3_spec hi.s (E.resolve st.abs) a1 F
    simp only [hstep3, hstep, e, HState3.withS]
    exact ⟨⟨i, hi.t⟩, by simp [HState3.abs, a], by fin⟩
  | updateExtend E F => exact withS3_spec st hi _ _ (updateExtend3_spec hi.s _ F)
  | setdefault k v => exact withS3_spec st hi _ _ (setdefault3_spec hi.s k v)
  | pop k d => exact withS3_spec st hi _ _ (pop3_spec hi.s k d)
  | popall k d => exact withS3_spec st hi _ _ (popall3_spec hi.s k d)
  | poplast k d => exact withS3_spec st hi _ _ (poplast3_spec hi.s k d)
  | popitem => exact withS3_spec st hi _ _ (popitem3_spec hi.s)
  | clear => exact ⟨⟨(clear3_spec st.s).1, hi.t⟩, rfl, rfl⟩
  | addlistAbort k vs => exact ⟨hi, rfl, rfl⟩
  | updateAbort l =>
    obtain ⟨s', e, i, a⟩ := updPairs3_spec hi.s [] l
    simp only [hstep3, hstep, e]
    exact ⟨⟨i, hi.t⟩, by simp [HState3.abs, a], by fin⟩
  | updateExtendAbort l =>
    obtain ⟨i, a⟩ := addAll3_spec hi.s l
    exact ⟨⟨i, hi.t⟩, by simp [hstep3, hstep, HState3.abs, a], rfl⟩
  | copyToT => exact ⟨⟨hi.s, (copy3_spec st.s).1⟩, by simp [hstep3, hstep, HState3.abs, (copy3_spec st.s).2], rfl⟩
  | copyToS => exact ⟨⟨(copy3_spec st.s).1, hi.t⟩, by simp [hstep3, hstep, HState3.abs, (copy3_spec st.s).2], rfl⟩
  | swap => exact ⟨⟨hi.t, hi.s⟩, rfl, rfl⟩

/-- whole histories on the concrete layer -/
theorem hrun3_spec (st : HState3 K V) (hi : HInv3 st) (ops : List (HOp K V)) :
    (hrun3 st ops).map (fun r => (r.1.abs, r.2)) = hrun st.abs ops ∧ ∀ r ∈ hrun3 st ops, HInv3 r.1 := by
  induction ops generalizing st with
  | nil => simp [hrun3, hrun]
  | cons op ops ih =>
    obtain ⟨h1, h2, h3⟩ := hstep3_spec st hi op
    have := ih (hstep3 st op).1 h1
    simp only [hrun3, hrun, List.map_cons, List.mem_cons]
    refine ⟨?_, ?_⟩
    · rw [this.1, h2, h3]
    · rintro r (rfl | hr)
      · exact h1
      · exact this.2 r hr

end sim
end C01
