import BoltonsVerif.C01.Proofs
import BoltonsVerif.C01.LL
/-
C01 — the concrete layer (`LL.lean`: cells with identities + the per-key cell index `_map`)
refines the two-structure model `OMD`: the invariant `LLInv` ("`_map[k]` is exactly the list of
the cells of key `k`, in link order, and there is no entry without cells"), what the helpers
`_insert` / `_remove` / `_remove_all` do to the walk of the list, and the simulation of every
public mutator.
-/
namespace C01
open Spec

section ll
variable {K V : Type} [DecidableEq K]

/-- the identities of the cells of key `k`, in link order -/
def idsOf (k : K) (cells : List (Cell K V)) : List Nat := (cells.filter (keyIs k)).map (·.id)

/-- the walk over a list of cells -/
def flatC (cells : List (Cell K V)) : List (K × V) := cells.map fun c => (c.key, c.val)

theorem flat_eq (l : LL K V) : l.flat = flatC l.cells := rfl

structure LLInv (l : LL K V) : Prop where
  ids_nodup : (l.cells.map (·.id)).Nodup
  ids_lt : ∀ c ∈ l.cells, c.id < l.fresh
  map_nodup : (dkeys l.map).Nodup
  map_agree : ∀ k, dget k l.map = ne? (idsOf k l.cells)

@[simp] theorem idsOf_nil (k : K) : idsOf k ([] : List (Cell K V)) = [] := rfl

theorem idsOf_cons (k : K) (x : Cell K V) (xs : List (Cell K V)) :
    idsOf k (x :: xs) = if x.key = k then x.id :: idsOf k xs else idsOf k xs := by
  by_cases h : x.key = k <;> simp [idsOf, keyIs, h]

theorem idsOf_append (k : K) (a b : List (Cell K V)) : idsOf k (a ++ b) = idsOf k a ++ idsOf k b := by
  simp [idsOf]

theorem idsOf_subset (k : K) (cells : List (Cell K V)) : ∀ c ∈ idsOf k cells, c ∈ cells.map (·.id) := by
  intro c hc
  obtain ⟨x, hx, rfl⟩ := List.mem_map.mp hc
  exact List.mem_map_of_mem (List.mem_filter.mp hx).1

theorem flatC_cons (x : Cell K V) (xs : List (Cell K V)) : flatC (x :: xs) = (x.key, x.val) :: flatC xs := rfl

theorem idsOf_eq_nil_iff (k : K) (cells : List (Cell K V)) : idsOf k cells = [] ↔ valsOf k (flatC cells) = [] := by
  induction cells with
  | nil => simp [flatC]
  | cons x xs ih => simp only [idsOf_cons, flatC_cons, valsOf_cons]; split <;> simp_all

theorem idsOf_length (k : K) (cells : List (Cell K V)) : (idsOf k cells).length = (valsOf k (flatC cells)).length := by
  induction cells with
  | nil => simp [flatC]
  | cons x xs ih => simp only [idsOf_cons, flatC_cons, valsOf_cons]; split <;> simp_all

theorem llinv_empty : LLInv (LL.empty : LL K V) :=
  ⟨by simp [LL.empty], by simp [LL.empty], by simp [LL.empty, dkeys], by simp [LL.empty, dget]⟩

theorem llinv_clear (l : LL K V) : LLInv l.clear :=
  ⟨by simp [LL.clear], by simp [LL.clear], by simp [LL.clear, dkeys], by simp [LL.clear, dget]⟩

/-! `_insert` -/

theorem flat_insert (l : LL K V) (k : K) (v : V) : (l.insert k v).flat = l.flat ++ [(k, v)] := by
  simp [LL.insert, LL.flat]

theorem llinv_insert {l : LL K V} (h : LLInv l) (k : K) (v : V) : LLInv (l.insert k v) := by
  refine ⟨?_, ?_, nodup_dset _ _ _ h.map_nodup, fun k' => ?_⟩
  · simp only [LL.insert, List.map_append, List.map_cons, List.map_nil]
    rw [List.nodup_append]
    refine ⟨h.ids_nodup, by simp, ?_⟩
    intro a ha b hb
    simp at hb; subst hb
    obtain ⟨c, hc, rfl⟩ := List.mem_map.mp ha
    exact Nat.ne_of_lt (h.ids_lt c hc)
  · intro c hc
    simp only [LL.insert, List.mem_append, List.mem_singleton] at hc ⊢
    rcases hc with hc | rfl
    · exact Nat.lt_succ_of_lt (h.ids_lt c hc)
    · exact Nat.lt_succ_self _
  · simp only [LL.insert, dget_dset, idsOf_append, idsOf_cons, idsOf_nil, h.map_agree, ne?_getD]
    by_cases e : k' = k
    · subst e; simp [ne?]
    · have : ¬ k = k' := fun e' => e e'.symm
      simp [e, this]

theorem insertAll_spec {l : LL K V} (h : LLInv l) (k : K) (vs : List V) :
    LLInv (vs.foldl (fun l v => l.insert k v) l) ∧
    (vs.foldl (fun l v => l.insert k v) l).flat = l.flat ++ vs.map (fun v => (k, v)) := by
  induction vs generalizing l with
  | nil => simp [h]
  | cons v r ih =>
    have := ih (llinv_insert h k v)
    simp only [List.foldl_cons]
    refine ⟨this.1, ?_⟩
    rw [this.2, flat_insert]; simp

/-! `_remove`: the cell that is unlinked is the LAST cell of the key -/

theorem unlink_not_mem (c : Nat) (cells : List (Cell K V)) (h : c ∉ cells.map (·.id)) :
    LL.unlink c cells = cells := by
  unfold LL.unlink
  rw [List.filter_eq_self]
  intro x hx
  simp only [notId, Bool.not_eq_eq_eq_not, Bool.not_true, decide_eq_false_iff_not]
  intro e
  exact h (e ▸ List.mem_map_of_mem hx)

theorem unlink_sublist (c : Nat) (cells : List (Cell K V)) : (LL.unlink c cells).Sublist cells :=
  List.filter_sublist

theorem unlink_last (k : K) : ∀ (cells : List (Cell K V)), (cells.map (·.id)).Nodup →
    ∀ c, (idsOf k cells).getLast? = some c →
    flatC (LL.unlink c cells) = rmLast k (flatC cells) ∧
    ∀ k', idsOf k' (LL.unlink c cells) = if k' = k then (idsOf k cells).dropLast else idsOf k' cells := by
  intro cells
  induction cells with
  | nil => intro _ c hc; simp at hc
  | cons x xs ih =>
    intro hnd c hc
    simp only [List.map_cons, List.nodup_cons] at hnd
    by_cases hxs : idsOf k xs = []
    · -- `x` is the only (hence the last) cell of the key
      have hk : x.key = k := by
        by_cases e : x.key = k
        · exact e
        · simp [idsOf_cons, e, hxs] at hc
      have hcx : c = x.id := by simp [idsOf_cons, hk, hxs] at hc; exact hc.symm
      subst hcx
      have hun : LL.unlink x.id (x :: xs) = xs := by
        simp only [LL.unlink, List.filter_cons, notId, decide_true, Bool.not_true, Bool.false_eq_true, ↓reduceIte]
        exact unlink_not_mem x.id xs hnd.1
      have hany : ¬ (flatC xs).any (isK k) = true := by
        rw [any_isK_iff]; simp [(idsOf_eq_nil_iff k xs).mp hxs]
      refine ⟨by rw [hun, flatC_cons]; simp [rmLast, hany, hk], fun k' => ?_⟩
      rw [hun, idsOf_cons]
      by_cases e : k' = k
      · subst e; simp [hk, hxs]
      · have : ¬ x.key = k' := by rw [hk]; exact fun e' => e e'.symm
        simp [e, this, idsOf_cons]
    · -- the last cell of the key is further down
      have hlast : (idsOf k (x :: xs)).getLast? = (idsOf k xs).getLast? := by
        rw [idsOf_cons]; split
        · exact List.getLast?_cons_of_ne_nil hxs
        · rfl
      rw [hlast] at hc
      have hmem : c ∈ xs.map (·.id) := idsOf_subset k xs c (List.mem_of_getLast? hc)
      have hne : ¬ x.id = c := fun e => hnd.1 (e ▸ hmem)
      have hun : LL.unlink c (x :: xs) = x :: LL.unlink c xs := by
        simp [LL.unlink, List.filter_cons, notId, hne]
      obtain ⟨ih1, ih2⟩ := ih hnd.2 c hc
      have hany : (flatC xs).any (isK k) = true := by
        rw [any_isK_iff]; exact fun e => hxs ((idsOf_eq_nil_iff k xs).mpr e)
      refine ⟨by rw [hun, flatC_cons, ih1, flatC_cons]; simp [rmLast, hany], fun k' => ?_⟩
      rw [hun, idsOf_cons, ih2 k', idsOf_cons]
      by_cases e : k' = k
      · subst e
        by_cases e2 : x.key = k'
        · simp [e2, List.dropLast_cons_of_ne_nil hxs]
        · simp [e2]
      · simp [e, idsOf_cons]

theorem llinv_unlink_aux {l : LL K V} (h : LLInv l) (c : Nat) :
    ((LL.unlink c l.cells).map (·.id)).Nodup ∧ ∀ x ∈ LL.unlink c l.cells, x.id < l.fresh :=
  ⟨h.ids_nodup.sublist ((unlink_sublist c l.cells).map _),
   fun x hx => h.ids_lt x ((unlink_sublist c l.cells).subset hx)⟩

/-- `_remove(k)` under the invariant: KeyError exactly when the key has no cell, otherwise the last
    cell of the key is gone from the walk and the index stays exact (never IndexError) -/
theorem remove_spec {l : LL K V} (h : LLInv l) (k : K) :
    if l.flat.any (isK k) = true then
      ∃ l', l.remove k = .ok l' ∧ LLInv l' ∧ l'.flat = rmLast k l.flat
    else l.remove k = .error .keyError := by
  rw [flat_eq]
  by_cases hv : valsOf k (flatC l.cells) = []
  · have hany : ¬ (flatC l.cells).any (isK k) = true := by rw [any_isK_iff]; simp [hv]
    simp only [hany, Bool.false_eq_true, ↓reduceIte, LL.remove, h.map_agree,
      (idsOf_eq_nil_iff k l.cells).mpr hv, ne?_nil]
  · have hany : (flatC l.cells).any (isK k) = true := by rw [any_isK_iff]; exact hv
    have hids : idsOf k l.cells ≠ [] := fun e => hv ((idsOf_eq_nil_iff k l.cells).mp e)
    obtain ⟨c, hc⟩ := getLast?_of_ne hids
    obtain ⟨u1, u2⟩ := unlink_last k l.cells h.ids_nodup c hc
    obtain ⟨a1, a2⟩ := llinv_unlink_aux h c
    simp only [hany, ↓reduceIte, LL.remove, h.map_agree, ne?_of_ne hids, hc]
    refine ⟨_, rfl, ⟨a1, a2, ?_, fun k' => ?_⟩, by simp only [LL.flat]; exact u1⟩
    · show (dkeys (if (idsOf k l.cells).dropLast.isEmpty = true then ddel k l.map
        else dset k (idsOf k l.cells).dropLast l.map)).Nodup
      split
      · exact nodup_ddel _ _ h.map_nodup
      · exact nodup_dset _ _ _ h.map_nodup
    · show dget k' (if (idsOf k l.cells).dropLast.isEmpty = true then ddel k l.map
        else dset k (idsOf k l.cells).dropLast l.map) = ne? (idsOf k' (LL.unlink c l.cells))
      rw [u2 k']
      split
      · rename_i he
        rw [dget_ddel]
        split
        · rename_i e; subst e; simp at he; simp [he]
        · exact h.map_agree k'
      · rename_i he
        rw [dget_dset]
        split
        · rename_i e; subst e
          simp only [List.isEmpty_iff] at he
          exact (ne?_of_ne he).symm
        · exact h.map_agree k'

/-! `_remove_all` -/

theorem foldl_unlink (ids : List Nat) (cells : List (Cell K V)) :
    ids.foldl (fun cs c => LL.unlink c cs) cells = cells.filter (fun x => !decide (x.id ∈ ids)) := by
  induction ids generalizing cells with
  | nil => simp; exact (List.filter_eq_self.mpr (fun _ _ => rfl)).symm
  | cons c r ih =>
    simp only [List.foldl_cons]
    rw [ih]
    simp only [LL.unlink, List.filter_filter]
    apply List.filter_congr
    intro x _
    by_cases e : x.id = c <;> simp [notId, e]

theorem unlinkAll_eq (ids : List Nat) (cells : List (Cell K V)) :
    LL.unlinkAll ids cells = cells.filter (fun x => !decide (x.id ∈ ids)) := by
  unfold LL.unlinkAll
  rw [foldl_unlink]
  apply List.filter_congr
  intro x _
  simp

theorem mem_idsOf_iff (k : K) : ∀ (cells : List (Cell K V)), (cells.map (·.id)).Nodup →
    ∀ x ∈ cells, (x.id ∈ idsOf k cells ↔ x.key = k) := by
  intro cells
  induction cells with
  | nil => intro _ x hx; simp at hx
  | cons y ys ih =>
    intro hnd x hx
    simp only [List.map_cons, List.nodup_cons] at hnd
    have hsub : ∀ c ∈ idsOf k ys, c ∈ ys.map (·.id) := idsOf_subset k ys
    rcases List.mem_cons.mp hx with rfl | hx'
    · rw [idsOf_cons]
      by_cases e : x.key = k
      · simp [e]
      · simp only [e, ↓reduceIte, iff_false]
        exact fun hh => hnd.1 (hsub _ hh)
    · have hne : x.id ≠ y.id := fun e => hnd.1 (e ▸ List.mem_map_of_mem hx')
      rw [idsOf_cons]
      split
      · simp only [List.mem_cons, hne, false_or]; exact ih hnd.2 x hx'
      · exact ih hnd.2 x hx'

theorem unlinkAll_key (k : K) (cells : List (Cell K V)) (hnd : (cells.map (·.id)).Nodup) :
    LL.unlinkAll (idsOf k cells) cells = cells.filter (fun x => !keyIs k x) := by
  rw [unlinkAll_eq]
  apply List.filter_congr
  intro x hx
  have := mem_idsOf_iff k cells hnd x hx
  by_cases e : x.key = k
  · simp [keyIs, e, this.mpr e]
  · have : x.id ∉ idsOf k cells := fun hh => e (this.mp hh)
    simp [keyIs, e, this]

theorem flatC_filter_key (k : K) (cells : List (Cell K V)) :
    flatC (cells.filter (fun x => !keyIs k x)) = (flatC cells).filter (notK k) := by
  induction cells with
  | nil => rfl
  | cons x xs ih =>
    simp only [List.filter_cons, flatC_cons]
    by_cases e : x.key = k
    · have h1 : keyIs k x = true := by simp [keyIs, e]
      have h2 : notK k (x.key, x.val) = false := by simp [notK, e]
      simp only [h1, h2, Bool.not_true, Bool.false_eq_true, ↓reduceIte, ih]
    · have h1 : keyIs k x = false := by simp [keyIs, e]
      have h2 : notK k (x.key, x.val) = true := by simp [notK, e]
      simp only [h1, h2, Bool.not_false, ↓reduceIte, ih, flatC_cons]

theorem idsOf_filter_key (k k' : K) (cells : List (Cell K V)) :
    idsOf k' (cells.filter (fun x => !keyIs k x)) = if k' = k then [] else idsOf k' cells := by
  induction cells with
  | nil => simp
  | cons x xs ih =>
    simp only [List.filter_cons]
    by_cases e : x.key = k
    · have h1 : keyIs k x = true := by simp [keyIs, e]
      simp only [h1, Bool.not_true, Bool.false_eq_true, ↓reduceIte, ih, idsOf_cons]
      by_cases e2 : k' = k
      · simp [e2]
      · have : ¬ x.key = k' := by rw [e]; exact fun e' => e2 e'.symm
        simp [e2, this]
    · have h1 : keyIs k x = false := by simp [keyIs, e]
      simp only [h1, Bool.not_false, ↓reduceIte, idsOf_cons, ih]
      by_cases e2 : k' = k
      · subst e2; simp [e]
      · simp [e2]

/-- `_remove_all(k)` under the invariant: KeyError exactly when the key has no cell, otherwise
    every cell of the key is gone from the walk, the entry is gone from the index -/
theorem removeAll_spec {l : LL K V} (h : LLInv l) (k : K) :
    if l.flat.any (isK k) = true then
      ∃ l', l.removeAll k = .ok l' ∧ LLInv l' ∧ l'.flat = l.flat.filter (notK k)
    else l.removeAll k = .error .keyError := by
  rw [flat_eq]
  by_cases hv : valsOf k (flatC l.cells) = []
  · have hany : ¬ (flatC l.cells).any (isK k) = true := by rw [any_isK_iff]; simp [hv]
    simp only [hany, Bool.false_eq_true, ↓reduceIte, LL.removeAll, h.map_agree,
      (idsOf_eq_nil_iff k l.cells).mpr hv, ne?_nil]
  · have hany : (flatC l.cells).any (isK k) = true := by rw [any_isK_iff]; exact hv
    have hids : idsOf k l.cells ≠ [] := fun e => hv ((idsOf_eq_nil_iff k l.cells).mp e)
    simp only [hany, ↓reduceIte, LL.removeAll, h.map_agree, ne?_of_ne hids]
    have hu := unlinkAll_key k l.cells h.ids_nodup
    refine ⟨_, rfl, ⟨?_, ?_, nodup_ddel _ _ h.map_nodup, fun k' => ?_⟩, ?_⟩
    · show ((LL.unlinkAll (idsOf k l.cells) l.cells).map (·.id)).Nodup
      rw [hu]; exact h.ids_nodup.sublist (List.filter_sublist.map _)
    · intro x hx
      have hx' : x ∈ LL.unlinkAll (idsOf k l.cells) l.cells := hx
      rw [hu] at hx'
      exact h.ids_lt x (List.mem_filter.mp hx').1
    · show dget k' (ddel k l.map) = ne? (idsOf k' (LL.unlinkAll (idsOf k l.cells) l.cells))
      rw [hu, idsOf_filter_key, dget_ddel]
      split
      · rfl
      · exact h.map_agree k'
    · show flatC (LL.unlinkAll (idsOf k l.cells) l.cells) = _
      rw [hu, flatC_filter_key]

theorem lastKey_eq (l : LL K V) : l.lastKey = l.flat.getLast?.map (·.1) := by
  simp [LL.lastKey, LL.flat, List.getLast?_map]
  cases l.cells.getLast? <;> rfl

end ll

end C01
