/-
C01 — model of `boltons.dictutils.OrderedMultiDict` (and of the textually identical
copy in `boltons/urlutils.py` that `QueryParamDict` falls back to).

The Python class keeps two structures that every mutator has to update in lock-step:
  * the dict's own storage  `key -> [values in insertion order]`      = `OMD.vals`
    (CPython's insertion-ordered dict = association list in dict order:
    re-assignment keeps the position, a new key goes to the end);
  * the circular doubly linked list `root` of cells `[PREV, NEXT, KEY, VALUE]`
    flattened in link order                                           = `OMD.cells`
    (`_map`, the per-key index of cells, is the per-key filter of `cells` and is not
    kept separately: `_map[k]` exists iff some cell has key `k`).
Keyed readers (`[]`, `get`, `getlist`, `in`, `len`) use the dict, ordered readers walk
the linked list.  Every public method is transliterated statement by statement; a
raised exception is an `Err` (in `Out.err` for mutators, `Except.error` for readers).
The model follows the code after the `fix:` commits of branch `c01-work`.
Core Lean only.
-/
namespace C01

inductive Err where
  | keyError
  | indexError
deriving DecidableEq, Repr

/-- what a public mutator returns: `None`, a value, the caller's default object,
    a list of values, a `(key, value)` pair, or a raised exception -/
inductive Out (K V : Type) where
  | unit
  | dflt
  | val (v : V)
  | vals (l : List V)
  | pair (k : K) (v : V)
  | err (e : Err)
  | abort          -- the caller's argument iterable raised; that exception propagates
deriving DecidableEq, Repr

/-! ### the dict (association list in dict order) -/
section dict
variable {K β : Type} [DecidableEq K]

def isK (k : K) (p : K × β) : Bool := decide (p.1 = k)
def notK (k : K) (p : K × β) : Bool := !decide (p.1 = k)

def dget (k : K) : List (K × β) → Option β
  | [] => none
  | p :: r => if p.1 = k then some p.2 else dget k r

def dhas (k : K) (d : List (K × β)) : Bool := (dget k d).isSome

/-- `d[k] = b`: an existing key keeps its position (and its key object) -/
def dset (k : K) (b : β) : List (K × β) → List (K × β)
  | [] => [(k, b)]
  | p :: r => if p.1 = k then (p.1, b) :: r else p :: dset k b r

def ddel (k : K) (d : List (K × β)) : List (K × β) := d.filter (notK k)

end dict

structure OMD (K V : Type) where
  vals  : List (K × List V)
  cells : List (K × V)
deriving Repr

/-- argument of `update` / `update_extend` / the constructor.  One-shot iterators of pairs are
    walked exactly once by the code, so they behave like the list of what they yield. -/
inductive Arg (K V : Type) where
  | self
  | omd (t : OMD K V)
  | mapping (m : List (K × V))     -- a plain mapping: `keys()` order, `E[k]`
  | pairs (l : List (K × V))       -- any iterable of pairs

/-- generic "list(generator)" where each element may raise -/
def mapE {α β : Type} (f : α → Except Err β) : List α → Except Err (List β)
  | [] => .ok []
  | a :: r => match f a with
    | .error e => .error e
    | .ok b => match mapE f r with
      | .error e => .error e
      | .ok l => .ok (b :: l)

/-- `iterkeys()`: first occurrences, in order (`yielded` is the `seen` accumulator) -/
def dedupAux {K : Type} [DecidableEq K] (seen : List K) : List K → List K
  | [] => []
  | k :: r => if k ∈ seen then dedupAux seen r else k :: dedupAux (k :: seen) r

def dedup {K : Type} [DecidableEq K] (l : List K) : List K := dedupAux [] l

/-- remove the last cell with key `k` (`_remove`) -/
def rmLast {K V : Type} [DecidableEq K] (k : K) : List (K × V) → List (K × V)
  | [] => []
  | p :: r => if r.any (isK k) then p :: rmLast k r else if p.1 = k then r else p :: r

/-- stable insertion sort: Python's `sorted` (stable; `reverse=True` is the same with `le` flipped) -/
def insBy {α : Type} (le : α → α → Bool) (x : α) : List α → List α
  | [] => [x]
  | y :: ys => if le x y then x :: y :: ys else y :: insBy le x ys

def sortBy {α : Type} (le : α → α → Bool) (l : List α) : List α := l.foldr (insBy le) []

def flipIf {α : Type} (rev : Bool) (le : α → α → Bool) : α → α → Bool :=
  if rev then fun a b => le b a else le

namespace OMD
variable {K V : Type} [DecidableEq K]

/-- `__new__` + `_clear_ll` + `dict.__init__()` -/
def empty : OMD K V := ⟨[], []⟩

/-- `add`: `values = super().setdefault(k, [])`, `_insert(k, v)`, `values.append(v)` -/
def add (s : OMD K V) (k : K) (v : V) : OMD K V :=
  ⟨dset k ((dget k s.vals).getD [] ++ [v]) s.vals, s.cells ++ [(k, v)]⟩

/-- `addlist` (after the fix the iterable is materialised once; empty → nothing happens) -/
def addlist (s : OMD K V) (k : K) (vs : List V) : OMD K V :=
  if vs.isEmpty then s else
  ⟨dset k ((dget k s.vals).getD [] ++ vs) s.vals, s.cells ++ vs.map (fun v => (k, v))⟩

/-- `__setitem__`: `if contains: _remove_all(k)`, `_insert(k, v)`, `dict[k] = [v]` -/
def setitem (s : OMD K V) (k : K) (v : V) : OMD K V :=
  ⟨dset k [v] s.vals, (if dhas k s.vals then s.cells.filter (notK k) else s.cells) ++ [(k, v)]⟩

/-- the two statements of `__delitem__` when the key is in the dict -/
def delKey (s : OMD K V) (k : K) : OMD K V := ⟨ddel k s.vals, s.cells.filter (notK k)⟩

/-- `__delitem__`: `dict.__delitem__` raises KeyError before anything is touched -/
def delitem (s : OMD K V) (k : K) : OMD K V × Out K V :=
  if dhas k s.vals then (s.delKey k, .unit) else (s, .err .keyError)

/-- `if k in self: del self[k]` -/
def delIfHas (s : OMD K V) (k : K) : OMD K V := if dhas k s.vals then s.delKey k else s

/-! readers -/

def itemsM (s : OMD K V) : List (K × V) := s.cells
def keysM (s : OMD K V) : List K := s.cells.map (·.1)
def valuesM (s : OMD K V) : List V := s.cells.map (·.2)
def keys (s : OMD K V) : List K := dedup (s.cells.map (·.1))

/-- `self[k]` = `dict[k][-1]` -/
def getitem (s : OMD K V) (k : K) : Except Err V :=
  match dget k s.vals with
  | none => .error .keyError
  | some vs => match vs.getLast? with
    | none => .error .indexError
    | some v => .ok v

/-- `get(k, default)` = `dict.get(k, [default])[-1]`; `none` = the default came back -/
def get (s : OMD K V) (k : K) : Except Err (Option V) :=
  match dget k s.vals with
  | none => .ok none
  | some vs => match vs.getLast? with
    | none => .error .indexError
    | some v => .ok (some v)

/-- `getlist(k)` (a copy of the list, `[]` when absent) -/
def getlist (s : OMD K V) (k : K) : List V := (dget k s.vals).getD []

def contains (s : OMD K V) (k : K) : Bool := dhas k s.vals
def len (s : OMD K V) : Nat := s.vals.length

/-- `bool(omd)` (inherited from dict): the dict is not empty -/
def bool (s : OMD K V) : Bool := !s.vals.isEmpty

/-- `__iter__`: `return self.iterkeys()` -/
def iter (s : OMD K V) : List K := s.keys

/-- `items()`: `for key in self.iterkeys(): yield key, self[key]` -/
def items (s : OMD K V) : Except Err (List (K × V)) :=
  mapE (fun k => match s.getitem k with | .error e => .error e | .ok v => .ok (k, v)) s.keys

def values (s : OMD K V) : Except Err (List V) :=
  match s.items with
  | .error e => .error e
  | .ok l => .ok (l.map (·.2))

/-- `todict()`: `{k: self[k] for k in self}`, as the list of its items in creation order -/
def todict (s : OMD K V) : Except Err (List (K × V)) :=
  mapE (fun k => match s.getitem k with | .error e => .error e | .ok v => .ok (k, v)) s.keys

/-- `todict(multi=True)`: `{k: self.getlist(k) for k in self}` in dict order of creation -/
def todictM (s : OMD K V) : List (K × List V) := s.keys.map fun k => (k, s.getlist k)

/-- `__reversed__`: walk the cells backwards, `lengths` counts the cells of each key seen so far
    (1-based); a key is yielded when that count reaches `len(dict[k])` -/
def reversedAux (vals : List (K × List V)) : List (K × Nat) → List (K × V) → Except Err (List K)
  | _, [] => .ok []
  | lengths, p :: r =>
    match dget p.1 vals with
    | none => .error .keyError
    | some vs =>
      let n := (dget p.1 lengths).getD 1
      match reversedAux vals (dset p.1 (n + 1) lengths) r with
      | .error e => .error e
      | .ok l => .ok (if n = vs.length then p.1 :: l else l)

def reversed (s : OMD K V) : Except Err (List K) := reversedAux s.vals [] s.cells.reverse

/-- `counts()`: `(k, len(dict[k])) for k in self` (the pairs the new OMD is built from) -/
def counts (s : OMD K V) : Except Err (List (K × Nat)) :=
  mapE (fun k => match dget k s.vals with
    | none => .error .keyError
    | some vs => .ok (k, vs.length)) s.keys

/-! mutators -/

/-- the loop `for k, v in iterator: self.add(k, v)` -/
def addAll (s : OMD K V) (l : List (K × V)) : OMD K V := l.foldl (fun a p => a.add p.1 p.2) s

/-- the loop `for k in F: self[k] = F[k]` -/
def setAll (s : OMD K V) (l : List (K × V)) : OMD K V := l.foldl (fun a p => a.setitem p.1 p.2) s

/-- the `else` branch of `update` (after the fix): the first time a key shows up its old
    values are dropped -/
def updPairs (s : OMD K V) (seen : List K) : List (K × V) → OMD K V
  | [] => s
  | p :: r => if p.1 ∈ seen then updPairs (s.add p.1 p.2) seen r
              else updPairs ((s.delIfHas p.1).add p.1 p.2) (p.1 :: seen) r

/-- `update(E, **F)` -/
def update (s : OMD K V) (E : Arg K V) (F : List (K × V)) : OMD K V :=
  let s1 := match E with
    | .self => s
    | .omd t => (t.keys.foldl delIfHas s).addAll t.cells
    | .mapping m => s.setAll m
    | .pairs l => s.updPairs [] l
  s1.setAll F

/-- `update_extend(E, **F)`; with `E is self` the single-valued `items()` are appended -/
def updateExtend (s : OMD K V) (E : Arg K V) (F : List (K × V)) : OMD K V × Out K V :=
  match E with
  | .self => match s.items with
    | .error e => (s, .err e)
    | .ok l => ((s.addAll l).addAll F, .unit)
  | .omd t => ((s.addAll t.cells).addAll F, .unit)
  | .mapping m => ((s.addAll m).addAll F, .unit)
  | .pairs l => ((s.addAll l).addAll F, .unit)

/-- the constructor `cls(E, **F)`: `update_extend(E)` then `update(F)` on a fresh object
    (`E = none`: no positional argument) -/
def new (E : Option (Arg K V)) (F : List (K × V)) : OMD K V × Out K V :=
  match E with
  | none => ((empty : OMD K V).setAll F, .unit)
  | some E => match (empty : OMD K V).updateExtend E [] with
    | (s, .unit) => (s.setAll F, .unit)
    | (s, o) => (s, o)

/-- `cls(pairs)`; also `copy()`, `__setstate__(__getstate__())` (copy module, pickle) -/
def fromPairs (l : List (K × V)) : OMD K V := (empty : OMD K V).addAll l

def copy (s : OMD K V) : OMD K V := fromPairs s.itemsM

/-- `fromkeys(keys, default)`: `cls([(k, default) for k in keys])` (a repeated key gets the value again) -/
def fromkeys (ks : List K) (d : V) : OMD K V := fromPairs (ks.map fun k => (k, d))

/-! the view objects `viewkeys()` / `viewvalues()` / `viewitems()` = `collections.abc.KeysView(self)` … : they keep a
    reference to the dictionary and every use reads its CURRENT state through the public readers -/

/-- `iter(KeysView(omd))` = `iter(omd)`; `len(view)` = `len(omd)` (all three views); `k in view` = `k in omd` -/
def viewKeysIter (s : OMD K V) : List K := s.iter
def viewLen (s : OMD K V) : Nat := s.len
def viewKeysContains (s : OMD K V) (k : K) : Bool := s.contains k

/-- `iter(ValuesView(omd))`: `for key in self._mapping: yield self._mapping[key]` -/
def viewValuesIter (s : OMD K V) : Except Err (List V) := mapE (fun k => s.getitem k) s.iter

/-- `iter(ItemsView(omd))`: `for key in self._mapping: yield (key, self._mapping[key])` -/
def viewItemsIter (s : OMD K V) : Except Err (List (K × V)) :=
  mapE (fun k => match s.getitem k with | .error e => .error e | .ok v => .ok (k, v)) s.iter

/-- `(k, v) in ItemsView(omd)`: `try: x = self._mapping[k]  except KeyError: False  else: x is v or x == v` -/
def viewItemsContains [DecidableEq V] (s : OMD K V) (k : K) (v : V) : Except Err Bool :=
  match s.getitem k with
  | .error .keyError => .ok false
  | .error e => .error e
  | .ok x => .ok (decide (x = v))

/-- `v in ValuesView(omd)`: `for key in self._mapping: x = self._mapping[key]; if x is v or x == v: return True` -/
def viewValuesContains [DecidableEq V] (s : OMD K V) (v : V) : Except Err Bool :=
  match s.viewValuesIter with
  | .error e => .error e
  | .ok l => .ok (decide (v ∈ l))

/-- `setdefault(k, default)` (an omitted default is the value `None`, chosen by the caller) -/
def setdefault (s : OMD K V) (k : K) (v : V) : OMD K V × Out K V :=
  let s' := if dhas k s.vals then s else s.setitem k v
  (s', match s'.getitem k with | .ok x => .val x | .error e => .err e)

/-- `popall(k[, default])` -/
def popall (s : OMD K V) (k : K) (hasD : Bool) : OMD K V × Out K V :=
  match dget k s.vals with
  | none => (s, if hasD then .dflt else .err .keyError)
  | some vs => (s.delKey k, .vals vs)

/-- `pop(k[, default])` = `popall(k)[-1]`, KeyError → default -/
def pop (s : OMD K V) (k : K) (hasD : Bool) : OMD K V × Out K V :=
  match dget k s.vals with
  | none => (s, if hasD then .dflt else .err .keyError)
  | some vs => (s.delKey k, match vs.getLast? with | some v => .val v | none => .err .indexError)

/-- `poplast(k[, default])` for a given key -/
def poplastKey (s : OMD K V) (k : K) (hasD : Bool) : OMD K V × Out K V :=
  if s.cells.any (isK k) then
    let cells' := rmLast k s.cells
    match dget k s.vals with
    | none => (⟨s.vals, cells'⟩, .err .keyError)
    | some vs => match vs.getLast? with
      | none => (⟨s.vals, cells'⟩, .err .indexError)
      | some v => (⟨if vs.dropLast.isEmpty then ddel k s.vals else dset k vs.dropLast s.vals, cells'⟩, .val v)
  else (s, if hasD then .dflt else .err .keyError)

/-- `poplast()` / `poplast(k)`; without a key: the key of the most recently inserted cell -/
def poplast (s : OMD K V) (k : Option K) (hasD : Bool) : OMD K V × Out K V :=
  match k with
  | some k => s.poplastKey k hasD
  | none =>
    if s.vals.isEmpty then (s, if hasD then .dflt else .err .keyError)
    else match s.cells.getLast? with
      | none => (s, if hasD then .dflt else .err .keyError)
      | some p => s.poplastKey p.1 hasD

/-- `popitem()` (as defined by the fix): last cell's key with all its values -/
def popitem (s : OMD K V) : OMD K V × Out K V :=
  if s.vals.isEmpty then (s, .err .keyError)
  else match s.cells.getLast? with
    | none => (s, .err .keyError)
    | some p => match s.pop p.1 false with
      | (s', .val v) => (s', .pair p.1 v)
      | (s', o) => (s', o)

/-- `__repr__`: `'%s([%s])' % (cn, ', '.join([repr((k, v)) for k, v in self.iteritems(multi=True)]))`, with the
    class name and the `repr` of keys and values as parameters -/
def reprText (cn : String) (rk : K → String) (rv : V → String) (s : OMD K V) : String :=
  cn ++ "([" ++ ", ".intercalate (s.itemsM.map fun p => "(" ++ rk p.1 ++ ", " ++ rv p.2 ++ ")") ++ "])"

/-! derived containers -/

/-- `inverted()` -/
def inverted [DecidableEq V] (s : OMD K V) : OMD V K := fromPairs (s.cells.map fun p => (p.2, p.1))

/-- `sorted(key, reverse)`: `cls(sorted(iteritems(multi=True), ...))`; `le` is the order the
    key function induces on pairs -/
def sorted (s : OMD K V) (le : K × V → K × V → Bool) (rev : Bool) : OMD K V :=
  fromPairs (sortBy (flipIf rev le) s.cells)

/-- the loop of `sortedvalues`: `ret.add(k, sorted_val_map[k].pop())` for every cell key -/
def svLoop (ret : OMD K V) (m : List (K × List V)) : List K → OMD K V × Out K V
  | [] => (ret, .unit)
  | k :: r => match dget k m with
    | none => (ret, .err .keyError)
    | some vs => match vs.getLast? with
      | none => (ret, .err .indexError)
      | some v => svLoop (ret.add k v) (dset k vs.dropLast m) r

/-- `sortedvalues(key, reverse)`: every key's values sorted with `reverse=(not reverse)` and then
    popped off the end -/
def sortedvalues (s : OMD K V) (le : V → V → Bool) (rev : Bool) : OMD K V × Out K V :=
  svLoop empty (s.vals.map fun kv => (kv.1, sortBy (flipIf (!rev) le) kv.2)) s.keysM

/-! equality -/

/-- the `zip_longest` loop of `__eq__` (the fill value equals nothing) -/
def zipEq [DecidableEq V] : List (K × V) → List (K × V) → Bool
  | [], [] => true
  | a :: as, b :: bs => if a.1 ≠ b.1 ∨ a.2 ≠ b.2 then false else zipEq as bs
  | _, _ => false

/-- `self == other` for another OrderedMultiDict (not the same object) -/
def eqOMD [DecidableEq V] (s t : OMD K V) : Bool :=
  if t.len ≠ s.len then false else zipEq s.cells t.cells

/-- the loop of `__eq__` against a mapping: `other[k]` KeyError → False, values differ → False -/
def eqMapLoop [DecidableEq V] (s : OMD K V) (m : List (K × V)) : List K → Except Err Bool
  | [] => .ok true
  | k :: r => match dget k m with
    | none => .ok false
    | some mv => match s.getitem k with
      | .error .keyError => .ok false
      | .error e => .error e
      | .ok v => if mv ≠ v then .ok false else eqMapLoop s m r

/-- `self == other` for a plain mapping given as an association list with unique keys -/
def eqMapping [DecidableEq V] (s : OMD K V) (m : List (K × V)) : Except Err Bool :=
  if m.length ≠ s.len then .ok false else eqMapLoop s m s.keys

/-- the mapping loop of `__eq__` as it was BEFORE the fix of round 3 (`other[k]` alone, no membership test), for a
    mapping whose `__missing__` answers `z` for every key it lacks (`collections.Counter`: `some 0`; a `defaultdict`;
    `none` = an ordinary mapping, `other[k]` raises KeyError).  Kept to state what the fix changed. -/
def eqMapLoopOld [DecidableEq V] (s : OMD K V) (m : List (K × V)) (z : Option V) : List K → Except Err Bool
  | [] => .ok true
  | k :: r => match (dget k m).orElse (fun _ => z) with
    | none => .ok false
    | some mv => match s.getitem k with
      | .error .keyError => .ok false
      | .error e => .error e
      | .ok v => if mv ≠ v then .ok false else eqMapLoopOld s m z r

def eqMappingOld [DecidableEq V] (s : OMD K V) (m : List (K × V)) (z : Option V) : Except Err Bool :=
  if m.length ≠ s.len then .ok false else eqMapLoopOld s m z s.keys

/-- `__ne__`: `not (self == other)` -/
def neOMD [DecidableEq V] (s t : OMD K V) : Bool := !s.eqOMD t

def neMapping [DecidableEq V] (s : OMD K V) (m : List (K × V)) : Except Err Bool :=
  match s.eqMapping m with
  | .ok b => .ok (!b)
  | .error e => .error e

end OMD

/-! ### histories: two registers, `s` (the dictionary under test) and `t` (a second OMD used as
    argument, copy target and comparison partner) -/

inductive HArg (K V : Type) where
  | self
  | regT
  | fresh (l : List (K × V))       -- a new OMD built from pairs
  | mapping (m : List (K × V))
  | pairs (l : List (K × V))

inductive HOp (K V : Type) where
  | new (E : Option (HArg K V)) (F : List (K × V))
  | add (k : K) (v : V)
  | addlist (k : K) (vs : List V)
  | setitem (k : K) (v : V)
  | delitem (k : K)
  | update (E : HArg K V) (F : List (K × V))      -- also `|=`
  | updateExtend (E : HArg K V) (F : List (K × V))
  | setdefault (k : K) (v : V)
  | pop (k : K) (hasD : Bool)
  | popall (k : K) (hasD : Bool)
  | poplast (k : Option K) (hasD : Bool)
  | popitem
  | clear
  -- the argument is an iterable that yields the listed items and then raises:
  | addlistAbort (k : K) (vs : List V)            -- `v = list(v)` raises before anything is touched
  | updateAbort (l : List (K × V))                -- the `seen` loop of `update` has taken over `l`
  | updateExtendAbort (l : List (K × V))          -- the `add` loop of `update_extend` has taken over `l`
  -- the argument is a mapping whose `keys()` / `__getitem__` raises after the items `l` were delivered:
  | updateMapAbort (l : List (K × V))             -- the loop `for k in E.keys(): self[k] = E[k]` has assigned `l`
  -- the call raised before it touched anything (unhashable key, an argument that is not iterable, too many
  -- arguments): the first statement that looks at the argument is the one that raises
  | rejected
  | copyToT      -- t = s.copy() / copy.copy(s) / copy.deepcopy(s) / pickle round trip
  | copyToS      -- s = the same
  | swap

structure HState (K V : Type) where
  s : OMD K V
  t : OMD K V

variable {K V : Type} [DecidableEq K]

def HArg.resolve (st : HState K V) : HArg K V → Arg K V
  | .self => .self
  | .regT => .omd st.t
  | .fresh l => .omd (OMD.fromPairs l)
  | .mapping m => .mapping m
  | .pairs l => .pairs l

/-- the argument of the constructor: `cls(s)` gets `s` as an OMD that is not the new object -/
def HArg.resolveNew (st : HState K V) : HArg K V → Arg K V
  | .self => .omd st.s
  | E => E.resolve st

def HState.withS (st : HState K V) (r : OMD K V × Out K V) : HState K V × Out K V :=
  (⟨r.1, st.t⟩, r.2)

def hstep (st : HState K V) : HOp K V → HState K V × Out K V
  | .new E F => st.withS (OMD.new (E.map (HArg.resolveNew st)) F)
  | .add k v => (⟨st.s.add k v, st.t⟩, .unit)
  | .addlist k vs => (⟨st.s.addlist k vs, st.t⟩, .unit)
  | .setitem k v => (⟨st.s.setitem k v, st.t⟩, .unit)
  | .delitem k => st.withS (st.s.delitem k)
  | .update E F => (⟨st.s.update (E.resolve st) F, st.t⟩, .unit)
  | .updateExtend E F => st.withS (st.s.updateExtend (E.resolve st) F)
  | .setdefault k v => st.withS (st.s.setdefault k v)
  | .pop k d => st.withS (st.s.pop k d)
  | .popall k d => st.withS (st.s.popall k d)
  | .poplast k d => st.withS (st.s.poplast k d)
  | .popitem => st.withS st.s.popitem
  | .clear => (⟨OMD.empty, st.t⟩, .unit)
  | .addlistAbort _ _ => (st, .abort)
  | .updateAbort l => (⟨st.s.updPairs [] l, st.t⟩, .abort)
  | .updateExtendAbort l => (⟨st.s.addAll l, st.t⟩, .abort)
  | .updateMapAbort l => (⟨st.s.setAll l, st.t⟩, .abort)
  | .rejected => (st, .abort)
  | .copyToT => (⟨st.s, st.s.copy⟩, .unit)
  | .copyToS => (⟨st.s.copy, st.t⟩, .unit)
  | .swap => (⟨st.t, st.s⟩, .unit)

def HState.init : HState K V := ⟨OMD.empty, OMD.empty⟩

/-- run a history, collecting the state and the return value after every step -/
def hrun (st : HState K V) : List (HOp K V) → List (HState K V × Out K V)
  | [] => []
  | op :: ops => let r := hstep st op; r :: hrun r.1 ops

end C01
