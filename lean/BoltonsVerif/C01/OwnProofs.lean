import BoltonsVerif.C01.Own
import BoltonsVerif.C01.Proofs
/-
C01 — proofs for the ownership layer (`Own.lean`): the separation invariant `Sep` is kept by every
operation, the dereferenced storage moves exactly as the `vals` component of the model's operations,
and nothing the caller does to the list objects it holds can be seen through the dictionary.
-/
namespace C01
variable {K V : Type} [DecidableEq K]

/-- the storage `d` read through a heap -/
def deref (heap : List (Nat × List V)) (d : List (K × Nat)) : List (K × List V) :=
  d.map fun kv => (kv.1, (dget kv.2 heap).getD [])

def oidsOf (d : List (K × Nat)) : List Nat := d.map (·.2)

theorem Own.vals_eq (o : Own K V) : o.vals = deref o.heap o.d := rfl
theorem Own.ids_eq (o : Own K V) : o.ids = oidsOf o.d := rfl

theorem dget_deref (heap : List (Nat × List V)) (d : List (K × Nat)) (k : K) :
    dget k (deref heap d) = (dget k d).map fun i => (dget i heap).getD [] := by
  induction d with
  | nil => rfl
  | cons p r ih =>
    simp only [deref, List.map_cons, dget] at *
    split <;> simp_all

theorem mem_ids_of_dget {d : List (K × Nat)} {k : K} {i : Nat} (h : dget k d = some i) : i ∈ oidsOf d := by
  induction d with
  | nil => simp [dget] at h
  | cons p r ih =>
    simp only [dget] at h
    split at h
    · simp only [Option.some.injEq] at h; subst h; simp [oidsOf]
    · have := ih h; simp only [oidsOf, List.map_cons, List.mem_cons] at this ⊢; exact Or.inr this

/-- frame: writing a list object the dict does not refer to changes nothing it reads -/
theorem deref_frame (heap : List (Nat × List V)) (d : List (K × Nat)) (i : Nat) (x : List V)
    (h : i ∉ oidsOf d) : deref (dset i x heap) d = deref heap d := by
  induction d with
  | nil => rfl
  | cons p r ih =>
    simp only [oidsOf, List.map_cons, List.mem_cons, not_or] at h
    have := ih (by simpa [oidsOf] using h.2)
    simp only [deref, List.map_cons] at this ⊢
    rw [this, dget_dset]
    have : ¬ p.2 = i := fun e => h.1 e.symm
    simp [this]

/-- in-place change of the list stored under `k` -/
theorem deref_write (heap : List (Nat × List V)) (d : List (K × Nat)) (k : K) (i : Nat) (x : List V)
    (hn : (oidsOf d).Nodup) (hk : dget k d = some i) :
    deref (dset i x heap) d = dset k x (deref heap d) := by
  induction d with
  | nil => simp [dget] at hk
  | cons p r ih =>
    simp only [oidsOf, List.map_cons, List.nodup_cons] at hn
    simp only [dget] at hk
    by_cases e : p.1 = k
    · simp only [e, ↓reduceIte, Option.some.injEq] at hk
      have hr := deref_frame heap r i x (by simpa [oidsOf, hk] using hn.1)
      simp only [deref, List.map_cons, dset] at hr ⊢
      rw [hr, dget_dset]
      simp [e, hk]
    · simp only [e, ↓reduceIte] at hk
      have hi := mem_ids_of_dget hk
      have hne : ¬ p.2 = i := fun e' => hn.1 (by simpa [oidsOf, e'] using hi)
      have := ih (by simpa [oidsOf] using hn.2) hk
      simp only [deref, List.map_cons, dset] at this ⊢
      rw [this, dget_dset]
      simp [e, hne]

/-- a NEW list object `j` stored under `k` -/
theorem deref_store (heap : List (Nat × List V)) (d : List (K × Nat)) (k : K) (j : Nat) (x : List V)
    (hj : j ∉ oidsOf d) : deref (dset j x heap) (dset k j d) = dset k x (deref heap d) := by
  induction d with
  | nil => simp [deref, dset, dget_dset]
  | cons p r ih =>
    simp only [oidsOf, List.map_cons, List.mem_cons, not_or] at hj
    by_cases e : p.1 = k
    · have hr := deref_frame heap r j x (by simpa [oidsOf] using hj.2)
      simp only [deref, dset, e, ↓reduceIte, List.map_cons] at hr ⊢
      rw [hr, dget_dset]; simp
    · have := ih (by simpa [oidsOf] using hj.2)
      have hne : ¬ p.2 = j := fun e' => hj.1 e'.symm
      simp only [deref, dset, e, ↓reduceIte, List.map_cons] at this ⊢
      rw [this, dget_dset]; simp [hne]

theorem deref_ddel (heap : List (Nat × List V)) (d : List (K × Nat)) (k : K) :
    deref heap (ddel k d) = ddel k (deref heap d) := by
  induction d with
  | nil => rfl
  | cons p r ih =>
    simp only [deref, ddel, List.filter_cons, notK, List.map_cons] at ih ⊢
    by_cases e : p.1 = k <;> simp [e, ih]

theorem ids_dset (d : List (K × Nat)) (k : K) (j : Nat) :
    ∀ i ∈ oidsOf (dset k j d), i = j ∨ i ∈ oidsOf d := by
  induction d with
  | nil => simp [dset, oidsOf]
  | cons p r ih =>
    intro i hi
    simp only [dset] at hi
    split at hi
    · simp only [oidsOf, List.map_cons, List.mem_cons] at hi ⊢
      rcases hi with h | h
      · exact Or.inl h
      · exact Or.inr (Or.inr h)
    · simp only [oidsOf, List.map_cons, List.mem_cons] at hi ⊢
      rcases hi with h | h
      · exact Or.inr (Or.inl h)
      · rcases ih i (by simpa [oidsOf] using h) with h' | h'
        · exact Or.inl h'
        · exact Or.inr (Or.inr (by simpa [oidsOf] using h'))

theorem nodup_ids_dset (d : List (K × Nat)) (k : K) (j : Nat) (hn : (oidsOf d).Nodup) (hj : j ∉ oidsOf d) :
    (oidsOf (dset k j d)).Nodup := by
  induction d with
  | nil => simp [dset, oidsOf]
  | cons p r ih =>
    simp only [oidsOf, List.map_cons, List.nodup_cons, List.mem_cons, not_or] at hn hj
    simp only [dset]
    split
    · simp only [oidsOf, List.map_cons, List.nodup_cons]
      exact ⟨hj.2, hn.2⟩
    · simp only [oidsOf, List.map_cons, List.nodup_cons]
      refine ⟨?_, ih (by simpa [oidsOf] using hn.2) (by simpa [oidsOf] using hj.2)⟩
      intro hp
      rcases ids_dset r k j p.2 (by simpa [oidsOf] using hp) with h | h
      · exact hj.1 h.symm
      · exact hn.1 (by simpa [oidsOf] using h)

theorem ids_ddel_sub (d : List (K × Nat)) (k : K) : ∀ i ∈ oidsOf (ddel k d), i ∈ oidsOf d := by
  intro i hi
  simp only [oidsOf, ddel, List.mem_map, List.mem_filter] at hi ⊢
  obtain ⟨p, ⟨hp, _⟩, e⟩ := hi
  exact ⟨p, hp, e⟩

theorem nodup_ids_ddel (d : List (K × Nat)) (k : K) (hn : (oidsOf d).Nodup) : (oidsOf (ddel k d)).Nodup := by
  unfold oidsOf ddel at *
  exact hn.sublist (List.Sublist.map _ List.filter_sublist)

/-- the list object stored under `k` is not referred to any more once `k` is deleted -/
theorem popped_not_in_ids (d : List (K × Nat)) (k : K) (i : Nat) (hn : (oidsOf d).Nodup) (hk : dget k d = some i) :
    i ∉ oidsOf (ddel k d) := by
  induction d with
  | nil => simp [dget] at hk
  | cons p r ih =>
    simp only [oidsOf, List.map_cons, List.nodup_cons] at hn
    simp only [dget] at hk
    by_cases e : p.1 = k
    · simp only [e, ↓reduceIte, Option.some.injEq] at hk
      intro hi
      have := ids_ddel_sub r k i (by
        simpa [ddel, List.filter_cons, notK, e, oidsOf] using hi)
      exact hn.1 (by simpa [oidsOf, hk] using this)
    · simp only [e, ↓reduceIte] at hk
      have hne : ¬ p.2 = i := fun e' => hn.1 (by simpa [oidsOf, e'] using mem_ids_of_dget hk)
      intro hi
      have hi' : i ∈ oidsOf (ddel k r) := by
        simp only [ddel, List.filter_cons, notK, e, decide_false, Bool.not_false, ↓reduceIte, oidsOf,
          List.map_cons, List.mem_cons] at hi
        rcases hi with h | h
        · exact absurd h.symm hne
        · simpa [oidsOf, ddel, notK] using h
      exact ih (by simpa [oidsOf] using hn.2) hk hi'

/-- separation: no list object is stored under two keys, none of the stored ones is held by the
    caller, every id in use is below `next` -/
structure Sep (o : Own K V) : Prop where
  nodup : o.ids.Nodup
  apart : ∀ i ∈ o.ids, i ∉ o.caller
  bound : ∀ i ∈ o.ids, i < o.next
  cbound : ∀ i ∈ o.caller, i < o.next

theorem sep_empty : Sep (Own.empty : Own K V) := ⟨by simp [Own.empty, Own.ids], by simp [Own.empty, Own.ids],
  by simp [Own.empty, Own.ids], by simp [Own.empty]⟩

theorem Sep.next_fresh {o : Own K V} (h : Sep o) : o.next ∉ oidsOf o.d := fun hi => by
  have := h.bound _ hi; omega

/-! ### `extend` (the storage part of `add` / `addlist`) -/

theorem extend_spec {o : Own K V} (h : Sep o) (k : K) (vs : List V) :
    Sep (o.extend k vs) ∧ (o.extend k vs).vals = dset k ((dget k o.vals).getD [] ++ vs) o.vals ∧
      (o.extend k vs).caller = o.caller := by
  unfold Own.extend
  cases hk : dget k o.d with
  | some i =>
    refine ⟨⟨h.nodup, h.apart, h.bound, h.cbound⟩, ?_, rfl⟩
    simp only [Own.vals_eq]
    rw [deref_write o.heap o.d k i _ h.nodup hk, dget_deref, hk]
    rfl
  | none =>
    have hf := h.next_fresh
    refine ⟨⟨nodup_ids_dset o.d k o.next h.nodup hf, ?_, ?_, ?_⟩, ?_, rfl⟩
    · intro i hi
      rcases ids_dset o.d k o.next i hi with e | e
      · subst e; intro hc; have := h.cbound _ hc; omega
      · exact h.apart i e
    · intro i hi
      rcases ids_dset o.d k o.next i hi with e | e
      · subst e; show o.next < o.next + 1; omega
      · have := h.bound i e; show i < o.next + 1; omega
    · intro i hi; have := h.cbound i hi; show i < o.next + 1; omega
    · simp only [Own.vals_eq]
      rw [deref_store o.heap o.d k o.next vs hf, dget_deref, hk]
      rfl

/-- an object allocated by the method for itself (`v = list(v)`): not stored, not the caller's -/
theorem sep_scratch {o : Own K V} (h : Sep o) (x : List V) :
    Sep (⟨o.d, dset o.next x o.heap, o.next + 1, o.caller⟩ : Own K V) ∧
    (⟨o.d, dset o.next x o.heap, o.next + 1, o.caller⟩ : Own K V).vals = o.vals ∧
    (⟨o.d, dset o.next x o.heap, o.next + 1, o.caller⟩ : Own K V).look o.next = x := by
  refine ⟨⟨h.nodup, h.apart, fun i hi => ?_, fun i hi => ?_⟩, ?_, ?_⟩
  · have := h.bound i hi; show i < o.next + 1; omega
  · have := h.cbound i hi; show i < o.next + 1; omega
  · simp only [Own.vals_eq]; exact deref_frame _ _ _ _ h.next_fresh
  · simp [Own.look, dget_dset]

theorem addlistVals_spec {o : Own K V} (h : Sep o) (k : K) (vs : List V) :
    Sep (o.addlistVals k vs) ∧
    (o.addlistVals k vs).vals = (if vs.isEmpty then o.vals else dset k ((dget k o.vals).getD [] ++ vs) o.vals) ∧
    (o.addlistVals k vs).caller = o.caller := by
  unfold Own.addlistVals
  split
  · exact ⟨h, rfl, rfl⟩
  · obtain ⟨s1, v1, l1⟩ := sep_scratch h vs
    obtain ⟨s2, v2, c2⟩ := extend_spec s1 k
      ((⟨o.d, dset o.next vs o.heap, o.next + 1, o.caller⟩ : Own K V).look o.next)
    refine ⟨s2, ?_, c2⟩
    rw [v2, v1, l1]

theorem addlistFrom_spec {o : Own K V} (h : Sep o) (k : K) (a : Nat) :
    Sep (o.addlistFrom k a) ∧
    (o.addlistFrom k a).vals =
      (if (o.look a).isEmpty then o.vals else dset k ((dget k o.vals).getD [] ++ o.look a) o.vals) ∧
    (o.addlistFrom k a).caller = o.caller := addlistVals_spec h k (o.look a)

/-! ### `__setitem__`, `__delitem__`, `popall`, `poplast`, `clear` -/

theorem setitem_spec {o : Own K V} (h : Sep o) (k : K) (v : V) :
    Sep (o.setitem k v) ∧ (o.setitem k v).vals = dset k [v] o.vals ∧ (o.setitem k v).caller = o.caller := by
  have hf := h.next_fresh
  refine ⟨⟨nodup_ids_dset o.d k o.next h.nodup hf, ?_, ?_, ?_⟩, ?_, rfl⟩
  · intro i hi
    rcases ids_dset o.d k o.next i hi with e | e
    · subst e; intro hc; have := h.cbound _ hc; omega
    · exact h.apart i e
  · intro i hi
    rcases ids_dset o.d k o.next i hi with e | e
    · subst e; show o.next < o.next + 1; omega
    · have := h.bound i e; show i < o.next + 1; omega
  · intro i hi; have := h.cbound i hi; show i < o.next + 1; omega
  · simp only [Own.vals_eq]; exact deref_store o.heap o.d k o.next [v] hf

theorem delKey_spec {o : Own K V} (h : Sep o) (k : K) :
    Sep (o.delKey k) ∧ (o.delKey k).vals = ddel k o.vals ∧ (o.delKey k).caller = o.caller :=
  ⟨⟨nodup_ids_ddel o.d k h.nodup, fun i hi => h.apart i (ids_ddel_sub o.d k i hi),
    fun i hi => h.bound i (ids_ddel_sub o.d k i hi), h.cbound⟩, deref_ddel _ _ _, rfl⟩

theorem ddel_absent {β : Type} (k : K) (d : List (K × β)) (h : dget k d = none) : ddel k d = d := by
  induction d with
  | nil => rfl
  | cons p r ih =>
    simp only [dget] at h
    split at h
    · simp at h
    · rename_i e
      simp only [ddel, List.filter_cons, notK, e, decide_false, Bool.not_false, ↓reduceIte] at ih ⊢
      rw [ih h]

/-- `popall`: the stored object goes to the caller and is no longer referred to by the dict -/
theorem popall_spec' {o : Own K V} (h : Sep o) (k : K) :
    Sep (o.popall k).1 ∧ (o.popall k).1.vals = ddel k o.vals ∧
    (∀ i, (o.popall k).2 = some i → o.look i = (dget k o.vals).getD [] ∧ i ∉ (o.popall k).1.ids ∧ i ∈ (o.popall k).1.caller) := by
  unfold Own.popall
  cases hk : dget k o.d with
  | none =>
    have hv : dget k o.vals = none := by rw [Own.vals_eq, dget_deref, hk]; rfl
    exact ⟨h, (ddel_absent k o.vals hv).symm, by simp⟩
  | some i =>
    have hp := popped_not_in_ids o.d k i h.nodup hk
    refine ⟨⟨nodup_ids_ddel o.d k h.nodup, ?_, fun j hj => h.bound j (ids_ddel_sub o.d k j hj), ?_⟩,
      deref_ddel _ _ _, ?_⟩
    · intro j hj hc
      simp only [List.mem_cons] at hc
      rcases hc with e | e
      · subst e; exact hp hj
      · exact h.apart j (ids_ddel_sub o.d k j hj) e
    · intro j hj
      simp only [List.mem_cons] at hj
      rcases hj with e | e
      · subst e; exact h.bound _ (mem_ids_of_dget hk)
      · exact h.cbound j e
    · intro j hj
      simp only [Option.some.injEq] at hj; subst hj
      refine ⟨?_, hp, by simp⟩
      rw [Own.vals_eq, dget_deref, hk]; rfl

theorem poplast_spec' {o : Own K V} (h : Sep o) (k : K) :
    Sep (o.poplast k) ∧ (o.poplast k).caller = o.caller ∧
    (o.poplast k).vals = (match dget k o.vals with
      | none => o.vals
      | some vs => if vs.dropLast.isEmpty then ddel k o.vals else dset k vs.dropLast o.vals) := by
  unfold Own.poplast
  cases hk : dget k o.d with
  | none =>
    refine ⟨h, rfl, ?_⟩
    rw [Own.vals_eq, dget_deref, hk]; rfl
  | some i =>
    have hv : dget k o.vals = some (o.look i) := by rw [Own.vals_eq, dget_deref, hk]; rfl
    simp only [hv]
    split
    · refine ⟨⟨nodup_ids_ddel o.d k h.nodup, fun j hj => h.apart j (ids_ddel_sub o.d k j hj),
        fun j hj => h.bound j (ids_ddel_sub o.d k j hj), h.cbound⟩, rfl, ?_⟩
      simp only [Own.vals_eq]
      rw [deref_frame _ _ _ _ (popped_not_in_ids o.d k i h.nodup hk)]
      exact deref_ddel _ _ _
    · refine ⟨⟨h.nodup, h.apart, h.bound, h.cbound⟩, rfl, ?_⟩
      simp only [Own.vals_eq]
      exact deref_write o.heap o.d k i _ h.nodup hk

theorem clear_spec' {o : Own K V} (h : Sep o) : Sep o.clear ∧ o.clear.vals = [] :=
  ⟨⟨by simp [Own.clear, Own.ids], by simp [Own.clear, Own.ids], by simp [Own.clear, Own.ids], h.cbound⟩, rfl⟩

/-! ### what the caller gets and what the caller does -/

/-- a new list object for the caller (`getlist`, or a list the caller makes itself) -/
theorem sep_handout {o : Own K V} (h : Sep o) (x : List V) :
    Sep (⟨o.d, dset o.next x o.heap, o.next + 1, o.next :: o.caller⟩ : Own K V) ∧
    (⟨o.d, dset o.next x o.heap, o.next + 1, o.next :: o.caller⟩ : Own K V).vals = o.vals := by
  refine ⟨⟨h.nodup, fun i hi hc => ?_, fun i hi => ?_, fun i hi => ?_⟩, ?_⟩
  · simp only [List.mem_cons] at hc
    rcases hc with e | e
    · subst e; exact h.next_fresh hi
    · exact h.apart i hi e
  · have := h.bound i hi; show i < o.next + 1; omega
  · simp only [List.mem_cons] at hi
    rcases hi with e | e
    · subst e; show o.next < o.next + 1; omega
    · have := h.cbound i e; show i < o.next + 1; omega
  · simp only [Own.vals_eq]; exact deref_frame _ _ _ _ h.next_fresh

theorem getlist_spec' {o : Own K V} (h : Sep o) (k : K) :
    Sep (o.getlist k).1 ∧ (o.getlist k).1.vals = o.vals ∧
    (o.getlist k).1.look (o.getlist k).2 = (dget k o.vals).getD [] ∧
    (o.getlist k).2 ∉ (o.getlist k).1.ids ∧ (o.getlist k).2 ∈ (o.getlist k).1.caller := by
  obtain ⟨s, v⟩ := sep_handout h ((dget k o.d).map o.look |>.getD [])
  refine ⟨s, v, ?_, h.next_fresh, by simp [Own.getlist]⟩
  simp only [Own.getlist, Own.look, dget_dset, ↓reduceIte, Option.getD_some]
  rw [Own.vals_eq, dget_deref]
  cases dget k o.d <;> rfl

theorem todictM_spec' {o : Own K V} (h : Sep o) (ks : List K) :
    Sep (o.todictM ks) ∧ (o.todictM ks).vals = o.vals := by
  induction ks generalizing o with
  | nil => exact ⟨h, rfl⟩
  | cons k r ih =>
    obtain ⟨s, v, _⟩ := getlist_spec' h k
    obtain ⟨s2, v2⟩ := ih s
    exact ⟨s2, by rw [Own.todictM, v2, v]⟩

/-- THE point of the layer: whatever the caller writes into whichever list object it holds - lists it
    handed in to `addlist`, lists it got back from `getlist` / `todict(multi=True)` / `popall` - the
    dictionary's storage reads as before -/
theorem callerWrite_spec {o : Own K V} (h : Sep o) (i : Nat) (vs : List V) :
    Sep (o.callerWrite i vs) ∧ (o.callerWrite i vs).vals = o.vals := by
  unfold Own.callerWrite
  split
  · rename_i hc
    refine ⟨⟨h.nodup, h.apart, h.bound, h.cbound⟩, ?_⟩
    simp only [Own.vals_eq]
    exact deref_frame _ _ _ _ (fun hi => h.apart i hi hc)
  · exact ⟨h, rfl⟩

/-! ### histories -/

theorem ownStep_spec {o : Own K V} (h : Sep o) (op : OwnOp K V) :
    Sep (ownStep o op) ∧ (ownStep o op).vals = valsStep o o.vals op := by
  cases op with
  | add k v => exact ⟨(extend_spec h k [v]).1, (extend_spec h k [v]).2.1⟩
  | addlistFrom k a =>
    simp only [ownStep, valsStep]
    split
    · exact ⟨(addlistFrom_spec h k a).1, (addlistFrom_spec h k a).2.1⟩
    · exact ⟨h, rfl⟩
  | addlistVals k vs => exact ⟨(addlistVals_spec h k vs).1, (addlistVals_spec h k vs).2.1⟩
  | setitem k v => exact ⟨(setitem_spec h k v).1, (setitem_spec h k v).2.1⟩
  | delKey k => exact ⟨(delKey_spec h k).1, (delKey_spec h k).2.1⟩
  | popall k => exact ⟨(popall_spec' h k).1, (popall_spec' h k).2.1⟩
  | poplast k => exact ⟨(poplast_spec' h k).1, (poplast_spec' h k).2.2⟩
  | getlist k => exact ⟨(getlist_spec' h k).1, (getlist_spec' h k).2.1⟩
  | todictM ks => exact todictM_spec' h ks
  | clear => exact clear_spec' h
  | callerNew vs => exact sep_handout h vs
  | callerWrite i vs => exact callerWrite_spec h i vs

theorem ownRun_sep (o : Own K V) (h : Sep o) (ops : List (OwnOp K V)) : Sep (ownRun o ops) := by
  induction ops generalizing o with
  | nil => exact h
  | cons op r ih => exact ih _ (ownStep_spec h op).1

end C01
