import BoltonsVerif.C01.PtrProofs
/-
C01 — generators paused while the dictionary changes (pointer level).  A generator of `iteritems(multi=True)` /
`iterkeys(multi=True)` / `itervalues(multi=True)` holds one reference, `curr`, into the heap of cells and follows `NEXT`
until it meets `root`.  The dictionary may change between two `next()` calls; what the generator yields afterwards follows
from the pointer assignments of `_insert` and of the unlinking statement alone.
-/
namespace C01
variable {K V : Type} [DecidableEq K]

/-- the walk from a cell of the chain reads the rest of the chain -/
theorem walk_from_linked (n : Ptrs) (A B : List Nat) (c fuel : Nat) (hf : Fwd n 0 (A ++ c :: B) 0)
    (h0 : 0 ∉ A ++ c :: B) (hl : B.length + 1 < fuel + 1) : walk n (fuel + 1) c = c :: B := by
  have hs := (fwd_split n 0 0 c A B).mp hf
  have hc : c ≠ 0 := fun e => h0 (by simp [e])
  have hB : (0 : Nat) ∉ B := fun hm => h0 (by simp [hm])
  simp only [walk, hc, ↓reduceIte]
  rw [walk_fwd n B c fuel hs.2 hB (by omega)]

/-- a cell that has just been unlinked keeps its own `NEXT`: the walk from it still reads the cells that came after it -/
theorem walk_from_unlinked {n p : Ptrs} {A B : List Nat} {c : Nat} (h : Shape n p (A ++ c :: B)) (fuel : Nat)
    (hl : B.length + 1 < fuel + 1) : walk (unlinkP c (n, p)).1 (fuel + 1) c = c :: B := by
  have h0 : (0 : Nat) ∉ A ++ c :: B := (List.nodup_cons.mp h.nodup).1
  have hc : c ≠ 0 := fun e => h0 (by simp [e])
  have hs := (fwd_split n 0 0 c A B).mp h.fwd
  have hnext : look (unlinkP c (n, p)).1 c = look n c := by
    simp only [unlinkP, look_dset]; split <;> rfl
  have hs' := shape_unlink h
  simp only [walk, hc, ↓reduceIte, hnext]
  congr 1
  cases B with
  | nil =>
    have : look n c = 0 := hs.2
    rw [this]; cases fuel <;> simp [walk]
  | cons b B' =>
    have hb : look n c = b := hs.2.1
    rw [hb]
    cases fuel with
    | zero => simp at hl
    | succ f =>
      have h0' : (0 : Nat) ∉ A ++ b :: B' := (List.nodup_cons.mp hs'.nodup).1
      exact walk_from_linked _ A B' b f hs'.fwd h0' (by simp at hl ⊢; omega)

/-- what a generator that is paused with `curr` = cell `cur` (`0` = `root`: exhausted) will still visit -/
def PL.rest (l : PL K V) (cur : Nat) : List Nat := walk l.nxt l.fresh cur

/-- a new generator starts at `root[NEXT]` and visits every cell -/
theorem rest_fresh (l : PL K V) : l.rest (look l.nxt 0) = l.ids := rfl

theorem rest_of_linked {l : PL K V} {A B : List Nat} {c : Nat} (h : PShape l (A ++ c :: B)) : l.rest c = c :: B := by
  have hlen := h.len
  simp only [List.length_append, List.length_cons] at hlen
  unfold PL.rest
  cases hfr : l.fresh with
  | zero => omega
  | succ f => exact walk_from_linked l.nxt A B c f h.shape.fwd h.zero_not_mem (by omega)

theorem ids_insert {l : PL K V} (h : PInv l) (k : K) (v : V) : (l.insert k v).ids = l.ids ++ [l.fresh] := by
  have hi := pinsert_spec h k v
  rw [← ids_of_cells hi.1, hi.2, ← ids_of_cells h]
  simp [LL.insert, PL.abs]

end C01
