import BoltonsVerif.C01.Proofs
namespace C01
theorem placeholder_true : True := trivial
end C01
