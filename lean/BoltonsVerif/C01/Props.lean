import BoltonsVerif.C01.Proofs
import BoltonsVerif.C01.ConcreteProofs
import BoltonsVerif.C01.OwnProofs
import BoltonsVerif.C01.OwnCompound
import BoltonsVerif.C01.Natural
import BoltonsVerif.C01.KeyNatural
import BoltonsVerif.C01.Iter
import BoltonsVerif.Generated.C01_Effects
/-
C01 — property theorems for the OrderedMultiDict model (statements, short derivations from
`Proofs.lean`, non-vacuity examples).

  model   `OMD K V` = the dict of per-key value lists (`vals`) + the linked list of cells (`cells`),
          every public method transliterated (`Model.lean`);
  concrete layer  `OMD3 K V` = the dict + the pointer-level linked list `PL` (heap of cells
          `[PREV, NEXT, KEY, VALUE]` with object identities, `root` = 0, `Ptr.lean`) + the per-key
          cell index `_map`, the helpers `_insert` / `_remove` / `_remove_all` / `_clear_ll` with
          their pointer assignments, and every public mutator written in terms of them
          (`Concrete.lean`).  `PL.abs` reads the heap back as a list of identified cells (`LL.lean`),
          `OMD3.abs` forgets the heap and `_map`;
  spec    a plain `List (K × V)` with one-line operations (`Spec.lean`);
  `Inv`   the dict holds for every key exactly the values of its cells, in cell order, no empty
          lists, unique keys;
  `absH`  forgets the dict: a history state is abstracted to its two cell lists.

Histories (`HOp`) run on two registers so that OMD-valued arguments, copies and comparison
partners are themselves products of arbitrary histories.  `K`, `V` are arbitrary types with
decidable equality on keys: nothing depends on a bound on keys, values, sizes or history length.
-/
namespace C01
open Spec
variable {K V : Type} [DecidableEq K]

/-! ## the two structures move in lock-step -/

/-- a fresh dictionary satisfies the invariant -/
theorem inv_init : HInv (HState.init : HState K V) := hinv_init

/-- every public mutator (with any argument that is itself a consistent OMD, a mapping, or any
    iterable of pairs) preserves the invariant -/
theorem inv_step (st : HState K V) (hi : HInv st) (op : HOp K V) : HInv (hstep st op).1 :=
  (hstep_spec st hi op).1

/-- … and is exactly the corresponding one-line operation on the plain list of pairs:
    same resulting pair list, same return value / same exception -/
theorem refines_step (st : HState K V) (hi : HInv st) (op : HOp K V) :
    absH (hstep st op).1 = (Spec.hstep (absH st) op).1 ∧ (hstep st op).2 = (Spec.hstep (absH st) op).2 :=
  (hstep_spec st hi op).2

/-- for every finite history of public operations, after every prefix: the pair list and the
    return value are those of the plain list of pairs -/
theorem refines_history (ops : List (HOp K V)) :
    (hrun (HState.init : HState K V) ops).map (fun r => (absH r.1, r.2)) =
      Spec.hrun ⟨[], []⟩ ops :=
  (hrun_spec HState.init hinv_init ops).1

/-- … and the invariant holds in every state a history reaches -/
theorem inv_history (ops : List (HOp K V)) (r : HState K V × Out K V)
    (hr : r ∈ hrun (HState.init : HState K V) ops) : HInv r.1 :=
  (hrun_spec HState.init hinv_init ops).2 r hr

/-! ## every read equals the read of the plain list (and does not raise) -/

/-- all readers of a state that satisfies the invariant, against the list-of-pairs readers.
    Keyed readers use the dict, ordered readers the cells: under `Inv` they cannot disagree. -/
structure ReadsAgree (s : OMD K V) : Prop where
  itemsM   : s.itemsM = s.cells
  keysM    : s.keysM = s.cells.map (·.1)
  valuesM  : s.valuesM = s.cells.map (·.2)
  keys     : s.keys = Spec.keys s.cells
  items    : s.items = .ok (Spec.items s.cells)
  values   : s.values = .ok (Spec.values s.cells)
  getitem  : ∀ k, s.getitem k = Spec.getitem s.cells k
  get      : ∀ k, s.get k = .ok (Spec.last k s.cells)
  getlist  : ∀ k, s.getlist k = Spec.valsOf k s.cells
  contains : ∀ k, s.contains k = Spec.has k s.cells
  len      : s.len = Spec.len s.cells
  bool     : s.bool = !s.cells.isEmpty
  iter     : s.iter = Spec.keys s.cells
  reversed : s.reversed = .ok (Spec.reversed s.cells)
  todict   : s.todict = .ok (Spec.items s.cells)
  todictM  : s.todictM = Spec.todictM s.cells
  counts   : s.counts = .ok (Spec.counts s.cells)

theorem reads_agree (s : OMD K V) (h : Inv s) : ReadsAgree s :=
  { itemsM := rfl, keysM := rfl, valuesM := rfl, keys := rfl
    items := items_spec h, values := values_spec h
    getitem := getitem_spec h, get := get_spec h, getlist := getlist_spec h
    contains := contains_spec h, len := len_spec h, reversed := reversed_spec h
    bool := by rw [OMD.bool, vals_isEmpty_iff h], iter := rfl
    todict := todict_spec h, todictM := todictM_spec h, counts := counts_spec h }

/-- after every prefix of every history all reads of both registers agree with the plain list -/
theorem reads_agree_history (ops : List (HOp K V)) (r : HState K V × Out K V)
    (hr : r ∈ hrun (HState.init : HState K V) ops) : ReadsAgree r.1.s ∧ ReadsAgree r.1.t :=
  ⟨reads_agree _ (inv_history ops r hr).s, reads_agree _ (inv_history ops r hr).t⟩

/-- "no operation leaves the mapping in a state where its reads disagree with one another or
    raise": the relations among the model's own readers, with no reference to the specification.
    They hold in every state with `Inv`, hence (by `inv_history`) after every prefix of every history. -/
theorem reads_mutually_consistent (s : OMD K V) (h : Inv s) :
    s.len = s.keys.length ∧
    (∀ k, s.contains k = true ↔ k ∈ s.keys) ∧
    (∀ k, s.contains k = true ↔ k ∈ s.keysM) ∧
    (∀ k, s.getlist k = (s.itemsM.filter (isK k)).map (·.2)) ∧
    s.keysM = s.itemsM.map (·.1) ∧ s.valuesM = s.itemsM.map (·.2) ∧
    s.reversed = .ok s.keys.reverse ∧
    (∀ k, s.contains k = false ↔ s.getitem k = .error .keyError) ∧
    (∃ l, s.items = .ok l ∧ s.values = .ok (l.map (·.2)) ∧ s.todict = .ok l ∧ l.map (·.1) = s.keys ∧
      ∀ p ∈ l, s.getitem p.1 = .ok p.2 ∧ s.get p.1 = .ok (some p.2) ∧ (s.getlist p.1).getLast? = some p.2) := by
  have r := reads_agree s h
  refine ⟨r.len, ?_, ?_, r.getlist, rfl, rfl, r.reversed, ?_, ?_⟩
  · intro k; rw [r.contains, has_iff, r.keys]; exact (mem_keys _ _).symm
  · intro k; rw [r.contains, has_iff]; exact valsOf_ne_nil_iff _ _
  · intro k
    rw [r.contains, r.getitem]
    unfold Spec.getitem
    cases hl : Spec.last k s.cells with
    | none =>
      have : ¬ Spec.has k s.cells = true := fun hh => by
        have := (last_isSome_iff k s.cells).mpr ((has_iff k s.cells).mp hh); simp [hl] at this
      simp [this]
    | some v =>
      have : Spec.has k s.cells = true := (has_iff k s.cells).mpr ((last_isSome_iff k s.cells).mp (by simp [hl]))
      simp [this]
  · refine ⟨Spec.items s.cells, r.items, ?_, r.todict, ?_, ?_⟩
    · rw [r.values]; rfl
    · rw [r.keys]; exact items_fst _
    · intro p hp
      have hl := mem_items hp
      refine ⟨by rw [r.getitem]; simp [Spec.getitem, hl], by rw [r.get, hl], by rw [r.getlist]; exact hl⟩

/-- the only exception a single-key read raises is the KeyError of an absent key -/
theorem getitem_error_iff (s : OMD K V) (h : Inv s) (k : K) :
    (∃ e, s.getitem k = .error e) ↔ (s.contains k = false ∧ s.getitem k = .error .keyError) := by
  rw [getitem_spec h, contains_spec h]
  unfold Spec.getitem
  cases hl : Spec.last k s.cells with
  | none =>
    have : ¬ Spec.has k s.cells = true := fun hh => by
      have := (last_isSome_iff k s.cells).mpr ((has_iff k s.cells).mp hh); simp [hl] at this
    simp [this]
  | some v => simp

/-! ## what the list readers mean -/

/-- `keys()` lists every key once … -/
theorem keys_nodup (L : List (K × V)) : (Spec.keys L).Nodup := nodup_dedup _

/-- … exactly the keys that have a pair … -/
theorem mem_keys_iff (L : List (K × V)) (k : K) : k ∈ Spec.keys L ↔ k ∈ L.map (·.1) := mem_dedup _ k

/-- … in order of first appearance: appending a pair adds its key at the end iff it is new -/
theorem keys_append_pair (L : List (K × V)) (k : K) (v : V) :
    Spec.keys (L ++ [(k, v)]) = if k ∈ L.map (·.1) then Spec.keys L else Spec.keys L ++ [k] := by
  simp [Spec.keys, dedup_concat]

/-- single-value reads see the key's most recent pair -/
theorem last_append_pair (L : List (K × V)) (k k' : K) (v : V) :
    Spec.last k' (L ++ [(k, v)]) = if k = k' then some v else Spec.last k' L := by
  by_cases e : k = k'
  · subst e; simp [last_concat]
  · simp [Spec.last, valsOf_append, valsOf_single, e]

/-- assignment replaces all of a key's pairs by one pair at the end -/
theorem setitem_valsOf (L : List (K × V)) (k k' : K) (v : V) :
    Spec.valsOf k' (Spec.setitem L k v) = if k' = k then [v] else Spec.valsOf k' L := by
  simp only [Spec.setitem, Spec.remove, valsOf_append, valsOf_remove, valsOf_single]
  by_cases e : k' = k
  · subst e; simp
  · have : ¬ k = k' := fun e' => e e'.symm
    simp [e, this]

/-- `update` with pairs (or another OMD) replaces all pairs of every key it mentions and keeps
    every pair it brings, duplicates included -/
theorem update_pairs_valsOf (L l : List (K × V)) (k : K) :
    Spec.valsOf k (Spec.update L (.pairs l) []) =
      if k ∈ l.map (·.1) then Spec.valsOf k l else Spec.valsOf k L := by
  simp only [Spec.update, Spec.setAll, List.foldl_nil, Spec.replaceBy, valsOf_append]
  by_cases hk : k ∈ l.map (·.1)
  · have : Spec.valsOf k (L.filter fun p => !decide (p.1 ∈ l.map (·.1))) = [] := by
      by_cases e : Spec.valsOf k (L.filter fun p => !decide (p.1 ∈ l.map (·.1))) = []
      · exact e
      · have := (valsOf_ne_nil_iff _ _).mp e
        obtain ⟨p, hp, rfl⟩ := List.mem_map.mp this
        have hp2 := (List.mem_filter.mp hp).2
        simp only [Bool.not_eq_eq_eq_not, Bool.not_true, decide_eq_false_iff_not] at hp2
        exact absurd hk hp2
    simp [hk, this]
  · have h1 : Spec.valsOf k l = [] := by
      by_cases e : Spec.valsOf k l = []
      · exact e
      · exact absurd ((valsOf_ne_nil_iff _ _).mp e) hk
    simp only [hk, ↓reduceIte, h1, List.append_nil]
    unfold Spec.valsOf
    rw [List.filter_filter]
    congr 1
    apply List.filter_congr
    intro p _
    by_cases e : p.1 = k
    · subst e; simp [isK, hk]
    · simp [isK, e]

/-- `update` with a mapping (assignment key after key) has the same closed form -/
theorem update_mapping_eq (L m : List (K × V)) (hm : (dkeys m).Nodup) :
    Spec.update L (.mapping m) [] = Spec.replaceBy L m := by
  simp only [Spec.update, Spec.setAll, List.foldl_nil]
  exact setAll_eq_replaceBy L m hm

/-- an operation that raises leaves both pair lists as they were (and, by `inv_step`, every
    read still agrees with them) -/
theorem failed_op_changes_nothing (st : HState K V) (hi : HInv st) (op : HOp K V) (e : Err)
    (h : (hstep st op).2 = .err e) : absH (hstep st op).1 = absH st := by
  obtain ⟨h1, h2⟩ := refines_step st hi op
  rw [h1]
  exact spec_err_unchanged (absH st) op e (by rw [← h2]; exact h)


/-! ## the pointer level: the heap of cells, `root`, `NEXT` / `PREV` -/

/-- in a well-formed heap the walk along `NEXT` from `root` (what `iteritems` / `iterkeys` follow)
    and the walk along `PREV` (what `__reversed__` follows) meet the same cells, in opposite
    orders, and `root[PREV][KEY]` (what `poplast()` / `popitem()` read) is the key of the last pair -/
theorem heap_walks_agree (l : PL K V) (h : PInv l) :
    l.idsBack = l.ids.reverse ∧ l.abs.cells.map (·.id) = l.ids ∧ l.lastKey = l.flat.getLast?.map (·.1) :=
  ⟨h.shape.idsBack_eq, ids_of_cells h, plastKey_eq h⟩

/-- `_insert`: `last = root[PREV]; cell = [last, root, k, v]; last[NEXT] = root[PREV] = cell`
    keeps the heap well formed and appends exactly one cell (a new object) to what the walk reads -/
theorem heap_insert (l : PL K V) (h : PInv l) (k : K) (v : V) :
    PInv (l.insert k v) ∧ (l.insert k v).abs = l.abs.insert k v := pinsert_spec h k v

/-- `_remove` / `_remove_all`: the unlinking assignment
    `cell[PREV][NEXT], cell[NEXT][PREV] = cell[NEXT], cell[PREV]` takes exactly the cells named by
    `_map[k]` (the last one / all of them) out of what the walk reads; same exceptions -/
theorem heap_remove (l : PL K V) (h : PInv l) (k : K) :
    (∀ l', l.remove k = .ok l' → l.abs.remove k = .ok l'.abs ∧ PInv l') ∧
    (∀ e, l.remove k = .error e → l.abs.remove k = .error e) ∧
    (∀ l', l.removeAll k = .ok l' → l.abs.removeAll k = .ok l'.abs ∧ PInv l') ∧
    (∀ e, l.removeAll k = .error e → l.abs.removeAll k = .error e) := by
  obtain ⟨a1, a2⟩ := premove_abs h k
  obtain ⟨b1, b2⟩ := premoveAll_abs h k
  have r1 := premove_spec h k
  have r2 := premoveAll_spec h k
  refine ⟨fun l' hl => ⟨(a1 l' hl).1, ?_⟩, a2, fun l' hl => ⟨(b1 l' hl).1, ?_⟩, b2⟩
  · split at r1
    · obtain ⟨l'', e, i, _⟩ := r1; rw [hl] at e; cases e; exact i
    · rw [hl] at r1; cases r1
  · split at r2
    · obtain ⟨l'', e, i, _⟩ := r2; rw [hl] at e; cases e; exact i
    · rw [hl] at r2; cases r2

/-- `_clear_ll`: `root[:] = [root, root, None]`, `_map.clear()` -/
theorem heap_clear (l : PL K V) (h : PInv l) : PInv l.clear ∧ l.clear.abs = l.abs.clear := pclear_spec h

/-! ## the list of identified cells and the cell index `_map` -/

/-- `_insert(k, v)` appends one cell to the walk and keeps the index exact -/
theorem insert_appends_cell (l : LL K V) (h : LLInv l) (k : K) (v : V) :
    LLInv (l.insert k v) ∧ (l.insert k v).flat = l.flat ++ [(k, v)] :=
  ⟨llinv_insert h k v, flat_insert l k v⟩

/-- `_remove(k)`: KeyError exactly when the key has no cell (never an IndexError from an emptied
    `_map` entry); otherwise exactly the LAST cell of the key leaves the walk, index still exact -/
theorem remove_unlinks_last_cell_of_key (l : LL K V) (h : LLInv l) (k : K) :
    if l.flat.any (isK k) = true then
      ∃ l', l.remove k = .ok l' ∧ LLInv l' ∧ l'.flat = rmLast k l.flat
    else l.remove k = .error .keyError := remove_spec h k

/-- `_remove_all(k)`: KeyError exactly when the key has no cell; otherwise every cell of the key
    leaves the walk and the key leaves the index -/
theorem removeAll_unlinks_every_cell_of_key (l : LL K V) (h : LLInv l) (k : K) :
    if l.flat.any (isK k) = true then
      ∃ l', l.removeAll k = .ok l' ∧ LLInv l' ∧ l'.flat = l.flat.filter (notK k)
    else l.removeAll k = .error .keyError := removeAll_spec h k

/-- `__reversed__`, which walks the `PREV` pointers, reads what the model's `reversed` reads from the
    reversed pair list (and so, by `reads_agree`, yields `keys()` reversed) -/
theorem reversed_walks_prev (s : OMD3 K V) (h : Inv3 s) :
    s.reversed = s.abs.reversed ∧ s.reversed = .ok (Spec.reversed s.abs.cells) :=
  ⟨reversed3_spec h, by rw [reversed3_spec h]; exact reversed_spec h.inv⟩

/-- one step of any public operation on the concrete layer is the step of the two-structure model
    on its abstraction: same pairs, same dict, same return value or exception; the three
    structures stay consistent -/
theorem concrete_step (st : HState3 K V) (hi : HInv3 st) (op : HOp K V) :
    HInv3 (hstep3 st op).1 ∧ (hstep3 st op).1.abs = (hstep st.abs op).1 ∧
      (hstep3 st op).2 = (hstep st.abs op).2 := hstep3_spec st hi op

/-- for every history, after every prefix: the concrete layer (dict + identified cells + `_map`)
    shows the pairs and returns the values of the plain list of pairs -/
theorem concrete_refines_history (ops : List (HOp K V)) :
    (hrun3 (HState3.init : HState3 K V) ops).map (fun r => (absH r.1.abs, r.2)) = Spec.hrun ⟨[], []⟩ ops := by
  have h3 := (hrun3_spec (HState3.init : HState3 K V) hinv3_init ops).1
  have h2 := refines_history (K := K) (V := V) ops
  have : (HState3.init : HState3 K V).abs = HState.init := rfl
  rw [this] at h3
  rw [← h2, ← h3, List.map_map]
  rfl

/-- … and in every state a history reaches, the heap is a well-formed circular doubly linked list
    through `root`, `_map[k]` is exactly the list of the cells of key `k` (in link order, by
    identity; no entry without cells), cell identities are distinct, and the dict holds the values
    of those cells -/
theorem index_exact_history (ops : List (HOp K V)) (r : HState3 K V × Out K V)
    (hr : r ∈ hrun3 (HState3.init : HState3 K V) ops) : HInv3 r.1 :=
  (hrun3_spec HState3.init hinv3_init ops).2 r hr

/-- in a consistent state the guarded helper calls of the public methods never raise on their own:
    `_remove_all(k)` succeeds for every key of the dict, and `_remove(k)` raises KeyError exactly
    for the keys that are not in the dict (this is `poplast`'s "missing key" path) -/
theorem helpers_raise_only_for_missing_keys (s : OMD3 K V) (h : Inv3 s) (k : K) :
    (dhas k s.vals = true → (∃ l, s.ll.removeAll k = .ok l) ∧ (∃ l, s.ll.remove k = .ok l)) ∧
    (dhas k s.vals = false → s.ll.remove k = .error .keyError ∧ s.ll.removeAll k = .error .keyError) := by
  have h1 := premoveAll_spec h.ll k
  have h2 := premove_spec h.ll k
  rw [← h.dhas_eq] at h1 h2
  constructor
  · intro hd
    simp only [hd, ↓reduceIte] at h1 h2
    obtain ⟨l1, e1, _⟩ := h1
    obtain ⟨l2, e2, _⟩ := h2
    exact ⟨⟨l1, e1⟩, ⟨l2, e2⟩⟩
  · intro hd
    simp only [hd, Bool.false_eq_true, ↓reduceIte] at h1 h2
    exact ⟨h2, h1⟩

/-! ## arguments that raise half way -/

/-- an argument iterable that raises after yielding `l`: `update` has then taken over exactly `l`
    (as if `update(l)` had been called), `update_extend` has appended exactly `l`, `addlist`
    (which materialises its argument first) has changed nothing; the iterable's exception
    propagates, and by `inv_step` / `refines_step` the dictionary is consistent afterwards -/
theorem aborted_argument (st : HState K V) (k : K) (vs : List V) (l : List (K × V)) :
    hstep st (.addlistAbort k vs) = (st, .abort) ∧
    hstep st (.updateAbort l) = ((hstep st (.update (.pairs l) [])).1, .abort) ∧
    hstep st (.updateExtendAbort l) = ((hstep st (.updateExtend (.pairs l) [])).1, .abort) := by
  refine ⟨rfl, ?_, ?_⟩
  · simp [hstep, OMD.update, OMD.setAll, HArg.resolve]
  · simp [hstep, OMD.updateExtend, OMD.addAll, HState.withS, HArg.resolve]

/-- a mapping argument whose `keys()` / `__getitem__` raises after delivering the items `l`: `update` has
    then assigned exactly `l` (as if `update(dict(l))` had been called); a call that raises on its
    first look at the argument (unhashable key, not iterable, too many arguments) has changed nothing.
    Malformed ITEMS (not pairs, unhashable keys) in an iterable of pairs raise at the unpacking / at
    the `seen` test, before the item is looked at further: they are `updateAbort` / `updateExtendAbort`
    with the well-formed prefix. -/
theorem aborted_mapping_argument (st : HState K V) (l : List (K × V)) :
    hstep st (.updateMapAbort l) = ((hstep st (.update (.mapping l) [])).1, .abort) ∧
    hstep st .rejected = (st, .abort) := by
  refine ⟨?_, rfl⟩
  simp [hstep, OMD.update, OMD.setAll, HArg.resolve]

/-- whatever an argument does half way, the dictionary is consistent afterwards and still the plain
    list of pairs (instances of `inv_step` / `refines_step`, spelled out for the aborting operations) -/
theorem aborted_argument_consistent (st : HState K V) (hi : HInv st) (k : K) (vs : List V) (l : List (K × V)) :
    ∀ op ∈ [HOp.addlistAbort k vs, .updateAbort l, .updateExtendAbort l, .updateMapAbort l, .rejected],
      (hstep st op).2 = .abort ∧ HInv (hstep st op).1 ∧ ReadsAgree (hstep st op).1.s ∧
        absH (hstep st op).1 = (Spec.hstep (absH st) op).1 := by
  intro op hop
  refine ⟨?_, inv_step st hi op, reads_agree _ (inv_step st hi op).s, (refines_step st hi op).1⟩
  simp only [List.mem_cons, List.not_mem_nil, or_false] at hop
  rcases hop with rfl | rfl | rfl | rfl | rfl <;> rfl

/-! ## `fromkeys` and the view objects -/

/-- `fromkeys(keys, default)` is a consistent dictionary with one pair per listed key, in order
    (a key listed `n` times holds `default` `n` times); its `keys()` are the listed keys without repeats -/
theorem fromkeys_spec (ks : List K) (d : V) :
    Inv (OMD.fromkeys ks d) ∧ (OMD.fromkeys ks d).cells = ks.map (fun k => (k, d)) ∧
    (OMD.fromkeys ks d).keys = dedup ks ∧
    ∀ k, (OMD.fromkeys ks d).getlist k = List.replicate (ks.count k) d := by
  have h := fromPairs_spec (ks.map fun k => (k, d))
  refine ⟨h.1, h.2, ?_, fun k => ?_⟩
  · show dedup ((OMD.fromPairs (ks.map fun k => (k, d))).cells.map (·.1)) = dedup ks
    rw [h.2, List.map_map]; congr 1; simp [Function.comp_def]
  · show (OMD.fromPairs (ks.map fun k => (k, d))).getlist k = _
    rw [getlist_spec h.1, h.2, valsOf_mapConst]

/-- the view objects (`viewkeys()` / `viewvalues()` / `viewitems()`) hold a reference to the
    dictionary; iterating them, `len` and `in` are the readers of the dictionary's CURRENT state, so
    they equal the reads of the plain list as it is now, and never raise -/
theorem views_read_current_state [DecidableEq V] (s : OMD K V) (h : Inv s) :
    s.viewKeysIter = Spec.keys s.cells ∧ s.viewLen = Spec.len s.cells ∧
    (∀ k, s.viewKeysContains k = Spec.has k s.cells) ∧
    s.viewValuesIter = .ok (Spec.values s.cells) ∧ s.viewItemsIter = .ok (Spec.items s.cells) ∧
    (∀ k v, s.viewItemsContains k v = .ok (decide (Spec.last k s.cells = some v))) ∧
    (∀ v, s.viewValuesContains v = .ok (decide (v ∈ Spec.values s.cells))) :=
  ⟨rfl, len_spec h, contains_spec h, viewValuesIter_spec h, items_spec h, viewItemsContains_spec h,
   fun v => by simp [OMD.viewValuesContains, viewValuesIter_spec h]⟩

/-- … after every prefix of every history (a view taken at any time shows the state of the moment
    it is used) -/
theorem views_live_history [DecidableEq V] (ops : List (HOp K V)) (r : HState K V × Out K V)
    (hr : r ∈ hrun (HState.init : HState K V) ops) :
    r.1.s.viewItemsIter = .ok (Spec.items r.1.s.cells) ∧ r.1.s.viewKeysIter = Spec.keys r.1.s.cells ∧
    r.1.s.viewValuesIter = .ok (Spec.values r.1.s.cells) :=
  have h := views_read_current_state r.1.s (inv_history ops r hr).s
  ⟨h.2.2.2.2.1, h.1, h.2.2.2.1⟩

/-! ## copies -/

/-- `copy()`, `copy.copy`, `copy.deepcopy` and a pickle round trip (all: rebuild from
    `items(multi=True)`) give a consistent dictionary with the same pairs — even from a
    dictionary whose two structures had drifted apart -/
theorem copy_complete (s : OMD K V) : Inv s.copy ∧ s.copy.cells = s.cells := copy_spec s

/-- the constructor from any iterable of pairs keeps every pair, in order -/
theorem fromPairs_complete (l : List (K × V)) :
    Inv (OMD.fromPairs l) ∧ (OMD.fromPairs l : OMD K V).cells = l := fromPairs_spec l

/-! ## equality -/

/-- `omd == other_omd` is true exactly when the pair lists are equal -/
theorem eq_omd_iff [DecidableEq V] (s t : OMD K V) (hs : Inv s) (ht : Inv t) :
    s.eqOMD t = true ↔ s.cells = t.cells := eqOMD_iff hs ht

/-- `omd == mapping` never raises and is true exactly when the mapping has the same keys and, for
    each key, the value the OMD shows for it (its most recent one) -/
theorem eq_mapping_iff [DecidableEq V] (s : OMD K V) (h : Inv s) (m : List (K × V)) (hm : (dkeys m).Nodup) :
    (∃ b, s.eqMapping m = .ok b ∧ (b = true ↔ ∀ k, dget k m = Spec.last k s.cells)) :=
  ⟨_, eqMapping_spec h m, spec_eqMapping_iff s.cells m hm⟩

/-- the fix of round 3 (`selfk not in other or other[selfk] != …`) changed nothing for mappings without
    `__missing__`: there the old loop (`other[selfk]` alone) and the new one agree on every input; with a
    `__missing__` answer the old loop could say True for a mapping that lacks a key (the example below) -/
theorem eq_mapping_fix_conservative [DecidableEq V] (s : OMD K V) (m : List (K × V)) :
    s.eqMappingOld m none = s.eqMapping m := by
  unfold OMD.eqMappingOld OMD.eqMapping
  split
  · rfl
  · generalize s.keys = ks
    induction ks with
    | nil => rfl
    | cons k r ih =>
      simp only [OMD.eqMapLoopOld, OMD.eqMapLoop]
      cases dget k m with
      | none => rfl
      | some mv =>
        simp only [Option.orElse]
        rw [ih]

/-- `omd != other` is the negation of `omd == other`, for OMDs and for mappings -/
theorem ne_iff [DecidableEq V] (s t : OMD K V) (hs : Inv s) (ht : Inv t) (m : List (K × V)) :
    (s.neOMD t = true ↔ s.cells ≠ t.cells) ∧
    (∃ b, s.eqMapping m = .ok b ∧ s.neMapping m = .ok (!b)) := by
  refine ⟨?_, ?_⟩
  · have := eq_omd_iff s t hs ht
    rw [OMD.neOMD, Ne, ← this]; cases s.eqOMD t <;> simp
  · exact ⟨_, eqMapping_spec hs m, by simp [OMD.neMapping, eqMapping_spec hs m]⟩

/-- a dictionary equals its own `todict()` -/
theorem eq_todict_self [DecidableEq V] (s : OMD K V) (h : Inv s) :
    ∃ l, s.todict = .ok l ∧ s.eqMapping l = .ok true := by
  refine ⟨Spec.items s.cells, todict_spec h, ?_⟩
  rw [eqMapping_spec h]
  congr 1
  rw [spec_eqMapping_iff s.cells _ (by rw [dkeys, items_fst]; exact nodup_dedup _)]
  exact fun k => dget_items s.cells k

/-- `repr(omd)` is the class name applied to the list display of the pairs, in order, and that list
    handed to the constructor gives a dictionary equal to the original (`eval(repr(omd)) == omd` whenever the
    `repr` of the keys and values evaluates back to them) -/
theorem repr_spec [DecidableEq V] (s : OMD K V) (h : Inv s) (cn : String) (rk : K → String) (rv : V → String) :
    s.reprText cn rk rv = Spec.reprText cn rk rv s.cells ∧ (OMD.fromPairs s.itemsM).eqOMD s = true :=
  ⟨rfl, (eq_omd_iff _ s (fromPairs_spec _).1 h).mpr (fromPairs_spec _).2⟩

/-! ## derived dictionaries -/

/-- `inverted()` is a consistent dictionary holding the swapped pairs in the same order -/
theorem inverted_spec [DecidableEq V] (s : OMD K V) :
    Inv s.inverted ∧ s.inverted.cells = s.cells.map (fun p => (p.2, p.1)) := fromPairs_spec _

/-- `sorted(key, reverse)` is a consistent dictionary whose pairs are a permutation of the
    original pairs … -/
theorem sorted_perm (s : OMD K V) (le : K × V → K × V → Bool) (rev : Bool) :
    Inv (s.sorted le rev) ∧ (s.sorted le rev).cells.Perm s.cells :=
  ⟨(fromPairs_spec _).1, by rw [OMD.sorted, (fromPairs_spec _).2]; exact sortBy_perm _ _⟩

/-- … in the order of the key function (ascending, or descending with `reverse`), whenever the
    key function induces a total preorder `le` on pairs … -/
theorem sorted_sorted (s : OMD K V) (le : K × V → K × V → Bool) (rev : Bool)
    (htot : ∀ a b, le a b = true ∨ le b a = true)
    (htr : ∀ a b c, le a b = true → le b c = true → le a c = true) :
    (s.sorted le rev).cells.Pairwise (fun a b => flipIf rev le a b = true) := by
  rw [OMD.sorted, (fromPairs_spec _).2]
  exact sortBy_sorted _ (flipIf_total rev le htot) (flipIf_trans rev le htr) _

/-- … and pairs that are already in that order stay as they are -/
theorem sorted_of_sorted (s : OMD K V) (le : K × V → K × V → Bool) (rev : Bool)
    (h : s.cells.Pairwise (fun a b => flipIf rev le a b = true)) : (s.sorted le rev).cells = s.cells := by
  rw [OMD.sorted, (fromPairs_spec _).2]
  exact sortBy_of_sorted _ _ h

/-- `sorted` is stable (like the built-in, also with `reverse=True`): pairs with equal sort keys
    keep their relative order -/
theorem sorted_stable (s : OMD K V) (le : K × V → K × V → Bool) (rev : Bool)
    (htr : ∀ a b c, le a b = true → le b c = true → le a c = true) (a : K × V) :
    (s.sorted le rev).cells.filter (eqv le a) = s.cells.filter (eqv le a) := by
  rw [OMD.sorted, (fromPairs_spec _).2]
  have := sortBy_filter_eqv (flipIf rev le) (flipIf_trans rev le htr) a s.cells
  simpa only [show eqv (flipIf rev le) a = eqv le a from funext (eqv_flipIf rev le a)] using this

/-- … so `sorted` is THE stable sort: any list of pairs that is in the requested order and keeps
    every class of equal sort keys as it was in the dictionary is the result of `sorted` -/
theorem sorted_unique (s : OMD K V) (le : K × V → K × V → Bool) (rev : Bool)
    (htot : ∀ a b, le a b = true ∨ le b a = true)
    (htr : ∀ a b c, le a b = true → le b c = true → le a c = true)
    (R : List (K × V)) (hR : R.Pairwise (fun a b => flipIf rev le a b = true))
    (hst : ∀ a, R.filter (eqv le a) = s.cells.filter (eqv le a)) : R = (s.sorted le rev).cells := by
  have hrefl : ∀ a, flipIf rev le a a = true := fun a => by
    rcases flipIf_total rev le htot a a with h | h <;> exact h
  apply sorted_ext (flipIf rev le) (flipIf_trans rev le htr) hrefl R _ hR (sorted_sorted s le rev htot htr)
  intro a
  have e : eqv (flipIf rev le) a = eqv le a := funext (eqv_flipIf rev le a)
  rw [e, hst a, sorted_stable s le rev htr a]

/-- `sortedvalues(key, reverse)` does not raise, gives a consistent dictionary with the same key
    sequence, and every key's values are its old values sorted (a permutation, in the order of
    the key function, ascending or descending with `reverse`) -/
theorem sortedvalues_sorted (s : OMD K V) (h : Inv s) (le : V → V → Bool) (rev : Bool)
    (htot : ∀ a b, le a b = true ∨ le b a = true)
    (htr : ∀ a b c, le a b = true → le b c = true → le a c = true) :
    ∃ r, s.sortedvalues le rev = (r, .unit) ∧ Inv r ∧ r.cells.map (·.1) = s.cells.map (·.1) ∧
      ∀ k, (Spec.valsOf k r.cells).Perm (Spec.valsOf k s.cells) ∧
           (Spec.valsOf k r.cells).Pairwise (fun a b => flipIf rev le a b = true) := by
  obtain ⟨r, h1, h2, h3, h4⟩ := sortedvalues_spec h le rev
  refine ⟨r, h1, h2, h3, fun k => ?_⟩
  rw [h4 k]
  refine ⟨(List.reverse_perm _).trans (sortBy_perm _ _), ?_⟩
  rw [List.pairwise_reverse]
  have := sortBy_sorted (flipIf (!rev) le) (flipIf_total _ le htot) (flipIf_trans _ le htr) (Spec.valsOf k s.cells)
  refine this.imp ?_
  intro a b hab
  cases rev <;> simpa [flipIf] using hab


/-! ## values are opaque; alias forms of keys -/

/-- no operation looks inside a value: relabelling the values of a whole history by ANY function `f`
    (values handed in, values inside OMD / mapping / pair arguments) relabels every pair list reached
    and every return value by `f` and changes nothing else - same key order, same lengths, same
    exceptions, after every prefix -/
theorem values_are_opaque {W : Type} (f : V → W) (ops : List (HOp K V)) :
    (hrun (HState.init : HState K W) (ops.map (HOp.mapV f))).map (fun r => (absH r.1, r.2)) =
      (hrun (HState.init : HState K V) ops).map (fun r => (mapSt f (absH r.1), r.2.mapV f)) := by
  rw [refines_history]
  have h := spec_hrun_natural f ops ⟨[], []⟩
  have e : mapSt f (⟨[], []⟩ : Spec.HState K V) = ⟨[], []⟩ := rfl
  rw [e] at h
  rw [h, ← refines_history, List.map_map]
  rfl

/-- alias forms of keys (`1`, `1.0`, `True` are ONE key): let every pair also carry the key OBJECT it
    was inserted with (`V := KO × V`).  Forgetting those objects turns the history into the history
    over `==`-classes of keys that the correspondence runs: which alias object travels with a pair
    never influences a pair list, a key order, a length, a return value or an exception -/
theorem alias_objects_do_not_matter {KO : Type} (ops : List (HOp K (KO × V))) :
    (hrun (HState.init : HState K V) (ops.map (HOp.mapV Prod.snd))).map (fun r => (absH r.1, r.2)) =
      (hrun (HState.init : HState K (KO × V)) ops).map (fun r => (mapSt Prod.snd (absH r.1), r.2.mapV Prod.snd)) :=
  values_are_opaque Prod.snd ops

/-- keys are only ever compared for equality: renaming the keys of a whole history by any INJECTIVE
    function renames every pair list reached and every return value and changes nothing else (no
    operation depends on an order, a hash or anything else about a key than which keys it equals) -/
theorem keys_are_only_compared {K' : Type} [DecidableEq K'] (g : K → K') (hg : Function.Injective g)
    (ops : List (HOp K V)) :
    (hrun (HState.init : HState K' V) (ops.map (HOp.mapK g))).map (fun r => (absH r.1, r.2)) =
      (hrun (HState.init : HState K V) ops).map (fun r => (mapStK g (absH r.1), r.2.mapK g)) := by
  rw [refines_history]
  have h := spec_hrun_key_natural g hg ops ⟨[], []⟩
  have e : mapStK g (⟨[], []⟩ : Spec.HState K V) = ⟨[], []⟩ := rfl
  rw [e] at h
  rw [h, ← refines_history, List.map_map]
  rfl

/-! ## generators paused while the dictionary changes (pointer level) -/

/-- a generator of `iteritems(multi=True)` / `iterkeys(multi=True)` / `itervalues(multi=True)` that is
    paused at a cell which is (still) linked goes on with exactly the cells that come after that cell
    in the list AS IT IS NOW - whatever happened to the dictionary since the generator was made
    (every public operation keeps `PInv`: `index_exact_history`) -/
theorem paused_generator_continues (l : PL K V) (h : PInv l) (A B : List Nat) (c : Nat)
    (e : l.ids = A ++ c :: B) : l.rest c = c :: B := rest_of_linked (e ▸ h.shape)

/-- … so a pair added meanwhile is still visited, at the end -/
theorem paused_generator_sees_insert (l : PL K V) (h : PInv l) (A B : List Nat) (c : Nat)
    (e : l.ids = A ++ c :: B) (k : K) (v : V) : (l.insert k v).rest c = c :: B ++ [l.fresh] := by
  have e' : (l.insert k v).ids = A ++ c :: (B ++ [l.fresh]) := by rw [ids_insert h, e]; simp
  exact paused_generator_continues _ (pinsert_spec h k v).1 A (B ++ [l.fresh]) c e'

/-- … and when the very cell it is paused at is unlinked (`cell[PREV][NEXT], cell[NEXT][PREV] =
    cell[NEXT], cell[PREV]` leaves the cell's own fields alone), it yields that stale pair once more and
    then goes on with the cells that came after it -/
theorem paused_generator_survives_unlink (n p : Ptrs) (A B : List Nat) (c : Nat) (h : Shape n p (A ++ c :: B))
    (fuel : Nat) (hl : B.length < fuel) : walk (unlinkP c (n, p)).1 (fuel + 1) c = c :: B :=
  walk_from_unlinked h fuel (by omega)

/-! ## list objects: what the dictionary keeps and what the caller holds -/

/-- in every state reached by any history of operations that create, store or hand out list objects
    (`add`, `addlist` with a list of the caller's or with an iterator, `[]=`, `del`, `popall`, `poplast`,
    `getlist`, `todict(multi=True)`, `clear`, and the caller making lists and writing to any list it
    holds): no list object is stored under two keys and none of the stored ones is in the caller's hands -/
theorem own_separation_history (ops : List (OwnOp K V)) : Sep (ownRun (Own.empty : Own K V) ops) :=
  ownRun_sep _ sep_empty ops

/-- each of these operations changes the dereferenced storage exactly as the model's `vals` does, and
    reads and the caller's own doings do not change it at all -/
theorem own_step_refines (o : Own K V) (h : Sep o) (op : OwnOp K V) :
    Sep (ownStep o op) ∧ (ownStep o op).vals = valsStep o o.vals op := ownStep_spec h op

/-- `valsStep` IS the `vals` component of the operations of `Model.lean` -/
theorem own_vals_is_model_vals (o : Own K V) (s : OMD K V) (h : Inv s) (k : K) (v : V) (vs : List V) (d : Bool) :
    valsStep o s.vals (.add k v) = (s.add k v).vals ∧
    valsStep o s.vals (.addlistVals k vs) = (s.addlist k vs).vals ∧
    valsStep o s.vals (.setitem k v) = (s.setitem k v).vals ∧
    valsStep o s.vals (.delKey k) = (s.delKey k).vals ∧
    valsStep o s.vals (.popall k) = (s.popall k d).1.vals ∧
    valsStep o s.vals (.poplast k) = (s.poplastKey k d).1.vals ∧
    valsStep o s.vals .clear = (OMD.empty : OMD K V).vals := by
  refine ⟨rfl, ?_, rfl, rfl, ?_, ?_, rfl⟩
  · simp only [valsStep, OMD.addlist]; split <;> rfl
  · simp only [valsStep, OMD.popall]
    cases hk : dget k s.vals with
    | none => exact ddel_absent k s.vals hk
    | some vs => rfl
  · simp only [valsStep, OMD.poplastKey]
    have hh := h.dhas_eq k
    cases hk : dget k s.vals with
    | none =>
      have : s.cells.any (isK k) = false := by
        have : dhas k s.vals = false := by simp [dhas, hk]
        rw [hh] at this; exact this
      simp [this]
    | some vs =>
      have hne : vs ≠ [] := ((h.dget_some k vs).mp hk).2
      have : s.cells.any (isK k) = true := by
        have : dhas k s.vals = true := by simp [dhas, hk]
        rw [hh] at this; exact this
      obtain ⟨x, hx⟩ := getLast?_of_ne hne
      simp only [this, ↓reduceIte, hx]

/-- the compound mutators reach the dict storage only through those primitive statements: for `update` / `|=`
    (with self, another OMD, a mapping, any iterable of pairs, keyword arguments), `update_extend` (hence the
    constructor, `copy`, the copy module, pickle), `setdefault` and `pop` (hence `popitem`), running the listed
    primitives on the ownership layer from any separated state that reads as the model's storage gives a
    separated state that reads as the model's storage after the mutator: no public mutator can make the
    dictionary share a list object with its caller, or two keys share one -/
theorem compound_mutators_keep_separation (o : Own K V) (h : Sep o) (s : OMD K V) (hv : o.vals = s.vals)
    (E : Arg K V) (F : List (K × V)) (k : K) (v : V) (d : Bool) :
    (Sep (ownRun o (compileUpdate s E F)) ∧ (ownRun o (compileUpdate s E F)).vals = (s.update E F).vals) ∧
    (Sep (ownRun o (compileUpdateExtend s E F)) ∧
      (ownRun o (compileUpdateExtend s E F)).vals = (s.updateExtend E F).1.vals) ∧
    (Sep (ownRun o (compileSetdefault s k v)) ∧ (ownRun o (compileSetdefault s k v)).vals = (s.setdefault k v).1.vals) ∧
    (Sep (ownRun o [.popall k]) ∧ (ownRun o [.popall k]).vals = (s.pop k d).1.vals) := by
  refine ⟨?_, ?_, ?_, ?_⟩
  · have := ownRun_pure _ o h (compileUpdate_pure s E F)
    exact ⟨this.1, by rw [this.2, hv, update_vals]⟩
  · have := ownRun_pure _ o h (compileUpdateExtend_pure s E F)
    exact ⟨this.1, by rw [this.2, hv, updateExtend_vals]⟩
  · have := ownRun_pure (compileSetdefault s k v) o h (by
      intro op hop; unfold compileSetdefault at hop; split at hop
      · simp at hop
      · simp only [List.mem_singleton] at hop; subst hop; rfl)
    exact ⟨this.1, by rw [this.2, hv, setdefault_vals]⟩
  · have := ownRun_pure [OwnOp.popall k] o h (by intro op hop; simp only [List.mem_singleton] at hop; subst hop; rfl)
    exact ⟨this.1, by rw [this.2, hv, pop_vals]⟩

/-- a caller that writes whatever it likes into any list object it holds - one it handed to `addlist`,
    one it got from `getlist` / `todict(multi=True)` / `popall` - cannot change what the dictionary reads -/
theorem caller_writes_are_invisible (o : Own K V) (h : Sep o) (i : Nat) (vs : List V) :
    (o.callerWrite i vs).vals = o.vals ∧ Sep (o.callerWrite i vs) :=
  ⟨(callerWrite_spec h i vs).2, (callerWrite_spec h i vs).1⟩

/-- `getlist(k)` gives the caller a NEW list object holding the key's values; `popall(k)` gives it the
    stored object itself, which the dictionary no longer refers to; `addlist(k, a)` takes the contents
    of the caller's list `a` and not the object -/
theorem handed_out_lists_are_the_callers (o : Own K V) (h : Sep o) (k : K) :
    ((o.getlist k).1.look (o.getlist k).2 = (dget k o.vals).getD [] ∧ (o.getlist k).2 ∉ (o.getlist k).1.ids) ∧
    (∀ i, (o.popall k).2 = some i → o.look i = (dget k o.vals).getD [] ∧ i ∉ (o.popall k).1.ids) ∧
    (∀ a ∈ o.caller, a ∉ (o.addlistFrom k a).ids ∧ (o.addlistFrom k a).caller = o.caller) := by
  refine ⟨⟨(getlist_spec' h k).2.2.1, (getlist_spec' h k).2.2.2.1⟩, fun i hi => ?_, fun a ha => ?_⟩
  · have := (popall_spec' h k).2.2 i hi; exact ⟨this.1, this.2.1⟩
  · obtain ⟨s1, _, c1⟩ := addlistFrom_spec h k a
    exact ⟨fun hi => s1.apart a hi (by rw [c1]; exact ha), c1⟩

/-! ## the source, as it is now: which method writes which structure

`Generated.C01.methods` is regenerated on every run from the current source of BOTH copies of the class
(`boltons/dictutils.py`, `boltons/urlutils.py`) by a static, transitive effect analysis (`regen` in
`harness/bv/props/c01.py`): for every public method, may it write the dict's own storage (`dictW`), may
it write the linked list or its cell index (`llW`), may it write THROUGH one of its arguments (`argW`), may it store an
argument object itself as a per-key value list (`keepsArg`).  The theorems below are re-proved over the
regenerated table, so they are proof obligations about the code as it is today. -/

/-- the operations the model has a state-changing `HOp` for (`__init__` = `new`, `__setstate__` =
    the copy module / pickle, `__ior__` = `update`) -/
def modelledMutators : List String :=
  ["__init__", "__setstate__", "add", "addlist", "__setitem__", "__delitem__", "update", "update_extend",
   "__ior__", "setdefault", "pop", "popall", "poplast", "popitem", "clear"]

/-- the methods the model treats as pure functions of the state (`Model.lean`, "readers", equality,
    derived containers, copies) -/
def modelledReaders : List String :=
  ["__getstate__", "__reduce_ex__", "get", "getlist", "copy", "__getitem__", "__eq__", "__ne__", "iteritems",
   "iterkeys", "itervalues", "todict", "sorted", "sortedvalues", "inverted", "counts", "keys", "values", "items",
   "__iter__", "__reversed__", "__repr__", "fromkeys", "viewkeys", "viewvalues", "viewitems"]

/-- "every mutator updates both structures together": in the current source of both copies no public
    method may write the dict's storage without also writing the linked list / cell index, or the
    other way round -/
theorem source_mutators_write_both_structures :
    ∀ m ∈ Generated.C01.methods, m.dictW = m.llW := by decide

/-- every operation the model has a state-changing step for is defined by the class itself, in both
    copies, and writes both structures; none of dict's own mutators is inherited unchanged (an
    inherited `popitem` / `setdefault` / … would change the dict behind the linked list's back) -/
theorem source_modelled_mutators_present :
    (∀ f ∈ ["dictutils", "urlutils"], ∀ n ∈ modelledMutators,
      (⟨f, n, true, true, false, false⟩ : Generated.C01.Method) ∈ Generated.C01.methods) ∧
    Generated.C01.inheritedMutators = [] := by decide

/-- the readers, which the model takes to be pure functions of the state, write neither structure in
    the current source (a reader that re-ordered a value list or re-linked cells would make "every
    read" depend on the reads made before) -/
theorem source_readers_write_nothing :
    ∀ m ∈ Generated.C01.methods, m.name ∈ modelledReaders → m.dictW = false ∧ m.llW = false := by decide

/-- arguments are only read and never kept: in the current source no public method may write through an
    object the caller passed in (the model hands `update` / `update_extend` / `==` / the constructor their
    OMD, mapping and iterable arguments by value), and none may store an argument object itself as a
    per-key value list (the `Sep` invariant of the ownership layer: `addlist` copies, `[]=` wraps) -/
theorem source_arguments_only_read :
    ∀ m ∈ Generated.C01.methods, m.argW = false ∧ m.keepsArg = false := by decide

/-! ## non-vacuity: concrete histories and states the theorems speak about -/

/-- an interleaved multi-valued state reached by a history with replacement and removal -/
def demoOps : List (HOp Nat Nat) :=
  [.new (some (.pairs [(0, 0), (1, 1), (0, 2), (2, 3), (1, 0)])) [],
   .update (.pairs [(3, 0), (3, 1), (0, 5)]) [], .copyToT, .poplast none false, .setitem 1 7,
   .updateExtend .regT [], .popitem, .delitem 9]

example : (hrun HState.init demoOps).map (fun r => (r.1.s.cells, r.2)) =
    [([(0, 0), (1, 1), (0, 2), (2, 3), (1, 0)], .unit),
     ([(1, 1), (2, 3), (1, 0), (3, 0), (3, 1), (0, 5)], .unit),
     ([(1, 1), (2, 3), (1, 0), (3, 0), (3, 1), (0, 5)], .unit),
     ([(1, 1), (2, 3), (1, 0), (3, 0), (3, 1)], .val 5),
     ([(2, 3), (3, 0), (3, 1), (1, 7)], .unit),
     ([(2, 3), (3, 0), (3, 1), (1, 7), (1, 1), (2, 3), (1, 0), (3, 0), (3, 1), (0, 5)], .unit),
     ([(2, 3), (3, 0), (3, 1), (1, 7), (1, 1), (2, 3), (1, 0), (3, 0), (3, 1)], .pair 0 5),
     ([(2, 3), (3, 0), (3, 1), (1, 7), (1, 1), (2, 3), (1, 0), (3, 0), (3, 1)], .err .keyError)] := by
  decide

/-- the hypotheses `HInv st` / `Inv s` are met by every state of that history … -/
example : ∀ r ∈ hrun HState.init demoOps, HInv r.1 := inv_history demoOps
/-- … e.g. by this interleaved multi-valued dictionary (dict order `0, 1`; pair order `0, 1, 0`) -/
example : Inv (⟨[(0, [1, 3]), (1, [2])], [(0, 1), (1, 2), (0, 3)]⟩ : OMD Nat Nat) :=
  (fromPairs_complete [(0, 1), (1, 2), (0, 3)]).1
/-- a mapping has unique keys (`eq_mapping_iff`, `update_mapping_eq`) -/
example : (dkeys [(1, 2), (0, 3)]).Nodup := by decide
/-- key functions induce total preorders (`sorted_sorted`, `sortedvalues_sorted`): by value … -/
example : (∀ a b : Nat × Nat, decide (a.2 ≤ b.2) = true ∨ decide (b.2 ≤ a.2) = true) ∧
    (∀ a b c : Nat × Nat, decide (a.2 ≤ b.2) = true → decide (b.2 ≤ c.2) = true → decide (a.2 ≤ c.2) = true) :=
  ⟨by intro a b; simp only [decide_eq_true_eq]; omega, by intro a b c; simp only [decide_eq_true_eq]; omega⟩
/-- … and by parity of the value, where distinct values tie -/
example : (∀ a b : Nat, decide (a % 2 ≤ b % 2) = true ∨ decide (b % 2 ≤ a % 2) = true) ∧
    (∀ a b c : Nat, decide (a % 2 ≤ b % 2) = true → decide (b % 2 ≤ c % 2) = true → decide (a % 2 ≤ c % 2) = true) :=
  ⟨by intro a b; simp only [decide_eq_true_eq]; omega, by intro a b c; simp only [decide_eq_true_eq]; omega⟩
/-- pairs already in descending value order (`sorted_of_sorted` with `reverse`) -/
example : ([(0, 3), (1, 2), (1, 0)] : List (Nat × Nat)).Pairwise
    (fun a b => flipIf true (fun a b : Nat × Nat => decide (a.2 ≤ b.2)) a b = true) := by decide
/-- a failing operation (`failed_op_changes_nothing`): `del` of an absent key -/
example : (hstep (⟨OMD.fromPairs [(0, 1)], OMD.empty⟩ : HState Nat Nat) (.delitem 5)).2 = .err .keyError := by decide


/-- the concrete layer on a short history: the `NEXT` and `PREV` fields of the heap (`root` = 0; cells 2 and
    3 are garbage after the second and third step), the two walks, the index `_map`, the pairs -/
def demoOps3 : List (HOp Nat Nat) :=
  [.new (some (.pairs [(0, 0), (1, 1), (0, 2)])) [], .poplast (some 0) false, .setitem 1 7, .add 0 4, .delitem 1]

example : (hrun3 HState3.init demoOps3).map
    (fun r => (r.1.s.ll.nxt, r.1.s.ll.prv, r.1.s.ll.ids, r.1.s.ll.idsBack, r.1.s.ll.map, r.1.s.ll.flat)) =
    [([(1, 2), (0, 1), (2, 3), (3, 0)], [(1, 0), (0, 3), (2, 1), (3, 2)], [1, 2, 3], [3, 2, 1],
      [(0, [1, 3]), (1, [2])], [(0, 0), (1, 1), (0, 2)]),
     ([(1, 2), (0, 1), (2, 0), (3, 0)], [(1, 0), (0, 2), (2, 1), (3, 2)], [1, 2], [2, 1],
      [(0, [1]), (1, [2])], [(0, 0), (1, 1)]),
     ([(1, 4), (0, 1), (2, 0), (3, 0), (4, 0)], [(1, 0), (0, 4), (2, 1), (3, 2), (4, 1)], [1, 4], [4, 1],
      [(0, [1]), (1, [4])], [(0, 0), (1, 7)]),
     ([(1, 4), (0, 1), (2, 0), (3, 0), (4, 5), (5, 0)], [(1, 0), (0, 5), (2, 1), (3, 2), (4, 1), (5, 4)], [1, 4, 5], [5, 4, 1],
      [(0, [1, 5]), (1, [4])], [(0, 0), (1, 7), (0, 4)]),
     ([(1, 5), (0, 1), (2, 0), (3, 0), (4, 5), (5, 0)], [(1, 0), (0, 5), (2, 1), (3, 2), (4, 1), (5, 1)], [1, 5], [5, 1],
      [(0, [1, 5])], [(0, 0), (0, 4)])] := by
  rfl
/-- `HInv3` / `Inv3` / `PInv` / `LLInv` are met by every state of that history (and of `demoOps`) -/
example : ∀ r ∈ hrun3 HState3.init demoOps3, HInv3 r.1 := index_exact_history demoOps3
example : ∀ r ∈ hrun3 HState3.init demoOps, HInv3 r.1 := index_exact_history demoOps
/-- … in particular the hypotheses `PInv l` (`heap_*`), `LLInv l` (`insert_appends_cell`, `remove_…`) and `Inv3 s`
    (`helpers_raise_only_for_missing_keys`, `reversed_walks_prev`) hold for the heaps of that history -/
example : ∀ r ∈ hrun3 HState3.init demoOps3, Inv3 r.1.s ∧ PInv r.1.s.ll ∧ LLInv r.1.s.ll.abs :=
  fun r hr => ⟨(index_exact_history demoOps3 r hr).s, (index_exact_history demoOps3 r hr).s.ll,
    (index_exact_history demoOps3 r hr).s.ll.ll⟩
/-- an index that has drifted from the cells (what seeded defect C01-1, `_remove_all` keeping the emptied
    entry, produces): `_remove` then raises IndexError where KeyError / the default is due -/
example : (⟨[], [(0, [])], 1⟩ : LL Nat Nat).remove 0 = .error .indexError := rfl
example : ((⟨[], ⟨[], [], [], [(0, [])], 1⟩⟩ : OMD3 Nat Nat).poplastKey 0 true).2 = .err .indexError := rfl
/-- arguments that raise half way -/
example : ((hrun HState.init [.add 0 1, .add 1 2, .updateAbort [(0, 5), (2, 6)], .addlistAbort 1 [7]]).map
    (fun r => (r.1.s.cells, r.2))) =
    [([(0, 1)], .unit), ([(0, 1), (1, 2)], .unit), ([(1, 2), (0, 5), (2, 6)], .abort), ([(1, 2), (0, 5), (2, 6)], .abort)] := by
  decide
/-- stability: two pairs with equal sort keys (the value) keep their order, also in reverse -/
example : ((OMD.fromPairs [(1, 2), (0, 2), (2, 3)] : OMD Nat Nat).sorted (fun a b => decide (a.2 ≤ b.2)) true).cells =
    [(2, 3), (1, 2), (0, 2)] := by decide
/-- the hypotheses of `sorted_unique` are met by that list: in descending order, classes of equal values as before -/
example : ([(2, 3), (1, 2), (0, 2)] : List (Nat × Nat)).Pairwise
      (fun a b => flipIf true (fun a b : Nat × Nat => decide (a.2 ≤ b.2)) a b = true) ∧
    ∀ a, ([(2, 3), (1, 2), (0, 2)] : List (Nat × Nat)).filter (eqv (fun a b : Nat × Nat => decide (a.2 ≤ b.2)) a) =
      (OMD.fromPairs [(1, 2), (0, 2), (2, 3)] : OMD Nat Nat).cells.filter (eqv (fun a b : Nat × Nat => decide (a.2 ≤ b.2)) a) := by
  refine ⟨by decide, fun a => ?_⟩
  have h := sorted_stable (OMD.fromPairs [(1, 2), (0, 2), (2, 3)] : OMD Nat Nat) (fun a b => decide (a.2 ≤ b.2)) true
    (by intro a b c; simp only [decide_eq_true_eq]; omega) a
  have e : ((OMD.fromPairs [(1, 2), (0, 2), (2, 3)] : OMD Nat Nat).sorted (fun a b => decide (a.2 ≤ b.2)) true).cells =
      [(2, 3), (1, 2), (0, 2)] := by decide
  rw [e] at h
  exact h
example : (OMD.fromPairs [(0, 1), (1, 2), (0, 3)] : OMD Nat Nat).todict = .ok [(0, 3), (1, 2)] := rfl

example : Spec.keys [(2, 3), (3, 0), (3, 1), (1, 7), (1, 1), (2, 3)] = [2, 3, 1] := by decide
example : Spec.items [(2, 3), (3, 0), (3, 1), (1, 7), (1, 1), (2, 4)] = [(2, 4), (3, 1), (1, 1)] := by decide
example : (OMD.fromPairs [(0, 1), (1, 2), (0, 3)] : OMD Nat Nat).eqMapping [(1, 2), (0, 3)] = .ok true := rfl
example : (OMD.fromPairs [(0, 1), (1, 2), (0, 3)] : OMD Nat Nat).eqMapping [(1, 2), (0, 1)] = .ok false := rfl
example : ((OMD.fromPairs [(1, 2), (0, 3), (1, 0), (0, 1), (1, 1)] : OMD Nat Nat).sortedvalues
    (fun a b => decide (a ≤ b)) false).1.cells = [(1, 0), (0, 1), (1, 1), (0, 3), (1, 2)] := by decide
example : ((OMD.fromPairs [(1, 2), (0, 3), (1, 0)] : OMD Nat Nat).sorted
    (fun a b => decide (a.2 ≤ b.2)) true).cells = [(0, 3), (1, 2), (1, 0)] := by decide
/-- a state that violates `Inv` (what `addlist(k, iterator)` used to produce): its reads disagree -/
example : (⟨[(0, [])], [(0, 1), (0, 2)]⟩ : OMD Nat Nat).items = .error .indexError := rfl

/-- the regenerated table is not empty and has both kinds of rows, in both copies -/
example : (⟨"dictutils", "add", true, true, false, false⟩ : Generated.C01.Method) ∈ Generated.C01.methods ∧
    (⟨"urlutils", "__reversed__", false, false, false, false⟩ : Generated.C01.Method) ∈ Generated.C01.methods := by decide
/-- what the first theorem excludes: a method that deletes from the dict and leaves the cells linked -/
example : ¬ (∀ m ∈ [(⟨"dictutils", "__delitem__", true, false, false, false⟩ : Generated.C01.Method)], m.dictW = m.llW) := by decide

/-- a mapping that raises half way, a rejected call, `fromkeys` with a repeated key, the views of an interleaved state -/
example : ((hrun HState.init [.add 0 1, .add 1 2, .add 0 3, .updateMapAbort [(1, 5), (2, 6)], .rejected]).map
    (fun r => (r.1.s.cells, r.2))) =
    [([(0, 1)], .unit), ([(0, 1), (1, 2)], .unit), ([(0, 1), (1, 2), (0, 3)], .unit),
     ([(0, 1), (0, 3), (1, 5), (2, 6)], .abort), ([(0, 1), (0, 3), (1, 5), (2, 6)], .abort)] := by decide
example : (OMD.fromkeys [1, 2, 1] 7 : OMD Nat Nat).cells = [(1, 7), (2, 7), (1, 7)] ∧
    (OMD.fromkeys [1, 2, 1] 7 : OMD Nat Nat).getlist 1 = [7, 7] := by decide
example : (OMD.fromPairs [(0, 1), (1, 2), (0, 3)] : OMD Nat Nat).viewItemsIter = .ok [(0, 3), (1, 2)] ∧
    (OMD.fromPairs [(0, 1), (1, 2), (0, 3)] : OMD Nat Nat).viewItemsContains 0 1 = .ok false ∧
    (OMD.fromPairs [(0, 1), (1, 2), (0, 3)] : OMD Nat Nat).viewValuesContains 3 = .ok true := ⟨rfl, rfl, rfl⟩

/-- the caller appends to the list it handed to `addlist` and to the list `getlist` returned: the storage is as before -/
example : let o0 : Own Nat Nat := (Own.empty.callerNew [1, 2]).1
    let o1 := ownRun o0 [.addlistFrom 7 0, .add 7 3, .getlist 7]
    (o1.vals = [(7, [1, 2, 3])] ∧ o1.caller = [3, 0]) ∧
    (ownRun o1 [.callerWrite 0 [9], .callerWrite 3 [], .callerWrite 1 [8]]).vals = [(7, [1, 2, 3])] := by decide
/-- what seeded defect C01-10 amounts to (the dict adopting the caller's list object 0): `Sep` is violated and the write shows -/
example : let bad : Own Nat Nat := ⟨[(7, 0)], [(0, [1, 2])], 1, [0]⟩
    ¬ (∀ i ∈ bad.ids, i ∉ bad.caller) ∧ (bad.callerWrite 0 [9]).vals = [(7, [9])] := by decide

example : (OMD.fromPairs [(0, 1), (1, 2), (0, 3)] : OMD Nat Nat).reprText "OrderedMultiDict" toString toString =
    "OrderedMultiDict([(0, 1), (1, 2), (0, 3)])" := by decide

/-- known finding C01-eq-mapping-missing, in the model: before the fix `OrderedMultiDict([(1, 0)]) == Counter({3: 0})`
    was True (the Counter answers 0 for the key 1 it lacks); the loop after the fix says False, as the statement demands -/
example : (OMD.fromPairs [(1, 0)] : OMD Nat Nat).eqMappingOld [(3, 0)] (some 0) = .ok true ∧
    (OMD.fromPairs [(1, 0)] : OMD Nat Nat).eqMapping [(3, 0)] = .ok false ∧
    ¬ (∀ k, dget k [(3, 0)] = Spec.last k (OMD.fromPairs [(1, 0)] : OMD Nat Nat).cells) :=
  ⟨rfl, rfl, fun h => by have := h 1; simp [dget, Spec.last, Spec.valsOf, OMD.fromPairs, OMD.addAll, OMD.add, OMD.empty, isK] at this⟩

/-- a history whose pairs carry key objects (here: 10 / 11 stand for two alias objects of key 1), and its projection -/
example : (hrun (HState.init : HState Nat (Nat × Nat)) [.add 1 (10, 5), .add 2 (20, 6), .setitem 1 (11, 7), .poplast none false]).map
      (fun r => (mapSt Prod.snd (absH r.1)).s) = [[(1, 5)], [(1, 5), (2, 6)], [(2, 6), (1, 7)], [(2, 6)]] ∧
    (hrun (HState.init : HState Nat Nat) ([HOp.add 1 (10, 5), .add 2 (20, 6), .setitem 1 (11, 7), .poplast none false].map
      (HOp.mapV Prod.snd))).map (fun r => r.1.s.cells) = [[(1, 5)], [(1, 5), (2, 6)], [(2, 6), (1, 7)], [(2, 6)]] := by decide

/-- an injective renaming of keys (`keys_are_only_compared`) -/
example : Function.Injective (fun k : Nat => k + 10) := fun a b h => by simpa using h
/-- a generator paused at the second of three cells (ids 1, 2, 3): it goes on with 2, 3; after `add` it also meets the new
    cell 4; the hypotheses `PInv` / `l.ids = A ++ c :: B` hold for that heap -/
example : let l : PL Nat Nat := ((hrun3 HState3.init [.new (some (.pairs [(0, 0), (1, 1), (0, 2)])) []]).map (·.1.s.ll)).headD PL.empty
    l.ids = [1] ++ 2 :: [3] ∧ l.rest 2 = [2, 3] ∧ (l.insert 5 5).rest 2 = [2, 3, 4] ∧
    walk (unlinkP 2 (l.nxt, l.prv)).1 l.fresh 2 = [2, 3] := by decide

/-- `update` with pairs as primitive storage steps: a repeated key is deleted once, at its first occurrence -/
example : compileUpdate (OMD.fromPairs [(0, 1)] : OMD Nat Nat) (.pairs [(0, 5), (2, 6), (0, 7)]) [(3, 8)] =
    [.delKey 0, .add 0 5, .delKey 2, .add 2 6, .add 0 7, .setitem 3 8] := rfl
/-- `Sep o` and `o.vals = s.vals` are met, e.g., by the layer run next to the model from the empty dictionary -/
example : Sep (ownRun (Own.empty : Own Nat Nat) [.add 0 1, .add 1 2, .add 0 3]) ∧
    (ownRun (Own.empty : Own Nat Nat) [.add 0 1, .add 1 2, .add 0 3]).vals = (OMD.fromPairs [(0, 1), (1, 2), (0, 3)] : OMD Nat Nat).vals :=
  ⟨own_separation_history _, by decide⟩

end C01
