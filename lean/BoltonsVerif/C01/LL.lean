import BoltonsVerif.C01.Model
/-
C01 — the cell-index level of the model: the linked list as a list of cells WITH object
identities and the per-key cell index `_map`, with the helpers `_clear_ll` / `_insert` /
`_remove` / `_remove_all` of `OrderedMultiDict` as operations on that list (a specification
layer between the pointer-level heap of `Ptr.lean` and the two-structure model of `Model.lean`).

  Python                                   model
  cell `[PREV, NEXT, KEY, VALUE]`          `Cell` = identity `id` + key + value
  the circular list hanging off `root`     `LL.cells`, in link order `root[NEXT] … root[PREV]`
  `_map : key -> [cells of that key]`      `LL.map : key -> [ids]` (a dict: association list in dict order)
  a new list object `[last, root, k, v]`   the next unused identity `LL.fresh`
  unlinking `cell[PREV][NEXT], cell[NEXT][PREV] = cell[NEXT], cell[PREV]`
                                           removing the cell with that identity from `cells`

This list of identified cells is what the pointer-level heap of `Ptr.lean` reads back as
(`PL.abs`); `LLProofs.lean` has the invariant "`_map[k]` is exactly the list of the cells of key
`k`" and what the helpers do to the walk.  Core Lean only.
-/
namespace C01

structure Cell (K V : Type) where
  id : Nat
  key : K
  val : V
deriving Repr

structure LL (K V : Type) where
  cells : List (Cell K V)
  map : List (K × List Nat)
  fresh : Nat
deriving Repr

def notId {K V : Type} (c : Nat) (x : Cell K V) : Bool := !decide (x.id = c)
def keyIs {K V : Type} [DecidableEq K] (k : K) (x : Cell K V) : Bool := decide (x.key = k)

namespace LL
variable {K V : Type} [DecidableEq K]

/-- `__new__`: `_map = {}`, `root[:] = [root, root, None]` -/
def empty : LL K V := ⟨[], [], 1⟩      -- identity 0 is `root`

/-- `_clear_ll` on an existing object: `_map.clear()`, `root[:] = [root, root, None]` -/
def clear (l : LL K V) : LL K V := ⟨[], [], l.fresh⟩

/-- `_insert(k, v)`: `cells = _map.setdefault(k, [])`, link `[last, root, k, v]` before `root`,
    `cells.append(cell)` -/
def insert (l : LL K V) (k : K) (v : V) : LL K V :=
  ⟨l.cells ++ [⟨l.fresh, k, v⟩], dset k ((dget k l.map).getD [] ++ [l.fresh]) l.map, l.fresh + 1⟩

/-- unlink the cell with identity `c` -/
def unlink (c : Nat) (cells : List (Cell K V)) : List (Cell K V) := cells.filter (notId c)

/-- `_remove(k)`: `values = _map[k]` (KeyError), `cell = values.pop()` (IndexError), unlink,
    `if not values: del _map[k]` -/
def remove (l : LL K V) (k : K) : Except Err (LL K V) :=
  match dget k l.map with
  | none => .error .keyError
  | some ids => match ids.getLast? with
    | none => .error .indexError
    | some c => .ok ⟨unlink c l.cells,
        if ids.dropLast.isEmpty then ddel k l.map else dset k ids.dropLast l.map, l.fresh⟩

/-- the `while values: cell = values.pop(); unlink` loop (cells go last first) -/
def unlinkAll (ids : List Nat) (cells : List (Cell K V)) : List (Cell K V) :=
  ids.reverse.foldl (fun cs c => unlink c cs) cells

/-- `_remove_all(k)`: `values = _map[k]` (KeyError), pop and unlink every cell, `del _map[k]` -/
def removeAll (l : LL K V) (k : K) : Except Err (LL K V) :=
  match dget k l.map with
  | none => .error .keyError
  | some ids => .ok ⟨unlinkAll ids l.cells, ddel k l.map, l.fresh⟩

/-- the walk `curr = root[NEXT]; while curr is not root: yield curr[KEY], curr[VALUE]` -/
def flat (l : LL K V) : List (K × V) := l.cells.map fun c => (c.key, c.val)

/-- `root[PREV][KEY]` (of a non-empty list) -/
def lastKey (l : LL K V) : Option K := l.cells.getLast?.map (·.key)

end LL

end C01
