import BoltonsVerif.C01.Proofs
/-
C01 — values are opaque: no operation of the plain list of pairs (and hence, by `refines_history`, none of
the model) looks INSIDE a value.  Relabelling the values of a whole history by any function `f` relabels
every intermediate pair list and every return value by `f` and changes nothing else.

Use: take `V := KeyObject × Value` and `f := Prod.snd`.  A history in which every pair also carries the key
OBJECT it was inserted with (`1`, `1.0` or `True` - one key for the dictionary) projects onto the history
over `==`-classes of keys that the correspondence runs: which alias object travels with a pair has no
influence on any pair list, key order, length or return value.
-/
namespace C01
open Spec
variable {K V W : Type} [DecidableEq K]

def mapP (f : V → W) (L : List (K × V)) : List (K × W) := L.map fun p => (p.1, f p.2)

def Out.mapV (f : V → W) : Out K V → Out K W
  | .unit => .unit
  | .dflt => .dflt
  | .val v => .val (f v)
  | .vals l => .vals (l.map f)
  | .pair k v => .pair k (f v)
  | .err e => .err e
  | .abort => .abort

def HArg.mapV (f : V → W) : HArg K V → HArg K W
  | .self => .self
  | .regT => .regT
  | .fresh l => .fresh (mapP f l)
  | .mapping m => .mapping (mapP f m)
  | .pairs l => .pairs (mapP f l)

def HOp.mapV (f : V → W) : HOp K V → HOp K W
  | .new E F => .new (E.map (HArg.mapV f)) (mapP f F)
  | .add k v => .add k (f v)
  | .addlist k vs => .addlist k (vs.map f)
  | .setitem k v => .setitem k (f v)
  | .delitem k => .delitem k
  | .update E F => .update (E.mapV f) (mapP f F)
  | .updateExtend E F => .updateExtend (E.mapV f) (mapP f F)
  | .setdefault k v => .setdefault k (f v)
  | .pop k d => .pop k d
  | .popall k d => .popall k d
  | .poplast k d => .poplast k d
  | .popitem => .popitem
  | .clear => .clear
  | .addlistAbort k vs => .addlistAbort k (vs.map f)
  | .updateAbort l => .updateAbort (mapP f l)
  | .updateExtendAbort l => .updateExtendAbort (mapP f l)
  | .updateMapAbort l => .updateMapAbort (mapP f l)
  | .rejected => .rejected
  | .copyToT => .copyToT
  | .copyToS => .copyToS
  | .swap => .swap

def mapSt (f : V → W) (st : Spec.HState K V) : Spec.HState K W := ⟨mapP f st.s, mapP f st.t⟩

section lemmas
variable (f : V → W)

@[simp] theorem mapP_nil : mapP f ([] : List (K × V)) = [] := rfl
@[simp] theorem mapP_append (A B : List (K × V)) : mapP f (A ++ B) = mapP f A ++ mapP f B := by simp [mapP]
@[simp] theorem mapP_cons (p : K × V) (A : List (K × V)) : mapP f (p :: A) = (p.1, f p.2) :: mapP f A := rfl
@[simp] theorem mapP_fst (L : List (K × V)) : (mapP f L).map (·.1) = L.map (·.1) := by simp [mapP]

theorem mapP_filter_key (q : K → Bool) (L : List (K × V)) :
    (mapP f L).filter (fun p => q p.1) = mapP f (L.filter fun p => q p.1) := by
  induction L with
  | nil => rfl
  | cons p r ih => simp only [mapP_cons, List.filter_cons]; split <;> simp [ih]

theorem remove_mapP (L : List (K × V)) (k : K) : Spec.remove (mapP f L) k = mapP f (Spec.remove L k) :=
  mapP_filter_key f (fun a => !decide (a = k)) L

theorem valsOf_mapP (k : K) (L : List (K × V)) : valsOf k (mapP f L) = (valsOf k L).map f := by
  induction L with
  | nil => rfl
  | cons p r ih =>
    rw [mapP_cons, valsOf_cons, valsOf_cons, ih]
    split <;> simp

theorem has_mapP (k : K) (L : List (K × V)) : has k (mapP f L) = has k L := by
  induction L with
  | nil => rfl
  | cons p r ih => simp only [has, mapP_cons, List.any_cons, isK] at *; rw [ih]

theorem last_mapP (k : K) (L : List (K × V)) : Spec.last k (mapP f L) = (Spec.last k L).map f := by
  simp [Spec.last, valsOf_mapP, List.getLast?_map]

theorem keys_mapP (L : List (K × V)) : Spec.keys (mapP f L) = Spec.keys L := by simp [Spec.keys]

theorem items_mapP (L : List (K × V)) : Spec.items (mapP f L) = mapP f (Spec.items L) := by
  unfold Spec.items
  rw [keys_mapP]
  simp only [last_mapP]
  simp only [mapP, List.map_filterMap]
  congr 1
  funext k
  cases Spec.last k L <;> rfl

theorem setitem_mapP (L : List (K × V)) (k : K) (v : V) :
    Spec.setitem (mapP f L) k (f v) = mapP f (Spec.setitem L k v) := by
  simp [Spec.setitem, remove_mapP]

theorem setAll_mapP (F : List (K × V)) : ∀ (L : List (K × V)),
    Spec.setAll (mapP f L) (mapP f F) = mapP f (Spec.setAll L F) := by
  induction F with
  | nil => intro L; rfl
  | cons p r ih =>
    intro L
    simp only [Spec.setAll, mapP_cons, List.foldl_cons] at ih ⊢
    rw [setitem_mapP]; exact ih _

theorem replaceBy_mapP (L l : List (K × V)) :
    Spec.replaceBy (mapP f L) (mapP f l) = mapP f (Spec.replaceBy L l) := by
  simp only [Spec.replaceBy, mapP_fst, mapP_append]
  congr 1
  exact mapP_filter_key f (fun a => !decide (a ∈ l.map (·.1))) L

theorem rmLast_mapP (k : K) (L : List (K × V)) : rmLast k (mapP f L) = mapP f (rmLast k L) := by
  induction L with
  | nil => rfl
  | cons p r ih =>
    have ha : (mapP f r).any (isK k) = r.any (isK k) := has_mapP f k r
    simp only [mapP_cons, rmLast, ha]
    split
    · simp [ih]
    · split <;> simp

theorem getLast?_mapP (L : List (K × V)) : (mapP f L).getLast? = L.getLast?.map fun p => (p.1, f p.2) := by
  simp [mapP, List.getLast?_map]

theorem dropLast_mapP (L : List (K × V)) : (mapP f L).dropLast = mapP f L.dropLast := by
  simp [mapP, List.map_dropLast]

end lemmas

/-- one step: relabelling the values of the state and of the operation relabels the result -/
theorem spec_hstep_natural (f : V → W) (st : Spec.HState K V) (op : HOp K V) :
    Spec.hstep (mapSt f st) (op.mapV f) = (mapSt f (Spec.hstep st op).1, ((Spec.hstep st op).2).mapV f) := by
  obtain ⟨s, t⟩ := st
  cases op with
  | new E F =>
    simp only [Spec.hstep, HOp.mapV, mapSt, Spec.new, Out.mapV]
    congr 2
    cases E with
    | none => exact setAll_mapP f F []
    | some E =>
      cases E <;>
        simp only [Option.map_some, HArg.mapV, Spec.resolveNew, Spec.resolve, Spec.updateExtend, List.nil_append,
          List.append_nil] <;> exact setAll_mapP f F _
  | add k v => simp [Spec.hstep, HOp.mapV, mapSt, Out.mapV]
  | addlist k vs =>
    simp only [Spec.hstep, HOp.mapV, mapSt, Out.mapV, mapP_append]
    congr 3
    simp [mapP, List.map_map, Function.comp_def]
  | setitem k v => simp [Spec.hstep, HOp.mapV, mapSt, Out.mapV, setitem_mapP]
  | delitem k =>
    simp only [Spec.hstep, HOp.mapV, mapSt, Spec.withS, Spec.delitem, has_mapP]
    split <;> simp [Out.mapV, remove_mapP]
  | update E F =>
    simp only [Spec.hstep, HOp.mapV, mapSt, Out.mapV, Spec.update]
    congr 2
    cases E <;> simp only [HArg.mapV, Spec.resolve] <;>
      first
      | exact setAll_mapP f F _
      | (rw [replaceBy_mapP]; exact setAll_mapP f F _)
      | (rw [setAll_mapP]; exact setAll_mapP f F _)
  | updateExtend E F =>
    simp only [Spec.hstep, HOp.mapV, mapSt, Out.mapV, Spec.updateExtend]
    congr 2
    cases E <;> simp [HArg.mapV, Spec.resolve, items_mapP]
  | setdefault k v =>
    simp only [Spec.hstep, HOp.mapV, mapSt, Spec.withS, Spec.setdefault, last_mapP]
    cases Spec.last k s <;> simp [Out.mapV]
  | pop k d =>
    simp only [Spec.hstep, HOp.mapV, mapSt, Spec.withS, Spec.pop, last_mapP]
    cases Spec.last k s <;> simp [Out.mapV, remove_mapP, Spec.missing] <;> split <;> rfl
  | popall k d =>
    simp only [Spec.hstep, HOp.mapV, mapSt, Spec.withS, Spec.popall, has_mapP]
    split <;> simp [Out.mapV, remove_mapP, valsOf_mapP, Spec.missing] <;> split <;> rfl
  | poplast k d =>
    cases k with
    | some k =>
      simp only [Spec.hstep, HOp.mapV, mapSt, Spec.withS, Spec.poplast, last_mapP]
      cases Spec.last k s <;> simp [Out.mapV, rmLast_mapP, Spec.missing] <;> split <;> rfl
    | none =>
      simp only [Spec.hstep, HOp.mapV, mapSt, Spec.withS, Spec.poplast, getLast?_mapP]
      cases s.getLast? <;> simp [Out.mapV, dropLast_mapP, Spec.missing] <;> split <;> rfl
  | popitem =>
    simp only [Spec.hstep, HOp.mapV, mapSt, Spec.withS, Spec.popitem, getLast?_mapP]
    cases s.getLast? <;> simp [Out.mapV, remove_mapP]
  | clear => simp [Spec.hstep, HOp.mapV, mapSt, Out.mapV]
  | addlistAbort k vs => simp [Spec.hstep, HOp.mapV, mapSt, Out.mapV]
  | updateAbort l => simp [Spec.hstep, HOp.mapV, mapSt, Out.mapV, replaceBy_mapP]
  | updateExtendAbort l => simp [Spec.hstep, HOp.mapV, mapSt, Out.mapV]
  | updateMapAbort l => simp [Spec.hstep, HOp.mapV, mapSt, Out.mapV, setAll_mapP]
  | rejected => simp [Spec.hstep, HOp.mapV, mapSt, Out.mapV]
  | copyToT => simp [Spec.hstep, HOp.mapV, mapSt, Out.mapV]
  | copyToS => simp [Spec.hstep, HOp.mapV, mapSt, Out.mapV]
  | swap => simp [Spec.hstep, HOp.mapV, mapSt, Out.mapV]

/-- whole histories -/
theorem spec_hrun_natural (f : V → W) (ops : List (HOp K V)) : ∀ (st : Spec.HState K V),
    Spec.hrun (mapSt f st) (ops.map (HOp.mapV f)) =
      (Spec.hrun st ops).map fun r => (mapSt f r.1, r.2.mapV f) := by
  induction ops with
  | nil => intro st; rfl
  | cons op r ih =>
    intro st
    simp only [List.map_cons, Spec.hrun]
    rw [spec_hstep_natural]
    simp only [List.map_cons]
    congr 1
    exact ih _

end C01
