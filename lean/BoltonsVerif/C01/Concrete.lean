import BoltonsVerif.C01.Ptr
/-
C01 — the concrete layer of the model: `OMD3` = the dict's own storage (`vals`) + the pointer-level
linked list with its per-key cell index (`PL`, `Ptr.lean`), and every public mutator of
`OrderedMultiDict` written in terms of the helpers `_clear_ll` / `_insert` / `_remove` /
`_remove_all` exactly as the Python methods call them.  `OMD3.abs` forgets the heap and `_map`
(it IS the walk `iteritems(multi=True)`); `ConcreteProofs.lean` shows that every mutator commutes
with it, so the two-structure model `OMD` of `Model.lean` - and through it the plain list of
pairs - is refined by this layer.  A bookkeeping exception (a helper raising because `_map` and
the dict disagree) is an `Out.err`, as in the code.  Core Lean only.
-/
namespace C01

structure OMD3 (K V : Type) where
  vals : List (K × List V)
  ll : PL K V
deriving Repr

namespace OMD3
variable {K V : Type} [DecidableEq K]

/-- forget the heap and `_map`: the dict + the pairs the walk `iteritems(multi=True)` yields -/
def abs (s : OMD3 K V) : OMD K V := ⟨s.vals, s.ll.flat⟩

def empty : OMD3 K V := ⟨[], PL.empty⟩

/-- `add`: `values = super().setdefault(k, [])`, `_insert(k, v)`, `values.append(v)` -/
def add (s : OMD3 K V) (k : K) (v : V) : OMD3 K V :=
  ⟨dset k ((dget k s.vals).getD [] ++ [v]) s.vals, s.ll.insert k v⟩

/-- `addlist`: `v = list(v)`; nothing for an empty one; `_insert` per value, `values.extend(v)` -/
def addlist (s : OMD3 K V) (k : K) (vs : List V) : OMD3 K V :=
  if vs.isEmpty then s else
  ⟨dset k ((dget k s.vals).getD [] ++ vs) s.vals, vs.foldl (fun l v => l.insert k v) s.ll⟩

/-- `__setitem__`: `if super().__contains__(k): _remove_all(k)`; `_insert(k, v)`; `dict[k] = [v]` -/
def setitem (s : OMD3 K V) (k : K) (v : V) : OMD3 K V × Out K V :=
  match (if dhas k s.vals then s.ll.removeAll k else .ok s.ll) with
  | .error e => (s, .err e)
  | .ok l => (⟨dset k [v] s.vals, l.insert k v⟩, .unit)

/-- `__delitem__`: `super().__delitem__(k)` (KeyError before anything is touched), `_remove_all(k)` -/
def delitem (s : OMD3 K V) (k : K) : OMD3 K V × Out K V :=
  if dhas k s.vals then
    match s.ll.removeAll k with
    | .ok l => (⟨ddel k s.vals, l⟩, .unit)
    | .error e => (⟨ddel k s.vals, s.ll⟩, .err e)
  else (s, .err .keyError)

/-- `if k in self: del self[k]` -/
def delIfHas (s : OMD3 K V) (k : K) : OMD3 K V × Out K V :=
  if dhas k s.vals then s.delitem k else (s, .unit)

/-- `for k, v in iterator: self.add(k, v)` -/
def addAll (s : OMD3 K V) (l : List (K × V)) : OMD3 K V := l.foldl (fun a p => a.add p.1 p.2) s

/-- `for k in F: self[k] = F[k]` (an exception ends the loop) -/
def setAll (s : OMD3 K V) : List (K × V) → OMD3 K V × Out K V
  | [] => (s, .unit)
  | p :: r => match s.setitem p.1 p.2 with
    | (s', .unit) => setAll s' r
    | x => x

/-- `for k in E: if k in self: del self[k]` -/
def delKeys (s : OMD3 K V) : List K → OMD3 K V × Out K V
  | [] => (s, .unit)
  | k :: r => match s.delIfHas k with
    | (s', .unit) => delKeys s' r
    | x => x

/-- the `seen` loop of `update` for an iterable of pairs -/
def updPairs (s : OMD3 K V) (seen : List K) : List (K × V) → OMD3 K V × Out K V
  | [] => (s, .unit)
  | p :: r =>
    if p.1 ∈ seen then updPairs (s.add p.1 p.2) seen r
    else match s.delIfHas p.1 with
      | (s', .unit) => updPairs (s'.add p.1 p.2) (p.1 :: seen) r
      | x => x

/-- the positional argument of `update`; another OMD is only read (`for k in E`,
    `E.iteritems(multi=True)`), so it is given by its abstraction -/
def updateE (s : OMD3 K V) (E : Arg K V) : OMD3 K V × Out K V :=
  match E with
  | .self => (s, .unit)
  | .omd t => (match s.delKeys t.keys with
    | (s', .unit) => (s'.addAll t.cells, .unit)
    | x => x)
  | .mapping m => s.setAll m
  | .pairs l => s.updPairs [] l

/-- `update(E, **F)` -/
def update (s : OMD3 K V) (E : Arg K V) (F : List (K × V)) : OMD3 K V × Out K V :=
  match s.updateE E with
  | (s1, .unit) => s1.setAll F
  | x => x

/-- `update_extend(E, **F)` -/
def updateExtend (s : OMD3 K V) (E : Arg K V) (F : List (K × V)) : OMD3 K V × Out K V :=
  match E with
  | .self => match s.abs.items with
    | .error e => (s, .err e)
    | .ok l => ((s.addAll l).addAll F, .unit)
  | .omd t => ((s.addAll t.cells).addAll F, .unit)
  | .mapping m => ((s.addAll m).addAll F, .unit)
  | .pairs l => ((s.addAll l).addAll F, .unit)

/-- the constructor `cls(E, **F)` -/
def new (E : Option (Arg K V)) (F : List (K × V)) : OMD3 K V × Out K V :=
  match E with
  | none => (empty : OMD3 K V).setAll F
  | some E => match (empty : OMD3 K V).updateExtend E [] with
    | (s, .unit) => s.setAll F
    | x => x

/-- `cls(pairs)`: `copy()`, `__setstate__` (copy module, pickle), `sorted`, `inverted` -/
def fromPairs (l : List (K × V)) : OMD3 K V := (empty : OMD3 K V).addAll l

def copy (s : OMD3 K V) : OMD3 K V := fromPairs s.ll.flat

/-- `setdefault` -/
def setdefault (s : OMD3 K V) (k : K) (v : V) : OMD3 K V × Out K V :=
  match (if dhas k s.vals then (s, Out.unit) else s.setitem k v) with
  | (s', .unit) => (s', match s'.abs.getitem k with | .ok x => .val x | .error e => .err e)
  | x => x

/-- `popall(k[, default])`: `if super().__contains__(k): _remove_all(k)`; `super().pop(k[, default])` -/
def popall (s : OMD3 K V) (k : K) (hasD : Bool) : OMD3 K V × Out K V :=
  match dget k s.vals with
  | none => (s, if hasD then .dflt else .err .keyError)
  | some vs => match s.ll.removeAll k with
    | .ok l => (⟨ddel k s.vals, l⟩, .vals vs)
    | .error e => (s, .err e)

/-- `pop(k[, default])`: `try: return self.popall(k)[-1]  except KeyError: default / raise` -/
def pop (s : OMD3 K V) (k : K) (hasD : Bool) : OMD3 K V × Out K V :=
  match s.popall k false with
  | (s', .vals vs) => (s', match vs.getLast? with | some v => .val v | none => .err .indexError)
  | (s', .err .keyError) => (s', if hasD then .dflt else .err .keyError)
  | x => x

/-- `poplast(k[, default])` for a given key: `try: self._remove(k)  except KeyError: default / raise`;
    `values = super().__getitem__(k)`; `v = values.pop()`; `if not values: super().__delitem__(k)` -/
def poplastKey (s : OMD3 K V) (k : K) (hasD : Bool) : OMD3 K V × Out K V :=
  match s.ll.remove k with
  | .error .keyError => (s, if hasD then .dflt else .err .keyError)
  | .error e => (s, .err e)
  | .ok l => match dget k s.vals with
    | none => (⟨s.vals, l⟩, .err .keyError)
    | some vs => match vs.getLast? with
      | none => (⟨s.vals, l⟩, .err .indexError)
      | some v => (⟨if vs.dropLast.isEmpty then ddel k s.vals else dset k vs.dropLast s.vals, l⟩, .val v)

/-- `poplast()` / `poplast(k)`; without a key: `if self: k = root[PREV][KEY]` -/
def poplast (s : OMD3 K V) (k : Option K) (hasD : Bool) : OMD3 K V × Out K V :=
  match k with
  | some k => s.poplastKey k hasD
  | none =>
    if s.vals.isEmpty then (s, if hasD then .dflt else .err .keyError)
    else match s.ll.lastKey with
      | none => (s, if hasD then .dflt else .err .keyError)
      | some k => s.poplastKey k hasD

/-- `popitem()`: `if not self: KeyError`; `k = root[PREV][KEY]`; `return k, self.pop(k)` -/
def popitem (s : OMD3 K V) : OMD3 K V × Out K V :=
  if s.vals.isEmpty then (s, .err .keyError)
  else match s.ll.lastKey with
    | none => (s, .err .keyError)
    | some k => match s.pop k false with
      | (s', .val v) => (s', .pair k v)
      | x => x

/-- `clear()`: `super().clear()`, `_clear_ll()` -/
def clear (s : OMD3 K V) : OMD3 K V := ⟨[], s.ll.clear⟩

/-- `__reversed__`: `curr = root[PREV]; while curr is not root: …; curr = curr[PREV]` with the
    per-key counting of `OMD.reversedAux` -/
def reversed (s : OMD3 K V) : Except Err (List K) := OMD.reversedAux s.vals [] s.ll.flatBack

end OMD3

/-! ### histories on the concrete layer (same operations, same two registers) -/

structure HState3 (K V : Type) where
  s : OMD3 K V
  t : OMD3 K V

variable {K V : Type} [DecidableEq K]

def HState3.abs (st : HState3 K V) : HState K V := ⟨st.s.abs, st.t.abs⟩

def HState3.withS (st : HState3 K V) (r : OMD3 K V × Out K V) : HState3 K V × Out K V :=
  (⟨r.1, st.t⟩, r.2)

def HState3.init : HState3 K V := ⟨OMD3.empty, OMD3.empty⟩

/-- arguments are only read, through the walks of the abstraction -/
def hstep3 (st : HState3 K V) : HOp K V → HState3 K V × Out K V
  | .new E F => st.withS (OMD3.new (E.map (HArg.resolveNew st.abs)) F)
  | .add k v => (⟨st.s.add k v, st.t⟩, .unit)
  | .addlist k vs => (⟨st.s.addlist k vs, st.t⟩, .unit)
  | .setitem k v => st.withS (st.s.setitem k v)
  | .delitem k => st.withS (st.s.delitem k)
  | .update E F => st.withS (st.s.update (E.resolve st.abs) F)
  | .updateExtend E F => st.withS (st.s.updateExtend (E.resolve st.abs) F)
  | .setdefault k v => st.withS (st.s.setdefault k v)
  | .pop k d => st.withS (st.s.pop k d)
  | .popall k d => st.withS (st.s.popall k d)
  | .poplast k d => st.withS (st.s.poplast k d)
  | .popitem => st.withS st.s.popitem
  | .clear => (⟨st.s.clear, st.t⟩, .unit)
  | .addlistAbort _ _ => (st, .abort)
  | .updateAbort l => match st.s.updPairs [] l with
    | (s', .unit) => (⟨s', st.t⟩, .abort)
    | (s', o) => (⟨s', st.t⟩, o)
  | .updateExtendAbort l => (⟨st.s.addAll l, st.t⟩, .abort)
  | .updateMapAbort l => match st.s.setAll l with
    | (s', .unit) => (⟨s', st.t⟩, .abort)
    | (s', o) => (⟨s', st.t⟩, o)
  | .rejected => (st, .abort)
  | .copyToT => (⟨st.s, st.s.copy⟩, .unit)
  | .copyToS => (⟨st.s.copy, st.t⟩, .unit)
  | .swap => (⟨st.t, st.s⟩, .unit)

def hrun3 (st : HState3 K V) : List (HOp K V) → List (HState3 K V × Out K V)
  | [] => []
  | op :: ops => let r := hstep3 st op; r :: hrun3 r.1 ops

end C01
