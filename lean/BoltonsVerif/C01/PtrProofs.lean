import BoltonsVerif.C01.LLProofs
import BoltonsVerif.C01.Ptr
/-
C01 — the pointer level (`Ptr.lean`) refines the list of identified cells (`LL.lean`):
the shape invariant of the circular doubly linked list (`Fwd` along `NEXT`, `Bwd` along `PREV`),
what `_insert` and the unlinking assignment do to it, and the commutation of the four helpers
with the read-back `PL.abs`.
-/
namespace C01

/-! ### pointer fields -/

theorem look_dset (m : Ptrs) (k b a : Nat) : look (dset k b m) a = if a = k then b else look m a := by
  unfold look; rw [dget_dset]; split <;> rfl

/-- `a → l₀ → l₁ → … → b` along `NEXT` -/
def Fwd (n : Ptrs) : Nat → List Nat → Nat → Prop
  | a, [], b => look n a = b
  | a, x :: xs, b => look n a = x ∧ Fwd n x xs b

/-- the `PREV` pointers of `l₀, l₁, …, b` point one step back, down to `a` -/
def Bwd (p : Ptrs) : Nat → List Nat → Nat → Prop
  | a, [], b => look p b = a
  | a, x :: xs, b => look p x = a ∧ Bwd p x xs b

/-- the last of `a :: l` -/
def lastOr (a : Nat) (l : List Nat) : Nat := l.getLast?.getD a

/-- the first of `l ++ [b]` -/
def headOr (l : List Nat) (b : Nat) : Nat := l.head?.getD b

@[simp] theorem lastOr_nil (a : Nat) : lastOr a [] = a := rfl
theorem lastOr_cons (a x : Nat) (xs : List Nat) : lastOr a (x :: xs) = lastOr x xs := by
  cases xs with
  | nil => rfl
  | cons y ys =>
    cases h : (y :: ys).getLast? with
    | none => simp at h
    | some v => simp [lastOr, List.getLast?_cons_cons, h]

theorem lastOr_mem (a : Nat) (l : List Nat) : lastOr a l ∈ a :: l := by
  induction l generalizing a with
  | nil => simp
  | cons x xs ih => rw [lastOr_cons]; exact List.mem_cons_of_mem _ (ih x)

theorem fwd_split (n : Ptrs) (a b c : Nat) (A B : List Nat) :
    Fwd n a (A ++ c :: B) b ↔ Fwd n a A c ∧ Fwd n c B b := by
  induction A generalizing a with
  | nil => simp [Fwd]
  | cons x xs ih => simp only [List.cons_append, Fwd, ih, and_assoc]

theorem bwd_split (p : Ptrs) (a b c : Nat) (A B : List Nat) :
    Bwd p a (A ++ c :: B) b ↔ Bwd p a A c ∧ Bwd p c B b := by
  induction A generalizing a with
  | nil => simp [Bwd]
  | cons x xs ih => simp only [List.cons_append, Bwd, ih, and_assoc]

theorem fwd_congr (n n' : Ptrs) (a b : Nat) (l : List Nat) (h : ∀ x ∈ a :: l, look n' x = look n x) :
    Fwd n a l b → Fwd n' a l b := by
  induction l generalizing a with
  | nil => intro hf; simp only [Fwd] at hf ⊢; rw [h a (by simp)]; exact hf
  | cons x xs ih =>
    intro hf
    simp only [Fwd] at hf ⊢
    exact ⟨by rw [h a (by simp)]; exact hf.1, ih x (fun y hy => h y (List.mem_cons_of_mem _ hy)) hf.2⟩

theorem bwd_congr (p p' : Ptrs) (a b : Nat) (l : List Nat) (h : ∀ x ∈ l ++ [b], look p' x = look p x) :
    Bwd p a l b → Bwd p' a l b := by
  induction l generalizing a with
  | nil => intro hb; simp only [Bwd] at hb ⊢; rw [h b (by simp)]; exact hb
  | cons x xs ih =>
    intro hb
    simp only [Bwd] at hb ⊢
    exact ⟨by rw [h x (by simp)]; exact hb.1, ih x (fun y hy => h y (by simp at hy ⊢; exact Or.inr hy)) hb.2⟩

/-- redirect the `NEXT` pointer of the last node of the chain -/
theorem fwd_relast (n : Ptrs) (a b b' : Nat) (l : List Nat) (hnd : (a :: l).Nodup) :
    Fwd n a l b → Fwd (dset (lastOr a l) b' n) a l b' := by
  induction l generalizing a with
  | nil => intro _; simp [Fwd, look_dset]
  | cons x xs ih =>
    intro hf
    simp only [Fwd] at hf ⊢
    rw [lastOr_cons]
    have hne : a ≠ lastOr x xs := by
      intro e
      have := lastOr_mem x xs
      rw [← e] at this
      exact (List.nodup_cons.mp hnd).1 this
    exact ⟨by rw [look_dset, if_neg hne]; exact hf.1, ih x (List.nodup_cons.mp hnd).2 hf.2⟩

theorem bwd_last (p : Ptrs) (a b : Nat) (l : List Nat) : Bwd p a l b → look p b = lastOr a l := by
  induction l generalizing a with
  | nil => intro h; exact h
  | cons x xs ih => intro h; rw [lastOr_cons]; exact ih x h.2

/-- let another node `b'` be the one whose `PREV` closes the chain -/
theorem bwd_retarget (p p' : Ptrs) (a b b' : Nat) (l : List Nat) (h : ∀ x ∈ l, look p' x = look p x)
    (hb' : look p' b' = lastOr a l) : Bwd p a l b → Bwd p' a l b' := by
  induction l generalizing a with
  | nil => intro _; exact hb'
  | cons x xs ih =>
    intro hb
    simp only [Bwd] at hb ⊢
    rw [lastOr_cons] at hb'
    exact ⟨by rw [h x (by simp)]; exact hb.1, ih x (fun y hy => h y (List.mem_cons_of_mem _ hy)) hb' hb.2⟩

theorem fwd_head (n : Ptrs) (a b : Nat) (l : List Nat) : Fwd n a l b → look n a = headOr l b := by
  cases l with
  | nil => intro h; exact h
  | cons x xs => intro h; exact h.1

/-- the walk along `NEXT` reads the chain back -/
theorem walk_fwd (n : Ptrs) (l : List Nat) : ∀ (a fuel : Nat), Fwd n a l 0 → 0 ∉ l → l.length < fuel →
    walk n fuel (look n a) = l := by
  induction l with
  | nil =>
    intro a fuel hf _ hl
    simp only [Fwd] at hf
    cases fuel with
    | zero => simp at hl
    | succ f => simp [walk, hf]
  | cons x xs ih =>
    intro a fuel hf h0 hl
    simp only [Fwd] at hf
    cases fuel with
    | zero => simp at hl
    | succ f =>
      have hx : x ≠ 0 := fun e => h0 (by simp [e])
      simp only [walk, hf.1, hx, ↓reduceIte]
      rw [ih x f hf.2 (fun hh => h0 (List.mem_cons_of_mem _ hh)) (by simp at hl; omega)]

/-- the walk along `PREV` reads the chain back in reverse -/
theorem walk_bwd_rev (p : Ptrs) (r : List Nat) : ∀ (b fuel : Nat), Bwd p 0 r.reverse b → 0 ∉ r → r.length < fuel →
    walk p fuel (look p b) = r := by
  induction r with
  | nil =>
    intro b fuel hb _ hl
    simp only [List.reverse_nil, Bwd] at hb
    cases fuel with
    | zero => simp at hl
    | succ f => simp [walk, hb]
  | cons x rs ih =>
    intro b fuel hb h0 hl
    rw [List.reverse_cons, show rs.reverse ++ [x] = rs.reverse ++ x :: [] from rfl, bwd_split] at hb
    simp only [Bwd] at hb
    cases fuel with
    | zero => simp at hl
    | succ f =>
      have hx : x ≠ 0 := fun e => h0 (by simp [e])
      simp only [walk, hb.2, hx, ↓reduceIte]
      rw [ih x f hb.1 (fun hh => h0 (List.mem_cons_of_mem _ hh)) (by simp at hl; omega)]

theorem walk_bwd (p : Ptrs) (l : List Nat) (b fuel : Nat) (hb : Bwd p 0 l b) (h0 : 0 ∉ l) (hl : l.length < fuel) :
    walk p fuel (look p b) = l.reverse :=
  walk_bwd_rev p l.reverse b fuel (by simpa using hb) (by simpa using h0) (by simpa using hl)

/-! ### the shape of the circular list and the two pointer operations -/

structure Shape (n p : Ptrs) (l : List Nat) : Prop where
  fwd : Fwd n 0 l 0
  bwd : Bwd p 0 l 0
  nodup : (0 :: l).Nodup

theorem shape_empty : Shape [] [] [] := ⟨rfl, rfl, by simp⟩

theorem shape_clear (n p : Ptrs) : Shape (dset 0 0 n) (dset 0 0 p) [] :=
  ⟨by simp [Fwd, look_dset], by simp [Bwd, look_dset], by simp⟩

/-- `last = root[PREV]; cell = [last, root, …]; last[NEXT] = root[PREV] = cell` appends the new cell -/
theorem shape_insert {n p : Ptrs} {l : List Nat} (h : Shape n p l) (c : Nat) (hc : c ∉ 0 :: l) :
    Shape (dset (look p 0) c (dset c 0 n)) (dset 0 c (dset c (look p 0) p)) (l ++ [c]) := by
  have hlast : look p 0 = lastOr 0 l := bwd_last p 0 0 l h.bwd
  have hc0 : c ≠ 0 := fun e => hc (by simp [e])
  have hcl : c ∉ l := fun hh => hc (List.mem_cons_of_mem _ hh)
  have hlc : lastOr 0 l ≠ c := fun e => hc (e ▸ lastOr_mem 0 l)
  refine ⟨?_, ?_, ?_⟩
  · rw [show l ++ [c] = l ++ c :: [] from rfl, fwd_split]
    refine ⟨?_, ?_⟩
    · rw [hlast]
      apply fwd_relast (dset c 0 n) 0 0 c l h.nodup
      apply fwd_congr n _ 0 0 l _ h.fwd
      intro x hx
      rw [look_dset, if_neg]
      intro e; exact hc (e ▸ hx)
    · simp only [Fwd, look_dset, hlast]
      rw [if_neg (fun e => hlc e.symm)]; simp
  · rw [show l ++ [c] = l ++ c :: [] from rfl, bwd_split]
    refine ⟨?_, ?_⟩
    · apply bwd_retarget p _ 0 0 c l _ _ h.bwd
      · intro x hx
        rw [look_dset, look_dset, if_neg, if_neg]
        · intro e; exact hcl (e ▸ hx)
        · intro e; exact (List.nodup_cons.mp h.nodup).1 (e ▸ hx)
      · rw [look_dset, if_neg hc0, look_dset, if_pos rfl, hlast]
    · simp [Bwd, look_dset]
  · rw [show (0 :: (l ++ [c])) = (0 :: l) ++ [c] from rfl, List.nodup_append]
    refine ⟨h.nodup, by simp, ?_⟩
    intro a ha b hb
    simp only [List.mem_singleton] at hb
    subst hb
    intro e; exact hc (e ▸ ha)

/-- `cell[PREV][NEXT], cell[NEXT][PREV] = cell[NEXT], cell[PREV]` takes the cell out of the list -/
theorem shape_unlink {n p : Ptrs} {A B : List Nat} {c : Nat} (h : Shape n p (A ++ c :: B)) :
    Shape (unlinkP c (n, p)).1 (unlinkP c (n, p)).2 (A ++ B) := by
  obtain ⟨hf, hb, hnd⟩ := h
  rw [fwd_split] at hf
  rw [bwd_split] at hb
  have hnd' : (0 :: A).Nodup ∧ (c :: B).Nodup ∧ ∀ x ∈ 0 :: A, ∀ y ∈ c :: B, x ≠ y := by
    have : (0 :: (A ++ c :: B)) = (0 :: A) ++ (c :: B) := rfl
    rw [this, List.nodup_append] at hnd
    exact hnd
  obtain ⟨ndA, ndB, hdis⟩ := hnd'
  have hp : look p c = lastOr 0 A := bwd_last p 0 c A hb.1
  have hn : look n c = headOr B 0 := fwd_head n c 0 B hf.2
  have hpm : lastOr 0 A ∈ 0 :: A := lastOr_mem 0 A
  simp only [unlinkP, hp, hn]
  refine ⟨?_, ?_, ?_⟩
  · -- NEXT: the predecessor now points to the successor
    cases B with
    | nil =>
      simp only [headOr, List.head?_nil, Option.getD_none, List.append_nil]
      exact fwd_relast n 0 c 0 A ndA hf.1
    | cons y B' =>
      simp only [headOr, List.head?_cons, Option.getD_some]
      rw [fwd_split]
      refine ⟨fwd_relast n 0 c y A ndA hf.1, ?_⟩
      simp only [Fwd] at hf
      apply fwd_congr n _ y 0 B' _ hf.2.2
      intro x hx
      rw [look_dset, if_neg]
      intro e
      exact hdis _ hpm x (List.mem_cons_of_mem _ hx) e.symm
  · -- PREV: the successor now points back to the predecessor
    cases B with
    | nil =>
      simp only [headOr, List.head?_nil, Option.getD_none, List.append_nil]
      apply bwd_retarget p _ 0 c 0 A _ _ hb.1
      · intro x hx
        rw [look_dset, if_neg]
        intro e; exact (List.nodup_cons.mp ndA).1 (e ▸ hx)
      · simp [look_dset]
    | cons y B' =>
      simp only [headOr, List.head?_cons, Option.getD_some]
      rw [bwd_split]
      refine ⟨?_, ?_⟩
      · apply bwd_retarget p _ 0 c y A _ _ hb.1
        · intro x hx
          rw [look_dset, if_neg]
          intro e
          exact hdis x (List.mem_cons_of_mem _ hx) y (by simp) e
        · simp [look_dset]
      · simp only [Bwd] at hb
        apply bwd_congr p _ y 0 B' _ hb.2.2
        intro x hx
        rw [look_dset, if_neg]
        intro e
        subst e
        simp only [List.mem_append, List.mem_singleton] at hx
        rcases hx with hx | hx
        · exact (List.nodup_cons.mp (List.nodup_cons.mp ndB).2).1 hx
        · exact hdis 0 (by simp) x (by simp) hx.symm
  · have : (0 :: (A ++ B)) = (0 :: A) ++ B := rfl
    rw [this, List.nodup_append]
    exact ⟨ndA, (List.nodup_cons.mp ndB).2, fun x hx y hy => hdis x hx y (List.mem_cons_of_mem _ hy)⟩

/-- unlinking a member of the list, however the list is written -/
theorem shape_unlink_mem {n p : Ptrs} {l : List Nat} {c : Nat} (h : Shape n p l) (hc : c ∈ l) :
    Shape (unlinkP c (n, p)).1 (unlinkP c (n, p)).2 (l.filter (fun i => !decide (i = c))) := by
  obtain ⟨A, B, rfl⟩ := List.append_of_mem hc
  have hnd := h.nodup
  have hA : c ∉ A ∧ c ∉ B := by
    have : (A ++ c :: B).Nodup := (List.nodup_cons.mp hnd).2
    rw [List.nodup_append] at this
    refine ⟨fun hh => this.2.2 c hh c (by simp) rfl, (List.nodup_cons.mp this.2.1).1⟩
  have hfilt : (A ++ c :: B).filter (fun i => !decide (i = c)) = A ++ B := by
    rw [List.filter_append, List.filter_cons]
    simp only [decide_true, Bool.not_true, Bool.false_eq_true, ↓reduceIte]
    rw [List.filter_eq_self.mpr, List.filter_eq_self.mpr]
    · intro x hx; simp; intro e; exact hA.2 (e ▸ hx)
    · intro x hx; simp; intro e; exact hA.1 (e ▸ hx)
  rw [hfilt]
  exact shape_unlink h

/-- the `while values: cell = values.pop(); unlink` loop -/
theorem shape_unlink_all (cs : List Nat) : ∀ {n p : Ptrs} {l : List Nat}, Shape n p l → cs.Nodup → (∀ c ∈ cs, c ∈ l) →
    Shape (cs.foldl (fun np c => unlinkP c np) (n, p)).1 (cs.foldl (fun np c => unlinkP c np) (n, p)).2
      (l.filter (fun i => !decide (i ∈ cs))) := by
  induction cs with
  | nil =>
    intro n p l h _ _
    simp only [List.foldl_nil, List.not_mem_nil, decide_false, Bool.not_false]
    rw [List.filter_eq_self.mpr (fun _ _ => rfl)]
    exact h
  | cons c cs ih =>
    intro n p l h hnd hsub
    rw [List.nodup_cons] at hnd
    have h1 := shape_unlink_mem h (hsub c (by simp))
    have h2 := ih (n := (unlinkP c (n, p)).1) (p := (unlinkP c (n, p)).2) h1 hnd.2 (by
      intro x hx
      rw [List.mem_filter]
      refine ⟨hsub x (List.mem_cons_of_mem _ hx), ?_⟩
      simp only [Bool.not_eq_eq_eq_not, Bool.not_true, decide_eq_false_iff_not]
      intro e; exact hnd.1 (e ▸ hx))
    simp only [List.foldl_cons]
    rw [List.filter_filter] at h2
    have : (fun i => !decide (i ∈ c :: cs)) = fun a => (!decide (a ∈ cs)) && !decide (a = c) := by
      funext i; by_cases e : i = c <;> simp [e]
    rw [this]
    exact h2

/-! ### the heap read back -/
section pl
variable {K V : Type} [DecidableEq K]

/-- the cells reachable from `root` are `is`, in this order -/
structure PShape (l : PL K V) (is : List Nat) : Prop where
  shape : Shape l.nxt l.prv is
  lt : ∀ i ∈ is, i < l.fresh
  len : is.length < l.fresh
  pay : ∀ i ∈ is, (dget i l.pay).isSome
  pay0 : dget 0 l.pay = none

theorem PShape.zero_not_mem {l : PL K V} {is : List Nat} (h : PShape l is) : 0 ∉ is :=
  (List.nodup_cons.mp h.shape.nodup).1

theorem PShape.ids_eq {l : PL K V} {is : List Nat} (h : PShape l is) : l.ids = is :=
  walk_fwd l.nxt is 0 l.fresh h.shape.fwd h.zero_not_mem h.len

/-- the walk along `PREV` (what `__reversed__` follows) meets the same cells in reverse order -/
theorem PShape.idsBack_eq {l : PL K V} {is : List Nat} (h : PShape l is) : l.idsBack = is.reverse :=
  walk_bwd l.prv is 0 l.fresh h.shape.bwd h.zero_not_mem h.len

def cellsOf (pay : List (Nat × (K × V))) (is : List Nat) : List (Cell K V) := is.filterMap (cellAt pay)

theorem PShape.cells_eq {l : PL K V} {is : List Nat} (h : PShape l is) : l.cells = cellsOf l.pay is := by
  rw [PL.cells, h.ids_eq]; rfl

theorem cellAt_id (pay : List (Nat × (K × V))) (i : Nat) (x : Cell K V) (h : cellAt pay i = some x) : x.id = i := by
  unfold cellAt at h
  cases hd : dget i pay with
  | none => simp [hd] at h
  | some kv => simp [hd] at h; rw [← h]

theorem cellsOf_ids (pay : List (Nat × (K × V))) (is : List Nat) (h : ∀ i ∈ is, (dget i pay).isSome) :
    (cellsOf pay is).map (·.id) = is := by
  induction is with
  | nil => rfl
  | cons i r ih =>
    have hi := h i (by simp)
    cases hd : dget i pay with
    | none => simp [hd] at hi
    | some kv =>
      simp only [cellsOf, List.filterMap_cons, cellAt, hd, Option.map_some, List.map_cons]
      congr 1
      exact ih (fun j hj => h j (List.mem_cons_of_mem _ hj))

/-- filtering cells by identity = filtering identities -/
theorem cellsOf_filter (pay : List (Nat × (K × V))) (q : Nat → Bool) (is : List Nat) :
    (cellsOf pay is).filter (fun x => q x.id) = cellsOf pay (is.filter q) := by
  induction is with
  | nil => rfl
  | cons i r ih =>
    simp only [cellsOf, List.filterMap_cons, List.filter_cons] at ih ⊢
    cases hc : cellAt pay i with
    | none =>
      simp only [hc]
      split
      · simp only [List.filterMap_cons, hc]; exact ih
      · exact ih
    | some x =>
      have hid := cellAt_id pay i x hc
      simp only [hc, List.filter_cons, hid]
      split
      · simp only [List.filterMap_cons, hc]; rw [ih]
      · exact ih

theorem cellsOf_congr (pay pay' : List (Nat × (K × V))) (is : List Nat) (h : ∀ i ∈ is, dget i pay' = dget i pay) :
    cellsOf pay' is = cellsOf pay is := by
  unfold cellsOf
  induction is with
  | nil => rfl
  | cons i r ih =>
    simp only [List.filterMap_cons, cellAt, h i (by simp)]
    rw [ih (fun j hj => h j (List.mem_cons_of_mem _ hj))]

/-- the representation invariant of the pointer level: the heap has the shape of a circular
    doubly linked list through `root`, and read back it is a consistent list of identified cells -/
structure PInv (l : PL K V) : Prop where
  shape : PShape l l.ids
  ll : LLInv l.abs

theorem pinv_of {l : PL K V} {is : List Nat} (h : PShape l is) (hl : LLInv l.abs) : PInv l :=
  ⟨by rw [h.ids_eq]; exact h, hl⟩

theorem pshape_empty : PShape (PL.empty : PL K V) [] :=
  ⟨shape_empty, by simp, by simp [PL.empty], by simp, rfl⟩

theorem abs_empty : (PL.empty : PL K V).abs = LL.empty := by
  unfold PL.abs PL.cells
  rw [pshape_empty.ids_eq]
  rfl

theorem pinv_empty : PInv (PL.empty : PL K V) := pinv_of pshape_empty (by rw [abs_empty]; exact llinv_empty)

theorem pclear_spec {l : PL K V} (h : PInv l) : PInv l.clear ∧ l.clear.abs = l.abs.clear := by
  have hs : PShape l.clear [] :=
    ⟨shape_clear _ _, by simp, by have := h.shape.len; simp only [PL.clear, List.length_nil]; omega, by simp,
     h.shape.pay0⟩
  have ha : l.clear.abs = l.abs.clear := by
    simp only [PL.abs, hs.cells_eq, LL.clear]; rfl
  exact ⟨pinv_of hs (by rw [ha]; exact llinv_clear _), ha⟩

/-- `_insert(k, v)` on the heap is `_insert(k, v)` on the list of identified cells -/
theorem pinsert_spec {l : PL K V} (h : PInv l) (k : K) (v : V) :
    PInv (l.insert k v) ∧ (l.insert k v).abs = l.abs.insert k v := by
  have hs := h.shape
  have hfresh : l.fresh ∉ 0 :: l.ids := by
    simp only [List.mem_cons, not_or]
    refine ⟨fun e => by have := hs.len; omega, fun hm => Nat.lt_irrefl _ (hs.lt _ hm)⟩
  have hne : ∀ i ∈ l.ids, i ≠ l.fresh := fun i hi e => hfresh (List.mem_cons_of_mem _ (e ▸ hi))
  have hs' : PShape (l.insert k v) (l.ids ++ [l.fresh]) := by
    refine ⟨shape_insert hs.shape l.fresh hfresh, ?_, ?_, ?_, ?_⟩
    · intro i hi
      simp only [List.mem_append, List.mem_singleton] at hi
      rcases hi with hi | rfl
      · exact Nat.lt_succ_of_lt (hs.lt i hi)
      · exact Nat.lt_succ_self _
    · simp only [PL.insert, List.length_append, List.length_singleton]; have := hs.len; omega
    · intro i hi
      simp only [List.mem_append, List.mem_singleton] at hi
      simp only [PL.insert, dget_dset]
      split
      · rfl
      · rcases hi with hi | e
        · exact hs.pay i hi
        · rename_i hne'; exact absurd e hne'
    · simp only [PL.insert, dget_dset]
      rw [if_neg (fun e => by have := hs.len; omega)]
      exact hs.pay0
  have ha : (l.insert k v).abs = l.abs.insert k v := by
    simp only [PL.abs, hs'.cells_eq, hs.cells_eq, LL.insert]
    congr 1
    show cellsOf (dset l.fresh (k, v) l.pay) (l.ids ++ [l.fresh]) = cellsOf l.pay l.ids ++ [⟨l.fresh, k, v⟩]
    have h1 : cellsOf (dset l.fresh (k, v) l.pay) l.ids = cellsOf l.pay l.ids :=
      cellsOf_congr _ _ _ (fun i hi => by rw [dget_dset, if_neg (hne i hi)])
    simp only [cellsOf, List.filterMap_append] at h1 ⊢
    rw [h1]
    simp [cellAt, dget_dset]
  exact ⟨pinv_of hs' (by rw [ha]; exact llinv_insert h.ll k v), ha⟩

theorem pflat_insert {l : PL K V} (h : PInv l) (k : K) (v : V) : (l.insert k v).flat = l.flat ++ [(k, v)] := by
  rw [PL.flat, (pinsert_spec h k v).2, flat_insert]; rfl

theorem pinsertAll_spec {l : PL K V} (h : PInv l) (k : K) (vs : List V) :
    PInv (vs.foldl (fun l v => l.insert k v) l) ∧
    (vs.foldl (fun l v => l.insert k v) l).flat = l.flat ++ vs.map (fun v => (k, v)) := by
  induction vs generalizing l with
  | nil => simp [h]
  | cons v r ih =>
    have := ih (pinsert_spec h k v).1
    simp only [List.foldl_cons]
    refine ⟨this.1, ?_⟩
    rw [this.2, pflat_insert h]; simp

theorem ids_of_cells {l : PL K V} (h : PInv l) : l.abs.cells.map (·.id) = l.ids := by
  show l.cells.map (·.id) = l.ids
  rw [h.shape.cells_eq]; exact cellsOf_ids _ _ h.shape.pay

/-- `_remove(k)` on the heap is `_remove(k)` on the list of identified cells -/
theorem premove_abs {l : PL K V} (h : PInv l) (k : K) :
    (∀ l', l.remove k = .ok l' → l.abs.remove k = .ok l'.abs ∧ PShape l' l'.ids) ∧
    (∀ e, l.remove k = .error e → l.abs.remove k = .error e) := by
  have hm : l.abs.map = l.map := rfl
  cases hd : dget k l.map with
  | none =>
    have e1 : l.remove k = .error .keyError := by simp [PL.remove, hd]
    have e2 : l.abs.remove k = .error .keyError := by simp [LL.remove, hm, hd]
    exact ⟨fun l' hl => (by rw [e1] at hl; cases hl), fun e he => (by rw [e1] at he; cases he; exact e2)⟩
  | some ids =>
    cases hc : ids.getLast? with
    | none =>
      have e1 : l.remove k = .error .indexError := by simp [PL.remove, hd, hc]
      have e2 : l.abs.remove k = .error .indexError := by simp [LL.remove, hm, hd, hc]
      exact ⟨fun l' hl => (by rw [e1] at hl; cases hl), fun e he => (by rw [e1] at he; cases he; exact e2)⟩
    | some c =>
      have e1 : l.remove k = .ok ⟨(unlinkP c (l.nxt, l.prv)).1, (unlinkP c (l.nxt, l.prv)).2, l.pay,
          if ids.dropLast.isEmpty then ddel k l.map else dset k ids.dropLast l.map, l.fresh⟩ := by
        simp [PL.remove, hd, hc]
      have e2 : l.abs.remove k = .ok ⟨LL.unlink c l.abs.cells,
          if ids.dropLast.isEmpty then ddel k l.map else dset k ids.dropLast l.map, l.fresh⟩ := by
        simp [LL.remove, hm, hd, hc]; rfl
      refine ⟨fun l' hl => ?_, fun e he => (by rw [e1] at he; cases he)⟩
      rw [e1] at hl
      simp only [Except.ok.injEq] at hl
      subst hl
      -- the cell that is unlinked is one of the linked cells
      have hagree := h.ll.map_agree k
      rw [hm, hd] at hagree
      have hids : ids = idsOf k l.abs.cells := ((ne?_eq_some).mp hagree.symm).1.symm
      have hcm : c ∈ l.ids := by
        rw [← ids_of_cells h]
        exact idsOf_subset k _ c (hids ▸ List.mem_of_getLast? hc)
      have hsh := shape_unlink_mem h.shape.shape hcm
      have hs' : PShape (⟨(unlinkP c (l.nxt, l.prv)).1, (unlinkP c (l.nxt, l.prv)).2, l.pay,
          if ids.dropLast.isEmpty then ddel k l.map else dset k ids.dropLast l.map, l.fresh⟩ : PL K V)
          (l.ids.filter (fun i => !decide (i = c))) :=
        ⟨hsh, fun i hi => h.shape.lt i (List.mem_filter.mp hi).1,
         Nat.lt_of_le_of_lt (List.length_filter_le _ _) h.shape.len,
         fun i hi => h.shape.pay i (List.mem_filter.mp hi).1, h.shape.pay0⟩
      refine ⟨?_, by rw [hs'.ids_eq]; exact hs'⟩
      rw [e2]
      simp only [PL.abs, hs'.cells_eq, h.shape.cells_eq, LL.unlink]
      congr 2
      exact cellsOf_filter l.pay (fun i => !decide (i = c)) l.ids

theorem premove_spec {l : PL K V} (h : PInv l) (k : K) :
    if l.flat.any (isK k) = true then
      ∃ l', l.remove k = .ok l' ∧ PInv l' ∧ l'.flat = rmLast k l.flat
    else l.remove k = .error .keyError := by
  have hr := remove_spec h.ll k
  obtain ⟨h1, h2⟩ := premove_abs h k
  show if l.abs.flat.any (isK k) = true then _ else _
  split
  · rename_i ha
    simp only [ha, ↓reduceIte] at hr
    obtain ⟨L', e1, i1, f1⟩ := hr
    cases hq : l.remove k with
    | error e => rw [h2 e hq] at e1; simp at e1
    | ok l' =>
      obtain ⟨a1, a2⟩ := h1 l' hq
      rw [a1] at e1
      simp only [Except.ok.injEq] at e1
      exact ⟨l', rfl, ⟨a2, e1 ▸ i1⟩, by rw [PL.flat, e1]; exact f1⟩
  · rename_i ha
    simp only [ha, Bool.false_eq_true, ↓reduceIte] at hr
    cases hq : l.remove k with
    | error e => rw [h2 e hq] at hr; exact congrArg Except.error (Except.error.inj hr)
    | ok l' => rw [(h1 l' hq).1] at hr; simp at hr

/-- `_remove_all(k)` on the heap is `_remove_all(k)` on the list of identified cells -/
theorem premoveAll_abs {l : PL K V} (h : PInv l) (k : K) :
    (∀ l', l.removeAll k = .ok l' → l.abs.removeAll k = .ok l'.abs ∧ PShape l' l'.ids) ∧
    (∀ e, l.removeAll k = .error e → l.abs.removeAll k = .error e) := by
  have hm : l.abs.map = l.map := rfl
  cases hd : dget k l.map with
  | none =>
    have e1 : l.removeAll k = .error .keyError := by simp [PL.removeAll, hd]
    have e2 : l.abs.removeAll k = .error .keyError := by simp [LL.removeAll, hm, hd]
    exact ⟨fun l' hl => (by rw [e1] at hl; cases hl), fun e he => (by rw [e1] at he; cases he; exact e2)⟩
  | some ids =>
    have e1 : l.removeAll k = .ok ⟨(ids.reverse.foldl (fun np c => unlinkP c np) (l.nxt, l.prv)).1,
        (ids.reverse.foldl (fun np c => unlinkP c np) (l.nxt, l.prv)).2, l.pay, ddel k l.map, l.fresh⟩ := by
      simp [PL.removeAll, hd]
    have e2 : l.abs.removeAll k = .ok ⟨LL.unlinkAll ids l.abs.cells, ddel k l.map, l.fresh⟩ := by
      simp [LL.removeAll, hm, hd]; rfl
    refine ⟨fun l' hl => ?_, fun e he => (by rw [e1] at he; cases he)⟩
    rw [e1] at hl
    simp only [Except.ok.injEq] at hl
    subst hl
    have hagree := h.ll.map_agree k
    rw [hm, hd] at hagree
    have hids : ids = idsOf k l.abs.cells := ((ne?_eq_some).mp hagree.symm).1.symm
    have hsub : ∀ c ∈ ids.reverse, c ∈ l.ids := by
      intro c hc
      rw [← ids_of_cells h]
      exact idsOf_subset k _ c (hids ▸ List.mem_reverse.mp hc)
    have hnd : ids.reverse.Nodup := by
      rw [(List.reverse_perm ids).nodup_iff, hids]
      exact h.ll.ids_nodup.sublist ((List.filter_sublist).map _)
    have hsh := shape_unlink_all ids.reverse h.shape.shape hnd hsub
    have hs' : PShape (⟨(ids.reverse.foldl (fun np c => unlinkP c np) (l.nxt, l.prv)).1,
        (ids.reverse.foldl (fun np c => unlinkP c np) (l.nxt, l.prv)).2, l.pay, ddel k l.map, l.fresh⟩ : PL K V)
        (l.ids.filter (fun i => !decide (i ∈ ids.reverse))) :=
      ⟨hsh, fun i hi => h.shape.lt i (List.mem_filter.mp hi).1,
       Nat.lt_of_le_of_lt (List.length_filter_le _ _) h.shape.len,
       fun i hi => h.shape.pay i (List.mem_filter.mp hi).1, h.shape.pay0⟩
    refine ⟨?_, by rw [hs'.ids_eq]; exact hs'⟩
    rw [e2]
    simp only [PL.abs, hs'.cells_eq, h.shape.cells_eq, unlinkAll_eq]
    congr 2
    rw [← cellsOf_filter l.pay (fun i => !decide (i ∈ ids.reverse)) l.ids]
    apply List.filter_congr
    intro x _
    simp

theorem premoveAll_spec {l : PL K V} (h : PInv l) (k : K) :
    if l.flat.any (isK k) = true then
      ∃ l', l.removeAll k = .ok l' ∧ PInv l' ∧ l'.flat = l.flat.filter (notK k)
    else l.removeAll k = .error .keyError := by
  have hr := removeAll_spec h.ll k
  obtain ⟨h1, h2⟩ := premoveAll_abs h k
  show if l.abs.flat.any (isK k) = true then _ else _
  split
  · rename_i ha
    simp only [ha, ↓reduceIte] at hr
    obtain ⟨L', e1, i1, f1⟩ := hr
    cases hq : l.removeAll k with
    | error e => rw [h2 e hq] at e1; simp at e1
    | ok l' =>
      obtain ⟨a1, a2⟩ := h1 l' hq
      rw [a1] at e1
      simp only [Except.ok.injEq] at e1
      exact ⟨l', rfl, ⟨a2, e1 ▸ i1⟩, by rw [PL.flat, e1]; exact f1⟩
  · rename_i ha
    simp only [ha, Bool.false_eq_true, ↓reduceIte] at hr
    cases hq : l.removeAll k with
    | error e => rw [h2 e hq] at hr; exact congrArg Except.error (Except.error.inj hr)
    | ok l' => rw [(h1 l' hq).1] at hr; simp at hr

theorem cellsOf_getLast? (pay : List (Nat × (K × V))) (is : List Nat) (h : ∀ i ∈ is, (dget i pay).isSome) :
    (cellsOf pay is).getLast? = is.getLast?.bind (cellAt pay) := by
  induction is with
  | nil => rfl
  | cons i r ih =>
    have hi := h i (by simp)
    have ih' := ih (fun j hj => h j (List.mem_cons_of_mem _ hj))
    cases hd : dget i pay with
    | none => simp [hd] at hi
    | some kv =>
      have hc : cellAt pay i = some ⟨i, kv.1, kv.2⟩ := by simp [cellAt, hd]
      cases r with
      | nil => simp [cellsOf, hc]
      | cons j r' =>
        have hne : cellsOf pay (j :: r') ≠ [] := by
          intro e
          have := congrArg (List.map (·.id)) e
          rw [cellsOf_ids pay (j :: r') (fun x hx => h x (List.mem_cons_of_mem _ hx))] at this
          simp at this
        have : cellsOf pay (i :: j :: r') = ⟨i, kv.1, kv.2⟩ :: cellsOf pay (j :: r') := by
          simp only [cellsOf, List.filterMap_cons, hc]
        rw [this, List.getLast?_cons_of_ne_nil hne, ih', List.getLast?_cons_cons]

/-- `root[PREV][KEY]` is the key of the last pair of the walk -/
theorem plastKey_eq {l : PL K V} (h : PInv l) : l.lastKey = l.flat.getLast?.map (·.1) := by
  have hp : look l.prv 0 = lastOr 0 l.ids := bwd_last l.prv 0 0 l.ids h.shape.shape.bwd
  have hf : l.flat = (cellsOf l.pay l.ids).map fun c => (c.key, c.val) := by
    rw [PL.flat, LL.flat, PL.abs, h.shape.cells_eq]
  rw [PL.lastKey, hp, hf, List.getLast?_map, cellsOf_getLast? l.pay l.ids h.shape.pay]
  unfold lastOr
  cases hl : l.ids.getLast? with
  | none => simp [h.shape.pay0]
  | some i => simp [cellAt]; cases dget i l.pay <;> rfl

/-- the pairs met walking `PREV` are the pairs met walking `NEXT`, reversed -/
theorem pflatBack_eq {l : PL K V} (h : PInv l) : l.flatBack = l.flat.reverse := by
  rw [PL.flatBack, h.shape.idsBack_eq, PL.flat, LL.flat, PL.abs, h.shape.cells_eq, cellsOf, List.filterMap_reverse,
    List.map_reverse]

end pl
end C01
