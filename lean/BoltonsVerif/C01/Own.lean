import BoltonsVerif.C01.Model
/-
C01 — the ownership layer: WHICH list objects the dict's own storage refers to.

`OMD.vals` (Model.lean) holds, per key, a list of values.  In Python that list is an object with an
identity, and the statement's "reads equal those of a plain list of pairs … after every prefix" can
be broken without any OrderedMultiDict method being called: if the dictionary kept a list the caller
handed in (`addlist(k, some_list)`), or handed out the list it stores (`getlist`, `todict(multi=True)`),
the caller's next `append` on its own list would change what the dictionary reads.  This layer models
the allocation decisions of the methods statement by statement:

  `super().setdefault(k, [])`   a NEW empty list object unless the key is there      (`add`, `addlist`)
  `v = list(v)`                 a NEW list object with the argument's contents         (`addlist`)
  `values.append / extend`      in-place change of the stored object                  (`add`, `addlist`)
  `super().__setitem__(k, [v])` a NEW one-element list object                         (`__setitem__`)
  `super().__getitem__(k)[:]`   a NEW list object (a copy) for the caller             (`getlist`, `todict(multi=True)`)
  `super().pop(k)`              the stored object itself goes to the caller, the key leaves the dict  (`popall`)
  `values.pop()`                in-place; `super().__delitem__(k)` when it is empty   (`poplast`)

`Own.d` maps keys to object ids, `Own.heap` ids to contents, `Own.caller` lists the ids the caller
holds (everything it handed in or got back).  `Sep` = no list object is stored under two keys, and
none of the stored ones is held by the caller.  OwnProofs.lean: every operation keeps `Sep`, its
effect on the dereferenced storage `Own.vals` is exactly the `vals` component of the corresponding
operation of `Model.lean`, and a caller writing to ANY list it holds leaves `Own.vals` unchanged.
Core Lean only.
-/
namespace C01

structure Own (K V : Type) where
  d : List (K × Nat)             -- the dict's own storage: key -> id of its value list
  heap : List (Nat × List V)     -- list objects: id -> contents
  next : Nat                     -- the next unused id
  caller : List Nat              -- ids of the list objects the caller holds
deriving Repr

namespace Own
variable {K V : Type} [DecidableEq K]

/-- the contents of list object `i` -/
def look (o : Own K V) (i : Nat) : List V := (dget i o.heap).getD []

/-- the storage with every list object replaced by its contents: what `OMD.vals` stands for -/
def vals (o : Own K V) : List (K × List V) := o.d.map fun kv => (kv.1, o.look kv.2)

/-- the ids the dict refers to -/
def ids (o : Own K V) : List Nat := o.d.map (·.2)

def empty : Own K V := ⟨[], [], 0, []⟩

/-- `values = super().setdefault(k, [])` … `values.extend(vs)` (`add`: `vs = [v]`) -/
def extend (o : Own K V) (k : K) (vs : List V) : Own K V :=
  match dget k o.d with
  | some i => ⟨o.d, dset i (o.look i ++ vs) o.heap, o.next, o.caller⟩
  | none => ⟨dset k o.next o.d, dset o.next vs o.heap, o.next + 1, o.caller⟩

def add (o : Own K V) (k : K) (v : V) : Own K V := o.extend k [v]

/-- `addlist(k, a)` where `a` is a list object of the caller: `v = list(v)` makes a new object `c` with
    the contents of `a` (it is dropped when the method returns), then the stored list is extended -/
def addlistFrom (o : Own K V) (k : K) (a : Nat) : Own K V :=
  let vs := o.look a
  if vs.isEmpty then o else
  let o1 : Own K V := ⟨o.d, dset o.next vs o.heap, o.next + 1, o.caller⟩      -- c = list(a)
  o1.extend k (o1.look o.next)

/-- `addlist(k, iterator)`: the values come out of an iterator, `list(v)` holds them -/
def addlistVals (o : Own K V) (k : K) (vs : List V) : Own K V :=
  if vs.isEmpty then o else
  let o1 : Own K V := ⟨o.d, dset o.next vs o.heap, o.next + 1, o.caller⟩
  o1.extend k (o1.look o.next)

/-- `super().__setitem__(k, [v])` -/
def setitem (o : Own K V) (k : K) (v : V) : Own K V :=
  ⟨dset k o.next o.d, dset o.next [v] o.heap, o.next + 1, o.caller⟩

/-- `super().__delitem__(k)` -/
def delKey (o : Own K V) (k : K) : Own K V := ⟨ddel k o.d, o.heap, o.next, o.caller⟩

/-- `popall(k)`: `super().pop(k)` hands the stored object to the caller -/
def popall (o : Own K V) (k : K) : Own K V × Option Nat :=
  match dget k o.d with
  | none => (o, none)
  | some i => (⟨ddel k o.d, o.heap, o.next, i :: o.caller⟩, some i)

/-- `poplast(k)`: `values = super().__getitem__(k); values.pop(); if not values: super().__delitem__(k)` -/
def poplast (o : Own K V) (k : K) : Own K V :=
  match dget k o.d with
  | none => o
  | some i =>
    let vs := (o.look i).dropLast
    if vs.isEmpty then ⟨ddel k o.d, dset i vs o.heap, o.next, o.caller⟩
    else ⟨o.d, dset i vs o.heap, o.next, o.caller⟩

/-- `getlist(k)`: a new list object for the caller (a copy, or `[]`) -/
def getlist (o : Own K V) (k : K) : Own K V × Nat :=
  (⟨o.d, dset o.next ((dget k o.d).map o.look |>.getD []) o.heap, o.next + 1, o.next :: o.caller⟩, o.next)

/-- `todict(multi=True)`: `{k: self.getlist(k) for k in self}`: one new list object per key -/
def todictM (o : Own K V) : List K → Own K V
  | [] => o
  | k :: r => todictM (o.getlist k).1 r

/-- `clear()` -/
def clear (o : Own K V) : Own K V := ⟨[], o.heap, o.next, o.caller⟩

/-- the caller makes a list of its own (to hand it in later) -/
def callerNew (o : Own K V) (vs : List V) : Own K V × Nat :=
  (⟨o.d, dset o.next vs o.heap, o.next + 1, o.next :: o.caller⟩, o.next)

/-- the caller changes a list it holds in any way it likes (append, reverse, clear, …) -/
def callerWrite (o : Own K V) (i : Nat) (vs : List V) : Own K V :=
  if i ∈ o.caller then ⟨o.d, dset i vs o.heap, o.next, o.caller⟩ else o

end Own

/-- histories of the operations that create, keep or hand out list objects -/
inductive OwnOp (K V : Type) where
  | add (k : K) (v : V)
  | addlistFrom (k : K) (a : Nat)        -- `addlist(k, a)`, `a` a list the caller holds
  | addlistVals (k : K) (vs : List V)    -- `addlist(k, iterator / tuple / range)`
  | setitem (k : K) (v : V)
  | delKey (k : K)
  | popall (k : K)
  | poplast (k : K)
  | getlist (k : K)
  | todictM (ks : List K)
  | clear
  | callerNew (vs : List V)
  | callerWrite (i : Nat) (vs : List V)

variable {K V : Type} [DecidableEq K]

def ownStep (o : Own K V) : OwnOp K V → Own K V
  | .add k v => o.add k v
  | .addlistFrom k a => if a ∈ o.caller then o.addlistFrom k a else o
  | .addlistVals k vs => o.addlistVals k vs
  | .setitem k v => o.setitem k v
  | .delKey k => o.delKey k
  | .popall k => (o.popall k).1
  | .poplast k => o.poplast k
  | .getlist k => (o.getlist k).1
  | .todictM ks => o.todictM ks
  | .clear => o.clear
  | .callerNew vs => (o.callerNew vs).1
  | .callerWrite i vs => o.callerWrite i vs

def ownRun (o : Own K V) (ops : List (OwnOp K V)) : Own K V := ops.foldl ownStep o

/-- what the operation does to the dereferenced storage according to `Model.lean` (the `vals`
    components of `OMD.add`, `OMD.addlist`, `OMD.setitem`, `OMD.delKey`, `OMD.popall`, `OMD.poplastKey`);
    reads and the caller's own doings do nothing to it -/
def valsStep (o : Own K V) (vals : List (K × List V)) : OwnOp K V → List (K × List V)
  | .add k v => dset k ((dget k vals).getD [] ++ [v]) vals
  | .addlistFrom k a => if a ∈ o.caller then
      (if (o.look a).isEmpty then vals else dset k ((dget k vals).getD [] ++ o.look a) vals) else vals
  | .addlistVals k vs => if vs.isEmpty then vals else dset k ((dget k vals).getD [] ++ vs) vals
  | .setitem k v => dset k [v] vals
  | .delKey k => ddel k vals
  | .popall k => ddel k vals
  | .poplast k => match dget k vals with
    | none => vals
    | some vs => if vs.dropLast.isEmpty then ddel k vals else dset k vs.dropLast vals
  | .getlist _ => vals
  | .todictM _ => vals
  | .clear => []
  | .callerNew _ => vals
  | .callerWrite _ _ => vals

end C01
