import BoltonsVerif.C01.Natural
/-
C01 — keys are only ever compared for equality: renaming the keys of a whole history through any INJECTIVE
function renames every pair list reached and every return value and changes nothing else.  No operation
depends on an order, a hash value or any other property of a key than which keys it is equal to
("arbitrary hashable keys").  Companion of `Natural.lean` (values are opaque).
-/
namespace C01
open Spec
variable {K K' V : Type} [DecidableEq K] [DecidableEq K']

def mapKL (g : K → K') (L : List (K × V)) : List (K' × V) := L.map fun p => (g p.1, p.2)

def Out.mapK (g : K → K') : Out K V → Out K' V
  | .unit => .unit
  | .dflt => .dflt
  | .val v => .val v
  | .vals l => .vals l
  | .pair k v => .pair (g k) v
  | .err e => .err e
  | .abort => .abort

def HArg.mapK (g : K → K') : HArg K V → HArg K' V
  | .self => .self
  | .regT => .regT
  | .fresh l => .fresh (mapKL g l)
  | .mapping m => .mapping (mapKL g m)
  | .pairs l => .pairs (mapKL g l)

def HOp.mapK (g : K → K') : HOp K V → HOp K' V
  | .new E F => .new (E.map (HArg.mapK g)) (mapKL g F)
  | .add k v => .add (g k) v
  | .addlist k vs => .addlist (g k) vs
  | .setitem k v => .setitem (g k) v
  | .delitem k => .delitem (g k)
  | .update E F => .update (E.mapK g) (mapKL g F)
  | .updateExtend E F => .updateExtend (E.mapK g) (mapKL g F)
  | .setdefault k v => .setdefault (g k) v
  | .pop k d => .pop (g k) d
  | .popall k d => .popall (g k) d
  | .poplast k d => .poplast (k.map g) d
  | .popitem => .popitem
  | .clear => .clear
  | .addlistAbort k vs => .addlistAbort (g k) vs
  | .updateAbort l => .updateAbort (mapKL g l)
  | .updateExtendAbort l => .updateExtendAbort (mapKL g l)
  | .updateMapAbort l => .updateMapAbort (mapKL g l)
  | .rejected => .rejected
  | .copyToT => .copyToT
  | .copyToS => .copyToS
  | .swap => .swap

def mapStK (g : K → K') (st : Spec.HState K V) : Spec.HState K' V := ⟨mapKL g st.s, mapKL g st.t⟩

section lemmas
variable (g : K → K')

@[simp] theorem mapK_nil : mapKL g ([] : List (K × V)) = [] := rfl
@[simp] theorem mapK_append (A B : List (K × V)) : mapKL g (A ++ B) = mapKL g A ++ mapKL g B := by simp [mapKL]
@[simp] theorem mapK_cons (p : K × V) (A : List (K × V)) : mapKL g (p :: A) = (g p.1, p.2) :: mapKL g A := rfl
theorem mapK_fst (L : List (K × V)) : (mapKL g L).map (·.1) = (L.map (·.1)).map g := by simp [mapKL]

theorem mapK_filter_key (q : K → Bool) (q' : K' → Bool) (hq : ∀ k, q' (g k) = q k) (L : List (K × V)) :
    (mapKL g L).filter (fun p => q' p.1) = mapKL g (L.filter fun p => q p.1) := by
  induction L with
  | nil => rfl
  | cons p r ih => simp only [mapK_cons, List.filter_cons, hq]; split <;> simp [ih]

theorem deq (hg : Function.Injective g) (a b : K) : decide (g a = g b) = decide (a = b) := by
  by_cases e : a = b
  · simp [e]
  · have : g a ≠ g b := fun h => e (hg h)
    simp [e, this]

theorem remove_mapK (hg : Function.Injective g) (L : List (K × V)) (k : K) : Spec.remove (mapKL g L) (g k) = mapKL g (Spec.remove L k) :=
  mapK_filter_key g (fun a => !decide (a = k)) (fun a => !decide (a = g k)) (fun a => by rw [deq g hg]) L

theorem valsOf_mapK (hg : Function.Injective g) (k : K) (L : List (K × V)) : valsOf (g k) (mapKL g L) = valsOf k L := by
  induction L with
  | nil => rfl
  | cons p r ih =>
    rw [mapK_cons, valsOf_cons, valsOf_cons, ih]
    have := deq g hg p.1 k
    by_cases e : p.1 = k
    · simp [e]
    · have : g p.1 ≠ g k := fun h => e (hg h)
      simp [e, this]

theorem has_mapK (hg : Function.Injective g) (k : K) (L : List (K × V)) : has (g k) (mapKL g L) = has k L := by
  induction L with
  | nil => rfl
  | cons p r ih => simp only [has, mapK_cons, List.any_cons, isK] at *; rw [ih, deq g hg]

theorem last_mapK (hg : Function.Injective g) (k : K) (L : List (K × V)) : Spec.last (g k) (mapKL g L) = Spec.last k L := by
  simp [Spec.last, valsOf_mapK g hg]

theorem dedupAux_map (hg : Function.Injective g) (seen l : List K) : dedupAux (seen.map g) (l.map g) = (dedupAux seen l).map g := by
  induction l generalizing seen with
  | nil => rfl
  | cons a r ih =>
    have hm : g a ∈ seen.map g ↔ a ∈ seen := by
      constructor
      · intro h
        obtain ⟨b, hb, e⟩ := List.mem_map.mp h
        rw [hg e] at hb; exact hb
      · exact fun h => List.mem_map.mpr ⟨a, h, rfl⟩
    simp only [List.map_cons, dedupAux, hm]
    split
    · exact ih seen
    · have := ih (a :: seen)
      simp only [List.map_cons] at this
      rw [this]; simp

theorem keys_mapK (hg : Function.Injective g) (L : List (K × V)) : Spec.keys (mapKL g L) = (Spec.keys L).map g := by
  have := dedupAux_map g hg [] (L.map (·.1))
  simpa [Spec.keys, dedup, mapK_fst] using this

theorem items_mapK (hg : Function.Injective g) (L : List (K × V)) : Spec.items (mapKL g L) = mapKL g (Spec.items L) := by
  unfold Spec.items
  rw [keys_mapK g hg]
  simp only [mapKL, List.map_filterMap, List.filterMap_map]
  congr 1
  funext k
  simp only [Function.comp]
  have := last_mapK g hg k L
  simp only [mapKL] at this
  rw [this]
  cases Spec.last k L <;> rfl

theorem setitem_mapK (hg : Function.Injective g) (L : List (K × V)) (k : K) (v : V) :
    Spec.setitem (mapKL g L) (g k) v = mapKL g (Spec.setitem L k v) := by
  simp [Spec.setitem, remove_mapK g hg]

theorem setAll_mapK (hg : Function.Injective g) (F : List (K × V)) : ∀ (L : List (K × V)),
    Spec.setAll (mapKL g L) (mapKL g F) = mapKL g (Spec.setAll L F) := by
  induction F with
  | nil => intro L; rfl
  | cons p r ih =>
    intro L
    simp only [Spec.setAll, mapK_cons, List.foldl_cons] at ih ⊢
    rw [setitem_mapK g hg]; exact ih _

theorem replaceBy_mapK (hg : Function.Injective g) (L l : List (K × V)) :
    Spec.replaceBy (mapKL g L) (mapKL g l) = mapKL g (Spec.replaceBy L l) := by
  simp only [Spec.replaceBy, mapK_append]
  congr 1
  apply mapK_filter_key g (fun a => !decide (a ∈ l.map (·.1))) (fun a => !decide (a ∈ (mapKL g l).map (·.1)))
  intro a
  congr 1
  rw [mapK_fst]
  have : g a ∈ (l.map (·.1)).map g ↔ a ∈ l.map (·.1) := by
    constructor
    · intro h
      obtain ⟨b, hb, e⟩ := List.mem_map.mp h
      rw [hg e] at hb; exact hb
    · exact fun h => List.mem_map.mpr ⟨a, h, rfl⟩
  exact decide_eq_decide.mpr this

theorem rmLast_mapK (hg : Function.Injective g) (k : K) (L : List (K × V)) : rmLast (g k) (mapKL g L) = mapKL g (rmLast k L) := by
  induction L with
  | nil => rfl
  | cons p r ih =>
    have ha : (mapKL g r).any (isK (g k)) = r.any (isK k) := has_mapK g hg k r
    simp only [mapK_cons, rmLast, ha]
    split
    · simp [ih]
    · by_cases e : p.1 = k
      · simp [e]
      · have : g p.1 ≠ g k := fun h => e (hg h)
        simp [e, this]

theorem getLast?_mapK (L : List (K × V)) : (mapKL g L).getLast? = L.getLast?.map fun p => (g p.1, p.2) := by
  simp [mapKL, List.getLast?_map]

theorem dropLast_mapK (L : List (K × V)) : (mapKL g L).dropLast = mapKL g L.dropLast := by
  simp [mapKL, List.map_dropLast]

end lemmas

/-- one step: renaming the keys of the state and of the operation by an INJECTIVE map renames the result -/
theorem spec_hstep_key_natural (g : K → K') (hg : Function.Injective g) (st : Spec.HState K V) (op : HOp K V) :
    Spec.hstep (mapStK g st) (op.mapK g) = (mapStK g (Spec.hstep st op).1, ((Spec.hstep st op).2).mapK g) := by
  obtain ⟨s, t⟩ := st
  cases op with
  | new E F =>
    simp only [Spec.hstep, HOp.mapK, mapStK, Spec.new, Out.mapK]
    congr 2
    cases E with
    | none => exact setAll_mapK g hg F []
    | some E =>
      cases E <;>
        simp only [Option.map_some, HArg.mapK, Spec.resolveNew, Spec.resolve, Spec.updateExtend, List.nil_append,
          List.append_nil] <;> exact setAll_mapK g hg F _
  | add k v => simp [Spec.hstep, HOp.mapK, mapStK, Out.mapK]
  | addlist k vs =>
    simp only [Spec.hstep, HOp.mapK, mapStK, Out.mapK, mapK_append]
    congr 3
    simp [mapKL, List.map_map, Function.comp_def]
  | setitem k v => simp [Spec.hstep, HOp.mapK, mapStK, Out.mapK, setitem_mapK g hg]
  | delitem k =>
    simp only [Spec.hstep, HOp.mapK, mapStK, Spec.withS, Spec.delitem, has_mapK g hg]
    split <;> simp [Out.mapK, remove_mapK g hg]
  | update E F =>
    simp only [Spec.hstep, HOp.mapK, mapStK, Out.mapK, Spec.update]
    congr 2
    cases E <;> simp only [HArg.mapK, Spec.resolve] <;>
      first
      | exact setAll_mapK g hg F _
      | (rw [replaceBy_mapK g hg]; exact setAll_mapK g hg F _)
      | (rw [setAll_mapK g hg]; exact setAll_mapK g hg F _)
  | updateExtend E F =>
    simp only [Spec.hstep, HOp.mapK, mapStK, Out.mapK, Spec.updateExtend]
    congr 2
    cases E <;> simp [HArg.mapK, Spec.resolve, items_mapK g hg]
  | setdefault k v =>
    simp only [Spec.hstep, HOp.mapK, mapStK, Spec.withS, Spec.setdefault, last_mapK g hg]
    cases Spec.last k s <;> simp [Out.mapK]
  | pop k d =>
    simp only [Spec.hstep, HOp.mapK, mapStK, Spec.withS, Spec.pop, last_mapK g hg]
    cases Spec.last k s <;> simp [Out.mapK, remove_mapK g hg, Spec.missing] <;> split <;> rfl
  | popall k d =>
    simp only [Spec.hstep, HOp.mapK, mapStK, Spec.withS, Spec.popall, has_mapK g hg]
    split <;> simp [Out.mapK, remove_mapK g hg, valsOf_mapK g hg, Spec.missing] <;> split <;> rfl
  | poplast k d =>
    cases k with
    | some k =>
      simp only [Spec.hstep, HOp.mapK, mapStK, Spec.withS, Spec.poplast, Option.map_some, last_mapK g hg]
      cases Spec.last k s <;> simp [Out.mapK, rmLast_mapK g hg, Spec.missing] <;> split <;> rfl
    | none =>
      simp only [Spec.hstep, HOp.mapK, mapStK, Spec.withS, Spec.poplast, Option.map_none, getLast?_mapK]
      cases s.getLast? <;> simp [Out.mapK, dropLast_mapK, Spec.missing] <;> split <;> rfl
  | popitem =>
    simp only [Spec.hstep, HOp.mapK, mapStK, Spec.withS, Spec.popitem, getLast?_mapK]
    cases s.getLast? <;> simp [Out.mapK, remove_mapK g hg]
  | clear => simp [Spec.hstep, HOp.mapK, mapStK, Out.mapK]
  | addlistAbort k vs => simp [Spec.hstep, HOp.mapK, mapStK, Out.mapK]
  | updateAbort l => simp [Spec.hstep, HOp.mapK, mapStK, Out.mapK, replaceBy_mapK g hg]
  | updateExtendAbort l => simp [Spec.hstep, HOp.mapK, mapStK, Out.mapK]
  | updateMapAbort l => simp [Spec.hstep, HOp.mapK, mapStK, Out.mapK, setAll_mapK g hg]
  | rejected => simp [Spec.hstep, HOp.mapK, mapStK, Out.mapK]
  | copyToT => simp [Spec.hstep, HOp.mapK, mapStK, Out.mapK]
  | copyToS => simp [Spec.hstep, HOp.mapK, mapStK, Out.mapK]
  | swap => simp [Spec.hstep, HOp.mapK, mapStK, Out.mapK]

theorem spec_hrun_key_natural (g : K → K') (hg : Function.Injective g) (ops : List (HOp K V)) :
    ∀ (st : Spec.HState K V),
    Spec.hrun (mapStK g st) (ops.map (HOp.mapK g)) =
      (Spec.hrun st ops).map fun r => (mapStK g r.1, r.2.mapK g) := by
  induction ops with
  | nil => intro st; rfl
  | cons op r ih =>
    intro st
    simp only [List.map_cons, Spec.hrun]
    rw [spec_hstep_key_natural g hg]
    simp only [List.map_cons]
    congr 1
    exact ih _

end C01
