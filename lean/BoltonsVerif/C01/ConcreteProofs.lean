import BoltonsVerif.C01.PtrProofs
import BoltonsVerif.C01.Concrete
/-
C01 — every public mutator of the concrete layer (`Concrete.lean`: dict + pointer-level linked
list + `_map`) commutes with the abstraction to the two-structure model `OMD`.
-/
namespace C01
open Spec

/-! ### every public mutator of the concrete layer commutes with the abstraction -/
section sim
variable {K V : Type} [DecidableEq K]

/-- close a leftover `x = x` / `True` side goal -/
local macro "fin" : tactic => `(tactic| first | rfl | trivial | simp only [*] | simp [*])

/-- the three structures are consistent: `_map` indexes the cells exactly, and the dict holds for
    every key the values of its cells -/
structure Inv3 (s : OMD3 K V) : Prop where
  ll : PInv s.ll
  inv : Inv s.abs

theorem inv3_of {s' : OMD3 K V} {t : OMD K V} (hl : PInv s'.ll) (he : s'.abs = t) (hi : Inv t) : Inv3 s' :=
  ⟨hl, he ▸ hi⟩

theorem Inv3.dhas_eq {s : OMD3 K V} (h : Inv3 s) (k : K) : dhas k s.vals = s.ll.flat.any (isK k) :=
  h.inv.dhas_eq k

theorem inv3_empty : Inv3 (OMD3.empty : OMD3 K V) := ⟨pinv_empty, by rw [show (OMD3.empty : OMD3 K V).abs = OMD.empty from by simp [OMD3.abs, OMD3.empty, PL.flat, abs_empty, LL.flat, LL.empty, OMD.empty]]; exact inv_empty⟩

theorem add3_spec {s : OMD3 K V} (h : Inv3 s) (k : K) (v : V) :
    Inv3 (s.add k v) ∧ (s.add k v).abs = s.abs.add k v := by
  have he : (s.add k v).abs = s.abs.add k v := by
    simp only [OMD3.abs, OMD3.add, OMD.add, pflat_insert h.ll]
  exact ⟨inv3_of (pinsert_spec h.ll k v).1 he (inv_add h.inv k v), he⟩

theorem addlist3_spec {s : OMD3 K V} (h : Inv3 s) (k : K) (vs : List V) :
    Inv3 (s.addlist k vs) ∧ (s.addlist k vs).abs = s.abs.addlist k vs := by
  have he : (s.addlist k vs).abs = s.abs.addlist k vs := by
    unfold OMD3.addlist OMD.addlist
    split
    · rfl
    · simp only [OMD3.abs, (pinsertAll_spec h.ll k vs).2]
  refine ⟨inv3_of ?_ he (inv_addlist h.inv k vs), he⟩
  unfold OMD3.addlist
  split
  · exact h.ll
  · exact (pinsertAll_spec h.ll k vs).1

theorem setitem3_spec {s : OMD3 K V} (h : Inv3 s) (k : K) (v : V) :
    ∃ s', s.setitem k v = (s', .unit) ∧ Inv3 s' ∧ s'.abs = s.abs.setitem k v := by
  have hr := premoveAll_spec h.ll k
  rw [← h.dhas_eq] at hr
  unfold OMD3.setitem
  by_cases hh : dhas k s.vals = true
  · simp only [hh, ↓reduceIte] at hr ⊢
    obtain ⟨l', e1, i1, f1⟩ := hr
    rw [e1]
    have he : (⟨dset k [v] s.vals, l'.insert k v⟩ : OMD3 K V).abs = s.abs.setitem k v := by
      simp only [OMD3.abs, OMD.setitem, pflat_insert i1, f1, hh, ↓reduceIte]
    exact ⟨_, rfl, inv3_of (pinsert_spec i1 k v).1 he (inv_setitem h.inv k v), he⟩
  · simp only [hh, Bool.false_eq_true, ↓reduceIte]
    have he : (⟨dset k [v] s.vals, s.ll.insert k v⟩ : OMD3 K V).abs = s.abs.setitem k v := by
      simp only [OMD3.abs, OMD.setitem, pflat_insert h.ll, hh, Bool.false_eq_true, ↓reduceIte]
    exact ⟨_, rfl, inv3_of (pinsert_spec h.ll k v).1 he (inv_setitem h.inv k v), he⟩

theorem delitem3_spec {s : OMD3 K V} (h : Inv3 s) (k : K) :
    Inv3 (s.delitem k).1 ∧ (s.delitem k).1.abs = (s.abs.delitem k).1 ∧ (s.delitem k).2 = (s.abs.delitem k).2 := by
  have hr := premoveAll_spec h.ll k
  rw [← h.dhas_eq] at hr
  unfold OMD3.delitem OMD.delitem
  by_cases hh : dhas k s.vals = true
  · have hh' : dhas k s.abs.vals = true := hh
    simp only [hh, hh', ↓reduceIte] at hr ⊢
    obtain ⟨l', e1, i1, f1⟩ := hr
    rw [e1]
    have he : (⟨ddel k s.vals, l'⟩ : OMD3 K V).abs = s.abs.delKey k := by
      simp only [OMD3.abs, OMD.delKey, f1]
    exact ⟨inv3_of i1 he (inv_delKey h.inv k), he, rfl⟩
  · have hh' : ¬ dhas k s.abs.vals = true := hh
    simp only [hh, hh', Bool.false_eq_true, ↓reduceIte, and_self, and_true]
    exact h

theorem delIfHas3_spec {s : OMD3 K V} (h : Inv3 s) (k : K) :
    ∃ s', s.delIfHas k = (s', .unit) ∧ Inv3 s' ∧ s'.abs = s.abs.delIfHas k := by
  have hd := delitem3_spec h k
  unfold OMD3.delIfHas OMD.delIfHas
  by_cases hh : dhas k s.vals = true
  · have hh' : dhas k s.abs.vals = true := hh
    simp only [hh, hh', ↓reduceIte]
    have h2 : (s.abs.delitem k) = (s.abs.delKey k, .unit) := by simp [OMD.delitem, hh']
    rw [h2] at hd
    exact ⟨(s.delitem k).1, Prod.ext rfl hd.2.2, hd.1, hd.2.1⟩
  · have hh' : ¬ dhas k s.abs.vals = true := hh
    simp only [hh, hh', Bool.false_eq_true, ↓reduceIte]
    exact ⟨s, rfl, h, rfl⟩

theorem addAll3_spec {s : OMD3 K V} (h : Inv3 s) (l : List (K × V)) :
    Inv3 (s.addAll l) ∧ (s.addAll l).abs = s.abs.addAll l := by
  induction l generalizing s with
  | nil => exact ⟨h, rfl⟩
  | cons p r ih =>
    obtain ⟨i1, e1⟩ := add3_spec h p.1 p.2
    have := ih i1
    simp only [OMD3.addAll, OMD.addAll, List.foldl_cons] at this ⊢
    rw [← e1]
    exact this

theorem setAll3_spec {s : OMD3 K V} (h : Inv3 s) (l : List (K × V)) :
    ∃ s', s.setAll l = (s', .unit) ∧ Inv3 s' ∧ s'.abs = s.abs.setAll l := by
  induction l generalizing s with
  | nil => exact ⟨s, rfl, h, rfl⟩
  | cons p r ih =>
    obtain ⟨s1, e1, i1, a1⟩ := setitem3_spec h p.1 p.2
    obtain ⟨s2, e2, i2, a2⟩ := ih i1
    refine ⟨s2, by simp only [OMD3.setAll, e1, e2], i2, ?_⟩
    simp only [OMD.setAll, List.foldl_cons] at a2 ⊢
    rw [a2, a1]

theorem delKeys3_spec {s : OMD3 K V} (h : Inv3 s) (ks : List K) :
    ∃ s', s.delKeys ks = (s', .unit) ∧ Inv3 s' ∧ s'.abs = ks.foldl OMD.delIfHas s.abs := by
  induction ks generalizing s with
  | nil => exact ⟨s, rfl, h, rfl⟩
  | cons k r ih =>
    obtain ⟨s1, e1, i1, a1⟩ := delIfHas3_spec h k
    obtain ⟨s2, e2, i2, a2⟩ := ih i1
    refine ⟨s2, by simp only [OMD3.delKeys, e1, e2], i2, ?_⟩
    simp only [List.foldl_cons]
    rw [a2, a1]

theorem updPairs3_spec {s : OMD3 K V} (h : Inv3 s) (seen : List K) (l : List (K × V)) :
    ∃ s', s.updPairs seen l = (s', .unit) ∧ Inv3 s' ∧ s'.abs = s.abs.updPairs seen l := by
  induction l generalizing s seen with
  | nil => exact ⟨s, rfl, h, rfl⟩
  | cons p r ih =>
    by_cases hs : p.1 ∈ seen
    · obtain ⟨i1, a1⟩ := add3_spec h p.1 p.2
      obtain ⟨s2, e2, i2, a2⟩ := ih i1 seen
      refine ⟨s2, by simp only [OMD3.updPairs, hs, ↓reduceIte, e2], i2, ?_⟩
      simp only [OMD.updPairs, hs, ↓reduceIte]
      rw [a2, a1]
    · obtain ⟨s1, e1, i1, a1⟩ := delIfHas3_spec h p.1
      obtain ⟨i1', a1'⟩ := add3_spec i1 p.1 p.2
      obtain ⟨s2, e2, i2, a2⟩ := ih i1' (p.1 :: seen)
      refine ⟨s2, by simp only [OMD3.updPairs, hs, ↓reduceIte, e1, e2], i2, ?_⟩
      simp only [OMD.updPairs, hs, ↓reduceIte]
      rw [a2, a1', a1]

theorem update3_spec {s : OMD3 K V} (h : Inv3 s) (E : Arg K V) (hE : ArgInv E) (F : List (K × V)) :
    ∃ s', s.update E F = (s', .unit) ∧ Inv3 s' ∧ s'.abs = s.abs.update E F := by
  have h1 : ∃ s1, s.updateE E = (s1, .unit) ∧ Inv3 s1 ∧
      s1.abs = (match E with
        | .self => s.abs
        | .omd t => (t.keys.foldl OMD.delIfHas s.abs).addAll t.cells
        | .mapping m => s.abs.setAll m
        | .pairs l => s.abs.updPairs [] l) := by
    cases E with
    | self => exact ⟨s, rfl, h, rfl⟩
    | omd t =>
      obtain ⟨s1, e1, i1, a1⟩ := delKeys3_spec h t.keys
      obtain ⟨i2, a2⟩ := addAll3_spec i1 t.cells
      exact ⟨_, by simp only [OMD3.updateE, e1], i2, by rw [a2, a1]⟩
    | mapping m => exact setAll3_spec h m
    | pairs l => exact updPairs3_spec h [] l
  obtain ⟨s1, e1, i1, a1⟩ := h1
  obtain ⟨s2, e2, i2, a2⟩ := setAll3_spec i1 F
  refine ⟨s2, by simp only [OMD3.update, e1, e2], i2, ?_⟩
  rw [a2, a1]
  cases E <;> rfl

theorem updateExtend3_spec {s : OMD3 K V} (h : Inv3 s) (E : Arg K V) (F : List (K × V)) :
    Inv3 (s.updateExtend E F).1 ∧ (s.updateExtend E F).1.abs = (s.abs.updateExtend E F).1 ∧
      (s.updateExtend E F).2 = (s.abs.updateExtend E F).2 := by
  unfold OMD3.updateExtend OMD.updateExtend
  cases E with
  | self =>
    simp only
    cases hi : s.abs.items with
    | error e => exact ⟨h, rfl, rfl⟩
    | ok l =>
      obtain ⟨i1, a1⟩ := addAll3_spec h l
      obtain ⟨i2, a2⟩ := addAll3_spec i1 F
      exact ⟨i2, by simp only; rw [a2, a1], rfl⟩
  | omd t =>
    obtain ⟨i1, a1⟩ := addAll3_spec h t.cells
    obtain ⟨i2, a2⟩ := addAll3_spec i1 F
    exact ⟨i2, by simp only; rw [a2, a1], rfl⟩
  | mapping m =>
    obtain ⟨i1, a1⟩ := addAll3_spec h m
    obtain ⟨i2, a2⟩ := addAll3_spec i1 F
    exact ⟨i2, by simp only; rw [a2, a1], rfl⟩
  | pairs l =>
    obtain ⟨i1, a1⟩ := addAll3_spec h l
    obtain ⟨i2, a2⟩ := addAll3_spec i1 F
    exact ⟨i2, by simp only; rw [a2, a1], rfl⟩

theorem fromPairs3_spec (l : List (K × V)) :
    Inv3 (OMD3.fromPairs l) ∧ (OMD3.fromPairs l : OMD3 K V).abs = OMD.fromPairs l :=
  addAll3_spec inv3_empty l

theorem copy3_spec (s : OMD3 K V) : Inv3 s.copy ∧ s.copy.abs = s.abs.copy := fromPairs3_spec _

theorem clear3_spec {s : OMD3 K V} (h : Inv3 s) : Inv3 s.clear ∧ s.clear.abs = OMD.empty := by
  have hc := pclear_spec h.ll
  have he : s.clear.abs = OMD.empty := by
    simp only [OMD3.abs, OMD3.clear, PL.flat, hc.2, OMD.empty]; rfl
  exact ⟨inv3_of hc.1 he inv_empty, he⟩

theorem new3_spec (E : Option (Arg K V)) (F : List (K × V)) :
    Inv3 (OMD3.new E F).1 ∧ (OMD3.new E F).1.abs = (OMD.new E F).1 ∧ (OMD3.new E F).2 = (OMD.new E F).2 := by
  cases E with
  | none =>
    obtain ⟨s', e, i, a⟩ := setAll3_spec (inv3_empty (K := K) (V := V)) F
    simp only [OMD3.new, OMD.new, e]
    exact ⟨i, a, by fin⟩
  | some E =>
    have hu := updateExtend3_spec (inv3_empty (K := K) (V := V)) E []
    have he : (OMD3.empty : OMD3 K V).abs = OMD.empty := rfl
    rw [he] at hu
    simp only [OMD3.new, OMD.new]
    generalize (OMD3.empty : OMD3 K V).updateExtend E [] = q3 at hu ⊢
    generalize (OMD.empty : OMD K V).updateExtend E [] = q at hu ⊢
    obtain ⟨q31, q32⟩ := q3
    obtain ⟨q1, q2⟩ := q
    simp only at hu
    obtain ⟨i, a, o⟩ := hu
    subst o
    cases q32 with
    | unit =>
      obtain ⟨s', e, i', a'⟩ := setAll3_spec i F
      simp only [e]
      exact ⟨i', by rw [a', a], by fin⟩
    | _ => exact ⟨i, a, by fin⟩

theorem setdefault3_spec {s : OMD3 K V} (h : Inv3 s) (k : K) (v : V) :
    Inv3 (s.setdefault k v).1 ∧ (s.setdefault k v).1.abs = (s.abs.setdefault k v).1 ∧
      (s.setdefault k v).2 = (s.abs.setdefault k v).2 := by
  unfold OMD3.setdefault OMD.setdefault
  by_cases hh : dhas k s.vals = true
  · have hh' : dhas k s.abs.vals = true := hh
    simp only [hh, hh', ↓reduceIte]
    exact ⟨h, by fin, by fin⟩
  · have hh' : ¬ dhas k s.abs.vals = true := hh
    obtain ⟨s', e, i, a⟩ := setitem3_spec h k v
    simp only [hh, hh', Bool.false_eq_true, ↓reduceIte, e]
    exact ⟨i, a, by rw [a]; cases (s.abs.setitem k v).getitem k <;> rfl⟩

theorem dget_some_any {s : OMD3 K V} (h : Inv3 s) {k : K} {vs : List V} (hd : dget k s.vals = some vs) :
    s.ll.flat.any (isK k) = true := by
  rw [← h.dhas_eq]; simp [dhas, hd]

theorem popall3_spec {s : OMD3 K V} (h : Inv3 s) (k : K) (d : Bool) :
    Inv3 (s.popall k d).1 ∧ (s.popall k d).1.abs = (s.abs.popall k d).1 ∧
      (s.popall k d).2 = (s.abs.popall k d).2 := by
  unfold OMD3.popall OMD.popall
  have hv : s.abs.vals = s.vals := rfl
  rw [hv]
  cases hd : dget k s.vals with
  | none => exact ⟨h, rfl, rfl⟩
  | some vs =>
    have hr := premoveAll_spec h.ll k
    simp only [dget_some_any h hd, ↓reduceIte] at hr
    obtain ⟨l', e1, i1, f1⟩ := hr
    simp only [e1]
    have he : (⟨ddel k s.vals, l'⟩ : OMD3 K V).abs = s.abs.delKey k := by
      simp only [OMD3.abs, OMD.delKey, f1]
    exact ⟨inv3_of i1 he (inv_delKey h.inv k), he, by fin⟩

theorem pop3_spec {s : OMD3 K V} (h : Inv3 s) (k : K) (d : Bool) :
    Inv3 (s.pop k d).1 ∧ (s.pop k d).1.abs = (s.abs.pop k d).1 ∧ (s.pop k d).2 = (s.abs.pop k d).2 := by
  have hp := popall3_spec h k false
  unfold OMD3.pop OMD.pop
  unfold OMD.popall at hp
  have hv : s.abs.vals = s.vals := rfl
  rw [hv] at hp ⊢
  cases hd : dget k s.vals with
  | none =>
    simp only [hd] at hp
    generalize s.popall k false = q at hp ⊢
    obtain ⟨q1, q2⟩ := q
    obtain ⟨i, a, o⟩ := hp
    simp only at i a o
    subst o
    exact ⟨i, a, rfl⟩
  | some vs =>
    simp only [hd] at hp
    generalize s.popall k false = q at hp ⊢
    obtain ⟨q1, q2⟩ := q
    obtain ⟨i, a, o⟩ := hp
    simp only at i a o
    subst o
    exact ⟨i, a, rfl⟩

theorem poplastKey3_spec {s : OMD3 K V} (h : Inv3 s) (k : K) (d : Bool) :
    Inv3 (s.poplastKey k d).1 ∧ (s.poplastKey k d).1.abs = (s.abs.poplastKey k d).1 ∧
      (s.poplastKey k d).2 = (s.abs.poplastKey k d).2 := by
  have hr := premove_spec h.ll k
  have hp := poplastKey_spec h.inv k d
  unfold OMD3.poplastKey
  unfold OMD.poplastKey at hp ⊢
  have hc : s.abs.cells = s.ll.flat := rfl
  have hv : s.abs.vals = s.vals := rfl
  rw [hc, hv] at hp ⊢
  by_cases ha : s.ll.flat.any (isK k) = true
  · simp only [ha, ↓reduceIte] at hr hp ⊢
    obtain ⟨l', e1, i1, f1⟩ := hr
    simp only [e1]
    cases hd : dget k s.vals with
    | none =>
      simp only [hd] at hp ⊢
      exact ⟨⟨i1, by simpa [OMD3.abs, f1] using hp.1⟩, by simp [OMD3.abs, f1], by fin⟩
    | some vs =>
      cases hl : vs.getLast? with
      | none =>
        simp only [hd, hl] at hp ⊢
        exact ⟨⟨i1, by simpa [OMD3.abs, f1] using hp.1⟩, by simp [OMD3.abs, f1], by fin⟩
      | some x =>
        simp only [hd, hl] at hp ⊢
        exact ⟨⟨i1, by simpa [OMD3.abs, f1] using hp.1⟩, by simp [OMD3.abs, f1], by fin⟩
  · simp only [ha, Bool.false_eq_true, ↓reduceIte] at hr ⊢
    simp only [hr]
    exact ⟨h, by fin, by fin⟩

theorem poplast3_spec {s : OMD3 K V} (h : Inv3 s) (k : Option K) (d : Bool) :
    Inv3 (s.poplast k d).1 ∧ (s.poplast k d).1.abs = (s.abs.poplast k d).1 ∧
      (s.poplast k d).2 = (s.abs.poplast k d).2 := by
  cases k with
  | some k => exact poplastKey3_spec h k d
  | none =>
    unfold OMD3.poplast OMD.poplast
    have hc : s.abs.cells = s.ll.flat := rfl
    have hv : s.abs.vals = s.vals := rfl
    simp only [hc, hv, plastKey_eq h.ll]
    split
    · exact ⟨h, rfl, rfl⟩
    · cases hl : s.ll.flat.getLast? with
      | none => exact ⟨h, rfl, rfl⟩
      | some p => exact poplastKey3_spec h p.1 d

theorem popitem3_spec {s : OMD3 K V} (h : Inv3 s) :
    Inv3 s.popitem.1 ∧ s.popitem.1.abs = s.abs.popitem.1 ∧ s.popitem.2 = s.abs.popitem.2 := by
  unfold OMD3.popitem OMD.popitem
  have hc : s.abs.cells = s.ll.flat := rfl
  have hv : s.abs.vals = s.vals := rfl
  simp only [hc, hv, plastKey_eq h.ll]
  split
  · exact ⟨h, rfl, rfl⟩
  · cases hl : s.ll.flat.getLast? with
    | none => exact ⟨h, rfl, rfl⟩
    | some p =>
      have hp := pop3_spec h p.1 false
      simp only [Option.map_some]
      generalize s.pop p.1 false = q3 at hp ⊢
      generalize s.abs.pop p.1 false = q at hp ⊢
      obtain ⟨q31, q32⟩ := q3
      obtain ⟨q1, q2⟩ := q
      obtain ⟨i, a, o⟩ := hp
      simp only at i a o
      subst o
      cases q32 <;> exact ⟨i, a, rfl⟩

theorem reversed3_spec {s : OMD3 K V} (h : Inv3 s) : s.reversed = s.abs.reversed := by
  rw [OMD3.reversed, pflatBack_eq h.ll]; rfl

/-! ### histories -/

structure HInv3 (st : HState3 K V) : Prop where
  s : Inv3 st.s
  t : Inv3 st.t

theorem HInv3.abs {st : HState3 K V} (hi : HInv3 st) : HInv st.abs := ⟨hi.s.inv, hi.t.inv⟩

theorem hinv3_init : HInv3 (HState3.init : HState3 K V) := ⟨inv3_empty, inv3_empty⟩

theorem withS3_spec (st : HState3 K V) (hi : HInv3 st) (r3 : OMD3 K V × Out K V) (r : OMD K V × Out K V)
    (h : Inv3 r3.1 ∧ r3.1.abs = r.1 ∧ r3.2 = r.2) :
    HInv3 (st.withS r3).1 ∧ (st.withS r3).1.abs = (st.abs.withS r).1 ∧ (st.withS r3).2 = (st.abs.withS r).2 := by
  obtain ⟨h1, h2, h3⟩ := h
  exact ⟨⟨h1, hi.t⟩, by simp [HState3.withS, HState.withS, HState3.abs, h2], h3⟩

/-- one step on the concrete layer is the step of the two-structure model on the abstraction -/
theorem hstep3_spec (st : HState3 K V) (hi : HInv3 st) (op : HOp K V) :
    HInv3 (hstep3 st op).1 ∧ (hstep3 st op).1.abs = (hstep st.abs op).1 ∧
      (hstep3 st op).2 = (hstep st.abs op).2 := by
  cases op with
  | new E F => exact withS3_spec st hi _ _ (new3_spec _ F)
  | add k v =>
    obtain ⟨i, a⟩ := add3_spec hi.s k v
    exact ⟨⟨i, hi.t⟩, by simp [hstep3, hstep, HState3.abs, a], rfl⟩
  | addlist k vs =>
    obtain ⟨i, a⟩ := addlist3_spec hi.s k vs
    exact ⟨⟨i, hi.t⟩, by simp [hstep3, hstep, HState3.abs, a], rfl⟩
  | setitem k v =>
    obtain ⟨s', e, i, a⟩ := setitem3_spec hi.s k v
    simp only [hstep3, hstep, e, HState3.withS]
    exact ⟨⟨i, hi.t⟩, by simp [HState3.abs, a], by fin⟩
  | delitem k => exact withS3_spec st hi _ _ (delitem3_spec hi.s k)
  | update E F =>
    obtain ⟨a1, _⟩ := resolve_spec st.abs hi.abs E
    obtain ⟨s', e, i, a⟩ := update3_spec hi.s (E.resolve st.abs) a1 F
    simp only [hstep3, hstep, e, HState3.withS]
    exact ⟨⟨i, hi.t⟩, by simp [HState3.abs, a], by fin⟩
  | updateExtend E F => exact withS3_spec st hi _ _ (updateExtend3_spec hi.s _ F)
  | setdefault k v => exact withS3_spec st hi _ _ (setdefault3_spec hi.s k v)
  | pop k d => exact withS3_spec st hi _ _ (pop3_spec hi.s k d)
  | popall k d => exact withS3_spec st hi _ _ (popall3_spec hi.s k d)
  | poplast k d => exact withS3_spec st hi _ _ (poplast3_spec hi.s k d)
  | popitem => exact withS3_spec st hi _ _ (popitem3_spec hi.s)
  | clear => exact ⟨⟨(clear3_spec hi.s).1, hi.t⟩, by simp [hstep3, hstep, HState3.abs, (clear3_spec hi.s).2], rfl⟩
  | addlistAbort k vs => exact ⟨hi, rfl, rfl⟩
  | updateAbort l =>
    obtain ⟨s', e, i, a⟩ := updPairs3_spec hi.s [] l
    simp only [hstep3, hstep, e]
    exact ⟨⟨i, hi.t⟩, by simp [HState3.abs, a], by fin⟩
  | updateExtendAbort l =>
    obtain ⟨i, a⟩ := addAll3_spec hi.s l
    exact ⟨⟨i, hi.t⟩, by simp [hstep3, hstep, HState3.abs, a], rfl⟩
  | updateMapAbort l =>
    obtain ⟨s', e, i, a⟩ := setAll3_spec hi.s l
    simp only [hstep3, hstep, e]
    exact ⟨⟨i, hi.t⟩, by simp [HState3.abs, a], by fin⟩
  | rejected => exact ⟨hi, rfl, rfl⟩
  | copyToT => exact ⟨⟨hi.s, (copy3_spec st.s).1⟩, by simp [hstep3, hstep, HState3.abs, (copy3_spec st.s).2], rfl⟩
  | copyToS => exact ⟨⟨(copy3_spec st.s).1, hi.t⟩, by simp [hstep3, hstep, HState3.abs, (copy3_spec st.s).2], rfl⟩
  | swap => exact ⟨⟨hi.t, hi.s⟩, rfl, rfl⟩

/-- whole histories on the concrete layer -/
theorem hrun3_spec (st : HState3 K V) (hi : HInv3 st) (ops : List (HOp K V)) :
    (hrun3 st ops).map (fun r => (r.1.abs, r.2)) = hrun st.abs ops ∧ ∀ r ∈ hrun3 st ops, HInv3 r.1 := by
  induction ops generalizing st with
  | nil => simp [hrun3, hrun]
  | cons op ops ih =>
    obtain ⟨h1, h2, h3⟩ := hstep3_spec st hi op
    have := ih (hstep3 st op).1 h1
    simp only [hrun3, hrun, List.map_cons, List.mem_cons]
    refine ⟨?_, ?_⟩
    · rw [this.1, h2, h3]
    · rintro r (rfl | hr)
      · exact h1
      · exact this.2 r hr

end sim
end C01
