import BoltonsVerif.C01.Model
/-
C01 — the specification: a plain insertion-ordered list of `(key, value)` pairs with the
obvious one-line operations.  Assignment and `update` replace all of a key's pairs,
`add` / `addlist` / `update_extend` append, single-value reads see the key's most recent pair,
keys are listed in order of first appearance.  Core Lean only.
-/
namespace C01.Spec
variable {K V : Type} [DecidableEq K]

/-! readers -/
def valsOf (k : K) (L : List (K × V)) : List V := (L.filter (isK k)).map (·.2)
def has (k : K) (L : List (K × V)) : Bool := L.any (isK k)
def last (k : K) (L : List (K × V)) : Option V := (valsOf k L).getLast?
def keys (L : List (K × V)) : List K := dedup (L.map (·.1))
def len (L : List (K × V)) : Nat := (keys L).length
def items (L : List (K × V)) : List (K × V) := (keys L).filterMap fun k => (last k L).map fun v => (k, v)
def values (L : List (K × V)) : List V := (items L).map (·.2)
def todictM (L : List (K × V)) : List (K × List V) := (keys L).map fun k => (k, valsOf k L)
def counts (L : List (K × V)) : List (K × Nat) := (keys L).map fun k => (k, (valsOf k L).length)
def reversed (L : List (K × V)) : List K := (keys L).reverse
def getitem (L : List (K × V)) (k : K) : Except Err V :=
  match last k L with | some v => .ok v | none => .error .keyError

/-- the text `ClassName([(k, v), (k, v), ...])`: the class name applied to the list display of the pairs -/
def reprText (cn : String) (rk : K → String) (rv : V → String) (L : List (K × V)) : String :=
  cn ++ "([" ++ ", ".intercalate (L.map fun p => "(" ++ rk p.1 ++ ", " ++ rv p.2 ++ ")") ++ "])"

/-! mutators -/
def remove (L : List (K × V)) (k : K) : List (K × V) := L.filter (notK k)
def setitem (L : List (K × V)) (k : K) (v : V) : List (K × V) := remove L k ++ [(k, v)]
def setAll (L : List (K × V)) (F : List (K × V)) : List (K × V) := F.foldl (fun a p => setitem a p.1 p.2) L
/-- drop every pair whose key occurs in `l`, then append `l` -/
def replaceBy (L : List (K × V)) (l : List (K × V)) : List (K × V) :=
  L.filter (fun p => !decide (p.1 ∈ l.map (·.1))) ++ l

inductive Arg (K V : Type) where
  | self
  | omd (T : List (K × V))
  | mapping (m : List (K × V))
  | pairs (l : List (K × V))

def update (L : List (K × V)) (E : Arg K V) (F : List (K × V)) : List (K × V) :=
  setAll (match E with
    | .self => L
    | .omd T => replaceBy L T
    | .mapping m => setAll L m
    | .pairs l => replaceBy L l) F

def updateExtend (L : List (K × V)) (E : Arg K V) (F : List (K × V)) : List (K × V) :=
  match E with
  | .self => L ++ items L ++ F
  | .omd T => L ++ T ++ F
  | .mapping m => L ++ m ++ F
  | .pairs l => L ++ l ++ F

def new (E : Option (Arg K V)) (F : List (K × V)) : List (K × V) :=
  setAll (match E with
    | none => []
    | some E => updateExtend [] E []) F

def missing (hasD : Bool) : Out K V := if hasD then .dflt else .err .keyError

def delitem (L : List (K × V)) (k : K) : List (K × V) × Out K V :=
  if has k L then (remove L k, .unit) else (L, .err .keyError)

def setdefault (L : List (K × V)) (k : K) (v : V) : List (K × V) × Out K V :=
  match last k L with
  | some x => (L, .val x)
  | none => (L ++ [(k, v)], .val v)

def pop (L : List (K × V)) (k : K) (hasD : Bool) : List (K × V) × Out K V :=
  match last k L with
  | some x => (remove L k, .val x)
  | none => (L, missing hasD)

def popall (L : List (K × V)) (k : K) (hasD : Bool) : List (K × V) × Out K V :=
  if has k L then (remove L k, .vals (valsOf k L)) else (L, missing hasD)

def poplast (L : List (K × V)) (k : Option K) (hasD : Bool) : List (K × V) × Out K V :=
  match k with
  | some k => (match last k L with
    | some x => (rmLast k L, .val x)
    | none => (L, missing hasD))
  | none => match L.getLast? with
    | some p => (L.dropLast, .val p.2)
    | none => (L, missing hasD)

def popitem (L : List (K × V)) : List (K × V) × Out K V :=
  match L.getLast? with
  | some p => (remove L p.1, .pair p.1 p.2)
  | none => (L, .err .keyError)

/-! equality -/
def eqMapping [DecidableEq V] (L : List (K × V)) (m : List (K × V)) : Bool :=
  decide (m.length = len L) && (keys L).all fun k => decide (dget k m = last k L)

/-! histories over the two registers -/
structure HState (K V : Type) where
  s : List (K × V)
  t : List (K × V)

def resolve (st : HState K V) : HArg K V → Arg K V
  | .self => .self
  | .regT => .omd st.t
  | .fresh l => .omd l
  | .mapping m => .mapping m
  | .pairs l => .pairs l

def resolveNew (st : HState K V) : HArg K V → Arg K V
  | .self => .omd st.s
  | E => resolve st E

def withS (st : HState K V) (r : List (K × V) × Out K V) : HState K V × Out K V := (⟨r.1, st.t⟩, r.2)

def hstep (st : HState K V) : HOp K V → HState K V × Out K V
  | .new E F => (⟨new (E.map (resolveNew st)) F, st.t⟩, .unit)
  | .add k v => (⟨st.s ++ [(k, v)], st.t⟩, .unit)
  | .addlist k vs => (⟨st.s ++ vs.map (fun v => (k, v)), st.t⟩, .unit)
  | .setitem k v => (⟨setitem st.s k v, st.t⟩, .unit)
  | .delitem k => withS st (delitem st.s k)
  | .update E F => (⟨update st.s (resolve st E) F, st.t⟩, .unit)
  | .updateExtend E F => (⟨updateExtend st.s (resolve st E) F, st.t⟩, .unit)
  | .setdefault k v => withS st (setdefault st.s k v)
  | .pop k d => withS st (pop st.s k d)
  | .popall k d => withS st (popall st.s k d)
  | .poplast k d => withS st (poplast st.s k d)
  | .popitem => withS st (popitem st.s)
  | .clear => (⟨[], st.t⟩, .unit)
  | .addlistAbort _ _ => (st, .abort)
  | .updateAbort l => (⟨replaceBy st.s l, st.t⟩, .abort)
  | .updateExtendAbort l => (⟨st.s ++ l, st.t⟩, .abort)
  | .updateMapAbort l => (⟨setAll st.s l, st.t⟩, .abort)
  | .rejected => (st, .abort)
  | .copyToT => (⟨st.s, st.s⟩, .unit)
  | .copyToS => (st, .unit)
  | .swap => (⟨st.t, st.s⟩, .unit)

def hrun (st : HState K V) : List (HOp K V) → List (HState K V × Out K V)
  | [] => []
  | op :: ops => let r := hstep st op; r :: hrun r.1 ops

end C01.Spec
