import BoltonsVerif.C01.Spec
/-
C01 helper lemmas: the association-list dict, the per-key view of the cell list, the
representation invariant `Inv` and its preservation by every mutator, and the refinement of
every mutator / reader to the list-of-pairs specification.
-/
namespace C01
open Spec

/-! ### the dict -/
section dict
variable {K β : Type} [DecidableEq K]

def dkeys (d : List (K × β)) : List K := d.map (·.1)

theorem dget_dset (k k' : K) (b : β) (d : List (K × β)) :
    dget k' (dset k b d) = if k' = k then some b else dget k' d := by
  induction d with
  | nil => simp [dset, dget, eq_comm]
  | cons p r ih => grind [dset, dget]

theorem dget_ddel (k k' : K) (d : List (K × β)) :
    dget k' (ddel k d) = if k' = k then none else dget k' d := by
  induction d with
  | nil => simp [ddel, dget]
  | cons p r ih =>
    simp only [ddel, List.filter_cons, notK] at *
    grind [dget]

theorem dget_isSome_iff (k : K) (d : List (K × β)) : (dget k d).isSome ↔ k ∈ dkeys d := by
  induction d with
  | nil => simp [dget, dkeys]
  | cons p r ih => simp only [dget, dkeys, List.map_cons, List.mem_cons] at *; grind

theorem dget_none_iff (k : K) (d : List (K × β)) : dget k d = none ↔ k ∉ dkeys d := by
  rw [← dget_isSome_iff]; cases dget k d <;> simp

theorem dkeys_dset (k : K) (b : β) (d : List (K × β)) :
    dkeys (dset k b d) = if k ∈ dkeys d then dkeys d else dkeys d ++ [k] := by
  induction d with
  | nil => simp [dset, dkeys]
  | cons p r ih => simp only [dkeys, dset, List.map_cons, List.mem_cons] at *; grind

theorem nodup_dset (k : K) (b : β) (d : List (K × β)) (h : (dkeys d).Nodup) :
    (dkeys (dset k b d)).Nodup := by
  rw [dkeys_dset]
  split
  · exact h
  · rename_i hk
    rw [List.nodup_append]
    refine ⟨h, by simp, ?_⟩
    intro a ha b hb
    simp at hb; subst hb
    intro e; subst e; exact hk ha

theorem nodup_ddel (k : K) (d : List (K × β)) (h : (dkeys d).Nodup) : (dkeys (ddel k d)).Nodup := by
  unfold dkeys ddel at *
  exact h.sublist (List.Sublist.map _ List.filter_sublist)

theorem mem_dkeys_ddel (k k' : K) (d : List (K × β)) : k' ∈ dkeys (ddel k d) ↔ k' ∈ dkeys d ∧ k' ≠ k := by
  rw [← dget_isSome_iff, dget_ddel, ← dget_isSome_iff]
  split <;> simp_all

end dict

/-! ### the per-key view of a list of pairs -/
section cells
variable {K V : Type} [DecidableEq K]

theorem isK_iff (k : K) (p : K × V) : isK k p = true ↔ p.1 = k := by simp [isK]
theorem notK_iff (k : K) (p : K × V) : notK k p = true ↔ p.1 ≠ k := by simp [notK]

@[simp] theorem valsOf_nil (k : K) : valsOf k ([] : List (K × V)) = [] := rfl

theorem valsOf_cons (k : K) (p : K × V) (L : List (K × V)) :
    valsOf k (p :: L) = if p.1 = k then p.2 :: valsOf k L else valsOf k L := by
  by_cases h : p.1 = k <;> simp [valsOf, isK, h]

theorem valsOf_append (k : K) (A B : List (K × V)) : valsOf k (A ++ B) = valsOf k A ++ valsOf k B := by
  simp [valsOf]

theorem valsOf_single (k k' : K) (v : V) : valsOf k' [(k, v)] = if k = k' then [v] else [] := by
  simp [valsOf_cons]

theorem valsOf_remove (k k' : K) (L : List (K × V)) :
    valsOf k' (L.filter (notK k)) = if k' = k then [] else valsOf k' L := by
  induction L with
  | nil => simp
  | cons p r ih =>
    simp only [List.filter_cons, notK]
    by_cases h : p.1 = k
    · simp only [h, decide_true, Bool.not_true, Bool.false_eq_true, ↓reduceIte, ih, valsOf_cons]
      grind
    · simp only [h, decide_false, Bool.not_false, ↓reduceIte, valsOf_cons, ih]
      grind

theorem valsOf_mapPair (k k' : K) (vs : List V) :
    valsOf k' (vs.map fun v => (k, v)) = if k = k' then vs else [] := by
  induction vs with
  | nil => simp
  | cons v r ih => simp only [List.map_cons, valsOf_cons, ih]; split <;> simp_all

theorem valsOf_ne_nil_iff (k : K) (L : List (K × V)) : valsOf k L ≠ [] ↔ k ∈ L.map (·.1) := by
  induction L with
  | nil => simp
  | cons p r ih => simp only [valsOf_cons, List.map_cons, List.mem_cons]; grind

theorem has_iff (k : K) (L : List (K × V)) : has k L = true ↔ valsOf k L ≠ [] := by
  rw [valsOf_ne_nil_iff]
  simp only [has, List.any_eq_true, isK, decide_eq_true_eq, List.mem_map]

theorem any_isK_iff (k : K) (L : List (K × V)) : L.any (isK k) = true ↔ valsOf k L ≠ [] := has_iff k L

theorem remove_eq_self (k : K) (L : List (K × V)) (h : valsOf k L = []) : L.filter (notK k) = L := by
  rw [List.filter_eq_self]
  intro p hp
  rw [notK_iff]
  intro e
  have : k ∈ L.map (·.1) := by rw [← e]; exact List.mem_map_of_mem hp
  rw [← valsOf_ne_nil_iff] at this
  exact this h

end cells

/-! ### the representation invariant -/
section inv
variable {K V : Type} [DecidableEq K]

/-- `some l` for a non-empty list, `none` for the empty one -/
def ne? (l : List V) : Option (List V) := if l.isEmpty then none else some l

@[simp] theorem ne?_nil : ne? ([] : List V) = none := rfl
theorem ne?_of_ne {l : List V} (h : l ≠ []) : ne? l = some l := by
  cases l <;> simp_all [ne?]
theorem ne?_eq_none {l : List V} : ne? l = none ↔ l = [] := by cases l <;> simp [ne?]
theorem ne?_eq_some {l m : List V} : ne? l = some m ↔ l = m ∧ m ≠ [] := by
  cases l <;> simp [ne?] <;> grind
theorem ne?_getD (l : List V) : (ne? l).getD [] = l := by cases l <;> simp [ne?]

/-- the dict holds, for every key, exactly the values of that key's cells in cell order (and no
    entry for a key without cells); dict keys are unique -/
structure Inv (s : OMD K V) : Prop where
  nodup : (dkeys s.vals).Nodup
  agree : ∀ k, dget k s.vals = ne? (valsOf k s.cells)

theorem Inv.getD_eq {s : OMD K V} (h : Inv s) (k : K) : (dget k s.vals).getD [] = valsOf k s.cells := by
  rw [h.agree, ne?_getD]

theorem Inv.dhas_eq {s : OMD K V} (h : Inv s) (k : K) : dhas k s.vals = has k s.cells := by
  rw [Bool.eq_iff_iff, has_iff, C01.dhas, h.agree]
  cases hv : valsOf k s.cells <;> simp [ne?]

theorem Inv.dget_none {s : OMD K V} (h : Inv s) (k : K) : dget k s.vals = none ↔ valsOf k s.cells = [] := by
  rw [h.agree, ne?_eq_none]

theorem Inv.dget_some {s : OMD K V} (h : Inv s) (k : K) (vs : List V) :
    dget k s.vals = some vs ↔ valsOf k s.cells = vs ∧ vs ≠ [] := by
  rw [h.agree, ne?_eq_some]

theorem inv_empty : Inv (OMD.empty : OMD K V) := ⟨by simp [OMD.empty, dkeys], by simp [OMD.empty, dget]⟩

theorem inv_add {s : OMD K V} (h : Inv s) (k : K) (v : V) : Inv (s.add k v) := by
  refine ⟨nodup_dset _ _ _ h.nodup, fun k' => ?_⟩
  simp only [OMD.add, dget_dset, valsOf_append, valsOf_single, h.getD_eq]
  by_cases e : k' = k
  · subst e; simp [ne?]
  · have : ¬ k = k' := fun e' => e e'.symm
    simp [e, this, h.agree]

theorem inv_addlist {s : OMD K V} (h : Inv s) (k : K) (vs : List V) : Inv (s.addlist k vs) := by
  unfold OMD.addlist
  split
  · exact h
  · rename_i hne
    refine ⟨nodup_dset _ _ _ h.nodup, fun k' => ?_⟩
    simp only [dget_dset, valsOf_append, valsOf_mapPair, h.getD_eq]
    by_cases e : k' = k
    · subst e
      cases vs with
      | nil => simp at hne
      | cons a r => simp [ne?]
    · have : ¬ k = k' := fun e' => e e'.symm
      simp [e, this, h.agree]

/-- `delKey` removes the key from both structures -/
theorem inv_delKey {s : OMD K V} (h : Inv s) (k : K) : Inv (s.delKey k) := by
  refine ⟨nodup_ddel _ _ h.nodup, fun k' => ?_⟩
  simp only [OMD.delKey, dget_ddel, valsOf_remove]
  split
  · rfl
  · exact h.agree k'

theorem setitem_cells {s : OMD K V} (h : Inv s) (k : K) (v : V) :
    (s.setitem k v).cells = s.cells.filter (notK k) ++ [(k, v)] := by
  simp only [OMD.setitem]
  split
  · rfl
  · rename_i hh
    rw [h.dhas_eq, has_iff] at hh
    simp only [ne_eq, Decidable.not_not] at hh
    rw [remove_eq_self k _ hh]

theorem inv_setitem {s : OMD K V} (h : Inv s) (k : K) (v : V) : Inv (s.setitem k v) := by
  refine ⟨nodup_dset _ _ _ h.nodup, fun k' => ?_⟩
  rw [setitem_cells h]
  simp only [OMD.setitem, dget_dset, valsOf_append, valsOf_single, valsOf_remove]
  by_cases e : k' = k
  · subst e; simp [ne?]
  · have : ¬ k = k' := fun e' => e e'.symm
    simp [e, this, h.agree]

theorem inv_delIfHas {s : OMD K V} (h : Inv s) (k : K) : Inv (s.delIfHas k) := by
  unfold OMD.delIfHas; split
  · exact inv_delKey h k
  · exact h

theorem delIfHas_cells {s : OMD K V} (h : Inv s) (k : K) : (s.delIfHas k).cells = s.cells.filter (notK k) := by
  unfold OMD.delIfHas; split
  · rfl
  · rename_i hh
    rw [h.dhas_eq, has_iff] at hh
    simp only [ne_eq, Decidable.not_not] at hh
    rw [remove_eq_self k _ hh]

/-! `iterkeys()`: first occurrences -/

theorem mem_dedupAux (seen l : List K) (k : K) : k ∈ dedupAux seen l ↔ k ∈ l ∧ k ∉ seen := by
  induction l generalizing seen with
  | nil => simp [dedupAux]
  | cons a r ih =>
    simp only [dedupAux]
    split
    · rw [ih]; grind
    · simp only [List.mem_cons, ih]; grind

theorem mem_dedup (l : List K) (k : K) : k ∈ dedup l ↔ k ∈ l := by simp [dedup, mem_dedupAux]

theorem nodup_dedupAux (seen l : List K) : (dedupAux seen l).Nodup := by
  induction l generalizing seen with
  | nil => simp [dedupAux]
  | cons a r ih =>
    simp only [dedupAux]
    split
    · exact ih seen
    · rw [List.nodup_cons]
      refine ⟨?_, ih _⟩
      rw [mem_dedupAux]; simp

theorem nodup_dedup (l : List K) : (dedup l).Nodup := nodup_dedupAux [] l

theorem mem_keys (L : List (K × V)) (k : K) : k ∈ Spec.keys L ↔ valsOf k L ≠ [] := by
  rw [Spec.keys, mem_dedup, valsOf_ne_nil_iff]

/-! folds -/

@[simp] theorem add_cells (s : OMD K V) (k : K) (v : V) : (s.add k v).cells = s.cells ++ [(k, v)] := rfl

theorem addAll_spec {s : OMD K V} (h : Inv s) (l : List (K × V)) :
    Inv (s.addAll l) ∧ (s.addAll l).cells = s.cells ++ l := by
  induction l generalizing s with
  | nil => simp [OMD.addAll, h]
  | cons p r ih =>
    have := ih (inv_add h p.1 p.2)
    simp only [OMD.addAll, List.foldl_cons] at this ⊢
    refine ⟨this.1, ?_⟩
    rw [this.2]; simp

theorem setAll_spec {s : OMD K V} (h : Inv s) (l : List (K × V)) :
    Inv (s.setAll l) ∧ (s.setAll l).cells = Spec.setAll s.cells l := by
  induction l generalizing s with
  | nil => simp [OMD.setAll, Spec.setAll, h]
  | cons p r ih =>
    have := ih (inv_setitem h p.1 p.2)
    simp only [OMD.setAll, Spec.setAll, List.foldl_cons] at this ⊢
    refine ⟨this.1, ?_⟩
    rw [this.2, setitem_cells h]; rfl

theorem fromPairs_spec (l : List (K × V)) : Inv (OMD.fromPairs l) ∧ (OMD.fromPairs l : OMD K V).cells = l := by
  have := addAll_spec (inv_empty (K := K) (V := V)) l
  simpa [OMD.fromPairs, OMD.empty] using this

/-- deleting a list of keys one after the other -/
theorem delKeys_spec {s : OMD K V} (h : Inv s) (ks : List K) :
    Inv (ks.foldl OMD.delIfHas s) ∧
    (ks.foldl OMD.delIfHas s).cells = s.cells.filter (fun p => !decide (p.1 ∈ ks)) := by
  induction ks generalizing s with
  | nil => exact ⟨h, by simp; exact (List.filter_eq_self.mpr (fun _ _ => rfl)).symm⟩
  | cons k r ih =>
    have := ih (inv_delIfHas h k)
    simp only [List.foldl_cons]
    refine ⟨this.1, ?_⟩
    rw [this.2, delIfHas_cells h, List.filter_filter]
    apply List.filter_congr
    intro p _
    simp [notK]
    grind

/-- the `seen` loop of `update(pairs)` -/
theorem updPairs_spec {s : OMD K V} (h : Inv s) (seen : List K) (l : List (K × V)) :
    Inv (s.updPairs seen l) ∧
    (s.updPairs seen l).cells =
      s.cells.filter (fun p => decide (p.1 ∈ seen) || !decide (p.1 ∈ l.map (·.1))) ++ l := by
  induction l generalizing s seen with
  | nil => exact ⟨h, by simp [OMD.updPairs]; exact (List.filter_eq_self.mpr (fun _ _ => rfl)).symm⟩
  | cons p r ih =>
    simp only [OMD.updPairs]
    split
    · rename_i hs
      have := ih (inv_add h p.1 p.2) seen
      refine ⟨this.1, ?_⟩
      rw [this.2]
      simp only [add_cells, List.filter_append, List.filter_cons, List.filter_nil, hs, decide_true, Bool.true_or,
        ↓reduceIte, List.append_assoc, List.cons_append, List.nil_append, List.map_cons, List.mem_cons]
      congr 1
      apply List.filter_congr
      intro q _
      by_cases e : q.1 = p.1 <;> simp [e, hs]
    · rename_i hs
      have := ih (inv_add (inv_delIfHas h p.1) p.1 p.2) (p.1 :: seen)
      refine ⟨this.1, ?_⟩
      rw [this.2]
      simp only [add_cells, delIfHas_cells h, List.filter_append, List.filter_cons, List.filter_nil, List.mem_cons,
        true_or, decide_true, Bool.true_or, ↓reduceIte, List.append_assoc, List.cons_append, List.nil_append,
        List.map_cons, List.filter_filter]
      congr 1
      apply List.filter_congr
      intro q _
      by_cases e : q.1 = p.1 <;> simp [e, hs, notK]

theorem replaceBy_eq (L l : List (K × V)) :
    L.filter (fun p => decide (p.1 ∈ ([] : List K)) || !decide (p.1 ∈ l.map (·.1))) ++ l = replaceBy L l := by
  simp [replaceBy]

/-! arguments -/

def ArgInv : Arg K V → Prop
  | .omd t => Inv t
  | _ => True

def absArg : Arg K V → Spec.Arg K V
  | .self => .self
  | .omd t => .omd t.cells
  | .mapping m => .mapping m
  | .pairs l => .pairs l

theorem update_spec {s : OMD K V} (h : Inv s) (E : Arg K V) (hE : ArgInv E) (F : List (K × V)) :
    Inv (s.update E F) ∧ (s.update E F).cells = Spec.update s.cells (absArg E) F := by
  unfold OMD.update Spec.update
  cases E with
  | self => exact setAll_spec h F
  | omd t =>
    have h1 := delKeys_spec h t.keys
    have h2 := addAll_spec h1.1 t.cells
    have h3 := setAll_spec h2.1 F
    refine ⟨h3.1, ?_⟩
    simp only [absArg]
    rw [h3.2, h2.2, h1.2]
    congr 1
    simp only [replaceBy]
    congr 1
    apply List.filter_congr
    intro p _
    simp only [OMD.keys, mem_dedup]
  | mapping m =>
    have h1 := setAll_spec h m
    have h3 := setAll_spec h1.1 F
    exact ⟨h3.1, by simp only [absArg]; rw [h3.2, h1.2]⟩
  | pairs l =>
    have h1 := updPairs_spec h [] l
    have h3 := setAll_spec h1.1 F
    refine ⟨h3.1, ?_⟩
    simp only [absArg]
    rw [h3.2, h1.2, replaceBy_eq]

/-! readers -/

theorem getLast?_of_ne {l : List V} (h : l ≠ []) : ∃ v, l.getLast? = some v := by
  cases hl : l.getLast? with
  | none => exact absurd (List.getLast?_eq_none_iff.mp hl) h
  | some v => exact ⟨v, rfl⟩

theorem last_isSome_iff (k : K) (L : List (K × V)) : (Spec.last k L).isSome ↔ valsOf k L ≠ [] := by
  unfold Spec.last
  cases hv : valsOf k L with
  | nil => simp
  | cons a r =>
    obtain ⟨v, hv'⟩ := getLast?_of_ne (l := a :: r) (by simp)
    simp [hv']

theorem getitem_spec {s : OMD K V} (h : Inv s) (k : K) : s.getitem k = Spec.getitem s.cells k := by
  unfold OMD.getitem Spec.getitem Spec.last
  rw [h.agree]
  cases hv : valsOf k s.cells with
  | nil => simp
  | cons a r =>
    obtain ⟨v, hv'⟩ := getLast?_of_ne (l := a :: r) (by simp)
    simp [ne?, hv']

theorem get_spec {s : OMD K V} (h : Inv s) (k : K) : s.get k = .ok (Spec.last k s.cells) := by
  unfold OMD.get Spec.last
  rw [h.agree]
  cases hv : valsOf k s.cells with
  | nil => simp
  | cons a r =>
    obtain ⟨v, hv'⟩ := getLast?_of_ne (l := a :: r) (by simp)
    simp [ne?, hv']

theorem getlist_spec {s : OMD K V} (h : Inv s) (k : K) : s.getlist k = valsOf k s.cells := h.getD_eq k

theorem contains_spec {s : OMD K V} (h : Inv s) (k : K) : s.contains k = has k s.cells := h.dhas_eq k

theorem mapE_filterMap {α β : Type} (f : α → Except Err β) (g : α → Option β) (l : List α)
    (h : ∀ a ∈ l, ∃ b, f a = .ok b ∧ g a = some b) : mapE f l = .ok (l.filterMap g) := by
  induction l with
  | nil => rfl
  | cons a r ih =>
    obtain ⟨b, hf, hg⟩ := h a (by simp)
    have := ih (fun x hx => h x (by simp [hx]))
    simp [mapE, hf, this, hg]

theorem mapE_map {α β : Type} (f : α → Except Err β) (g : α → β) (l : List α)
    (h : ∀ a ∈ l, f a = .ok (g a)) : mapE f l = .ok (l.map g) := by
  induction l with
  | nil => rfl
  | cons a r ih =>
    have := ih (fun x hx => h x (by simp [hx]))
    simp [mapE, h a (by simp), this]

theorem keys_spec (s : OMD K V) : s.keys = Spec.keys s.cells := rfl

theorem items_spec {s : OMD K V} (h : Inv s) : s.items = .ok (Spec.items s.cells) := by
  unfold OMD.items Spec.items
  rw [keys_spec]
  apply mapE_filterMap
  intro k hk
  rw [mem_keys] at hk
  obtain ⟨v, hv⟩ := getLast?_of_ne hk
  refine ⟨(k, v), ?_, by simp [Spec.last, hv]⟩
  rw [getitem_spec h]; simp [Spec.getitem, Spec.last, hv]

theorem items_fst (L : List (K × V)) : (Spec.items L).map (·.1) = Spec.keys L := by
  unfold Spec.items
  have : ∀ ks : List K, (∀ k ∈ ks, (Spec.last k L).isSome) →
      (ks.filterMap fun k => (Spec.last k L).map fun v => (k, v)).map (·.1) = ks := by
    intro ks
    induction ks with
    | nil => intro _; rfl
    | cons k r ih =>
      intro hk
      have h1 := hk k (by simp)
      cases hl : Spec.last k L with
      | none => simp [hl] at h1
      | some v =>
        rw [List.filterMap_cons]
        simp only [hl, Option.map_some, List.map_cons]
        rw [ih (fun x hx => hk x (by simp [hx]))]
  exact this _ (fun k hk => (last_isSome_iff k L).mpr ((mem_keys L k).mp hk))

theorem mem_items {L : List (K × V)} {p : K × V} (h : p ∈ Spec.items L) : Spec.last p.1 L = some p.2 := by
  unfold Spec.items at h
  obtain ⟨k, _, hk⟩ := List.mem_filterMap.mp h
  cases hl : Spec.last k L with
  | none => simp [hl] at hk
  | some v => simp [hl] at hk; subst hk; exact hl

theorem todict_spec {s : OMD K V} (h : Inv s) : s.todict = .ok (Spec.items s.cells) := items_spec h

/-- looking a key up in the visible items gives its most recent value -/
theorem dget_items (L : List (K × V)) (k : K) : dget k (Spec.items L) = Spec.last k L := by
  have key : ∀ ks : List K, (∀ x ∈ ks, (Spec.last x L).isSome) →
      dget k (ks.filterMap fun x => (Spec.last x L).map fun v => (x, v)) =
        if k ∈ ks then Spec.last k L else none := by
    intro ks
    induction ks with
    | nil => intro _; rfl
    | cons x r ih =>
      intro hx
      have h1 := hx x (by simp)
      have ih' := ih (fun y hy => hx y (by simp [hy]))
      cases hl : Spec.last x L with
      | none => simp [hl] at h1
      | some v =>
        rw [List.filterMap_cons]
        simp only [hl, Option.map_some, dget]
        by_cases e : x = k
        · subst e; simp [hl]
        · have e' : ¬ k = x := fun e' => e e'.symm
          simp only [e, ↓reduceIte, ih', List.mem_cons, e', false_or]
  unfold Spec.items
  rw [key _ (fun x hx => (last_isSome_iff x L).mpr ((mem_keys L x).mp hx))]
  split
  · rfl
  · rename_i hk
    have : valsOf k L = [] := by
      by_cases e : valsOf k L = []
      · exact e
      · exact absurd ((mem_keys L k).mpr e) hk
    simp [Spec.last, this]

theorem values_spec {s : OMD K V} (h : Inv s) : s.values = .ok (Spec.values s.cells) := by
  simp [OMD.values, items_spec h, Spec.values]

theorem todictM_spec {s : OMD K V} (h : Inv s) : s.todictM = Spec.todictM s.cells := by
  simp [OMD.todictM, Spec.todictM, keys_spec, getlist_spec h]

theorem counts_spec {s : OMD K V} (h : Inv s) : s.counts = .ok (Spec.counts s.cells) := by
  unfold OMD.counts Spec.counts
  rw [keys_spec]
  apply mapE_map
  intro k hk
  rw [mem_keys] at hk
  rw [h.agree, ne?_of_ne hk]

theorem len_spec {s : OMD K V} (h : Inv s) : s.len = Spec.len s.cells := by
  unfold OMD.len Spec.len
  have hp : (dkeys s.vals).Perm (Spec.keys s.cells) :=
    (List.perm_ext_iff_of_nodup h.nodup (nodup_dedup _)).mpr (fun k => by
      rw [← dget_isSome_iff, h.agree, mem_dedup, ← valsOf_ne_nil_iff]
      cases valsOf k s.cells <;> simp [ne?])
  simpa [dkeys] using hp.length_eq

theorem vals_isEmpty_iff {s : OMD K V} (h : Inv s) : s.vals.isEmpty = s.cells.isEmpty := by
  have := len_spec h
  unfold OMD.len Spec.len Spec.keys at this
  cases hv : s.vals with
  | nil =>
    cases hc : s.cells with
    | nil => rfl
    | cons p r => rw [hv, hc] at this; simp [dedup, dedupAux] at this
  | cons a r =>
    cases hc : s.cells with
    | nil => rw [hv, hc] at this; simp [dedup, dedupAux] at this
    | cons p r => rfl

/-! removal of the last cell of a key -/

theorem valsOf_rmLast (k k' : K) (L : List (K × V)) :
    valsOf k' (rmLast k L) = if k' = k then (valsOf k L).dropLast else valsOf k' L := by
  induction L with
  | nil => simp [rmLast]
  | cons p r ih =>
    simp only [rmLast]
    split
    · rename_i ha
      rw [any_isK_iff] at ha
      simp only [valsOf_cons, ih]
      by_cases e : k' = k
      · subst e
        by_cases e2 : p.1 = k'
        · simp [e2, List.dropLast_cons_of_ne_nil ha]
        · simp [e2]
      · simp [e]
    · rename_i ha
      have hn : valsOf k r = [] := by
        by_cases hh : valsOf k r = []
        · exact hh
        · exact absurd ((any_isK_iff k r).mpr hh) ha
      split
      · rename_i e2
        by_cases e : k' = k
        · subst e; simp [valsOf_cons, e2, hn]
        · have : ¬ p.1 = k' := by rw [e2]; exact fun e' => e e'.symm
          simp [valsOf_cons, e, this]
      · rename_i e2
        by_cases e : k' = k
        · subst e; simp [valsOf_cons, e2, hn]
        · simp [e]

theorem rmLast_concat (k : K) (v : V) (A : List (K × V)) : rmLast k (A ++ [(k, v)]) = A := by
  induction A with
  | nil => simp [rmLast]
  | cons a r ih => simp [rmLast, ih, isK]

theorem last_concat (k : K) (v : V) (A : List (K × V)) : Spec.last k (A ++ [(k, v)]) = some v := by
  simp [Spec.last, valsOf_append, valsOf_single]

/-! mutators that return something -/

theorem delitem_spec {s : OMD K V} (h : Inv s) (k : K) :
    Inv (s.delitem k).1 ∧ ((s.delitem k).1.cells, (s.delitem k).2) = Spec.delitem s.cells k := by
  unfold OMD.delitem Spec.delitem
  rw [h.dhas_eq]
  split
  · exact ⟨inv_delKey h k, rfl⟩
  · exact ⟨h, rfl⟩

theorem setdefault_spec {s : OMD K V} (h : Inv s) (k : K) (v : V) :
    Inv (s.setdefault k v).1 ∧ ((s.setdefault k v).1.cells, (s.setdefault k v).2) = Spec.setdefault s.cells k v := by
  unfold OMD.setdefault Spec.setdefault
  rw [h.dhas_eq]
  by_cases hh : has k s.cells = true
  · simp only [hh, ↓reduceIte]
    rw [getitem_spec h]
    have := (last_isSome_iff k s.cells).mpr ((has_iff k s.cells).mp hh)
    cases hl : Spec.last k s.cells with
    | none => simp [hl] at this
    | some x => exact ⟨h, by simp [Spec.getitem, hl]⟩
  · simp only [hh, Bool.false_eq_true, ↓reduceIte]
    have hv : valsOf k s.cells = [] := by
      by_cases e : valsOf k s.cells = []
      · exact e
      · exact absurd ((has_iff k s.cells).mpr e) hh
    have hl : Spec.last k s.cells = none := by simp [Spec.last, hv]
    rw [getitem_spec (inv_setitem h k v), setitem_cells h, remove_eq_self k _ hv]
    exact ⟨inv_setitem h k v, by simp [Spec.getitem, last_concat, hl]⟩

theorem popall_spec {s : OMD K V} (h : Inv s) (k : K) (d : Bool) :
    Inv (s.popall k d).1 ∧ ((s.popall k d).1.cells, (s.popall k d).2) = Spec.popall s.cells k d := by
  unfold OMD.popall Spec.popall
  rw [h.agree]
  cases hv : valsOf k s.cells with
  | nil =>
    have : has k s.cells = false := by
      cases hh : has k s.cells
      · rfl
      · exact absurd hv ((has_iff k s.cells).mp hh)
    simp [this, h, Spec.missing]
  | cons a r =>
    have : has k s.cells = true := (has_iff k s.cells).mpr (by simp [hv])
    simp only [ne?, List.isEmpty_cons, Bool.false_eq_true, ↓reduceIte, this]
    exact ⟨inv_delKey h k, by simp [OMD.delKey, Spec.remove]⟩

theorem pop_spec {s : OMD K V} (h : Inv s) (k : K) (d : Bool) :
    Inv (s.pop k d).1 ∧ ((s.pop k d).1.cells, (s.pop k d).2) = Spec.pop s.cells k d := by
  unfold OMD.pop Spec.pop Spec.last
  rw [h.agree]
  cases hv : valsOf k s.cells with
  | nil => simp [h, Spec.missing]
  | cons a r =>
    obtain ⟨x, hx⟩ := getLast?_of_ne (l := a :: r) (by simp)
    simp only [ne?, List.isEmpty_cons, Bool.false_eq_true, ↓reduceIte, hx]
    exact ⟨inv_delKey h k, by simp [OMD.delKey, Spec.remove]⟩

theorem poplastKey_spec {s : OMD K V} (h : Inv s) (k : K) (d : Bool) :
    Inv (s.poplastKey k d).1 ∧
    ((s.poplastKey k d).1.cells, (s.poplastKey k d).2) = Spec.poplast s.cells (some k) d := by
  unfold OMD.poplastKey Spec.poplast Spec.last
  by_cases ha : s.cells.any (isK k) = true
  · have hne := (any_isK_iff k s.cells).mp ha
    obtain ⟨x, hx⟩ := getLast?_of_ne hne
    simp only [ha, ↓reduceIte, h.agree, ne?_of_ne hne, hx]
    refine ⟨⟨?_, fun k' => ?_⟩, trivial⟩
    · split
      · exact nodup_ddel _ _ h.nodup
      · exact nodup_dset _ _ _ h.nodup
    · simp only [valsOf_rmLast]
      split
      · rename_i he
        rw [dget_ddel]
        split
        · rename_i e; subst e; simp at he; simp [he]
        · exact h.agree k'
      · rename_i he
        rw [dget_dset]
        split
        · rename_i e; subst e
          simp only [List.isEmpty_iff] at he
          exact (ne?_of_ne he).symm
        · exact h.agree k'
  · have hv : valsOf k s.cells = [] := by
      by_cases e : valsOf k s.cells = []
      · exact e
      · exact absurd ((any_isK_iff k s.cells).mpr e) ha
    simp [ha, hv, h, Spec.missing]

theorem poplast_spec {s : OMD K V} (h : Inv s) (k : Option K) (d : Bool) :
    Inv (s.poplast k d).1 ∧ ((s.poplast k d).1.cells, (s.poplast k d).2) = Spec.poplast s.cells k d := by
  cases k with
  | some k => exact poplastKey_spec h k d
  | none =>
    unfold OMD.poplast
    simp only
    rw [vals_isEmpty_iff h]
    cases hc : s.cells.getLast? with
    | none =>
      have : s.cells = [] := List.getLast?_eq_none_iff.mp hc
      simp [this, h, Spec.poplast, Spec.missing]
    | some p =>
      obtain ⟨ys, hys⟩ := List.getLast?_eq_some_iff.mp hc
      have hne : s.cells.isEmpty = false := by rw [hys]; cases ys <;> rfl
      simp only [hne, Bool.false_eq_true, ↓reduceIte]
      have := poplastKey_spec h p.1 d
      refine ⟨this.1, ?_⟩
      rw [this.2]
      simp only [Spec.poplast, hc]
      rw [hys, show ys ++ [p] = ys ++ [(p.1, p.2)] from rfl, last_concat, rmLast_concat]
      simp

theorem popitem_spec {s : OMD K V} (h : Inv s) :
    Inv s.popitem.1 ∧ (s.popitem.1.cells, s.popitem.2) = Spec.popitem s.cells := by
  unfold OMD.popitem Spec.popitem
  rw [vals_isEmpty_iff h]
  cases hc : s.cells.getLast? with
  | none =>
    have : s.cells = [] := List.getLast?_eq_none_iff.mp hc
    simp [this, h]
  | some p =>
    obtain ⟨ys, hys⟩ := List.getLast?_eq_some_iff.mp hc
    have hne : s.cells.isEmpty = false := by rw [hys]; cases ys <;> rfl
    simp only [hne, Bool.false_eq_true, ↓reduceIte]
    have hp := pop_spec h p.1 false
    have hl : Spec.last p.1 s.cells = some p.2 := by
      rw [hys, show ys ++ [p] = ys ++ [(p.1, p.2)] from rfl, last_concat]
    simp only [Spec.pop, hl] at hp
    have h2 : (s.pop p.1 false).2 = .val p.2 := by
      have := congrArg Prod.snd hp.2; simpa using this
    have h1 : (s.pop p.1 false).1.cells = Spec.remove s.cells p.1 := by
      have := congrArg Prod.fst hp.2; simpa using this
    generalize hq : s.pop p.1 false = q at hp h1 h2
    obtain ⟨q1, q2⟩ := q
    simp only at h1 h2 hp
    subst h2
    exact ⟨hp.1, by simp [h1]⟩

theorem updateExtend_spec {s : OMD K V} (h : Inv s) (E : Arg K V) (F : List (K × V)) :
    Inv (s.updateExtend E F).1 ∧ (s.updateExtend E F).2 = .unit ∧
    (s.updateExtend E F).1.cells = Spec.updateExtend s.cells (absArg E) F := by
  unfold OMD.updateExtend Spec.updateExtend
  cases E with
  | self =>
    simp only [items_spec h, absArg]
    have h1 := addAll_spec h (Spec.items s.cells)
    have h2 := addAll_spec h1.1 F
    exact ⟨h2.1, trivial, by rw [h2.2, h1.2]⟩
  | omd t =>
    have h1 := addAll_spec h t.cells
    have h2 := addAll_spec h1.1 F
    exact ⟨h2.1, rfl, by simp only [absArg]; rw [h2.2, h1.2]⟩
  | mapping m =>
    have h1 := addAll_spec h m
    have h2 := addAll_spec h1.1 F
    exact ⟨h2.1, rfl, by simp only [absArg]; rw [h2.2, h1.2]⟩
  | pairs l =>
    have h1 := addAll_spec h l
    have h2 := addAll_spec h1.1 F
    exact ⟨h2.1, rfl, by simp only [absArg]; rw [h2.2, h1.2]⟩

theorem new_spec (E : Option (Arg K V)) (F : List (K × V)) :
    Inv (OMD.new E F).1 ∧ (OMD.new E F).2 = .unit ∧
    (OMD.new E F).1.cells = Spec.new (E.map absArg) F := by
  unfold OMD.new Spec.new
  cases E with
  | none =>
    have := setAll_spec (inv_empty (K := K) (V := V)) F
    exact ⟨this.1, rfl, by simpa [OMD.empty] using this.2⟩
  | some E =>
    have h1 := updateExtend_spec (inv_empty (K := K) (V := V)) E []
    generalize hq : (OMD.empty : OMD K V).updateExtend E [] = q at h1 ⊢
    obtain ⟨q1, q2⟩ := q
    simp only at h1
    obtain ⟨i1, o1, c1⟩ := h1
    subst o1
    have h2 := setAll_spec i1 F
    simp only [Option.map_some, hq]
    exact ⟨h2.1, trivial, by rw [h2.2, c1]; rfl⟩

theorem copy_spec (s : OMD K V) : Inv s.copy ∧ s.copy.cells = s.cells := fromPairs_spec s.cells

/-! ### histories -/

def absH (st : HState K V) : Spec.HState K V := ⟨st.s.cells, st.t.cells⟩

structure HInv (st : HState K V) : Prop where
  s : Inv st.s
  t : Inv st.t

theorem resolve_spec (st : HState K V) (hi : HInv st) (E : HArg K V) :
    ArgInv (E.resolve st) ∧ absArg (E.resolve st) = Spec.resolve (absH st) E := by
  cases E with
  | self => exact ⟨trivial, rfl⟩
  | regT => exact ⟨hi.t, rfl⟩
  | fresh l => exact ⟨(fromPairs_spec l).1, by simp [HArg.resolve, absArg, Spec.resolve, (fromPairs_spec l).2]⟩
  | mapping m => exact ⟨trivial, rfl⟩
  | pairs l => exact ⟨trivial, rfl⟩

theorem withS_spec (st : HState K V) (hi : HInv st) (r : OMD K V × Out K V) (q : List (K × V) × Out K V)
    (h : Inv r.1 ∧ (r.1.cells, r.2) = q) :
    HInv (st.withS r).1 ∧ absH (st.withS r).1 = (Spec.withS (absH st) q).1 ∧
      (st.withS r).2 = (Spec.withS (absH st) q).2 := by
  obtain ⟨h1, h2⟩ := h
  subst h2
  exact ⟨⟨h1, hi.t⟩, rfl, rfl⟩

/-- one step of a history refines the list-of-pairs step: invariant kept, abstraction commutes,
    same return value -/
theorem hstep_spec (st : HState K V) (hi : HInv st) (op : HOp K V) :
    HInv (hstep st op).1 ∧ absH (hstep st op).1 = (Spec.hstep (absH st) op).1 ∧
      (hstep st op).2 = (Spec.hstep (absH st) op).2 := by
  cases op with
  | new E F =>
    simp only [hstep, Spec.hstep]
    have hA' : (E.map (HArg.resolveNew st)).map absArg = E.map (Spec.resolveNew (absH st)) := by
      cases E with
      | none => rfl
      | some E => cases E <;> simp [absArg, HArg.resolveNew, Spec.resolveNew, HArg.resolve, Spec.resolve, absH, (fromPairs_spec _).2]
    have := new_spec (E.map (HArg.resolveNew st)) F
    rw [hA'] at this
    generalize OMD.new (E.map (HArg.resolveNew st)) F = q at this ⊢
    obtain ⟨q1, q2⟩ := q
    obtain ⟨i1, o1, c1⟩ := this
    simp only at i1 o1 c1
    subst o1
    exact ⟨⟨i1, hi.t⟩, by simp [HState.withS, absH, c1], rfl⟩
  | add k v => exact ⟨⟨inv_add hi.s k v, hi.t⟩, rfl, rfl⟩
  | addlist k vs =>
    refine ⟨⟨inv_addlist hi.s k vs, hi.t⟩, ?_, rfl⟩
    simp only [hstep, Spec.hstep, absH, OMD.addlist]
    split
    · rename_i he; simp only [List.isEmpty_iff] at he; subst he; simp
    · rfl
  | setitem k v =>
    refine ⟨⟨inv_setitem hi.s k v, hi.t⟩, ?_, rfl⟩
    simp only [hstep, Spec.hstep, absH, setitem_cells hi.s]; rfl
  | delitem k => exact withS_spec st hi _ _ (delitem_spec hi.s k)
  | update E F =>
    obtain ⟨a1, a2⟩ := resolve_spec st hi E
    have := update_spec hi.s (E.resolve st) a1 F
    refine ⟨⟨this.1, hi.t⟩, ?_, rfl⟩
    simp only [hstep, Spec.hstep, absH, this.2, a2]
  | updateExtend E F =>
    obtain ⟨a1, a2⟩ := resolve_spec st hi E
    have := updateExtend_spec hi.s (E.resolve st) F
    simp only [hstep, Spec.hstep]
    generalize st.s.updateExtend (E.resolve st) F = q at this ⊢
    obtain ⟨q1, q2⟩ := q
    obtain ⟨i1, o1, c1⟩ := this
    simp only at i1 o1 c1
    subst o1
    exact ⟨⟨i1, hi.t⟩, by simp [HState.withS, absH, c1, a2], rfl⟩
  | setdefault k v => exact withS_spec st hi _ _ (setdefault_spec hi.s k v)
  | pop k d => exact withS_spec st hi _ _ (pop_spec hi.s k d)
  | popall k d => exact withS_spec st hi _ _ (popall_spec hi.s k d)
  | poplast k d => exact withS_spec st hi _ _ (poplast_spec hi.s k d)
  | popitem => exact withS_spec st hi _ _ (popitem_spec hi.s)
  | clear => exact ⟨⟨inv_empty, hi.t⟩, rfl, rfl⟩
  | addlistAbort k vs => exact ⟨hi, rfl, rfl⟩
  | updateAbort l =>
    have := updPairs_spec hi.s [] l
    exact ⟨⟨this.1, hi.t⟩, by simp only [hstep, Spec.hstep, absH, this.2, replaceBy_eq], rfl⟩
  | updateExtendAbort l =>
    have := addAll_spec hi.s l
    exact ⟨⟨this.1, hi.t⟩, by simp only [hstep, Spec.hstep, absH, this.2], rfl⟩
  | updateMapAbort l =>
    have := setAll_spec hi.s l
    exact ⟨⟨this.1, hi.t⟩, by simp only [hstep, Spec.hstep, absH, this.2], rfl⟩
  | rejected => exact ⟨hi, rfl, rfl⟩
  | copyToT => exact ⟨⟨hi.s, (copy_spec st.s).1⟩, by simp [hstep, Spec.hstep, absH, (copy_spec st.s).2], rfl⟩
  | copyToS => exact ⟨⟨(copy_spec st.s).1, hi.t⟩, by simp [hstep, Spec.hstep, absH, (copy_spec st.s).2], rfl⟩
  | swap => exact ⟨⟨hi.t, hi.s⟩, rfl, rfl⟩

theorem hinv_init : HInv (HState.init : HState K V) := ⟨inv_empty, inv_empty⟩

/-- whole histories: after every prefix the states correspond and the return values agree -/
theorem hrun_spec (st : HState K V) (hi : HInv st) (ops : List (HOp K V)) :
    (hrun st ops).map (fun r => (absH r.1, r.2)) = Spec.hrun (absH st) ops ∧
    ∀ r ∈ hrun st ops, HInv r.1 := by
  induction ops generalizing st with
  | nil => simp [hrun, Spec.hrun]
  | cons op ops ih =>
    obtain ⟨h1, h2, h3⟩ := hstep_spec st hi op
    have := ih (hstep st op).1 h1
    simp only [hrun, Spec.hrun, List.map_cons, List.mem_cons]
    refine ⟨?_, ?_⟩
    · rw [this.1, h2, h3]
    · rintro r (rfl | hr)
      · exact h1
      · exact this.2 r hr

/-! ### `__reversed__` -/

/-- keep the last occurrence of every element -/
def keepLast : List K → List K
  | [] => []
  | k :: r => if k ∈ r then keepLast r else k :: keepLast r

theorem dedupAux_concat (seen l : List K) (k : K) :
    dedupAux seen (l ++ [k]) = if k ∈ seen ∨ k ∈ l then dedupAux seen l else dedupAux seen l ++ [k] := by
  induction l generalizing seen with
  | nil => simp [dedupAux]
  | cons a r ih =>
    simp only [List.cons_append, dedupAux]
    split
    · rw [ih]; grind
    · rw [ih]; grind

theorem dedup_concat (l : List K) (k : K) :
    dedup (l ++ [k]) = if k ∈ l then dedup l else dedup l ++ [k] := by
  simp [dedup, dedupAux_concat]

theorem keepLast_eq (r : List K) : keepLast r = (dedup r.reverse).reverse := by
  induction r with
  | nil => simp [keepLast, dedup, dedupAux]
  | cons k r ih =>
    simp only [keepLast, List.reverse_cons, dedup_concat, List.mem_reverse]
    split <;> simp [ih]

theorem valsOf_reverse (k : K) (L : List (K × V)) : valsOf k L.reverse = (valsOf k L).reverse := by
  simp [valsOf, List.filter_reverse]

theorem reversedAux_spec (vals : List (K × List V)) (N : K → Nat) (lengths : List (K × Nat)) (R : List (K × V))
    (hv : ∀ p ∈ R, ∃ vs, dget p.1 vals = some vs ∧ vs.length = N p.1)
    (hl : ∀ k, (dget k lengths).getD 1 + (valsOf k R).length = N k + 1) :
    OMD.reversedAux vals lengths R = .ok (keepLast (R.map (·.1))) := by
  induction R generalizing lengths with
  | nil => rfl
  | cons p r ih =>
    obtain ⟨vs, hvs, hlen⟩ := hv p (by simp)
    have ih' := ih (dset p.1 ((dget p.1 lengths).getD 1 + 1) lengths) (fun q hq => hv q (by simp [hq])) (by
      intro k
      have := hl k
      rw [dget_dset]
      simp only [valsOf_cons] at this
      split
      · rename_i e; subst e; simp at this ⊢; omega
      · rename_i e
        have : ¬ p.1 = k := fun e' => e e'.symm
        simp_all)
    simp only [OMD.reversedAux, hvs, ih', List.map_cons, keepLast]
    have h1 := hl p.1
    simp only [valsOf_cons, ↓reduceIte, List.length_cons] at h1
    congr 1
    by_cases hm : p.1 ∈ r.map (·.1)
    · have : valsOf p.1 r ≠ [] := (valsOf_ne_nil_iff p.1 r).mpr hm
      have : 0 < (valsOf p.1 r).length := List.length_pos_iff.mpr this
      simp only [hm, ↓reduceIte]
      rw [if_neg]; omega
    · have : valsOf p.1 r = [] := by
        by_cases e : valsOf p.1 r = []
        · exact e
        · exact absurd ((valsOf_ne_nil_iff p.1 r).mp e) hm
      simp only [hm, ↓reduceIte]
      rw [if_pos]; rw [this] at h1; simp at h1; omega

theorem reversed_spec {s : OMD K V} (h : Inv s) : s.reversed = .ok (Spec.reversed s.cells) := by
  unfold OMD.reversed Spec.reversed Spec.keys
  rw [reversedAux_spec s.vals (fun k => (valsOf k s.cells).length) [] s.cells.reverse]
  · rw [keepLast_eq]; simp
  · intro p hp
    have hm : p.1 ∈ s.cells.map (·.1) := List.mem_map_of_mem (List.mem_reverse.mp hp)
    have hne := (valsOf_ne_nil_iff p.1 s.cells).mpr hm
    exact ⟨_, by rw [h.agree, ne?_of_ne hne], rfl⟩
  · intro k; simp [dget, valsOf_reverse]; omega

/-! ### equality -/

theorem zipEq_iff [DecidableEq V] (a b : List (K × V)) : OMD.zipEq a b = true ↔ a = b := by
  induction a generalizing b with
  | nil => cases b <;> simp [OMD.zipEq]
  | cons x xs ih =>
    cases b with
    | nil => simp [OMD.zipEq]
    | cons y ys =>
      simp only [OMD.zipEq, List.cons.injEq]
      split
      · rename_i hne
        simp only [Bool.false_eq_true, false_iff, not_and]
        intro e; subst e; simp at hne
      · rename_i hne
        rw [ih]
        have : x = y := by
          have h1 : x.1 = y.1 := by
            by_cases e : x.1 = y.1
            · exact e
            · exact absurd (Or.inl e) hne
          have h2 : x.2 = y.2 := by
            by_cases e : x.2 = y.2
            · exact e
            · exact absurd (Or.inr e) hne
          exact Prod.ext h1 h2
        simp [this]

theorem eqOMD_iff [DecidableEq V] {s t : OMD K V} (hs : Inv s) (ht : Inv t) :
    s.eqOMD t = true ↔ s.cells = t.cells := by
  unfold OMD.eqOMD
  constructor
  · intro h
    split at h
    · simp at h
    · exact (zipEq_iff _ _).mp h
  · intro e
    have : t.len = s.len := by rw [len_spec hs, len_spec ht, e]
    simp [this, (zipEq_iff _ _).mpr e]

theorem eqMapLoop_spec [DecidableEq V] {s : OMD K V} (h : Inv s) (m : List (K × V)) (ks : List K)
    (hk : ∀ k ∈ ks, valsOf k s.cells ≠ []) :
    s.eqMapLoop m ks = .ok (ks.all fun k => decide (dget k m = Spec.last k s.cells)) := by
  induction ks with
  | nil => rfl
  | cons k r ih =>
    have ih' := ih (fun x hx => hk x (by simp [hx]))
    obtain ⟨v, hv⟩ := getLast?_of_ne (hk k (by simp))
    have hl : Spec.last k s.cells = some v := hv
    simp only [OMD.eqMapLoop, List.all_cons, hl]
    cases hm : dget k m with
    | none => simp
    | some mv =>
      simp only [getitem_spec h, Spec.getitem, hl]
      by_cases e : mv = v
      · subst e; simp [ih']
      · simp [e]

theorem eqMapping_spec [DecidableEq V] {s : OMD K V} (h : Inv s) (m : List (K × V)) :
    s.eqMapping m = .ok (Spec.eqMapping s.cells m) := by
  unfold OMD.eqMapping Spec.eqMapping
  rw [len_spec h]
  split
  · rename_i hne; simp [hne]
  · rename_i he
    simp only [ne_eq, Decidable.not_not] at he
    rw [eqMapLoop_spec h m s.keys (fun k hk => (mem_keys _ _).mp hk)]
    simp [he, keys_spec]

/-- pigeonhole on duplicate-free lists -/
theorem subset_of_nodup_length_le : ∀ (a b : List K), a.Nodup → a ⊆ b → b.length ≤ a.length → b ⊆ a := by
  intro a
  induction a with
  | nil => intro b _ _ hl; cases b <;> simp_all
  | cons x a ih =>
    intro b hn hs hl
    rw [List.nodup_cons] at hn
    have hx : x ∈ b := hs (by simp)
    have h1 : a ⊆ b.erase x := by
      intro y hy
      have : y ≠ x := fun e => hn.1 (e ▸ hy)
      exact (List.mem_erase_of_ne this).mpr (hs (by simp [hy]))
    have h2 : (b.erase x).length ≤ a.length := by
      rw [List.length_erase_of_mem hx]; simp at hl; omega
    have := ih (b.erase x) hn.2 h1 h2
    intro y hy
    by_cases e : y = x
    · simp [e]
    · exact List.mem_cons_of_mem _ (this ((List.mem_erase_of_ne e).mpr hy))

theorem spec_eqMapping_iff [DecidableEq V] (L m : List (K × V)) (hm : (dkeys m).Nodup) :
    Spec.eqMapping L m = true ↔ ∀ k, dget k m = Spec.last k L := by
  unfold Spec.eqMapping Spec.len
  simp only [Bool.and_eq_true, decide_eq_true_eq, List.all_eq_true]
  constructor
  · rintro ⟨hlen, hall⟩ k
    by_cases hk : k ∈ Spec.keys L
    · exact hall k hk
    · have hsub : Spec.keys L ⊆ dkeys m := by
        intro x hx
        rw [← dget_isSome_iff, hall x hx, last_isSome_iff]
        exact (mem_keys _ _).mp hx
      have hrev := subset_of_nodup_length_le (Spec.keys L) (dkeys m) (nodup_dedup _) hsub
        (by simp [dkeys, hlen])
      have h1 : k ∉ dkeys m := fun hh => hk (hrev hh)
      have h2 : valsOf k L = [] := by
        by_cases e : valsOf k L = []
        · exact e
        · exact absurd ((mem_keys _ _).mpr e) hk
      rw [(dget_none_iff k m).mpr h1]; simp [Spec.last, h2]
  · intro h
    refine ⟨?_, fun k _ => h k⟩
    have hp : (dkeys m).Perm (Spec.keys L) :=
      (List.perm_ext_iff_of_nodup hm (nodup_dedup _)).mpr (fun k => by
        rw [← dget_isSome_iff, h k, last_isSome_iff]
        exact (mem_keys L k).symm)
    simpa [dkeys] using hp.length_eq

end inv

/-! ### sorting -/
section sorting
variable {α : Type}

theorem insBy_perm (le : α → α → Bool) (x : α) (l : List α) : (insBy le x l).Perm (x :: l) := by
  induction l with
  | nil => simp [insBy]
  | cons y ys ih =>
    simp only [insBy]
    split
    · exact List.Perm.refl _
    · exact ((List.Perm.cons y ih).trans (List.Perm.swap x y ys))

theorem sortBy_perm (le : α → α → Bool) (l : List α) : (sortBy le l).Perm l := by
  induction l with
  | nil => simp [sortBy]
  | cons x xs ih =>
    simp only [sortBy, List.foldr_cons] at ih ⊢
    exact (insBy_perm le x _).trans (List.Perm.cons x ih)

theorem insBy_sorted (le : α → α → Bool) (htot : ∀ a b, le a b = true ∨ le b a = true)
    (htr : ∀ a b c, le a b = true → le b c = true → le a c = true) (x : α) (l : List α)
    (h : l.Pairwise (fun a b => le a b = true)) : (insBy le x l).Pairwise (fun a b => le a b = true) := by
  induction l with
  | nil => simp [insBy]
  | cons y ys ih =>
    rw [List.pairwise_cons] at h
    simp only [insBy]
    split
    · rename_i hxy
      rw [List.pairwise_cons]
      refine ⟨?_, List.pairwise_cons.mpr h⟩
      intro z hz
      rcases List.mem_cons.mp hz with rfl | hz
      · exact hxy
      · exact htr _ _ _ hxy (h.1 z hz)
    · rename_i hxy
      rw [List.pairwise_cons]
      refine ⟨?_, ih h.2⟩
      intro z hz
      have := (insBy_perm le x ys).mem_iff.mp hz
      rcases List.mem_cons.mp this with rfl | hz
      · rcases htot z y with h1 | h1
        · exact absurd h1 hxy
        · exact h1
      · exact h.1 z hz

theorem sortBy_sorted (le : α → α → Bool) (htot : ∀ a b, le a b = true ∨ le b a = true)
    (htr : ∀ a b c, le a b = true → le b c = true → le a c = true) (l : List α) :
    (sortBy le l).Pairwise (fun a b => le a b = true) := by
  induction l with
  | nil => simp [sortBy]
  | cons x xs ih =>
    simp only [sortBy, List.foldr_cons] at ih ⊢
    exact insBy_sorted le htot htr x _ ih

/-- sorting an already sorted list changes nothing (in particular the order among equals) -/
theorem sortBy_of_sorted (le : α → α → Bool) (l : List α)
    (h : l.Pairwise (fun a b => le a b = true)) : sortBy le l = l := by
  induction l with
  | nil => rfl
  | cons x xs ih =>
    rw [List.pairwise_cons] at h
    simp only [sortBy, List.foldr_cons] at ih ⊢
    rw [ih h.2]
    cases xs with
    | nil => rfl
    | cons y ys => simp [insBy, h.1 y (by simp)]

theorem flipIf_total (rev : Bool) (le : α → α → Bool) (htot : ∀ a b, le a b = true ∨ le b a = true) :
    ∀ a b, flipIf rev le a b = true ∨ flipIf rev le b a = true := by
  intro a b; cases rev
  · exact htot a b
  · exact htot b a

theorem flipIf_trans (rev : Bool) (le : α → α → Bool)
    (htr : ∀ a b c, le a b = true → le b c = true → le a c = true) :
    ∀ a b c, flipIf rev le a b = true → flipIf rev le b c = true → flipIf rev le a c = true := by
  intro a b c; cases rev
  · exact htr a b c
  · exact fun h1 h2 => htr c b a h2 h1

/-! stability: elements with equal sort keys keep their relative order -/

/-- `a` and `b` have the same sort key -/
def eqv (le : α → α → Bool) (a b : α) : Bool := le a b && le b a

theorem eqv_flipIf (rev : Bool) (le : α → α → Bool) (a b : α) : eqv (flipIf rev le) a b = eqv le a b := by
  cases rev
  · rfl
  · simp [eqv, flipIf, Bool.and_comm]

theorem insBy_filter_eqv (le : α → α → Bool)
    (htr : ∀ a b c, le a b = true → le b c = true → le a c = true) (a x : α) (l : List α) :
    (insBy le x l).filter (eqv le a) = if eqv le a x = true then x :: l.filter (eqv le a) else l.filter (eqv le a) := by
  induction l with
  | nil => simp [insBy, List.filter_cons]
  | cons y ys ih =>
    simp only [insBy]
    split
    · simp only [List.filter_cons]
    · rename_i hxy
      rw [List.filter_cons, ih]
      by_cases hax : eqv le a x = true
      · have hay : ¬ eqv le a y = true := by
          intro hay
          simp only [eqv, Bool.and_eq_true] at hax hay
          exact hxy (htr _ _ _ hax.2 hay.1)
        simp [hax, hay, List.filter_cons]
      · simp [hax, List.filter_cons]

theorem sortBy_filter_eqv (le : α → α → Bool)
    (htr : ∀ a b c, le a b = true → le b c = true → le a c = true) (a : α) (l : List α) :
    (sortBy le l).filter (eqv le a) = l.filter (eqv le a) := by
  induction l with
  | nil => rfl
  | cons x xs ih =>
    simp only [sortBy, List.foldr_cons] at ih ⊢
    rw [insBy_filter_eqv le htr, ih, List.filter_cons]

/-- a sorted list is determined by its classes of equal sort keys (each in its own order) -/
theorem sorted_ext (le : α → α → Bool)
    (htr : ∀ a b c, le a b = true → le b c = true → le a c = true)
    (hrefl : ∀ a, le a a = true) :
    ∀ (A B : List α), A.Pairwise (fun a b => le a b = true) → B.Pairwise (fun a b => le a b = true) →
      (∀ a, A.filter (eqv le a) = B.filter (eqv le a)) → A = B := by
  intro A
  induction A with
  | nil =>
    intro B _ _ h
    cases B with
    | nil => rfl
    | cons y ys => have := h y; simp [List.filter_cons, eqv, hrefl] at this
  | cons x xs ih =>
    intro B hA hB h
    cases B with
    | nil => have := h x; simp [List.filter_cons, eqv, hrefl] at this
    | cons y ys =>
      rw [List.pairwise_cons] at hA hB
      have hxx : eqv le x x = true := by simp [eqv, hrefl]
      have hyy : eqv le y y = true := by simp [eqv, hrefl]
      -- x occurs in B and y occurs in A
      have hxB : x ∈ y :: ys := by
        have h1 := h x
        rw [List.filter_cons, if_pos hxx] at h1
        have : x ∈ (y :: ys).filter (eqv le x) := by rw [← h1]; simp
        exact (List.mem_filter.mp this).1
      have hyA : y ∈ x :: xs := by
        have h1 := h y
        rw [List.filter_cons (xs := ys), if_pos hyy] at h1
        have : y ∈ (x :: xs).filter (eqv le y) := by rw [h1]; simp
        exact (List.mem_filter.mp this).1
      have hxy : le x y = true := by
        rcases List.mem_cons.mp hyA with e | hm
        · rw [e]; exact hrefl _
        · exact hA.1 y hm
      have hyx : le y x = true := by
        rcases List.mem_cons.mp hxB with e | hm
        · rw [e]; exact hrefl _
        · exact hB.1 x hm
      have hexy : eqv le x y = true := by simp [eqv, hxy, hyx]
      have hhead : x = y := by
        have h1 := h x
        rw [List.filter_cons, if_pos hxx, List.filter_cons, if_pos hexy] at h1
        exact (List.cons.inj h1).1
      subst hhead
      congr 1
      apply ih ys hA.2 hB.2
      intro a
      have h1 := h a
      rw [List.filter_cons, List.filter_cons] at h1
      split at h1
      · exact (List.cons.inj h1).2
      · exact h1

end sorting

/-! ### `sortedvalues` -/
section sortedvalues
variable {K V : Type} [DecidableEq K]

theorem dget_mapSnd {β γ : Type} (f : β → γ) (k : K) (d : List (K × β)) :
    dget k (d.map fun kv => (kv.1, f kv.2)) = (dget k d).map f := by
  induction d with
  | nil => rfl
  | cons p r ih => simp only [List.map_cons, dget]; split <;> simp_all

theorem count_keys (k : K) (L : List (K × V)) : (L.map (·.1)).count k = (valsOf k L).length := by
  induction L with
  | nil => rfl
  | cons p r ih =>
    simp only [List.map_cons, List.count_cons, valsOf_cons, ih]
    by_cases e : p.1 = k <;> simp [e]

theorem svLoop_spec (ks : List K) : ∀ (ret : OMD K V) (m : List (K × List V)), Inv ret →
    (∀ k, ks.count k ≤ ((dget k m).getD []).length) →
    ∃ ret' B, OMD.svLoop ret m ks = (ret', .unit) ∧ Inv ret' ∧ ret'.cells = ret.cells ++ B ∧
      B.map (·.1) = ks ∧ ∀ k, valsOf k B = (((dget k m).getD []).reverse).take (ks.count k) := by
  induction ks with
  | nil =>
    intro ret m hr _
    exact ⟨ret, [], rfl, hr, by simp, rfl, by simp⟩
  | cons k r ih =>
    intro ret m hr hm
    have hk := hm k
    simp only [List.count_cons_self] at hk
    cases hd : dget k m with
    | none => simp [hd] at hk
    | some l =>
      simp only [hd, Option.getD_some] at hk
      have hne : l ≠ [] := by intro e; subst e; simp at hk
      obtain ⟨v, hv⟩ := getLast?_of_ne hne
      obtain ⟨ys, hys⟩ := List.getLast?_eq_some_iff.mp hv
      have hdl : l.dropLast = ys := by rw [hys]; simp
      have hm' : ∀ k', r.count k' ≤ ((dget k' (dset k ys m)).getD []).length := by
        intro k'
        rw [dget_dset]
        split
        · rename_i e; subst e
          simp only [Option.getD_some]
          rw [hys] at hk; simp at hk; omega
        · rename_i e
          have := hm k'
          have hne' : ¬ (k == k') = true := by simp; exact fun e' => e e'.symm
          simp only [List.count_cons, hne', Bool.false_eq_true, ↓reduceIte, Nat.add_zero] at this
          exact this
      obtain ⟨ret', B', h1, h2, h3, h4, h5⟩ := ih (ret.add k v) (dset k ys m) (inv_add hr k v) hm'
      refine ⟨ret', (k, v) :: B', ?_, h2, ?_, ?_, ?_⟩
      · simp only [OMD.svLoop, hd, hv, hdl]; exact h1
      · rw [h3]; simp
      · simp [h4]
      · intro k'
        rw [valsOf_cons, h5 k', dget_dset]
        by_cases e : k = k'
        · subst e
          simp only [↓reduceIte, Option.getD_some, hd, List.count_cons_self]
          rw [hys]; simp [List.take_succ_cons]
        · have e' : ¬ k' = k := fun x => e x.symm
          have hne' : ¬ (k == k') = true := by simp; exact e
          simp [e, e', List.count_cons, hne']

theorem sortedvalues_spec {s : OMD K V} (h : Inv s) (le : V → V → Bool) (rev : Bool) :
    ∃ r, s.sortedvalues le rev = (r, .unit) ∧ Inv r ∧ r.cells.map (·.1) = s.cells.map (·.1) ∧
      ∀ k, valsOf k r.cells = (sortBy (flipIf (!rev) le) (valsOf k s.cells)).reverse := by
  unfold OMD.sortedvalues
  have hg : ∀ k, (dget k (s.vals.map fun kv => (kv.1, sortBy (flipIf (!rev) le) kv.2))).getD [] =
      sortBy (flipIf (!rev) le) (valsOf k s.cells) := by
    intro k
    rw [dget_mapSnd, h.agree]
    cases hv : valsOf k s.cells <;> simp [ne?, sortBy]
  obtain ⟨r, B, h1, h2, h3, h4, h5⟩ := svLoop_spec s.keysM (OMD.empty : OMD K V) _ inv_empty (by
    intro k
    rw [hg, (sortBy_perm _ _).length_eq, OMD.keysM, count_keys]
    exact Nat.le_refl _)
  refine ⟨r, h1, h2, ?_, ?_⟩
  · rw [h3]; simpa [OMD.empty, OMD.keysM] using h4
  · intro k
    rw [h3]
    simp only [OMD.empty, List.nil_append, h5 k, hg]
    apply List.take_of_length_le
    rw [List.length_reverse, (sortBy_perm _ _).length_eq, OMD.keysM, count_keys]
    exact Nat.le_refl _

end sortedvalues

section misc
variable {K V : Type} [DecidableEq K]

/-- `update(mapping)`: assigning key after key is "drop every mentioned key, append the mapping" -/
theorem setAll_eq_replaceBy (L m : List (K × V)) (hm : (dkeys m).Nodup) :
    Spec.setAll L m = Spec.replaceBy L m := by
  induction m generalizing L with
  | nil => simp [Spec.setAll, Spec.replaceBy]; exact (List.filter_eq_self.mpr (fun _ _ => rfl)).symm
  | cons p r ih =>
    simp only [dkeys, List.map_cons, List.nodup_cons] at hm
    have := ih (Spec.setitem L p.1 p.2) hm.2
    simp only [Spec.setAll, List.foldl_cons] at this ⊢
    rw [this]
    simp only [Spec.replaceBy, Spec.setitem, Spec.remove, List.filter_append, List.filter_filter, List.map_cons,
      List.filter_cons, List.filter_nil]
    have hp : (!decide (p.1 ∈ r.map (·.1))) = true := by simp; simpa using hm.1
    simp only [hp, ↓reduceIte, List.append_assoc, List.cons_append, List.nil_append]
    congr 1
    apply List.filter_congr
    intro q _
    by_cases e : q.1 = p.1 <;> simp [notK, e]

/-! ### the view objects and `fromkeys` -/

theorem viewValuesIter_spec {s : OMD K V} (h : Inv s) : s.viewValuesIter = .ok (Spec.values s.cells) := by
  unfold OMD.viewValuesIter OMD.iter
  rw [keys_spec]
  have : Spec.values s.cells = (Spec.keys s.cells).filterMap (fun k => Spec.last k s.cells) := by
    simp only [Spec.values, Spec.items, List.map_filterMap]
    congr 1
    funext k
    cases Spec.last k s.cells <;> rfl
  rw [this]
  apply mapE_filterMap
  intro k hk
  rw [mem_keys] at hk
  obtain ⟨v, hv⟩ := getLast?_of_ne hk
  refine ⟨v, ?_, by simp [Spec.last, hv]⟩
  rw [getitem_spec h]; simp [Spec.getitem, Spec.last, hv]

theorem viewItemsContains_spec [DecidableEq V] {s : OMD K V} (h : Inv s) (k : K) (v : V) :
    s.viewItemsContains k v = .ok (decide (Spec.last k s.cells = some v)) := by
  unfold OMD.viewItemsContains
  rw [getitem_spec h]
  unfold Spec.getitem
  cases Spec.last k s.cells with
  | none => simp
  | some x => simp

theorem valsOf_mapConst (k : K) (d : V) (ks : List K) :
    valsOf k (ks.map fun k' => (k', d)) = List.replicate (ks.count k) d := by
  induction ks with
  | nil => rfl
  | cons a r ih =>
    rw [List.map_cons, valsOf_cons, ih]
    by_cases e : a = k
    · subst e; simp [List.replicate_succ]
    · have : ¬ (a == k) = true := by simpa using e
      simp [e, List.count_cons, this]

/-- on the plain list a failing operation changes nothing -/
theorem spec_err_unchanged (st : Spec.HState K V) (op : HOp K V) (e : Err)
    (h : (Spec.hstep st op).2 = .err e) : (Spec.hstep st op).1 = st := by
  obtain ⟨s, t⟩ := st
  cases op <;> simp only [Spec.hstep, Spec.withS] at h ⊢ <;> try (simp at h; done)
  all_goals (
    first
    | (unfold Spec.delitem at h ⊢; split at h <;> simp_all)
    | (unfold Spec.setdefault at h ⊢; split at h <;> simp_all)
    | (unfold Spec.pop Spec.missing at h ⊢; split at h <;> simp_all)
    | (unfold Spec.popall Spec.missing at h ⊢; split at h <;> simp_all)
    | (unfold Spec.poplast Spec.missing at h ⊢; split at h <;> split at h <;> simp_all)
    | (unfold Spec.popitem at h ⊢; split at h <;> simp_all))

end misc
end C01
