import BoltonsVerif.C01.Driver
def main : IO Unit := BV.mainLoop C01.Driver.handle
