import BoltonsVerif.Generated.C16_Tables
/-
C16 — executable model of boltons/tbutils.py:
  * ParsedException.from_string / to_string (text is `List Char`; lines are `List Char`)
  * Callpoint.tb_frame_str, TracebackInfo.from_traceback(limit) / get_formatted,
    ExceptionInfo.get_formatted, and the `traceback` module's layout (`stdFormat`, spec side)
  * the frame walk: Callpoint.from_tb over traceback entries (`TbEntry`), `_DeferredLine.__str__`
    (linecache.checkcache + getline with the module's name and loader) and, spec side, the lookup of
    the `traceback` module (lazycache, checkcache, getline) over an abstract linecache / file / loader state

The model follows the code as it is on the c16-work / r3-c16-work branches (after the `fix:` commits):
  - TracebackInfo.get_formatted collapses runs of more than 3 identical entries (r3-c16-work 7fb4f9f),
  - the frame loop of from_string is guarded by `line_no < len(tb_lines)` (no IndexError),
  - ExceptionInfo.get_formatted prints the bare type when the message is empty,
  - the type name is the qualified name (this is outside the model: the harness passes the name).

Character classes (`\d`, str.isspace, str.splitlines separators) come from
Generated/C16_Tables.lean, regenerated from the running interpreter on every run.
Core Lean only.
-/
namespace C16

abbrev Str := List Char

/-! ## character classes -/

def inRanges (rs : List (Nat × Nat)) (n : Nat) : Bool := rs.any fun r => r.1 ≤ n && n ≤ r.2

/-- `\d` of a str pattern -/
def isDigit (c : Char) : Bool := inRanges Gen.digitRanges c.toNat
/-- str.isspace / what str.strip() removes -/
def isSpace (c : Char) : Bool := inRanges Gen.spaceRanges c.toNat
/-- a character at which str.splitlines() breaks -/
def isSep (c : Char) : Bool := Gen.sepCps.contains c.toNat

def notSpace (c : Char) : Bool := !isSpace c
def notSep (c : Char) : Bool := !isSep c

/-! ## Python string primitives -/

def lstrip (s : Str) : Str := s.dropWhile isSpace
def rstrip (s : Str) : Str := (s.reverse.dropWhile isSpace).reverse
def strip (s : Str) : Str := rstrip (lstrip s)

/-- `str.splitlines()`: breaks at every separator, `\r\n` is one break, no empty last line.
    `skipLF` = the previous character was `\r` (a directly following `\n` belongs to the same break) -/
def splitlinesGo (skipLF : Bool) : Str → List Str
  | [] => []
  | c :: rest =>
    if skipLF && c = '\n' then splitlinesGo false rest
    else if c = '\r' then [] :: splitlinesGo true rest
    else if isSep c then [] :: splitlinesGo false rest
    else match splitlinesGo false rest with
      | [] => [[c]]
      | l :: ls => (c :: l) :: ls

def splitlines (s : Str) : List Str := splitlinesGo false s

/-- `'\n'.join(lines)` -/
def joinNL : List Str → Str
  | [] => []
  | [l] => l
  | l :: ls => l ++ '\n' :: joinNL ls

/-- `s.split('\n')` (never empty) -/
def splitNL : Str → List Str
  | [] => [[]]
  | c :: rest =>
    if c = '\n' then [] :: splitNL rest
    else match splitNL rest with
      | [] => [[c]]
      | l :: ls => (c :: l) :: ls

/-- `dropPrefix? p s = some r` iff `s = p ++ r` -/
def dropPrefix? : Str → Str → Option Str
  | [], s => some s
  | _ :: _, [] => none
  | p :: ps, c :: cs => if p = c then dropPrefix? ps cs else none

/-- `s.partition(': ')` as (head, tail-after-separator or none) -/
def partitionCS : Str → Str × Option Str
  | [] => ([], none)
  | c :: rest =>
    if c = ':' ∧ rest.head? = some ' ' then ([], some rest.tail)
    else (c :: (partitionCS rest).1, (partitionCS rest).2)

/-! ## literals of the source (cross-checked against Generated in Props) -/

def header : Str := "Traceback (most recent call last):".toList
def litA : Str := "File \"".toList
def litB : Str := "\", line ".toList
def litC : Str := ", in ".toList
def ind2 : Str := "  ".toList
def ind4 : Str := "    ".toList
def colonSp : Str := ": ".toList
def trailerPre : Str := "Exception ".toList
def trailerSuf : Str := "ignored".toList

/-- `_underline_re = ^[~^ ]*$` -/
def isUnderlineChar (c : Char) : Bool := c = '~' || c = '^' || c = ' '
def isUnderline (l : Str) : Bool := l.all isUnderlineChar

/-! ## the regex scanners -/

/-- what must follow the file path in `_frame_re`: `", line \d+, in .+$`; returns (lineno, funcname) -/
def tailMatch (s : Str) : Option (Str × Str) :=
  match dropPrefix? litB s with
  | none => none
  | some r =>
    if r.takeWhile isDigit = [] then none else
    match dropPrefix? litC (r.dropWhile isDigit) with
    | none => none
    | some fn => if fn = [] then none else some (r.takeWhile isDigit, fn)

/-- what must follow the file path in `_se_frame_re`: `", line \d+` (no end anchor); funcname absent -/
def tailMatchSE (s : Str) : Option (Str × Str) :=
  match dropPrefix? litB s with
  | none => none
  | some r => if r.takeWhile isDigit = [] then none else some (r.takeWhile isDigit, [])

/-- greedy `.+` followed by `tm`: the rightmost position at which `tm` succeeds -/
def findLast (tm : Str → Option (Str × Str)) : Str → Option (Str × (Str × Str))
  | [] => none
  | c :: cs =>
    match findLast tm cs with
    | some (pre, x) => some (c :: pre, x)
    | none => match tm (c :: cs) with
      | some x => some ([], x)
      | none => none

structure Frame where
  file : Str
  lineno : Str     -- the digit string as captured / as formatted
  func : Str       -- [] in the SyntaxError form (no `funcname` group)
  src : Str        -- [] = no source line ('' in Python)
deriving DecidableEq, Repr

/-- `frame_re.match(line)` for a stripped line; `tm` selects `_frame_re` / `_se_frame_re` -/
def matchWith (tm : Str → Option (Str × Str)) (l : Str) : Option Frame :=
  match dropPrefix? litA l with
  | none => none
  | some r =>
    match findLast tm r with
    | none => none
    | some (fp, ln, fn) => if fp = [] then none else some ⟨fp, ln, fn, []⟩

def matchFrame : Str → Option Frame := matchWith tailMatch
def matchSE : Str → Option Frame := matchWith tailMatchSE

/-! ## ParsedException -/

structure PE where
  frames : List Frame
  etype : Str
  msg : Str
deriving DecidableEq, Repr

def frameLine (f : Frame) : Str := ind2 ++ litA ++ f.file ++ litB ++ f.lineno ++ litC ++ f.func

def frameLines (f : Frame) : List Str :=
  if f.src = [] then [frameLine f] else [frameLine f, ind4 ++ f.src]

def excLine (etype msg : Str) : Str := if msg = [] then etype else etype ++ (colonSp ++ msg)

/-- the list `lines` built by to_string -/
def toLines (pe : PE) : List Str :=
  header :: (pe.frames.flatMap frameLines ++ [excLine pe.etype pe.msg])

/-- ParsedException.to_string -/
def toString (pe : PE) : Str := joinNL (toLines pe)

/-- `cl.startswith('Exception ') and cl.endswith('ignored')` -/
def isTrailer (l : Str) : Bool := trailerPre.isPrefixOf l && trailerSuf.isSuffixOf l

/-- pop trailing "Exception ... ignored" lines (works on the reversed list) -/
def dropTrailersRev : List Str → List Str
  | [] => []
  | l :: ls => if isTrailer l then dropTrailersRev ls else l :: ls

def dropTrailers (ls : List Str) : List Str := (dropTrailersRev ls.reverse).reverse

def startsWithSpace (l : Str) : Bool := match l with | ' ' :: _ => true | _ => false

/-- lines consumed after a frame line: the optional source line (`next_line` logic) -/
def takeSource (re : Str → Option Frame) (rest : List Str) : Str × List Str :=
  match rest with
  | [] => ([], [])                               -- IndexError branch: next_line = ''
  | next :: rest' =>
    if (re (strip next)).isSome || !startsWithSpace next then ([], rest)
    else (strip next, rest')

/-- the anchor skip: `if line_no + 1 < len(tb_lines) and _underline_re.match(tb_lines[line_no + 1])` -/
def skipUnderline (rest : List Str) : List Str :=
  match rest with
  | [] => []
  | u :: rest' => if isUnderline u then rest' else rest

theorem takeSource_len (re : Str → Option Frame) (rest : List Str) :
    (takeSource re rest).2.length ≤ rest.length := by
  unfold takeSource
  split
  · simp
  · split <;> simp

theorem skipUnderline_len (rest : List Str) : (skipUnderline rest).length ≤ rest.length := by
  unfold skipUnderline
  split
  · simp
  · split <;> simp

/-- the `while` loop of from_string over the remaining lines; returns the frames (in order)
    and the lines left for the exception part (`tb_lines[line_no:]`) -/
def parseLoop (re : Str → Option Frame) (ls : List Str) : List Frame × List Str :=
  match ls with
  | [] => ([], [])
  | l :: rest =>
    match re (strip l) with
    | none => ([], l :: rest)
    | some fd =>
      let r := parseLoop re (skipUnderline (takeSource re rest).2)
      ({ fd with src := (takeSource re rest).1 } :: r.1, r.2)
termination_by ls.length
decreasing_by
  have h1 := takeSource_len re rest
  have h2 := skipUnderline_len (takeSource re rest).2
  simp only [List.length_cons]
  omega

inductive Err | valueError
deriving DecidableEq, Repr

/-- `exc_type, _, exc_msg = '\n'.join(tb_lines[line_no:]).partition(': ')` -/
def excParts (ls : List Str) : Str × Str :=
  ((partitionCS (joinNL ls)).1, (partitionCS (joinNL ls)).2.getD [])

/-- which of the two text forms from_string recognised -/
inductive Form | tb | se
deriving DecidableEq, Repr

def secondLastIsCaret (ls : List Str) : Bool :=
  match ls.reverse with
  | _ :: l :: _ => (match lstrip l with | '^' :: _ => true | _ => false)
  | _ => false

/-- ParsedException.from_string on the list `tb_str.lstrip().splitlines()` -/
def fromLinesF (ls0 : List Str) : Except Err (Form × PE) :=
  let ls := dropTrailers ls0
  match ls with
  | first :: rest =>
    if strip first = header then
      let r := parseLoop matchFrame rest
      .ok (.tb, ⟨r.1, (excParts r.2).1, (excParts r.2).2⟩)
    else if secondLastIsCaret ls then
      let r := parseLoop matchSE ls
      .ok (.se, ⟨r.1, (excParts r.2).1, (excParts r.2).2⟩)
    else .error .valueError
  | [] => .error .valueError

def fromStringF (t : Str) : Except Err (Form × PE) := fromLinesF (splitlines (lstrip t))

/-- ParsedException.from_string -/
def fromString (t : Str) : Except Err PE := (fromStringF t).map (·.2)

/-- a session of `ParsedException.from_string` calls in one process: the code keeps no state between calls and hands
    out fresh lists and dicts, so each text is parsed on its own, whatever was parsed before and whatever the callers
    did with the earlier results (the correspondence check parses every text again after spoiling the earlier result,
    and after histories of other calls) -/
def parseSession (texts : List Str) : List (Except Err PE) := texts.map fromString

/-! ## the interpreter's text with position-marker ("anchor") lines, and well-formedness -/

/-- lines of one frame as the interpreter prints them: frame line, source line when there is
    one, and (3.11+) an optional marker line after the source line -/
def frameLinesA (fa : Frame × Option Str) : List Str :=
  if fa.1.src = [] then [frameLine fa.1] else
  match fa.2 with
  | none => [frameLine fa.1, ind4 ++ fa.1.src]
  | some a => [frameLine fa.1, ind4 ++ fa.1.src, a]

def toLinesA (fas : List (Frame × Option Str)) (etype msg : Str) : List Str :=
  header :: (fas.flatMap frameLinesA ++ [excLine etype msg])

/-- standard-format text with marker lines -/
def toStringA (fas : List (Frame × Option Str)) (etype msg : Str) : Str := joinNL (toLinesA fas etype msg)

def noAnchors (pe : PE) : List (Frame × Option Str) := pe.frames.map fun f => (f, none)

/-- no suffix of the function name looks like `", line N, in x` -/
def noTail : Str → Bool
  | [] => true
  | c :: cs => (tailMatch (c :: cs)).isNone && noTail cs

def firstNotSpace (s : Str) : Bool := match s with | [] => false | c :: _ => notSpace c
def lastNotSpace (s : Str) : Bool := firstNotSpace s.reverse

def WFsrc (s : Str) : Bool :=
  s = [] || (s.all notSep && firstNotSpace s && lastNotSpace s && (matchFrame s).isNone)

def WFframe (f : Frame) : Bool :=
  f.file != [] && f.file.all notSep &&
  f.lineno != [] && f.lineno.all isDigit &&
  f.func.all notSep && lastNotSpace f.func && noTail f.func &&
  WFsrc f.src

/-- a marker line: only `~`, `^` and spaces -/
def WFanchor (a : Option Str) : Bool := match a with | none => true | some u => isUnderline u

def lastLine (s : Str) : Str := (splitNL s).getLast?.getD []

def msgCharOK (c : Char) : Bool := notSep c || c = '\n'

def WFexc (etype msg : Str) : Bool :=
  etype != [] && etype.all notSpace && etype.any (fun c => !isUnderlineChar c) &&
  msg.all msgCharOK && msg.getLast? != some '\n' &&
  !isTrailer (lastLine (excLine etype msg))

def WFpe (pe : PE) : Bool := pe.frames.all WFframe && WFexc pe.etype pe.msg

def WFtextA (fas : List (Frame × Option Str)) (etype msg : Str) : Bool :=
  fas.all (fun fa => WFframe fa.1 && WFanchor fa.2) && WFexc etype msg

/-! ## a decidable well-formedness predicate on texts -/

/-- layout-driven reading of the lines after the header, independent of the from_string loop: a frame
    line is indented by exactly two spaces, its source line by exactly four; the first line that is
    neither starts the exception part -/
def readFrames : List Str → List Frame × List Str
  | [] => ([], [])
  | l :: rest =>
    match dropPrefix? ind2 l with
    | none => ([], l :: rest)
    | some body =>
      match matchFrame body with
      | none => ([], l :: rest)
      | some fd =>
        match rest with
        | [] => ([fd], [])
        | s :: rest' =>
          match dropPrefix? ind4 s with
          | some src => ({ fd with src := src } :: (readFrames rest').1, (readFrames rest').2)
          | none => (fd :: (readFrames (s :: rest')).1, (readFrames (s :: rest')).2)

def readText (t : Str) : Option PE :=
  match splitNL t with
  | first :: rest =>
    if first = header then
      if (readFrames rest).2 = [] then none
      else some ⟨(readFrames rest).1, (excParts (readFrames rest).2).1, (excParts (readFrames rest).2).2⟩
    else none
  | [] => none

/-- `t` is a standard-format text (no marker lines, no final newline): the layout reading yields
    well-formed data whose standard rendering is `t` itself -/
def WFtext (t : Str) : Bool :=
  match readText t with
  | some pe => WFpe pe && toString pe == t
  | none => false

/-! ## clause 2: Callpoint / TracebackInfo / ExceptionInfo formatting and the interpreter's layout -/

/-- what the interpreter hands over for one traceback entry: co_filename, tb_lineno, co_name and
    the linecache line ('' when there is none) -/
structure Callpoint where
  path : Str
  lineno : Nat
  func : Str
  line : Str
deriving DecidableEq, Repr

def natStr (n : Nat) : Str := (Nat.repr n).toList

/-- `'  File "{}", line {}, in {}\n'` -/
def cpHead (c : Callpoint) : Str :=
  ind2 ++ litA ++ c.path ++ litB ++ natStr c.lineno ++ litC ++ c.func ++ ['\n']

/-- Callpoint.tb_frame_str: `if self.line:` is `len(str(_DeferredLine)) > 0` i.e. the rstripped line -/
def tbFrameStr (c : Callpoint) : Str :=
  if rstrip c.line = [] then cpHead c else cpHead c ++ (ind4 ++ strip (rstrip c.line) ++ ['\n'])

/-- TracebackInfo.from_traceback(tb, limit): the first `limit` entries (`none` = sys.tracebacklimit
    absent, default 1000, assumed larger than the chain) -/
def fromTraceback (tb : List Callpoint) (limit : Option Nat) : List Callpoint :=
  match limit with
  | none => tb
  | some n => tb.take n

def headerNL : Str := header ++ ['\n']

def sameSite (a b : Callpoint) : Bool := a.path = b.path && a.lineno = b.lineno && a.func = b.func

/-- `_repeated_line_note(count)` / the traceback module's `[Previous line repeated N more times]` -/
def repeatedMsg (n : Nat) : Str :=
  "  [Previous line repeated ".toList ++ natStr n ++ (if n > 1 then " more times]\n".toList else " more time]\n".toList)

def flushRepeat (count : Nat) : Str := if count > 3 then repeatedMsg (count - 3) else []

/-- the loop of TracebackInfo.get_formatted (after the fix: runs of identical entries are collapsed):
    `last` = site of the previous entry, `count` = length of the current run -/
def bLoop : Option Callpoint → Nat → List Callpoint → Str
  | _, count, [] => flushRepeat count
  | last, count, f :: fs =>
    if (match last with | none => true | some l => !sameSite l f) then
      flushRepeat count ++ (tbFrameStr f ++ bLoop (some f) 1 fs)
    else if count + 1 ≤ 3 then tbFrameStr f ++ bLoop last (count + 1) fs
    else bLoop last (count + 1) fs

/-- TracebackInfo.get_formatted -/
def tbInfoFormat (frames : List Callpoint) : Str := headerNL ++ bLoop none 0 frames

/-- ExceptionInfo.get_formatted_exception_only (after the empty-message fix) -/
def eiExcOnly (etype msg : Str) : Str := if msg = [] then etype else etype ++ (colonSp ++ msg)

/-- ExceptionInfo.get_formatted -/
def eiFormat (frames : List Callpoint) (etype msg : Str) : Str :=
  tbInfoFormat frames ++ eiExcOnly etype msg

/-- tbutils.print_exception for a non-SyntaxError exception: `str(TracebackInfo)` followed by
    tbutils.format_exception_only = `_format_final_exc_line` -/
def printException (frames : List Callpoint) (etype msg : Str) : Str :=
  tbInfoFormat frames ++ (if msg = [] then etype ++ ['\n'] else etype ++ (colonSp ++ msg) ++ ['\n'])

/-! the standard `traceback` module (CPython 3.12 StackSummary.format without anchors /
    TracebackException.format_exception_only), as the specification -/

/-- FrameSummary.line is the stripped line; printed when non-empty -/
def stdFrameStr (c : Callpoint) : Str :=
  if strip c.line = [] then cpHead c else cpHead c ++ (ind4 ++ strip (strip c.line) ++ ['\n'])

/-- StackSummary.format: `last` = previous entry, `count` = length of the current run -/
def stdLoop : Option Callpoint → Nat → List Callpoint → Str
  | _, count, [] => flushRepeat count
  | last, count, f :: fs =>
    if (match last with | none => true | some l => !sameSite l f) then
      flushRepeat count ++ (stdFrameStr f ++ stdLoop (some f) 1 fs)
    else if count + 1 > 3 then stdLoop last (count + 1) fs
    else stdFrameStr f ++ stdLoop last (count + 1) fs

/-- no run of more than 3 consecutive entries with the same file, line and function
    (same bookkeeping as `stdLoop`) -/
def noLongRunFrom : Option Callpoint → Nat → List Callpoint → Bool
  | _, _, [] => true
  | last, count, f :: fs =>
    if (match last with | none => true | some l => !sameSite l f) then noLongRunFrom (some f) 1 fs
    else count + 1 ≤ 3 && noLongRunFrom last (count + 1) fs

def NoLongRun (frames : List Callpoint) : Bool := noLongRunFrom none 0 frames

/-- `_format_final_exc_line` -/
def stdExcOnly (etype msg : Str) : Str :=
  if msg = [] then etype ++ ['\n'] else etype ++ (colonSp ++ msg) ++ ['\n']

/-- `''.join(traceback.format_exception(e))` for an exception without cause/context/notes, anchors aside -/
def stdFormat (frames : List Callpoint) (etype msg : Str) : Str :=
  headerNL ++ stdLoop none 0 frames ++ stdExcOnly etype msg

/-- `traceback.extract_tb(tb, limit)` for a non-negative limit -/
def stdExtract (tb : List Callpoint) (limit : Option Nat) : List Callpoint :=
  match limit with
  | none => tb
  | some n => tb.take n

/-! ## the frame walk: traceback entries, linecache and `_DeferredLine`

What the interpreter hands over for one traceback entry is the frame (identity `fid`: the same frame
object may occur in several entries, e.g. after `raise e` in an `except` block), its code's file and
function name, the entry's line number, and - for the source text - the state of the three places
the `linecache` module consults for that file (`Look`), each reduced to the line at this entry's
line number ('' beyond the end):
  * the cache entry: none / a lazy loader entry / a complete entry without mtime (registered from a
    loader or by hand, never revalidated) / a complete entry with the (size, mtime) stamp it was read at,
  * the file on disk now (os.stat succeeds): its (size, mtime) and the line,
  * the module's `__loader__.get_source` (reachable through the frame's globals). -/

inductive CacheSt where
  | absent
  | lazy (line : Str)
  | pinned (line : Str)
  | stamped (size mtime : Nat) (line : Str)
deriving DecidableEq, Repr

structure Look where
  cache : CacheSt
  disk : Option (Nat × Nat × Str)
  loader : Option Str
deriving DecidableEq, Repr

structure TbEntry where
  path : Str
  lineno : Nat
  func : Str
  fid : Nat
  look : Look
  /-- `tb_lasti`, the offset of the entry's instruction: two calls written on one line give entries that agree in
      file, line and function and differ here -/
  lasti : Nat := 0
deriving DecidableEq, Repr

/-- `not filename or (filename.startswith('<') and filename.endswith('>'))` -/
def isPseudo (p : Str) : Bool := p.isEmpty || (p.head? == some '<' && p.getLast? == some '>')

/-- linecache.checkcache(filename): a complete entry with a stamp is dropped when the file is gone or
    its size or mtime differ; lazy entries and entries without mtime are left alone -/
def checkcache (c : CacheSt) (disk : Option (Nat × Nat × Str)) : CacheSt :=
  match c, disk with
  | .stamped _ _ _, none => .absent
  | .stamped sz mt l, some (sz', mt', _) => if sz = sz' ∧ mt = mt' then .stamped sz mt l else .absent
  | c, _ => c

/-- linecache.lazycache(filename, module_globals): registers a lazy entry only when nothing is cached -/
def lazycache (c : CacheSt) (path : Str) (loader : Option Str) : CacheSt :=
  match c, loader with
  | .absent, some l => if isPseudo path then .absent else .lazy l
  | c, _ => c

/-- linecache.updatecache(filename, module_globals), reached when no complete entry is cached: the
    file on disk wins, else the (lazily registered) loader, else nothing -/
def updatecache (c : CacheSt) (path : Str) (disk : Option (Nat × Nat × Str)) (gl : Option Str) : Str :=
  if isPseudo path then [] else
  match disk with
  | some (_, _, l) => l
  | none => match lazycache c path gl with
    | .lazy l => l
    | _ => []

/-- linecache.getline(filename, lineno, module_globals) -/
def getline (c : CacheSt) (path : Str) (disk : Option (Nat × Nat × Str)) (gl : Option Str) : Str :=
  match c with
  | .pinned l => l
  | .stamped _ _ l => l
  | c => updatecache c path disk gl

/-- `_DeferredLine.__str__` before its rstrip: `linecache.checkcache(filename)`, then
    `linecache.getline(filename, lineno, {'__name__': ..., '__loader__': ...})` -/
def deferredRaw (path : Str) (k : Look) : Str := getline (checkcache k.cache k.disk) path k.disk k.loader

/-- the traceback module (StackSummary._extract_from_extended_frame_gen + FrameSummary.line before its
    strip): `lazycache(filename, f_globals)`, `checkcache(filename)`, `getline(filename, lineno)` -/
def stdRaw (path : Str) (k : Look) : Str :=
  getline (checkcache (lazycache k.cache path k.loader) k.disk) path k.disk none

/-- Callpoint.from_tb: co_filename (verbatim, whatever its suffix), tb_lineno, co_name, `_DeferredLine(...)`; the frame
    identity is not consulted; `tb_lasti` is stored in the Callpoint but no report reads it (the run folding of
    get_formatted keys on file, line and function: `sameSite`) -/
def walkB (e : TbEntry) : Callpoint := ⟨e.path, e.lineno, e.func, deferredRaw e.path e.look⟩
/-- FrameSummary of the traceback module for the same entry -/
def walkS (e : TbEntry) : Callpoint := ⟨e.path, e.lineno, e.func, stdRaw e.path e.look⟩

/-- the one region where the two lookups differ (known finding): a stamped entry is cached, the file is
    gone and the module has a loader - boltons asks the loader, the traceback module (which called
    lazycache while the stale entry was still there) shows nothing -/
def LookOK (k : Look) : Bool :=
  match k.cache, k.disk, k.loader with
  | .stamped _ _ _, none, some _ => false
  | _, _, _ => true

/-- the limit in force: the explicit argument, else sys.tracebacklimit (negative = 0), else none
    (boltons: 1000, assumed larger than the chain) -/
def resolveLimit (explicit : Option Nat) (sys : Option Int) : Option Nat :=
  match explicit with
  | some n => some n
  | none => sys.map Int.toNat

/-! ## the exception's display name and sessions of several captures

What the interpreter hands over about the exception's class: `__module__` (`none` when it is not a str) and
`__qualname__`.  boltons computes the display name in two places (ExceptionInfo.from_exc_info and
tbutils.format_exception_only, which print_exception uses); both read the two attributes afresh on every call. -/

structure ExcType where
  modname : Option Str
  qualname : Str
deriving DecidableEq, Repr

/-- the modules whose classes are printed without prefix: `("__main__", "builtins")` -/
def plainMods : List Str := ["__main__".toList, "builtins".toList]

/-- ExceptionInfo.from_exc_info / tbutils.format_exception_only:
    `if type_mod not in ("__main__", "builtins"): if not isinstance(type_mod, str): type_mod = '<unknown>'; ...` -/
def typeStr (t : ExcType) : Str :=
  match t.modname with
  | some m => if plainMods.contains m then t.qualname else m ++ '.' :: t.qualname
  | none => "<unknown>".toList ++ '.' :: t.qualname

/-- traceback.TracebackException.format_exception_only (CPython 3.12): `stype = self.exc_type_qualname;
    smod = self.exc_type_module; if smod not in ("__main__", "builtins"): if not isinstance(smod, str):
    smod = "<unknown>"; stype = smod + '.' + stype` -/
def stdTypeStr (t : ExcType) : Str :=
  if t.modname = some "__main__".toList ∨ t.modname = some "builtins".toList then t.qualname
  else (match t.modname with | some m => m | none => "<unknown>".toList) ++ ['.'] ++ t.qualname

/-- tbutils.print_exception without traceback = tbutils.format_exception_only = `_format_final_exc_line` -/
def printExcOnly (etype msg : Str) : Str :=
  if msg = [] then etype ++ ['\n'] else etype ++ (colonSp ++ msg) ++ ['\n']

/-- `_some_str(value)` (after fix 5cec9e6): `str(value)`, or the traceback module's placeholder when `str()` raises
    (`none`) -/
def someStr : Option Str → Str
  | some s => s
  | none => "<exception str() failed>".toList

/-- traceback._safe_string(value, 'exception') -/
def stdSafeStr (v : Option Str) : Str := v.getD "<exception str() failed>".toList

/-- one capture of a session: the class and `str()` of the exception -/
abbrev Capture := ExcType × Str

/-- what boltons reports for each capture of a session, in order: ExceptionInfo.exc_type,
    get_formatted_exception_only(), what print_exception writes.  Nothing is carried from one capture to the
    next (the code keeps no state between captures; the correspondence check replays whole sessions). -/
def sessionB (caps : List Capture) : List (Str × Str × Str) :=
  caps.map fun c => (typeStr c.1, eiExcOnly (typeStr c.1) c.2, printExcOnly (typeStr c.1) c.2)

/-- the traceback module on the same captures -/
def sessionS (caps : List Capture) : List (Str × Str × Str) :=
  caps.map fun c => (stdTypeStr c.1, stdExcOnly (stdTypeStr c.1) c.2, stdExcOnly (stdTypeStr c.1) c.2)

/-- the frames of `ExceptionInfo.to_dict()`: file, line number, function, `str(_DeferredLine)` -/
def dictFrames (frames : List Callpoint) : List (Str × Nat × Str × Str) :=
  frames.map fun c => (c.path, c.lineno, c.func, rstrip c.line)

end C16
