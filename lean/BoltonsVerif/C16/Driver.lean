import BoltonsVerif.Common
import BoltonsVerif.C16.Model
/-
C16 line protocol (strings travel as hex of UTF-8, `-` = empty string).

  T <text>                                  ParsedException.from_string(text) (+ to_string)
  T <text> <type> <msg> <nl> <frame>*       same, plus the structured data the text was generated from:
        frame = file,lineno,func,src,anchor   (src `-` = no source line, anchor `!` = no marker line)
        nl = 1 when the text carries the interpreter's final newline
      -> `... | wf=<WFtextA> gen=<toStringA data (+ "\n") = text> wfc=<WFtextA ∧ no markers ∧ no final newline → WFtext text>`
  L <limit|n> <syslimit|n> <class> <msg> <priors> <entry>*
        msg = <str() of the exception> | !       (`!` = str() raised)
        class = <module|!>:<qualname>            (`!` = `__module__` is not a str)
        priors = - | <class>:<msg>;...           (the earlier captures of the session, exception part only)
        entry = path,lineno,func,fid,cache,disk,loader,lasti   (what the interpreter hands over, see Model `TbEntry`)
          cache = a | z:<line> | p:<line> | s:<size>:<mtime>:<line>      disk = n | y:<size>:<mtime>:<line>
          loader = n | y:<line>
      -> `B=<ExceptionInfo.get_formatted> T=<TracebackInfo.from_traceback(tb, limit).get_formatted>
          S=<traceback.format_exception layout> P=<tbutils.print_exception output>
          Q=<tbutils.print_exception(limit=limit) output> N=<number of entries of extract_tb(tb, limit)>
          F=<frames of ExceptionInfo.to_dict(): path,lineno,func,line;...>
          Y=<per earlier capture: ExceptionInfo.exc_type,get_formatted_exception_only,print_exception text;...>`
  C <lo> <hi>                               character classes of the code points lo..hi-1:
      one letter per code point: bit0 = `\d`, bit1 = isspace, bit2 = splitlines separator
  G                                         the literals of the model (for the translator self-check)
-/
namespace C16.Driver
open BV C16

def hx (s : Str) : String := stringToHex (String.ofList s)

def unhx (w : String) : Option Str := (hexToString? w).map (·.toList)

def showFrame (form : Form) (f : Frame) : String :=
  s!"{hx f.file},{hx f.lineno},{if form = .se then "!" else hx f.func},{hx f.src}"

def showParsed (form : Form) (pe : PE) : String :=
  let fr := if pe.frames.isEmpty then "-" else " ".intercalate (pe.frames.map (showFrame form))
  -- to_string() of frames read from the SyntaxError form is outside the statement: `~` on both sides
  let str := if form = .se && !pe.frames.isEmpty then "~" else hx (toString pe)
  s!"ok n={pe.frames.length} {fr} | {hx pe.etype} {hx pe.msg} | {str}"

def parseFrameTok (w : String) : Option (Frame × Option Str) :=
  match splitOnChar w ',' with
  | [a, b, c, d, e] =>
    match unhx a, unhx b, unhx c, unhx d with
    | some fi, some ln, some fn, some sr =>
      if e = "!" then some (⟨fi, ln, fn, sr⟩, none)
      else (unhx e).map fun an => (⟨fi, ln, fn, sr⟩, some an)
    | _, _, _, _ => none
  | _ => none

def allSome {α : Type} : List (Option α) → Option (List α)
  | [] => some []
  | none :: _ => none
  | some x :: xs => (allSome xs).map (x :: ·)

def handleT (toks : List String) : String :=
  match toks with
  | [] => "bad-op"
  | th :: rest =>
    match unhx th with
    | none => "bad-op"
    | some text =>
      let base := match fromStringF text with
        | .error _ => "err ValueError"
        | .ok (form, pe) => showParsed form pe
      match rest with
      | [] => base
      | ty :: ms :: nl :: frs =>
        match unhx ty, unhx ms, allSome (frs.map parseFrameTok) with
        | some ty, some ms, some fas =>
          let wf := WFtextA fas ty ms
          let gen := toStringA fas ty ms ++ (if nl = "1" then ['\n'] else [])
          -- completeness of the text-level predicate on generated texts: well-formed data rendered without
          -- marker lines / final newline must satisfy WFtext
          let plain := nl != "1" && fas.all fun fa => fa.1.src.isEmpty || fa.2.isNone
          let wfc := !(wf && plain) || WFtext text
          s!"{base} | wf={if wf then 1 else 0} gen={if gen = text then 1 else 0} wfc={if wfc then 1 else 0}"
        | _, _, _ => "bad-op"
      | _ => "bad-op"

def parseCache (w : String) : Option CacheSt :=
  match splitOnChar w ':' with
  | ["a"] => some .absent
  | ["z", l] => (unhx l).map .lazy
  | ["p", l] => (unhx l).map .pinned
  | ["s", sz, mt, l] =>
    match sz.toNat?, mt.toNat?, unhx l with
    | some sz, some mt, some l => some (.stamped sz mt l)
    | _, _, _ => none
  | _ => none

def parseDisk (w : String) : Option (Option (Nat × Nat × Str)) :=
  match splitOnChar w ':' with
  | ["n"] => some none
  | ["y", sz, mt, l] =>
    match sz.toNat?, mt.toNat?, unhx l with
    | some sz, some mt, some l => some (some (sz, mt, l))
    | _, _, _ => none
  | _ => none

def parseLoader (w : String) : Option (Option Str) :=
  match splitOnChar w ':' with
  | ["n"] => some none
  | ["y", l] => (unhx l).map some
  | _ => none

def parseEntryTok (w : String) : Option TbEntry :=
  match splitOnChar w ',' with
  | [a, b, c, d, e, f, g, i] =>
    match unhx a, b.toNat?, unhx c, d.toNat?, parseCache e, parseDisk f, parseLoader g, i.toNat? with
    | some p, some n, some fn, some fid, some ca, some di, some lo, some li => some ⟨p, n, fn, fid, ⟨ca, di, lo⟩, li⟩
    | _, _, _, _, _, _, _, _ => none
  | _ => none

def showDictFrame (f : Str × Nat × Str × Str) : String :=
  s!"{hx f.1},{f.2.1},{hx f.2.2.1},{hx f.2.2.2}"

def parseClass (m q : String) : Option ExcType :=
  match (if m = "!" then some none else (unhx m).map some), unhx q with
  | some mo, some qu => some ⟨mo, qu⟩
  | _, _ => none

def parseClassTok (w : String) : Option ExcType :=
  match splitOnChar w ':' with
  | [m, q] => parseClass m q
  | _ => none

/-- `str()` of the exception: hex text, or `!` when `str()` raised -/
def parseMsg (w : String) : Option Str :=
  if w = "!" then some (someStr none) else (unhx w).map fun s => someStr (some s)

def parseCaptureTok (w : String) : Option Capture :=
  match splitOnChar w ':' with
  | [m, q, ms] =>
    match parseClass m q, parseMsg ms with
    | some c, some ms => some (c, ms)
    | _, _ => none
  | _ => none

def parsePriors (w : String) : Option (List Capture) :=
  if w = "-" then some [] else allSome ((splitOnChar w ';').map parseCaptureTok)

def showCapture (r : Str × Str × Str) : String := s!"{hx r.1},{hx r.2.1},{hx r.2.2}"

def handleL (toks : List String) : String :=
  match toks with
  | lim :: sys :: cl :: ms :: pri :: es =>
    let limit? : Option (Option Nat) := if lim = "n" then some none else lim.toNat?.map some
    let sys? : Option (Option Int) := if sys = "n" then some none else sys.toInt?.map some
    match limit?, sys?, parseClassTok cl, parseMsg ms, parsePriors pri, allSome (es.map parseEntryTok) with
    | some limit, some sys, some cl, some ms, some pri, some tb =>
      let ty := typeStr cl
      let y := if pri.isEmpty then "-" else ";".intercalate ((sessionB pri).map showCapture)
      let tbB := tb.map walkB
      let tbS := tb.map walkS
      let all := fromTraceback tbB (resolveLimit none sys)
      let lim := fromTraceback tbB (resolveLimit limit sys)
      let b := eiFormat all ty ms
      let t := tbInfoFormat lim
      let s := stdFormat (stdExtract tbS (resolveLimit none sys)) (stdTypeStr cl) ms
      let p := printException all ty ms
      let q := printException lim ty ms
      let f := if all.isEmpty then "-" else ";".intercalate ((dictFrames all).map showDictFrame)
      s!"B={hx b} T={hx t} S={hx s} P={hx p} Q={hx q} N={(stdExtract tbS (resolveLimit limit sys)).length} F={f} Y={y}"
    | _, _, _, _, _, _ => "bad-op"
  | _ => "bad-op"

def classLetter (n : Nat) : Char :=
  if h : n.isValidChar then
    let c := Char.ofNatAux n h
    Char.ofNat ('0'.toNat + (if isDigit c then 1 else 0) + (if isSpace c then 2 else 0) + (if isSep c then 4 else 0))
  else 'x'

def handleC (toks : List String) : String :=
  match toks with
  | [lo, hi] =>
    match lo.toNat?, hi.toNat? with
    | some lo, some hi => String.ofList ((List.range (hi - lo)).map fun i => classLetter (lo + i))
    | _, _ => "bad-op"
  | _ => "bad-op"

def handleG : String :=
  " ".intercalate [hx header, hx litA, hx litB, hx litC, hx trailerPre, hx trailerSuf,
                   hx ("~^ ".toList.filter isUnderlineChar)]

def handle (line : String) : String :=
  match words line with
  | "T" :: toks => handleT toks
  | "L" :: toks => handleL toks
  | "C" :: toks => handleC toks
  | ["G"] => handleG
  | _ => "bad-op"

end C16.Driver
