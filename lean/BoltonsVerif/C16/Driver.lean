import BoltonsVerif.Common
import BoltonsVerif.C16.Model
/-
C16 line protocol (strings travel as hex of UTF-8, `-` = empty string).

  T <text>                                  ParsedException.from_string(text) (+ to_string, source_file)
  T <text> <type> <msg> <nl> <frame>*       same, plus the structured data the text was generated from:
        frame = file,lineno,func,src,anchor   (src `-` = no source line, anchor `!` = no marker line)
        nl = 1 when the text carries the interpreter's final newline
      -> `... | wf=<WFtextA> gen=<toStringA data (+ "\n") = text> wfc=<WFtextA ∧ no markers ∧ no final newline → WFtext text>`
  L <limit|n> <type> <msg> <cp>*            cp = path,lineno,func,line  (what the interpreter hands over)
      -> `B=<ExceptionInfo.get_formatted> T=<TracebackInfo.from_traceback(tb, limit).get_formatted>
          S=<traceback.format_exception layout> P=<tbutils.print_exception output>
          N=<number of entries of extract_tb(tb, limit)>`
  C <lo> <hi>                               character classes of the code points lo..hi-1:
      one letter per code point: bit0 = `\d`, bit1 = isspace, bit2 = splitlines separator
  G                                         the literals of the model (for the translator self-check)
-/
namespace C16.Driver
open BV C16

def hx (s : Str) : String := stringToHex (String.ofList s)

def unhx (w : String) : Option Str := (hexToString? w).map (·.toList)

def showFrame (form : Form) (f : Frame) : String :=
  s!"{hx f.file},{hx f.lineno},{if form = .se then "!" else hx f.func},{hx f.src}"

def showParsed (form : Form) (pe : PE) : String :=
  let fr := if pe.frames.isEmpty then "-" else " ".intercalate (pe.frames.map (showFrame form))
  let str := if form = .se && !pe.frames.isEmpty then "XKeyError" else hx (toString pe)
  let sf := match pe.frames.getLast? with | none => "!" | some f => hx f.file
  s!"ok n={pe.frames.length} {fr} | {hx pe.etype} {hx pe.msg} | {str} | {sf}"

def parseFrameTok (w : String) : Option (Frame × Option Str) :=
  match splitOnChar w ',' with
  | [a, b, c, d, e] =>
    match unhx a, unhx b, unhx c, unhx d with
    | some fi, some ln, some fn, some sr =>
      if e = "!" then some (⟨fi, ln, fn, sr⟩, none)
      else (unhx e).map fun an => (⟨fi, ln, fn, sr⟩, some an)
    | _, _, _, _ => none
  | _ => none

def allSome {α : Type} : List (Option α) → Option (List α)
  | [] => some []
  | none :: _ => none
  | some x :: xs => (allSome xs).map (x :: ·)

def handleT (toks : List String) : String :=
  match toks with
  | [] => "bad-op"
  | th :: rest =>
    match unhx th with
    | none => "bad-op"
    | some text =>
      let base := match fromStringF text with
        | .error _ => "err ValueError"
        | .ok (form, pe) => showParsed form pe
      match rest with
      | [] => base
      | ty :: ms :: nl :: frs =>
        match unhx ty, unhx ms, allSome (frs.map parseFrameTok) with
        | some ty, some ms, some fas =>
          let wf := WFtextA fas ty ms
          let gen := toStringA fas ty ms ++ (if nl = "1" then ['\n'] else [])
          -- completeness of the text-level predicate on generated texts: well-formed data rendered without
          -- marker lines / final newline must satisfy WFtext
          let plain := nl != "1" && fas.all fun fa => fa.1.src.isEmpty || fa.2.isNone
          let wfc := !(wf && plain) || WFtext text
          s!"{base} | wf={if wf then 1 else 0} gen={if gen = text then 1 else 0} wfc={if wfc then 1 else 0}"
        | _, _, _ => "bad-op"
      | _ => "bad-op"

def parseCpTok (w : String) : Option Callpoint :=
  match splitOnChar w ',' with
  | [a, b, c, d] =>
    match unhx a, b.toNat?, unhx c, unhx d with
    | some p, some n, some f, some l => some ⟨p, n, f, l⟩
    | _, _, _, _ => none
  | _ => none

def handleL (toks : List String) : String :=
  match toks with
  | lim :: ty :: ms :: cps =>
    let limit? : Option (Option Nat) := if lim = "n" then some none else lim.toNat?.map some
    match limit?, unhx ty, unhx ms, allSome (cps.map parseCpTok) with
    | some limit, some ty, some ms, some tb =>
      let b := eiFormat (fromTraceback tb none) ty ms
      let t := tbInfoFormat (fromTraceback tb limit)
      let s := stdFormat tb ty ms
      let p := printException tb ty ms
      s!"B={hx b} T={hx t} S={hx s} P={hx p} N={(stdExtract tb limit).length}"
    | _, _, _, _ => "bad-op"
  | _ => "bad-op"

def classLetter (n : Nat) : Char :=
  if h : n.isValidChar then
    let c := Char.ofNatAux n h
    Char.ofNat ('0'.toNat + (if isDigit c then 1 else 0) + (if isSpace c then 2 else 0) + (if isSep c then 4 else 0))
  else 'x'

def handleC (toks : List String) : String :=
  match toks with
  | [lo, hi] =>
    match lo.toNat?, hi.toNat? with
    | some lo, some hi => String.ofList ((List.range (hi - lo)).map fun i => classLetter (lo + i))
    | _, _ => "bad-op"
  | _ => "bad-op"

def handleG : String :=
  " ".intercalate [hx header, hx litA, hx litB, hx litC, hx trailerPre, hx trailerSuf,
                   hx ("~^ ".toList.filter isUnderlineChar)]

def handle (line : String) : String :=
  match words line with
  | "T" :: toks => handleT toks
  | "L" :: toks => handleL toks
  | "C" :: toks => handleC toks
  | ["G"] => handleG
  | _ => "bad-op"

end C16.Driver
