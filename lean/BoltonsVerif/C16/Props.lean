import BoltonsVerif.C16.Proofs
namespace C16
theorem placeholder_nat : (1 : Nat) = 1 := rfl
end C16
