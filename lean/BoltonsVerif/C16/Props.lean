import BoltonsVerif.C16.Proofs
import BoltonsVerif.C16.Regex
import BoltonsVerif.C16.Extra
/-
C16 — property theorems (statements, short derivations from Proofs.lean, non-vacuity examples).

Clause 1.  "For every traceback text in the interpreter's standard format — any number of frames,
frames with or without a source line, any exception type name, empty / one-line / multi-line
message — ParsedException.from_string recovers each frame's file, line number, function and source
line and the exception type and message, and to_string() reproduces the text exactly."

  A text in the standard format is `toStringA fas etype msg`: the header, per frame the frame line,
  the source line when there is one and (3.11+) an optional position-marker line, then the exception
  line(s).  `WFtextA` / `WFpe` are the explicit decidable side conditions (see Model.lean):
  no str.splitlines separator inside a field (only `\n`, inside the message), the message does not
  end in `\n`, its last line is not of the form `Exception ... ignored`, source lines are stripped
  and do not themselves look like frame lines, function names contain no `", line N, in x`,
  the type name is a non-empty run of non-space characters that is not made of `~`/`^` only.
  Outside these conditions the FULL statement is false for the code as it is (three witnesses below,
  recorded as known findings and replayed on the real code on every run).

Clause 2.  "TracebackInfo/ExceptionInfo ... list the same frames in the same order with the same
file, line, function and source text as the standard traceback module, and their formatted output
equals the interpreter's (position-marker lines aside)."

  The formatting algorithms are proved equal to the interpreter's for every list of entries (`format_eq_std`,
  `print_exception_eq_std`, `tbinfo_format_eq`) - since fix 7fb4f9f also for runs of more than 3 identical entries
  (recursion), which are collapsed into `[Previous line repeated N more times]`.
  The frame walk is modelled from what the interpreter hands over per traceback entry (`TbEntry`: file,
  line number, function, the identity of the frame object, and what linecache can see of the file: cache
  entry, file on disk, loader): TracebackInfo.from_traceback lists every entry whatever frame it refers to,
  and `_DeferredLine` finds the line the traceback module finds - the current one, never a stale cached one
  (`deferred_line_current`).  FULL statement `deferredRaw p k = stdRaw p k` is false in one state
  (`lookup_eq_std_false`: complete cache entry, file gone, loader at hand - on the real interpreter the
  traceback module has no stable answer there); `lookup_eq_std_partial` assumes `LookOK`.  How the
  interpreter builds the entries (tb_next, f_code, tb_lineno) is tied by the correspondence only.
-/
namespace C16

/-! ## the source's regexes are the ones the scanners implement (regenerated on every run) -/

theorem source_regexes_agree :
    Gen.frameReShape = ["^".toList, "lit:".toList ++ litA, "any+".toList, "lit:".toList ++ litB,
                        "digit+".toList, "lit:".toList ++ litC, "any+".toList, "$".toList] ∧
    Gen.seFrameReShape = ["^".toList, "lit:".toList ++ litA, "any+".toList, "lit:".toList ++ litB,
                          "digit+".toList] ∧
    Gen.underlineReShape = ["^".toList, "set*: ^~".toList, "$".toList] := by decide

/-! ## the source's patterns, run by a generic backtracking matcher, are the scanners of the model

`Re.reMatch` (Regex.lean) is a matcher for the fragment of `re` syntax the three patterns use (`^`, `$`, literals,
greedy `X+` / `X*` over `.`, `\d`, `[...]`; longest run first, characters given back one by one), independent of
these particular patterns.  The token lists are regenerated from the source on every run. -/

/-- the regenerated token lists parse to the three patterns the theorems below speak about -/
theorem source_patterns_parse :
    Re.parseToks Gen.frameReShape = some Re.frameToks ∧ Re.parseToks Gen.seFrameReShape = some Re.seToks ∧
    Re.parseToks Gen.underlineReShape = some Re.ulToks := by decide +kernel

/-- `_frame_re.match(line).groupdict()`, computed by the generic matcher on the source's pattern, is what the
    hand scanner `matchFrame` computes (rightmost `", line N, in f"` split, non-empty path), for every line -/
theorem frame_scanner_is_source_regex (ft : List Re.Tok) (h : Re.parseToks Gen.frameReShape = some ft)
    (l : Str) (hn : Re.noNL l = true) : matchFrame l = (Re.reMatch ft l).bind Re.frameOfGroups := by
  have := source_patterns_parse.1
  rw [h] at this
  rw [Option.some.inj this]
  exact Re.matchFrame_eq_re l hn

/-- the same for the SyntaxError form `_se_frame_re` -/
theorem se_scanner_is_source_regex (st : List Re.Tok) (h : Re.parseToks Gen.seFrameReShape = some st)
    (l : Str) (hn : Re.noNL l = true) : matchSE l = (Re.reMatch st l).bind Re.seFrameOfGroups := by
  have := source_patterns_parse.2.1
  rw [h] at this
  rw [Option.some.inj this]
  exact Re.matchSE_eq_re l hn

/-- `_underline_re.match(line)` succeeds exactly on the lines `isUnderline` accepts -/
theorem underline_scanner_is_source_regex (ut : List Re.Tok) (h : Re.parseToks Gen.underlineReShape = some ut)
    (l : Str) (hn : Re.noNL l = true) : isUnderline l = (Re.reMatch ut l).isSome := by
  have := source_patterns_parse.2.2
  rw [h] at this
  rw [Option.some.inj this]
  exact Re.isUnderline_eq_re l hn

/-- ParsedException.from_string with its three `.match` calls evaluated by the generic matcher on the source's
    patterns is the model `fromStringF` the clause-1 theorems are about - for every text (the lines it matches come
    out of str.splitlines and strip(), so they contain no `\n`) -/
theorem from_string_is_source_regexes (ft st ut : List Re.Tok)
    (h1 : Re.parseToks Gen.frameReShape = some ft) (h2 : Re.parseToks Gen.seFrameReShape = some st)
    (h3 : Re.parseToks Gen.underlineReShape = some ut) (t : Str) :
    Re.fromStringRe ft st ut t = fromStringF t := by
  obtain ⟨p1, p2, p3⟩ := source_patterns_parse
  rw [h1] at p1; rw [h2] at p2; rw [h3] at p3
  rw [Option.some.inj p1, Option.some.inj p2, Option.some.inj p3]
  exact Re.fromStringRe_eq t

example : Re.reMatch Re.frameToks "File \"/x \", line 5, in g/é.py\", line 12, in <lambda>".toList
    = some ["/x \", line 5, in g/é.py".toList, "12".toList, "<lambda>".toList] := by decide +kernel
example : Re.reMatch Re.frameToks "File \"a\", line 12, in ".toList = none := by decide +kernel
example : Re.reMatch Re.seToks "File \"a\", line 12x".toList = some ["a".toList, "12".toList] := by decide +kernel
example : Re.reMatch Re.ulToks "  ~~^^ ".toList = some [] ∧ Re.reMatch Re.ulToks " ~x".toList = none := by decide +kernel

/-! ## clause 1 -/

/-- from_string recovers every field from a standard-format text, marker lines or not -/
theorem parse_render_markers (fas : List (Frame × Option Str)) (etype msg : Str)
    (h : WFtextA fas etype msg = true) :
    fromString (toStringA fas etype msg) = .ok ⟨fas.map (·.1), etype, msg⟩ := by
  unfold fromString; rw [fromStringF_rendered fas etype msg h]; rfl

/-- the same statement about from_string run on the source's own patterns (generic matcher), not on the hand
    scanners: every field of a standard-format text is recovered -/
theorem parse_render_markers_source_regexes (ft st ut : List Re.Tok)
    (h1 : Re.parseToks Gen.frameReShape = some ft) (h2 : Re.parseToks Gen.seFrameReShape = some st)
    (h3 : Re.parseToks Gen.underlineReShape = some ut)
    (fas : List (Frame × Option Str)) (etype msg : Str) (h : WFtextA fas etype msg = true) :
    (Re.fromStringRe ft st ut (toStringA fas etype msg)).map (·.2) = .ok ⟨fas.map (·.1), etype, msg⟩ := by
  rw [from_string_is_source_regexes ft st ut h1 h2 h3]
  exact parse_render_markers fas etype msg h

/-- ... also when the text carries the interpreter's final newline -/
theorem parse_render_final_newline (fas : List (Frame × Option Str)) (etype msg : Str)
    (h : WFtextA fas etype msg = true) :
    fromString (toStringA fas etype msg ++ ['\n']) = .ok ⟨fas.map (·.1), etype, msg⟩ := by
  unfold fromString; rw [fromStringF_rendered_nl fas etype msg h]; rfl

/-- parse ∘ render = id on well-formed parsed exceptions -/
theorem parse_render (pe : PE) (h : WFpe pe = true) : fromString (toString pe) = .ok pe := by
  rw [toString_eq_toStringA, parse_render_markers _ _ _ (WFtextA_noAnchors pe h)]
  cases pe
  simp [noAnchors, Function.comp_def]

/-- render ∘ parse reproduces a standard-format text exactly (no marker lines in it) -/
theorem render_parse (pe : PE) (h : WFpe pe = true) :
    (fromString (toString pe)).map toString = .ok (toString pe) := by
  rw [parse_render pe h]; rfl

/-- with marker lines, to_string reproduces the text without them (to_string never prints markers) -/
theorem render_parse_markers (fas : List (Frame × Option Str)) (etype msg : Str)
    (h : WFtextA fas etype msg = true) :
    (fromString (toStringA fas etype msg)).map toString
      = .ok (toStringA (fas.map fun fa => (fa.1, none)) etype msg) := by
  rw [parse_render_markers fas etype msg h]
  simp only [Except.map, toString_eq_toStringA, noAnchors, List.map_map]
  rfl

/-- plain sufficient conditions for `WFframe`: any non-empty path without line separators (spaces, quotes,
    non-ASCII allowed), a decimal line number, a function name without `"` that does not end in a
    space (`<module>`, `<lambda>`, identifiers), and a stripped source line that does not start with `F` -/
theorem wfframe_simple (f : Frame) (h1 : f.file ≠ []) (h2 : f.file.all notSep = true)
    (h3 : f.lineno ≠ []) (h4 : f.lineno.all isDigit = true)
    (h5 : f.func.all notSep = true) (h6 : lastNotSpace f.func = true) (h7 : ∀ c ∈ f.func, c ≠ '"')
    (h8 : f.src = [] ∨ (f.src.all notSep = true ∧ firstNotSpace f.src = true ∧ lastNotSpace f.src = true ∧
          f.src.head? ≠ some 'F')) : WFframe f = true := by
  have hs : WFsrc f.src = true := by
    unfold WFsrc
    rcases h8 with h8 | ⟨a, b, c, d⟩
    · simp [h8]
    · simp [a, b, c, matchFrame_none_of_head d]
  simp [WFframe, h1, h2, h3, h4, h5, h6, noTail_of_noQuote h7, hs]

example : WFframe ⟨"C:\\d \"x\"\\é.py".toList, "12".toList, "<lambda>".toList, "x = f(\"a\")".toList⟩ = true :=
  wfframe_simple _ (by decide) (by decide +kernel) (by decide) (by decide +kernel) (by decide +kernel)
    (by decide +kernel) (by decide) (Or.inr (by decide +kernel))

/-- the same for a text given as such: `WFtext` is a decidable predicate on texts (layout reading gives
    well-formed data whose standard rendering is the text); for every such text from_string succeeds,
    recovers that data, and to_string gives the text back, character for character -/
theorem render_parse_text (t : Str) (h : WFtext t = true) :
    ∃ pe, readText t = some pe ∧ WFpe pe = true ∧ fromString t = .ok pe ∧ (fromString t).map toString = .ok t := by
  unfold WFtext at h
  cases hr : readText t with
  | none => rw [hr] at h; simp at h
  | some pe =>
    rw [hr] at h
    simp only [Bool.and_eq_true, beq_iff_eq] at h
    refine ⟨pe, rfl, h.1, ?_, ?_⟩
    · rw [← h.2]; exact parse_render pe h.1
    · rw [← h.2, parse_render pe h.1]; rfl

/-- the texts accepted by the decidable predicate `WFtext` are exactly the standard renderings of
    well-formed data (so every text the harness generates from well-formed data provably satisfies it) -/
theorem wftext_iff (t : Str) : WFtext t = true ↔ ∃ pe, WFpe pe = true ∧ toString pe = t := by
  constructor
  · intro h
    obtain ⟨pe, _, h2, h3, h4⟩ := render_parse_text t h
    refine ⟨pe, h2, ?_⟩
    rw [h3] at h4
    exact Except.ok.inj h4
  · rintro ⟨pe, h1, rfl⟩
    exact WFtext_toString pe h1

/-- a traceback text without exception line (traceback.format_stack, TracebackInfo.get_formatted):
    every frame is recovered, type and message are empty (before the fix: IndexError) -/
theorem parse_stack_text (frames : List Frame) (hall : frames.all WFframe = true) (hne : frames ≠ []) :
    fromString (joinNL (header :: frames.flatMap frameLines)) = .ok ⟨frames, [], []⟩ := by
  unfold fromString
  rw [fromStringF_stack frames (by simpa [List.all_eq_true] using hall) hne]; rfl

/-! non-vacuity: a two-frame text with a non-ASCII path, a marker line, a last frame without source
    line and a multi-line message containing `": "` and a frame-like line satisfies the hypotheses -/

def exFrames : List (Frame × Option Str) :=
  [(⟨"/x y/é.py".toList, "12".toList, "<module>".toList, "foo(1, \"a: b\")".toList⟩, some "    ~~~^^^".toList),
   (⟨"<stdin>".toList, "3".toList, "<lambda>".toList, []⟩, none)]
def exMsg : Str := "a: b\n  File \"q\", line 3, in z\n\nlast".toList

example : WFtextA exFrames "pkg.mod.Err".toList exMsg = true := by decide +kernel
example : WFpe ⟨exFrames.map (·.1), "ValueError".toList, []⟩ = true := by decide +kernel
example : WFpe ⟨[], "f.<locals>.E".toList, "x".toList⟩ = true := by decide +kernel
example : WFtext ("Traceback (most recent call last):\n  File \"/x y/é.py\", line 12, in <module>\n" ++
    "    foo(1, \"a: b\")\n  File \"<stdin>\", line 3, in <lambda>\npkg.Err: a: b\n  File \"q\", line 3, in z\n\nlast").toList
    = true := by decide +kernel
example : (exFrames.map (·.1)).all WFframe = true ∧ exFrames.map (·.1) ≠ [] := by decide +kernel

/-! ### from_string called again and again in one process -/

/-- the result of a from_string call does not depend on the calls before it: the last result of a session is the
    parse of the last text alone -/
theorem parse_session_history_independent (pre : List Str) (t : Str) :
    (parseSession (pre ++ [t])).getLast? = some (fromString t) := by
  simp [parseSession]

/-- in particular a standard-format text parsed a second (third, ...) time - after other texts, after the same text,
    after texts that share frame lines with it, after calls that failed - gives every field of the TEXT again -/
theorem reparse_recovers_text (pre : List Str) (fas : List (Frame × Option Str)) (etype msg : Str)
    (h : WFtextA fas etype msg = true) :
    (parseSession (pre ++ [toStringA fas etype msg, toStringA fas etype msg])).drop pre.length
      = [.ok ⟨fas.map (·.1), etype, msg⟩, .ok ⟨fas.map (·.1), etype, msg⟩] := by
  simp [parseSession, parse_render_markers fas etype msg h]

example : (parseSession ["no traceback".toList, toStringA exFrames "E".toList "x".toList,
                         toStringA (exFrames.map fun fa => (⟨fa.1.file, fa.1.lineno, fa.1.func, "other()".toList⟩, none)) "E".toList "x".toList,
                         toStringA exFrames "E".toList "x".toList]).map (fun r => match r with | .ok pe => some pe | .error _ => none)
    = [none, some ⟨exFrames.map (·.1), "E".toList, "x".toList⟩,
       some ⟨exFrames.map fun fa => ⟨fa.1.file, fa.1.lineno, fa.1.func, "other()".toList⟩, "E".toList, "x".toList⟩,
       some ⟨exFrames.map (·.1), "E".toList, "x".toList⟩] := by decide +kernel

/-! the three regions the hypotheses exclude are real defects of the code as it is (known findings) -/

/-- a message ending in a newline is not recovered -/
theorem parse_render_false_trailing_newline :
    ∃ pe : PE, fromString (toString pe) ≠ .ok pe := by
  refine ⟨⟨[], "E".toList, "a\n".toList⟩, ?_⟩
  rw [fromStringF_noframes (e1 := "E: a".toList) (E := []) (by decide +kernel) (by decide +kernel)]
  intro h; have := Except.ok.inj h; revert this; decide +kernel

/-- ... and that is all that is lost there: for a non-empty message, a final newline of the message is dropped and
    every other field is recovered (the exact extent of known finding C16-message-trailing-newline) -/
theorem parse_render_trailing_newline_exact (pe : PE) (h : WFpe pe = true) (hm : pe.msg ≠ []) :
    fromString (toString ⟨pe.frames, pe.etype, pe.msg ++ ['\n']⟩) = .ok pe := by
  have key : toString ⟨pe.frames, pe.etype, pe.msg ++ ['\n']⟩ = toString pe ++ ['\n'] := by
    have hj : ∀ (ls : List Str) (l : Str), joinNL (ls ++ [l ++ ['\n']]) = joinNL (ls ++ [l]) ++ ['\n'] := by
      intro ls l
      induction ls with
      | nil => simp [joinNL]
      | cons a as ih =>
        cases as with
        | nil => simp [joinNL]
        | cons b bs =>
          simp only [List.cons_append, joinNL] at ih ⊢
          rw [ih]; simp
    have he : excLine pe.etype (pe.msg ++ ['\n']) = excLine pe.etype pe.msg ++ ['\n'] := by
      simp [excLine, hm, List.append_assoc]
    unfold toString toLines
    simp only
    rw [he]
    have := hj (header :: pe.frames.flatMap frameLines) (excLine pe.etype pe.msg)
    simpa using this
  rw [key, toString_eq_toStringA, parse_render_final_newline _ _ _ (WFtextA_noAnchors pe h)]
  cases pe
  simp [noAnchors, Function.comp_def]

example : WFpe ⟨exFrames.map (·.1), "E".toList, "a".toList⟩ = true ∧ "a".toList ≠ [] := by decide +kernel

/-- the exact extent of known finding C16-trailer-line-in-message: when a (non-empty) message is followed by one
    more message line of the form `Exception ... ignored`, from_string returns everything but that line -/
theorem parse_render_trailer_exact (fas : List (Frame × Option Str)) (etype msg tl : Str)
    (h : WFtextA fas etype msg = true) (hm : msg ≠ []) (ht : isTrailer tl = true) (hs : tl.all notSep = true) :
    fromString (toStringA fas etype (msg ++ '\n' :: tl)) = .ok ⟨fas.map (·.1), etype, msg⟩ := by
  unfold fromString; rw [fromStringF_rendered_trailer fas etype msg tl h hm ht hs]; rfl

example : WFtextA exFrames "E".toList "x".toList = true ∧ isTrailer "Exception in thread ignored".toList = true ∧
    "Exception in thread ignored".toList.all notSep = true := by decide +kernel

/-- a message containing another str.splitlines separator is not recovered -/
theorem parse_render_false_separator :
    ∃ pe : PE, pe.msg.getLast? ≠ some '\n' ∧ fromString (toString pe) ≠ .ok pe := by
  refine ⟨⟨[], "E".toList, "a\x0cb".toList⟩, by decide +kernel, ?_⟩
  rw [fromStringF_noframes (e1 := "E: a".toList) (E := ["b".toList]) (by decide +kernel) (by decide +kernel)]
  intro h; have := Except.ok.inj h; revert this; decide +kernel

/-- the exact extent of known finding C16-exotic-line-separators (for the message): every other str.splitlines
    separator in the message - `\r`, `\r\n`, `\x0b`, `\x0c`, `\x1c`-`\x1e`, `\x85`, U+2028, U+2029 - comes back as `\n`
    (`normSeps`), and nothing else changes: frames, type and the rest of the message are recovered -/
theorem parse_render_separator_exact (pe : PE) (hm : pe.msg ≠ [])
    (h : WFpe ⟨pe.frames, pe.etype, normSeps pe.msg⟩ = true) :
    fromString (toString pe) = .ok ⟨pe.frames, pe.etype, normSeps pe.msg⟩ := by
  unfold fromString; rw [fromStringF_separators pe hm h]; rfl

example : normSeps "a b\r\nc\x0cd: e\rf".toList = "a\nb\nc\nd: e\nf".toList ∧
    WFpe ⟨exFrames.map (·.1), "E".toList, normSeps "a b\r\nc\x0cd: e\rf".toList⟩ = true := by decide +kernel

/-- a message whose last line reads `Exception ... ignored` loses that line -/
theorem parse_render_false_trailer :
    ∃ pe : PE, fromString (toString pe) ≠ .ok pe := by
  refine ⟨⟨[], "E".toList, "x\nException in thread ignored".toList⟩, ?_⟩
  rw [fromStringF_noframes (e1 := "E: x".toList) (E := []) (by decide +kernel) (by decide +kernel)]
  intro h; have := Except.ok.inj h; revert this; decide +kernel

/-! ## clause 2 -/

/-- TracebackInfo.from_traceback(tb, limit) lists the entries extract_tb(tb, limit) lists, in order -/
theorem frames_eq_extract_tb (tb : List Callpoint) (limit : Option Nat) :
    fromTraceback tb limit = stdExtract tb limit := rfl

/-- Callpoint.tb_frame_str prints one entry exactly as the traceback module does (same file, line,
    function, same stripped source text, present under the same condition) -/
theorem tb_frame_str_eq_std (c : Callpoint) : tbFrameStr c = stdFrameStr c := tbFrameStr_eq_std c

/-- TracebackInfo.get_formatted, for every list of entries and every limit, is the header followed by what
    traceback.format_tb prints - runs of more than 3 identical entries collapsed the same way -/
theorem tbinfo_format_eq (tb : List Callpoint) (limit : Option Nat) :
    tbInfoFormat (fromTraceback tb limit) = headerNL ++ stdLoop none 0 (stdExtract tb limit) := by
  unfold tbInfoFormat
  rw [frames_eq_extract_tb, bLoop_eq_stdLoop]

/-- ExceptionInfo.get_formatted equals the interpreter's text (its final newline aside) for EVERY list of entries -
    recursion included: since fix 7fb4f9f (r3-c16-work) runs of more than 3 identical entries are collapsed into
    `[Previous line repeated N more times]` exactly as StackSummary.format does.  (Before the fix this held only
    under `NoLongRun`: former `format_eq_std_partial` / `format_eq_std_false`.) -/
theorem format_eq_std (frames : List Callpoint) (etype msg : Str) :
    eiFormat frames etype msg ++ ['\n'] = stdFormat frames etype msg := by
  unfold eiFormat stdFormat tbInfoFormat
  rw [bLoop_eq_stdLoop]
  unfold eiExcOnly stdExcOnly
  split <;> simp [List.append_assoc]

def exCp (n : Nat) (f : String) (l : String) : Callpoint := ⟨"/a b/é.py".toList, n, f.toList, l.toList⟩

/-- the collapse is really taken: 5 identical entries are printed as 3 entries and one `repeated 2 more times` line -/
example : eiFormat (List.replicate 5 (exCp 2 "f" "    return f(n - 1)\n")) "RecursionError".toList "deep".toList
    = ("Traceback (most recent call last):\n" ++
       "  File \"/a b/é.py\", line 2, in f\n    return f(n - 1)\n" ++
       "  File \"/a b/é.py\", line 2, in f\n    return f(n - 1)\n" ++
       "  File \"/a b/é.py\", line 2, in f\n    return f(n - 1)\n" ++
       "  [Previous line repeated 2 more times]\nRecursionError: deep").toList := by decide +kernel

/-- while no run is longer than 3, every entry is printed on its own -/
theorem format_eq_uncollapsed (frames : List Callpoint) (etype msg : Str) (h : NoLongRun frames = true) :
    eiFormat frames etype msg ++ ['\n'] = headerNL ++ frames.flatMap stdFrameStr ++ stdExcOnly etype msg := by
  rw [format_eq_std]
  unfold stdFormat
  rw [stdLoop_noLongRun none 0 frames (by omega) h]

/-- a run of entries that share file, line number and function name - whatever else distinguishes them: the source
    text shown, the frame object, the instruction offset of two calls written on one line, the code object of two
    lambdas on one line - is folded as ONE run: the first three entries, then the `repeated N more times` note -/
theorem same_site_run_folds (c : Callpoint) (cs : List Callpoint) (h : ∀ x ∈ cs, sameSite c x = true) :
    tbInfoFormat (c :: cs) = headerNL ++ (((c :: cs).take 3).flatMap tbFrameStr ++ flushRepeat (cs.length + 1)) := by
  have key : ∀ (cs : List Callpoint) (k : Nat), 1 ≤ k → (∀ x ∈ cs, sameSite c x = true) →
      bLoop (some c) k cs = (cs.take (3 - k)).flatMap tbFrameStr ++ flushRepeat (k + cs.length) := by
    intro cs
    induction cs with
    | nil => intro k _ _; simp [bLoop]
    | cons f fs ih =>
      intro k hk hs
      have hf : sameSite c f = true := hs f (List.mem_cons_self ..)
      have hfs : ∀ x ∈ fs, sameSite c x = true := fun x hx => hs x (List.mem_cons_of_mem _ hx)
      simp only [bLoop, hf, Bool.not_true, Bool.false_eq_true, ↓reduceIte]
      by_cases h3 : k + 1 ≤ 3
      · rw [if_pos h3, ih (k + 1) (by omega) hfs]
        have : 3 - k = (3 - (k + 1)) + 1 := by omega
        rw [this, List.take_succ_cons, List.flatMap_cons, List.length_cons]
        simp [List.append_assoc, Nat.add_assoc, Nat.add_comm 1]
      · rw [if_neg h3, ih (k + 1) (by omega) hfs]
        have h0 : 3 - k = 0 := by omega
        have h1 : 3 - (k + 1) = 0 := by omega
        simp [h0, h1, Nat.add_assoc, Nat.add_comm 1]
  have h0 : flushRepeat 0 = [] := by simp [flushRepeat]
  unfold tbInfoFormat
  simp only [bLoop, h0, ↓reduceIte, List.nil_append]
  rw [key cs 1 (by omega) h]
  simp [List.take_succ_cons, List.flatMap_cons, List.append_assoc, Nat.add_comm 1]

/-- what a report shows of a traceback depends on each entry's file, line number, function and linecache state only:
    tracebacks that differ in the frame objects the entries refer to and in the entries' instruction offsets
    (`tb_lasti`) are listed and printed alike -/
theorem report_ignores_frame_identity_and_lasti (tb tb' : List TbEntry) (limit : Option Nat) (sys : Option Int)
    (etype msg : Str)
    (h : tb.map (fun e => (e.path, e.lineno, e.func, e.look)) = tb'.map (fun e => (e.path, e.lineno, e.func, e.look))) :
    fromTraceback (tb.map walkB) (resolveLimit limit sys) = fromTraceback (tb'.map walkB) (resolveLimit limit sys) ∧
    eiFormat (fromTraceback (tb.map walkB) (resolveLimit limit sys)) etype msg
      = eiFormat (fromTraceback (tb'.map walkB) (resolveLimit limit sys)) etype msg := by
  have hw : ∀ l : List TbEntry, l.map walkB
      = (l.map (fun e => (e.path, e.lineno, e.func, e.look))).map
          (fun q => (⟨q.1, q.2.1, q.2.2.1, deferredRaw q.1 q.2.2.2⟩ : Callpoint)) := by
    intro l; simp [List.map_map, Function.comp_def, walkB]
  have : tb.map walkB = tb'.map walkB := by rw [hw tb, hw tb', h]
  rw [this]; exact ⟨rfl, rfl⟩

/-- recursion through one line with two call sites on it (`return f(n-1) if n % 2 else f(n-1)`): five entries with
    the same file, line and function, alternating instruction offsets, two frame objects - printed as three entries and
    `repeated 2 more times`; a code file named `.pyc` is shown under that very name -/
example : eiFormat (fromTraceback ((List.range 5).map fun i =>
      walkB ⟨"/dist/job.pyc".toList, 7, "descend".toList, i, ⟨.pinned "    return descend(n - 1) if n % 2 else descend(n - 1)\n".toList, none, none⟩,
             if i % 2 = 0 then 18 else 46⟩) none) "OverflowError".toList "bottom".toList
    = ("Traceback (most recent call last):\n" ++
       "  File \"/dist/job.pyc\", line 7, in descend\n    return descend(n - 1) if n % 2 else descend(n - 1)\n" ++
       "  File \"/dist/job.pyc\", line 7, in descend\n    return descend(n - 1) if n % 2 else descend(n - 1)\n" ++
       "  File \"/dist/job.pyc\", line 7, in descend\n    return descend(n - 1) if n % 2 else descend(n - 1)\n" ++
       "  [Previous line repeated 2 more times]\nOverflowError: bottom").toList := by decide +kernel

example : ∀ x ∈ List.replicate 4 (exCp 2 "f" "x\n"), sameSite (exCp 2 "f" "    return f(n - 1)\n") x = true := by decide +kernel

/-- the two halves of the property meet: from_string reads back what ExceptionInfo.get_formatted prints - every
    entry's file, line number, function and stripped source text, the type and the message - and to_string()
    reproduces that text exactly (no run longer than 3: a `[Previous line repeated ...]` line is not a frame,
    from_string stops there - known finding C16-collapse-line-not-parsed) -/
theorem parse_formatted (frames : List Callpoint) (etype msg : Str) (hr : NoLongRun frames = true)
    (h : WFpe (peOf frames etype msg) = true) :
    fromString (eiFormat frames etype msg) = .ok (peOf frames etype msg) ∧
    (fromString (eiFormat frames etype msg)).map toString = .ok (eiFormat frames etype msg) := by
  rw [eiFormat_eq_toString frames etype msg hr]
  exact ⟨parse_render _ h, render_parse _ h⟩

example : NoLongRun [exCp 1 "<module>" "f()\n", exCp 5 "f" "    return g(\"a: b\")  \n", exCp 9 "<lambda>" ""] = true ∧
    WFpe (peOf [exCp 1 "<module>" "f()\n", exCp 5 "f" "    return g(\"a: b\")  \n", exCp 9 "<lambda>" ""]
    "pkg.Err".toList "a: b\nc".toList) = true := by decide +kernel

/-- tbutils.print_exception writes exactly the interpreter's text, for every list of entries -/
theorem print_exception_eq_std (frames : List Callpoint) (etype msg : Str) :
    printException frames etype msg = stdFormat frames etype msg := by
  unfold printException stdFormat tbInfoFormat
  rw [bLoop_eq_stdLoop]
  unfold stdExcOnly
  split <;> simp [List.append_assoc]

/-- get_formatted_exception_only equals format_exception_only (final newline aside), all messages -/
theorem exc_only_eq_std (etype msg : Str) : eiExcOnly etype msg ++ ['\n'] = stdExcOnly etype msg := by
  unfold eiExcOnly stdExcOnly
  split <;> simp


/-! ### the frame walk: every traceback entry, with the line the file holds now -/

/- FULL: ∀ path k, deferredRaw path k = stdRaw path k   (false: lookup_eq_std_false).
   Proved under the explicit decidable hypothesis `LookOK`. -/
/-- `_DeferredLine` (checkcache, then getline with the module's name and loader) finds the line the
    traceback module finds (lazycache, checkcache, getline), in every state of the cache, the file and
    the loader but the one `LookOK` excludes -/
theorem lookup_eq_std_partial (path : Str) (k : Look) (h : LookOK k = true) :
    deferredRaw path k = stdRaw path k := deferredRaw_eq_stdRaw path k h

example : LookOK ⟨.stamped 10 1 "old()\n".toList, some (12, 2, "new()\n".toList), some "ldr()\n".toList⟩ = true := by decide
example : LookOK ⟨.absent, none, some "ldr()\n".toList⟩ = true := by decide

/-- the excluded state: a complete entry is cached, the file is gone, the module has a loader -/
theorem lookup_eq_std_false : ∃ path k, deferredRaw path k ≠ stdRaw path k := by
  refine ⟨"/m.py".toList, ⟨.stamped 10 1 "old\n".toList, none, some "src\n".toList⟩, ?_⟩
  decide +kernel

/-- revalidation: whatever linecache holds for the file - nothing, a lazy entry, a complete entry read
    when the file had another size or mtime - the line shown is the one the file on disk holds now
    (an entry with the file's present size and mtime is assumed to hold the file's present text) -/
theorem deferred_line_current (path : Str) (k : Look) (sz mt : Nat) (l : Str)
    (hp : isPseudo path = false) (hd : k.disk = some (sz, mt, l))
    (hpin : ∀ l', k.cache ≠ .pinned l')
    (hcoh : ∀ l', k.cache = .stamped sz mt l' → l' = l) :
    deferredRaw path k = l := by
  obtain ⟨c, d, ld⟩ := k
  simp only at hd hpin hcoh
  subst hd
  unfold deferredRaw
  cases c with
  | absent => simp [checkcache, getline, updatecache, hp]
  | lazy l0 => simp [checkcache, getline, updatecache, hp]
  | pinned l0 => exact absurd rfl (hpin l0)
  | stamped s m l0 =>
    simp only [checkcache]
    split
    · rename_i h
      obtain ⟨rfl, rfl⟩ := h
      simp [getline, hcoh l0 rfl]
    · simp [getline, updatecache, hp]

example : deferredRaw "/p/plugin.py".toList ⟨.stamped 10 1 "return 1 // x\n".toList,
    some (12, 2, "return scale // x\n".toList), none⟩ = "return scale // x\n".toList := by decide +kernel

/-- the file is gone and there is no loader: no source text, whatever was cached from the file -/
theorem deferred_line_gone (path : Str) (k : Look) (hd : k.disk = none) (hl : k.loader = none)
    (hc : ∀ l, k.cache ≠ .pinned l) (hz : ∀ l, k.cache ≠ .lazy l) : deferredRaw path k = [] := by
  obtain ⟨c, d, ld⟩ := k
  simp only at hd hl hc hz
  subst hd hl
  unfold deferredRaw
  cases c with
  | absent => simp [checkcache, getline, updatecache, lazycache]
  | lazy l0 => exact absurd rfl (hz l0)
  | pinned l0 => exact absurd rfl (hc l0)
  | stamped s m l0 => simp [checkcache, getline, updatecache, lazycache]

/-- "the same frames in the same order with the same file, line, function and source text": the lists
    agree entry by entry, for every limit and sys.tracebacklimit, whatever frame objects the entries
    refer to (after `raise e` in an `except` block a frame occurs in several entries) -/
theorem live_frames_eq_extract_tb (tb : List TbEntry) (limit : Option Nat) (sys : Option Int)
    (h : ∀ e ∈ tb, LookOK e.look = true) :
    fromTraceback (tb.map walkB) (resolveLimit limit sys) = stdExtract (tb.map walkS) (resolveLimit limit sys) := by
  rw [map_walk_eq tb h]; rfl

/-- `ExceptionInfo.to_dict()` lists, per entry, the file, line number and function of extract_tb's FrameSummary and
    a `line` that is FrameSummary.line once stripped (to_dict keeps the indentation: rstrip only) -/
theorem dict_frames_eq_extract_tb (tb : List TbEntry) (limit : Option Nat) (sys : Option Int)
    (h : ∀ e ∈ tb, LookOK e.look = true) :
    (dictFrames (fromTraceback (tb.map walkB) (resolveLimit limit sys))).map
        (fun d => (d.1, d.2.1, d.2.2.1, strip d.2.2.2))
      = (stdExtract (tb.map walkS) (resolveLimit limit sys)).map
        (fun c => (c.path, c.lineno, c.func, strip c.line)) := by
  rw [live_frames_eq_extract_tb tb limit sys h]
  simp [dictFrames, List.map_map, Function.comp_def, strip_rstrip]

/-- without a limit every traceback entry is listed, with its own file, line number and function -
    also entries that refer to a frame already listed -/
theorem from_traceback_lists_every_entry (tb : List TbEntry) :
    (fromTraceback (tb.map walkB) none).map (fun c => (c.path, c.lineno, c.func))
      = tb.map (fun e => (e.path, e.lineno, e.func)) := by
  simp [fromTraceback, walkB, List.map_map, Function.comp_def]

/-- ExceptionInfo.get_formatted of a live exception equals the interpreter's text: walk, line lookup and
    layout together (partial only in the linecache state `LookOK` excludes) -/
theorem live_format_eq_std_partial (tb : List TbEntry) (sys : Option Int) (etype msg : Str)
    (h : ∀ e ∈ tb, LookOK e.look = true) :
    eiFormat (fromTraceback (tb.map walkB) (resolveLimit none sys)) etype msg ++ ['\n']
      = stdFormat (stdExtract (tb.map walkS) (resolveLimit none sys)) etype msg := by
  rw [live_frames_eq_extract_tb tb none sys h]
  exact format_eq_std _ etype msg

/-! ### the exception's display name; sessions of several captures -/

/-- ExceptionInfo.from_exc_info / tbutils.format_exception_only name the exception class exactly as the
    traceback module does, for every `__module__` (also one that is not a str) and `__qualname__` -/
theorem type_str_eq_std (t : ExcType) : typeStr t = stdTypeStr t := by
  obtain ⟨m, q⟩ := t
  cases m with
  | none => simp [typeStr, stdTypeStr]
  | some m =>
    by_cases h1 : m = "__main__".toList
    · subst h1; simp [typeStr, stdTypeStr, plainMods]
    · by_cases h2 : m = "builtins".toList
      · subst h2; simp [typeStr, stdTypeStr, plainMods]
      · simp [typeStr, stdTypeStr, plainMods, h1, h2]

/-- `_some_str` shows the exception's `str()`, and the traceback module's placeholder when `str()` raises -/
theorem some_str_eq_std (v : Option Str) : someStr v = stdSafeStr v := by cases v <;> rfl

/-- the module names the source tests `__module__` against (regenerated from the source on every run) are the ones
    the model uses -/
theorem source_plain_modules_agree : Gen.plainModNames = plainMods := by decide

/-- the display name is the qualified name: two classes are printed alike only if their `__qualname__`s agree
    up to the module prefix - in particular classes of one module with the same bare `__name__` but different
    `__qualname__` (`Lexer.Error`, `Parser.Error`) are told apart -/
theorem type_str_separates (m : Option Str) (q1 q2 : Str) (h : typeStr ⟨m, q1⟩ = typeStr ⟨m, q2⟩) : q1 = q2 := by
  cases m with
  | none => simpa [typeStr] using h
  | some m =>
    unfold typeStr at h
    simp only at h
    split at h
    · exact h
    · exact List.cons.inj (List.append_cancel_left h) |>.2

/-- every capture of a session - whatever was captured before it, by whichever entry point - is reported as the
    traceback module reports it: type name, exception-only text (final newline aside) and print_exception text -/
theorem session_eq_std (caps : List Capture) :
    (sessionB caps).map (fun r => (r.1, r.2.1 ++ ['\n'], r.2.2)) = sessionS caps := by
  simp only [sessionB, sessionS, List.map_map]
  apply List.map_congr_left
  intro c _
  simp only [Function.comp, type_str_eq_std, exc_only_eq_std]
  simp [printExcOnly, stdExcOnly]

/-- ... in particular the report of a capture does not depend on the captures before it -/
theorem session_history_independent (pre : List Capture) (c : Capture) :
    (sessionB (pre ++ [c])).getLast? = (sessionB [c]).getLast? := by
  simp [sessionB]

example : sessionB [(⟨some "bvm0".toList, "Lexer.Error".toList⟩, "a: b".toList),
                    (⟨some "bvm0".toList, "Parser.Error".toList⟩, []),
                    (⟨some "builtins".toList, "KeyError".toList⟩, "'k'".toList), (⟨none, "E".toList⟩, "x".toList)]
    = [("bvm0.Lexer.Error".toList, "bvm0.Lexer.Error: a: b".toList, "bvm0.Lexer.Error: a: b\n".toList),
       ("bvm0.Parser.Error".toList, "bvm0.Parser.Error".toList, "bvm0.Parser.Error\n".toList),
       ("KeyError".toList, "KeyError: 'k'".toList, "KeyError: 'k'\n".toList),
       ("<unknown>.E".toList, "<unknown>.E: x".toList, "<unknown>.E: x\n".toList)] := by decide +kernel

def exTb : List TbEntry :=
  [⟨"/a b/é.py".toList, 3, "<module>".toList, 0, ⟨.pinned "top()\n".toList, none, none⟩, 2⟩,
   ⟨"/p/plugin.py".toList, 9, "middle".toList, 1, ⟨.stamped 10 1 "old\n".toList, some (12, 2, "    raise e\n".toList), none⟩, 30⟩,
   ⟨"/p/plugin.py".toList, 6, "middle".toList, 1, ⟨.stamped 10 1 "old\n".toList, some (12, 2, "    return leaf(key)\n".toList), none⟩, 12⟩,
   ⟨"<string>".toList, 1, "<module>".toList, 2, ⟨.absent, none, some "x\n".toList⟩, 4⟩]

example : ∀ e ∈ exTb, LookOK e.look = true := by decide +kernel

end C16
