import BoltonsVerif.C16.Model
/-
C16 — the three patterns of boltons/tbutils.py (`_frame_re`, `_se_frame_re`, `_underline_re`) under a GENERIC
backtracking matcher for the fragment of `re` syntax they use, and the proof that the hand-written scanners of
Model.lean (`matchFrame`, `matchSE`, `isUnderline`) compute exactly what that matcher computes on the token lists
the translator regenerates from the source on every run (Generated/C16_Tables.lean).

Fragment: `^`, `$`, literal text, greedy `X+` / `X*` over a character class (`.`, `\d`, `[...]`).  Semantics as in
the `re` module: `match` is anchored at the start and need not consume the whole string; `.` does not match `\n`;
`$` matches at the end and before a final `\n`; a greedy repetition tries the longest run first and gives
characters back one by one while the rest of the pattern fails (`rep`); every `X+` item is a capture group.
-/
namespace C16.Re
open C16

inductive Cls where
  | any
  | digit
  | set (cs : List Char)
deriving DecidableEq, Repr

def Cls.test : Cls → Char → Bool
  | .any, c => c != '\n'
  | .digit, c => isDigit c
  | .set cs, c => cs.contains c

inductive Tok where
  | bos
  | eos
  | lit (s : Str)
  | plus (k : Cls)
  | star (k : Cls)
deriving DecidableEq, Repr

/-- the translator's token text (`regex_shape` in harness/bv/props/c16.py) -/
def parseTok (w : Str) : Option Tok :=
  if w = "^".toList then some .bos
  else if w = "$".toList then some .eos
  else if w = "any+".toList then some (.plus .any)
  else if w = "digit+".toList then some (.plus .digit)
  else match dropPrefix? "lit:".toList w with
    | some s => some (.lit s)
    | none => match dropPrefix? "set*:".toList w with
      | some s => some (.star (.set s))
      | none => none

def parseToks : List Str → Option (List Tok)
  | [] => some []
  | w :: ws => match parseTok w, parseToks ws with
    | some t, some ts => some (t :: ts)
    | _, _ => none

/-- greedy repetition over the class `k`, after the mandatory part: consume as many characters as possible, then the
    rest of the pattern (`cont`); when that fails give one character back and try again.  Returns the characters
    consumed here and what `cont` returned. -/
def rep (k : Char → Bool) (cont : Str → Option (List Str)) : Str → Option (Str × List Str)
  | [] => (cont []).map fun r => ([], r)
  | c :: cs =>
    if k c then
      match rep k cont cs with
      | some (pre, r) => some (c :: pre, r)
      | none => (cont (c :: cs)).map fun r => ([], r)
    else (cont (c :: cs)).map fun r => ([], r)

/-- the matcher after the start anchor; result = the text of the capture groups (one per `X+`), in order -/
def run : List Tok → Str → Option (List Str)
  | [], _ => some []
  | .bos :: _, _ => none
  | .eos :: ts, s => if s = [] ∨ s = ['\n'] then run ts s else none
  | .lit p :: ts, s =>
    match dropPrefix? p s with
    | some r => run ts r
    | none => none
  | .plus k :: ts, s =>
    match s with
    | [] => none
    | c :: cs =>
      if k.test c then
        match rep k.test (run ts) cs with
        | some (pre, r) => some ((c :: pre) :: r)
        | none => none
      else none
  | .star k :: ts, s =>
    match rep k.test (run ts) s with
    | some (_, r) => some r
    | none => none

/-- `pattern.match(s)` -/
def reMatch (toks : List Tok) (s : Str) : Option (List Str) :=
  match toks with
  | .bos :: ts => run ts s
  | ts => run ts s

/-! ## the three patterns -/

def frameToks : List Tok := [.bos, .lit litA, .plus .any, .lit litB, .plus .digit, .lit litC, .plus .any, .eos]
def seToks : List Tok := [.bos, .lit litA, .plus .any, .lit litB, .plus .digit]
def ulToks : List Tok := [.bos, .star (.set " ^~".toList), .eos]

/-- `frame_match.groupdict()` as a frame record -/
def frameOfGroups : List Str → Option Frame
  | [fp, ln, fn] => some ⟨fp, ln, fn, []⟩
  | _ => none

def seFrameOfGroups : List Str → Option Frame
  | [fp, ln] => some ⟨fp, ln, [], []⟩
  | _ => none

def noNL (s : Str) : Bool := s.all fun c => c != '\n'

/-! ## generic facts about `rep` -/

theorem rep_all {k : Char → Bool} {cont : Str → Option (List Str)} {r : List Str} (h0 : cont [] = some r) :
    ∀ s : Str, s.all k = true → rep k cont s = some (s, r)
  | [], _ => by simp [rep, h0]
  | c :: cs, h => by
    simp only [List.all_cons, Bool.and_eq_true] at h
    simp [rep, h.1, rep_all h0 cs h.2]

/-- no backtracking into the run when the rest of the pattern cannot start with a character of the class -/
theorem rep_nobacktrack {k : Char → Bool} {cont : Str → Option (List Str)}
    (hc : ∀ c cs, k c = true → cont (c :: cs) = none) :
    ∀ s : Str, rep k cont s = (cont (s.dropWhile k)).map fun r => (s.takeWhile k, r)
  | [] => by simp [rep]
  | c :: cs => by
    by_cases h : k c = true
    · simp only [rep, h, if_true, List.takeWhile_cons, List.dropWhile_cons, rep_nobacktrack hc cs, hc c cs h]
      cases cont (List.dropWhile k cs) <;> simp
    · simp [rep, h]

/-- a rest of the pattern that always succeeds takes the longest run -/
theorem rep_const {k : Char → Bool} {r : List Str} :
    ∀ s : Str, rep k (fun _ => some r) s = some (s.takeWhile k, r)
  | [] => by simp [rep]
  | c :: cs => by
    by_cases h : k c = true
    · simp [rep, h, rep_const cs]
    · simp [rep, h]

/-- the rest of the pattern fails on every non-empty string (here: `$`), and the class does not cover the string -/
theorem rep_none {k : Char → Bool} {cont : Str → Option (List Str)}
    (hc : ∀ c cs, noNL (c :: cs) = true → cont (c :: cs) = none) :
    ∀ s : Str, noNL s = true → s.all k = false → rep k cont s = none
  | [], _, h => by simp at h
  | c :: cs, hn, h => by
    have hn' : noNL cs = true := by
      simp only [noNL, List.all_cons, Bool.and_eq_true] at hn ⊢; exact hn.2
    by_cases hk : k c = true
    · have : cs.all k = false := by simpa [hk] using h
      simp [rep, hk, rep_none hc cs hn' this, hc c cs hn]
    · simp [rep, hk, hc c cs hn]

/-- greedy `.+` followed by a rest `cont`: the rightmost split at which `cont` succeeds (`findLast`) -/
theorem rep_findLast {k : Char → Bool} {cont : Str → Option (List Str)} {tm : Str → Option (Str × Str)}
    {f : Str × Str → List Str} (hc : ∀ s, s.all k = true → cont s = (tm s).map f) (h0 : tm [] = none) :
    ∀ s : Str, s.all k = true → rep k cont s = (findLast tm s).map fun p => (p.1, f p.2)
  | [], _ => by simp [rep, findLast, hc [] (by simp), h0]
  | c :: cs, h => by
    have h' := h
    simp only [List.all_cons, Bool.and_eq_true] at h
    simp only [rep, h.1, if_true, findLast, rep_findLast hc h0 cs h.2]
    cases findLast tm cs with
    | some p => simp
    | none =>
      simp only [Option.map_none, hc _ h']
      cases tm (c :: cs) <;> simp

/-! ## suffixes of a string without `\n` -/

theorem noNL_dropPrefix {p s r : Str} (h : dropPrefix? p s = some r) (hn : noNL s = true) : noNL r = true := by
  induction p generalizing s with
  | nil => simp [dropPrefix?] at h; subst h; exact hn
  | cons a p ih =>
    cases s with
    | nil => simp [dropPrefix?] at h
    | cons c cs =>
      simp only [dropPrefix?] at h
      split at h
      · exact ih h (by simp only [noNL, List.all_cons, Bool.and_eq_true] at hn ⊢; exact hn.2)
      · simp at h

theorem noNL_dropWhile (k : Char → Bool) : ∀ s : Str, noNL s = true → noNL (s.dropWhile k) = true
  | [], _ => by simp [noNL]
  | c :: cs, h => by
    have h' : noNL cs = true := by simp only [noNL, List.all_cons, Bool.and_eq_true] at h ⊢; exact h.2
    simp only [List.dropWhile_cons]
    split
    · exact noNL_dropWhile k cs h'
    · exact h

theorem noNL_all_any (s : Str) (h : noNL s = true) : s.all Cls.any.test = true := by
  simpa [noNL, Cls.test] using h

/-! ## one-step unfoldings of `run` -/

theorem run_nil (s : Str) : run [] s = some [] := by rw [run]
theorem run_eos (ts : List Tok) (s : Str) :
    run (.eos :: ts) s = if s = [] ∨ s = ['\n'] then run ts s else none := by rw [run]
theorem run_lit (p : Str) (ts : List Tok) (s : Str) :
    run (.lit p :: ts) s = match dropPrefix? p s with | some r => run ts r | none => none := by rw [run]
theorem run_plus_nil (k : Cls) (ts : List Tok) : run (.plus k :: ts) [] = none := by rw [run]
theorem run_plus_cons (k : Cls) (ts : List Tok) (c : Char) (cs : Str) :
    run (.plus k :: ts) (c :: cs)
      = if k.test c then
          match rep k.test (run ts) cs with
          | some (pre, r) => some ((c :: pre) :: r)
          | none => none
        else none := by rw [run]
theorem run_star (k : Cls) (ts : List Tok) (s : Str) :
    run (.star k :: ts) s = match rep k.test (run ts) s with | some (_, r) => some r | none => none := by rw [run]

theorem litC_eq : litC = [',', ' ', 'i', 'n', ' '] := by decide

/-! ## the rest of `_frame_re` after the file path is `tailMatch` -/

theorem run_eos_nil : run [.eos] [] = some [] := by simp [run_eos, run_nil]

theorem run_eos_cons (c : Char) (cs : Str) (h : noNL (c :: cs) = true) : run [.eos] (c :: cs) = none := by
  have : c ≠ '\n' := by
    simp only [noNL, List.all_cons, Bool.and_eq_true, bne_iff_ne] at h; exact h.1
  rw [run_eos]
  split
  · rename_i h'
    rcases h' with h' | h'
    · simp at h'
    · simp only [List.cons.injEq] at h'; exact absurd h'.1 this
  · rfl

/-- `, in (.+)$` -/
theorem run_func (s : Str) (hn : noNL s = true) :
    run [.lit litC, .plus .any, .eos] s
      = match dropPrefix? litC s with
        | none => none
        | some fn => if fn = [] then none else some [fn] := by
  rw [run_lit]
  cases hd : dropPrefix? litC s with
  | none => rfl
  | some fn =>
    have hf := noNL_dropPrefix hd hn
    cases fn with
    | nil => simp [run_plus_nil]
    | cons c cs =>
      have hc : Cls.any.test c = true ∧ cs.all Cls.any.test = true := by
        have := noNL_all_any _ hf
        simpa [List.all_cons, Bool.and_eq_true] using this
      simp only [run_plus_cons, hc.1, if_true, rep_all run_eos_nil cs hc.2]
      simp

theorem comma_not_digit : isDigit ',' = false := by decide +kernel

theorem run_func_digit (c : Char) (cs : Str) (hc : Cls.digit.test c = true) :
    run [.lit litC, .plus .any, .eos] (c :: cs) = none := by
  have : ¬ (',' = c) := by
    intro h; subst h; simp [Cls.test, comma_not_digit] at hc
  rw [run_lit, litC_eq]
  simp [dropPrefix?, this]

/-- `", line (\d+), in (.+)$` is `tailMatch` -/
theorem run_tail (s : Str) (hn : noNL s = true) :
    run [.lit litB, .plus .digit, .lit litC, .plus .any, .eos] s = (tailMatch s).map fun x => [x.1, x.2] := by
  rw [run_lit, tailMatch]
  cases hd : dropPrefix? litB s with
  | none => rfl
  | some r =>
    have hr := noNL_dropPrefix hd hn
    simp only
    cases r with
    | nil => simp [run_plus_nil]
    | cons d ds =>
      rw [run_plus_cons]
      by_cases hdig : isDigit d = true
      · have hds : noNL ds = true := by
          simp only [noNL, List.all_cons, Bool.and_eq_true] at hr ⊢; exact hr.2
        have hdt : Cls.digit.test = isDigit := by funext c; rfl
        rw [rep_nobacktrack run_func_digit ds, hdt, run_func _ (noNL_dropWhile _ ds hds)]
        simp only [hdig, if_true, List.takeWhile_cons, List.dropWhile_cons]
        cases dropPrefix? litC (List.dropWhile isDigit ds) with
        | none => simp
        | some fn => by_cases hfn : fn = [] <;> simp [hfn]
      · simp [Cls.test, hdig]

/-- `", line (\d+)` (no end anchor) is `tailMatchSE` -/
theorem run_tailSE (s : Str) :
    run [.lit litB, .plus .digit] s = (tailMatchSE s).map fun x => [x.1] := by
  rw [run_lit, tailMatchSE]
  cases hd : dropPrefix? litB s with
  | none => rfl
  | some r =>
    simp only
    cases r with
    | nil => simp [run_plus_nil]
    | cons d ds =>
      rw [run_plus_cons]
      have : run [] = fun _ => some [] := by funext s; simp [run_nil]
      have hdt : Cls.digit.test = isDigit := by funext c; rfl
      by_cases hdig : isDigit d = true
      · simp [hdt, hdig, this, rep_const]
      · simp [hdt, hdig]

/-! ## the hand scanners are the generic matcher on the source's patterns -/

theorem all_any_iff (s : Str) : s.all Cls.any.test = noNL s := rfl

/-- greedy `(.+)` followed by `tm`: the hand scanner's `findLast` with the non-empty-path test -/
theorem plus_any_findLast {ts : List Tok} {tm : Str → Option (Str × Str)} {f : Str × Str → List Str}
    (hc : ∀ s, noNL s = true → run ts s = (tm s).map f) (h0 : tm [] = none) (r : Str) (hn : noNL r = true) :
    run (.plus .any :: ts) r
      = match findLast tm r with
        | none => none
        | some (fp, x) => if fp = [] then none else some (fp :: f x) := by
  cases r with
  | nil => simp [run_plus_nil, findLast]
  | cons c cs =>
    have h2 : Cls.any.test c = true ∧ cs.all Cls.any.test = true := by
      have := noNL_all_any _ hn
      simpa [List.all_cons, Bool.and_eq_true] using this
    have hc' : ∀ s, s.all Cls.any.test = true → run ts s = (tm s).map f := by
      intro s hs; exact hc s (by rw [← all_any_iff]; exact hs)
    rw [run_plus_cons, rep_findLast hc' h0 cs h2.2]
    simp only [h2.1, if_true, findLast]
    cases findLast tm cs with
    | some p => simp
    | none => cases tm (c :: cs) <;> simp

theorem tailMatch_nil : tailMatch [] = none := by decide
theorem tailMatchSE_nil : tailMatchSE [] = none := by decide

theorem tailMatchSE_func {s : Str} {x : Str × Str} (h : tailMatchSE s = some x) : x.2 = [] := by
  unfold tailMatchSE at h
  split at h
  · simp at h
  · split at h
    · simp at h
    · simp only [Option.some.injEq] at h; subst h; rfl

theorem findLast_SE_func : ∀ {r : Str} {fp ln fn : Str}, findLast tailMatchSE r = some (fp, ln, fn) → fn = []
  | [], _, _, _, h => by simp [findLast] at h
  | c :: cs, fp, ln, fn, h => by
    simp only [findLast] at h
    cases h1 : findLast tailMatchSE cs with
    | some p =>
      obtain ⟨pre, ln', fn'⟩ := p
      rw [h1] at h
      simp only [Option.some.injEq, Prod.mk.injEq] at h
      obtain ⟨_, _, rfl⟩ := h
      exact findLast_SE_func h1
    | none =>
      rw [h1] at h
      cases h2 : tailMatchSE (c :: cs) with
      | none => rw [h2] at h; simp at h
      | some x =>
        rw [h2] at h
        simp only [Option.some.injEq, Prod.mk.injEq] at h
        have := tailMatchSE_func h2
        obtain ⟨_, hx⟩ := h
        subst hx
        exact this

/-- `_frame_re.match(line)` under the generic matcher is the hand scanner `matchFrame`, for every line without `\n` -/
theorem matchFrame_eq_re (l : Str) (hn : noNL l = true) :
    matchFrame l = (reMatch frameToks l).bind frameOfGroups := by
  unfold matchFrame matchWith reMatch frameToks
  simp only [run_lit]
  cases hd : dropPrefix? litA l with
  | none => rfl
  | some r =>
    have hr := noNL_dropPrefix hd hn
    simp only
    rw [plus_any_findLast (tm := tailMatch) (f := fun x => [x.1, x.2]) (fun s hs => run_tail s hs) tailMatch_nil r hr]
    cases findLast tailMatch r with
    | none => rfl
    | some p =>
      obtain ⟨fp, ln, fn⟩ := p
      by_cases hfp : fp = [] <;> simp [hfp, frameOfGroups]

/-- the same for `_se_frame_re` and `matchSE` -/
theorem matchSE_eq_re (l : Str) (hn : noNL l = true) :
    matchSE l = (reMatch seToks l).bind seFrameOfGroups := by
  unfold matchSE matchWith reMatch seToks
  simp only [run_lit]
  cases hd : dropPrefix? litA l with
  | none => rfl
  | some r =>
    have hr := noNL_dropPrefix hd hn
    simp only
    rw [plus_any_findLast (tm := tailMatchSE) (f := fun x => [x.1]) (fun s _ => run_tailSE s) tailMatchSE_nil r hr]
    cases h : findLast tailMatchSE r with
    | none => rfl
    | some p =>
      obtain ⟨fp, ln, fn⟩ := p
      have hfn : fn = [] := findLast_SE_func h
      by_cases hfp : fp = [] <;> simp [hfp, seFrameOfGroups, hfn]

theorem ul_test (c : Char) : (Cls.set " ^~".toList).test c = isUnderlineChar c := by
  have : " ^~".toList = [' ', '^', '~'] := by decide
  simp only [Cls.test, this, isUnderlineChar, List.contains_cons, List.contains_nil, Bool.or_false]
  by_cases h1 : c = ' ' <;> by_cases h2 : c = '^' <;> by_cases h3 : c = '~' <;> simp [h1, h2, h3]

/-- `_underline_re.match(line)` succeeds exactly when `isUnderline line`, for every line without `\n` -/
theorem isUnderline_eq_re (l : Str) (hn : noNL l = true) : isUnderline l = (reMatch ulToks l).isSome := by
  unfold reMatch ulToks
  simp only [run_star]
  have ht : (Cls.set " ^~".toList).test = isUnderlineChar := funext ul_test
  rw [ht]
  by_cases h : l.all isUnderlineChar = true
  · rw [rep_all run_eos_nil l h]; simp [isUnderline, h]
  · have h' : l.all isUnderlineChar = false := by simpa using h
    rw [rep_none (fun c cs hcs => run_eos_cons c cs hcs) l hn h']
    simp [isUnderline, h']


/-! ## from_string over the source's patterns

`fromStringRe` is ParsedException.from_string written with three abstract matchers; instantiated with the generic
matcher on the token lists regenerated from the source it equals the hand-scanner model `fromStringF` on every text. -/

def takeSourceG := @takeSource

/-- `skipUnderline` with an abstract `_underline_re.match` -/
def skipUnderlineG (ul : Str → Bool) (rest : List Str) : List Str :=
  match rest with
  | [] => []
  | u :: rest' => if ul u then rest' else rest

theorem skipUnderlineG_len (ul : Str → Bool) (rest : List Str) : (skipUnderlineG ul rest).length ≤ rest.length := by
  unfold skipUnderlineG
  split
  · simp
  · split <;> simp

/-- the frame loop of from_string with abstract matchers -/
def parseLoopG (re : Str → Option Frame) (ul : Str → Bool) (ls : List Str) : List Frame × List Str :=
  match ls with
  | [] => ([], [])
  | l :: rest =>
    match re (strip l) with
    | none => ([], l :: rest)
    | some fd =>
      let r := parseLoopG re ul (skipUnderlineG ul (takeSource re rest).2)
      ({ fd with src := (takeSource re rest).1 } :: r.1, r.2)
termination_by ls.length
decreasing_by
  have h1 := takeSource_len re rest
  have h2 := skipUnderlineG_len ul (takeSource re rest).2
  simp only [List.length_cons]
  omega

def fromLinesG (mf mse : Str → Option Frame) (ul : Str → Bool) (ls0 : List Str) : Except Err (Form × PE) :=
  let ls := dropTrailers ls0
  match ls with
  | first :: rest =>
    if strip first = header then
      let r := parseLoopG mf ul rest
      .ok (.tb, ⟨r.1, (excParts r.2).1, (excParts r.2).2⟩)
    else if secondLastIsCaret ls then
      let r := parseLoopG mse ul ls
      .ok (.se, ⟨r.1, (excParts r.2).1, (excParts r.2).2⟩)
    else .error .valueError
  | [] => .error .valueError

/-- the three matchers read off token lists -/
def reFrame (toks : List Tok) (l : Str) : Option Frame := (reMatch toks l).bind frameOfGroups
def reSE (toks : List Tok) (l : Str) : Option Frame := (reMatch toks l).bind seFrameOfGroups
def reUL (toks : List Tok) (l : Str) : Bool := (reMatch toks l).isSome

/-- ParsedException.from_string with `frame_re.match` / `_underline_re.match` evaluated by the generic matcher -/
def fromStringRe (ft st ut : List Tok) (t : Str) : Except Err (Form × PE) :=
  fromLinesG (reFrame ft) (reSE st) (reUL ut) (splitlines (lstrip t))

/-! lines produced by str.splitlines (and their strip()) contain no `\n` -/

theorem nl_isSep : isSep '\n' = true := by decide +kernel

theorem noNL_cons {c : Char} {cs : Str} : noNL (c :: cs) = true ↔ c ≠ '\n' ∧ noNL cs = true := by
  simp [noNL]

theorem splitlinesGo_noNL : ∀ (s : Str) (b : Bool), ∀ l ∈ splitlinesGo b s, noNL l = true
  | [], b => by simp [splitlinesGo]
  | c :: rest, b => by
    intro l hl
    rw [splitlinesGo] at hl
    split at hl
    · exact splitlinesGo_noNL rest false l hl
    · split at hl
      · rcases List.mem_cons.mp hl with h | h
        · subst h; rfl
        · exact splitlinesGo_noNL rest true l h
      · split at hl
        · rcases List.mem_cons.mp hl with h | h
          · subst h; rfl
          · exact splitlinesGo_noNL rest false l h
        · rename_i hsep
          have hc : c ≠ '\n' := by
            intro h; subst h; exact hsep nl_isSep
          have ih := splitlinesGo_noNL rest false
          split at hl
          · simp only [List.mem_singleton] at hl; subst hl
            exact noNL_cons.mpr ⟨hc, rfl⟩
          · rename_i l0 ls heq
            rw [heq] at ih
            rcases List.mem_cons.mp hl with h | h
            · subst h; exact noNL_cons.mpr ⟨hc, ih l0 (List.mem_cons_self ..)⟩
            · exact ih l (List.mem_cons_of_mem _ h)

theorem noNL_reverse (s : Str) : noNL s.reverse = noNL s := by simp [noNL]

theorem noNL_strip (s : Str) (h : noNL s = true) : noNL (strip s) = true := by
  unfold strip rstrip lstrip
  rw [noNL_reverse]
  apply noNL_dropWhile
  rw [noNL_reverse]
  exact noNL_dropWhile _ _ h

/-! congruence of the frame loop in its matchers -/

theorem takeSource_congr {re re' : Str → Option Frame} (h : ∀ l, noNL l = true → re l = re' l)
    (rest : List Str) (hr : ∀ l ∈ rest, noNL l = true) : takeSource re rest = takeSource re' rest := by
  unfold takeSource
  cases rest with
  | nil => rfl
  | cons next rest' =>
    simp only
    rw [h (strip next) (noNL_strip _ (hr next (List.mem_cons_self ..)))]

theorem takeSource_mem (re : Str → Option Frame) (rest : List Str) : ∀ l ∈ (takeSource re rest).2, l ∈ rest := by
  unfold takeSource
  cases rest with
  | nil => simp
  | cons next rest' =>
    simp only
    split
    · intro l hl; exact hl
    · intro l hl; exact List.mem_cons_of_mem _ hl

theorem skipUnderlineG_mem (ul : Str → Bool) (rest : List Str) : ∀ l ∈ skipUnderlineG ul rest, l ∈ rest := by
  unfold skipUnderlineG
  cases rest with
  | nil => simp
  | cons u rest' =>
    simp only
    split
    · intro l hl; exact List.mem_cons_of_mem _ hl
    · intro l hl; exact hl

theorem skipUnderlineG_congr {ul ul' : Str → Bool} (h : ∀ l, noNL l = true → ul l = ul' l)
    (rest : List Str) (hr : ∀ l ∈ rest, noNL l = true) : skipUnderlineG ul rest = skipUnderlineG ul' rest := by
  unfold skipUnderlineG
  cases rest with
  | nil => rfl
  | cons u rest' => simp only; rw [h u (hr u (List.mem_cons_self ..))]

theorem parseLoopG_congr {re re' : Str → Option Frame} {ul ul' : Str → Bool}
    (h : ∀ l, noNL l = true → re l = re' l) (hu : ∀ l, noNL l = true → ul l = ul' l) :
    ∀ (n : Nat) (ls : List Str), ls.length ≤ n → (∀ l ∈ ls, noNL l = true) →
      parseLoopG re ul ls = parseLoopG re' ul' ls
  | _, [], _, _ => by rw [parseLoopG, parseLoopG]
  | 0, _ :: _, hn, _ => by simp at hn
  | n + 1, l :: rest, hn, hl => by
    rw [parseLoopG, parseLoopG]
    have hrest : ∀ l ∈ rest, noNL l = true := fun x hx => hl x (List.mem_cons_of_mem _ hx)
    rw [← h (strip l) (noNL_strip _ (hl l (List.mem_cons_self ..)))]
    cases re (strip l) with
    | none => rfl
    | some fd =>
      simp only
      rw [← takeSource_congr h rest hrest]
      have hts : ∀ l ∈ (takeSource re rest).2, noNL l = true := fun x hx => hrest x (takeSource_mem re rest x hx)
      rw [← skipUnderlineG_congr hu _ hts]
      have hlen : (skipUnderlineG ul (takeSource re rest).2).length ≤ n := by
        have h1 := takeSource_len re rest
        have h2 := skipUnderlineG_len ul (takeSource re rest).2
        simp only [List.length_cons] at hn
        omega
      rw [parseLoopG_congr h hu n _ hlen (fun x hx => hts x (skipUnderlineG_mem ul _ x hx))]

theorem skipUnderlineG_eq (rest : List Str) : skipUnderlineG isUnderline rest = skipUnderline rest := rfl

theorem parseLoopG_eq (re : Str → Option Frame) :
    ∀ (n : Nat) (ls : List Str), ls.length ≤ n → parseLoopG re isUnderline ls = parseLoop re ls
  | _, [], _ => by rw [parseLoopG, parseLoop]
  | 0, _ :: _, hn => by simp at hn
  | n + 1, l :: rest, hn => by
    rw [parseLoopG, parseLoop]
    cases re (strip l) with
    | none => rfl
    | some fd =>
      simp only [skipUnderlineG_eq]
      have hlen : (skipUnderline (takeSource re rest).2).length ≤ n := by
        have h1 := takeSource_len re rest
        have h2 := skipUnderline_len (takeSource re rest).2
        simp only [List.length_cons] at hn
        omega
      rw [parseLoopG_eq re n _ hlen]

theorem dropTrailers_mem (ls : List Str) : ∀ l ∈ dropTrailers ls, l ∈ ls := by
  have key : ∀ rs : List Str, ∀ l ∈ dropTrailersRev rs, l ∈ rs := by
    intro rs
    induction rs with
    | nil => simp [dropTrailersRev]
    | cons r rs ih =>
      intro l hl
      simp only [dropTrailersRev] at hl
      split at hl
      · exact List.mem_cons_of_mem _ (ih l hl)
      · exact hl
  intro l hl
  unfold dropTrailers at hl
  have := key ls.reverse l (by simpa using hl)
  simpa using this

/-- from_string over the regenerated patterns (generic matcher) = the hand-scanner model, for every text -/
theorem fromStringRe_eq (t : Str) : fromStringRe frameToks seToks ulToks t = fromStringF t := by
  unfold fromStringRe fromStringF fromLinesG fromLinesF
  have hall : ∀ l ∈ dropTrailers (splitlines (lstrip t)), noNL l = true :=
    fun l hl => splitlinesGo_noNL _ false l (dropTrailers_mem _ l hl)
  have hf : ∀ l, noNL l = true → reFrame frameToks l = matchFrame l := fun l h => (matchFrame_eq_re l h).symm
  have hs : ∀ l, noNL l = true → reSE seToks l = matchSE l := fun l h => (matchSE_eq_re l h).symm
  have hu : ∀ l, noNL l = true → reUL ulToks l = isUnderline l := fun l h => (isUnderline_eq_re l h).symm
  simp only
  cases hd : dropTrailers (splitlines (lstrip t)) with
  | nil => rfl
  | cons first rest =>
    rw [hd] at hall
    simp only
    have hrest : ∀ l ∈ rest, noNL l = true := fun x hx => hall x (List.mem_cons_of_mem _ hx)
    rw [parseLoopG_congr hf hu _ rest (Nat.le_refl _) hrest, parseLoopG_eq _ _ rest (Nat.le_refl _),
        parseLoopG_congr hs hu _ (first :: rest) (Nat.le_refl _) hall, parseLoopG_eq _ _ (first :: rest) (Nat.le_refl _)]

end C16.Re
