import BoltonsVerif.C16.Model
namespace C16
end C16
