import BoltonsVerif.C16.Model
/-
C16 — helper lemmas for Props.lean (core Lean only).
-/
namespace C16

/-! ## character-class facts (evaluated on the generated tables) -/

theorem sepCps_space : Gen.sepCps.all (inRanges Gen.spaceRanges) = true := by decide
theorem sepCps_not_digit : Gen.sepCps.all (fun n => !inRanges Gen.digitRanges n) = true := by decide

theorem isSpace_of_isSep {c : Char} (h : isSep c = true) : isSpace c = true := by
  unfold isSep at h
  have := List.all_eq_true.mp sepCps_space c.toNat (by simpa using h)
  exact this

theorem notSep_of_notSpace {c : Char} (h : notSpace c = true) : notSep c = true := by
  unfold notSpace at h; unfold notSep
  cases hs : isSep c with
  | false => rfl
  | true => rw [isSpace_of_isSep hs] at h; simp at h

theorem notSep_of_isDigit {c : Char} (h : isDigit c = true) : notSep c = true := by
  unfold notSep
  cases hs : isSep c with
  | false => rfl
  | true =>
    unfold isSep at hs
    have := List.all_eq_true.mp sepCps_not_digit c.toNat (by simpa using hs)
    unfold isDigit at h
    simp [h] at this

theorem isSpace_space : isSpace ' ' = true := by decide
theorem isSep_nl : isSep '\n' = true := by decide
theorem isSep_cr : isSep '\r' = true := by decide
theorem isSpace_nl : isSpace '\n' = true := by decide
theorem isDigit_quote : isDigit '"' = false := by decide
theorem isDigit_comma : isDigit ',' = false := by decide

theorem notSep_of_underline {c : Char} (h : isUnderlineChar c = true) : notSep c = true := by
  unfold isUnderlineChar at h
  simp at h
  rcases h with (h | h) | h <;> subst h <;> decide

/-! ## strip -/

theorem lstrip_of_first {s : Str} (h : firstNotSpace s = true) : lstrip s = s := by
  cases s with
  | nil => simp [firstNotSpace] at h
  | cons c cs =>
    simp only [firstNotSpace, notSpace, Bool.not_eq_eq_eq_not, Bool.not_true] at h
    simp [lstrip, List.dropWhile, h]

theorem lstrip_space_cons (s : Str) : lstrip (' ' :: s) = lstrip s := by
  simp [lstrip, List.dropWhile, isSpace_space]

theorem rstrip_of_last {s : Str} (h : lastNotSpace s = true) : rstrip s = s := by
  unfold lastNotSpace at h
  unfold rstrip
  have := lstrip_of_first h
  unfold lstrip at this
  rw [this, List.reverse_reverse]

theorem strip_of_first_last {s : Str} (h1 : firstNotSpace s = true) (h2 : lastNotSpace s = true) :
    strip s = s := by
  unfold strip; rw [lstrip_of_first h1, rstrip_of_last h2]

theorem lastNotSpace_append {a b : Str} (h : lastNotSpace b = true) : lastNotSpace (a ++ b) = true := by
  unfold lastNotSpace at *
  rw [List.reverse_append]
  cases hb : b.reverse with
  | nil => rw [hb] at h; simp [firstNotSpace] at h
  | cons c cs => rw [hb] at h; simpa [firstNotSpace] using h

theorem lastNotSpace_ne_nil {s : Str} (h : lastNotSpace s = true) : s ≠ [] := by
  intro hs; subst hs; simp [lastNotSpace, firstNotSpace] at h

theorem firstNotSpace_append {a b : Str} (h : firstNotSpace a = true) : firstNotSpace (a ++ b) = true := by
  cases a with
  | nil => simp [firstNotSpace] at h
  | cons c cs => simpa [firstNotSpace] using h

theorem all_of_dropWhile_nil {p : Char → Bool} {x : Str} (h : x.dropWhile p = []) : x.all p = true := by
  induction x with
  | nil => rfl
  | cons c cs ih =>
    simp only [List.dropWhile_cons] at h
    split at h
    · rename_i hc; simp [hc, ih h]
    · simp at h

theorem dropWhile_append_all {p : Char → Bool} {x y : Str} (h : x.all p = true) :
    (x ++ y).dropWhile p = y.dropWhile p := by
  induction x with
  | nil => rfl
  | cons c cs ih =>
    simp only [List.all_cons, Bool.and_eq_true] at h
    simp [List.dropWhile, h.1, ih h.2]

theorem dropWhile_append_stop {p : Char → Bool} {x y : Str} (h : x.dropWhile p ≠ []) :
    (x ++ y).dropWhile p = x.dropWhile p ++ y := by
  induction x with
  | nil => simp at h
  | cons c cs ih =>
    simp only [List.cons_append, List.dropWhile_cons] at h ⊢
    split
    · rename_i hc; simp only [hc, ↓reduceIte] at h; exact ih h
    · rfl

/-- stripping on the right does not reach into a prefix whose last character is not a space -/
theorem rstrip_append_left {a h : Str} (ha : lastNotSpace a = true) : rstrip (a ++ h) = a ++ rstrip h := by
  unfold rstrip
  rw [List.reverse_append]
  by_cases hh : h.reverse.dropWhile isSpace = []
  · have hall : h.reverse.all isSpace = true := all_of_dropWhile_nil hh
    rw [dropWhile_append_all hall, hh]
    have := rstrip_of_last ha
    unfold rstrip at this
    simp [this]
  · rw [dropWhile_append_stop hh]; simp

theorem rstrip_prefix (h : Str) : rstrip h <+: h := by
  unfold rstrip
  have := List.dropWhile_suffix (l := h.reverse) isSpace
  have := List.reverse_prefix.mpr this
  simpa using this

/-! ## prefix matching and the frame-line scanner -/

theorem dropPrefix?_append (p s : Str) : dropPrefix? p (p ++ s) = some s := by
  induction p with
  | nil => rfl
  | cons c cs ih => simp [dropPrefix?, ih]

theorem dropPrefix?_sound {p s r : Str} (h : dropPrefix? p s = some r) : s = p ++ r := by
  induction p generalizing s with
  | nil => simp [dropPrefix?] at h; simp [h]
  | cons c cs ih =>
    cases s with
    | nil => simp [dropPrefix?] at h
    | cons d ds =>
      simp only [dropPrefix?] at h
      split at h
      · rename_i hcd; subst hcd; rw [ih h]; rfl
      · simp at h

theorem dropPrefix?_none_of_head {p s : Str} {c : Char} (hp : p.head? = some c) (hs : s.head? ≠ some c) :
    dropPrefix? p s = none := by
  cases p with
  | nil => simp at hp
  | cons a as =>
    cases s with
    | nil => rfl
    | cons d ds =>
      simp at hp hs
      subst hp
      simp [dropPrefix?, Ne.symm hs]

theorem takeWhile_append_stop {p : Char → Bool} {l r : Str} {c : Char} (hl : l.all p = true) (hc : p c = false) :
    (l ++ c :: r).takeWhile p = l := by
  induction l with
  | nil => simp [List.takeWhile, hc]
  | cons a as ih =>
    simp only [List.all_cons, Bool.and_eq_true] at hl
    simp [List.takeWhile, hl.1, ih hl.2]

theorem dropWhile_append_stop' {p : Char → Bool} {l r : Str} {c : Char} (hl : l.all p = true) (hc : p c = false) :
    (l ++ c :: r).dropWhile p = c :: r := by
  rw [dropWhile_append_all hl]; simp [List.dropWhile, hc]

theorem tailMatch_lit {ln fn : Str} (h1 : ln ≠ []) (h2 : ln.all isDigit = true) (h3 : fn ≠ []) :
    tailMatch (litB ++ (ln ++ (litC ++ fn))) = some (ln, fn) := by
  unfold tailMatch
  rw [dropPrefix?_append]
  have hc : litC ++ fn = ',' :: (" in ".toList ++ fn) := rfl
  simp only
  rw [hc, takeWhile_append_stop h2 isDigit_comma, dropWhile_append_stop' h2 isDigit_comma, ← hc,
    dropPrefix?_append]
  simp [h1, h3]

theorem tailMatchSE_lit {ln r : Str} {c : Char} (h1 : ln ≠ []) (h2 : ln.all isDigit = true) (hc : isDigit c = false) :
    tailMatchSE (litB ++ (ln ++ c :: r)) = some (ln, []) := by
  unfold tailMatchSE
  rw [dropPrefix?_append]
  simp only
  rw [takeWhile_append_stop h2 hc]
  simp [h1]

theorem tailMatch_none_of_head {s : Str} (h : s.head? ≠ some '"') : tailMatch s = none := by
  unfold tailMatch
  rw [dropPrefix?_none_of_head (p := litB) (c := '"') rfl h]

theorem tailMatch_sound {s ln fn : Str} (h : tailMatch s = some (ln, fn)) :
    s = litB ++ (ln ++ (litC ++ fn)) ∧ ln ≠ [] ∧ ln.all isDigit = true ∧ fn ≠ [] := by
  unfold tailMatch at h
  split at h
  · simp at h
  · rename_i r hr
    have hs := dropPrefix?_sound hr
    split at h
    · simp at h
    · rename_i hne
      split at h
      · simp at h
      · rename_i fn' hfn
        have h2 := dropPrefix?_sound hfn
        split at h
        · simp at h
        · rename_i hfne
          simp only [Option.some.injEq, Prod.mk.injEq] at h
          obtain ⟨rfl, rfl⟩ := h
          refine ⟨?_, hne, ?_, hfne⟩
          · rw [hs, ← h2, List.takeWhile_append_dropWhile]
          · simp [List.all_eq_true]

theorem findLast_none_of_noTail {s : Str} (h : noTail s = true) : findLast tailMatch s = none := by
  induction s with
  | nil => rfl
  | cons c cs ih =>
    simp only [noTail, Bool.and_eq_true, Option.isNone_iff_eq_none] at h
    simp [findLast, ih h.2, h.1]

theorem findLast_pre {tm : Str → Option (Str × Str)} {s : Str} {x : Str × Str} (pre : Str)
    (h : findLast tm s = some ([], x)) : findLast tm (pre ++ s) = some (pre, x) := by
  induction pre with
  | nil => simpa using h
  | cons c cs ih => simp [findLast, ih]

theorem findLast_here {tm : Str → Option (Str × Str)} {c : Char} {cs : Str} {x : Str × Str}
    (h1 : tm (c :: cs) = some x) (h2 : findLast tm cs = none) : findLast tm (c :: cs) = some ([], x) := by
  simp [findLast, h1, h2]

theorem noTail_append_of_noQuote {a b : Str} (ha : ∀ c ∈ a, c ≠ '"') (hb : noTail b = true) :
    noTail (a ++ b) = true := by
  induction a with
  | nil => simpa using hb
  | cons c cs ih =>
    have hc : c ≠ '"' := ha c (by simp)
    have : tailMatch (c :: (cs ++ b)) = none := tailMatch_none_of_head (by simp [hc])
    simp [noTail, this, ih (fun d hd => ha d (by simp [hd]))]

theorem digit_ne_quote {c : Char} (h : isDigit c = true) : c ≠ '"' := by
  intro hc; subst hc; rw [isDigit_quote] at h; simp at h

/-- the scanner recovers the three groups of `_frame_re` from a rendered frame line -/
theorem matchFrame_render {file ln fn : Str} (hf : file ≠ []) (h1 : ln ≠ []) (h2 : ln.all isDigit = true)
    (h3 : fn ≠ []) (h4 : noTail fn = true) :
    matchFrame (litA ++ (file ++ (litB ++ (ln ++ (litC ++ fn))))) = some ⟨file, ln, fn, []⟩ := by
  unfold matchFrame matchWith
  rw [dropPrefix?_append]
  have htm := tailMatch_lit h1 h2 h3
  have hrest : findLast tailMatch (", line ".toList ++ (ln ++ (litC ++ fn))) = none := by
    apply findLast_none_of_noTail
    rw [← List.append_assoc, ← List.append_assoc]
    apply noTail_append_of_noQuote _ h4
    intro c hc
    simp only [List.mem_append] at hc
    rcases hc with (hc | hc) | hc
    · revert hc; revert c; decide
    · exact digit_ne_quote (List.all_eq_true.mp h2 c hc)
    · revert hc; revert c; decide
  have hhere : findLast tailMatch (litB ++ (ln ++ (litC ++ fn))) = some ([], (ln, fn)) :=
    findLast_here (c := '"') htm hrest
  simp only
  rw [findLast_pre file hhere]
  simp [hf]

theorem matchWith_none_of_prefix {tm : Str → Option (Str × Str)} {l : Str} (h : dropPrefix? litA l = none) :
    matchWith tm l = none := by
  unfold matchWith; rw [h]

end C16
