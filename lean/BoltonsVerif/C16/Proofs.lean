import BoltonsVerif.C16.Model
/-
C16 — helper lemmas for Props.lean (core Lean only).
-/
namespace C16

/-! ## character-class facts (evaluated on the generated tables) -/

theorem sepCps_space : Gen.sepCps.all (inRanges Gen.spaceRanges) = true := by decide
theorem sepCps_not_digit : Gen.sepCps.all (fun n => !inRanges Gen.digitRanges n) = true := by decide

theorem isSpace_of_isSep {c : Char} (h : isSep c = true) : isSpace c = true := by
  unfold isSep at h
  have := List.all_eq_true.mp sepCps_space c.toNat (by simpa using h)
  exact this

theorem notSep_of_notSpace {c : Char} (h : notSpace c = true) : notSep c = true := by
  unfold notSpace at h; unfold notSep
  cases hs : isSep c with
  | false => rfl
  | true => rw [isSpace_of_isSep hs] at h; simp at h

theorem notSep_of_isDigit {c : Char} (h : isDigit c = true) : notSep c = true := by
  unfold notSep
  cases hs : isSep c with
  | false => rfl
  | true =>
    unfold isSep at hs
    have := List.all_eq_true.mp sepCps_not_digit c.toNat (by simpa using hs)
    unfold isDigit at h
    simp [h] at this

theorem isSpace_space : isSpace ' ' = true := by decide
theorem isSep_nl : isSep '\n' = true := by decide
theorem isSep_cr : isSep '\r' = true := by decide
theorem isSpace_nl : isSpace '\n' = true := by decide
theorem isDigit_quote : isDigit '"' = false := by decide
theorem isDigit_comma : isDigit ',' = false := by decide

theorem notSep_of_underline {c : Char} (h : isUnderlineChar c = true) : notSep c = true := by
  unfold isUnderlineChar at h
  simp at h
  rcases h with (h | h) | h <;> subst h <;> decide

/-! ## strip -/

theorem lstrip_of_first {s : Str} (h : firstNotSpace s = true) : lstrip s = s := by
  cases s with
  | nil => simp [firstNotSpace] at h
  | cons c cs =>
    simp only [firstNotSpace, notSpace, Bool.not_eq_eq_eq_not, Bool.not_true] at h
    simp [lstrip, List.dropWhile, h]

theorem lstrip_space_cons (s : Str) : lstrip (' ' :: s) = lstrip s := by
  simp [lstrip, List.dropWhile, isSpace_space]

theorem rstrip_of_last {s : Str} (h : lastNotSpace s = true) : rstrip s = s := by
  unfold lastNotSpace at h
  unfold rstrip
  have := lstrip_of_first h
  unfold lstrip at this
  rw [this, List.reverse_reverse]

theorem strip_of_first_last {s : Str} (h1 : firstNotSpace s = true) (h2 : lastNotSpace s = true) :
    strip s = s := by
  unfold strip; rw [lstrip_of_first h1, rstrip_of_last h2]

theorem lastNotSpace_append {a b : Str} (h : lastNotSpace b = true) : lastNotSpace (a ++ b) = true := by
  unfold lastNotSpace at *
  rw [List.reverse_append]
  cases hb : b.reverse with
  | nil => rw [hb] at h; simp [firstNotSpace] at h
  | cons c cs => rw [hb] at h; simpa [firstNotSpace] using h

theorem lastNotSpace_ne_nil {s : Str} (h : lastNotSpace s = true) : s ≠ [] := by
  intro hs; subst hs; simp [lastNotSpace, firstNotSpace] at h

theorem firstNotSpace_append {a b : Str} (h : firstNotSpace a = true) : firstNotSpace (a ++ b) = true := by
  cases a with
  | nil => simp [firstNotSpace] at h
  | cons c cs => simpa [firstNotSpace] using h

theorem all_of_dropWhile_nil {p : Char → Bool} {x : Str} (h : x.dropWhile p = []) : x.all p = true := by
  induction x with
  | nil => rfl
  | cons c cs ih =>
    simp only [List.dropWhile_cons] at h
    split at h
    · rename_i hc; simp [hc, ih h]
    · simp at h

theorem dropWhile_append_all {p : Char → Bool} {x y : Str} (h : x.all p = true) :
    (x ++ y).dropWhile p = y.dropWhile p := by
  induction x with
  | nil => rfl
  | cons c cs ih =>
    simp only [List.all_cons, Bool.and_eq_true] at h
    simp [List.dropWhile, h.1, ih h.2]

theorem dropWhile_append_stop {p : Char → Bool} {x y : Str} (h : x.dropWhile p ≠ []) :
    (x ++ y).dropWhile p = x.dropWhile p ++ y := by
  induction x with
  | nil => simp at h
  | cons c cs ih =>
    simp only [List.cons_append, List.dropWhile_cons] at h ⊢
    split
    · rename_i hc; simp only [hc, ↓reduceIte] at h; exact ih h
    · rfl

/-- stripping on the right does not reach into a prefix whose last character is not a space -/
theorem rstrip_append_left {a h : Str} (ha : lastNotSpace a = true) : rstrip (a ++ h) = a ++ rstrip h := by
  unfold rstrip
  rw [List.reverse_append]
  by_cases hh : h.reverse.dropWhile isSpace = []
  · have hall : h.reverse.all isSpace = true := all_of_dropWhile_nil hh
    rw [dropWhile_append_all hall, hh]
    have := rstrip_of_last ha
    unfold rstrip at this
    simp [this]
  · rw [dropWhile_append_stop hh]; simp

theorem rstrip_prefix (h : Str) : rstrip h <+: h := by
  unfold rstrip
  have := List.dropWhile_suffix (l := h.reverse) isSpace
  have := List.reverse_prefix.mpr this
  simpa using this

/-! ## prefix matching and the frame-line scanner -/

theorem dropPrefix?_append (p s : Str) : dropPrefix? p (p ++ s) = some s := by
  induction p with
  | nil => rfl
  | cons c cs ih => simp [dropPrefix?, ih]

theorem dropPrefix?_sound {p s r : Str} (h : dropPrefix? p s = some r) : s = p ++ r := by
  induction p generalizing s with
  | nil => simp [dropPrefix?] at h; simp [h]
  | cons c cs ih =>
    cases s with
    | nil => simp [dropPrefix?] at h
    | cons d ds =>
      simp only [dropPrefix?] at h
      split at h
      · rename_i hcd; subst hcd; rw [ih h]; rfl
      · simp at h

theorem dropPrefix?_none_of_head {p s : Str} {c : Char} (hp : p.head? = some c) (hs : s.head? ≠ some c) :
    dropPrefix? p s = none := by
  cases p with
  | nil => simp at hp
  | cons a as =>
    cases s with
    | nil => rfl
    | cons d ds =>
      simp at hp hs
      subst hp
      simp [dropPrefix?, Ne.symm hs]

theorem takeWhile_append_stop {p : Char → Bool} {l r : Str} {c : Char} (hl : l.all p = true) (hc : p c = false) :
    (l ++ c :: r).takeWhile p = l := by
  induction l with
  | nil => simp [List.takeWhile, hc]
  | cons a as ih =>
    simp only [List.all_cons, Bool.and_eq_true] at hl
    simp [List.takeWhile, hl.1, ih hl.2]

theorem dropWhile_append_stop' {p : Char → Bool} {l r : Str} {c : Char} (hl : l.all p = true) (hc : p c = false) :
    (l ++ c :: r).dropWhile p = c :: r := by
  rw [dropWhile_append_all hl]; simp [List.dropWhile, hc]

theorem tailMatch_lit {ln fn : Str} (h1 : ln ≠ []) (h2 : ln.all isDigit = true) (h3 : fn ≠ []) :
    tailMatch (litB ++ (ln ++ (litC ++ fn))) = some (ln, fn) := by
  unfold tailMatch
  rw [dropPrefix?_append]
  have hc : litC ++ fn = ',' :: (" in ".toList ++ fn) := rfl
  simp only
  rw [hc, takeWhile_append_stop h2 isDigit_comma, dropWhile_append_stop' h2 isDigit_comma, ← hc,
    dropPrefix?_append]
  simp [h1, h3]

theorem tailMatchSE_lit {ln r : Str} {c : Char} (h1 : ln ≠ []) (h2 : ln.all isDigit = true) (hc : isDigit c = false) :
    tailMatchSE (litB ++ (ln ++ c :: r)) = some (ln, []) := by
  unfold tailMatchSE
  rw [dropPrefix?_append]
  simp only
  rw [takeWhile_append_stop h2 hc]
  simp [h1]

theorem tailMatch_none_of_head {s : Str} (h : s.head? ≠ some '"') : tailMatch s = none := by
  unfold tailMatch
  rw [dropPrefix?_none_of_head (p := litB) (c := '"') rfl h]

theorem tailMatch_sound {s ln fn : Str} (h : tailMatch s = some (ln, fn)) :
    s = litB ++ (ln ++ (litC ++ fn)) ∧ ln ≠ [] ∧ ln.all isDigit = true ∧ fn ≠ [] := by
  unfold tailMatch at h
  split at h
  · simp at h
  · rename_i r hr
    have hs := dropPrefix?_sound hr
    split at h
    · simp at h
    · rename_i hne
      split at h
      · simp at h
      · rename_i fn' hfn
        have h2 := dropPrefix?_sound hfn
        split at h
        · simp at h
        · rename_i hfne
          simp only [Option.some.injEq, Prod.mk.injEq] at h
          obtain ⟨rfl, rfl⟩ := h
          refine ⟨?_, hne, ?_, hfne⟩
          · rw [hs, ← h2, List.takeWhile_append_dropWhile]
          · simp [List.all_eq_true]

theorem findLast_none_of_noTail {s : Str} (h : noTail s = true) : findLast tailMatch s = none := by
  induction s with
  | nil => rfl
  | cons c cs ih =>
    simp only [noTail, Bool.and_eq_true, Option.isNone_iff_eq_none] at h
    simp [findLast, ih h.2, h.1]

theorem findLast_pre {tm : Str → Option (Str × Str)} {s : Str} {x : Str × Str} (pre : Str)
    (h : findLast tm s = some ([], x)) : findLast tm (pre ++ s) = some (pre, x) := by
  induction pre with
  | nil => simpa using h
  | cons c cs ih => simp [findLast, ih]

theorem findLast_here {tm : Str → Option (Str × Str)} {c : Char} {cs : Str} {x : Str × Str}
    (h1 : tm (c :: cs) = some x) (h2 : findLast tm cs = none) : findLast tm (c :: cs) = some ([], x) := by
  simp [findLast, h1, h2]

theorem noTail_append_of_noQuote {a b : Str} (ha : ∀ c ∈ a, c ≠ '"') (hb : noTail b = true) :
    noTail (a ++ b) = true := by
  induction a with
  | nil => simpa using hb
  | cons c cs ih =>
    have hc : c ≠ '"' := ha c (by simp)
    have : tailMatch (c :: (cs ++ b)) = none := tailMatch_none_of_head (by simp [hc])
    simp [noTail, this, ih (fun d hd => ha d (by simp [hd]))]

theorem digit_ne_quote {c : Char} (h : isDigit c = true) : c ≠ '"' := by
  intro hc; subst hc; rw [isDigit_quote] at h; simp at h

/-- the scanner recovers the three groups of `_frame_re` from a rendered frame line -/
theorem matchFrame_render {file ln fn : Str} (hf : file ≠ []) (h1 : ln ≠ []) (h2 : ln.all isDigit = true)
    (h3 : fn ≠ []) (h4 : noTail fn = true) :
    matchFrame (litA ++ (file ++ (litB ++ (ln ++ (litC ++ fn))))) = some ⟨file, ln, fn, []⟩ := by
  unfold matchFrame matchWith
  rw [dropPrefix?_append]
  have htm := tailMatch_lit h1 h2 h3
  have hrest : findLast tailMatch (", line ".toList ++ (ln ++ (litC ++ fn))) = none := by
    apply findLast_none_of_noTail
    rw [← List.append_assoc, ← List.append_assoc]
    apply noTail_append_of_noQuote _ h4
    intro c hc
    simp only [List.mem_append] at hc
    rcases hc with (hc | hc) | hc
    · revert hc; revert c; decide
    · exact digit_ne_quote (List.all_eq_true.mp h2 c hc)
    · revert hc; revert c; decide
  have hhere : findLast tailMatch (litB ++ (ln ++ (litC ++ fn))) = some ([], (ln, fn)) :=
    findLast_here (c := '"') htm hrest
  simp only
  rw [findLast_pre file hhere]
  simp [hf]

theorem matchWith_none_of_prefix {tm : Str → Option (Str × Str)} {l : Str} (h : dropPrefix? litA l = none) :
    matchWith tm l = none := by
  unfold matchWith; rw [h]

/-! ## splitlines / join / split -/

theorem ne_cr_of_notSep {c : Char} (h : notSep c = true) : c ≠ '\r' := by
  intro hc; subst hc; simp [notSep, isSep_cr] at h

theorem splitlinesGo_line {l t : Str} (hl : l.all notSep = true) :
    splitlinesGo false (l ++ '\n' :: t) = l :: splitlinesGo false t := by
  induction l with
  | nil =>
    have : ('\n' : Char) ≠ '\r' := by decide
    simp [splitlinesGo, isSep_nl, this]
  | cons c cs ih =>
    simp only [List.all_cons, Bool.and_eq_true] at hl
    have h1 := ne_cr_of_notSep hl.1
    have h2 : isSep c = false := by simpa [notSep] using hl.1
    simp [splitlinesGo, h1, h2, ih hl.2]

theorem splitlinesGo_last {l : Str} (hne : l ≠ []) (hl : l.all notSep = true) :
    splitlinesGo false l = [l] := by
  induction l with
  | nil => simp at hne
  | cons c cs ih =>
    simp only [List.all_cons, Bool.and_eq_true] at hl
    have h1 := ne_cr_of_notSep hl.1
    have h2 : isSep c = false := by simpa [notSep] using hl.1
    cases cs with
    | nil => simp [splitlinesGo, h1, h2]
    | cons d ds =>
      have := ih (by simp) hl.2
      simp [splitlinesGo, h1, h2] at this ⊢
      rw [this]

theorem splitlinesGo_line_end {l : Str} (hl : l.all notSep = true) :
    splitlinesGo false (l ++ ['\n']) = [l] := by
  rw [splitlinesGo_line hl]; rfl

/-- splitting the joined lines gives the lines back: no separator inside a line, last line non-empty -/
theorem splitlines_joinNL {ls : List Str} {last : Str} (hall : ∀ l ∈ ls, l.all notSep = true)
    (hlast : ls.getLast? = some last) (hne : last ≠ []) : splitlines (joinNL ls) = ls := by
  unfold splitlines
  induction ls with
  | nil => simp at hlast
  | cons l rest ih =>
    cases rest with
    | nil =>
      simp at hlast; subst hlast
      simp only [joinNL]
      exact splitlinesGo_last hne (hall l (by simp))
    | cons m rest' =>
      simp only [joinNL]
      rw [splitlinesGo_line (hall l (by simp))]
      rw [ih (fun x hx => hall x (by simp [hx])) (by simpa using hlast)]

/-- the same with the interpreter's final newline (the last line may then be anything) -/
theorem splitlines_joinNL_nl {ls : List Str} (hall : ∀ l ∈ ls, l.all notSep = true) (hne : ls ≠ []) :
    splitlines (joinNL ls ++ ['\n']) = ls := by
  unfold splitlines
  induction ls with
  | nil => simp at hne
  | cons l rest ih =>
    cases rest with
    | nil =>
      simp only [joinNL]
      exact splitlinesGo_line_end (hall l (by simp))
    | cons m rest' =>
      simp only [joinNL, List.cons_append, List.append_assoc]
      rw [splitlinesGo_line (hall l (by simp))]
      have := ih (fun x hx => hall x (by simp [hx])) (by simp)
      rw [this]

theorem splitNL_ne_nil (s : Str) : splitNL s ≠ [] := by
  cases s with
  | nil => simp [splitNL]
  | cons c cs =>
    simp only [splitNL]
    split
    · simp
    · split <;> simp

theorem joinNL_cons_of_ne {l : Str} {rest : List Str} (h : rest ≠ []) :
    joinNL (l :: rest) = l ++ '\n' :: joinNL rest := by
  cases rest with
  | nil => simp at h
  | cons m r => rfl

theorem joinNL_splitNL (s : Str) : joinNL (splitNL s) = s := by
  induction s with
  | nil => rfl
  | cons c cs ih =>
    simp only [splitNL]
    split
    · rename_i hc; subst hc
      rw [joinNL_cons_of_ne (splitNL_ne_nil cs), ih]; rfl
    · split
      · rename_i h; exact absurd h (splitNL_ne_nil cs)
      · rename_i l ls h
        rw [h] at ih
        cases ls with
        | nil => simp only [joinNL] at ih ⊢; rw [ih]
        | cons m r => simp only [joinNL] at ih ⊢; rw [← ih]; rfl

theorem joinNL_append_splitNL (a : List Str) (x : Str) : joinNL (a ++ splitNL x) = joinNL (a ++ [x]) := by
  induction a with
  | nil => simp [joinNL_splitNL, joinNL]
  | cons l rest ih =>
    rw [List.cons_append, List.cons_append, joinNL_cons_of_ne (by simp [splitNL_ne_nil]),
      joinNL_cons_of_ne (by simp), ih]

/-- lines of `split('\n')` contain no `\n`; with `msgCharOK` characters they contain no separator at all -/
theorem splitNL_lines_notSep {s : Str} (h : s.all msgCharOK = true) : ∀ l ∈ splitNL s, l.all notSep = true := by
  induction s with
  | nil => simp [splitNL]
  | cons c cs ih =>
    simp only [List.all_cons, Bool.and_eq_true] at h
    have ih := ih h.2
    simp only [splitNL]
    split
    · intro l hl
      simp only [List.mem_cons] at hl
      rcases hl with rfl | hl
      · rfl
      · exact ih l hl
    · rename_i hc
      have hcs : notSep c = true := by
        have := h.1; simp only [msgCharOK, Bool.or_eq_true, decide_eq_true_eq] at this
        rcases this with h' | h'
        · exact h'
        · exact absurd h' hc
      split
      · intro l hl; simp at hl; subst hl; simp [hcs]
      · rename_i l ls hsp
        intro x hx
        simp only [List.mem_cons] at hx
        rcases hx with rfl | hx
        · have := ih l (by rw [hsp]; simp)
          simp [hcs, this]
        · exact ih x (by rw [hsp]; simp [hx])

theorem splitNL_getLast_ne_nil {s : Str} (hne : s ≠ []) (hl : s.getLast? ≠ some '\n') :
    ∃ last, (splitNL s).getLast? = some last ∧ last ≠ [] := by
  induction s with
  | nil => simp at hne
  | cons c cs ih =>
    cases cs with
    | nil =>
      have hc : c ≠ '\n' := by simpa using hl
      refine ⟨[c], ?_, by simp⟩
      simp [splitNL, hc]
    | cons d ds =>
      have hl' : (d :: ds).getLast? ≠ some '\n' := by simpa [List.getLast?_cons_cons] using hl
      obtain ⟨last, h1, h2⟩ := ih (by simp) hl'
      by_cases hc : c = '\n'
      · refine ⟨last, ?_, h2⟩
        have e : splitNL (c :: d :: ds) = [] :: splitNL (d :: ds) := by rw [splitNL]; simp only [hc, ↓reduceIte]
        rw [e, List.getLast?_cons, h1]; rfl
      · cases hsp : splitNL (d :: ds) with
        | nil => exact absurd hsp (splitNL_ne_nil _)
        | cons l ls =>
          have e : splitNL (c :: d :: ds) = (c :: l) :: ls := by rw [splitNL]; simp only [hc, ↓reduceIte, hsp]
          rw [e]
          rw [hsp] at h1
          cases ls with
          | nil => exact ⟨c :: l, rfl, by simp⟩
          | cons m r => exact ⟨last, by simpa [List.getLast?_cons_cons] using h1, h2⟩

theorem splitNL_append_noNL {a : Str} (t : Str) (ha : ∀ c ∈ a, c ≠ '\n') :
    splitNL (a ++ t) = (a ++ (splitNL t).head (splitNL_ne_nil t)) :: (splitNL t).tail := by
  induction a with
  | nil => simp
  | cons c cs ih =>
    have hc : c ≠ '\n' := ha c (by simp)
    have ih := ih (fun d hd => ha d (by simp [hd]))
    simp only [List.cons_append, splitNL, hc, ↓reduceIte]
    rw [ih]

/-! ## partition(': '), trailers -/

theorem partitionCS_noSpace {a : Str} (m : Str) (ha : a.all notSpace = true) :
    partitionCS (a ++ (colonSp ++ m)) = (a, some m) := by
  induction a with
  | nil => simp [colonSp, partitionCS]
  | cons c cs ih =>
    simp only [List.all_cons, Bool.and_eq_true] at ha
    have ih := ih ha.2
    have hhead : (cs ++ (colonSp ++ m)).head? ≠ some ' ' := by
      cases cs with
      | nil => simp [colonSp]
      | cons d ds =>
        simp only [List.all_cons, Bool.and_eq_true] at ha
        intro h
        simp only [List.cons_append, List.head?_cons, Option.some.injEq] at h
        have := ha.2.1; rw [h] at this; simp [notSpace, isSpace_space] at this
    rw [List.cons_append, partitionCS, if_neg (fun h => hhead h.2), ih]

theorem partitionCS_none {a : Str} (ha : a.all notSpace = true) : partitionCS a = (a, none) := by
  induction a with
  | nil => rfl
  | cons c cs ih =>
    simp only [List.all_cons, Bool.and_eq_true] at ha
    have ih := ih ha.2
    have hhead : cs.head? ≠ some ' ' := by
      cases cs with
      | nil => simp
      | cons d ds =>
        simp only [List.all_cons, Bool.and_eq_true] at ha
        intro h
        simp only [List.head?_cons, Option.some.injEq] at h
        have := ha.2.1; rw [h] at this; simp [notSpace, isSpace_space] at this
    rw [partitionCS, if_neg (fun h => hhead h.2), ih]

theorem excParts_excLine {etype msg : Str} (h : etype.all notSpace = true) :
    excParts (splitNL (excLine etype msg)) = (etype, msg) := by
  unfold excParts
  rw [joinNL_splitNL]
  unfold excLine
  split
  · rename_i hm; subst hm; rw [partitionCS_none h]; rfl
  · rw [partitionCS_noSpace msg h]; rfl

theorem dropTrailers_of_last {ls : List Str} {last : Str} (h : ls.getLast? = some last)
    (ht : isTrailer last = false) : dropTrailers ls = ls := by
  unfold dropTrailers
  have : ls.reverse = last :: ls.reverse.tail := by
    have h2 : ls.reverse.head? = some last := by rw [List.head?_reverse]; exact h
    cases hr : ls.reverse with
    | nil => rw [hr] at h2; simp at h2
    | cons x xs => rw [hr] at h2; simp at h2; subst h2; rfl
  rw [this, dropTrailersRev]
  simp only [ht, Bool.false_eq_true, ↓reduceIte]
  rw [← this, List.reverse_reverse]

/-! ## the line that ends the frame loop (first line of the exception part) -/

theorem dropPrefix_litA_none {a t : Str} (hne : a ≠ []) (ha : a.all notSpace = true)
    (ht : t = [] ∨ t.head? = some ':') : dropPrefix? litA (a ++ t) = none := by
  cases hd : dropPrefix? litA (a ++ t) with
  | none => rfl
  | some r =>
    exfalso
    have h := dropPrefix?_sound hd
    have hsp : ∀ c ∈ a, c ≠ ' ' := by
      intro c hc hcs
      have := List.all_eq_true.mp ha c hc
      subst hcs
      simp [notSpace, isSpace_space] at this
    have hl : litA = ['F', 'i', 'l', 'e', ' ', '"'] := rfl
    rw [hl] at h
    match a, hne, hsp with
    | [a1], _, _ =>
      rcases ht with rfl | ht
      · simp at h
      · cases t with
        | nil => simp at ht
        | cons t1 ts => simp at ht; subst ht; simp at h
    | [a1, a2], _, _ =>
      rcases ht with rfl | ht
      · simp at h
      · cases t with
        | nil => simp at ht
        | cons t1 ts => simp at ht; subst ht; simp at h
    | [a1, a2, a3], _, _ =>
      rcases ht with rfl | ht
      · simp at h
      · cases t with
        | nil => simp at ht
        | cons t1 ts => simp at ht; subst ht; simp at h
    | [a1, a2, a3, a4], _, _ =>
      rcases ht with rfl | ht
      · simp at h
      · cases t with
        | nil => simp at ht
        | cons t1 ts => simp at ht; subst ht; simp at h
    | a1 :: a2 :: a3 :: a4 :: a5 :: as, _, hsp =>
      simp at h
      exact hsp a5 (by simp) h.2.2.2.2.1

/-- a line `a ++ h`: `a` a non-empty run of non-space characters, not all `~`/`^`, and `h` empty or starting with `:` -/
structure ExcHead (l : Str) : Prop where
  notUnderline : isUnderline l = false
  noFrame : matchFrame (strip l) = none
  noIndent : startsWithSpace l = false

theorem excHead_of {a h : Str} (hne : a ≠ []) (ha : a.all notSpace = true)
    (hu : a.any (fun c => !isUnderlineChar c) = true) (hh : h = [] ∨ h.head? = some ':') : ExcHead (a ++ h) := by
  have hfirst : firstNotSpace a = true := by
    cases a with
    | nil => simp at hne
    | cons c cs => simp only [List.all_cons, Bool.and_eq_true] at ha; simpa [firstNotSpace] using ha.1
  have hlast : lastNotSpace a = true := by
    unfold lastNotSpace
    cases hr : a.reverse with
    | nil => simp at hr; exact absurd hr hne
    | cons c cs =>
      have : c ∈ a := by rw [← List.mem_reverse, hr]; simp
      simpa [firstNotSpace] using List.all_eq_true.mp ha c this
  refine ⟨?_, ?_, ?_⟩
  · simp only [isUnderline, List.all_append, Bool.and_eq_false_imp]
    intro hall
    exfalso
    simp only [List.any_eq_true] at hu
    obtain ⟨c, hc, hcu⟩ := hu
    have := List.all_eq_true.mp hall c hc
    simp [this] at hcu
  · unfold strip
    rw [lstrip_of_first (firstNotSpace_append hfirst), rstrip_append_left hlast]
    apply matchWith_none_of_prefix
    apply dropPrefix_litA_none hne ha
    rcases hh with rfl | hh
    · left; simp [rstrip]
    · by_cases hr : rstrip h = []
      · left; exact hr
      · right
        obtain ⟨t, ht⟩ := rstrip_prefix h
        cases hrs : rstrip h with
        | nil => exact absurd hrs hr
        | cons x xs => rw [hrs] at ht; rw [← ht] at hh; simpa using hh
  · cases a with
    | nil => simp at hne
    | cons c cs =>
      simp only [List.all_cons, Bool.and_eq_true] at ha
      simp only [List.cons_append, startsWithSpace]
      split
      · rename_i heq
        simp only [List.cons.injEq] at heq
        have := ha.1; rw [heq.1] at this; simp [notSpace, isSpace_space] at this
      · rfl

theorem splitNL_head_of_ne_nl {c : Char} (r : Str) (hc : c ≠ '\n') :
    ((splitNL (c :: r)).head (splitNL_ne_nil _)).head? = some c := by
  have : ∃ l ls, splitNL (c :: r) = (c :: l) :: ls := by
    rw [splitNL]; simp only [hc, ↓reduceIte]
    split
    · exact ⟨[], [], rfl⟩
    · rename_i l ls _; exact ⟨l, ls, rfl⟩
  obtain ⟨l, ls, h⟩ := this
  simp [h]

/-- the first line of the rendered exception part ends the frame loop -/
theorem excHead_excLine {etype msg : Str} (hne : etype ≠ []) (ha : etype.all notSpace = true)
    (hu : etype.any (fun c => !isUnderlineChar c) = true) :
    ∃ e1 E, splitNL (excLine etype msg) = e1 :: E ∧ ExcHead e1 := by
  have hnl : ∀ c ∈ etype, c ≠ '\n' := by
    intro c hc hcn
    have := List.all_eq_true.mp ha c hc
    subst hcn
    simp [notSpace, isSpace_nl] at this
  unfold excLine
  split
  · have := splitNL_append_noNL [] hnl
    rw [List.append_nil] at this
    exact ⟨_, _, this, excHead_of hne ha hu (Or.inl (by simp [splitNL]))⟩
  · rw [splitNL_append_noNL _ hnl]
    refine ⟨_, _, rfl, excHead_of hne ha hu (Or.inr ?_)⟩
    exact splitNL_head_of_ne_nl _ (by decide)

/-! ## the frame loop on rendered frames -/

theorem parseLoop_cons_some {re : Str → Option Frame} {l : Str} {rest : List Str} {fd : Frame}
    (h : re (strip l) = some fd) :
    parseLoop re (l :: rest) =
      ({ fd with src := (takeSource re rest).1 } :: (parseLoop re (skipUnderline (takeSource re rest).2)).1,
       (parseLoop re (skipUnderline (takeSource re rest).2)).2) := by
  rw [parseLoop]; simp only [h]

theorem parseLoop_cons_none {re : Str → Option Frame} {l : Str} {rest : List Str}
    (h : re (strip l) = none) : parseLoop re (l :: rest) = ([], l :: rest) := by
  rw [parseLoop]; simp only [h]

/-- a line after which a frame has no source line and no marker line: not indented or itself a frame
    line, and not made of `~ ^` and spaces only -/
structure StopLine (l : Str) : Prop where
  notUnderline : isUnderline l = false
  boundary : (matchFrame (strip l)).isSome = true ∨ startsWithSpace l = false

theorem StopLine.of_excHead {l : Str} (h : ExcHead l) : StopLine l := ⟨h.notUnderline, Or.inr h.noIndent⟩

theorem frameLine_eq (f : Frame) :
    frameLine f = ' ' :: ' ' :: (litA ++ (f.file ++ (litB ++ (f.lineno ++ (litC ++ f.func))))) := by
  simp [frameLine, ind2, List.append_assoc]

theorem WFframe_parts {f : Frame} (h : WFframe f = true) :
    f.file ≠ [] ∧ f.file.all notSep = true ∧ f.lineno ≠ [] ∧ f.lineno.all isDigit = true ∧
    f.func.all notSep = true ∧ lastNotSpace f.func = true ∧ noTail f.func = true ∧ WFsrc f.src = true := by
  simp only [WFframe, Bool.and_eq_true, bne_iff_ne, ne_eq] at h
  obtain ⟨⟨⟨⟨⟨⟨⟨h1, h2⟩, h3⟩, h4⟩, h5⟩, h6⟩, h7⟩, h8⟩ := h
  exact ⟨h1, h2, h3, h4, h5, h6, h7, h8⟩

theorem strip_frameLine {f : Frame} (h : WFframe f = true) :
    strip (frameLine f) = litA ++ (f.file ++ (litB ++ (f.lineno ++ (litC ++ f.func)))) := by
  obtain ⟨_, _, _, _, _, h6, _, _⟩ := WFframe_parts h
  rw [frameLine_eq]
  unfold strip
  rw [lstrip_space_cons, lstrip_space_cons, lstrip_of_first (by rfl)]
  apply rstrip_of_last
  rw [← List.append_assoc, ← List.append_assoc, ← List.append_assoc, ← List.append_assoc]
  exact lastNotSpace_append h6

theorem matchFrame_frameLine {f : Frame} (h : WFframe f = true) :
    matchFrame (strip (frameLine f)) = some ⟨f.file, f.lineno, f.func, []⟩ := by
  rw [strip_frameLine h]
  obtain ⟨h1, _, h3, h4, _, h6, h7, _⟩ := WFframe_parts h
  exact matchFrame_render h1 h3 h4 (lastNotSpace_ne_nil h6) h7

theorem isUnderline_frameLine (f : Frame) : isUnderline (frameLine f) = false := by
  rw [frameLine_eq]
  simp [isUnderline, litA, isUnderlineChar]

theorem stopLine_frameLine {f : Frame} (h : WFframe f = true) : StopLine (frameLine f) :=
  ⟨isUnderline_frameLine f, Or.inl (by rw [matchFrame_frameLine h]; rfl)⟩

theorem takeSource_stop {nl : Str} {L : List Str} (h : StopLine nl) :
    takeSource matchFrame (nl :: L) = ([], nl :: L) := by
  unfold takeSource
  rcases h.boundary with hb | hb
  · simp [hb]
  · simp [hb]

theorem skipUnderline_stop {nl : Str} {L : List Str} (h : StopLine nl) : skipUnderline (nl :: L) = nl :: L := by
  unfold skipUnderline
  simp [h.notUnderline]

theorem WFsrc_parts {s : Str} (h : WFsrc s = true) (hne : s ≠ []) :
    s.all notSep = true ∧ firstNotSpace s = true ∧ lastNotSpace s = true ∧ matchFrame s = none := by
  simp only [WFsrc, hne, decide_false, Bool.false_or, Bool.and_eq_true, Option.isNone_iff_eq_none] at h
  obtain ⟨⟨⟨h1, h2⟩, h3⟩, h4⟩ := h
  exact ⟨h1, h2, h3, h4⟩

theorem strip_ind4 {s : Str} (h1 : firstNotSpace s = true) (h2 : lastNotSpace s = true) : strip (ind4 ++ s) = s := by
  have : ind4 ++ s = ' ' :: ' ' :: ' ' :: ' ' :: s := rfl
  rw [this]
  unfold strip
  rw [lstrip_space_cons, lstrip_space_cons, lstrip_space_cons, lstrip_space_cons, lstrip_of_first h1, rstrip_of_last h2]

theorem takeSource_src {s : Str} {L : List Str} (h : WFsrc s = true) (hne : s ≠ []) :
    takeSource matchFrame ((ind4 ++ s) :: L) = (s, L) := by
  obtain ⟨_, h2, h3, h4⟩ := WFsrc_parts h hne
  unfold takeSource
  simp only [strip_ind4 h2 h3, h4]
  have : startsWithSpace (ind4 ++ s) = true := rfl
  simp [this]

/-- one rendered frame (with or without source line, with or without marker line) followed by a stop line -/
theorem parseLoop_frame {f : Frame} {a : Option Str} {nl : Str} {L : List Str}
    (hf : WFframe f = true) (ha : WFanchor a = true) (hs : StopLine nl) :
    parseLoop matchFrame (frameLinesA (f, a) ++ nl :: L) =
      (f :: (parseLoop matchFrame (nl :: L)).1, (parseLoop matchFrame (nl :: L)).2) := by
  obtain ⟨_, _, _, _, _, _, _, h8⟩ := WFframe_parts hf
  unfold frameLinesA
  by_cases hsrc : f.src = []
  · simp only [hsrc, ↓reduceIte, List.cons_append, List.nil_append]
    rw [parseLoop_cons_some (matchFrame_frameLine hf), takeSource_stop hs, skipUnderline_stop hs]
    have : ({ file := f.file, lineno := f.lineno, func := f.func, src := ([] : Str) } : Frame) = f := by
      cases f; simp_all
    simp [this]
  · simp only [hsrc, ↓reduceIte]
    have hfr : ({ file := f.file, lineno := f.lineno, func := f.func, src := f.src } : Frame) = f := by cases f; rfl
    cases a with
    | none =>
      simp only [List.cons_append, List.nil_append]
      rw [parseLoop_cons_some (matchFrame_frameLine hf), takeSource_src h8 hsrc, skipUnderline_stop hs]
    | some u =>
      simp only [List.cons_append, List.nil_append]
      rw [parseLoop_cons_some (matchFrame_frameLine hf), takeSource_src h8 hsrc]
      have hu : isUnderline u = true := ha
      simp [skipUnderline, hu, hfr]

theorem frameLinesA_head (fa : Frame × Option Str) : ∃ r, frameLinesA fa = frameLine fa.1 :: r := by
  unfold frameLinesA
  split
  · exact ⟨_, rfl⟩
  · split <;> exact ⟨_, rfl⟩

/-- all rendered frames followed by the exception lines: the loop returns exactly the frames and leaves the
    exception lines -/
theorem parseLoop_frames (fas : List (Frame × Option Str)) {e1 : Str} {E : List Str}
    (hall : ∀ fa ∈ fas, WFframe fa.1 = true ∧ WFanchor fa.2 = true) (he : ExcHead e1) :
    parseLoop matchFrame (fas.flatMap frameLinesA ++ e1 :: E) = (fas.map (·.1), e1 :: E) := by
  induction fas with
  | nil => simpa using parseLoop_cons_none he.noFrame
  | cons fa rest ih =>
    have ih := ih (fun x hx => hall x (by simp [hx]))
    have hfa := hall fa (by simp)
    have hstop : ∃ nl L, rest.flatMap frameLinesA ++ e1 :: E = nl :: L ∧ StopLine nl := by
      cases rest with
      | nil => exact ⟨e1, E, by simp, StopLine.of_excHead he⟩
      | cons fb rest' =>
        obtain ⟨r, hr⟩ := frameLinesA_head fb
        refine ⟨frameLine fb.1, r ++ (rest'.flatMap frameLinesA ++ e1 :: E), ?_, stopLine_frameLine (hall fb (by simp)).1⟩
        simp [hr]
    obtain ⟨nl, L, hL, hs⟩ := hstop
    rw [List.flatMap_cons, List.append_assoc, hL]
    have := parseLoop_frame (f := fa.1) (a := fa.2) (L := L) hfa.1 hfa.2 hs
    rw [this, ← hL, ih]
    simp

/-! ## from_string on a rendered text -/

theorem all_notSep_append {a b : Str} (ha : a.all notSep = true) (hb : b.all notSep = true) :
    (a ++ b).all notSep = true := by simp [ha, hb]

theorem frameLine_notSep {f : Frame} (h : WFframe f = true) : (frameLine f).all notSep = true := by
  obtain ⟨_, h2, _, h4, h5, _, _, _⟩ := WFframe_parts h
  have hd : f.lineno.all notSep = true := by
    rw [List.all_eq_true] at h4 ⊢
    intro c hc; exact notSep_of_isDigit (h4 c hc)
  unfold frameLine
  have e1 : ind2.all notSep = true := by decide
  have e2 : litA.all notSep = true := by decide
  have e3 : litB.all notSep = true := by decide
  have e4 : litC.all notSep = true := by decide
  simp [e1, e2, e3, e4, h2, hd, h5]

theorem frameLinesA_notSep {fa : Frame × Option Str} (hf : WFframe fa.1 = true) (ha : WFanchor fa.2 = true) :
    ∀ l ∈ frameLinesA fa, l.all notSep = true := by
  obtain ⟨_, _, _, _, _, _, _, h8⟩ := WFframe_parts hf
  have hfl := frameLine_notSep hf
  unfold frameLinesA
  by_cases hsrc : fa.1.src = []
  · simp only [hsrc, ↓reduceIte]
    intro l hl; simp at hl; subst hl; exact hfl
  · obtain ⟨hs, _, _, _⟩ := WFsrc_parts h8 hsrc
    have e1 : ind4.all notSep = true := by decide
    have hsl : (ind4 ++ fa.1.src).all notSep = true := all_notSep_append e1 hs
    simp only [hsrc, ↓reduceIte]
    cases ha2 : fa.2 with
    | none => intro l hl; simp at hl; rcases hl with rfl | rfl <;> assumption
    | some u =>
      have hu : isUnderline u = true := by rw [ha2] at ha; exact ha
      have hul : u.all notSep = true := by
        unfold isUnderline at hu
        rw [List.all_eq_true] at hu ⊢
        intro c hc; exact notSep_of_underline (hu c hc)
      intro l hl; simp at hl; rcases hl with rfl | rfl | rfl <;> assumption

theorem WFexc_parts {etype msg : Str} (h : WFexc etype msg = true) :
    etype ≠ [] ∧ etype.all notSpace = true ∧ etype.any (fun c => !isUnderlineChar c) = true ∧
    msg.all msgCharOK = true ∧ msg.getLast? ≠ some '\n' ∧ isTrailer (lastLine (excLine etype msg)) = false := by
  simp only [WFexc, Bool.and_eq_true, bne_iff_ne, ne_eq, Bool.not_eq_true'] at h
  obtain ⟨⟨⟨⟨⟨h1, h2⟩, h3⟩, h4⟩, h5⟩, h6⟩ := h
  exact ⟨h1, h2, h3, h4, h5, h6⟩

theorem excLine_msgCharOK {etype msg : Str} (h1 : etype.all notSpace = true) (h2 : msg.all msgCharOK = true) :
    (excLine etype msg).all msgCharOK = true := by
  have he : etype.all msgCharOK = true := by
    rw [List.all_eq_true] at h1 ⊢
    intro c hc
    simp [msgCharOK, notSep_of_notSpace (h1 c hc)]
  unfold excLine
  split
  · exact he
  · have : colonSp.all msgCharOK = true := by decide
    simp [he, this, h2]

theorem excLine_last {etype msg : Str} (h0 : etype ≠ []) (h1 : etype.all notSpace = true)
    (h2 : msg.getLast? ≠ some '\n') : excLine etype msg ≠ [] ∧ (excLine etype msg).getLast? ≠ some '\n' := by
  have het : etype.getLast? ≠ some '\n' := by
    intro h
    have hm : '\n' ∈ etype := List.mem_of_getLast? h
    have := List.all_eq_true.mp h1 _ hm
    simp [notSpace, isSpace_nl] at this
  unfold excLine
  split
  · exact ⟨h0, het⟩
  · rename_i hm
    refine ⟨by simp [h0], ?_⟩
    rw [← List.append_assoc, List.getLast?_append]
    cases hg : msg.getLast? with
    | none => simp at hg; exact absurd hg hm
    | some c => rw [hg] at h2; simpa using h2

/-- the lines `tb_str.lstrip().splitlines()` of a rendered text, and what from_string makes of them -/
theorem fromLinesF_rendered (fas : List (Frame × Option Str)) (etype msg : Str)
    (h : WFtextA fas etype msg = true) :
    fromLinesF (header :: (fas.flatMap frameLinesA ++ splitNL (excLine etype msg))) =
      .ok (.tb, ⟨fas.map (·.1), etype, msg⟩) := by
  simp only [WFtextA, Bool.and_eq_true, List.all_eq_true] at h
  obtain ⟨hfas, hexc⟩ := h
  obtain ⟨h1, h2, h3, h4, h5, h6⟩ := WFexc_parts hexc
  obtain ⟨e1, E, hsplit, hhead⟩ := excHead_excLine (msg := msg) h1 h2 h3
  obtain ⟨hne, hlast⟩ := excLine_last (msg := msg) h1 h2 h5
  obtain ⟨last, hl1, hl2⟩ := splitNL_getLast_ne_nil hne hlast
  have hLS : (header :: (fas.flatMap frameLinesA ++ splitNL (excLine etype msg))).getLast? = some last := by
    rw [List.getLast?_cons, List.getLast?_append, hl1]; rfl
  have htr : isTrailer last = false := by
    unfold lastLine at h6; rw [hl1] at h6; exact h6
  unfold fromLinesF
  rw [dropTrailers_of_last hLS htr]
  have hh : strip header = header := strip_of_first_last (by rfl) (by rfl)
  simp only [hh, ↓reduceIte]
  rw [hsplit, parseLoop_frames fas (fun fa hfa => by simpa using hfas fa hfa) hhead, ← hsplit,
    excParts_excLine h2]

theorem rendered_lines_notSep (fas : List (Frame × Option Str)) (etype msg : Str)
    (h : WFtextA fas etype msg = true) :
    ∀ l ∈ header :: (fas.flatMap frameLinesA ++ splitNL (excLine etype msg)), l.all notSep = true := by
  simp only [WFtextA, Bool.and_eq_true, List.all_eq_true] at h
  obtain ⟨hfas, hexc⟩ := h
  obtain ⟨_, h2, _, h4, _, _⟩ := WFexc_parts hexc
  intro l hl
  simp only [List.mem_cons, List.mem_append, List.mem_flatMap] at hl
  rcases hl with rfl | ⟨fa, hfa, hl⟩ | hl
  · decide
  · have := hfas fa hfa
    exact frameLinesA_notSep (by simpa using this.1) (by simpa using this.2) l hl
  · exact splitNL_lines_notSep (excLine_msgCharOK h2 h4) l hl

theorem toStringA_eq (fas : List (Frame × Option Str)) (etype msg : Str) :
    toStringA fas etype msg = joinNL (header :: (fas.flatMap frameLinesA ++ splitNL (excLine etype msg))) := by
  unfold toStringA toLinesA
  have := joinNL_append_splitNL (header :: fas.flatMap frameLinesA) (excLine etype msg)
  simpa using this.symm

theorem toStringA_first (fas : List (Frame × Option Str)) (etype msg : Str) :
    firstNotSpace (toStringA fas etype msg) = true := by
  unfold toStringA toLinesA
  rw [joinNL_cons_of_ne (by simp)]
  exact firstNotSpace_append (by rfl)

theorem fromStringF_rendered (fas : List (Frame × Option Str)) (etype msg : Str)
    (h : WFtextA fas etype msg = true) :
    fromStringF (toStringA fas etype msg) = .ok (.tb, ⟨fas.map (·.1), etype, msg⟩) := by
  unfold fromStringF
  rw [lstrip_of_first (toStringA_first fas etype msg), toStringA_eq]
  have hw := h
  simp only [WFtextA, Bool.and_eq_true, List.all_eq_true] at hw
  obtain ⟨_, hexc⟩ := hw
  obtain ⟨h1, h2, _, _, h5, _⟩ := WFexc_parts hexc
  obtain ⟨hne, hlast⟩ := excLine_last (msg := msg) h1 h2 h5
  obtain ⟨last, hl1, hl2⟩ := splitNL_getLast_ne_nil hne hlast
  have hLS : (header :: (fas.flatMap frameLinesA ++ splitNL (excLine etype msg))).getLast? = some last := by
    rw [List.getLast?_cons, List.getLast?_append, hl1]; rfl
  rw [splitlines_joinNL (rendered_lines_notSep fas etype msg h) hLS hl2]
  exact fromLinesF_rendered fas etype msg h

theorem fromStringF_rendered_nl (fas : List (Frame × Option Str)) (etype msg : Str)
    (h : WFtextA fas etype msg = true) :
    fromStringF (toStringA fas etype msg ++ ['\n']) = .ok (.tb, ⟨fas.map (·.1), etype, msg⟩) := by
  unfold fromStringF
  rw [lstrip_of_first (firstNotSpace_append (toStringA_first fas etype msg)), toStringA_eq]
  rw [splitlines_joinNL_nl (rendered_lines_notSep fas etype msg h) (by simp)]
  exact fromLinesF_rendered fas etype msg h

/-! ## clause 2: strip algebra and the traceback layout -/

theorem rstrip_nil : rstrip [] = [] := rfl

theorem rstrip_cons (c : Char) (cs : Str) :
    rstrip (c :: cs) = if rstrip cs = [] then (if isSpace c then [] else [c]) else c :: rstrip cs := by
  unfold rstrip
  rw [List.reverse_cons]
  by_cases h : cs.reverse.dropWhile isSpace = []
  · rw [dropWhile_append_all (all_of_dropWhile_nil h)]
    simp only [h, List.reverse_nil, ↓reduceIte]
    by_cases hc : isSpace c = true
    · simp [List.dropWhile, hc]
    · simp [List.dropWhile, hc]
  · rw [dropWhile_append_stop h]
    simp [h]

theorem lstrip_cons (c : Char) (cs : Str) : lstrip (c :: cs) = if isSpace c then lstrip cs else c :: cs := by
  simp [lstrip, List.dropWhile]
  split <;> simp_all

theorem lstrip_nil_of_rstrip_nil {s : Str} (h : rstrip s = []) : lstrip s = [] := by
  induction s with
  | nil => rfl
  | cons c cs ih =>
    rw [rstrip_cons] at h
    split at h
    · rename_i hcs
      split at h
      · rename_i hc; rw [lstrip_cons]; simp [hc, ih hcs]
      · simp at h
    · simp at h

/-- stripping left and right commute -/
theorem rstrip_lstrip_comm (s : Str) : rstrip (lstrip s) = lstrip (rstrip s) := by
  induction s with
  | nil => rfl
  | cons c cs ih =>
    by_cases hc : isSpace c = true
    · rw [lstrip_cons]; simp only [hc, ↓reduceIte]
      rw [rstrip_cons]
      by_cases hr : rstrip cs = []
      · simp only [hr, ↓reduceIte, hc]
        rw [lstrip_nil_of_rstrip_nil hr]; rfl
      · simp only [hr, ↓reduceIte]
        rw [lstrip_cons]; simp only [hc, ↓reduceIte]
        exact ih
    · have hcf : isSpace c = false := by simpa using hc
      rw [lstrip_cons]; simp only [hcf, Bool.false_eq_true, ↓reduceIte]
      rw [rstrip_cons]
      split
      · simp [hcf, lstrip_cons]
      · simp [hcf, lstrip_cons]

theorem dropWhile_head_not {p : Char → Bool} {l cs : Str} {c : Char} (h : l.dropWhile p = c :: cs) : p c = false := by
  induction l with
  | nil => simp at h
  | cons d ds ih =>
    rw [List.dropWhile_cons] at h
    split at h
    · exact ih h
    · rename_i hd
      simp only [List.cons.injEq] at h
      rw [← h.1]; simpa using hd

theorem rstrip_last_or_nil (s : Str) : rstrip s = [] ∨ lastNotSpace (rstrip s) = true := by
  unfold rstrip lastNotSpace
  rw [List.reverse_reverse]
  cases h : s.reverse.dropWhile isSpace with
  | nil => left; rfl
  | cons c cs =>
    right
    have := dropWhile_head_not h
    simp [firstNotSpace, notSpace, this]

theorem lstrip_first_or_nil (s : Str) : lstrip s = [] ∨ firstNotSpace (lstrip s) = true := by
  unfold lstrip
  cases h : s.dropWhile isSpace with
  | nil => left; rfl
  | cons c cs =>
    right
    have := dropWhile_head_not h
    simp [firstNotSpace, notSpace, this]

theorem rstrip_idem (s : Str) : rstrip (rstrip s) = rstrip s := by
  rcases rstrip_last_or_nil s with h | h
  · rw [h]; rfl
  · exact rstrip_of_last h

theorem strip_idem (s : Str) : strip (strip s) = strip s := by
  have h1 : strip s = [] ∨ lastNotSpace (strip s) = true := rstrip_last_or_nil _
  have h2 : strip s = [] ∨ firstNotSpace (strip s) = true := by
    unfold strip; rw [rstrip_lstrip_comm]; exact lstrip_first_or_nil _
  rcases h1 with h1 | h1
  · rw [h1]; rfl
  · rcases h2 with h2 | h2
    · rw [h2]; rfl
    · exact strip_of_first_last h2 h1

theorem strip_rstrip (s : Str) : strip (rstrip s) = strip s := by
  unfold strip
  rw [rstrip_lstrip_comm, rstrip_idem, ← rstrip_lstrip_comm]

theorem rstrip_nil_iff_strip_nil (s : Str) : rstrip s = [] ↔ strip s = [] := by
  unfold strip
  rw [rstrip_lstrip_comm]
  constructor
  · intro h; rw [h]; rfl
  · intro h
    rcases rstrip_last_or_nil s with h' | h'
    · exact h'
    · -- a non-empty rstrip ends in a non-space, so its lstrip is non-empty
      exfalso
      have hall : (rstrip s).all isSpace = true := all_of_dropWhile_nil h
      unfold lastNotSpace at h'
      cases hr : (rstrip s).reverse with
      | nil => rw [hr] at h'; simp [firstNotSpace] at h'
      | cons c cs =>
        rw [hr] at h'
        have hm : c ∈ rstrip s := by rw [← List.mem_reverse, hr]; simp
        have := List.all_eq_true.mp hall c hm
        simp [firstNotSpace, notSpace, this] at h'

/-- Callpoint.tb_frame_str prints what the traceback module prints for one entry -/
theorem tbFrameStr_eq_std (c : Callpoint) : tbFrameStr c = stdFrameStr c := by
  unfold tbFrameStr stdFrameStr
  by_cases h : rstrip c.line = []
  · have := (rstrip_nil_iff_strip_nil c.line).mp h
    simp [h, this]
  · have : strip c.line ≠ [] := fun h' => h ((rstrip_nil_iff_strip_nil c.line).mpr h')
    simp [h, this, strip_rstrip, strip_idem]

theorem stdLoop_noLongRun (last : Option Callpoint) (count : Nat) (fs : List Callpoint)
    (hc : count ≤ 3) (h : noLongRunFrom last count fs = true) :
    stdLoop last count fs = fs.flatMap stdFrameStr := by
  induction fs generalizing last count with
  | nil => simp [stdLoop, flushRepeat]; omega
  | cons f fs ih =>
    have hfl : flushRepeat count = [] := by simp [flushRepeat]; omega
    cases last with
    | none =>
      simp only [noLongRunFrom, ↓reduceIte] at h
      simp only [stdLoop, ↓reduceIte]
      rw [hfl, ih (some f) 1 (by omega) h]
      simp
    | some l =>
      by_cases hs : sameSite l f = true
      · simp only [noLongRunFrom, hs, Bool.not_true, Bool.false_eq_true, ↓reduceIte, Bool.and_eq_true,
          decide_eq_true_eq] at h
        have : ¬ (count + 1 > 3) := by omega
        simp only [stdLoop, hs, Bool.not_true, Bool.false_eq_true, ↓reduceIte, this]
        rw [ih (some l) (count + 1) h.1 h.2]
        simp
      · have hs' : sameSite l f = false := by simpa using hs
        simp only [noLongRunFrom, hs', Bool.not_false, ↓reduceIte] at h
        simp only [stdLoop, hs', Bool.not_false, ↓reduceIte]
        rw [hfl, ih (some f) 1 (by omega) h]
        simp

/-! ## a traceback text without exception line (format_stack / TracebackInfo.get_formatted output) -/

theorem isTrailer_space (l : Str) : isTrailer (' ' :: l) = false := by
  have : trailerPre = 'E' :: "xception ".toList := rfl
  simp [isTrailer, this, List.isPrefixOf]

theorem parseLoop_nil (re : Str → Option Frame) : parseLoop re [] = ([], []) := by
  rw [parseLoop]

/-- the last frame of a text that ends in a frame (+ source line) -/
theorem parseLoop_last_frame {f : Frame} (hf : WFframe f = true) :
    parseLoop matchFrame (frameLines f) = ([f], []) := by
  obtain ⟨_, _, _, _, _, _, _, h8⟩ := WFframe_parts hf
  unfold frameLines
  by_cases hsrc : f.src = []
  · simp only [hsrc, ↓reduceIte]
    rw [parseLoop_cons_some (matchFrame_frameLine hf)]
    simp only [takeSource, skipUnderline, parseLoop_nil]
    have : ({ file := f.file, lineno := f.lineno, func := f.func, src := ([] : Str) } : Frame) = f := by
      cases f; simp_all
    rw [this]
  · simp only [hsrc, ↓reduceIte]
    rw [parseLoop_cons_some (matchFrame_frameLine hf), takeSource_src h8 hsrc]
    simp only [skipUnderline, parseLoop_nil]

theorem parseLoop_stack (frames : List Frame) (hall : ∀ f ∈ frames, WFframe f = true) :
    parseLoop matchFrame (frames.flatMap frameLines) = (frames, []) := by
  induction frames with
  | nil => simp [parseLoop_nil]
  | cons f rest ih =>
    have ih := ih (fun x hx => hall x (by simp [hx]))
    have hf := hall f (by simp)
    cases rest with
    | nil => simpa using parseLoop_last_frame hf
    | cons g rest' =>
      have hg := hall g (by simp)
      have hfl : frameLines f = frameLinesA (f, none) := by
        unfold frameLines frameLinesA; split <;> simp_all
      obtain ⟨r, hr⟩ : ∃ r, frameLines g = frameLine g :: r := by
        unfold frameLines; split <;> exact ⟨_, rfl⟩
      have hL : (g :: rest').flatMap frameLines = frameLine g :: (r ++ rest'.flatMap frameLines) := by
        simp [List.flatMap_cons, hr]
      rw [List.flatMap_cons, hfl, hL]
      rw [parseLoop_frame hf (by rfl) (stopLine_frameLine hg), ← hL, ih]

theorem frameLines_notSep {f : Frame} (hf : WFframe f = true) : ∀ l ∈ frameLines f, l.all notSep = true := by
  have hfl : frameLines f = frameLinesA (f, none) := by
    unfold frameLines frameLinesA; split <;> simp_all
  rw [hfl]; exact frameLinesA_notSep (fa := (f, none)) hf (by rfl)

theorem frameLines_last_ne_nil (f : Frame) : ∃ last, (frameLines f).getLast? = some last ∧ last ≠ [] := by
  unfold frameLines
  split
  · exact ⟨frameLine f, rfl, by rw [frameLine_eq]; simp⟩
  · exact ⟨ind4 ++ f.src, rfl, by simp [ind4]⟩

theorem fromStringF_stack (frames : List Frame) (hall : ∀ f ∈ frames, WFframe f = true) (hne : frames ≠ []) :
    fromStringF (joinNL (header :: frames.flatMap frameLines)) = .ok (.tb, ⟨frames, [], []⟩) := by
  obtain ⟨last, hlast, hlne⟩ : ∃ last, (header :: frames.flatMap frameLines).getLast? = some last ∧ last ≠ [] := by
    have hrev : frames.reverse ≠ [] := by simpa using hne
    cases hr : frames.reverse with
    | nil => exact absurd hr hrev
    | cons g rest =>
      have hfr : frames = rest.reverse ++ [g] := by
        have := congrArg List.reverse hr; simpa using this
      obtain ⟨last, h1, h2⟩ := frameLines_last_ne_nil g
      refine ⟨last, ?_, h2⟩
      rw [hfr, List.flatMap_append, List.getLast?_cons, List.getLast?_append]
      simp [h1]
  have hsep : ∀ l ∈ header :: frames.flatMap frameLines, l.all notSep = true := by
    intro l hl
    simp only [List.mem_cons, List.mem_flatMap] at hl
    rcases hl with rfl | ⟨f, hf, hl⟩
    · decide
    · exact frameLines_notSep (hall f hf) l hl
  have hfirst : firstNotSpace (joinNL (header :: frames.flatMap frameLines)) = true := by
    have : frames.flatMap frameLines ≠ [] := by
      intro h; rw [h] at hlast; simp at hlast
      have hsame : last = header := hlast.symm
      cases frames with
      | nil => exact hne rfl
      | cons f fs =>
        obtain ⟨l, h1, _⟩ := frameLines_last_ne_nil f
        have : frameLines f ≠ [] := by intro h'; rw [h'] at h1; simp at h1
        simp [List.flatMap_cons, this] at h
    rw [joinNL_cons_of_ne this]
    exact firstNotSpace_append (by rfl)
  have htr : isTrailer last = false := by
    -- the last line is a frame line or a source line: it starts with two spaces
    have hmem : last ∈ header :: frames.flatMap frameLines := List.mem_of_getLast? hlast
    simp only [List.mem_cons, List.mem_flatMap] at hmem
    rcases hmem with rfl | ⟨f, _, hl⟩
    · decide
    · unfold frameLines at hl
      split at hl
      · simp at hl; subst hl; rw [frameLine_eq]; exact isTrailer_space _
      · simp at hl
        rcases hl with rfl | rfl
        · rw [frameLine_eq]; exact isTrailer_space _
        · exact isTrailer_space _
  unfold fromStringF
  rw [lstrip_of_first hfirst, splitlines_joinNL hsep hlast hlne]
  unfold fromLinesF
  rw [dropTrailers_of_last hlast htr]
  have hh : strip header = header := strip_of_first_last (by rfl) (by rfl)
  simp only [hh, ↓reduceIte, parseLoop_stack frames hall]
  rfl

/-! ## the text-level predicate accepts every rendering of well-formed data -/

theorem splitNL_joinNL {ls : List Str} (hall : ∀ l ∈ ls, ∀ c ∈ l, c ≠ '\n') (hne : ls ≠ []) :
    splitNL (joinNL ls) = ls := by
  induction ls with
  | nil => simp at hne
  | cons l rest ih =>
    cases rest with
    | nil =>
      simp only [joinNL]
      have := splitNL_append_noNL [] (hall l (by simp))
      simpa [splitNL] using this
    | cons m rest' =>
      rw [joinNL_cons_of_ne (by simp), splitNL_append_noNL _ (hall l (by simp))]
      have e : splitNL ('\n' :: joinNL (m :: rest')) = [] :: splitNL (joinNL (m :: rest')) := by
        rw [splitNL]; simp
      simp only [e, List.head_cons, List.tail_cons, List.append_nil]
      rw [ih (fun x hx => hall x (by simp [hx])) (by simp)]

theorem no_nl_of_notSep {l : Str} (h : l.all notSep = true) : ∀ c ∈ l, c ≠ '\n' := by
  intro c hc hcn
  have := List.all_eq_true.mp h c hc
  subst hcn
  simp [notSep, isSep_nl] at this

theorem dropPrefix_ind2_none {l : Str} (h : startsWithSpace l = false) : dropPrefix? ind2 l = none := by
  cases l with
  | nil => rfl
  | cons c cs =>
    have hc : c ≠ ' ' := by
      intro hc; subst hc; simp [startsWithSpace] at h
    simp [ind2, dropPrefix?, Ne.symm hc]

theorem dropPrefix_ind4_frameLine (f : Frame) : dropPrefix? ind4 (frameLine f) = none := by
  rw [frameLine_eq]
  have : litA = 'F' :: "ile \"".toList := rfl
  simp [ind4, dropPrefix?, this]

theorem dropPrefix_ind2_frameLine (f : Frame) :
    dropPrefix? ind2 (frameLine f) = some (litA ++ (f.file ++ (litB ++ (f.lineno ++ (litC ++ f.func))))) := by
  rw [frameLine_eq]
  simp [ind2, dropPrefix?]

theorem matchFrame_body {f : Frame} (h : WFframe f = true) :
    matchFrame (litA ++ (f.file ++ (litB ++ (f.lineno ++ (litC ++ f.func))))) = some ⟨f.file, f.lineno, f.func, []⟩ := by
  obtain ⟨h1, _, h3, h4, _, h6, h7, _⟩ := WFframe_parts h
  exact matchFrame_render h1 h3 h4 (lastNotSpace_ne_nil h6) h7

/-- the layout reading recovers rendered frames followed by the exception lines -/
theorem readFrames_frames (frames : List Frame) {e1 : Str} {E : List Str}
    (hall : ∀ f ∈ frames, WFframe f = true) (he : startsWithSpace e1 = false) :
    readFrames (frames.flatMap frameLines ++ e1 :: E) = (frames, e1 :: E) := by
  induction frames with
  | nil =>
    simp only [List.flatMap_nil, List.nil_append]
    rw [readFrames, dropPrefix_ind2_none he]
  | cons f rest ih =>
    have ih := ih (fun x hx => hall x (by simp [hx]))
    have hf := hall f (by simp)
    obtain ⟨_, _, _, _, _, _, _, h8⟩ := WFframe_parts hf
    -- the line that follows this frame's lines is not indented by four spaces
    have hnext : ∃ nl L, rest.flatMap frameLines ++ e1 :: E = nl :: L ∧ dropPrefix? ind4 nl = none := by
      cases rest with
      | nil =>
        refine ⟨e1, E, by simp, ?_⟩
        cases e1 with
        | nil => rfl
        | cons c cs =>
          have hc : c ≠ ' ' := by intro hc; subst hc; simp [startsWithSpace] at he
          simp [ind4, dropPrefix?, Ne.symm hc]
      | cons g rest' =>
        obtain ⟨r, hr⟩ : ∃ r, frameLines g = frameLine g :: r := by
          unfold frameLines; split <;> exact ⟨_, rfl⟩
        exact ⟨frameLine g, r ++ (rest'.flatMap frameLines ++ e1 :: E), by simp [hr], dropPrefix_ind4_frameLine g⟩
    obtain ⟨nl, L, hL, hnl⟩ := hnext
    rw [List.flatMap_cons, List.append_assoc, hL]
    unfold frameLines
    by_cases hsrc : f.src = []
    · simp only [hsrc, ↓reduceIte, List.cons_append, List.nil_append]
      rw [readFrames, dropPrefix_ind2_frameLine]
      simp only [matchFrame_body hf, hnl]
      rw [← hL, ih]
      have : ({ file := f.file, lineno := f.lineno, func := f.func, src := ([] : Str) } : Frame) = f := by
        cases f; simp_all
      rw [this]
    · simp only [hsrc, ↓reduceIte, List.cons_append, List.nil_append]
      rw [readFrames, dropPrefix_ind2_frameLine]
      simp only [matchFrame_body hf, dropPrefix?_append]
      rw [← hL, ih]

theorem readText_toString (pe : PE) (h : WFpe pe = true) : readText (toString pe) = some pe := by
  simp only [WFpe, Bool.and_eq_true, List.all_eq_true] at h
  obtain ⟨hfr, hexc⟩ := h
  obtain ⟨h1, h2, h3, h4, h5, h6⟩ := WFexc_parts hexc
  obtain ⟨e1, E, hsplit, hhead⟩ := excHead_excLine (msg := pe.msg) h1 h2 h3
  have hlines : toString pe = joinNL (header :: (pe.frames.flatMap frameLines ++ splitNL (excLine pe.etype pe.msg))) := by
    unfold toString toLines
    have := joinNL_append_splitNL (header :: pe.frames.flatMap frameLines) (excLine pe.etype pe.msg)
    simpa using this.symm
  have hnonl : ∀ l ∈ header :: (pe.frames.flatMap frameLines ++ splitNL (excLine pe.etype pe.msg)),
      ∀ c ∈ l, c ≠ '\n' := by
    intro l hl
    apply no_nl_of_notSep
    simp only [List.mem_cons, List.mem_append, List.mem_flatMap] at hl
    rcases hl with rfl | ⟨f, hf, hl⟩ | hl
    · decide
    · exact frameLines_notSep (hfr f hf) l hl
    · exact splitNL_lines_notSep (excLine_msgCharOK h2 h4) l hl
  unfold readText
  rw [hlines, splitNL_joinNL hnonl (by simp)]
  simp only [↓reduceIte]
  rw [hsplit, readFrames_frames pe.frames hfr hhead.noIndent, ← hsplit]
  simp only [hsplit, List.cons_ne_nil, ↓reduceIte]   -- the exception part is not empty
  rw [← hsplit, excParts_excLine h2]

theorem WFtext_toString (pe : PE) (h : WFpe pe = true) : WFtext (toString pe) = true := by
  unfold WFtext
  rw [readText_toString pe h]
  simp [h]

/-! ## simple sufficient conditions -/

theorem noTail_of_noQuote {s : Str} (h : ∀ c ∈ s, c ≠ '"') : noTail s = true := by
  have := noTail_append_of_noQuote (a := s) (b := []) h rfl
  simpa using this

theorem matchFrame_none_of_head {s : Str} (h : s.head? ≠ some 'F') : matchFrame s = none :=
  matchWith_none_of_prefix (dropPrefix?_none_of_head (p := litA) (c := 'F') rfl h)

/-! ## glue used by Props -/

theorem toString_eq_toStringA (pe : PE) : toString pe = toStringA (noAnchors pe) pe.etype pe.msg := by
  unfold toString toStringA toLines toLinesA noAnchors
  congr 3
  induction pe.frames with
  | nil => rfl
  | cons f fs ih =>
    have : frameLines f = frameLinesA (f, none) := by
      unfold frameLines frameLinesA
      split <;> simp_all
    simp only [List.map_cons, List.flatMap_cons, ih, this]

theorem WFtextA_noAnchors (pe : PE) (h : WFpe pe = true) : WFtextA (noAnchors pe) pe.etype pe.msg = true := by
  simp only [WFpe, Bool.and_eq_true, List.all_eq_true] at h
  simp only [WFtextA, noAnchors, Bool.and_eq_true, List.all_eq_true, List.mem_map]
  refine ⟨?_, h.2⟩
  rintro fa ⟨f, hf, rfl⟩
  simp [h.1 f hf, WFanchor]

theorem fromStringF_noframes {t e1 : Str} {E : List Str}
    (h1 : dropTrailers (splitlines (lstrip t)) = header :: e1 :: E) (h2 : matchFrame (strip e1) = none) :
    fromString t = .ok ⟨[], (excParts (e1 :: E)).1, (excParts (e1 :: E)).2⟩ := by
  unfold fromString fromStringF fromLinesF
  have hh : strip header = header := strip_of_first_last (by rfl) (by rfl)
  simp only [h1, hh, ↓reduceIte, parseLoop_cons_none h2]
  rfl

theorem flatMap_tbFrameStr (frames : List Callpoint) : frames.flatMap tbFrameStr = frames.flatMap stdFrameStr := by
  induction frames with
  | nil => rfl
  | cons c cs ih => simp [List.flatMap_cons, tbFrameStr_eq_std, ih]

/-! ## the frame walk: linecache lookups of `_DeferredLine` and of the traceback module -/

set_option linter.unusedSimpArgs false in
/-- outside the one state `LookOK` excludes, checkcache + getline(with the loader) and
    lazycache + checkcache + getline(without globals) find the same line -/
theorem deferredRaw_eq_stdRaw (path : Str) (k : Look) (h : LookOK k = true) :
    deferredRaw path k = stdRaw path k := by
  obtain ⟨c, d, l⟩ := k
  unfold deferredRaw stdRaw
  cases c <;> cases d <;> cases l <;>
    simp only [LookOK, checkcache, lazycache, getline, updatecache] at h ⊢ <;>
    (try split) <;> (try split) <;> simp_all [lazycache, getline, updatecache, checkcache]

theorem walkB_eq_walkS (e : TbEntry) (h : LookOK e.look = true) : walkB e = walkS e := by
  unfold walkB walkS; rw [deferredRaw_eq_stdRaw _ _ h]

theorem map_walk_eq (tb : List TbEntry) (h : ∀ e ∈ tb, LookOK e.look = true) : tb.map walkB = tb.map walkS :=
  List.map_congr_left fun e he => walkB_eq_walkS e (h e he)

end C16
