import BoltonsVerif.C16.Proofs
/-
C16 — round-3 helper lemmas: the text ExceptionInfo.get_formatted produces is the text ParsedException.to_string
produces from the same data (so that from_string reads boltons' own reports back), and the exact extent of two
known findings.
-/
namespace C16

/-- TracebackInfo.get_formatted's loop is StackSummary.format's loop, entry for entry -/
theorem bLoop_eq_stdLoop (last : Option Callpoint) (count : Nat) (fs : List Callpoint) :
    bLoop last count fs = stdLoop last count fs := by
  induction fs generalizing last count with
  | nil => simp [bLoop, stdLoop]
  | cons f fs ih =>
    simp only [bLoop, stdLoop, tbFrameStr_eq_std, ih]
    split
    · rfl
    · by_cases h : count + 1 ≤ 3
      · have h' : ¬ (count + 1 > 3) := by omega
        simp [h, h']
      · have h' : count + 1 > 3 := by omega
        simp [h, h']

/-- while no run is longer than 3 the loop prints every entry -/
theorem bLoop_noLongRun (frames : List Callpoint) (h : NoLongRun frames = true) :
    bLoop none 0 frames = frames.flatMap tbFrameStr := by
  rw [bLoop_eq_stdLoop, stdLoop_noLongRun none 0 frames (by omega) h, flatMap_tbFrameStr]

/-- the frame record from_string should recover from what Callpoint.tb_frame_str prints -/
def cpFrame (c : Callpoint) : Frame := ⟨c.path, natStr c.lineno, c.func, strip (rstrip c.line)⟩

/-- the parsed exception that corresponds to an ExceptionInfo -/
def peOf (frames : List Callpoint) (etype msg : Str) : PE := ⟨frames.map cpFrame, etype, msg⟩

/-- every line followed by `\n` -/
def unlines (ls : List Str) : Str := ls.flatMap fun l => l ++ ['\n']

theorem joinNL_unlines (ls : List Str) (e : Str) : joinNL (ls ++ [e]) = unlines ls ++ e := by
  induction ls with
  | nil => simp [joinNL, unlines]
  | cons a as ih =>
    cases as with
    | nil => simp [joinNL, unlines]
    | cons b bs =>
      simp only [List.cons_append, joinNL] at ih ⊢
      rw [ih]
      simp [unlines, List.flatMap_cons, List.append_assoc]

theorem unlines_append (a b : List Str) : unlines (a ++ b) = unlines a ++ unlines b := by
  simp [unlines, List.flatMap_append]

theorem unlines_flatMap {α : Type} (f : α → List Str) (xs : List α) :
    unlines (xs.flatMap f) = xs.flatMap fun x => unlines (f x) := by
  induction xs with
  | nil => rfl
  | cons x xs ih => simp [List.flatMap_cons, unlines_append, ih]

theorem tbFrameStr_eq_unlines (c : Callpoint) : tbFrameStr c = unlines (frameLines (cpFrame c)) := by
  unfold tbFrameStr frameLines cpFrame
  by_cases h : rstrip c.line = []
  · have h2 : strip ([] : Str) = [] := rfl
    simp [h, h2, unlines, cpHead, frameLine, List.append_assoc]
  · have h2 : strip (rstrip c.line) ≠ [] := by
      rw [strip_rstrip]
      intro h3
      exact h ((rstrip_nil_iff_strip_nil c.line).mpr h3)
    simp [h, h2, unlines, cpHead, frameLine, List.append_assoc]

theorem flatMap_tbFrameStr_unlines (frames : List Callpoint) :
    frames.flatMap tbFrameStr = (frames.map cpFrame).flatMap fun x => unlines (frameLines x) := by
  induction frames with
  | nil => rfl
  | cons c cs ih => simp [List.flatMap_cons, tbFrameStr_eq_unlines, ih]

/-- ExceptionInfo.get_formatted prints exactly what ParsedException.to_string prints for the corresponding data -/
theorem eiFormat_eq_toString (frames : List Callpoint) (etype msg : Str) (hr : NoLongRun frames = true) :
    eiFormat frames etype msg = toString (peOf frames etype msg) := by
  unfold eiFormat tbInfoFormat toString toLines peOf
  rw [bLoop_noLongRun frames hr]
  simp only
  have : header :: ((frames.map cpFrame).flatMap frameLines ++ [excLine etype msg])
      = (header :: (frames.map cpFrame).flatMap frameLines) ++ [excLine etype msg] := by simp
  rw [this, joinNL_unlines]
  have hx : eiExcOnly etype msg = excLine etype msg := rfl
  rw [hx]
  congr 1
  show headerNL ++ _ = unlines (header :: _)
  have : unlines (header :: (frames.map cpFrame).flatMap frameLines)
      = headerNL ++ unlines ((frames.map cpFrame).flatMap frameLines) := by
    simp [unlines, headerNL, List.flatMap_cons]
  rw [this, unlines_flatMap]
  congr 1
  exact flatMap_tbFrameStr_unlines frames


/-! ## exact extent of the 'Exception ... ignored' finding -/

theorem splitNL_append_nl (a b : Str) : splitNL (a ++ '\n' :: b) = splitNL a ++ splitNL b := by
  induction a with
  | nil => simp [splitNL]
  | cons c cs ih =>
    simp only [List.cons_append, splitNL]
    split
    · simp [ih]
    · rw [ih]
      cases h : splitNL cs with
      | nil => exact absurd h (splitNL_ne_nil cs)
      | cons l ls => simp

theorem splitNL_of_notSep {l : Str} (h : l.all notSep = true) : splitNL l = [l] := by
  induction l with
  | nil => rfl
  | cons c cs ih =>
    simp only [List.all_cons, Bool.and_eq_true] at h
    have hc : c ≠ '\n' := no_nl_of_notSep (l := [c]) (by simp [h.1]) c (by simp)
    simp [splitNL, hc, ih h.2]

theorem dropTrailers_append_trailer (ls : List Str) {tl : Str} (h : isTrailer tl = true) :
    dropTrailers (ls ++ [tl]) = dropTrailers ls := by
  unfold dropTrailers
  simp [dropTrailersRev, h]

theorem fromLinesF_congr {a b : List Str} (h : dropTrailers a = dropTrailers b) : fromLinesF a = fromLinesF b := by
  unfold fromLinesF
  simp only [h]

/-- a standard-format text whose (non-empty) message is followed by one more message line of the form
    `Exception ... ignored`: from_string returns everything but that line -/
theorem fromStringF_rendered_trailer (fas : List (Frame × Option Str)) (etype msg tl : Str)
    (h : WFtextA fas etype msg = true) (hm : msg ≠ []) (ht : isTrailer tl = true) (hs : tl.all notSep = true) :
    fromStringF (toStringA fas etype (msg ++ '\n' :: tl)) = .ok (.tb, ⟨fas.map (·.1), etype, msg⟩) := by
  have htne : tl ≠ [] := by
    intro h0; subst h0; revert ht; decide
  have he : excLine etype (msg ++ '\n' :: tl) = excLine etype msg ++ '\n' :: tl := by
    simp [excLine, hm, List.append_assoc]
  have htext : toStringA fas etype (msg ++ '\n' :: tl)
      = joinNL ((header :: (fas.flatMap frameLinesA ++ splitNL (excLine etype msg))) ++ [tl]) := by
    rw [toStringA_eq, he, splitNL_append_nl, splitNL_of_notSep hs]
    simp [List.append_assoc]
  unfold fromStringF
  rw [lstrip_of_first (toStringA_first fas etype _), htext]
  have hall : ∀ l ∈ (header :: (fas.flatMap frameLinesA ++ splitNL (excLine etype msg))) ++ [tl],
      l.all notSep = true := by
    intro l hl
    rcases List.mem_append.mp hl with hl | hl
    · exact rendered_lines_notSep fas etype msg h l hl
    · simp only [List.mem_singleton] at hl; subst hl; exact hs
  have hlast : ((header :: (fas.flatMap frameLinesA ++ splitNL (excLine etype msg))) ++ [tl]).getLast? = some tl :=
    List.getLast?_concat ..
  rw [splitlines_joinNL hall (last := tl) hlast htne,
      fromLinesF_congr (dropTrailers_append_trailer _ ht)]
  exact fromLinesF_rendered fas etype msg h

end C16
