import BoltonsVerif.C16.Proofs
/-
C16 — round-3 helper lemmas: the text ExceptionInfo.get_formatted produces is the text ParsedException.to_string
produces from the same data (so that from_string reads boltons' own reports back), and the exact extent of two
known findings.
-/
namespace C16

/-- TracebackInfo.get_formatted's loop is StackSummary.format's loop, entry for entry -/
theorem bLoop_eq_stdLoop (last : Option Callpoint) (count : Nat) (fs : List Callpoint) :
    bLoop last count fs = stdLoop last count fs := by
  induction fs generalizing last count with
  | nil => simp [bLoop, stdLoop]
  | cons f fs ih =>
    simp only [bLoop, stdLoop, tbFrameStr_eq_std, ih]
    split
    · rfl
    · by_cases h : count + 1 ≤ 3
      · have h' : ¬ (count + 1 > 3) := by omega
        simp [h, h']
      · have h' : count + 1 > 3 := by omega
        simp [h, h']

/-- while no run is longer than 3 the loop prints every entry -/
theorem bLoop_noLongRun (frames : List Callpoint) (h : NoLongRun frames = true) :
    bLoop none 0 frames = frames.flatMap tbFrameStr := by
  rw [bLoop_eq_stdLoop, stdLoop_noLongRun none 0 frames (by omega) h, flatMap_tbFrameStr]

/-- the frame record from_string should recover from what Callpoint.tb_frame_str prints -/
def cpFrame (c : Callpoint) : Frame := ⟨c.path, natStr c.lineno, c.func, strip (rstrip c.line)⟩

/-- the parsed exception that corresponds to an ExceptionInfo -/
def peOf (frames : List Callpoint) (etype msg : Str) : PE := ⟨frames.map cpFrame, etype, msg⟩

/-- every line followed by `\n` -/
def unlines (ls : List Str) : Str := ls.flatMap fun l => l ++ ['\n']

theorem joinNL_unlines (ls : List Str) (e : Str) : joinNL (ls ++ [e]) = unlines ls ++ e := by
  induction ls with
  | nil => simp [joinNL, unlines]
  | cons a as ih =>
    cases as with
    | nil => simp [joinNL, unlines]
    | cons b bs =>
      simp only [List.cons_append, joinNL] at ih ⊢
      rw [ih]
      simp [unlines, List.flatMap_cons, List.append_assoc]

theorem unlines_append (a b : List Str) : unlines (a ++ b) = unlines a ++ unlines b := by
  simp [unlines, List.flatMap_append]

theorem unlines_flatMap {α : Type} (f : α → List Str) (xs : List α) :
    unlines (xs.flatMap f) = xs.flatMap fun x => unlines (f x) := by
  induction xs with
  | nil => rfl
  | cons x xs ih => simp [List.flatMap_cons, unlines_append, ih]

theorem tbFrameStr_eq_unlines (c : Callpoint) : tbFrameStr c = unlines (frameLines (cpFrame c)) := by
  unfold tbFrameStr frameLines cpFrame
  by_cases h : rstrip c.line = []
  · have h2 : strip ([] : Str) = [] := rfl
    simp [h, h2, unlines, cpHead, frameLine, List.append_assoc]
  · have h2 : strip (rstrip c.line) ≠ [] := by
      rw [strip_rstrip]
      intro h3
      exact h ((rstrip_nil_iff_strip_nil c.line).mpr h3)
    simp [h, h2, unlines, cpHead, frameLine, List.append_assoc]

theorem flatMap_tbFrameStr_unlines (frames : List Callpoint) :
    frames.flatMap tbFrameStr = (frames.map cpFrame).flatMap fun x => unlines (frameLines x) := by
  induction frames with
  | nil => rfl
  | cons c cs ih => simp [List.flatMap_cons, tbFrameStr_eq_unlines, ih]

/-- ExceptionInfo.get_formatted prints exactly what ParsedException.to_string prints for the corresponding data -/
theorem eiFormat_eq_toString (frames : List Callpoint) (etype msg : Str) (hr : NoLongRun frames = true) :
    eiFormat frames etype msg = toString (peOf frames etype msg) := by
  unfold eiFormat tbInfoFormat toString toLines peOf
  rw [bLoop_noLongRun frames hr]
  simp only
  have : header :: ((frames.map cpFrame).flatMap frameLines ++ [excLine etype msg])
      = (header :: (frames.map cpFrame).flatMap frameLines) ++ [excLine etype msg] := by simp
  rw [this, joinNL_unlines]
  have hx : eiExcOnly etype msg = excLine etype msg := rfl
  rw [hx]
  congr 1
  show headerNL ++ _ = unlines (header :: _)
  have : unlines (header :: (frames.map cpFrame).flatMap frameLines)
      = headerNL ++ unlines ((frames.map cpFrame).flatMap frameLines) := by
    simp [unlines, headerNL, List.flatMap_cons]
  rw [this, unlines_flatMap]
  congr 1
  exact flatMap_tbFrameStr_unlines frames


/-! ## exact extent of the 'Exception ... ignored' finding -/

theorem splitNL_append_nl (a b : Str) : splitNL (a ++ '\n' :: b) = splitNL a ++ splitNL b := by
  induction a with
  | nil => simp [splitNL]
  | cons c cs ih =>
    simp only [List.cons_append, splitNL]
    split
    · simp [ih]
    · rw [ih]
      cases h : splitNL cs with
      | nil => exact absurd h (splitNL_ne_nil cs)
      | cons l ls => simp

theorem splitNL_of_notSep {l : Str} (h : l.all notSep = true) : splitNL l = [l] := by
  induction l with
  | nil => rfl
  | cons c cs ih =>
    simp only [List.all_cons, Bool.and_eq_true] at h
    have hc : c ≠ '\n' := no_nl_of_notSep (l := [c]) (by simp [h.1]) c (by simp)
    simp [splitNL, hc, ih h.2]

theorem dropTrailers_append_trailer (ls : List Str) {tl : Str} (h : isTrailer tl = true) :
    dropTrailers (ls ++ [tl]) = dropTrailers ls := by
  unfold dropTrailers
  simp [dropTrailersRev, h]

theorem fromLinesF_congr {a b : List Str} (h : dropTrailers a = dropTrailers b) : fromLinesF a = fromLinesF b := by
  unfold fromLinesF
  simp only [h]

/-- a standard-format text whose (non-empty) message is followed by one more message line of the form
    `Exception ... ignored`: from_string returns everything but that line -/
theorem fromStringF_rendered_trailer (fas : List (Frame × Option Str)) (etype msg tl : Str)
    (h : WFtextA fas etype msg = true) (hm : msg ≠ []) (ht : isTrailer tl = true) (hs : tl.all notSep = true) :
    fromStringF (toStringA fas etype (msg ++ '\n' :: tl)) = .ok (.tb, ⟨fas.map (·.1), etype, msg⟩) := by
  have htne : tl ≠ [] := by
    intro h0; subst h0; revert ht; decide
  have he : excLine etype (msg ++ '\n' :: tl) = excLine etype msg ++ '\n' :: tl := by
    simp [excLine, hm, List.append_assoc]
  have htext : toStringA fas etype (msg ++ '\n' :: tl)
      = joinNL ((header :: (fas.flatMap frameLinesA ++ splitNL (excLine etype msg))) ++ [tl]) := by
    rw [toStringA_eq, he, splitNL_append_nl, splitNL_of_notSep hs]
    simp [List.append_assoc]
  unfold fromStringF
  rw [lstrip_of_first (toStringA_first fas etype _), htext]
  have hall : ∀ l ∈ (header :: (fas.flatMap frameLinesA ++ splitNL (excLine etype msg))) ++ [tl],
      l.all notSep = true := by
    intro l hl
    rcases List.mem_append.mp hl with hl | hl
    · exact rendered_lines_notSep fas etype msg h l hl
    · simp only [List.mem_singleton] at hl; subst hl; exact hs
  have hlast : ((header :: (fas.flatMap frameLinesA ++ splitNL (excLine etype msg))) ++ [tl]).getLast? = some tl :=
    List.getLast?_concat ..
  rw [splitlines_joinNL hall (last := tl) hlast htne,
      fromLinesF_congr (dropTrailers_append_trailer _ ht)]
  exact fromLinesF_rendered fas etype msg h


/-! ## exact extent of the line-separator finding -/

/-- what from_string makes of the separators of a text: every str.splitlines separator becomes `\n`
    (`\r\n` one `\n`); same state machine as `splitlinesGo` -/
def normGo (skipLF : Bool) : Str → Str
  | [] => []
  | c :: rest =>
    if skipLF && c = '\n' then normGo false rest
    else if c = '\r' then '\n' :: normGo true rest
    else if isSep c then '\n' :: normGo false rest
    else c :: normGo false rest

/-- the message from_string returns for a message with other line separators in it -/
def normSeps (s : Str) : Str := normGo false s

theorem nl_isSep' : isSep '\n' = true := by decide +kernel
theorem cr_isSep : isSep '\r' = true := by decide +kernel

theorem splitlinesGo_normGo : ∀ (s : Str) (b : Bool), splitlinesGo false (normGo b s) = splitlinesGo b s
  | [], b => by simp [normGo, splitlinesGo]
  | c :: rest, b => by
    rw [normGo, splitlinesGo]
    split
    · exact splitlinesGo_normGo rest false
    · rename_i h1
      split
      · rw [splitlinesGo]
        simp [nl_isSep', splitlinesGo_normGo rest true]
      · rename_i h2
        split
        · rw [splitlinesGo]
          simp [nl_isSep', splitlinesGo_normGo rest false]
        · rename_i h3
          have hc : c ≠ '\n' := by intro h; subst h; exact h3 nl_isSep'
          rw [splitlinesGo]
          simp [hc, h2, h3, splitlinesGo_normGo rest false]

theorem normGo_prefix {a : Str} (ha : a.all msgCharOK = true) (s : Str) :
    normGo false (a ++ s) = a ++ normGo false s := by
  induction a with
  | nil => rfl
  | cons c a' ih =>
    simp only [List.all_cons, Bool.and_eq_true] at ha
    have hcr : c ≠ '\r' := by
      intro h; subst h
      have := ha.1
      simp [msgCharOK, notSep, cr_isSep] at this
    simp only [List.cons_append, normGo, Bool.false_and, Bool.false_eq_true, if_false, hcr]
    by_cases hs : isSep c = true
    · have : c = '\n' := by
        have := ha.1
        simpa [msgCharOK, notSep, hs] using this
      simp [this, ih ha.2]
    · simp [hs, ih ha.2]

theorem normGo_ne_nil {s : Str} (h : s ≠ []) : normGo false s ≠ [] := by
  cases s with
  | nil => exact absurd rfl h
  | cons c rest =>
    simp only [normGo, Bool.false_and, Bool.false_eq_true, if_false]
    split
    · simp
    · split <;> simp

/-- the text before the message: every line of it is free of separators -/
theorem toString_split (pe : PE) (hm : pe.msg ≠ []) :
    toString pe = (unlines (header :: pe.frames.flatMap frameLines) ++ (pe.etype ++ colonSp)) ++ pe.msg := by
  unfold toString toLines
  have : header :: (pe.frames.flatMap frameLines ++ [excLine pe.etype pe.msg])
      = (header :: pe.frames.flatMap frameLines) ++ [excLine pe.etype pe.msg] := by simp
  rw [this, joinNL_unlines]
  simp [excLine, hm, List.append_assoc]

theorem unlines_msgCharOK {ls : List Str} (h : ∀ l ∈ ls, l.all notSep = true) : (unlines ls).all msgCharOK = true := by
  induction ls with
  | nil => rfl
  | cons l ls ih =>
    have hl := h l (List.mem_cons_self ..)
    have := ih (fun x hx => h x (List.mem_cons_of_mem _ hx))
    simp only [unlines, List.flatMap_cons, List.all_append, Bool.and_eq_true] at this ⊢
    refine ⟨⟨?_, by decide⟩, this⟩
    simp only [List.all_eq_true] at hl ⊢
    intro c hc
    simp [msgCharOK, hl c hc]

/-- from_string on a text whose message holds other line separators: the separators come back as `\n`, everything
    else is recovered -/
theorem fromStringF_separators (pe : PE) (hm : pe.msg ≠ [])
    (h : WFpe ⟨pe.frames, pe.etype, normSeps pe.msg⟩ = true) :
    fromStringF (toString pe) = .ok (.tb, ⟨pe.frames, pe.etype, normSeps pe.msg⟩) := by
  have hw := h
  simp only [WFpe, Bool.and_eq_true, List.all_eq_true] at hw
  obtain ⟨hfr, hexc⟩ := hw
  obtain ⟨h1, h2, _, _, _, _⟩ := WFexc_parts hexc
  -- the prefix of the text is made of separator-free lines
  have hpre : (unlines (header :: pe.frames.flatMap frameLines) ++ (pe.etype ++ colonSp)).all msgCharOK = true := by
    rw [List.all_append, List.all_append, Bool.and_eq_true, Bool.and_eq_true]
    refine ⟨?_, ?_, by decide⟩
    · apply unlines_msgCharOK
      intro l hl
      rcases List.mem_cons.mp hl with rfl | hl
      · decide
      · obtain ⟨f, hf, hlf⟩ := List.mem_flatMap.mp hl
        exact frameLines_notSep (hfr f hf) l hlf
    · simp only [List.all_eq_true] at h2 ⊢
      intro c hc
      simp [msgCharOK, notSep_of_notSpace (h2 c hc)]
  have hm' : normSeps pe.msg ≠ [] := normGo_ne_nil hm
  have htext : normGo false (toString pe) = toString ⟨pe.frames, pe.etype, normSeps pe.msg⟩ := by
    rw [toString_split pe hm, normGo_prefix hpre, toString_split ⟨pe.frames, pe.etype, normSeps pe.msg⟩ hm']
    rfl
  have hfirst : firstNotSpace (toString pe) = true := by
    rw [toString_eq_toStringA]; exact toStringA_first _ _ _
  have hfirst' : firstNotSpace (toString ⟨pe.frames, pe.etype, normSeps pe.msg⟩) = true := by
    rw [toString_eq_toStringA]; exact toStringA_first _ _ _
  have key : fromStringF (toString pe) = fromStringF (toString ⟨pe.frames, pe.etype, normSeps pe.msg⟩) := by
    unfold fromStringF
    rw [lstrip_of_first hfirst, lstrip_of_first hfirst', ← htext]
    unfold splitlines
    rw [splitlinesGo_normGo]
  rw [key, toString_eq_toStringA, fromStringF_rendered _ _ _ (WFtextA_noAnchors _ h)]
  simp [noAnchors, Function.comp_def]

end C16
