import BoltonsVerif.C16.Driver
def main : IO Unit := BV.mainLoop C16.Driver.handle
