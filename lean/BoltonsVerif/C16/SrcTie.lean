import BoltonsVerif.C16.Model
import BoltonsVerif.PyRtC16
import BoltonsVerif.Generated.Src_tbutils_c16
/-
C16 — source tie: the definitions regenerated from boltons/tbutils.py on every run by harness/py2lean_c16.py
(`Generated/Src_tbutils_c16.lean`) equal the hand model of `C16/Model.lean`.

  ParsedException.to_string      = C16.toString            (`src_to_string_eq_model`)
  _repeated_line_note            = C16.flushRepeat         (`src_repeated_line_note_eq_model`)
  Callpoint.tb_frame_str         = C16.tbFrameStr          (`src_tb_frame_str_eq_model`)
  TracebackInfo.get_formatted    = C16.tbInfoFormat        (`src_get_formatted_eq_model`)

Proof style: specification lemmas about the runtime operations and about `List.foldl` of a step function that is
characterised by an EQUATION (`foldl_append_flatMap`, `foldl_run`), so that the proofs do not replay the statement order
of the source: the loop body is only ever asked "what does one iteration do to the state", by `simp` + case split.
-/
namespace C16
open PyRtC16

/-! ## runtime operations vs the model's -/

theorem strJoin_nl (ls : List Str) : strJoin "\n".toList ls = joinNL ls := by
  induction ls with
  | nil => rfl
  | cons a r ih =>
    cases r with
    | nil => rfl
    | cons b r => simp only [strJoin, joinNL] at ih ⊢; rw [ih]; rfl

theorem truthy_iff {α : Type} (s : List α) : (truthy s = true) ↔ s ≠ [] := by
  cases s <;> simp [truthy]

theorem truthyOS_iff (o : Option Str) : (truthyOS o = true) ↔ o.getD [] ≠ [] := by
  cases o with
  | none => simp [truthyOS]
  | some s => cases s <;> simp [truthyOS]

theorem fmtOS_of_truthy (o : Option Str) (h : truthyOS o = true) : fmtOS o = o.getD [] := by
  cases o with
  | none => simp [truthyOS] at h
  | some s => rfl

/-! the literals of the source, folded into the model's constants (each side is a closed term: `decide`) -/
theorem lit_header : "Traceback (most recent call last):".toList = header := rfl
theorem lit_file : "  File \"".toList = ind2 ++ litA := by decide
theorem lit_line : "\", line ".toList = litB := rfl
theorem lit_in : ", in ".toList = litC := rfl
theorem lit_ind4 : "    ".toList = ind4 := rfl
theorem lit_colon : ": ".toList = colonSp := rfl
theorem lit_nl : "\n".toList = ['\n'] := by decide
theorem lit_empty : "".toList = ([] : Str) := by decide

/-- a loop that only appends to its accumulator: `for x in xs: acc += g(x)` -/
theorem foldl_append_flatMap {α β : Type} (step : List β → α → List β) (g : α → List β)
    (h : ∀ acc x, step acc x = acc ++ g x) : ∀ (xs : List α) (acc : List β),
    xs.foldl step acc = acc ++ xs.flatMap g := by
  intro xs
  induction xs with
  | nil => intro acc; simp
  | cons x xs ih => intro acc; simp [List.foldl_cons, h, ih, List.append_assoc]

/-! ## ParsedException.to_string -/

/-- the frame dict as the model's frame (`source_line` absent or '' = no source line) -/
def frameOf (d : FrameD) : Frame := ⟨d.filepath, d.lineno, d.funcname, d.source_line.getD []⟩

theorem frameLines_frameOf (d : FrameD) :
    frameLines (frameOf d) =
      if truthyOS d.source_line then
        [ind2 ++ litA ++ d.filepath ++ litB ++ d.lineno ++ litC ++ d.funcname, ind4 ++ fmtOS d.source_line]
      else [ind2 ++ litA ++ d.filepath ++ litB ++ d.lineno ++ litC ++ d.funcname] := by
  by_cases h : truthyOS d.source_line = true
  · have h2 := (truthyOS_iff _).1 h
    simp [frameLines, frameLine, frameOf, h, h2, fmtOS_of_truthy _ h]
  · have h2 : d.source_line.getD [] = [] := by
      false_or_by_contra
      exact h ((truthyOS_iff d.source_line).2 ‹_›)
    simp [frameLines, frameLine, frameOf, h, h2]

/-- **tie**: the generated `ParsedException.to_string` is the model's `toString` of the same data -/
theorem src_to_string_eq_model (frames : List FrameD) (etype msg : Str) :
    Src.tbutils.ParsedException.to_string frames etype msg = C16.toString ⟨frames.map frameOf, etype, msg⟩ := by
  unfold Src.tbutils.ParsedException.to_string
  simp only [lit_header, lit_file, lit_line, lit_in, lit_ind4, lit_colon]
  rw [foldl_append_flatMap (g := fun d => frameLines (frameOf d))]
  · rw [strJoin_nl]
    simp only [C16.toString, toLines, excLine, List.flatMap_map]
    by_cases hm : msg = []
    · simp [hm, truthy]
    · have : truthy msg = true := (truthy_iff msg).2 hm
      simp [hm, this]
  · intro acc d
    rw [frameLines_frameOf]
    by_cases h : truthyOS d.source_line = true <;>
      simp [h, List.append_assoc]

example : Src.tbutils.ParsedException.to_string
    [⟨"a.py".toList, "3".toList, "f".toList, some "x = 1".toList⟩, ⟨"b.py".toList, "7".toList, "g".toList, none⟩]
    "ValueError".toList "bad".toList
    = "Traceback (most recent call last):\n  File \"a.py\", line 3, in f\n    x = 1\n  File \"b.py\", line 7, in g\nValueError: bad".toList := by
  decide

/-! ## _repeated_line_note -/

theorem fmtInt_ofNat (n : Nat) : fmtInt (n : Int) = natStr n := by
  simp [fmtInt, natStr]

/-- `if a > k` read as `if a ≤ k` with the branches exchanged: one normal form for either way of writing the test -/
theorem ite_gt_flip (a k : Int) (A B : Str) : (if a > k then A else B) = if a ≤ k then B else A := by
  by_cases h : a ≤ k
  · have : ¬ a > k := by omega
    simp [h, this]
  · have : a > k := by omega
    simp [h, this]

/-- the note with its literals abstracted (no closed string terms: nothing for `whnf` to evaluate) -/
theorem note_generic (P T S E A B : Str) (hA : T ++ (S ++ E) = A) (hB : T ++ E = B) (c : Int) :
    (if c ≤ 3 then ([] : Str) else P ++ (fmtInt (c - 3) ++ (T ++ ((if c - 3 ≤ 1 then [] else S) ++ E))))
      = if c.toNat > 3 then P ++ natStr (c.toNat - 3) ++ (if c.toNat - 3 > 1 then A else B) else [] := by
  by_cases h : c ≤ 3
  · have h2 : ¬ (c.toNat > 3) := by omega
    simp [h, h2]
  · have h2 : c.toNat > 3 := by omega
    have h3 : c - 3 = ((c.toNat - 3 : Nat) : Int) := by omega
    rw [if_neg h, if_pos h2, h3, fmtInt_ofNat]
    by_cases h4 : c.toNat - 3 > 1
    · have h5 : ¬ ((c.toNat - 3 : Nat) : Int) ≤ 1 := by omega
      rw [if_pos h4, if_neg h5, ← hA]; simp [List.append_assoc]
    · have h5 : ((c.toNat - 3 : Nat) : Int) ≤ 1 := by omega
      rw [if_neg h4, if_pos h5, ← hB]; simp [List.append_assoc]

/-- **tie**: the generated `_repeated_line_note` is the model's `flushRepeat` (a negative count is like 0) -/
theorem src_repeated_line_note_eq_model (c : Int) :
    Src.tbutils.repeated_line_note c = flushRepeat c.toNat := by
  unfold Src.tbutils.repeated_line_note flushRepeat repeatedMsg
  simp only [lit_empty, List.append_assoc, decide_eq_true_eq, ite_gt_flip]
  exact note_generic _ _ _ _ _ _ (by decide) (by decide) c

example : Src.tbutils.repeated_line_note 5 = "  [Previous line repeated 2 more times]\n".toList := by decide
example : Src.tbutils.repeated_line_note 4 = "  [Previous line repeated 1 more time]\n".toList := by decide

/-! ## Callpoint.tb_frame_str -/

/-- **tie**: the generated `Callpoint.tb_frame_str` is the model's `tbFrameStr` (`str(self.line)` = the rstripped
    linecache line, `bool(self.line)` = that string is not empty: `PyRtC16.DLine`) -/
theorem src_tb_frame_str_eq_model (c : Callpoint) : Src.tbutils.Callpoint.tb_frame_str c = tbFrameStr c := by
  unfold Src.tbutils.Callpoint.tb_frame_str tbFrameStr cpHead
  simp only [lit_file, lit_line, lit_in, lit_ind4, lit_nl, DLine.truthy, DLine.str, Callpoint.dline, strStrip, fmtNat,
    natStr]
  by_cases h : rstrip c.line = [] <;> simp [h, List.append_assoc]

example : Src.tbutils.Callpoint.tb_frame_str ⟨"a.py".toList, 3, "f".toList, "  x = 1 \n".toList⟩
    = "  File \"a.py\", line 3, in f\n    x = 1\n".toList := by decide

/-! ## TracebackInfo.get_formatted -/

def siteOf (c : Callpoint) : Str × Nat × Str := (c.path, c.lineno, c.func)

/-- what ONE iteration of the loop of get_formatted does to its state; the translator lists the variables a loop
    assigns in alphabetical order: `(count, last_site, ret)` -/
def specStep (st : Int × Option (Str × Nat × Str) × Str) (f : Callpoint) : Int × Option (Str × Nat × Str) × Str :=
  if (some (siteOf f) != st.2.1) = true then
    (1, some (siteOf f), st.2.2 ++ (Src.tbutils.repeated_line_note st.1 ++ tbFrameStr f))
  else (st.1 + 1, st.2.1, st.2.2 ++ (if st.1 + 1 ≤ 3 then tbFrameStr f else []))

/-- the model's test "this entry starts a new run" -/
def isNew (last : Option Callpoint) (f : Callpoint) : Bool :=
  match last with | none => true | some l => !sameSite l f

theorem bLoop_cons (last : Option Callpoint) (cnt : Nat) (f : Callpoint) (fs : List Callpoint) :
    bLoop last cnt (f :: fs) =
      if isNew last f = true then flushRepeat cnt ++ (tbFrameStr f ++ bLoop (some f) 1 fs)
      else if cnt + 1 ≤ 3 then tbFrameStr f ++ bLoop last (cnt + 1) fs else bLoop last (cnt + 1) fs := by
  cases last <;> simp [bLoop, isNew]

theorem newSite_iff (last : Option Callpoint) (f : Callpoint) :
    (some (siteOf f) != last.map siteOf) = isNew last f := by
  cases last with
  | none => simp [isNew]
  | some l =>
    simp only [Option.map_some, sameSite, siteOf, isNew]
    by_cases h1 : l.path = f.path <;> by_cases h2 : l.lineno = f.lineno <;> by_cases h3 : l.func = f.func <;>
      simp [h1, h2, h3, bne, Ne.symm] <;> (intros; simp_all [eq_comm])

theorem foldl_specStep (step : Int × Option (Str × Nat × Str) × Str → Callpoint → Int × Option (Str × Nat × Str) × Str)
    (hstep : ∀ st f, step st f = specStep st f) :
    ∀ (fs : List Callpoint) (ret : Str) (last : Option Callpoint) (cnt : Nat),
      (fs.foldl step ((cnt : Int), last.map siteOf, ret)).2.2
        ++ Src.tbutils.repeated_line_note (fs.foldl step ((cnt : Int), last.map siteOf, ret)).1
      = ret ++ bLoop last cnt fs := by
  intro fs
  induction fs with
  | nil => intro ret last cnt; simp [bLoop, src_repeated_line_note_eq_model]
  | cons f fs ih =>
    intro ret last cnt
    rw [List.foldl_cons, hstep, specStep, bLoop_cons]
    simp only [newSite_iff]
    cases hn : isNew last f
    · simp only [if_false, Bool.false_eq_true]
      have := ih (ret ++ (if (cnt : Int) + 1 ≤ 3 then tbFrameStr f else [])) last (cnt + 1)
      push_cast at this
      rw [this]
      by_cases h3 : cnt + 1 ≤ 3
      · have : (cnt : Int) + 1 ≤ 3 := by omega
        simp [h3, this, List.append_assoc]
      · have : ¬ (cnt : Int) + 1 ≤ 3 := by omega
        simp [h3, this]
    · have := ih (ret ++ (Src.tbutils.repeated_line_note cnt ++ tbFrameStr f)) (some f) 1
      simp only [Option.map_some] at this
      push_cast at this
      simp only [if_true]
      rw [this, src_repeated_line_note_eq_model]
      simp [List.append_assoc]

theorem lit_headerNL : "Traceback (most recent call last):\n".toList = headerNL := by decide

theorem run_of_step (step : Int × Option (Str × Nat × Str) × Str → Callpoint → Int × Option (Str × Nat × Str) × Str)
    (hstep : ∀ st f, step st f = specStep st f) (fs : List Callpoint) :
    (fs.foldl step (0, none, headerNL)).2.2 ++ Src.tbutils.repeated_line_note (fs.foldl step (0, none, headerNL)).1
      = tbInfoFormat fs := by
  have := foldl_specStep step hstep fs headerNL none 0
  simpa [tbInfoFormat] using this

/-- **tie**: the generated `TracebackInfo.get_formatted` (header, the run-collapsing loop, the final note) is the
    model's `tbInfoFormat` -/
theorem src_get_formatted_eq_model (frames : List Callpoint) :
    Src.tbutils.TracebackInfo.get_formatted frames = tbInfoFormat frames := by
  unfold Src.tbutils.TracebackInfo.get_formatted
  simp only [lit_headerNL]
  apply run_of_step
  intro st f
  obtain ⟨cnt, last, ret⟩ := st
  simp only [specStep, siteOf, src_tb_frame_str_eq_model]
  have hc : (last != some (f.path, f.lineno, f.func)) = (some (f.path, f.lineno, f.func) != last) := bne_comm
  try simp only [hc]
  by_cases hn : (some (f.path, f.lineno, f.func) != last) = true <;>
    by_cases h3 : cnt + 1 ≤ 3 <;> simp [hn, h3, List.append_assoc]

set_option maxRecDepth 100000 in
example : Src.tbutils.TracebackInfo.get_formatted
    (List.replicate 5 ⟨"a.py".toList, 3, "f".toList, "x\n".toList⟩)
    = ("Traceback (most recent call last):\n" ++ "  File \"a.py\", line 3, in f\n    x\n"
        ++ "  File \"a.py\", line 3, in f\n    x\n" ++ "  File \"a.py\", line 3, in f\n    x\n"
        ++ "  [Previous line repeated 2 more times]\n").toList := by decide

/-! ## ExceptionInfo: get_formatted_exception_only, get_formatted, the display name of from_exc_info -/

/-- **tie**: the generated `ExceptionInfo.get_formatted_exception_only` is the model's `eiExcOnly` -/
theorem src_ei_exc_only_eq_model (etype msg : Str) :
    Src.tbutils.ExceptionInfo.get_formatted_exception_only etype msg = eiExcOnly etype msg := by
  unfold Src.tbutils.ExceptionInfo.get_formatted_exception_only eiExcOnly
  simp only [lit_colon]
  by_cases hm : msg = []
  · simp [hm, truthy]
  · have : truthy msg = true := (truthy_iff msg).2 hm
    simp [hm, this]

example : Src.tbutils.ExceptionInfo.get_formatted_exception_only "E".toList "".toList = "E".toList := by decide
example : Src.tbutils.ExceptionInfo.get_formatted_exception_only "E".toList "m".toList = "E: m".toList := by decide

theorem strJoin_empty_pair (a b : Str) : strJoin [] [a, b] = a ++ b := by simp [strJoin]

/-- **tie**: the generated `ExceptionInfo.get_formatted` is the model's `eiFormat` -/
theorem src_ei_get_formatted_eq_model (frames : List Callpoint) (etype msg : Str) :
    Src.tbutils.ExceptionInfo.get_formatted etype msg frames = eiFormat frames etype msg := by
  unfold Src.tbutils.ExceptionInfo.get_formatted eiFormat
  simp only [lit_empty, strJoin_empty_pair, src_get_formatted_eq_model, src_ei_exc_only_eq_model]

example : Src.tbutils.ExceptionInfo.get_formatted "E".toList "m".toList [⟨"a".toList, 1, "f".toList, [] ⟩]
    = "Traceback (most recent call last):\n  File \"a\", line 1, in f\nE: m".toList := by decide

theorem lit_dot : ".".toList = ['.'] := by decide

theorem elem_some_pair (m a b : Str) : List.elem (some m) [some a, some b] = [a, b].contains m := by
  simp [List.elem, List.contains]

theorem elem_pair (m a b : Str) : List.elem m [a, b] = [a, b].contains m := by
  simp [List.elem, List.contains]

theorem unknown_not_plain : [("__main__".toList), ("builtins".toList)].contains "<unknown>".toList = false := by decide

/-- the proof shared by the two copies of the display-name computation: split on `__module__` being a str, then on the
    membership test as an opaque Bool; `simp` does the rest whichever way the statements are arranged -/
local macro "type_str_tac" t:ident : tactic => `(tactic| (
  obtain ⟨m, q⟩ := $t
  cases m with
  | none =>
    try simp only [Option.getD_none, elem_pair, unknown_not_plain]
    simp [List.elem, fmtOS, lit_dot]
  | some m =>
    simp only [Option.isSome_some, Bool.not_true, Bool.false_eq_true, if_false, elem_some_pair, elem_pair, lit_dot,
      Option.getD_some]
    generalize [("__main__".toList), ("builtins".toList)].contains m = b
    cases b <;> simp [fmtOS]))

/-- **tie**: the display name computed by `ExceptionInfo.from_exc_info` (the statements from `type_str = ...` up to
    `val_str = ...`) is the model's `typeStr` -/
theorem src_type_str_eq_model (t : ExcType) : Src.tbutils.ExceptionInfo.type_str t = typeStr t := by
  unfold Src.tbutils.ExceptionInfo.type_str typeStr plainMods
  type_str_tac t

example : Src.tbutils.ExceptionInfo.type_str ⟨some "pkg.mod".toList, "A.B".toList⟩ = "pkg.mod.A.B".toList := by decide
example : Src.tbutils.ExceptionInfo.type_str ⟨some "builtins".toList, "ValueError".toList⟩ = "ValueError".toList := by decide
example : Src.tbutils.ExceptionInfo.type_str ⟨none, "X".toList⟩ = "<unknown>.X".toList := by decide

/-- **tie**: the second copy, in `format_exception_only` (from `stype = ...` up to the `issubclass` test; what
    `print_exception` prints), is the model's `typeStr` as well -/
theorem src_feo_type_str_eq_model (t : ExcType) : Src.tbutils.format_exception_only_type_str t = typeStr t := by
  unfold Src.tbutils.format_exception_only_type_str typeStr plainMods
  type_str_tac t

example : Src.tbutils.format_exception_only_type_str ⟨some "pkg".toList, "E".toList⟩ = "pkg.E".toList := by decide
example : Src.tbutils.format_exception_only_type_str ⟨none, "E".toList⟩ = "<unknown>.E".toList := by decide
example : Src.tbutils.format_exception_only_type_str ⟨some "__main__".toList, "E".toList⟩ = "E".toList := by decide

/-! ## _some_str -/

/-- **tie**: the generated `_some_str` is the model's `someStr` (`str(value)` returns a str or raises: `StrObj.str?`) -/
theorem src_some_str_eq_model (x : StrObj) : Src.tbutils.some_str x = someStr x.str? := by
  unfold Src.tbutils.some_str someStr
  cases x.str? <;> rfl

example : Src.tbutils.some_str ⟨some "boom".toList⟩ = "boom".toList := by decide
example : Src.tbutils.some_str ⟨none⟩ = "<exception str() failed>".toList := by decide

end C16
