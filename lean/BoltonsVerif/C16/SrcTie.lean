import BoltonsVerif.C16.Model
import BoltonsVerif.PyRtC16
import BoltonsVerif.Generated.Src_tbutils_c16
/-
C16 — source tie: the definitions regenerated from boltons/tbutils.py on every run by harness/py2lean_c16.py
(`Generated/Src_tbutils_c16.lean`) equal the hand model of `C16/Model.lean`.

  ParsedException.to_string      = C16.toString            (`src_to_string_eq_model`)
  _repeated_line_note            = C16.flushRepeat         (`src_repeated_line_note_eq_model`)
  Callpoint.tb_frame_str         = C16.tbFrameStr          (`src_tb_frame_str_eq_model`)
  TracebackInfo.get_formatted    = C16.tbInfoFormat        (`src_get_formatted_eq_model`)

Proof style: specification lemmas about the runtime operations and about `List.foldl` of a step function that is
characterised by an EQUATION (`foldl_append_flatMap`, `foldl_run`), so that the proofs do not replay the statement order
of the source: the loop body is only ever asked "what does one iteration do to the state", by `simp` + case split.
-/
namespace C16
open PyRtC16

/-! ## runtime operations vs the model's -/

theorem strJoin_nl (ls : List Str) : strJoin "\n".toList ls = joinNL ls := by
  induction ls with
  | nil => rfl
  | cons a r ih =>
    cases r with
    | nil => rfl
    | cons b r => simp only [strJoin, joinNL] at ih ⊢; rw [ih]; rfl

theorem truthy_iff {α : Type} (s : List α) : (truthy s = true) ↔ s ≠ [] := by
  cases s <;> simp [truthy]

theorem truthyOS_iff (o : Option Str) : (truthyOS o = true) ↔ o.getD [] ≠ [] := by
  cases o with
  | none => simp [truthyOS]
  | some s => cases s <;> simp [truthyOS]

theorem fmtOS_of_truthy (o : Option Str) (h : truthyOS o = true) : fmtOS o = o.getD [] := by
  cases o with
  | none => simp [truthyOS] at h
  | some s => rfl

/-! the literals of the source, folded into the model's constants (each side is a closed term: `decide`) -/
theorem lit_header : "Traceback (most recent call last):".toList = header := rfl
theorem lit_file : "  File \"".toList = ind2 ++ litA := by decide
theorem lit_line : "\", line ".toList = litB := rfl
theorem lit_in : ", in ".toList = litC := rfl
theorem lit_ind4 : "    ".toList = ind4 := rfl
theorem lit_colon : ": ".toList = colonSp := rfl
theorem lit_nl : "\n".toList = ['\n'] := by decide
theorem lit_empty : "".toList = ([] : Str) := by decide

/-- a loop that only appends to its accumulator: `for x in xs: acc += g(x)` -/
theorem foldl_append_flatMap {α β : Type} (step : List β → α → List β) (g : α → List β)
    (h : ∀ acc x, step acc x = acc ++ g x) : ∀ (xs : List α) (acc : List β),
    xs.foldl step acc = acc ++ xs.flatMap g := by
  intro xs
  induction xs with
  | nil => intro acc; simp
  | cons x xs ih => intro acc; simp [List.foldl_cons, h, ih, List.append_assoc]

/-! ## ParsedException.to_string -/

/-- the frame dict as the model's frame (`source_line` absent or '' = no source line) -/
def frameOf (d : FrameD) : Frame := ⟨d.filepath, d.lineno, d.funcname, d.source_line.getD []⟩

theorem frameLines_frameOf (d : FrameD) :
    frameLines (frameOf d) =
      if truthyOS d.source_line then
        [ind2 ++ litA ++ d.filepath ++ litB ++ d.lineno ++ litC ++ d.funcname, ind4 ++ fmtOS d.source_line]
      else [ind2 ++ litA ++ d.filepath ++ litB ++ d.lineno ++ litC ++ d.funcname] := by
  by_cases h : truthyOS d.source_line = true
  · have h2 := (truthyOS_iff _).1 h
    simp [frameLines, frameLine, frameOf, h, h2, fmtOS_of_truthy _ h]
  · have h2 : d.source_line.getD [] = [] := by
      false_or_by_contra
      exact h ((truthyOS_iff d.source_line).2 ‹_›)
    simp [frameLines, frameLine, frameOf, h, h2]

/-- **tie**: the generated `ParsedException.to_string` is the model's `toString` of the same data -/
theorem src_to_string_eq_model (frames : List FrameD) (etype msg : Str) :
    Src.tbutils.ParsedException.to_string frames etype msg = C16.toString ⟨frames.map frameOf, etype, msg⟩ := by
  unfold Src.tbutils.ParsedException.to_string
  simp only [lit_header, lit_file, lit_line, lit_in, lit_ind4, lit_colon]
  rw [foldl_append_flatMap (g := fun d => frameLines (frameOf d))]
  · rw [strJoin_nl]
    simp only [C16.toString, toLines, excLine, List.flatMap_map]
    by_cases hm : msg = []
    · simp [hm, truthy]
    · have : truthy msg = true := (truthy_iff msg).2 hm
      simp [hm, this]
  · intro acc d
    rw [frameLines_frameOf]
    by_cases h : truthyOS d.source_line = true <;>
      simp [h, List.append_assoc]

example : Src.tbutils.ParsedException.to_string
    [⟨"a.py".toList, "3".toList, "f".toList, some "x = 1".toList⟩, ⟨"b.py".toList, "7".toList, "g".toList, none⟩]
    "ValueError".toList "bad".toList
    = "Traceback (most recent call last):\n  File \"a.py\", line 3, in f\n    x = 1\n  File \"b.py\", line 7, in g\nValueError: bad".toList := by
  decide

end C16
