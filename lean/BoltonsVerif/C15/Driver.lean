import BoltonsVerif.Common
import BoltonsVerif.C15.Model
import BoltonsVerif.C15.Session
/-
C15 line protocol.  One line = one call:

    <inst> <fn> <start> <stop> <count> <factor> <jitter> <take> <draws>

  inst    `F` = Float instance (IEEE double, bit for bit), `Q` = Rat instance (exact)
  fn      `I` = backoff_iter, `L` = backoff
  start, stop, factor, jitter, draws   doubles as 16 hex digits (big-endian bit pattern);
          draws = comma separated scripted `random.random()` results, `-` = none
          (positions past the end of the script draw 0)
  count   `N` (None), `R` ('repeat') or a decimal integer
  take    how many values of an endless generator are printed

Output:  `err ValueError` | `fuel` | `ok v,v,…` (`ok -` when empty) | `rep v,v,…`
  values: `F` → 16 hex digits; `Q` → `num/den` in lowest terms

or one whole SESSION of one caller (several calls, see Session.lean):

    S|<inst>|<op>;<op>;…

  op   `L <start> <stop> <count> <factor> <jitter> <draws>`   `backoff(...)`, creates object number (calls so far)
       `I <start> <stop> <count> <factor> <jitter> <draws>`   `backoff_iter(...)`, likewise
       `P <k> <n>`      `next()` n times on object k
       `M <k> pop0|pop|clear|rev|keep1|app <x>|set0 <x>`      the caller changes list k
       `R <k>`          the caller looks at list k again
Output: the observations joined by ` ; `:  `ok v,…` | `err ValueError` | `fuel` | `gen` |
  `vals v,… end|more` | `mut` | `skip`
-/
namespace C15.Driver
open BV C15

def hex64? (s : String) : Option UInt64 :=
  if s.length ≠ 16 then none else
  s.toList.foldl (fun acc c =>
    match acc, hexVal? c with
    | some a, some d => some (a * 16 + UInt64.ofNat d)
    | _, _ => none) (some 0)

def toHex64 (x : UInt64) : String :=
  String.ofList ((List.range 16).map fun i => hexDigit ((x >>> (UInt64.ofNat (60 - 4 * i))).toNat % 16))

/-- the exact rational value of a finite double given by its bit pattern -/
def ratOfBits (b : UInt64) : Option Rat :=
  let n : Nat := b.toNat
  let neg : Bool := n / 2 ^ 63 == 1
  let e : Nat := (n / 2 ^ 52) % 2048
  let m : Nat := n % 2 ^ 52
  let sig : Nat := 2 ^ 52 + m
  if e = 2047 then none else
  let mag : Rat :=
    if e = 0 then (m : Rat) / ((2 : Rat) ^ 1074)
    else if e ≥ 1075 then (sig : Rat) * ((2 : Rat) ^ (e - 1075))
    else (sig : Rat) / ((2 : Rat) ^ (1075 - e))
  some (if neg then -mag else mag)

def showRat (q : Rat) : String := s!"{q.num}/{q.den}"

def parseCount? (s : String) : Option Count :=
  if s = "N" then some .dflt else if s = "R" then some .rep else s.toInt?.map .num

def listM? {β γ : Type} (f : β → Option γ) : List β → Option (List γ)
  | [] => some []
  | x :: xs => match f x, listM? f xs with
    | some y, some ys => some (y :: ys)
    | _, _ => none

def fuel : Nat := 2000000

section
variable {α : Type} [LE α] [LT α] [DecidableLE α] [DecidableLT α] [BEq α]
  [Mul α] [Sub α] [Neg α] [OfNat α 0] [OfNat α 1]

def runCase (parse : String → Option α) (shw : α → String)
    (fn start stop count factor jitter take draws : String) : String :=
  match parse start, parse stop, parseCount? count, parse factor, parse jitter, take.toNat?,
        (if draws = "-" then some [] else listM? parse (splitOnChar draws ',')) with
  | some st, some sp, some c, some f, some j, some tk, some rs =>
    let p : Params α := { start := st, stop := sp, factor := f, count := c, jitter := j }
    let r : Nat → α := fun i => rs.getD i 0
    let out := if fn = "I" then some (backoffIter fuel r p) else if fn = "L" then some (backoff fuel r p) else none
    let shows (l : List α) : String := if l.isEmpty then "-" else ",".intercalate (l.map shw)
    match out with
    | none => "bad-op"
    | some .valueError => "err ValueError"
    | some .fuelOut => "fuel"
    | some (.finite vals) => "ok " ++ shows vals
    | some (.endless val) => "rep " ++ shows ((List.range tk).map val)
  | _, _, _, _, _, _, _ => "bad-op"
def parseMut? (parse : String → Option α) : List String → Option (Mut α)
  | ["pop0"] => some .pop0
  | ["pop"] => some .pop
  | ["clear"] => some .clear
  | ["rev"] => some .rev
  | ["keep1"] => some .keep1
  | ["app", x] => (parse x).map .app
  | ["set0", x] => (parse x).map .set0
  | _ => none

def parseOp? (parse : String → Option α) : List String → Option (Op α)
  | [fn, start, stop, count, factor, jitter, draws] =>
    match parse start, parse stop, parseCount? count, parse factor, parse jitter,
          (if draws = "-" then some [] else listM? parse (splitOnChar draws ',')) with
    | some st, some sp, some c, some f, some j, some rs =>
      let p : Params α := { start := st, stop := sp, factor := f, count := c, jitter := j }
      let r : Nat → α := fun i => rs.getD i 0
      if fn = "L" then some (.callL p r) else if fn = "I" then some (.callI p r) else none
    | _, _, _, _, _, _ => none
  | ["P", k, n] =>
    match k.toNat?, n.toNat? with
    | some k, some n => some (.pull k n)
    | _, _ => none
  | "M" :: k :: rest =>
    match k.toNat?, parseMut? parse rest with
    | some k, some m => some (.chg k m)
    | _, _ => none
  | ["R", k] => k.toNat?.map .read
  | _ => none

def showObs (shw : α → String) : Obs α → String
  | .err => "err ValueError"
  | .fuel => "fuel"
  | .vals l => "ok " ++ (if l.isEmpty then "-" else ",".intercalate (l.map shw))
  | .gen => "gen"
  | .pulled l e => "vals " ++ (if l.isEmpty then "-" else ",".intercalate (l.map shw)) ++ (if e then " end" else " more")
  | .mutated => "mut"
  | .skip => "skip"
  | .badIndex => "bad-op"

def runSession (parse : String → Option α) (shw : α → String) (ops : String) : String :=
  match listM? (fun o => parseOp? parse (words o)) (splitOnChar ops ';') with
  | some ops =>
    let obs := (run fuel [] ops).map (showObs shw)
    if obs.contains "bad-op" then "bad-op" else " ; ".intercalate obs
  | none => "bad-op"
end

def handle (line : String) : String :=
  match splitOnChar line '|' with
  | ["S", inst, ops] =>
    if inst = "F" then
      runSession (α := Float) (fun s => (hex64? s).map Float.ofBits) (fun x => toHex64 x.toBits) ops
    else if inst = "Q" then
      runSession (α := Rat) (fun s => (hex64? s).bind ratOfBits) showRat ops
    else "bad-op"
  | _ =>
  match words line with
  | [inst, fn, start, stop, count, factor, jitter, take, draws] =>
    if inst = "F" then
      runCase (α := Float) (fun s => (hex64? s).map Float.ofBits) (fun x => toHex64 x.toBits)
        fn start stop count factor jitter take draws
    else if inst = "Q" then
      runCase (α := Rat) (fun s => (hex64? s).bind ratOfBits) showRat
        fn start stop count factor jitter take draws
    else "bad-op"
  | _ => "bad-op"

end C15.Driver
