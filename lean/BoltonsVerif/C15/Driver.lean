import BoltonsVerif.Common
import BoltonsVerif.C15.Model
import BoltonsVerif.C15.Session
import BoltonsVerif.C15.B64
/-
C15 line protocol.  One line = one call:

    <inst> <fn> <start> <stop> <count> <factor> <jitter> <take> <draws>

  inst    `F` = Float instance (IEEE double, bit for bit), `Q` = Rat instance (exact),
          `D` = B64 instance (the natural-number model of non-negative binary64 arithmetic the
          `b64_*` theorems are about; parameters must be finite with a clear sign bit)
  fn      `I` = backoff_iter, `L` = backoff
  start, stop, factor, jitter, draws   doubles as 16 hex digits (big-endian bit pattern);
          draws = comma separated scripted `random.random()` results, `-` = none
          (positions past the end of the script draw 0)
  count   `N` (None), `R` ('repeat') or a decimal integer; `N<m>` = None and the implementation produced `m`
          values: judged as count=m when m is at least the model's minimal default count (`acceptCount`)
  take    how many values of an endless generator are printed

Output:  `err ValueError` | `fuel` | `ok v,v,…` (`ok -` when empty) | `rep v,v,…`
  values: `F` → 16 hex digits (a zero of either sign prints as +0: the statement is about real
  values); `Q` → `num/den` in lowest terms

ACCEPTANCE MODE (calls with jitter): a tenth field `<observed>` = the values the implementation
yielded (comma separated, `-` = none, `X` = not a number).  The draws are then ignored: the
model computes the outcome of the call (ValueError for a bad jitter …) and the UN-jittered
delays `b_i`, and judges every observed value by the statement's own clause `jitAccept`
(between `b_i` and `b_i*(1-j)`; exact on `Q`, with the slack `tolF` on `F`).
Output: `ok <marks> base ok v,v,…` | `rep <marks> base rep v,v,…` | `err ValueError` | `fuel`
  marks: one `~` (accepted) or `!` (rejected) per value, `-` for none, `len:<n>` when the number
  of observed values is not the model's `n`

or one whole SESSION of one caller (several calls, see Session.lean):

    S|<inst>|<op>;<op>;…

  op   `L <start> <stop> <count> <factor> <jitter> <draws> [<observed>]`   `backoff(...)`, creates object number (calls so far)
       `I <start> <stop> <count> <factor> <jitter> <draws>`   `backoff_iter(...)`, likewise
       `P <k> <n> [<observed>]`      `next()` n times on object k
       (objects of calls with jitter: the model runs with every draw 0, so its values are the
        un-jittered delays; `<observed>` values are judged by `jitAccept` and shown as marks, a
        jittered list looked at again is shown as one `~` per element)
       `M <k> pop0|pop|clear|rev|keep1|app <x>|set0 <x>`      the caller changes list k
       `R <k>`          the caller looks at list k again
Output: the observations joined by ` ; `:  `ok v,…` | `err ValueError` | `fuel` | `gen` |
  `vals v,… end|more` | `mut` | `skip`
-/
namespace C15.Driver
open BV C15

def hex64? (s : String) : Option UInt64 :=
  if s.length ≠ 16 then none else
  s.toList.foldl (fun acc c =>
    match acc, hexVal? c with
    | some a, some d => some (a * 16 + UInt64.ofNat d)
    | _, _ => none) (some 0)

def toHex64 (x : UInt64) : String :=
  String.ofList ((List.range 16).map fun i => hexDigit ((x >>> (UInt64.ofNat (60 - 4 * i))).toNat % 16))

/-- the exact rational value of a finite double given by its bit pattern -/
def ratOfBits (b : UInt64) : Option Rat :=
  let n : Nat := b.toNat
  let neg : Bool := n / 2 ^ 63 == 1
  let e : Nat := (n / 2 ^ 52) % 2048
  let m : Nat := n % 2 ^ 52
  let sig : Nat := 2 ^ 52 + m
  if e = 2047 then none else
  let mag : Rat :=
    if e = 0 then (m : Rat) / ((2 : Rat) ^ 1074)
    else if e ≥ 1075 then (sig : Rat) * ((2 : Rat) ^ (e - 1075))
    else (sig : Rat) / ((2 : Rat) ^ (1075 - e))
  some (if neg then -mag else mag)

def showRat (q : Rat) : String := s!"{q.num}/{q.den}"

/-- `N` (None), `N<m>` (None, and the implementation produced `m` values), `R` ('repeat') or an integer -/
def parseCount? (s : String) : Option (Count × Option Nat) :=
  if s = "N" then some (.dflt, none) else if s = "R" then some (.rep, none)
  else if s.startsWith "N" then (s.drop 1).toNat?.map fun m => (.dflt, some m)
  else s.toInt?.map fun k => (.num k, none)

def listM? {β γ : Type} (f : β → Option γ) : List β → Option (List γ)
  | [] => some []
  | x :: xs => match f x, listM? f xs with
    | some y, some ys => some (y :: ys)
    | _, _ => none

def fuel : Nat := 2000000

section
variable {α : Type} [LE α] [LT α] [DecidableLE α] [DecidableLT α] [BEq α]
  [Mul α] [Sub α] [Neg α] [OfNat α 0] [OfNat α 1]

/-- the parameters of a call; a default-count call for which the implementation produced `m` values is judged
    as `acceptCount` says -/
def mkParams (st sp : α) (c : Count) (m? : Option Nat) (f j : α) : Params α :=
  let p : Params α := { start := st, stop := sp, factor := f, count := c, jitter := j }
  match m? with
  | some m => acceptCount fuel p m
  | none => p

/-- observed values as sent by the harness: `-` = none; a token that is not a number parses to `none` -/
def parseObserved (parse : String → Option α) (s : String) : List (Option α) :=
  if s = "-" then [] else (splitOnChar s ',').map parse

/-- one mark per observed value: `~` accepted / `!` rejected by the statement's jitter clause against the
    model's un-jittered delays `bs`; `len:<n>` when their number differs from the model's -/
def marks (toRat : α → Option Rat) (slack : Bool) (j : α) (ws : List (Option α)) (bs : List α) : String :=
  if ws.length ≠ bs.length then s!"len:{bs.length}" else
  if bs.isEmpty then "-" else
  ",".intercalate ((ws.zip bs).map fun (w, b) =>
    match w.bind toRat, toRat b, toRat j with
    | some w, some b, some j => if jitAccept (if slack then tolF b j else 0) b j w then "~" else "!"
    | _, _, _ => "!")

/-- a call in acceptance mode: outcome kind from the call as made, values from the same call with jitter off -/
def runCaseJ (shw : α → String) (toRat : α → Option Rat) (slack : Bool) (fn : String) (p : Params α)
    (tk : Nat) (ws : List (Option α)) : String :=
  let r0 : Nat → α := fun _ => 0
  let run (q : Params α) : Option (Outcome α) :=
    if fn = "I" then some (backoffIter fuel r0 q) else if fn = "L" then some (backoff fuel r0 q) else none
  let shows (l : List α) : String := if l.isEmpty then "-" else ",".intercalate (l.map shw)
  match run p, run { p with jitter := 0 } with
  | none, _ => "bad-op"
  | some .valueError, _ => "err ValueError"
  | some .fuelOut, _ => "fuel"
  | some (.finite _), some (.finite bs) => "ok " ++ marks toRat slack p.jitter ws bs ++ " base ok " ++ shows bs
  | some (.endless _), some (.endless val) =>
    let bs := (List.range tk).map val
    "rep " ++ marks toRat slack p.jitter ws bs ++ " base rep " ++ shows bs
  | _, _ => "bad-op"

def runCase (parse : String → Option α) (shw : α → String) (toRat : α → Option Rat) (slack : Bool)
    (fn start stop count factor jitter take draws : String) (observed : Option String) : String :=
  match parse start, parse stop, parseCount? count, parse factor, parse jitter, take.toNat?,
        (if draws = "-" then some [] else listM? parse (splitOnChar draws ',')) with
  | some st, some sp, some (c, m?), some f, some j, some tk, some rs =>
    let p : Params α := mkParams st sp c m? f j
    let r : Nat → α := fun i => rs.getD i 0
    if let some o := observed then runCaseJ shw toRat slack fn p tk (parseObserved parse o) else
    let out := if fn = "I" then some (backoffIter fuel r p) else if fn = "L" then some (backoff fuel r p) else none
    let shows (l : List α) : String := if l.isEmpty then "-" else ",".intercalate (l.map shw)
    match out with
    | none => "bad-op"
    | some .valueError => "err ValueError"
    | some .fuelOut => "fuel"
    | some (.finite vals) => "ok " ++ shows vals
    | some (.endless val) => "rep " ++ shows ((List.range tk).map val)
  | _, _, _, _, _, _, _ => "bad-op"
def parseMut? (parse : String → Option α) : List String → Option (Mut α)
  | ["pop0"] => some .pop0
  | ["pop"] => some .pop
  | ["clear"] => some .clear
  | ["rev"] => some .rev
  | ["keep1"] => some .keep1
  | ["app", x] => (parse x).map .app
  | ["set0", x] => (parse x).map .set0
  | _ => none

/-- an operation and, in acceptance mode, the values the implementation showed for it -/
def parseOp? (parse : String → Option α) : List String → Option (Op α × Option (List (Option α)))
  | [fn, start, stop, count, factor, jitter, draws] =>
    match parse start, parse stop, parseCount? count, parse factor, parse jitter,
          (if draws = "-" then some [] else listM? parse (splitOnChar draws ',')) with
    | some st, some sp, some (c, m?), some f, some j, some rs =>
      let p : Params α := mkParams st sp c m? f j
      let r : Nat → α := fun i => rs.getD i 0
      if fn = "L" then some (.callL p r, none) else if fn = "I" then some (.callI p r, none) else none
    | _, _, _, _, _, _ => none
  | [fn, start, stop, count, factor, jitter, _draws, observed] =>
    match parse start, parse stop, parseCount? count, parse factor, parse jitter with
    | some st, some sp, some (c, m?), some f, some j =>
      let p : Params α := mkParams st sp c m? f j
      if fn = "L" then some (.callL p (fun _ => 0), some (parseObserved parse observed))
      else if fn = "I" then some (.callI p (fun _ => 0), some (parseObserved parse observed)) else none
    | _, _, _, _, _ => none
  | ["P", k, n] =>
    match k.toNat?, n.toNat? with
    | some k, some n => some (.pull k n, none)
    | _, _ => none
  | ["P", k, n, observed] =>
    match k.toNat?, n.toNat? with
    | some k, some n => some (.pull k n, some (parseObserved parse observed))
    | _, _ => none
  | "M" :: k :: rest =>
    match k.toNat?, parseMut? parse rest with
    | some k, some m => some (.chg k m, none)
    | _, _ => none
  | ["R", k] => k.toNat?.map fun k => (.read k, none)
  | _ => none

def showObs (shw : α → String) : Obs α → String
  | .err => "err ValueError"
  | .fuel => "fuel"
  | .vals l => "ok " ++ (if l.isEmpty then "-" else ",".intercalate (l.map shw))
  | .gen => "gen"
  | .pulled l e => "vals " ++ (if l.isEmpty then "-" else ",".intercalate (l.map shw)) ++ (if e then " end" else " more")
  | .mutated => "mut"
  | .skip => "skip"
  | .badIndex => "bad-op"

/-- what is printed for one observation; `j?` = the jitter of the object the operation concerns when that
    object came from a call in acceptance mode (its model values are the un-jittered delays) -/
def showObsJ (shw : α → String) (toRat : α → Option Rat) (slack : Bool) (j? : Option α)
    (observed : Option (List (Option α))) (o : Obs α) : String :=
  match j?, o with
  | some j, .vals l =>
    match observed with
    | some ws => "ok " ++ marks toRat slack j ws l
    | none => "ok " ++ (if l.isEmpty then "-" else ",".intercalate (l.map fun _ => "~"))
  | some j, .pulled l e =>
    "vals " ++ marks toRat slack j (observed.getD []) l ++ (if e then " end" else " more")
  | _, o => showObs shw o

def renderSession (shw : α → String) (toRat : α → Option Rat) (slack : Bool) (js : List (Option α)) :
    Nat → List (Op α × Option (List (Option α))) → List (Obs α) → List String
  | ncalls, (op, observed) :: ops, o :: obs =>
    let (k, ncalls') := match op.target with
      | some k => (k, ncalls)
      | none => (ncalls, ncalls + 1)
    showObsJ shw toRat slack ((js.getD k none)) observed o :: renderSession shw toRat slack js ncalls' ops obs
  | _, _, _ => []

def runSession (parse : String → Option α) (shw : α → String) (toRat : α → Option Rat) (slack : Bool)
    (ops : String) : String :=
  match listM? (fun o => parseOp? parse (words o)) (splitOnChar ops ';') with
  | some opsx =>
    let ops := opsx.map (·.1)
    -- an object is in acceptance mode iff its call carried observed values
    let js : List (Option α) := (opsx.filter fun x => x.1.target.isNone).map fun x =>
      match x.2, x.1 with
      | some _, .callL p _ => some p.jitter
      | some _, .callI p _ => some p.jitter
      | _, _ => none
    let obs := renderSession shw toRat slack js 0 opsx (run fuel [] ops)
    if obs.contains "bad-op" then "bad-op" else " ; ".intercalate obs
  | none => "bad-op"
end

/-- doubles are printed by bit pattern, a zero of either sign as +0 -/
def showFloat (x : Float) : String := if x == 0 then "0000000000000000" else toHex64 x.toBits

def parseFloat (s : String) : Option Float := (hex64? s).map Float.ofBits
def parseRat (s : String) : Option Rat := (hex64? s).bind ratOfBits
def floatToRat (x : Float) : Option Rat := ratOfBits x.toBits

/-- `D` instance: finite non-negative doubles only -/
def parseB64 (s : String) : Option B64 :=
  (hex64? s).bind fun b => if b.toNat < B64.INF then some ⟨b.toNat⟩ else none
def showB64 (x : B64) : String := toHex64 (UInt64.ofNat x.bits)
def b64ToRat (x : B64) : Option Rat := ratOfBits (UInt64.ofNat x.bits)

def handleCase (inst fn start stop count factor jitter take draws : String) (observed : Option String) : String :=
  if inst = "F" then
    runCase (α := Float) parseFloat showFloat floatToRat true fn start stop count factor jitter take draws observed
  else if inst = "Q" then
    runCase (α := Rat) parseRat showRat some false fn start stop count factor jitter take draws observed
  else if inst = "D" then
    runCase (α := B64) parseB64 showB64 b64ToRat true fn start stop count factor jitter take draws observed
  else "bad-op"

def handle (line : String) : String :=
  match splitOnChar line '|' with
  | ["S", inst, ops] =>
    if inst = "F" then runSession (α := Float) parseFloat showFloat floatToRat true ops
    else if inst = "Q" then runSession (α := Rat) parseRat showRat some false ops
    else if inst = "D" then runSession (α := B64) parseB64 showB64 b64ToRat true ops
    else "bad-op"
  | _ =>
  match words line with
  | [inst, fn, start, stop, count, factor, jitter, take, draws] =>
    handleCase inst fn start stop count factor jitter take draws none
  | [inst, fn, start, stop, count, factor, jitter, take, draws, observed] =>
    handleCase inst fn start stop count factor jitter take draws (some observed)
  | _ => "bad-op"

end C15.Driver
