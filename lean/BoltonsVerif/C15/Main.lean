import BoltonsVerif.C15.Driver
def main : IO Unit := BV.mainLoop C15.Driver.handle
