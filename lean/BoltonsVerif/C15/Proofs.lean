import BoltonsVerif.C15.Model
/-
C15 — helper lemmas.

Order layer: an abstract linearly ordered carrier (the laws finite doubles obey),
multiplication by `factor` only assumed inflationary on `(0, stop]`.
Exact layer: `Rat`.
-/
set_option linter.unusedSectionVars false
namespace C15

section Order
variable {α : Type} [LE α] [LT α] [DecidableLE α] [DecidableLT α] [BEq α] [LawfulBEq α]
  [Std.IsLinearOrder α] [Std.LawfulOrderLT α]
  [Mul α] [Sub α] [Neg α] [OfNat α 0] [OfNat α 1]

/-- what the order layer assumes about the carrier and `factor`, `stop`:
    `0 < stop`; `0 ≤ 1`; and `factor ≥ 1` in the only form the order layer can use it:
    multiplying a delay in `(0, stop]` by `factor` does not shrink it
    (true of IEEE multiplication by a factor ≥ 1, whose rounding is monotone). -/
structure Laws (factor stop : α) : Prop where
  stop_pos : 0 < stop
  zero_le_one : (0 : α) ≤ 1
  infl : ∀ x : α, 0 < x → x ≤ stop → x ≤ x * factor

/-- the property's valid parameters: `0 ≤ start ≤ stop`, `0 < stop`, `factor ≥ 1` (as `Laws.infl`) -/
structure Valid (factor stop start : α) : Prop extends Laws factor stop where
  start_nonneg : 0 ≤ start
  start_le_stop : start ≤ stop

theorem cap_le (stop c : α) : cap stop c ≤ stop := by
  unfold cap; split <;> grind

theorem cap_of_le {stop c : α} (h : c ≤ stop) : cap stop c = c := by
  unfold cap; split <;> grind

theorem cap_of_lt {stop c : α} (h : stop < c) : cap stop c = stop := by
  unfold cap; simp [h]

theorem seqAt_zero (factor stop cur : α) : seqAt factor stop cur 0 = cur := rfl

theorem seqAt_succ (factor stop cur : α) (i : Nat) :
    seqAt factor stop cur (i + 1) = next factor stop (seqAt factor stop cur i) := by
  induction i generalizing cur with
  | zero => rfl
  | succ n ih =>
    show seqAt factor stop (next factor stop cur) (n + 1) = _
    rw [ih]; rfl

theorem seqAt_add (factor stop cur : α) (i j : Nat) :
    seqAt factor stop cur (i + j) = seqAt factor stop (seqAt factor stop cur i) j := by
  induction i generalizing cur with
  | zero => simp [seqAt]
  | succ n ih =>
    have : n + 1 + j = (n + j) + 1 := by omega
    rw [this]
    show seqAt factor stop (next factor stop cur) (n + j) = seqAt factor stop (seqAt factor stop (next factor stop cur) n) j
    exact ih _

/-- one step keeps the delay in `[0, stop]` and does not decrease it -/
theorem next_props {factor stop : α} (hv : Laws factor stop) {cur : α}
    (h0 : 0 ≤ cur) (h1 : cur ≤ stop) :
    0 ≤ next factor stop cur ∧ next factor stop cur ≤ stop ∧ cur ≤ next factor stop cur := by
  have hs := hv.stop_pos
  have h01 := hv.zero_le_one
  have hi := hv.infl cur
  unfold next cap grow
  by_cases hc : cur == 0
  · have : cur = 0 := by simpa using hc
    simp only [hc, if_true]
    split <;> grind
  · have hne : cur ≠ 0 := by simpa using hc
    have hpos : 0 < cur := by grind
    have := hi hpos h1
    simp only [hc]
    split <;> split <;> grind

theorem seqAt_range {factor stop start : α} (hv : Valid factor stop start) (i : Nat) :
    0 ≤ seqAt factor stop start i ∧ seqAt factor stop start i ≤ stop := by
  induction i with
  | zero => exact ⟨hv.start_nonneg, hv.start_le_stop⟩
  | succ n ih =>
    rw [seqAt_succ]
    have := next_props hv.toLaws ih.1 ih.2
    exact ⟨this.1, this.2.1⟩

theorem seqAt_step_le {factor stop start : α} (hv : Valid factor stop start) (i : Nat) :
    seqAt factor stop start i ≤ seqAt factor stop start (i + 1) := by
  rw [seqAt_succ]
  have ih := seqAt_range hv i
  exact (next_props hv.toLaws ih.1 ih.2).2.2

theorem seqAt_mono {factor stop start : α} (hv : Valid factor stop start) {i j : Nat} (h : i ≤ j) :
    seqAt factor stop start i ≤ seqAt factor stop start j := by
  induction j with
  | zero => have : i = 0 := by omega
            subst this; exact Std.le_refl _
  | succ n ih =>
    by_cases hij : i = n + 1
    · subst hij; exact Std.le_refl _
    · exact Std.le_trans (ih (by omega)) (seqAt_step_le hv n)

theorem next_stop {factor stop : α} (hv : Laws factor stop) :
    next factor stop stop = stop := by
  have hs := hv.stop_pos
  unfold next cap grow
  have hne : ¬ (stop == (0 : α)) = true := by
    intro h; have : stop = 0 := by simpa using h
    grind
  simp only [hne]
  split <;> grind

theorem seqAt_stays {factor stop start : α} (hv : Valid factor stop start) {i : Nat}
    (h : seqAt factor stop start i = stop) (k : Nat) : seqAt factor stop start (i + k) = stop := by
  induction k with
  | zero => exact h
  | succ n ih =>
    have : i + (n + 1) = (i + n) + 1 := by omega
    rw [this, seqAt_succ, ih, next_stop hv.toLaws]

/-- below the cap a non-zero delay is multiplied by `factor` and capped -/
theorem next_of_ne_zero {factor stop : α} (hv : Laws factor stop) {cur : α}
    (h0 : 0 ≤ cur) (h1 : cur ≤ stop) (hne : cur ≠ 0) :
    next factor stop cur = if stop < cur * factor then stop else cur * factor := by
  have hi := hv.infl cur (by grind) h1
  have hc : ¬ (cur == (0 : α)) = true := by simpa using hne
  unfold next cap grow
  simp only [hc]
  by_cases hlt : cur < stop
  · simp [hlt]
  · have : cur = stop := by grind
    simp only [hlt]
    split <;> grind

theorem next_zero (factor stop : α) :
    next factor stop (0 : α) = if stop < 1 then stop else 1 := by
  unfold next cap grow; simp

/-! ### the yielded values -/

theorem valsFrom_length (factor stop jitter : α) (r : Nat → α) (n i : Nat) (cur : α) :
    (valsFrom factor stop jitter r n i cur).length = n := by
  induction n generalizing i cur with
  | zero => rfl
  | succ k ih => simp [valsFrom, ih]

theorem valsFrom_getElem? (factor stop jitter : α) (r : Nat → α) (n i : Nat) (cur : α) (k : Nat) (hk : k < n) :
    (valsFrom factor stop jitter r n i cur)[k]? = some (emit jitter (r (i + k)) (seqAt factor stop cur k)) := by
  induction n generalizing i cur k with
  | zero => omega
  | succ m ih =>
    cases k with
    | zero => simp [valsFrom, seqAt]
    | succ k' =>
      simp only [valsFrom, List.getElem?_cons_succ]
      rw [ih (i + 1) (next factor stop cur) k' (by omega)]
      have : i + 1 + k' = i + (k' + 1) := by omega
      rw [this]; rfl

theorem emit_off (r cur : α) : emit (0 : α) r cur = cur := by
  unfold emit; simp

theorem valsFrom_eq_map (factor stop jitter : α) (r : Nat → α) (n : Nat) (cur : α) :
    valsFrom factor stop jitter r n 0 cur =
      (List.range n).map fun i => emit jitter (r i) (seqAt factor stop cur i) := by
  apply List.ext_getElem?
  intro k
  by_cases hk : k < n
  · rw [valsFrom_getElem? _ _ _ _ _ _ _ _ hk]
    simp [hk]
  · have h1 : (valsFrom factor stop jitter r n 0 cur).length ≤ k := by
      rw [valsFrom_length]; omega
    rw [List.getElem?_eq_none h1]
    symm
    apply List.getElem?_eq_none
    simp; omega

/-! ### the default-count loop -/

theorem defaultCount_zero (factor stop cur : α) (n : Nat) :
    defaultCount factor stop 0 cur n = .fuelOut := rfl

theorem defaultCount_done (factor stop : α) (fuel : Nat) (cur : α) (n : Nat) (h : ¬ cur < stop) :
    defaultCount factor stop (fuel + 1) cur n = .count n := by
  simp [defaultCount, h]

theorem defaultCount_step (factor stop : α) (fuel : Nat) (cur : α) (n : Nat) (h : cur < stop) :
    defaultCount factor stop (fuel + 1) cur n =
      if (bump factor cur) == cur then .noProgress
      else defaultCount factor stop fuel (bump factor cur) (n + 1) := by
  simp [defaultCount, h]

/-- more fuel never changes a result -/
theorem defaultCount_fuel_mono (factor stop : α) (fuel d : Nat) (cur : α) (n : Nat)
    (h : defaultCount factor stop fuel cur n ≠ .fuelOut) :
    defaultCount factor stop (fuel + d) cur n = defaultCount factor stop fuel cur n := by
  induction fuel generalizing cur n with
  | zero => exact absurd rfl h
  | succ k ih =>
    have e : k + 1 + d = (k + d) + 1 := by omega
    rw [e]
    by_cases hlt : cur < stop
    · rw [defaultCount_step _ _ _ _ _ hlt] at h ⊢
      rw [defaultCount_step _ _ _ _ _ hlt]
      by_cases hnp : (bump factor cur == cur) = true
      · simp [hnp]
      · simp only [hnp] at h ⊢
        exact ih _ _ h
    · rw [defaultCount_done _ _ _ _ _ hlt, defaultCount_done _ _ _ _ _ hlt]

/-- when the loop finishes with `m`, the capped sequence is at `stop` exactly at position `m - n`
    and below `stop` before -/
theorem defaultCount_spec {factor stop : α} (hv : Laws factor stop) (fuel : Nat) (cur : α) (n m : Nat)
    (h0 : 0 ≤ cur) (h : defaultCount factor stop fuel cur n = .count m) :
    n ≤ m ∧ seqAt factor stop (cap stop cur) (m - n) = stop ∧
      ∀ k, k < m - n → seqAt factor stop (cap stop cur) k < stop := by
  induction fuel generalizing cur n with
  | zero => simp [defaultCount] at h
  | succ f ih =>
    by_cases hlt : cur < stop
    · rw [defaultCount_step _ _ _ _ _ hlt] at h
      by_cases hnp : (bump factor cur == cur) = true
      · simp [hnp] at h
      · simp only [hnp] at h
        have hcap : cap stop cur = cur := cap_of_le (by grind)
        -- the un-capped successor used by the counting loop
        have hg : grow factor stop cur = (bump factor cur) := by
          unfold grow bump; simp [hlt]
        have hnx0 : (0 : α) ≤ (bump factor cur) := by
          unfold bump
          split
          · exact hv.zero_le_one
          · rename_i hc
            have hne : cur ≠ 0 := by simpa using hc
            have := hv.infl cur (by grind) (by grind)
            grind
        have := ih _ _ hnx0 h
        obtain ⟨h1, h2, h3⟩ := this
        have hnext : cap stop (bump factor cur) = next factor stop cur := by
          unfold next; rw [hg]
        rw [hnext] at h2 h3
        have hmn : m - n = (m - (n + 1)) + 1 := by omega
        refine ⟨by omega, ?_, ?_⟩
        · rw [hcap, hmn]; exact h2
        · intro k hk
          rw [hcap]
          cases k with
          | zero => exact hlt
          | succ k' => exact h3 k' (by omega)
    · rw [defaultCount_done _ _ _ _ _ hlt] at h
      have : n = m := by simpa using h
      subst this
      refine ⟨Nat.le_refl _, ?_, ?_⟩
      · simp only [Nat.sub_self, seqAt]
        unfold cap; split <;> grind
      · intro k hk; omega

/-- if the capped sequence reaches `stop` after `k` steps and every step below `stop` makes
    progress, then `k + 1` units of fuel suffice and the loop ends with a count -/
theorem defaultCount_terminates {factor stop : α} (hv : Laws factor stop)
    (h01 : (1 : α) ≠ 0)
    (strict : ∀ x : α, 0 < x → x < stop → x * factor ≠ x)
    (k : Nat) (cur : α) (n fuel : Nat) (h0 : 0 ≤ cur)
    (hk : seqAt factor stop (cap stop cur) k = stop) (hf : k + 1 ≤ fuel) :
    ∃ m, defaultCount factor stop fuel cur n = .count m := by
  induction k generalizing cur n fuel with
  | zero =>
    obtain ⟨f, rfl⟩ : ∃ f, fuel = f + 1 := ⟨fuel - 1, by omega⟩
    have : ¬ cur < stop := by
      simp only [seqAt] at hk
      unfold cap at hk; split at hk <;> grind
    exact ⟨n, defaultCount_done _ _ _ _ _ this⟩
  | succ k ih =>
    obtain ⟨f, rfl⟩ : ∃ f, fuel = f + 1 := ⟨fuel - 1, by omega⟩
    by_cases hlt : cur < stop
    · rw [defaultCount_step _ _ _ _ _ hlt]
      have hcap : cap stop cur = cur := cap_of_le (by grind)
      have hg : grow factor stop cur = (bump factor cur) := by
        unfold grow bump; simp [hlt]
      have hnp : ¬ ((bump factor cur) == cur) = true := by
        unfold bump
        by_cases hc : cur == 0
        · have : cur = 0 := by simpa using hc
          subst this; simpa using h01
        · have hne : cur ≠ 0 := by simpa using hc
          simp only [hc]
          have := strict cur (by grind) hlt
          simpa using this
      simp only [hnp]
      have hnx0 : (0 : α) ≤ (bump factor cur) := by
        unfold bump
        split
        · exact hv.zero_le_one
        · rename_i hc
          have hne : cur ≠ 0 := by simpa using hc
          have := hv.infl cur (by grind) (by grind)
          grind
      apply ih _ _ _ hnx0
      · have hnext : cap stop (bump factor cur) = next factor stop cur := by
          unfold next; rw [hg]
        rw [hnext]
        rw [hcap] at hk
        exact hk
      · omega
    · exact ⟨n, defaultCount_done _ _ _ _ _ hlt⟩

/-! ### parameters -/

/-- the values of a finite outcome (for the non-vacuity examples) -/
def Outcome.vals? : Outcome α → Option (List α)
  | .finite vals => some vals
  | _ => none

/-- valid parameters as the code tests them plus the order-layer reading of `factor ≥ 1` -/
structure ValidParams (p : Params α) : Prop where
  valid : Valid p.factor p.stop p.start
  factor_ge : 1 ≤ p.factor

/-- the value yielded at position `i` -/
abbrev yieldAt (r : Nat → α) (p : Params α) (i : Nat) : α :=
  emit p.jitter (r i) (seqAt p.factor p.stop p.start i)

theorem rangeBad_false {p : Params α} (hp : ValidParams p) : rangeBad p = false := by
  have h1 := hp.valid.start_nonneg
  have h2 := hp.valid.start_le_stop
  have h3 := hp.valid.stop_pos
  have h4 := hp.factor_ge
  have hs : ¬ p.stop = 0 := by grind
  unfold rangeBad
  simp only [Bool.or_eq_false_iff, decide_eq_false_iff_not, beq_eq_false_iff_ne, ne_eq]
  refine ⟨⟨⟨?_, ?_⟩, hs⟩, ?_⟩ <;> grind

/-- `jitter` is acceptable: off, or within `[-1, 1]` -/
def JitterOk (p : Params α) : Prop := p.jitter = 0 ∨ (-1 ≤ p.jitter ∧ p.jitter ≤ 1)

theorem jitterBad_false {p : Params α} (hj : JitterOk p) : jitterBad p = false := by
  unfold jitterBad
  rcases hj with h | ⟨h1, h2⟩
  · simp [h]
  · simp [h1, h2]

/-- neither the range checks nor the resolved count look at `jitter` -/
theorem rangeBad_jitter (p : Params α) (j : α) : rangeBad { p with jitter := j } = rangeBad p := rfl
theorem resolveCount_jitter (fuel : Nat) (p : Params α) (j : α) :
    resolveCount fuel { p with jitter := j } = resolveCount fuel p := rfl

end Order
/-! ### exact layer: the rationals -/
section Exact

theorem rat_laws {factor stop : Rat} (hs : 0 < stop) (hf : 1 ≤ factor) : Laws factor stop := by
  refine ⟨hs, by decide, ?_⟩
  intro x hx _
  have := Rat.mul_le_mul_of_nonneg_left hf (Rat.le_of_lt hx)
  grind

theorem rat_valid {factor stop start : Rat} (h0 : 0 ≤ start) (h1 : start ≤ stop) (hs : 0 < stop)
    (hf : 1 ≤ factor) : Valid factor stop start :=
  { rat_laws hs hf with start_nonneg := h0, start_le_stop := h1 }

theorem rat_strict {factor : Rat} (hf : 1 < factor) (x : Rat) (hx : 0 < x) : x * factor ≠ x := by
  have := Rat.mul_lt_mul_of_pos_left hf hx
  grind

theorem bernoulli (f : Rat) (k : Nat) (hf : 1 ≤ f) : 1 + (k : Rat) * (f - 1) ≤ f ^ k := by
  induction k with
  | zero => simp; grind
  | succ n ih =>
    have hn : 0 ≤ (n : Rat) := by exact_mod_cast Nat.zero_le n
    have h2 : 0 ≤ (n : Rat) * (f - 1) * (f - 1) := by
      apply Rat.mul_nonneg
      · apply Rat.mul_nonneg hn; grind
      · grind
    rw [Rat.pow_succ]
    have : (1 + (n : Rat) * (f - 1)) * f ≤ f ^ n * f := Rat.mul_le_mul_of_nonneg_right ih (by grind)
    push_cast
    grind

theorem one_le_pow (f : Rat) (k : Nat) (hf : 1 ≤ f) : 1 ≤ f ^ k := by
  have h := bernoulli f k hf
  have hn : 0 ≤ (k : Rat) := by exact_mod_cast Nat.zero_le k
  have : 0 ≤ (k : Rat) * (f - 1) := Rat.mul_nonneg hn (by grind)
  grind

theorem exists_nat_ge (q : Rat) : ∃ k : Nat, q ≤ (k : Rat) := by
  refine ⟨q.ceil.toNat, ?_⟩
  have h1 := @Rat.le_ceil q
  have h2 : q.ceil ≤ (q.ceil.toNat : Int) := Int.self_le_toNat _
  have h3 : (q.ceil : Rat) ≤ ((q.ceil.toNat : Int) : Rat) := by exact_mod_cast h2
  have : ((q.ceil.toNat : Int) : Rat) = (q.ceil.toNat : Rat) := by norm_cast
  grind

/-- a geometric sequence with ratio `> 1` passes every bound (Archimedean property via Bernoulli) -/
theorem pow_reaches (f s x : Rat) (hf : 1 < f) (hx : 0 < x) : ∃ k : Nat, s ≤ x * f ^ k := by
  have hd : 0 < x * (f - 1) := Rat.mul_pos hx (by grind)
  have hdne : x * (f - 1) ≠ 0 := by grind
  obtain ⟨k, hk⟩ := exists_nat_ge ((s - x) / (x * (f - 1)))
  refine ⟨k, ?_⟩
  have h1 := Rat.mul_le_mul_of_nonneg_right hk (Rat.le_of_lt hd)
  rw [Rat.div_mul_cancel hdne] at h1
  have h2 := Rat.mul_le_mul_of_nonneg_left (bernoulli f k (Rat.le_of_lt hf)) (Rat.le_of_lt hx)
  grind

/-- closed form of the un-jittered sequence for a positive start -/
theorem seqAt_closed_pos {factor stop start : Rat} (hv : Valid factor stop start) (hf : 1 ≤ factor)
    (hpos : 0 < start) (i : Nat) :
    seqAt factor stop start i = min (start * factor ^ i) stop := by
  induction i with
  | zero =>
    have := hv.start_le_stop
    simp only [seqAt, Rat.pow_zero, Rat.mul_one]
    grind
  | succ n ih =>
    rw [seqAt_succ, ih]
    have hs := hv.stop_pos
    have hp : 0 < start * factor ^ n := Rat.mul_pos hpos (Rat.pow_pos (by grind))
    have hc0 : 0 ≤ min (start * factor ^ n) stop := by grind
    have hc1 : min (start * factor ^ n) stop ≤ stop := by grind
    have hcne : min (start * factor ^ n) stop ≠ 0 := by grind
    rw [next_of_ne_zero hv.toLaws hc0 hc1 hcne]
    have e : start * factor ^ (n + 1) = start * factor ^ n * factor := by
      rw [Rat.pow_succ, Rat.mul_assoc]
    rw [e]
    have h1 : stop ≤ stop * factor := by
      have := Rat.mul_le_mul_of_nonneg_left hf (Rat.le_of_lt hs); grind
    have h2 : start * factor ^ n ≤ start * factor ^ n * factor := by
      have := Rat.mul_le_mul_of_nonneg_left hf (Rat.le_of_lt hp); grind
    by_cases hle : start * factor ^ n ≤ stop
    · have : min (start * factor ^ n) stop = start * factor ^ n := by grind
      rw [this]; split <;> grind
    · have : min (start * factor ^ n) stop = stop := by grind
      rw [this]; split <;> grind

/-- `emit` stays between `b` and `b * (1 - j)` -/
theorem emit_bounds (j r b : Rat) (hb : 0 ≤ b) (hr0 : 0 ≤ r) (hr1 : r ≤ 1) :
    (0 ≤ j → b * (1 - j) ≤ emit j r b ∧ emit j r b ≤ b) ∧
    (j ≤ 0 → b ≤ emit j r b ∧ emit j r b ≤ b * (1 - j)) := by
  have ht0 : 0 ≤ b * r := Rat.mul_nonneg hb hr0
  have ht1 : b * r ≤ b := by
    have := Rat.mul_le_mul_of_nonneg_left hr1 hb; grind
  unfold emit
  by_cases hj : j = 0
  · subst hj; simp; constructor <;> grind
  · have hjb : ¬ (j == 0) = true := by simpa using hj
    simp only [hjb]
    constructor
    · intro hj0
      have h1 := Rat.mul_le_mul_of_nonneg_left ht1 hj0
      have h2 := Rat.mul_nonneg hj0 ht0
      constructor <;> grind
    · intro hj0
      have hj' : 0 ≤ -j := by grind
      have h1 := Rat.mul_le_mul_of_nonneg_left ht1 hj'
      have h2 := Rat.mul_nonneg hj' ht0
      constructor <;> grind

end Exact

end C15
