import BoltonsVerif.C15.Model
/-
C15 — sessions: SEVERAL calls of `backoff` / `backoff_iter` made by one caller, the lists it was
handed being changed by the caller in between and the generators being advanced in any
interleaving (core Lean only).

`boltons.iterutils.backoff` builds a new list on every call and `backoff_iter` is a generator
function whose only state are the locals of its frame: nothing is shared between calls.  The
session model says exactly that: a register file of the objects handed out so far (one per
call, in call order); a call only appends a new object that is a function of its own
arguments; advancing a generator / changing a list touches that one object.

Python                                         model
------------------------------------------     -----------------------------------
`lst = backoff(...)`                           `Op.callL p r`  → `Obj.lst vals` (`Obj.failed` when it raised)
`it = backoff_iter(...)` (nothing runs yet)    `Op.callI p r`  → `Obj.genFin / genInf / genErr / genFuel`
`next(it)` n times                             `Op.pull k n`
`lst.pop(0)`, `lst.pop()`, `lst.clear()`, `lst.append(x)`, `lst.reverse()`, `lst[0] = x`,
`del lst[1:]`  (the caller's own doing)        `Op.chg k m`
`list(lst)` (looking at a list again)          `Op.read k`
validation runs at the first `next()`;
a generator that raised is finished             `Obj.genErr` → `Obs.err`, then `Obj.genDead`
-/
namespace C15

/-- what a caller may do to a list it was handed -/
inductive Mut (α : Type) where
  | pop0
  | pop
  | clear
  | app (x : α)
  | rev
  | set0 (x : α)
  | keep1

def Mut.apply {α : Type} : Mut α → List α → List α
  | .pop0, l => l.drop 1
  | .pop, l => l.dropLast
  | .clear, _ => []
  | .app x, l => l ++ [x]
  | .rev, l => l.reverse
  | .set0 x, l => match l with
    | [] => []
    | _ :: t => x :: t
  | .keep1, l => l.take 1

/-- an object handed to the caller -/
inductive Obj (α : Type) where
  /-- the list a `backoff` call returned; it belongs to the caller -/
  | lst (vals : List α)
  /-- the `backoff` call raised: there is no object -/
  | failed
  /-- a generator with a finite number of values left -/
  | genFin (rest : List α)
  /-- an endless generator (`count='repeat'`) that has yielded `pos` values -/
  | genInf (val : Nat → α) (pos : Nat)
  /-- a generator not yet started whose validation will raise ValueError at the first `next()` -/
  | genErr
  /-- model artefact: default-count fuel too small -/
  | genFuel
  /-- a generator that has raised -/
  | genDead

def Obj.ofOutcome {α : Type} : Outcome α → Obj α
  | .valueError => .genErr
  | .fuelOut => .genFuel
  | .finite vals => .genFin vals
  | .endless val => .genInf val 0

inductive Op (α : Type) where
  | callL (p : Params α) (r : Nat → α)
  | callI (p : Params α) (r : Nat → α)
  | pull (k n : Nat)
  | chg (k : Nat) (m : Mut α)
  | read (k : Nat)

/-- the object an operation addresses (calls address none: they create one) -/
def Op.target {α : Type} : Op α → Option Nat
  | .callL _ _ => none
  | .callI _ _ => none
  | .pull k _ => some k
  | .chg k _ => some k
  | .read k => some k

/-- what the caller sees of one operation -/
inductive Obs (α : Type) where
  /-- ValueError -/
  | err
  | fuel
  /-- the list returned by `backoff`, or a list looked at again -/
  | vals (l : List α)
  /-- a generator object was returned -/
  | gen
  /-- the values `next()` returned; `ended` = StopIteration was seen -/
  | pulled (l : List α) (ended : Bool)
  | mutated
  /-- the operation does not apply to that object (a list operation on a generator, …) -/
  | skip
  | badIndex

def Obs.values {α : Type} : Obs α → List α
  | .vals l => l
  | .pulled l _ => l
  | _ => []

/-- what `backoff` shows its caller, and the object the caller then holds -/
def listObs {α : Type} : Outcome α → Obs α
  | .finite vals => .vals vals
  | .fuelOut => .fuel
  | _ => .err

def listObj {α : Type} : Outcome α → Obj α
  | .finite vals => .lst vals
  | _ => .failed

/-- `next()` n times on one generator -/
def pullObj {α : Type} : Obj α → Nat → Obj α × Obs α
  | .genFin rest, n => (.genFin (rest.drop n), .pulled (rest.take n) (decide (rest.length < n)))
  | .genInf val pos, n => (.genInf val (pos + n), .pulled ((List.range n).map fun i => val (pos + i)) false)
  | .genErr, 0 => (.genErr, .pulled [] false)
  | .genErr, _ + 1 => (.genDead, .err)
  | .genFuel, 0 => (.genFuel, .pulled [] false)
  | .genFuel, _ + 1 => (.genFuel, .fuel)
  | .genDead, n => (.genDead, .pulled [] (decide (0 < n)))
  | o, _ => (o, .skip)

section
variable {α : Type} [LE α] [LT α] [DecidableLE α] [DecidableLT α] [BEq α]
  [Mul α] [Sub α] [Neg α] [OfNat α 0] [OfNat α 1]

def stepPull (s : List (Obj α)) (k n : Nat) : List (Obj α) × Obs α :=
  match s[k]? with
  | some o => (s.set k (pullObj o n).1, (pullObj o n).2)
  | none => (s, .badIndex)

def stepChg (s : List (Obj α)) (k : Nat) (m : Mut α) : List (Obj α) × Obs α :=
  match s[k]? with
  | some (.lst v) => (s.set k (.lst (m.apply v)), .mutated)
  | some _ => (s, .skip)
  | none => (s, .badIndex)

def stepRead (s : List (Obj α)) (k : Nat) : List (Obj α) × Obs α :=
  match s[k]? with
  | some (.lst v) => (s, .vals v)
  | some _ => (s, .skip)
  | none => (s, .badIndex)

/-- one operation on the register file `s` of the objects handed out so far -/
def step (fuel : Nat) (s : List (Obj α)) : Op α → List (Obj α) × Obs α
  | .callL p r => (s ++ [listObj (backoff fuel r p)], listObs (backoff fuel r p))
  | .callI p r => (s ++ [Obj.ofOutcome (backoffIter fuel r p)], .gen)
  | .pull k n => stepPull s k n
  | .chg k m => stepChg s k m
  | .read k => stepRead s k

/-- the register file after a history -/
def runState (fuel : Nat) : List (Obj α) → List (Op α) → List (Obj α)
  | s, [] => s
  | s, op :: ops => runState fuel (step fuel s op).1 ops

/-- what the caller sees, operation by operation -/
def run (fuel : Nat) : List (Obj α) → List (Op α) → List (Obs α)
  | _, [] => []
  | s, op :: ops => (step fuel s op).2 :: run fuel (step fuel s op).1 ops

end
end C15
