import BoltonsVerif.Generated.Src_iterutils_backoff
import BoltonsVerif.C15.Session
import BoltonsVerif.C15.Props
/-
C15 — source-translator tie for `boltons.iterutils.backoff_iter` (round 3d).

`Src.iterutils.backoff_iter fuel n rnd start stop count factor jitter` is regenerated from the Python source on every
run (harness/py2lean_c15.py): what `n` calls of `next()` on a fresh generator show.  The tie says that this is what
the hand model says — `pullObj (Obj.ofOutcome (backoffIter fuel rnd p)) n` of Session.lean — at EVERY carrier `α`
with the bare operations (no laws: the generated definition applies the same operations to the same operands as
the model, so the equality is one of terms), for every fuel `≥ n`.

Proof style: both loops are characterised by a specification lemma proved by induction with the runtime
combinators as simp set and a leaf-wise case analysis (`tie_split`): nothing follows the statement order of the
source.
-/
namespace C15
open Src.iterutils PyRtC15

/-! ## 0. evaluation of the runtime combinators -/

section combinators
variable {α β γ : Type}

@[simp] theorem g_pure (v : β) (s : GSt) : (G.pure v : G α β) s = .cont [] v s := rfl
@[simp] theorem g_raise (e : PyExc) (s : GSt) : (G.raise e : G α β) s = .stop [] (.raised e) := rfl
@[simp] theorem g_ret (s : GSt) : (G.ret : G α β) s = .stop [] .returned := rfl
@[simp] theorem g_outOfFuel (s : GSt) : (G.outOfFuel : G α β) s = .stop [] .outOfFuel := rfl
@[simp] theorem g_draw (rnd : Nat → α) (s : GSt) :
    G.draw rnd s = .cont [] (rnd s.draws) { s with draws := s.draws + 1 } := rfl
@[simp] theorem g_ofExcept_ok (v : β) : (G.ofExcept (.ok v) : G α β) = G.pure v := rfl
@[simp] theorem g_ofExcept_error (e : PyExc) : (G.ofExcept (.error e) : G α β) = G.raise e := rfl
@[simp] theorem g_unbox_some (v : β) : (G.unbox (some v) : G α β) = G.pure v := rfl
@[simp] theorem g_unbox_none : (G.unbox none : G α β) = G.raise .Other := rfl
@[simp] theorem g_bind (m : G α β) (f : β → G α γ) (s : GSt) :
    G.bind m f s = (match m s with
      | .cont o v s1 => (f v s1).prepend o
      | .stop o h => .stop o h) := rfl
@[simp] theorem prepend_cont (o out : List α) (v : β) (s : GSt) :
    (Res.cont out v s : Res α β).prepend o = .cont (o ++ out) v s := rfl
@[simp] theorem prepend_stop (o out : List α) (h : Stop) :
    (Res.stop out h : Res α β).prepend o = .stop (o ++ out) h := rfl
@[simp] theorem prepend_nil (r : Res α β) : r.prepend [] = r := by cases r <;> rfl
theorem g_yield_one (v : α) (s : GSt) (h : s.left = 1) : G.yield_ v s = .stop [v] .suspended := by
  simp [G.yield_, h]
theorem g_yield_more (v : α) (s : GSt) (k : Nat) (h : s.left = k + 2) :
    G.yield_ v s = .cont [v] () { s with left := k + 1 } := by
  simp [G.yield_, h]
@[simp] theorem if_apply (c : Prop) [Decidable c] (a b : G α β) (s : GSt) :
    (if c then a else b) s = if c then a s else b s := by split <;> rfl

@[simp] theorem cv_isNone_none : CountV.isNone .none = true := rfl
@[simp] theorem cv_isNone_str (t : String) : CountV.isNone (.str t) = false := rfl
@[simp] theorem cv_isNone_int (k : Int) : CountV.isNone (.int k) = false := rfl
@[simp] theorem cv_eqStr_none (t : String) : CountV.eqStr .none t = false := rfl
@[simp] theorem cv_eqStr_str (u t : String) : CountV.eqStr (.str u) t = (u == t) := rfl
@[simp] theorem cv_eqStr_int (k : Int) (t : String) : CountV.eqStr (.int k) t = false := rfl
@[simp] theorem cv_ltInt_int (j k : Int) : CountV.ltInt (.int j) k = .ok (decide (j < k)) := rfl
@[simp] theorem cv_intLt_int (j k : Int) : CountV.intLt k (.int j) = .ok (decide (k < j)) := rfl
@[simp] theorem cv_leInt_int (j k : Int) : CountV.leInt (.int j) k = .ok (decide (j ≤ k)) := rfl
@[simp] theorem cv_intLe_int (j k : Int) : CountV.intLe k (.int j) = .ok (decide (k ≤ j)) := rfl
@[simp] theorem cv_ltInt_str (t : String) (k : Int) : CountV.ltInt (.str t) k = .error .TypeError := rfl
@[simp] theorem cv_intLt_str (t : String) (k : Int) : CountV.intLt k (.str t) = .error .TypeError := rfl
@[simp] theorem cv_addInt_int (j k : Int) : CountV.addInt (.int j) k = .ok (.int (j + k)) := rfl
@[simp] theorem cv_subInt_int (j k : Int) : CountV.subInt (.int j) k = .ok (.int (j - k)) := rfl

end combinators

/-- leaf-wise case analysis: split every `if` / `match` left, normalise, close -/
local macro "tie_split" : tactic =>
  `(tactic| try ((repeat' (first | split | (intro _))) <;> simp_all))

section
variable {α : Type} [LE α] [LT α] [DecidableLE α] [DecidableLT α] [BEq α]
  [Mul α] [Sub α] [Neg α] [OfNat α 0] [OfNat α 1]

/-! ## 1. what the model's arguments are for the source -/

/-- the `count` argument of the call: `None`, `'repeat'`, an int -/
def countArg : Count → CountV
  | .dflt => .none
  | .rep => .str "repeat"
  | .num k => .int k

/-- what `n` calls of `next()` show, as the source translator's runtime reports it -/
def shown : Obs α → List α × Stop
  | .pulled l false => (l, .suspended)
  | .pulled l true => (l, .returned)
  | .err => ([], .raised .ValueError)
  | .fuel => ([], .outOfFuel)
  | _ => ([], .raised .Other)

/-! ## 2. the default-count loop -/

/-- the value of `cur` when the default-count loop is left -/
def dcCur (factor stop : α) : Nat → α → α
  | 0, c => c
  | f + 1, c => if c < stop then (if bump factor c == c then c else dcCur factor stop f (bump factor c)) else c

theorem dloop_spec (rnd : Nat → α) (stop factor : α) (fuel : Nat) (k : Nat) (cur : α) (s : GSt) :
    backoff_iter.loop1 rnd factor stop fuel (.int k) cur s =
      (match defaultCount factor stop fuel cur k with
       | .count m => .cont [] (.int m, dcCur factor stop fuel cur) s
       | .noProgress => .stop [] (.raised .ValueError)
       | .fuelOut => .stop [] .outOfFuel) := by
  induction fuel generalizing k cur with
  | zero => simp [backoff_iter.loop1, defaultCount]
  | succ f ih =>
    have ih' := fun c => ih (k + 1) c
    simp only [Int.natCast_add, Int.cast_ofNat_Int] at ih'
    simp only [backoff_iter.loop1, defaultCount, dcCur, bump]
    by_cases h1 : cur < stop <;> by_cases h2 : (cur == (0 : α)) = true <;>
      simp [h1, h2, ih'] <;> tie_split

/-! ## 3. the main loop -/

theorem valsFrom_map (factor stop jitter : α) (r : Nat → α) (n i : Nat) (cur : α) :
    valsFrom factor stop jitter r n i cur =
      (List.range n).map fun j => emit jitter (r (i + j)) (seqAt factor stop cur j) := by
  induction n generalizing i cur with
  | zero => rfl
  | succ m ih =>
    rw [List.range_succ_eq_map]
    simp only [valsFrom, List.map_cons, List.map_map, ih, seqAt, Nat.add_zero]
    congr 1
    apply List.map_congr_left
    intro j _
    simp only [Function.comp, seqAt]
    congr 2
    omega


/-- `count` in the main loop: `'repeat'` or the resolved number -/
def limArg : Option Nat → CountV
  | none => .str "repeat"
  | some m => .int m

/-- how many values the main loop still yields at position `i` when `L + 1` are asked for -/
def rem (lim : Option Nat) (i L : Nat) : Nat :=
  match lim with
  | none => L + 1
  | some m => m - i

def _root_.PyRtC15.Res.out {β : Type} : Res α β → List α
  | .cont o _ _ => o
  | .stop o _ => o

/-- `none`: the computation went on -/
def _root_.PyRtC15.Res.how {β : Type} : Res α β → Option Stop
  | .cont _ _ _ => none
  | .stop _ h => some h

omit [LE α] [LT α] [DecidableLE α] [DecidableLT α] [BEq α] [Mul α] [Sub α] [Neg α] [OfNat α 0] [OfNat α 1] in
@[simp] theorem out_prepend {β : Type} (o : List α) (r : Res α β) : (r.prepend o).out = o ++ r.out := by
  cases r <;> rfl
omit [LE α] [LT α] [DecidableLE α] [DecidableLT α] [BEq α] [Mul α] [Sub α] [Neg α] [OfNat α 0] [OfNat α 1] in
@[simp] theorem how_prepend {β : Type} (o : List α) (r : Res α β) : (r.prepend o).how = r.how := by
  cases r <;> rfl

omit [LE α] [LT α] [DecidableLE α] [DecidableLT α] [BEq α] [Mul α] [Sub α] [Neg α] [OfNat α 0] [OfNat α 1] in
@[simp] theorem out_cont {β : Type} (o : List α) (v : β) (s : GSt) : (Res.cont o v s).out = o := rfl
omit [LE α] [LT α] [DecidableLE α] [DecidableLT α] [BEq α] [Mul α] [Sub α] [Neg α] [OfNat α 0] [OfNat α 1] in
@[simp] theorem out_stop {β : Type} (o : List α) (h : Stop) : (Res.stop o h : Res α β).out = o := rfl
omit [LE α] [LT α] [DecidableLE α] [DecidableLT α] [BEq α] [Mul α] [Sub α] [Neg α] [OfNat α 0] [OfNat α 1] in
@[simp] theorem how_cont {β : Type} (o : List α) (v : β) (s : GSt) : (Res.cont o v s).how = none := rfl
omit [LE α] [LT α] [DecidableLE α] [DecidableLT α] [BEq α] [Mul α] [Sub α] [Neg α] [OfNat α 0] [OfNat α 1] in
@[simp] theorem how_stop {β : Type} (o : List α) (h : Stop) : (Res.stop o h : Res α β).how = some h := rfl
omit [LE α] [LT α] [DecidableLE α] [DecidableLT α] [BEq α] [Mul α] [Sub α] [Neg α] [OfNat α 0] [OfNat α 1] in
@[simp] theorem out_ite {β : Type} (c : Prop) [Decidable c] (a b : Res α β) :
    (if c then a else b).out = if c then a.out else b.out := by split <;> rfl
omit [LE α] [LT α] [DecidableLE α] [DecidableLT α] [BEq α] [Mul α] [Sub α] [Neg α] [OfNat α 0] [OfNat α 1] in
@[simp] theorem how_ite {β : Type} (c : Prop) [Decidable c] (a b : Res α β) :
    (if c then a else b).how = if c then a.how else b.how := by split <;> rfl

set_option maxHeartbeats 1000000 in
theorem mloop_spec (rnd : Nat → α) (stop factor jitter : α) (lim : Option Nat) (fuel : Nat) :
    ∀ (L i : Nat) (cr : Option α) (cur : α) (dr : Nat), L + 1 ≤ fuel → ((jitter == 0) = true ∨ dr = i) →
      (backoff_iter.loop2 rnd (limArg lim) factor jitter stop fuel cur cr i ⟨L + 1, dr⟩).out
          = valsFrom factor stop jitter rnd (min (rem lim i L) (L + 1)) i cur ∧
      (backoff_iter.loop2 rnd (limArg lim) factor jitter stop fuel cur cr i ⟨L + 1, dr⟩).how
          = if rem lim i L ≤ L then none else some .suspended := by
  induction fuel with
  | zero => intro L i cr cur dr h; omega
  | succ f ih =>
    intro L i cr cur dr hf hd
    have ihn := fun L' hL cr c d hd' => ih L' (i + 1) cr c d hL hd'
    simp only [Int.natCast_add, Int.cast_ofNat_Int] at ihn
    have vs : ∀ k c, valsFrom factor stop jitter rnd (k + 1) i c
        = emit jitter (rnd i) c :: valsFrom factor stop jitter rnd k (i + 1) (next factor stop c) := fun _ _ => rfl
    have v0 : ∀ j c, valsFrom factor stop jitter rnd 0 j c = [] := fun _ _ => rfl
    cases L with
    | zero =>
      clear ih ihn
      cases lim with
      | none =>
        have e : min (rem none i 0) (0 + 1) = 0 + 1 := by simp [rem]
        have e2 : ¬ (rem none i 0 ≤ 0) := by simp [rem]
        rw [e, vs, v0]
        rcases hd with hd | hd <;>
        simp [backoff_iter.loop2, G.yield_, limArg, emit, hd, e2] <;> tie_split
      | some m =>
        by_cases hlt : i < m
        · have e : min (rem (some m) i 0) (0 + 1) = 0 + 1 := by simp [rem]; omega
          have e2 : ¬ (rem (some m) i 0 ≤ 0) := by simp [rem]; omega
          rw [e, vs, v0]
          rcases hd with hd | hd <;>
          simp [backoff_iter.loop2, G.yield_, limArg, emit, hd, hlt, e2] <;> tie_split
        · have e : min (rem (some m) i 0) (0 + 1) = 0 := by simp [rem]; omega
          have e2 : rem (some m) i 0 ≤ 0 := by simp [rem]; omega
          rw [e, v0]
          simp [backoff_iter.loop2, limArg, hlt, e2]
    | succ L' =>
      have ihL := ihn L' (by omega)
      clear ih ihn
      simp only [limArg] at ihL ⊢
      cases lim with
      | none =>
        have e : min (rem none i (L' + 1)) (L' + 1 + 1) = min (rem none (i + 1) L') (L' + 1) + 1 := by simp [rem]
        have e2 : (rem none i (L' + 1) ≤ L' + 1) = (rem none (i + 1) L' ≤ L') := by simp [rem]
        rw [e, vs]; simp only [e2]
        rcases hd with hd | hd
        · simp [backoff_iter.loop2, G.yield_, limArg, hd, ihL]
          simp only [next, cap, grow, emit]
          tie_split
        · simp [backoff_iter.loop2, G.yield_, limArg, hd, ihL]
          simp only [next, cap, grow, emit]
          tie_split
      | some m =>
        by_cases hlt : i < m
        · have e : min (rem (some m) i (L' + 1)) (L' + 1 + 1) = min (rem (some m) (i + 1) L') (L' + 1) + 1 := by
            simp [rem]; omega
          have e2 : (rem (some m) i (L' + 1) ≤ L' + 1) = (rem (some m) (i + 1) L' ≤ L') := by simp [rem]; omega
          rw [e, vs]; simp only [e2]
          rcases hd with hd | hd
          · simp [backoff_iter.loop2, G.yield_, limArg, hd, hlt, ihL]
            simp only [next, cap, grow, emit]
            tie_split
          · simp [backoff_iter.loop2, G.yield_, limArg, hd, hlt, ihL]
            simp only [next, cap, grow, emit]
            tie_split
        · have e : min (rem (some m) i (L' + 1)) (L' + 1 + 1) = 0 := by simp [rem]; omega
          have e2 : rem (some m) i (L' + 1) ≤ L' + 1 := by simp [rem]; omega
          rw [e, v0]
          simp [backoff_iter.loop2, limArg, hlt, e2]

/-! ## 4. the tie -/

theorem valsFrom_len (factor stop jitter : α) (r : Nat → α) (n i : Nat) (cur : α) :
    (valsFrom factor stop jitter r n i cur).length = n := by
  induction n generalizing i cur with
  | zero => rfl
  | succ k ih => simp [valsFrom, ih]

theorem valsFrom_take (factor stop jitter : α) (r : Nat → α) (n k i : Nat) (cur : α) :
    (valsFrom factor stop jitter r n i cur).take k = valsFrom factor stop jitter r (min n k) i cur := by
  induction n generalizing i cur k with
  | zero => simp [valsFrom]
  | succ n ih =>
    cases k with
    | zero => simp [valsFrom]
    | succ k =>
      have e : min (n + 1) (k + 1) = min n k + 1 := by omega
      rw [e]; simp [valsFrom, ih]

omit [LE α] [LT α] [DecidableLE α] [DecidableLT α] [BEq α] [Mul α] [Sub α] [Neg α] [OfNat α 0] [OfNat α 1] in
/-- a computation followed by code that only returns -/
theorem bind_ret_tail {β γ : Type} (m : G α β) (f : β → G α γ) (s : GSt)
    (hf : ∀ v s1, f v s1 = .stop [] .returned) :
    G.bind m f s = .stop (m s).out ((m s).how.getD .returned) := by
  simp only [g_bind]
  cases m s <;> simp [hf]

omit [LE α] [LT α] [DecidableLE α] [DecidableLT α] [BEq α] [Mul α] [Sub α] [Neg α] [OfNat α 0] [OfNat α 1] in
theorem res_of_out_how {β : Type} (r : Res α β) (o : List α) (w : Option Stop) (h1 : r.out = o) (h2 : r.how = w) :
    (w = none → ∃ v s1, r = .cont o v s1) ∧ (∀ h, w = some h → r = .stop o h) := by
  cases r <;> simp [Res.out, Res.how] at h1 h2 <;> subst h1 h2 <;> simp

/-- the main loop as an equation: `L + 1` values are asked for at position 0 -/
theorem mloop_res (rnd : Nat → α) (stop factor jitter : α) (lim : Option Nat) (fuel L : Nat) (cr : Option α) (cur : α)
    (hf : L + 1 ≤ fuel) :
    (rem lim 0 L ≤ L → ∃ v s1, backoff_iter.loop2 rnd (limArg lim) factor jitter stop fuel cur cr 0 ⟨L + 1, 0⟩
        = .cont (valsFrom factor stop jitter rnd (rem lim 0 L) 0 cur) v s1) ∧
    (¬ rem lim 0 L ≤ L → backoff_iter.loop2 rnd (limArg lim) factor jitter stop fuel cur cr 0 ⟨L + 1, 0⟩
        = .stop (valsFrom factor stop jitter rnd (L + 1) 0 cur) .suspended) := by
  have hm := mloop_spec rnd stop factor jitter lim fuel L 0 cr cur 0 hf (Or.inr rfl)
  simp only [Int.natCast_zero] at hm
  have hr := res_of_out_how _ _ _ hm.1 hm.2
  constructor
  · intro hle
    have e : min (rem lim 0 L) (L + 1) = rem lim 0 L := by omega
    rw [e] at hr
    exact hr.1 (by simp [hle])
  · intro hle
    have e : min (rem lim 0 L) (L + 1) = L + 1 := by omega
    rw [e] at hr
    exact hr.2 _ (by simp [hle])

/-- what the caller has seen when the body has run -/
def _root_.PyRtC15.Res.fin {β : Type} : Res α β → List α × Stop
  | .cont o _ _ => (o, .returned)
  | .stop o h => (o, h)

omit [LE α] [LT α] [DecidableLE α] [DecidableLT α] [BEq α] [Mul α] [Sub α] [Neg α] [OfNat α 0] [OfNat α 1] in
theorem run_succ (k : Nat) (body : G α Unit) : G.run (k + 1) body = (body ⟨k + 1, 0⟩).fin := by
  simp only [G.run, Res.fin]
  split <;> simp_all
omit [LE α] [LT α] [DecidableLE α] [DecidableLT α] [BEq α] [Mul α] [Sub α] [Neg α] [OfNat α 0] [OfNat α 1] in
@[simp] theorem fin_cont {β : Type} (o : List α) (v : β) (s : GSt) : (Res.cont o v s).fin = (o, .returned) := rfl
omit [LE α] [LT α] [DecidableLE α] [DecidableLT α] [BEq α] [Mul α] [Sub α] [Neg α] [OfNat α 0] [OfNat α 1] in
@[simp] theorem fin_stop {β : Type} (o : List α) (h : Stop) : (Res.stop o h : Res α β).fin = (o, h) := rfl
omit [LE α] [LT α] [DecidableLE α] [DecidableLT α] [BEq α] [Mul α] [Sub α] [Neg α] [OfNat α 0] [OfNat α 1] in
@[simp] theorem fin_ite {β : Type} (c : Prop) [Decidable c] (a b : Res α β) :
    (if c then a else b).fin = if c then a.fin else b.fin := by split <;> rfl

/-- the model's outcome as `n` calls of `next()` show it -/
def view (n : Nat) (o : Outcome α) : List α × Stop := shown (pullObj (Obj.ofOutcome o) n).2

omit [LE α] [LT α] [DecidableLE α] [DecidableLT α] [BEq α] [Mul α] [Sub α] [Neg α] [OfNat α 0] [OfNat α 1] in
@[simp] theorem view_valueError (k : Nat) : view (k + 1) (Outcome.valueError : Outcome α) = ([], .raised .ValueError) := rfl
omit [LE α] [LT α] [DecidableLE α] [DecidableLT α] [BEq α] [Mul α] [Sub α] [Neg α] [OfNat α 0] [OfNat α 1] in
@[simp] theorem view_fuelOut (k : Nat) : view (k + 1) (Outcome.fuelOut : Outcome α) = ([], .outOfFuel) := rfl
omit [LE α] [LT α] [DecidableLE α] [DecidableLT α] [BEq α] [Mul α] [Sub α] [Neg α] [OfNat α 0] [OfNat α 1] in
@[simp] theorem view_finite (n : Nat) (vals : List α) :
    view n (.finite vals) = (vals.take n, if vals.length < n then .returned else .suspended) := by
  simp only [view, Obj.ofOutcome, pullObj]
  by_cases h : vals.length < n <;> simp [h, shown]
omit [LE α] [LT α] [DecidableLE α] [DecidableLT α] [BEq α] [Mul α] [Sub α] [Neg α] [OfNat α 0] [OfNat α 1] in
@[simp] theorem view_endless (n : Nat) (val : Nat → α) :
    view n (.endless val) = ((List.range n).map val, .suspended) := by
  simp [view, Obj.ofOutcome, pullObj, shown]
omit [LE α] [LT α] [DecidableLE α] [DecidableLT α] [BEq α] [Mul α] [Sub α] [Neg α] [OfNat α 0] [OfNat α 1] in
@[simp] theorem view_ite (n : Nat) (c : Prop) [Decidable c] (a b : Outcome α) :
    view n (if c then a else b) = if c then view n a else view n b := by split <;> rfl

set_option maxHeartbeats 2000000 in
theorem src_backoff_iter_eq_model (fuel n : Nat) (r : Nat → α) (p : Params α) (h : n ≤ fuel) :
    Src.iterutils.backoff_iter fuel n r p.start p.stop (countArg p.count) p.factor p.jitter
      = shown (pullObj (Obj.ofOutcome (backoffIter fuel r p)) n).2 := by
  cases n with
  | zero => cases hb : backoffIter fuel r p <;> simp [backoff_iter, G.run, shown, pullObj, Obj.ofOutcome]
  | succ L =>
    show _ = view (L + 1) (backoffIter fuel r p)
    obtain ⟨start, stop, factor, count, jitter⟩ := p
    have hd := dloop_spec r stop factor fuel 1 start
    simp only [Int.cast_ofNat_Int, Int.natCast_one] at hd
    have hm := fun lim => mloop_res r stop factor jitter lim fuel L none start h
    have fin_case : ∀ m : Nat, (m ≤ L → ∃ v s1,
          backoff_iter.loop2 r (CountV.int ↑m) factor jitter stop fuel start none 0 ⟨L + 1, 0⟩ =
            Res.cont (valsFrom factor stop jitter r (min m (L + 1)) 0 start) v s1) ∧
        (¬ m ≤ L → backoff_iter.loop2 r (CountV.int ↑m) factor jitter stop fuel start none 0 ⟨L + 1, 0⟩ =
            Res.stop (valsFrom factor stop jitter r (min m (L + 1)) 0 start) Stop.suspended) := by
      intro m
      have hmm := hm (some m)
      simp only [rem, limArg, Nat.sub_zero] at hmm
      constructor
      · intro hr; rw [show min m (L + 1) = m by omega]; exact hmm.1 hr
      · intro hr; rw [show min m (L + 1) = L + 1 by omega]; exact hmm.2 hr
    cases count with
    | dflt =>
      cases hdc : defaultCount factor stop fuel start 1 with
      | count m =>
        have e3 : ¬ ((m : Int) < 0) := by omega
        by_cases hr : m ≤ L
        · obtain ⟨v, s1, hl⟩ := (fin_case m).1 hr
          have e2 : m < L + 1 := by omega
          simp [backoff_iter, run_succ, countArg, backoffIter, rangeBad, resolveCount, jitterBad, hd, hdc,
            PyRtC15.float, hl, e3, valsFrom_take, valsFrom_len, e2]
          tie_split
        · have hl := (fin_case m).2 hr
          have e2 : ¬ (m < L + 1) := by omega
          simp [backoff_iter, run_succ, countArg, backoffIter, rangeBad, resolveCount, jitterBad, hd, hdc,
            PyRtC15.float, hl, e3, valsFrom_take, valsFrom_len, e2]
          tie_split
      | noProgress =>
        simp [backoff_iter, run_succ, countArg, backoffIter, rangeBad, resolveCount, jitterBad, hd, hdc, PyRtC15.float]
        tie_split
      | fuelOut =>
        simp [backoff_iter, run_succ, countArg, backoffIter, rangeBad, resolveCount, jitterBad, hd, hdc, PyRtC15.float]
        tie_split
    | rep =>
      have hl := (hm none).2 (by simp [rem])
      simp only [limArg] at hl
      have e := valsFrom_map factor stop jitter r (L + 1) 0 start
      simp only [Nat.zero_add] at e
      simp [backoff_iter, run_succ, countArg, backoffIter, rangeBad, resolveCount, jitterBad, PyRtC15.float, hl, e]
      tie_split
    | num k =>
      by_cases hk : k < 0
      · simp [backoff_iter, run_succ, countArg, backoffIter, rangeBad, resolveCount, jitterBad, PyRtC15.float, hk]
        tie_split
      · obtain ⟨m, rfl⟩ := Int.eq_ofNat_of_zero_le (Int.not_lt.mp hk)
        by_cases hr : m ≤ L
        · obtain ⟨v, s1, hl⟩ := (fin_case m).1 hr
          have e2 : m < L + 1 := by omega
          simp [backoff_iter, run_succ, countArg, backoffIter, rangeBad, resolveCount, jitterBad,
            PyRtC15.float, hl, hk, valsFrom_take, valsFrom_len, e2]
          tie_split
        · have hl := (fin_case m).2 hr
          have e2 : ¬ (m < L + 1) := by omega
          simp [backoff_iter, run_succ, countArg, backoffIter, rangeBad, resolveCount, jitterBad,
            PyRtC15.float, hl, hk, valsFrom_take, valsFrom_len, e2]
          tie_split

/-! ## 5. `backoff`: `list(backoff_iter(...))` -/

/-- what `backoff` returns as the runtime reports it: `list` asks `fuel` times, so it has seen the end of the
    generator iff fewer than `fuel` values came (else `OutOfFuel`, like a default-count loop that needs more fuel) -/
def listed (fuel : Nat) : Outcome α → Except PyExc (List α)
  | .valueError => .error .ValueError
  | .fuelOut => .error .OutOfFuel
  | .finite vals => if vals.length < fuel then .ok vals else .error .OutOfFuel
  | .endless _ => .error .OutOfFuel

omit [LE α] [LT α] [DecidableLE α] [DecidableLT α] [BEq α] [Mul α] [Sub α] [Neg α] [OfNat α 0] [OfNat α 1] in
/-- `list(g)` of a generator that shows what the model's outcome shows -/
theorem runFn_listOf_view (f : Nat) (o : Outcome α) (g : Nat → List α × Stop) (hg : g (f + 1) = view (f + 1) o) :
    runFn (α := α) (G.ofExcept (listOf (f + 1) g)) = listed (f + 1) o := by
  cases o with
  | valueError => simp [listOf, hg, runFn, listed]
  | fuelOut => simp [listOf, hg, runFn, listed]
  | endless val => simp [listOf, hg, runFn, listed]
  | finite vals =>
    by_cases hl : vals.length < f + 1
    · simp [listOf, hg, runFn, listed, hl, List.take_of_length_le (Nat.le_of_lt hl)]
    · simp [listOf, hg, runFn, listed, hl]

theorem src_backoff_eq_model (fuel : Nat) (r : Nat → α) (p : Params α) (hf : 0 < fuel) :
    Src.iterutils.backoff fuel r p.start p.stop (countArg p.count) p.factor p.jitter
      = listed fuel (C15.backoff fuel r p) := by
  have hi := src_backoff_iter_eq_model fuel fuel r p (Nat.le_refl _)
  obtain ⟨f, rfl⟩ : ∃ f, fuel = f + 1 := ⟨fuel - 1, by omega⟩
  change _ = view (f + 1) (backoffIter (f + 1) r p) at hi
  obtain ⟨start, stop, factor, count, jitter⟩ := p
  cases count with
  | rep => simp [Src.iterutils.backoff, runFn, countArg, C15.backoff, listed]
  | dflt =>
    simp only [countArg] at hi
    simp [Src.iterutils.backoff, countArg, C15.backoff]
    exact runFn_listOf_view f _ (fun n => backoff_iter (f + 1) n r start stop CountV.none factor jitter) hi
  | num k =>
    simp only [countArg] at hi
    simp [Src.iterutils.backoff, countArg, C15.backoff]
    exact runFn_listOf_view f _ (fun n => backoff_iter (f + 1) n r start stop (CountV.int k) factor jitter) hi

/-- with enough fuel `backoff` is the model's list, or its ValueError -/
theorem src_backoff_finite (fuel : Nat) (r : Nat → α) (p : Params α) (vals : List α)
    (h : C15.backoff fuel r p = .finite vals) (hl : vals.length < fuel) :
    Src.iterutils.backoff fuel r p.start p.stop (countArg p.count) p.factor p.jitter = .ok vals := by
  rw [src_backoff_eq_model fuel r p (by omega), h]; simp [listed, hl]

theorem src_backoff_valueError (fuel : Nat) (r : Nat → α) (p : Params α) (hf : 0 < fuel)
    (h : C15.backoff fuel r p = .valueError) :
    Src.iterutils.backoff fuel r p.start p.stop (countArg p.count) p.factor p.jitter = .error .ValueError := by
  rw [src_backoff_eq_model fuel r p hf, h]; rfl

end

/-! ## 6. the property theorems, about what the SOURCE computes

Corollaries of the two ties and of Props.lean, stated about `Src.iterutils.backoff_iter` / `backoff` (the definitions
regenerated from the Python text): order layer (any carrier obeying the laws finite doubles obey), then `Rat`. -/

section SrcProps
variable {α : Type} [LE α] [LT α] [DecidableLE α] [DecidableLT α] [BEq α] [LawfulBEq α]
  [Std.IsLinearOrder α] [Std.LawfulOrderLT α]
  [Mul α] [Sub α] [Neg α] [OfNat α 0] [OfNat α 1]

/-- `range m` mapped is what `valsFrom` yields from position 0 -/
theorem valsFrom_yieldAt (p : Params α) (r : Nat → α) (m : Nat) :
    valsFrom p.factor p.stop p.jitter r m 0 p.start = (List.range m).map (yieldAt r p) := by
  rw [valsFrom_map]; simp [yieldAt]

/-- EXACTLY `count` VALUES: an explicit `count = k ≥ 0` with valid parameters: `n` calls of `next()` on the SOURCE's
    generator show the first `min n k` delays `yieldAt r p i` and the generator is exhausted exactly after `k` -/
theorem src_iter_exactly_count (fuel n : Nat) (r : Nat → α) (start stop factor jitter : α) (k : Int)
    (hp : ValidParams ⟨start, stop, factor, .num k, jitter⟩) (hj : JitterOk ⟨start, stop, factor, .num k, jitter⟩)
    (hk : 0 ≤ k) (hn : n ≤ fuel) :
    backoff_iter fuel n r start stop (.int k) factor jitter =
      ((List.range (min k.toNat n)).map (yieldAt r ⟨start, stop, factor, .num k, jitter⟩),
       if k.toNat < n then .returned else .suspended) := by
  have h := src_backoff_iter_eq_model fuel n r ⟨start, stop, factor, .num k, jitter⟩ hn
  have hk' : ¬ k < 0 := by omega
  have hb : backoffIter fuel r ⟨start, stop, factor, .num k, jitter⟩
      = .finite (valsFrom factor stop jitter r k.toNat 0 start) := by
    simp [backoffIter, rangeBad_false hp, resolveCount, hk', jitterBad_false hj]
  simp only [countArg] at h
  rw [h, hb]
  show view n _ = _
  rw [view_finite, valsFrom_take, valsFrom_len]
  exact congrArg (·, _) (valsFrom_yieldAt ⟨start, stop, factor, .num k, jitter⟩ r _)

/-- 'repeat': the generator never ends; `n` calls show the delays at positions `0 … n-1` -/
theorem src_iter_repeat_endless (fuel n : Nat) (r : Nat → α) (start stop factor jitter : α)
    (hp : ValidParams ⟨start, stop, factor, .rep, jitter⟩) (hj : JitterOk ⟨start, stop, factor, .rep, jitter⟩)
    (hn : n ≤ fuel) :
    backoff_iter fuel n r start stop (.str "repeat") factor jitter =
      ((List.range n).map (yieldAt r ⟨start, stop, factor, .rep, jitter⟩), .suspended) := by
  have h := src_backoff_iter_eq_model fuel n r ⟨start, stop, factor, .rep, jitter⟩ hn
  simp only [countArg] at h
  rw [h, repeat_is_infinite hp hj rfl]
  show view n _ = _
  rw [view_endless]

omit [LawfulBEq α] [Std.IsLinearOrder α] [Std.LawfulOrderLT α] in
/-- whatever the parameters: what the generator yields are delays `yieldAt r p i` at positions `0, 1, …` -/
theorem src_iter_values (fuel n : Nat) (r : Nat → α) (p : Params α) (hn : n ≤ fuel) :
    ∃ m, m ≤ n ∧ (backoff_iter fuel n r p.start p.stop (countArg p.count) p.factor p.jitter).1
      = (List.range m).map (yieldAt r p) := by
  rw [src_backoff_iter_eq_model fuel n r p hn]
  show ∃ m, m ≤ n ∧ (view n (backoffIter fuel r p)).1 = _
  have hshape : ∀ vals, backoffIter fuel r p = .finite vals →
      ∃ m, vals = valsFrom p.factor p.stop p.jitter r m 0 p.start := by
    intro vals
    unfold backoffIter
    split
    · intro h; cases h
    · split <;> (try split) <;> intro h <;> first | (cases h; exact ⟨_, rfl⟩) | cases h
  have hend : ∀ val, backoffIter fuel r p = .endless val → val = yieldAt r p := by
    intro val
    unfold backoffIter
    split
    · intro h; cases h
    · split <;> (try split) <;> intro h <;> first | (cases h; rfl) | cases h
  cases hb : backoffIter fuel r p with
  | valueError => exact ⟨0, Nat.zero_le _, by cases n <;> rfl⟩
  | fuelOut => exact ⟨0, Nat.zero_le _, by cases n <;> rfl⟩
  | finite vals =>
    obtain ⟨m, rfl⟩ := hshape vals hb
    refine ⟨min m n, Nat.min_le_right _ _, ?_⟩
    rw [view_finite, valsFrom_take, valsFrom_map]; simp [yieldAt]
  | endless val =>
    rw [hend val hb, view_endless]
    exact ⟨n, Nat.le_refl _, rfl⟩

/-- jitter off: the value the SOURCE's generator yields at position `i` is the un-jittered delay `seqAt … i` -/
theorem src_iter_nojitter_get (fuel n : Nat) (r : Nat → α) (start stop factor : α) (c : Count) (hn : n ≤ fuel)
    (i : Nat) (a : α) (h : (backoff_iter fuel n r start stop (countArg c) factor (0 : α)).1[i]? = some a) :
    a = seqAt factor stop start i := by
  obtain ⟨m, _, hm⟩ := src_iter_values fuel n r ⟨start, stop, factor, c, (0 : α)⟩ hn
  simp only at hm
  rw [hm, List.getElem?_map] at h
  by_cases hi : i < m
  · simp [List.getElem?_range hi, yieldAt, emit_off] at h; exact h.symm
  · simp [List.getElem?_eq_none (by simp; omega : (List.range m).length ≤ i)] at h

/-- FIRST VALUE, MONOTONE, CAPPED (jitter off, `0 ≤ start ≤ stop`, `0 < stop`, `factor ≥ 1`): of the values the SOURCE's
    generator yields the first is `start`, none is negative or above `stop`, and they never decrease -/
theorem src_iter_first_monotone_capped (fuel n : Nat) (r : Nat → α) (start stop factor : α) (c : Count)
    (hv : Valid factor stop start) (hn : n ≤ fuel) :
    let vals : List α := (backoff_iter fuel n r start stop (countArg c) factor (0 : α)).1
    (∀ a : α, vals[0]? = some a → a = start) ∧
    (∀ (i j : Nat) (a b : α), i ≤ j → vals[i]? = some a → vals[j]? = some b → 0 ≤ a ∧ a ≤ b ∧ b ≤ stop) := by
  intro vals
  have hget := src_iter_nojitter_get fuel n r start stop factor c hn
  refine ⟨fun a h => hget 0 a h, ?_⟩
  intro i j a b hij ha hb
  rw [hget i a ha, hget j b hb]
  exact ⟨(le_stop hv i).1, monotone hv hij, (le_stop hv j).2⟩

/-- GROWTH: a non-zero value is followed by itself times `factor`, or by `stop` if that would pass `stop`; a zero start
    is followed by `min(1, stop)`; once at `stop` the values stay there -/
theorem src_iter_grows_by_factor (fuel n : Nat) (r : Nat → α) (start stop factor : α) (c : Count)
    (hv : Valid factor stop start) (hn : n ≤ fuel) :
    let vals : List α := (backoff_iter fuel n r start stop (countArg c) factor (0 : α)).1
    (∀ (i : Nat) (a b : α), vals[i]? = some a → vals[i + 1]? = some b → a ≠ 0 →
        b = if stop < a * factor then stop else a * factor) ∧
    (∀ b : α, start = 0 → vals[1]? = some b → b = if stop < 1 then stop else 1) ∧
    (∀ (i j : Nat) (a b : α), i ≤ j → vals[i]? = some a → vals[j]? = some b → a = stop → b = stop) := by
  intro vals
  have hget := src_iter_nojitter_get fuel n r start stop factor c hn
  refine ⟨?_, ?_, ?_⟩
  · intro i a b ha hb hne
    rw [hget i a ha] at hne ⊢
    rw [hget (i + 1) b hb]
    exact grows_by_factor_until_cap hv i hne
  · intro b h0 hb
    rw [hget 1 b hb, h0]
    exact zero_then_min_one_stop factor stop
  · intro i j a b hij ha hb hs
    rw [hget i a ha] at hs
    rw [hget j b hb]
    exact stays_at_stop hv hs hij

/-- DEFAULT COUNT: when the SOURCE's generator, called with `count=None` and jitter off, is seen to its end, the last
    value is `stop` (and there is at least one value) -/
theorem src_iter_default_last_is_stop (fuel n : Nat) (r : Nat → α) (start stop factor : α) (vals : List α)
    (hp : ValidParams ⟨start, stop, factor, .dflt, (0 : α)⟩) (hn : n ≤ fuel)
    (h : backoff_iter fuel n r start stop .none factor (0 : α) = (vals, .returned)) :
    vals.getLast? = some stop := by
  have hm := src_backoff_iter_eq_model fuel n r ⟨start, stop, factor, .dflt, (0 : α)⟩ hn
  simp only [countArg] at hm
  rw [hm] at h
  change view n _ = _ at h
  rcases default_count_outcome hp (Or.inl rfl) rfl fuel r with hb | hb | ⟨m, _, hb, _, hlast⟩
  · rw [hb] at h; cases n <;> simp [view, shown, pullObj, Obj.ofOutcome] at h
  · rw [hb] at h; cases n <;> simp [view, shown, pullObj, Obj.ofOutcome] at h
  · rw [hb, view_finite] at h
    have h1 := congrArg Prod.fst h
    have h2 := congrArg Prod.snd h
    simp only at h1 h2
    split at h2
    · rename_i hl
      rw [List.take_of_length_le (Nat.le_of_lt hl)] at h1
      rw [← h1]; exact hlast rfl
    · cases h2

/-- INVALID PARAMETERS raise ValueError at the first `next()`, nothing having been yielded -/
theorem src_iter_invalid_raises (fuel n : Nat) (r : Nat → α) (p : Params α) (hn : n + 1 ≤ fuel)
    (h : p.start < 0 ∨ p.factor < 1 ∨ p.stop = 0 ∨ p.stop < p.start ∨ (∃ k, p.count = .num k ∧ k < 0)) :
    backoff_iter fuel (n + 1) r p.start p.stop (countArg p.count) p.factor p.jitter = ([], .raised .ValueError) := by
  rw [src_backoff_iter_eq_model fuel (n + 1) r p hn, invalid_raises p fuel r h]; rfl

/-- … and `backoff` raises ValueError for them -/
theorem src_backoff_invalid_raises (fuel : Nat) (r : Nat → α) (p : Params α) (hf : 0 < fuel)
    (h : p.start < 0 ∨ p.factor < 1 ∨ p.stop = 0 ∨ p.stop < p.start ∨ (∃ k, p.count = .num k ∧ k < 0)) :
    Src.iterutils.backoff fuel r p.start p.stop (countArg p.count) p.factor p.jitter = .error .ValueError := by
  apply src_backoff_valueError fuel r p hf
  unfold C15.backoff
  split
  · rfl
  · exact invalid_raises p fuel r h

omit [LawfulBEq α] [Std.IsLinearOrder α] [Std.LawfulOrderLT α] in
/-- `backoff` refuses `count='repeat'` whatever the other arguments are -/
theorem src_backoff_repeat_rejected (fuel : Nat) (r : Nat → α) (start stop factor jitter : α) (hf : 0 < fuel) :
    Src.iterutils.backoff fuel r start stop (.str "repeat") factor jitter = .error .ValueError :=
  src_backoff_valueError fuel r ⟨start, stop, factor, .rep, jitter⟩ hf rfl

/-- `backoff` with an explicit `count = k ≥ 0` returns exactly `k` values: the delays at positions `0 … k-1` -/
theorem src_backoff_exactly_count (fuel : Nat) (r : Nat → α) (start stop factor jitter : α) (k : Int)
    (hp : ValidParams ⟨start, stop, factor, .num k, jitter⟩) (hj : JitterOk ⟨start, stop, factor, .num k, jitter⟩)
    (hk : 0 ≤ k) (hf : k.toNat < fuel) :
    Src.iterutils.backoff fuel r start stop (.int k) factor jitter
      = .ok ((List.range k.toNat).map (yieldAt r ⟨start, stop, factor, .num k, jitter⟩)) := by
  have hk' : ¬ k < 0 := by omega
  have hb : C15.backoff fuel r ⟨start, stop, factor, .num k, jitter⟩
      = .finite (valsFrom factor stop jitter r k.toNat 0 start) := by
    simp [C15.backoff, backoffIter, rangeBad_false hp, resolveCount, hk', jitterBad_false hj]
  have := src_backoff_finite fuel r ⟨start, stop, factor, .num k, jitter⟩ _ hb (by rw [valsFrom_len]; exact hf)
  simp only [countArg] at this
  rw [this, ← valsFrom_yieldAt ⟨start, stop, factor, .num k, jitter⟩ r]

/-- `backoff` with the default count and jitter off: whenever it returns a list, the last value is `stop` -/
theorem src_backoff_default_last_is_stop (fuel : Nat) (r : Nat → α) (start stop factor : α) (vals : List α)
    (hp : ValidParams ⟨start, stop, factor, .dflt, (0 : α)⟩) (hf : 0 < fuel)
    (h : Src.iterutils.backoff fuel r start stop .none factor (0 : α) = .ok vals) :
    vals.getLast? = some stop := by
  have hm := src_backoff_eq_model fuel r ⟨start, stop, factor, .dflt, (0 : α)⟩ hf
  simp only [countArg] at hm
  rw [hm] at h
  have he : C15.backoff fuel r ⟨start, stop, factor, .dflt, (0 : α)⟩
      = backoffIter fuel r ⟨start, stop, factor, .dflt, (0 : α)⟩ := rfl
  rw [he] at h
  rcases default_count_outcome hp (Or.inl rfl) rfl fuel r with hb | hb | ⟨m, _, hb, _, hlast⟩
  · rw [hb] at h; cases h
  · rw [hb] at h; cases h
  · rw [hb] at h
    simp only [listed] at h
    split at h
    · cases h; exact hlast rfl
    · cases h

end SrcProps

/-- JITTER BOUND (exact layer): with `j ∈ [-1, 1]`, draws in `[0, 1)` and an explicit count, every value the SOURCE's
    generator yields lies between the value `b` the SAME generator yields at that position with jitter off and
    `b * (1 - j)`, inclusive -/
theorem src_iter_jitter_bounds (fuel n : Nat) (r : Nat → Rat) (start stop factor jitter : Rat) (k : Int)
    (h0 : 0 ≤ start) (h1 : start ≤ stop) (hs : 0 < stop) (hf : 1 ≤ factor) (hk : 0 ≤ k) (hn : n ≤ fuel)
    (hj1 : -1 ≤ jitter) (hj2 : jitter ≤ 1) (hr : ∀ i, 0 ≤ r i ∧ r i < 1) (i : Nat) (w : Rat)
    (hw : (backoff_iter fuel n r start stop (.int k) factor jitter).1[i]? = some w) :
    ∃ b, (backoff_iter fuel n r start stop (.int k) factor 0).1[i]? = some b ∧
      (0 ≤ jitter → b * (1 - jitter) ≤ w ∧ w ≤ b) ∧ (jitter ≤ 0 → b ≤ w ∧ w ≤ b * (1 - jitter)) := by
  have hpj := rat_validParams ⟨start, stop, factor, .num k, jitter⟩ h0 h1 hs hf
  have hp0 := rat_validParams ⟨start, stop, factor, .num k, 0⟩ h0 h1 hs hf
  rw [src_iter_exactly_count fuel n r start stop factor jitter k hpj (Or.inr ⟨hj1, hj2⟩) hk hn] at hw
  rw [src_iter_exactly_count fuel n r start stop factor 0 k hp0 (Or.inl rfl) hk hn]
  simp only [List.getElem?_map] at hw ⊢
  by_cases hi : i < min k.toNat n
  · simp only [List.getElem?_range hi, Option.map_some, Option.some.injEq] at hw ⊢
    refine ⟨_, rfl, ?_⟩
    subst hw
    have hb := jitter_bounds ⟨start, stop, factor, .num k, jitter⟩ h0 h1 hs hf r hr i
    simp only [yieldAt, emit_off] at hb ⊢
    exact ⟨fun h => hb.1 h hj2, fun h => hb.2 hj1 h⟩
  · simp [List.getElem?_eq_none (by simp; omega : (List.range (min k.toNat n)).length ≤ i)] at hw


/-- non-vacuity of the corollaries' hypotheses: valid parameters exist at `Rat` (the generated definitions are evaluated on
    the doc-test calls in the examples below, at `Int`) -/
example : ValidParams (⟨1, 10, 2, .dflt, 0⟩ : Params Rat) ∧ JitterOk (⟨1, 10, 2, .num 3, 1⟩ : Params Rat) ∧
    ((0 : Int) ≤ 3 ∧ (3 : Int).toNat < 10) :=
  ⟨rat_validParams _ (by decide) (by decide) (by decide) (by decide), Or.inr ⟨by decide, by decide⟩, by decide⟩

/-! non-vacuity: the hypothesis `n ≤ fuel` is satisfiable and both sides are the doc-test values at `α = Int`
    (`list(backoff_iter(1, 10))`, six calls of `next()`; three calls on `count='repeat'`; a refused call) -/
example : (6 : Nat) ≤ 10 ∧
    Src.iterutils.backoff_iter (α := Int) 10 6 (fun _ => 0) 1 10 (countArg .dflt) 2 0 = ([1, 2, 4, 8, 10], .returned) ∧
    shown (pullObj (Obj.ofOutcome (backoffIter (α := Int) 10 (fun _ => 0) ⟨1, 10, 2, .dflt, 0⟩)) 6).2
      = ([1, 2, 4, 8, 10], .returned) := by decide
example : Src.iterutils.backoff_iter (α := Int) 10 3 (fun _ => 0) 0 5 (countArg .rep) 3 0 = ([0, 1, 3], .suspended) ∧
    Src.iterutils.backoff_iter (α := Int) 10 3 (fun _ => 0) 7 5 (countArg (.num 2)) 3 0 = ([], .raised .ValueError) ∧
    Src.iterutils.backoff_iter (α := Int) 10 3 (fun i => i) 4 9 (countArg (.num 2)) 2 1 = ([4, 0], .returned) := by
  decide

example : Src.iterutils.backoff (α := Int) 10 (fun _ => 0) 1 10 (countArg .dflt) 2 0 = .ok [1, 2, 4, 8, 10] ∧
    Src.iterutils.backoff (α := Int) 10 (fun _ => 0) 1 10 (countArg .rep) 2 0 = .error .ValueError ∧
    Src.iterutils.backoff (α := Int) 10 (fun _ => 0) 7 5 (countArg (.num 2)) 2 0 = .error .ValueError :=
  ⟨rfl, rfl, rfl⟩

end C15
