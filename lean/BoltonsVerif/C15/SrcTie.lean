import BoltonsVerif.Generated.Src_iterutils_backoff
import BoltonsVerif.C15.Session
/-
C15 — source-translator tie for `boltons.iterutils.backoff_iter` (round 3d).

`Src.iterutils.backoff_iter fuel n rnd start stop count factor jitter` is regenerated from the Python source on every
run (harness/py2lean_c15.py): what `n` calls of `next()` on a fresh generator show.  The tie says that this is what
the hand model says — `pullObj (Obj.ofOutcome (backoffIter fuel rnd p)) n` of Session.lean — at EVERY carrier `α`
with the bare operations (no laws: the generated definition applies the same operations to the same operands as
the model, so the equality is one of terms), for every fuel `≥ n`.

Proof style: both loops are characterised by a specification lemma proved by induction with the runtime
combinators as simp set and a leaf-wise case analysis (`tie_split`): nothing follows the statement order of the
source.
-/
namespace C15
open Src.iterutils PyRtC15

/-! ## 0. evaluation of the runtime combinators -/

section combinators
variable {α β γ : Type}

@[simp] theorem g_pure (v : β) (s : GSt) : (G.pure v : G α β) s = .cont [] v s := rfl
@[simp] theorem g_raise (e : PyExc) (s : GSt) : (G.raise e : G α β) s = .stop [] (.raised e) := rfl
@[simp] theorem g_ret (s : GSt) : (G.ret : G α β) s = .stop [] .returned := rfl
@[simp] theorem g_outOfFuel (s : GSt) : (G.outOfFuel : G α β) s = .stop [] .outOfFuel := rfl
@[simp] theorem g_draw (rnd : Nat → α) (s : GSt) :
    G.draw rnd s = .cont [] (rnd s.draws) { s with draws := s.draws + 1 } := rfl
@[simp] theorem g_ofExcept_ok (v : β) : (G.ofExcept (.ok v) : G α β) = G.pure v := rfl
@[simp] theorem g_ofExcept_error (e : PyExc) : (G.ofExcept (.error e) : G α β) = G.raise e := rfl
@[simp] theorem g_unbox_some (v : β) : (G.unbox (some v) : G α β) = G.pure v := rfl
@[simp] theorem g_unbox_none : (G.unbox none : G α β) = G.raise .Other := rfl
@[simp] theorem g_bind (m : G α β) (f : β → G α γ) (s : GSt) :
    G.bind m f s = (match m s with
      | .cont o v s1 => (f v s1).prepend o
      | .stop o h => .stop o h) := rfl
@[simp] theorem prepend_cont (o out : List α) (v : β) (s : GSt) :
    (Res.cont out v s : Res α β).prepend o = .cont (o ++ out) v s := rfl
@[simp] theorem prepend_stop (o out : List α) (h : Stop) :
    (Res.stop out h : Res α β).prepend o = .stop (o ++ out) h := rfl
@[simp] theorem prepend_nil (r : Res α β) : r.prepend [] = r := by cases r <;> rfl
theorem g_yield_one (v : α) (s : GSt) (h : s.left = 1) : G.yield_ v s = .stop [v] .suspended := by
  simp [G.yield_, h]
theorem g_yield_more (v : α) (s : GSt) (k : Nat) (h : s.left = k + 2) :
    G.yield_ v s = .cont [v] () { s with left := k + 1 } := by
  simp [G.yield_, h]
@[simp] theorem if_apply (c : Prop) [Decidable c] (a b : G α β) (s : GSt) :
    (if c then a else b) s = if c then a s else b s := by split <;> rfl

@[simp] theorem cv_isNone_none : CountV.isNone .none = true := rfl
@[simp] theorem cv_isNone_str (t : String) : CountV.isNone (.str t) = false := rfl
@[simp] theorem cv_isNone_int (k : Int) : CountV.isNone (.int k) = false := rfl
@[simp] theorem cv_eqStr_none (t : String) : CountV.eqStr .none t = false := rfl
@[simp] theorem cv_eqStr_str (u t : String) : CountV.eqStr (.str u) t = (u == t) := rfl
@[simp] theorem cv_eqStr_int (k : Int) (t : String) : CountV.eqStr (.int k) t = false := rfl
@[simp] theorem cv_ltInt_int (j k : Int) : CountV.ltInt (.int j) k = .ok (decide (j < k)) := rfl
@[simp] theorem cv_intLt_int (j k : Int) : CountV.intLt k (.int j) = .ok (decide (k < j)) := rfl
@[simp] theorem cv_leInt_int (j k : Int) : CountV.leInt (.int j) k = .ok (decide (j ≤ k)) := rfl
@[simp] theorem cv_intLe_int (j k : Int) : CountV.intLe k (.int j) = .ok (decide (k ≤ j)) := rfl
@[simp] theorem cv_ltInt_str (t : String) (k : Int) : CountV.ltInt (.str t) k = .error .TypeError := rfl
@[simp] theorem cv_intLt_str (t : String) (k : Int) : CountV.intLt k (.str t) = .error .TypeError := rfl
@[simp] theorem cv_addInt_int (j k : Int) : CountV.addInt (.int j) k = .ok (.int (j + k)) := rfl
@[simp] theorem cv_subInt_int (j k : Int) : CountV.subInt (.int j) k = .ok (.int (j - k)) := rfl

end combinators

/-- leaf-wise case analysis: split every `if` / `match` left, normalise, close -/
local macro "tie_split" : tactic =>
  `(tactic| (repeat' (first | split | (intro _))) <;> simp_all)

section
variable {α : Type} [LE α] [LT α] [DecidableLE α] [DecidableLT α] [BEq α]
  [Mul α] [Sub α] [Neg α] [OfNat α 0] [OfNat α 1]

/-! ## 1. what the model's arguments are for the source -/

/-- the `count` argument of the call: `None`, `'repeat'`, an int -/
def countArg : Count → CountV
  | .dflt => .none
  | .rep => .str "repeat"
  | .num k => .int k

/-- what `n` calls of `next()` show, as the source translator's runtime reports it -/
def shown : Obs α → List α × Stop
  | .pulled l false => (l, .suspended)
  | .pulled l true => (l, .returned)
  | .err => ([], .raised .ValueError)
  | .fuel => ([], .outOfFuel)
  | _ => ([], .raised .Other)

/-! ## 2. the default-count loop -/

/-- the value of `cur` when the default-count loop is left -/
def dcCur (factor stop : α) : Nat → α → α
  | 0, c => c
  | f + 1, c => if c < stop then (if bump factor c == c then c else dcCur factor stop f (bump factor c)) else c

theorem dloop_spec (rnd : Nat → α) (stop factor : α) (fuel : Nat) (k : Nat) (cur : α) (s : GSt) :
    backoff_iter.loop1 rnd stop factor fuel (.int k) cur s =
      (match defaultCount factor stop fuel cur k with
       | .count m => .cont [] (.int m, dcCur factor stop fuel cur) s
       | .noProgress => .stop [] (.raised .ValueError)
       | .fuelOut => .stop [] .outOfFuel) := by
  induction fuel generalizing k cur with
  | zero => simp [backoff_iter.loop1, defaultCount]
  | succ f ih =>
    have ih' := fun c => ih (k + 1) c
    simp only [Int.natCast_add, Int.cast_ofNat_Int] at ih'
    simp only [backoff_iter.loop1, defaultCount, dcCur, bump]
    by_cases h1 : cur < stop <;> by_cases h2 : (cur == (0 : α)) = true <;>
      simp [h1, h2, ih'] <;> tie_split

/-! ## 3. the main loop -/

theorem valsFrom_map (factor stop jitter : α) (r : Nat → α) (n i : Nat) (cur : α) :
    valsFrom factor stop jitter r n i cur =
      (List.range n).map fun j => emit jitter (r (i + j)) (seqAt factor stop cur j) := by
  induction n generalizing i cur with
  | zero => rfl
  | succ m ih =>
    rw [List.range_succ_eq_map]
    simp only [valsFrom, List.map_cons, List.map_map, ih, seqAt, Nat.add_zero]
    congr 1
    apply List.map_congr_left
    intro j _
    simp only [Function.comp, seqAt]
    congr 2
    omega


/-- `count` in the main loop: `'repeat'` or the resolved number -/
def limArg : Option Nat → CountV
  | none => .str "repeat"
  | some m => .int m

/-- how many values the main loop still yields at position `i` when `L + 1` are asked for -/
def rem (lim : Option Nat) (i L : Nat) : Nat :=
  match lim with
  | none => L + 1
  | some m => m - i

def _root_.PyRtC15.Res.out {β : Type} : Res α β → List α
  | .cont o _ _ => o
  | .stop o _ => o

/-- `none`: the computation went on -/
def _root_.PyRtC15.Res.how {β : Type} : Res α β → Option Stop
  | .cont _ _ _ => none
  | .stop _ h => some h

omit [LE α] [LT α] [DecidableLE α] [DecidableLT α] [BEq α] [Mul α] [Sub α] [Neg α] [OfNat α 0] [OfNat α 1] in
@[simp] theorem out_prepend {β : Type} (o : List α) (r : Res α β) : (r.prepend o).out = o ++ r.out := by
  cases r <;> rfl
omit [LE α] [LT α] [DecidableLE α] [DecidableLT α] [BEq α] [Mul α] [Sub α] [Neg α] [OfNat α 0] [OfNat α 1] in
@[simp] theorem how_prepend {β : Type} (o : List α) (r : Res α β) : (r.prepend o).how = r.how := by
  cases r <;> rfl

omit [LE α] [LT α] [DecidableLE α] [DecidableLT α] [BEq α] [Mul α] [Sub α] [Neg α] [OfNat α 0] [OfNat α 1] in
@[simp] theorem out_cont {β : Type} (o : List α) (v : β) (s : GSt) : (Res.cont o v s).out = o := rfl
omit [LE α] [LT α] [DecidableLE α] [DecidableLT α] [BEq α] [Mul α] [Sub α] [Neg α] [OfNat α 0] [OfNat α 1] in
@[simp] theorem out_stop {β : Type} (o : List α) (h : Stop) : (Res.stop o h : Res α β).out = o := rfl
omit [LE α] [LT α] [DecidableLE α] [DecidableLT α] [BEq α] [Mul α] [Sub α] [Neg α] [OfNat α 0] [OfNat α 1] in
@[simp] theorem how_cont {β : Type} (o : List α) (v : β) (s : GSt) : (Res.cont o v s).how = none := rfl
omit [LE α] [LT α] [DecidableLE α] [DecidableLT α] [BEq α] [Mul α] [Sub α] [Neg α] [OfNat α 0] [OfNat α 1] in
@[simp] theorem how_stop {β : Type} (o : List α) (h : Stop) : (Res.stop o h : Res α β).how = some h := rfl
omit [LE α] [LT α] [DecidableLE α] [DecidableLT α] [BEq α] [Mul α] [Sub α] [Neg α] [OfNat α 0] [OfNat α 1] in
@[simp] theorem out_ite {β : Type} (c : Prop) [Decidable c] (a b : Res α β) :
    (if c then a else b).out = if c then a.out else b.out := by split <;> rfl
omit [LE α] [LT α] [DecidableLE α] [DecidableLT α] [BEq α] [Mul α] [Sub α] [Neg α] [OfNat α 0] [OfNat α 1] in
@[simp] theorem how_ite {β : Type} (c : Prop) [Decidable c] (a b : Res α β) :
    (if c then a else b).how = if c then a.how else b.how := by split <;> rfl

set_option maxHeartbeats 1000000 in
theorem mloop_spec (rnd : Nat → α) (stop factor jitter : α) (lim : Option Nat) (fuel : Nat) :
    ∀ (L i : Nat) (cr : Option α) (cur : α) (dr : Nat), L + 1 ≤ fuel → ((jitter == 0) = true ∨ dr = i) →
      (backoff_iter.loop2 rnd stop (limArg lim) factor jitter fuel cr i cur ⟨L + 1, dr⟩).out
          = valsFrom factor stop jitter rnd (min (rem lim i L) (L + 1)) i cur ∧
      (backoff_iter.loop2 rnd stop (limArg lim) factor jitter fuel cr i cur ⟨L + 1, dr⟩).how
          = if rem lim i L ≤ L then none else some .suspended := by
  induction fuel with
  | zero => intro L i cr cur dr h; omega
  | succ f ih =>
    intro L i cr cur dr hf hd
    have ihn := fun L' hL cr c d hd' => ih L' (i + 1) cr c d hL hd'
    simp only [Int.natCast_add, Int.cast_ofNat_Int] at ihn
    have vs : ∀ k c, valsFrom factor stop jitter rnd (k + 1) i c
        = emit jitter (rnd i) c :: valsFrom factor stop jitter rnd k (i + 1) (next factor stop c) := fun _ _ => rfl
    have v0 : ∀ j c, valsFrom factor stop jitter rnd 0 j c = [] := fun _ _ => rfl
    cases L with
    | zero =>
      clear ih ihn
      cases lim with
      | none =>
        have e : min (rem none i 0) (0 + 1) = 0 + 1 := by simp [rem]
        have e2 : ¬ (rem none i 0 ≤ 0) := by simp [rem]
        rw [e, vs, v0]
        rcases hd with hd | hd <;>
        simp [backoff_iter.loop2, G.yield_, limArg, emit, hd, e2] <;> tie_split
      | some m =>
        by_cases hlt : i < m
        · have e : min (rem (some m) i 0) (0 + 1) = 0 + 1 := by simp [rem]; omega
          have e2 : ¬ (rem (some m) i 0 ≤ 0) := by simp [rem]; omega
          rw [e, vs, v0]
          rcases hd with hd | hd <;>
          simp [backoff_iter.loop2, G.yield_, limArg, emit, hd, hlt, e2] <;> tie_split
        · have e : min (rem (some m) i 0) (0 + 1) = 0 := by simp [rem]; omega
          have e2 : rem (some m) i 0 ≤ 0 := by simp [rem]; omega
          rw [e, v0]
          simp [backoff_iter.loop2, limArg, hlt, e2]
    | succ L' =>
      have ihL := ihn L' (by omega)
      clear ih ihn
      simp only [limArg] at ihL ⊢
      cases lim with
      | none =>
        have e : min (rem none i (L' + 1)) (L' + 1 + 1) = min (rem none (i + 1) L') (L' + 1) + 1 := by simp [rem]
        have e2 : (rem none i (L' + 1) ≤ L' + 1) = (rem none (i + 1) L' ≤ L') := by simp [rem]
        rw [e, vs]; simp only [e2]
        rcases hd with hd | hd
        · simp [backoff_iter.loop2, G.yield_, limArg, hd, ihL]
          simp only [next, cap, grow, emit]
          tie_split
        · simp [backoff_iter.loop2, G.yield_, limArg, hd, ihL]
          simp only [next, cap, grow, emit]
          tie_split
      | some m =>
        by_cases hlt : i < m
        · have e : min (rem (some m) i (L' + 1)) (L' + 1 + 1) = min (rem (some m) (i + 1) L') (L' + 1) + 1 := by
            simp [rem]; omega
          have e2 : (rem (some m) i (L' + 1) ≤ L' + 1) = (rem (some m) (i + 1) L' ≤ L') := by simp [rem]; omega
          rw [e, vs]; simp only [e2]
          rcases hd with hd | hd
          · simp [backoff_iter.loop2, G.yield_, limArg, hd, hlt, ihL]
            simp only [next, cap, grow, emit]
            tie_split
          · simp [backoff_iter.loop2, G.yield_, limArg, hd, hlt, ihL]
            simp only [next, cap, grow, emit]
            tie_split
        · have e : min (rem (some m) i (L' + 1)) (L' + 1 + 1) = 0 := by simp [rem]; omega
          have e2 : rem (some m) i (L' + 1) ≤ L' + 1 := by simp [rem]; omega
          rw [e, v0]
          simp [backoff_iter.loop2, limArg, hlt, e2]

end
end C15
