import BoltonsVerif.C15.B64
import BoltonsVerif.C15.Proofs
/-
C15 — `B64` satisfies the order layer's hypotheses: the patterns are linearly ordered, and
multiplying a positive finite double by a finite factor ≥ 1 (round to nearest, ties to even,
subnormals and overflow included) never gives a smaller double.
-/
namespace C15
namespace B64

theorem le_def (a b : B64) : a ≤ b ↔ a.bits ≤ b.bits := Iff.rfl
theorem lt_def (a b : B64) : a < b ↔ a.bits < b.bits := Iff.rfl

instance : Std.IsLinearOrder B64 where
  le_refl a := Nat.le_refl a.bits
  le_trans a b c := by simp only [le_def]; omega
  le_antisymm a b := by
    cases a; cases b; simp only [le_def, B64.mk.injEq]; omega
  le_total a b := by simp only [le_def]; omega

instance : Std.LawfulOrderLT B64 where
  lt_iff a b := by simp only [le_def, lt_def]; omega

/-- a factor ≥ 1.0 is worth at least `2^1074` units -/
theorem V_ge_of_one_le (f : Nat) (hf : ONE ≤ f) : 2 ^ 1074 ≤ V f := by
  have hE : 1023 ≤ f / 2 ^ 52 := by
    have : ONE = 1023 * 2 ^ 52 := by decide
    rw [Nat.le_div_iff_mul_le (by decide)]; omega
  unfold V
  have hne : ¬ f / 2 ^ 52 = 0 := by omega
  simp only [hne, if_false]
  have h1 : 2 ^ 1022 ≤ 2 ^ (f / 2 ^ 52 - 1) := Nat.pow_le_pow_right (by decide) (by omega)
  have h2 : 2 ^ 52 ≤ 2 ^ 52 + f % 2 ^ 52 := Nat.le_add_right _ _
  calc 2 ^ 1074 = 2 ^ 52 * 2 ^ 1022 := by rw [← Nat.pow_add]
    _ ≤ (2 ^ 52 + f % 2 ^ 52) * 2 ^ (f / 2 ^ 52 - 1) := Nat.mul_le_mul h2 h1

/-- the un-clamped rounded pattern is at least the pattern rounded down -/
theorem rnd_ge_floor (N sh : Nat) (x : Nat) (hx : x < INF)
    (h : x ≤ (N.log2 - (sh + 52)) * 2 ^ 52 + N / 2 ^ (sh + (N.log2 - (sh + 52)))) : x ≤ rnd N sh := by
  unfold rnd
  exact Nat.le_min.mpr ⟨Nat.le_trans h (Nat.le_add_right _ _), Nat.le_of_lt hx⟩

/-- KEY: a positive finite double times a factor worth at least `2^1074` units (≥ 1.0) rounds to
    a double that is not smaller -/
theorem rnd_mul_ge (x vf : Nat) (hx : x < INF) (hvf : 2 ^ 1074 ≤ vf) : x ≤ rnd (V x * vf) 1074 := by
  by_cases hx0 : x = 0
  · subst hx0; exact Nat.zero_le _
  -- N ≥ V x * 2^1074
  have hN : V x * 2 ^ 1074 ≤ V x * vf := Nat.mul_le_mul_left _ hvf
  apply rnd_ge_floor _ _ _ hx
  generalize hNdef : V x * vf = N at hN ⊢
  have hxd := Nat.div_add_mod x (2 ^ 52)
  have hfr : x % 2 ^ 52 < 2 ^ 52 := Nat.mod_lt _ (by decide)
  by_cases hE : x / 2 ^ 52 = 0
  · -- subnormal x: V x = x
    have hV : V x = x := by
      unfold V; simp only [hE, if_true]; omega
    rw [hV] at hN
    by_cases hq : N.log2 - (1074 + 52) = 0
    · rw [hq]
      simp only [Nat.add_zero, Nat.zero_mul, Nat.zero_add]
      rw [Nat.le_div_iff_mul_le (Nat.pow_pos (by decide))]
      exact hN
    · have : 1 ≤ N.log2 - (1074 + 52) := by omega
      have : 1 * 2 ^ 52 ≤ (N.log2 - (1074 + 52)) * 2 ^ 52 := Nat.mul_le_mul_right _ this
      clear hN hvf hNdef hV
      generalize N / 2 ^ (1074 + (N.log2 - (1074 + 52))) = k0
      omega
  · -- normal x: V x = (2^52 + frac) * 2^(E-1)
    have hV : V x = (2 ^ 52 + x % 2 ^ 52) * 2 ^ (x / 2 ^ 52 - 1) := by
      unfold V; simp only [hE, if_false]
    generalize hEdef : x / 2 ^ 52 = E at *
    generalize hfdef : x % 2 ^ 52 = fr at *
    have hE1 : 1 ≤ E := by omega
    -- N ≥ 2^(E + 1125)
    have hNlow : 2 ^ (E + 1125) ≤ N := by
      have h1 : 2 ^ 52 * 2 ^ (E - 1) ≤ (2 ^ 52 + fr) * 2 ^ (E - 1) :=
        Nat.mul_le_mul_right _ (Nat.le_add_right _ _)
      have h2 : 2 ^ (E + 1125) = 2 ^ 52 * 2 ^ (E - 1) * 2 ^ 1074 := by
        rw [← Nat.pow_add, ← Nat.pow_add]; congr 1; omega
      rw [h2]
      calc 2 ^ 52 * 2 ^ (E - 1) * 2 ^ 1074 ≤ (2 ^ 52 + fr) * 2 ^ (E - 1) * 2 ^ 1074 :=
            Nat.mul_le_mul_right _ h1
        _ = V x * 2 ^ 1074 := by rw [hV]
        _ ≤ N := hN
    have hN0 : N ≠ 0 := by
      have : 0 < 2 ^ (E + 1125) := Nat.pow_pos (by decide)
      omega
    have hL : E + 1125 ≤ N.log2 := (Nat.le_log2 hN0).mpr hNlow
    have hLl : 2 ^ N.log2 ≤ N := Nat.log2_self_le hN0
    generalize N.log2 = L at *
    by_cases hq : L - (1074 + 52) = E - 1
    · -- same binade: the floor of the significand is at least x's significand
      rw [hq]
      have hk : 2 ^ 52 + fr ≤ N / 2 ^ (1074 + (E - 1)) := by
        rw [Nat.le_div_iff_mul_le (Nat.pow_pos (by decide))]
        calc (2 ^ 52 + fr) * 2 ^ (1074 + (E - 1))
              = (2 ^ 52 + fr) * 2 ^ (E - 1) * 2 ^ 1074 := by
                rw [Nat.pow_add, Nat.mul_assoc, Nat.mul_comm (2 ^ 1074)]
          _ = V x * 2 ^ 1074 := by rw [hV]
          _ ≤ N := hN
      have : x = (E - 1) * 2 ^ 52 + (2 ^ 52 + fr) := by
        have : E * 2 ^ 52 = (E - 1) * 2 ^ 52 + 2 ^ 52 := by
          have : E = (E - 1) + 1 := by omega
          rw [this, Nat.add_mul]; simp
        rw [Nat.mul_comm] at hxd
        omega
      clear hN hvf hNdef hV hNlow hLl
      generalize N / 2 ^ (1074 + (E - 1)) = k0 at hk ⊢
      omega
    · -- a higher binade: q ≥ E, and the significand is at least 2^52
      have hqE : E ≤ L - (1074 + 52) := by omega
      have hqpos : 1074 + (L - (1074 + 52)) = L - 52 := by omega
      have hk : 2 ^ 52 ≤ N / 2 ^ (1074 + (L - (1074 + 52))) := by
        rw [hqpos, Nat.le_div_iff_mul_le (Nat.pow_pos (by decide)), ← Nat.pow_add]
        have : 52 + (L - 52) = L := by omega
        rw [this]; exact hLl
      have h1 : E * 2 ^ 52 ≤ (L - (1074 + 52)) * 2 ^ 52 := Nat.mul_le_mul_right _ hqE
      rw [Nat.mul_comm] at hxd
      clear hN hvf hNdef hV hNlow hLl
      generalize N / 2 ^ (1074 + (L - (1074 + 52))) = k0 at hk ⊢
      omega

/-- multiplication by a finite factor ≥ 1.0 never shrinks a finite double -/
theorem infl (f : B64) (hf : (1 : B64) ≤ f) (x : B64) (hx : x.bits < INF) : x ≤ x * f := by
  rw [le_def]
  show x.bits ≤ (if INF ≤ x.bits ∨ INF ≤ f.bits then (⟨INF⟩ : B64) else ⟨rnd (V x.bits * V f.bits) 1074⟩).bits
  split
  · show x.bits ≤ INF; omega
  · exact rnd_mul_ge x.bits (V f.bits) hx (V_ge_of_one_le f.bits hf)

/-- the order layer's hypotheses, from the plain ones: `stop` finite and positive, `factor ≥ 1.0` -/
theorem laws (f stop : B64) (hf : (1 : B64) ≤ f) (hs : (0 : B64) < stop) (hfin : stop.bits < INF) :
    Laws f stop :=
  ⟨hs, by decide, fun x _ hxs => infl f hf x (by rw [le_def] at hxs; omega)⟩

/-! ### representable values round to themselves; multiplying by 1.0 is exact -/

/-- `k * 2^q` quanta (`k < 2^53`, normalised: `2^52 ≤ k`, or `q = 0` for a subnormal) given exactly round
    to the pattern `q * 2^52 + k` -/
theorem rnd_exact (k q sh : Nat) (hk : k < 2 ^ 53) (hq : (q = 0 ∧ k < 2 ^ 52) ∨ 2 ^ 52 ≤ k)
    (hlt : q * 2 ^ 52 + k < INF) : rnd (k * 2 ^ (sh + q)) sh = q * 2 ^ 52 + k := by
  have hpos : 0 < 2 ^ (sh + q) := Nat.pow_pos (by decide)
  have hq' : (k * 2 ^ (sh + q)).log2 - (sh + 52) = q := by
    by_cases hk0 : k = 0
    · subst hk0
      rcases hq with ⟨h, _⟩ | h
      · simp [h, Nat.log2_zero]
      · exact absurd h (by decide)
    have hN0 : k * 2 ^ (sh + q) ≠ 0 := Nat.mul_ne_zero hk0 (by omega)
    rcases hq with ⟨h0, hks⟩ | hkn
    · subst h0
      have : (k * 2 ^ (sh + 0)).log2 < 52 + sh := by
        have e : 2 ^ (52 + sh) = 2 ^ 52 * 2 ^ (sh + 0) := by rw [Nat.add_zero, Nat.pow_add]
        rw [Nat.log2_lt hN0, e]
        exact Nat.mul_lt_mul_of_pos_right hks hpos
      omega
    · have h1 : 2 ^ (52 + (sh + q)) ≤ k * 2 ^ (sh + q) := by
        rw [Nat.pow_add]; exact Nat.mul_le_mul_right _ hkn
      have h2 : k * 2 ^ (sh + q) < 2 ^ (52 + (sh + q) + 1) := by
        have e : 2 ^ (52 + (sh + q) + 1) = 2 ^ 53 * 2 ^ (sh + q) := by
          rw [show 52 + (sh + q) + 1 = 53 + (sh + q) by omega, Nat.pow_add]
        rw [e]
        exact Nat.mul_lt_mul_of_pos_right hk hpos
      have := (Nat.log2_eq_iff hN0).mpr ⟨h1, h2⟩
      omega
  unfold rnd
  simp only [hq', Nat.mul_div_cancel _ hpos, Nat.mul_mod_left]
  have hp : 0 < 2 ^ (sh + q - 1) := Nat.pow_pos (by decide)
  have h1 : ¬ (2 ^ (sh + q - 1) < 0) := Nat.not_lt_zero _
  have h2 : ((0 : Nat) == 2 ^ (sh + q - 1)) = false := by
    simp only [beq_eq_false_iff_ne, ne_eq]; omega
  simp only [h1, h2, decide_false, Bool.false_and, Bool.or_false, Bool.false_eq_true, if_false, Nat.add_zero]
  exact Nat.min_eq_left (Nat.le_of_lt hlt)

theorem V_one : V ONE = 2 ^ 1074 := by decide +kernel

/-- multiplying a finite double by 1.0 is exact -/
theorem mul_one (x : B64) (hx : x.bits < INF) : x * 1 = x := by
  show (if INF ≤ x.bits ∨ INF ≤ ONE then (⟨INF⟩ : B64) else ⟨rnd (V x.bits * V ONE) 1074⟩) = x
  have h1 : ¬ (INF ≤ x.bits ∨ INF ≤ ONE) := by
    have : ¬ INF ≤ ONE := by decide
    omega
  simp only [h1, if_false]
  cases x with | mk b =>
  simp only [B64.mk.injEq]
  simp only at hx
  rw [V_one]
  have hxd := Nat.div_add_mod b (2 ^ 52)
  have hfr : b % 2 ^ 52 < 2 ^ 52 := Nat.mod_lt _ (by decide)
  by_cases hE : b / 2 ^ 52 = 0
  · have hV : V b = b := by unfold V; simp only [hE, if_true]; omega
    rw [hV]
    have := rnd_exact b 0 1074 (by omega) (Or.inl ⟨rfl, by omega⟩) (by omega)
    rw [Nat.add_zero, Nat.zero_mul, Nat.zero_add] at this
    exact this
  · have hV : V b = (2 ^ 52 + b % 2 ^ 52) * 2 ^ (b / 2 ^ 52 - 1) := by
      unfold V; simp only [hE, if_false]
    rw [hV]
    clear hV h1
    generalize b / 2 ^ 52 = E at *
    generalize b % 2 ^ 52 = fr at *
    obtain ⟨E', rfl⟩ : ∃ E', E = E' + 1 := ⟨E - 1, by omega⟩
    simp only [Nat.add_sub_cancel]
    have hb : E' * 2 ^ 52 + (2 ^ 52 + fr) = b := by
      rw [Nat.mul_comm, Nat.add_mul, Nat.one_mul] at hxd
      rw [← hxd, Nat.add_assoc]
    have := rnd_exact (2 ^ 52 + fr) E' 1074 (by omega) (Or.inr (Nat.le_add_right _ _))
      (by rw [hb]; exact hx)
    rw [hb] at this
    have e : (2 ^ 52 + fr) * 2 ^ E' * 2 ^ 1074 = (2 ^ 52 + fr) * 2 ^ (1074 + E') := by
      rw [Nat.mul_assoc, ← Nat.pow_add, Nat.add_comm E' 1074]
    rw [e]; exact this

end B64
end C15
