import BoltonsVerif.C15.Session
import BoltonsVerif.C15.Proofs
/-
C15 — helper lemmas about sessions (several calls, caller-side list changes, interleaved generators).
-/
set_option linter.unusedSectionVars false
namespace C15

/-- what looking again at the object of a `backoff` call shows -/
def readObs {α : Type} : Outcome α → Obs α
  | .finite vals => .vals vals
  | _ => .skip

section
variable {α : Type} [LE α] [LT α] [DecidableLE α] [DecidableLT α] [BEq α]
  [Mul α] [Sub α] [Neg α] [OfNat α 0] [OfNat α 1]

theorem step_length (fuel : Nat) (s : List (Obj α)) (op : Op α) :
    s.length ≤ (step fuel s op).1.length := by
  cases op with
  | callL p r => simp [step]
  | callI p r => simp [step]
  | pull k n => show _ ≤ (stepPull s k n).1.length; unfold stepPull; split <;> simp
  | chg k m => show _ ≤ (stepChg s k m).1.length; unfold stepChg; split <;> simp
  | read k => show _ ≤ (stepRead s k).1.length; unfold stepRead; split <;> simp

/-- frame: an operation leaves every object it does not address as it was -/
theorem step_frame (fuel : Nat) (s : List (Obj α)) (op : Op α) (j : Nat) (hj : j < s.length)
    (ht : op.target ≠ some j) : (step fuel s op).1[j]? = s[j]? := by
  cases op with
  | callL p r => simp [step, List.getElem?_append_left hj]
  | callI p r => simp [step, List.getElem?_append_left hj]
  | pull k n =>
    have hkj : k ≠ j := by intro e; apply ht; simp [Op.target, e]
    show (stepPull s k n).1[j]? = _
    unfold stepPull; split
    · simp [List.getElem?_set_ne hkj]
    · rfl
  | chg k m =>
    have hkj : k ≠ j := by intro e; apply ht; simp [Op.target, e]
    show (stepChg s k m).1[j]? = _
    unfold stepChg; split
    · simp [List.getElem?_set_ne hkj]
    · rfl
    · rfl
  | read k => show (stepRead s k).1[j]? = _; unfold stepRead; split <;> rfl

theorem runState_length (fuel : Nat) (ops : List (Op α)) (s : List (Obj α)) :
    s.length ≤ (runState fuel s ops).length := by
  induction ops generalizing s with
  | nil => simp [runState]
  | cons op ops ih =>
    simp only [runState]
    exact Nat.le_trans (step_length fuel s op) (ih _)

theorem runState_frame (fuel : Nat) (ops : List (Op α)) (s : List (Obj α)) (j : Nat) (hj : j < s.length)
    (h : ∀ op ∈ ops, op.target ≠ some j) : (runState fuel s ops)[j]? = s[j]? := by
  induction ops generalizing s with
  | nil => rfl
  | cons op ops ih =>
    simp only [runState]
    rw [ih _ (Nat.lt_of_lt_of_le hj (step_length fuel s op)) (fun o ho => h o (List.mem_cons_of_mem _ ho))]
    exact step_frame fuel s op j hj (h op List.mem_cons_self)

theorem runState_append (fuel : Nat) (pre post : List (Op α)) (s : List (Obj α)) :
    runState fuel s (pre ++ post) = runState fuel (runState fuel s pre) post := by
  induction pre generalizing s with
  | nil => rfl
  | cons op ops ih => simp only [List.cons_append, runState]; exact ih _

theorem run_length (fuel : Nat) (ops : List (Op α)) (s : List (Obj α)) :
    (run fuel s ops).length = ops.length := by
  induction ops generalizing s with
  | nil => rfl
  | cons op ops ih => simp [run, ih]

theorem run_append (fuel : Nat) (pre post : List (Op α)) (s : List (Obj α)) :
    run fuel s (pre ++ post) = run fuel s pre ++ run fuel (runState fuel s pre) post := by
  induction pre generalizing s with
  | nil => rfl
  | cons op ops ih => simp only [List.cons_append, run, runState, ih]

/-- the observation of the operation that follows the history `pre` -/
theorem run_at (fuel : Nat) (pre post : List (Op α)) (op : Op α) (s : List (Obj α)) :
    (run fuel s (pre ++ op :: post))[pre.length]? = some (step fuel (runState fuel s pre) op).2 := by
  rw [run_append, List.getElem?_append_right (by rw [run_length]; exact Nat.le_refl _), run_length]
  simp [run]

/-- the observation of the last operation of a history -/
theorem run_last (fuel : Nat) (pre : List (Op α)) (op : Op α) (s : List (Obj α)) :
    (run fuel s (pre ++ [op])).getLast? = some (step fuel (runState fuel s pre) op).2 := by
  rw [run_append]
  simp [run]

theorem pullObj_split (o : Obj α) (n m : Nat) :
    (pullObj (pullObj o n).1 m).1 = (pullObj o (n + m)).1 ∧
    (pullObj o (n + m)).2.values = (pullObj o n).2.values ++ (pullObj (pullObj o n).1 m).2.values := by
  cases o with
  | lst v => simp [pullObj, Obs.values]
  | failed => simp [pullObj, Obs.values]
  | genFin rest => simp [pullObj, Obs.values, List.take_add]
  | genInf val pos =>
    simp only [pullObj, Obs.values, Nat.add_assoc, true_and]
    rw [List.range_add, List.map_append, List.map_map]
    rfl
  | genErr =>
    cases n with
    | zero => cases m <;> simp [pullObj, Obs.values]
    | succ n' =>
      have : n' + 1 + m = (n' + m) + 1 := by omega
      rw [this]
      cases m <;> simp [pullObj, Obs.values]
  | genFuel =>
    cases n with
    | zero => cases m <;> simp [pullObj, Obs.values]
    | succ n' =>
      have : n' + 1 + m = (n' + m) + 1 := by omega
      rw [this]
      cases m <;> simp [pullObj, Obs.values]
  | genDead => simp [pullObj, Obs.values]

end
end C15
