import BoltonsVerif.C15.Proofs
/-
C15 — a carrier with ROUNDING arithmetic that satisfies the order layer's hypotheses.

`Fx` is fixed point with two fractional bits (the value of `⟨n⟩` is `n / 4`) whose product is
rounded UP to the next quarter: `a * b = ⌈a·b⌉`.  This `*` is not associative and `Fx` is no
ring, yet it is linearly ordered and multiplication by a factor ≥ 1 never shrinks a value —
which is all the order-layer theorems use.  It stands in for IEEE doubles (about which Lean
can prove nothing: `Float` is opaque) to show those theorems are not vacuous for inexact
arithmetic.
-/
namespace C15

structure Fx where
  q : Nat
  deriving DecidableEq, Repr

namespace Fx
instance : LE Fx := ⟨fun a b => a.q ≤ b.q⟩
instance : LT Fx := ⟨fun a b => a.q < b.q⟩
instance : DecidableLE Fx := fun a b => inferInstanceAs (Decidable (a.q ≤ b.q))
instance : DecidableLT Fx := fun a b => inferInstanceAs (Decidable (a.q < b.q))
instance : OfNat Fx 0 := ⟨⟨0⟩⟩
instance : OfNat Fx 1 := ⟨⟨4⟩⟩
/-- product rounded up to the next quarter -/
instance : Mul Fx := ⟨fun a b => ⟨(a.q * b.q + 3) / 4⟩⟩
instance : Sub Fx := ⟨fun a b => ⟨a.q - b.q⟩⟩
instance : Neg Fx := ⟨fun _ => ⟨0⟩⟩

theorem le_def (a b : Fx) : a ≤ b ↔ a.q ≤ b.q := Iff.rfl
theorem lt_def (a b : Fx) : a < b ↔ a.q < b.q := Iff.rfl
theorem mul_q (a b : Fx) : (a * b).q = (a.q * b.q + 3) / 4 := rfl

instance : Std.IsLinearOrder Fx where
  le_refl a := Nat.le_refl a.q
  le_trans a b c := by simp only [le_def]; omega
  le_antisymm a b := by
    cases a; cases b; simp only [le_def, Fx.mk.injEq]; omega
  le_total a b := by simp only [le_def]; omega

instance : Std.LawfulOrderLT Fx where
  lt_iff a b := by simp only [le_def, lt_def]; omega

/-- multiplication by a factor of at least one (`4 ≤ f.q`) never shrinks a value -/
theorem infl (f : Fx) (hf : 4 ≤ f.q) (x : Fx) : x ≤ x * f := by
  rw [le_def, mul_q]
  have : x.q * 4 ≤ x.q * f.q := Nat.mul_le_mul_left _ hf
  omega

theorem laws (f stop : Fx) (hf : 4 ≤ f.q) (hs : 0 < stop.q) : Laws f stop :=
  ⟨hs, by decide, fun x _ _ => infl f hf x⟩

end Fx
end C15
